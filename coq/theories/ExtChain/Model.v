(* ExtChain/Model.v -- transliteration of the extension-header bookkeeping of
   etherparse:
     net/ipv6_raw_ext_header.rs (+ _slice)   RawExt, raw_*
     net/ipv6_fragment_header.rs (+ _slice)  Frag, frag_*
     net/ip_auth_header.rs (+ _slice)        AuthH, auth_*
     net/ipv6_routing_exts.rs                RoutingExts
     net/ipv6_exts.rs                        Exts6: from_slice, from_slice_lax, write(_internal),
                                             header_len, set_next_headers, next_header,
                                             is_fragmenting_payload
     net/ipv4_exts.rs, net/ipv4_exts_slice.rs   Exts4: the same API
     net/ip_headers.rs, net/net_headers.rs   set_next_headers / next_header / header_len /
                                             try_set_next_headers
   Conventions: u8/u16/u32/usize values are N; narrowing casts are `mod 2^k`;
   checked indexing / slicing / unwrap / debug overflow are partial and yield
   [Panic]; unchecked reads yield [Panic] as well (site noted); `loop` is fuel
   with [OutOfFuel].  The writer is a Vec<u8>: a byte list that only grows
   (std::io errors are not modelled).

   Representation of the two headers with a private fixed-size buffer
   (Ipv6RawExtHeader.payload_buffer, IpAuthHeader.raw_icv_buffer): the model
   keeps the length field and the *visible* prefix `payload()` / `raw_icv()`
   (that is also what their PartialEq compares); the invariant
   `len payload = 6 + 8*header_length` / `len raw_icv = 4*raw_icv_len` is
   maintained by the only constructors (new_raw/set_payload, new/set_raw_icv)
   and is part of [raw_valid]/[auth_valid]. *)
From EP Require Import Base.Bytes.
Local Open Scope N_scope.

(* ------------------------------------------------------------------ *)
(* results *)

Inductive res (E A : Type) : Type :=
| Ok (a : A)
| Err (e : E)
| Panic        (* unwrap on None/Err, slice index out of range, debug overflow, unchecked read outside *)
| OutOfFuel.
Arguments Ok {E A} a.
Arguments Err {E A} e.
Arguments Panic {E A}.
Arguments OutOfFuel {E A}.

Definition bind {E A B} (r : res E A) (k : A -> res E B) : res E B :=
  match r with
  | Ok a => k a
  | Err e => Err e
  | Panic => Panic
  | OutOfFuel => OutOfFuel
  end.

Definition is_some {A} (o : option A) : bool :=
  match o with Some _ => true | None => false end.

(* ip_number::* *)
Definition IPV6_HOP_BY_HOP : N := 0.
Definition IPV6_ROUTE : N := 43.
Definition IPV6_FRAG : N := 44.
Definition AUTH : N := 51.
Definition IPV6_DEST_OPTIONS : N := 60.
(* EtherType::IPV4 / IPV6 *)
Definition ETHER_IPV4 : N := 2048.
Definition ETHER_IPV6 : N := 34525.

(* `match next_header { IPV6_HOP_BY_HOP => .. IPV6_DEST_OPTIONS => .. IPV6_ROUTE => ..
   IPV6_FRAG => .. AUTH => .. _ => .. }` : the arm that is taken *)
Inductive arm := AHop | ADest | ARoute | AFrag | AAuth | AOther.
Definition arm_of (n : N) : arm :=
  if n =? IPV6_HOP_BY_HOP then AHop
  else if n =? IPV6_DEST_OPTIONS then ADest
  else if n =? IPV6_ROUTE then ARoute
  else if n =? IPV6_FRAG then AFrag
  else if n =? AUTH then AAuth
  else AOther.

(* err::Layer (the ones that occur here) and err::LenError (len_source is
   always LenSource::Slice in these functions) *)
Inductive layer :=
| LIpAuthHeader | LIpv6ExtHeader | LIpv6HopByHopHeader | LIpv6DestOptionsHeader
| LIpv6RouteHeader | LIpv6FragHeader.

Record len_error := mkLenError {
  required_len : N;
  le_len : N;
  le_layer : layer;
  layer_start_offset : N
}.

Definition add_offset (e : len_error) (offset : N) : len_error :=
  mkLenError (required_len e) (le_len e) (le_layer e) (layer_start_offset e + offset).

(* `&s[n..]` : panics when n > s.len() *)
Definition slice_from (s : bytes) (n : N) : option bytes :=
  if n <=? len s then Some (drop n s) else None.

(* `a - b` on usize (debug build: panic on underflow) *)
Definition usize_sub (a b : N) : option N :=
  if b <=? a then Some (a - b) else None.

(* ------------------------------------------------------------------ *)
(* Ipv6RawExtHeader *)

Record RawExt := mkRaw {
  r_next_header : N;     (* IpNumber(u8) *)
  r_header_length : N;   (* u8 *)
  r_payload : bytes      (* payload() = payload_buffer[..6 + header_length*8] *)
}.

Definition RAW_MIN_PAYLOAD_LEN : N := 6.
Definition RAW_MAX_PAYLOAD_LEN : N := 2046.  (* 0xff * 8 + 6 *)
Definition RAW_MAX_LEN : N := 2048.          (* 8 + 8 * 0xff *)

Definition raw_valid (h : RawExt) : bool :=
  (r_next_header h <? 256) && (r_header_length h <? 256)
  && (len (r_payload h) =? 6 + r_header_length h * 8) && bytes_okb (r_payload h).

Inductive ext_payload_len_error := TooSmall (n : N) | TooBig (n : N) | Unaligned (n : N).

(* Ipv6RawExtHeader::new_raw *)
Definition raw_new_raw (next_header : N) (payload : bytes) : res ext_payload_len_error RawExt :=
  if len payload <? RAW_MIN_PAYLOAD_LEN then Err (TooSmall (len payload))
  else if RAW_MAX_PAYLOAD_LEN <? len payload then Err (TooBig (len payload))
  else if negb ((len payload + 2) mod 8 =? 0) then Err (Unaligned (len payload))
  else Ok (mkRaw next_header (((len payload - 6) / 8) mod 256) payload).   (* `as u8` *)

(* Ipv6RawExtHeader::header_len *)
Definition raw_header_len (h : RawExt) : N := 2 + (6 + r_header_length h * 8).

(* Ipv6RawExtHeader::to_bytes; None = the unwrap of try_extend_from_slice
   panics (ArrayVec capacity MAX_LEN) *)
Definition raw_to_bytes (h : RawExt) : option bytes :=
  if 2 + len (r_payload h) <=? RAW_MAX_LEN
  then Some (r_next_header h :: r_header_length h :: r_payload h)
  else None.

(* Ipv6RawExtHeaderSlice::from_slice: the validated sub-slice *)
Definition raw_slice_from_slice (s : bytes) : res len_error bytes :=
  if len s <? 8 then Err (mkLenError 8 (len s) LIpv6ExtHeader 0)
  else match rd s 1 with                      (* slice[1] *)
       | None => Panic
       | Some b1 =>
         let l := (b1 + 1) * 8 in
         if len s <? l then Err (mkLenError l (len s) LIpv6ExtHeader 0)
         else Ok (take l s)
       end.

(* Ipv6RawExtHeaderSlice::next_header: get_unchecked(0) *)
Definition raw_slice_next_header (sl : bytes) : option N := rd sl 0.

(* Ipv6RawExtHeaderSlice::payload: from_raw_parts(ptr+2, len-2) *)
Definition raw_slice_payload (sl : bytes) : option bytes :=
  match usize_sub (len sl) 2 with
  | Some _ => Some (drop 2 sl)
  | None => None
  end.

(* Ipv6RawExtHeaderSlice::to_header: new_raw(..).unwrap() *)
Definition raw_slice_to_header {E} (sl : bytes) : res E RawExt :=
  match raw_slice_next_header sl, raw_slice_payload sl with
  | Some nh, Some p =>
    match raw_new_raw nh p with
    | Ok h => Ok h
    | _ => Panic
    end
  | _, _ => Panic
  end.

(* ------------------------------------------------------------------ *)
(* Ipv6FragmentHeader *)

Record Frag := mkFrag {
  f_next_header : N;       (* IpNumber(u8) *)
  f_fragment_offset : N;   (* IpFragOffset: 13 bit *)
  f_more_fragments : bool;
  f_identification : N     (* u32 *)
}.

Definition frag_valid (h : Frag) : bool :=
  (f_next_header h <? 256) && (f_fragment_offset h <? 8192) && (f_identification h <? 4294967296).

Definition FRAG_LEN : N := 8.
Definition frag_header_len (_ : Frag) : N := FRAG_LEN.

(* Ipv6FragmentHeader::to_bytes:
   ((fragment_offset.value() << 3) | more as u16).to_be_bytes() *)
Definition frag_to_bytes (h : Frag) : bytes :=
  let fo := N.lor ((N.shiftl (f_fragment_offset h) 3) mod 65536)
                  (if f_more_fragments h then 1 else 0) in
  [f_next_header h; 0] ++ to_be16 fo ++ to_be32 (f_identification h).

(* Ipv6FragmentHeaderSlice::from_slice *)
Definition frag_slice_from_slice (s : bytes) : res len_error bytes :=
  if len s <? 8 then Err (mkLenError 8 (len s) LIpv6FragHeader 0)
  else Ok (take 8 s).

(* Ipv6FragmentHeaderSlice::to_header (all reads are get_unchecked) *)
Definition frag_slice_to_header {E} (sl : bytes) : res E Frag :=
  match rd sl 0, rd sl 2, rd sl 3, rd sl 4, rd sl 5, rd sl 6, rd sl 7 with
  | Some b0, Some b2, Some b3, Some b4, Some b5, Some b6, Some b7 =>
    Ok (mkFrag b0 (N.shiftr (be16 b2 b3) 3) (negb (N.land b3 1 =? 0)) (be32 b4 b5 b6 b7))
  | _, _, _, _, _, _, _ => Panic
  end.

(* Ipv6FragmentHeader::is_fragmenting_payload *)
Definition frag_is_fragmenting_payload (h : Frag) : bool :=
  f_more_fragments h || negb (f_fragment_offset h =? 0).

(* ------------------------------------------------------------------ *)
(* IpAuthHeader *)

Record AuthH := mkAuth {
  a_next_header : N;       (* IpNumber(u8) *)
  a_spi : N;               (* u32 *)
  a_sequence_number : N;   (* u32 *)
  a_raw_icv_len : N;       (* u8, in 4-octets, <= 0xfe *)
  a_raw_icv : bytes        (* raw_icv() = raw_icv_buffer[..raw_icv_len*4] *)
}.

Definition AUTH_MIN_LEN : N := 12.
Definition AUTH_MAX_ICV_LEN : N := 1016.   (* 0xfe * 4 *)

Definition auth_valid (h : AuthH) : bool :=
  (a_next_header h <? 256) && (a_spi h <? 4294967296) && (a_sequence_number h <? 4294967296)
  && (a_raw_icv_len h <? 255) && (len (a_raw_icv h) =? a_raw_icv_len h * 4) && bytes_okb (a_raw_icv h).

Inductive icv_len_error := IcvTooBig (n : N) | IcvUnaligned (n : N).

(* IpAuthHeader::new *)
Definition auth_new (next_header spi sequence_number : N) (raw_icv : bytes) : res icv_len_error AuthH :=
  if AUTH_MAX_ICV_LEN <? len raw_icv then Err (IcvTooBig (len raw_icv))
  else if negb ((len raw_icv) mod 4 =? 0) then Err (IcvUnaligned (len raw_icv))
  else Ok (mkAuth next_header spi sequence_number ((len raw_icv / 4) mod 256) raw_icv).  (* `as u8` *)

(* IpAuthHeader::header_len *)
Definition auth_header_len (h : AuthH) : N := 12 + a_raw_icv_len h * 4.

(* IpAuthHeader::to_bytes: 12 fixed bytes, then the whole icv buffer, then
   set_len(header_len()).  `self.raw_icv_len + 1` is u8 arithmetic (debug
   build: panic at 255). *)
Definition auth_to_bytes (h : AuthH) : option bytes :=
  if a_raw_icv_len h + 1 <? 256
  then Some ([a_next_header h; a_raw_icv_len h + 1; 0; 0]
             ++ to_be32 (a_spi h) ++ to_be32 (a_sequence_number h) ++ a_raw_icv h)
  else None.

(* err::ip_auth::HeaderSliceError *)
Inductive auth_slice_error := ALen (e : len_error) | AZeroPayloadLen.

(* IpAuthHeaderSlice::from_slice *)
Definition auth_slice_from_slice (s : bytes) : res auth_slice_error bytes :=
  if len s <? AUTH_MIN_LEN then Err (ALen (mkLenError AUTH_MIN_LEN (len s) LIpAuthHeader 0))
  else match rd s 1 with                       (* get_unchecked(1) *)
       | None => Panic
       | Some payload_len_enc =>
         if payload_len_enc <? 1 then Err AZeroPayloadLen
         else
           let l := (payload_len_enc + 2) * 4 in
           if len s <? l then Err (ALen (mkLenError l (len s) LIpAuthHeader 0))
           else Ok (take l s)
       end.

Definition auth_slice_next_header (sl : bytes) : option N := rd sl 0.

(* IpAuthHeaderSlice::to_header: IpAuthHeader::new(next_header, spi, seq, &slice[12..]).unwrap() *)
Definition auth_slice_to_header {E} (sl : bytes) : res E AuthH :=
  match rd sl 0, rd sl 4, rd sl 5, rd sl 6, rd sl 7, rd sl 8, rd sl 9, rd sl 10, rd sl 11, slice_from sl 12 with
  | Some b0, Some b4, Some b5, Some b6, Some b7, Some b8, Some b9, Some b10, Some b11, Some icv =>
    match auth_new b0 (be32 b4 b5 b6 b7) (be32 b8 b9 b10 b11) icv with
    | Ok h => Ok h
    | _ => Panic
    end
  | _, _, _, _, _, _, _, _, _, _ => Panic
  end.

(* ------------------------------------------------------------------ *)
(* Ipv6RoutingExtensions, Ipv6Extensions *)

Record RoutingExts := mkRouting {
  rt_routing : RawExt;
  rt_final_destination_options : option RawExt
}.

Record Exts6 := mkExts6 {
  hop_by_hop_options : option RawExt;
  destination_options : option RawExt;
  routing : option RoutingExts;
  fragment : option Frag;
  auth : option AuthH
}.

Definition exts6_default : Exts6 := mkExts6 None None None None None.

Definition opt_valid {A} (v : A -> bool) (o : option A) : bool :=
  match o with Some a => v a | None => true end.

Definition routing_valid (r : RoutingExts) : bool :=
  raw_valid (rt_routing r) && opt_valid raw_valid (rt_final_destination_options r).

Definition exts6_valid (e : Exts6) : bool :=
  opt_valid raw_valid (hop_by_hop_options e) && opt_valid raw_valid (destination_options e)
  && opt_valid routing_valid (routing e) && opt_valid frag_valid (fragment e)
  && opt_valid auth_valid (auth e).

(* field updates *)
Definition set_hop (e : Exts6) (h : RawExt) : Exts6 :=
  mkExts6 (Some h) (destination_options e) (routing e) (fragment e) (auth e).
Definition set_dst (e : Exts6) (h : RawExt) : Exts6 :=
  mkExts6 (hop_by_hop_options e) (Some h) (routing e) (fragment e) (auth e).
Definition set_routing (e : Exts6) (r : RoutingExts) : Exts6 :=
  mkExts6 (hop_by_hop_options e) (destination_options e) (Some r) (fragment e) (auth e).
Definition set_frag (e : Exts6) (h : Frag) : Exts6 :=
  mkExts6 (hop_by_hop_options e) (destination_options e) (routing e) (Some h) (auth e).
Definition set_auth (e : Exts6) (h : AuthH) : Exts6 :=
  mkExts6 (hop_by_hop_options e) (destination_options e) (routing e) (fragment e) (Some h).

(* err::ipv6_exts::HeaderSliceError *)
Inductive hdr_slice_error :=
| HLen (e : len_error)
| HHopByHopNotAtStart
| HIpAuthZeroPayloadLen.

(* the four statements every raw-header arm of from_slice repeats:
     let slice = Ipv6RawExtHeaderSlice::from_slice(rest).map_err(|err| Len(err.add_offset(slice.len() - rest.len())))?;
     rest = &rest[slice.slice().len()..];
     next_header = slice.next_header();
     ... = Some(slice.to_header());
   result: (header, next_header, rest).  The offset is only computed on the
   error path (closure).  [with_offset = false] is the hop-by-hop arm, which
   uses `.map_err(Len)`. *)
Definition offset_err (with_offset : bool) (slice rest : bytes) (e : len_error) : res hdr_slice_error len_error :=
  if with_offset then
    match usize_sub (len slice) (len rest) with
    | Some off => Ok (add_offset e off)
    | None => Panic
    end
  else Ok e.

Definition read_raw (with_offset : bool) (slice rest : bytes) : res hdr_slice_error (RawExt * N * bytes) :=
  match raw_slice_from_slice rest with
  | Err e => bind (offset_err with_offset slice rest e) (fun e' => Err (HLen e'))
  | Panic => Panic
  | OutOfFuel => OutOfFuel
  | Ok sl =>
    match slice_from rest (len sl), raw_slice_next_header sl with
    | Some rest', Some nh => bind (raw_slice_to_header sl) (fun h => Ok (h, nh, rest'))
    | _, _ => Panic
    end
  end.

Definition read_frag (slice rest : bytes) : res hdr_slice_error (Frag * N * bytes) :=
  match frag_slice_from_slice rest with
  | Err e => bind (offset_err true slice rest e) (fun e' => Err (HLen e'))
  | Panic => Panic
  | OutOfFuel => OutOfFuel
  | Ok sl =>
    match slice_from rest (len sl), rd sl 0 with
    | Some rest', Some nh => bind (frag_slice_to_header sl) (fun h => Ok (h, nh, rest'))
    | _, _ => Panic
    end
  end.

Definition read_auth (slice rest : bytes) : res hdr_slice_error (AuthH * N * bytes) :=
  match auth_slice_from_slice rest with
  | Err (ALen e) => bind (offset_err true slice rest e) (fun e' => Err (HLen e'))
  | Err AZeroPayloadLen => Err HIpAuthZeroPayloadLen
  | Panic => Panic
  | OutOfFuel => OutOfFuel
  | Ok sl =>
    match slice_from rest (len sl), auth_slice_next_header sl with
    | Some rest', Some nh => bind (auth_slice_to_header sl) (fun h => Ok (h, nh, rest'))
    | _, _ => Panic
    end
  end.

(* the `loop` of Ipv6Extensions::from_slice *)
Fixpoint from_slice_loop (fuel : nat) (slice : bytes) (result : Exts6) (rest : bytes) (next_header : N)
  : res hdr_slice_error (Exts6 * N * bytes) :=
  match fuel with
  | O => OutOfFuel
  | S f =>
    match arm_of next_header with
    | AHop => Err HHopByHopNotAtStart
    | ADest =>
      match routing result with
      | Some r =>
        if is_some (rt_final_destination_options r) then Ok (result, next_header, rest)
        else bind (read_raw true slice rest) (fun '(h, nh, rest') =>
               from_slice_loop f slice (set_routing result (mkRouting (rt_routing r) (Some h))) rest' nh)
      | None =>
        if is_some (destination_options result) then Ok (result, next_header, rest)
        else bind (read_raw true slice rest) (fun '(h, nh, rest') =>
               from_slice_loop f slice (set_dst result h) rest' nh)
      end
    | ARoute =>
      if is_some (routing result) then Ok (result, next_header, rest)
      else bind (read_raw true slice rest) (fun '(h, nh, rest') =>
             from_slice_loop f slice (set_routing result (mkRouting h None)) rest' nh)
    | AFrag =>
      if is_some (fragment result) then Ok (result, next_header, rest)
      else bind (read_frag slice rest) (fun '(h, nh, rest') =>
             from_slice_loop f slice (set_frag result h) rest' nh)
    | AAuth =>
      if is_some (auth result) then Ok (result, next_header, rest)
      else bind (read_auth slice rest) (fun '(h, nh, rest') =>
             from_slice_loop f slice (set_auth result h) rest' nh)
    | AOther => Ok (result, next_header, rest)
    end
  end.

(* every iteration that does not return fills one of five empty places *)
Definition LOOP_FUEL : nat := 6.

(* Ipv6Extensions::from_slice *)
Definition from_slice (start_ip_number : N) (slice : bytes) : res hdr_slice_error (Exts6 * N * bytes) :=
  if IPV6_HOP_BY_HOP =? start_ip_number then
    bind (read_raw false slice slice) (fun '(h, nh, rest') =>
      from_slice_loop LOOP_FUEL slice (set_hop exts6_default h) rest' nh)
  else from_slice_loop LOOP_FUEL slice exts6_default slice start_ip_number.

(* Ipv6Extensions::from_slice_lax: (result, next_header, rest, Option<(error, layer)>) *)
Definition lax_result := (Exts6 * N * bytes * option (hdr_slice_error * layer))%type.

(* as read_* but the error is handed back to the caller *)
Inductive lax_step (A : Type) :=
| LaxOk (h : A) (nh : N) (rest : bytes)
| LaxErr (e : hdr_slice_error)
| LaxPanic.
Arguments LaxOk {A}. Arguments LaxErr {A}. Arguments LaxPanic {A}.

Definition lax_of {A} (r : res hdr_slice_error (A * N * bytes)) : lax_step A :=
  match r with
  | Ok (h, nh, rest) => LaxOk h nh rest
  | Err e => LaxErr e
  | _ => LaxPanic
  end.

Fixpoint from_slice_lax_loop (fuel : nat) (slice : bytes) (result : Exts6) (rest : bytes) (next_header : N)
  : res unit lax_result :=
  match fuel with
  | O => OutOfFuel
  | S f =>
    match arm_of next_header with
    | AHop => Ok (result, next_header, rest, Some (HHopByHopNotAtStart, LIpv6HopByHopHeader))
    | ADest =>
      match routing result with
      | Some r =>
        if is_some (rt_final_destination_options r) then Ok (result, next_header, rest, None)
        else match lax_of (read_raw true slice rest) with
             | LaxOk h nh rest' =>
               from_slice_lax_loop f slice (set_routing result (mkRouting (rt_routing r) (Some h))) rest' nh
             | LaxErr e => Ok (result, next_header, rest, Some (e, LIpv6DestOptionsHeader))
             | LaxPanic => Panic
             end
      | None =>
        if is_some (destination_options result) then Ok (result, next_header, rest, None)
        else match lax_of (read_raw true slice rest) with
             | LaxOk h nh rest' => from_slice_lax_loop f slice (set_dst result h) rest' nh
             | LaxErr e => Ok (result, next_header, rest, Some (e, LIpv6DestOptionsHeader))
             | LaxPanic => Panic
             end
      end
    | ARoute =>
      if is_some (routing result) then Ok (result, next_header, rest, None)
      else match lax_of (read_raw true slice rest) with
           | LaxOk h nh rest' => from_slice_lax_loop f slice (set_routing result (mkRouting h None)) rest' nh
           | LaxErr e => Ok (result, next_header, rest, Some (e, LIpv6RouteHeader))
           | LaxPanic => Panic
           end
    | AFrag =>
      if is_some (fragment result) then Ok (result, next_header, rest, None)
      else match lax_of (read_frag slice rest) with
           | LaxOk h nh rest' => from_slice_lax_loop f slice (set_frag result h) rest' nh
           | LaxErr e => Ok (result, next_header, rest, Some (e, LIpv6FragHeader))
           | LaxPanic => Panic
           end
    | AAuth =>
      if is_some (auth result) then Ok (result, next_header, rest, None)
      else match lax_of (read_auth slice rest) with
           | LaxOk h nh rest' => from_slice_lax_loop f slice (set_auth result h) rest' nh
           | LaxErr e => Ok (result, next_header, rest, Some (e, LIpAuthHeader))
           | LaxPanic => Panic
           end
    | AOther => Ok (result, next_header, rest, None)
    end
  end.

Definition from_slice_lax (start_ip_number : N) (slice : bytes) : res unit lax_result :=
  if IPV6_HOP_BY_HOP =? start_ip_number then
    match lax_of (read_raw false slice slice) with
    | LaxOk h nh rest' => from_slice_lax_loop LOOP_FUEL slice (set_hop exts6_default h) rest' nh
    | LaxErr e => Ok (exts6_default, start_ip_number, slice, Some (e, LIpv6HopByHopHeader))
    | LaxPanic => Panic
    end
  else from_slice_lax_loop LOOP_FUEL slice exts6_default slice start_ip_number.

(* ------------------------------------------------------------------ *)
(* write_internal / next_header *)

(* err::ipv6_exts::ExtsWalkError (err::ipv4_exts::ExtsWalkError has only the
   second constructor) *)
Inductive walk_error :=
| HopByHopNotAtStart
| ExtNotReferenced (missing_ext : N).

(* struct NeedsWrite / struct OutstandingRef (two local structs with the same
   six bool fields) *)
Record Flags := mkFlags {
  fl_hop_by_hop_options : bool;
  fl_destination_options : bool;
  fl_routing : bool;
  fl_fragment : bool;
  fl_auth : bool;
  fl_final_destination_options : bool
}.

Definition flags_init (e : Exts6) : Flags :=
  mkFlags (is_some (hop_by_hop_options e)) (is_some (destination_options e))
          (is_some (routing e)) (is_some (fragment e)) (is_some (auth e))
          (match routing e with
           | Some r => is_some (rt_final_destination_options r)
           | None => false
           end).

Definition clr_hop (f : Flags) := mkFlags false (fl_destination_options f) (fl_routing f) (fl_fragment f) (fl_auth f) (fl_final_destination_options f).
Definition clr_dst (f : Flags) := mkFlags (fl_hop_by_hop_options f) false (fl_routing f) (fl_fragment f) (fl_auth f) (fl_final_destination_options f).
Definition clr_routing (f : Flags) := mkFlags (fl_hop_by_hop_options f) (fl_destination_options f) false (fl_fragment f) (fl_auth f) (fl_final_destination_options f).
Definition clr_frag (f : Flags) := mkFlags (fl_hop_by_hop_options f) (fl_destination_options f) (fl_routing f) false (fl_auth f) (fl_final_destination_options f).
Definition clr_auth (f : Flags) := mkFlags (fl_hop_by_hop_options f) (fl_destination_options f) (fl_routing f) (fl_fragment f) false (fl_final_destination_options f).
Definition clr_final (f : Flags) := mkFlags (fl_hop_by_hop_options f) (fl_destination_options f) (fl_routing f) (fl_fragment f) (fl_auth f) false.

(* the if/else-if chain behind the loop ("check that all header have been written") *)
Definition check_all_done {A} (f : Flags) (ok : A) : res walk_error A :=
  if fl_hop_by_hop_options f then Err (ExtNotReferenced IPV6_HOP_BY_HOP)
  else if fl_destination_options f then Err (ExtNotReferenced IPV6_DEST_OPTIONS)
  else if fl_routing f then Err (ExtNotReferenced IPV6_ROUTE)
  else if fl_fragment f then Err (ExtNotReferenced IPV6_FRAG)
  else if fl_auth f then Err (ExtNotReferenced AUTH)
  else if fl_final_destination_options f then Err (ExtNotReferenced IPV6_DEST_OPTIONS)
  else Ok ok.

(* the `loop` of write_internal.  Result: content of the writer, Result. *)
Fixpoint write_loop (fuel : nat) (e : Exts6) (needs_write : Flags) (next_header : N)
         (route_written : bool) (w : bytes) : bytes * res walk_error unit :=
  match fuel with
  | O => (w, OutOfFuel)
  | S f =>
    match arm_of next_header with
    | AHop =>
      if fl_hop_by_hop_options needs_write then (w, Err HopByHopNotAtStart)
      else (w, check_all_done needs_write tt)
    | ADest =>
      if route_written then
        if fl_final_destination_options needs_write then
          match routing e with                                     (* .as_ref().unwrap() *)
          | None => (w, Panic)
          | Some r =>
            match rt_final_destination_options r with              (* .as_ref().unwrap() *)
            | None => (w, Panic)
            | Some header =>
              match raw_to_bytes header with
              | None => (w, Panic)
              | Some bs => write_loop f e (clr_final needs_write) (r_next_header header) route_written (w ++ bs)
              end
            end
          end
        else (w, check_all_done needs_write tt)
      else if fl_destination_options needs_write then
        match destination_options e with                           (* .as_ref().unwrap() *)
        | None => (w, Panic)
        | Some header =>
          match raw_to_bytes header with
          | None => (w, Panic)
          | Some bs => write_loop f e (clr_dst needs_write) (r_next_header header) route_written (w ++ bs)
          end
        end
      else (w, check_all_done needs_write tt)
    | ARoute =>
      if fl_routing needs_write then
        match routing e with                                       (* .as_ref().unwrap() *)
        | None => (w, Panic)
        | Some r =>
          let header := rt_routing r in
          match raw_to_bytes header with
          | None => (w, Panic)
          | Some bs => write_loop f e (clr_routing needs_write) (r_next_header header) true (w ++ bs)
          end
        end
      else (w, check_all_done needs_write tt)
    | AFrag =>
      if fl_fragment needs_write then
        match fragment e with                                      (* .as_ref().unwrap() *)
        | None => (w, Panic)
        | Some header =>
          write_loop f e (clr_frag needs_write) (f_next_header header) route_written (w ++ frag_to_bytes header)
        end
      else (w, check_all_done needs_write tt)
    | AAuth =>
      if fl_auth needs_write then
        match auth e with                                          (* .as_ref().unwrap() *)
        | None => (w, Panic)
        | Some header =>
          match auth_to_bytes header with
          | None => (w, Panic)
          | Some bs => write_loop f e (clr_auth needs_write) (a_next_header header) route_written (w ++ bs)
          end
        end
      else (w, check_all_done needs_write tt)
    | AOther => (w, check_all_done needs_write tt)
    end
  end.

(* Ipv6Extensions::write (-> write_internal) into an empty Vec *)
Definition write (e : Exts6) (first_header : N) : bytes * res walk_error unit :=
  let needs_write := flags_init e in
  if IPV6_HOP_BY_HOP =? first_header then
    match hop_by_hop_options e with
    | Some header =>
      match raw_to_bytes header with
      | None => ([], Panic)
      | Some bs => write_loop LOOP_FUEL e (clr_hop needs_write) (r_next_header header) false bs
      end
    | None => write_loop LOOP_FUEL e needs_write first_header false []
    end
  else write_loop LOOP_FUEL e needs_write first_header false [].

(* the `loop` of Ipv6Extensions::next_header *)
Fixpoint next_header_loop (fuel : nat) (e : Exts6) (outstanding_refs : Flags) (next : N)
         (route_refed : bool) : res walk_error N :=
  match fuel with
  | O => OutOfFuel
  | S f =>
    match arm_of next with
    | AHop =>
      if fl_hop_by_hop_options outstanding_refs then Err HopByHopNotAtStart
      else check_all_done outstanding_refs next
    | ADest =>
      if route_refed then
        if fl_final_destination_options outstanding_refs then
          match routing e with
          | None => Panic
          | Some r =>
            match rt_final_destination_options r with
            | None => Panic
            | Some header =>
              next_header_loop f e (clr_final outstanding_refs) (r_next_header header) route_refed
            end
          end
        else check_all_done outstanding_refs next
      else if fl_destination_options outstanding_refs then
        match destination_options e with
        | None => Panic
        | Some header => next_header_loop f e (clr_dst outstanding_refs) (r_next_header header) route_refed
        end
      else check_all_done outstanding_refs next
    | ARoute =>
      if fl_routing outstanding_refs then
        match routing e with
        | None => Panic
        | Some r => next_header_loop f e (clr_routing outstanding_refs) (r_next_header (rt_routing r)) true
        end
      else check_all_done outstanding_refs next
    | AFrag =>
      if fl_fragment outstanding_refs then
        match fragment e with
        | None => Panic
        | Some header => next_header_loop f e (clr_frag outstanding_refs) (f_next_header header) route_refed
        end
      else check_all_done outstanding_refs next
    | AAuth =>
      if fl_auth outstanding_refs then
        match auth e with
        | None => Panic
        | Some header => next_header_loop f e (clr_auth outstanding_refs) (a_next_header header) route_refed
        end
      else check_all_done outstanding_refs next
    | AOther => check_all_done outstanding_refs next
    end
  end.

(* Ipv6Extensions::next_header *)
Definition next_header (e : Exts6) (first_next_header : N) : res walk_error N :=
  let outstanding_refs := flags_init e in
  if IPV6_HOP_BY_HOP =? first_next_header then
    match hop_by_hop_options e with
    | Some header => next_header_loop LOOP_FUEL e (clr_hop outstanding_refs) (r_next_header header) false
    | None => next_header_loop LOOP_FUEL e outstanding_refs first_next_header false
    end
  else next_header_loop LOOP_FUEL e outstanding_refs first_next_header false.

(* Ipv6RoutingExtensions::header_len is not used by Ipv6Extensions::header_len,
   which adds the two parts itself *)
Definition header_len (e : Exts6) : N :=
  let result := 0 in
  let result := match hop_by_hop_options e with Some h => result + raw_header_len h | None => result end in
  let result := match destination_options e with Some h => result + raw_header_len h | None => result end in
  let result := match routing e with
                | Some r =>
                  let result := result + raw_header_len (rt_routing r) in
                  match rt_final_destination_options r with
                  | Some h => result + raw_header_len h
                  | None => result
                  end
                | None => result
                end in
  let result := match fragment e with Some h => result + frag_header_len h | None => result end in
  let result := match auth e with Some h => result + auth_header_len h | None => result end in
  result.

Definition raw_set_next_header (h : RawExt) (n : N) : RawExt := mkRaw n (r_header_length h) (r_payload h).
Definition frag_set_next_header (h : Frag) (n : N) : Frag :=
  mkFrag n (f_fragment_offset h) (f_more_fragments h) (f_identification h).
Definition auth_set_next_header (h : AuthH) (n : N) : AuthH :=
  mkAuth n (a_spi h) (a_sequence_number h) (a_raw_icv_len h) (a_raw_icv h).

(* Ipv6Extensions::set_next_headers: the six `if let Some(ref mut ..)` in the
   order of the source; result: the updated struct and the returned number *)
Definition set_next_headers (e : Exts6) (last_protocol_number : N) : Exts6 * N :=
  let next := last_protocol_number in
  let '(routing1, next) :=
    match routing e with
    | Some r =>
      match rt_final_destination_options r with
      | Some header => (Some (mkRouting (rt_routing r) (Some (raw_set_next_header header next))), IPV6_DEST_OPTIONS)
      | None => (Some r, next)
      end
    | None => (None, next)
    end in
  let '(auth1, next) :=
    match auth e with
    | Some header => (Some (auth_set_next_header header next), AUTH)
    | None => (None, next)
    end in
  let '(fragment1, next) :=
    match fragment e with
    | Some header => (Some (frag_set_next_header header next), IPV6_FRAG)
    | None => (None, next)
    end in
  let '(routing2, next) :=
    match routing1 with
    | Some r => (Some (mkRouting (raw_set_next_header (rt_routing r) next) (rt_final_destination_options r)), IPV6_ROUTE)
    | None => (None, next)
    end in
  let '(destination_options1, next) :=
    match destination_options e with
    | Some header => (Some (raw_set_next_header header next), IPV6_DEST_OPTIONS)
    | None => (None, next)
    end in
  let '(hop_by_hop_options1, next) :=
    match hop_by_hop_options e with
    | Some header => (Some (raw_set_next_header header next), IPV6_HOP_BY_HOP)
    | None => (None, next)
    end in
  (mkExts6 hop_by_hop_options1 destination_options1 routing2 fragment1 auth1, next).

(* Ipv6Extensions::is_fragmenting_payload *)
Definition is_fragmenting_payload (e : Exts6) : bool :=
  match fragment e with
  | Some frag => frag_is_fragmenting_payload frag
  | None => false
  end.

(* ------------------------------------------------------------------ *)
(* Ipv4Extensions (+ Ipv4ExtensionsSlice::from_slice / from_slice_lax + to_header) *)

Record Exts4 := mkExts4 { auth4 : option AuthH }.

Definition exts4_valid (e : Exts4) : bool := opt_valid auth_valid (auth4 e).

(* Ipv4Extensions::from_slice *)
Definition from_slice4 (start_ip_number : N) (start_slice : bytes) : res auth_slice_error (Exts4 * N * bytes) :=
  if AUTH =? start_ip_number then
    bind (auth_slice_from_slice start_slice) (fun header =>
      match slice_from start_slice (len header), auth_slice_next_header header with
      | Some rest, Some nh =>
        bind (auth_slice_to_header header) (fun h => Ok (mkExts4 (Some h), nh, rest))
      | _, _ => Panic
      end)
  else Ok (mkExts4 None, start_ip_number, start_slice).

(* Ipv4Extensions::from_slice_lax *)
Definition from_slice_lax4 (start_ip_number : N) (start_slice : bytes)
  : res unit (Exts4 * N * bytes * option auth_slice_error) :=
  if AUTH =? start_ip_number then
    match auth_slice_from_slice start_slice with
    | Ok header =>
      (* from_raw_parts(ptr + len header, start_slice.len() - len header) *)
      match usize_sub (len start_slice) (len header), auth_slice_next_header header with
      | Some _, Some nh =>
        bind (auth_slice_to_header header) (fun h => Ok (mkExts4 (Some h), nh, drop (len header) start_slice, None))
      | _, _ => Panic
      end
    | Err err => Ok (mkExts4 None, start_ip_number, start_slice, Some err)
    | Panic => Panic
    | OutOfFuel => OutOfFuel
    end
  else Ok (mkExts4 None, start_ip_number, start_slice, None).

(* Ipv4Extensions::write (-> write_internal) into an empty Vec *)
Definition write4 (e : Exts4) (start_ip_number : N) : bytes * res walk_error unit :=
  match auth4 e with
  | Some header =>
    if AUTH =? start_ip_number then
      match auth_to_bytes header with
      | Some bs => (bs, Ok tt)
      | None => ([], Panic)
      end
    else ([], Err (ExtNotReferenced AUTH))
  | None => ([], Ok tt)
  end.

Definition header_len4 (e : Exts4) : N :=
  match auth4 e with Some h => auth_header_len h | None => 0 end.

Definition set_next_headers4 (e : Exts4) (last_protocol_number : N) : Exts4 * N :=
  let next := last_protocol_number in
  match auth4 e with
  | Some header => (mkExts4 (Some (auth_set_next_header header next)), AUTH)
  | None => (mkExts4 None, next)
  end.

Definition next_header4 (e : Exts4) (first_next_header : N) : res walk_error N :=
  match auth4 e with
  | Some a =>
    if first_next_header =? AUTH then Ok (a_next_header a)
    else Err (ExtNotReferenced AUTH)
  | None => Ok first_next_header
  end.

(* ------------------------------------------------------------------ *)
(* IpHeaders / NetHeaders: only the fields these functions touch.
   Ipv4Header: protocol and options.len() (header_len = 20 + options.len());
   Ipv6Header: next_header (Ipv6Header::LEN = 40). *)

Inductive IpHeaders :=
| Ipv4 (protocol : N) (options_len : N) (exts : Exts4)
| Ipv6 (nh : N) (exts : Exts6).

(* err::ip_exts::ExtsWalkError *)
Inductive ip_walk_error := Ipv4Exts (e : walk_error) | Ipv6Exts (e : walk_error).

Definition map_err {E F A} (f : E -> F) (r : res E A) : res F A :=
  match r with Ok a => Ok a | Err e => Err (f e) | Panic => Panic | OutOfFuel => OutOfFuel end.

Definition ip_header_len (h : IpHeaders) : N :=
  match h with
  | Ipv4 _ ol ex => (20 + ol) + header_len4 ex
  | Ipv6 _ ex => 40 + header_len ex
  end.

Definition ip_next_header (h : IpHeaders) : res ip_walk_error N :=
  match h with
  | Ipv4 p _ ex => map_err Ipv4Exts (next_header4 ex p)
  | Ipv6 n ex => map_err Ipv6Exts (next_header ex n)
  end.

(* IpHeaders::set_next_headers: updated headers, returned EtherType *)
Definition ip_set_next_headers (h : IpHeaders) (last_next_header : N) : IpHeaders * N :=
  match h with
  | Ipv4 _ ol ex => let '(ex', f) := set_next_headers4 ex last_next_header in (Ipv4 f ol ex', ETHER_IPV4)
  | Ipv6 _ ex => let '(ex', f) := set_next_headers ex last_next_header in (Ipv6 f ex', ETHER_IPV6)
  end.

Inductive NetHeaders :=
| NetIpv4 (protocol : N) (options_len : N) (exts : Exts4)
| NetIpv6 (nh : N) (exts : Exts6)
| NetArp.

Inductive net_set_next_header_error := ArpHeader.

(* NetHeaders::try_set_next_headers *)
Definition net_try_set_next_headers (h : NetHeaders) (last_next_header : N)
  : NetHeaders * res net_set_next_header_error N :=
  match h with
  | NetIpv4 _ ol ex => let '(ex', f) := set_next_headers4 ex last_next_header in (NetIpv4 f ol ex', Ok ETHER_IPV4)
  | NetIpv6 _ ex => let '(ex', f) := set_next_headers ex last_next_header in (NetIpv6 f ex', Ok ETHER_IPV6)
  | NetArp => (NetArp, Err ArpHeader)
  end.

(* From<IpHeaders> for NetHeaders *)
Definition net_of_ip (h : IpHeaders) : NetHeaders :=
  match h with
  | Ipv4 p ol ex => NetIpv4 p ol ex
  | Ipv6 n ex => NetIpv6 n ex
  end.
