(* Base/Bytes.v -- bytes as N < 256, byte strings as lists, big-endian readers.
   No proofs about the crate live here; only the vocabulary shared by every
   model and specification file. *)
From Coq Require Export List NArith Bool Lia Arith Wf_nat.
Export ListNotations.
Open Scope N_scope.

Arguments N.add : simpl never.
Arguments N.sub : simpl never.
Arguments N.mul : simpl never.
Arguments N.div : simpl never.
Arguments N.modulo : simpl never.
Arguments N.eqb : simpl never.
Arguments N.ltb : simpl never.
Arguments N.leb : simpl never.
Arguments N.pow : simpl never.
Arguments N.land : simpl never.
Arguments N.lor : simpl never.
Arguments N.shiftr : simpl never.
Arguments N.shiftl : simpl never.

Definition byte := N.
Definition bytes := list N.

Definition byte_ok (b : N) : Prop := b < 256.
Definition bytes_ok (bs : bytes) : Prop := Forall byte_ok bs.
Definition byte_okb (b : N) : bool := b <? 256.
Definition bytes_okb (bs : bytes) : bool := forallb byte_okb bs.

Lemma bytes_okb_spec bs : bytes_okb bs = true <-> bytes_ok bs.
Proof.
  unfold bytes_okb, bytes_ok. rewrite forallb_forall, Forall_forall.
  unfold byte_okb, byte_ok. split; intros H x Hx; specialize (H x Hx).
  - now apply N.ltb_lt.
  - now apply N.ltb_lt.
Qed.

Lemma bytes_ok_nil : bytes_ok [].
Proof. constructor. Qed.

Lemma bytes_ok_cons b bs : bytes_ok (b :: bs) <-> byte_ok b /\ bytes_ok bs.
Proof. unfold bytes_ok. split; [intros H; inversion H; auto | intros [H1 H2]; constructor; auto]. Qed.

Lemma bytes_ok_app a b : bytes_ok (a ++ b) <-> bytes_ok a /\ bytes_ok b.
Proof. unfold bytes_ok. apply Forall_app. Qed.

Lemma bytes_ok_firstn n bs : bytes_ok bs -> bytes_ok (firstn n bs).
Proof.
  unfold bytes_ok. rewrite !Forall_forall. intros H x Hx. apply H.
  rewrite <- (firstn_skipn n bs). apply in_or_app. now left.
Qed.

Lemma bytes_ok_skipn n bs : bytes_ok bs -> bytes_ok (skipn n bs).
Proof.
  unfold bytes_ok. rewrite !Forall_forall. intros H x Hx. apply H.
  rewrite <- (firstn_skipn n bs). apply in_or_app. now right.
Qed.

(* length as N: the model's usize *)
Definition len {A} (l : list A) : N := N.of_nat (length l).

Lemma len_nil {A} : len (@nil A) = 0.
Proof. reflexivity. Qed.

Lemma len_cons {A} (x : A) l : len (x :: l) = 1 + len l.
Proof. unfold len. cbn [length]. lia. Qed.

Lemma len_app {A} (a b : list A) : len (a ++ b) = len a + len b.
Proof. unfold len. rewrite app_length. lia. Qed.

(* sub-slices with N indices *)
Definition take {A} (n : N) (l : list A) : list A := firstn (N.to_nat n) l.
Definition drop {A} (n : N) (l : list A) : list A := skipn (N.to_nat n) l.

Lemma take_drop {A} n (l : list A) : take n l ++ drop n l = l.
Proof. apply firstn_skipn. Qed.

Lemma len_take {A} n (l : list A) : len (take n l) = N.min n (len l).
Proof. unfold len, take. rewrite firstn_length. lia. Qed.

Lemma len_drop {A} n (l : list A) : len (drop n l) = len l - n.
Proof. unfold len, drop. rewrite skipn_length. lia. Qed.

Lemma bytes_ok_take n bs : bytes_ok bs -> bytes_ok (take n bs).
Proof. apply bytes_ok_firstn. Qed.

Lemma bytes_ok_drop n bs : bytes_ok bs -> bytes_ok (drop n bs).
Proof. apply bytes_ok_skipn. Qed.

(* checked indexing: None = out of bounds (never defaulted) *)
Definition rd (bs : bytes) (i : N) : option N := nth_error bs (N.to_nat i).

Lemma rd_Some_lt bs i v : rd bs i = Some v -> i < len bs.
Proof.
  unfold rd, len. intros H.
  assert (N.to_nat i < length bs)%nat by (apply nth_error_Some; congruence). lia.
Qed.

Lemma rd_lt_Some bs i : i < len bs -> exists v, rd bs i = Some v.
Proof.
  unfold rd, len. intros H.
  destruct (nth_error bs (N.to_nat i)) eqn:E; eauto.
  apply nth_error_None in E. lia.
Qed.

Lemma rd_ok bs i v : bytes_ok bs -> rd bs i = Some v -> v < 256.
Proof.
  unfold rd, bytes_ok. rewrite Forall_forall. intros H E.
  apply H. eapply nth_error_In; eauto.
Qed.

(* big endian values *)
Definition be16 (a b : N) : N := a * 256 + b.
Definition be32 (a b c d : N) : N := ((a * 256 + b) * 256 + c) * 256 + d.

Fixpoint be_val (bs : bytes) : N :=
  match bs with
  | [] => 0
  | b :: r => b * 256 ^ (len r) + be_val r
  end.

(* big-endian serialisation of the low k bytes of v *)
Definition to_be16 (v : N) : bytes := [(v / 256) mod 256; v mod 256].
Definition to_be32 (v : N) : bytes :=
  [(v / 16777216) mod 256; (v / 65536) mod 256; (v / 256) mod 256; v mod 256].

Lemma be16_lt a b : a < 256 -> b < 256 -> be16 a b < 65536.
Proof. unfold be16. lia. Qed.

Lemma be32_lt a b c d : a < 256 -> b < 256 -> c < 256 -> d < 256 -> be32 a b c d < 4294967296.
Proof. unfold be32. lia. Qed.

(* strong induction on the length of a list *)
Lemma list_len_ind {A} (P : list A -> Prop) :
  (forall l, (forall l', (length l' < length l)%nat -> P l') -> P l) -> forall l, P l.
Proof.
  intros H l. remember (length l) as n eqn:E. revert l E.
  induction n as [n IH] using lt_wf_ind. intros l E. apply H.
  intros l' Hl. eapply IH; [|reflexivity]. lia.
Qed.
