(* Defrag/Spec.v -- specification of IP reassembly (RFC 791 section 3.2,
   RFC 8200 section 4.5), independent of the code.

   A datagram under reassembly is the list of the fragments accepted so far
   (newest first) read as a partial map  offset -> byte  (the most recently
   accepted fragment covering an offset wins), plus the total length once a
   fragment without the "more fragments" flag has been accepted.  It is
   complete when the total length is known and every offset below it is
   defined.  Streams (one reassembly per stream id) are independent. *)
From EP Require Import Base.Bytes.
Local Open Scope N_scope.

(* one delivered fragment: offset field (units of 8 bytes, 13 bit), the
   "more fragments" flag and the payload bytes *)
Record frag := mkFrag { f_fo : N; f_mf : bool; f_data : bytes }.
Definition f_off (f : frag) : N := f_fo f * 8.
Definition f_endp (f : frag) : N := f_off f + len (f_data f).

Definition frag_ok (f : frag) : Prop := f_fo f < 8192.

Definition MAX_DEFRAG_LEN : N := 65535.

Inductive verdict :=
| VOk
| VTooBig (fo plen : N)            (* offset + length beyond 65535 *)
| VUnaligned (fo plen : N)         (* non-final fragment whose length is not a multiple of 8 *)
| VConflict (prev_end e : N)       (* the fragment contradicts what is known about the total length:
                                      - the total length prev_end was announced earlier and the
                                        fragment ends beyond it or announces another one, or
                                      - the fragment announces the total length e although data up
                                        to offset prev_end > e was accepted earlier (the datagram is
                                        known to be at least prev_end long) *)
| VPanic.                          (* Model only: slice out of range / set_len beyond the length;
                                      never produced by the Spec *)

Record rstate := mkR { s_frags : list (N * bytes); s_end : option N }.
Definition spec_new : rstate := mkR [] None.

Definition covers (o : N) (d : bytes) (i : N) : bool := (o <=? i) && (i <? o + len d).

Fixpoint lookup (fs : list (N * bytes)) (i : N) : option byte :=
  match fs with
  | [] => None
  | (o, d) :: r => if covers o d i then rd d (i - o) else lookup r i
  end.

(* highest offset + length accepted so far *)
Fixpoint hi (fs : list (N * bytes)) : N :=
  match fs with
  | [] => 0
  | (o, d) :: r => N.max (o + len d) (hi r)
  end.

Definition spec_add (st : rstate) (f : frag) : verdict * rstate :=
  let e := f_endp f in
  let plen := len (f_data f) in
  let push e' := mkR ((f_off f, f_data f) :: s_frags st) e' in
  if MAX_DEFRAG_LEN <? e then (VTooBig (f_fo f) plen, st)
  else if f_mf f && negb (plen mod 8 =? 0) then (VUnaligned (f_fo f) plen, st)
  else match s_end st with
       | Some E =>
           if (E <? e) || (negb (f_mf f) && negb (e =? E)) then (VConflict E e, st)
           else (VOk, push (Some E))
       | None =>
           if f_mf f then (VOk, push None)
           (* the announced total length lies below the largest offset received:
              inconsistent with the fragments accepted so far, whatever the order
              of arrival (the mirror image of "a fragment beyond the announced end") *)
           else if e <? hi (s_frags st) then (VConflict (hi (s_frags st)) e, st)
           else (VOk, push (Some e))
       end.

(* 0, 1, ..., n-1 *)
Fixpoint nseq_from (start : N) (k : nat) : list N :=
  match k with
  | O => []
  | S k' => start :: nseq_from (start + 1) k'
  end.
Definition nseq (n : N) : list N := nseq_from 0 (N.to_nat n).

Definition is_some {A} (o : option A) : bool := match o with Some _ => true | None => false end.

Definition spec_complete (st : rstate) : bool :=
  match s_end st with
  | Some E => forallb (fun i => is_some (lookup (s_frags st) i)) (nseq E)
  | None => false
  end.

(* the reassembled payload (offsets never written stay None) *)
Definition spec_payload (st : rstate) : list (option byte) :=
  match s_end st with
  | Some E => map (lookup (s_frags st)) (nseq E)
  | None => []
  end.

(* what is observable after each delivery *)
Definition obs := (verdict * bool * option (list (option byte)))%type.

Definition spec_obs (v : verdict) (st : rstate) : obs :=
  (v, spec_complete st, if spec_complete st then Some (spec_payload st) else None).

Fixpoint spec_trace (st : rstate) (h : list frag) : list obs :=
  match h with
  | [] => []
  | f :: r => let '(v, st') := spec_add st f in spec_obs v st' :: spec_trace st' r
  end.

Definition spec_run (st : rstate) (h : list frag) : rstate :=
  fold_left (fun s f => snd (spec_add s f)) h st.

(* ---- the former finding class F8 (fixed in the crate; kept as a plain
   definition for the regression examples): somewhere in the history a final
   fragment is rejected because data beyond its end was accepted before the
   total length was known ---- *)
Definition is_late (st : rstate) (v : verdict) : bool :=
  match s_end st, v with None, VConflict _ _ => true | _, _ => false end.

Fixpoint late_in (st : rstate) (h : list frag) : bool :=
  match h with
  | [] => false
  | f :: r => let '(v, st') := spec_add st f in is_late st v || late_in st' r
  end.

Definition LateEndClass (h : list frag) : Prop := late_in spec_new h = true.

(* ---- consistent sets of fragments (independent of the order of arrival) ---- *)
(* acceptable on its own: within 65535 bytes, a non-final fragment has a length
   that is a multiple of 8 *)
Definition frag_wf (f : frag) : Prop :=
  f_endp f <= MAX_DEFRAG_LEN /\ (f_mf f = true -> len (f_data f) mod 8 = 0).

(* every final fragment ends at or beyond the end of every fragment (two final
   fragments: the same end) *)
Definition consistent (h : list frag) : Prop :=
  Forall frag_wf h /\
  forall f g, In f h -> In g h -> f_mf f = false -> f_endp g <= f_endp f.

(* a final fragment was delivered and every offset below its end lies in some
   delivered fragment *)
Definition GCovered (h : list frag) : Prop :=
  exists f, In f h /\ f_mf f = false /\
  forall i, i < f_endp f -> exists g, In g h /\ f_off g <= i < f_endp g.

(* ---- fragments of one payload P ---- *)
(* f carries bytes [f_off f, f_endp f) of P; a non-final fragment has a length
   that is a multiple of 8, the final one ends where P ends.  Every cut of P at
   multiples of 8 consists of such fragments (see cut_at), and so does every
   overlapping re-fragmentation. *)
Definition frag_of (P : bytes) (f : frag) : Prop :=
  f_endp f <= len P /\
  f_data f = take (len (f_data f)) (drop (f_off f) P) /\
  (f_mf f = true -> len (f_data f) mod 8 = 0) /\
  (f_mf f = false -> f_endp f = len P).

(* the delivered fragments hs cover P: the final fragment was seen and every
   offset of P lies in some delivered fragment *)
Definition Covered (P : bytes) (hs : list frag) : Prop :=
  (exists f, In f hs /\ f_mf f = false) /\
  forall i, i < len P -> exists f, In f hs /\ f_off f <= i < f_endp f.

(* cutting P: sizes are the lengths of the non-final fragments in units of 8
   bytes, the final fragment takes the rest *)
Fixpoint cut_at (P : bytes) (fo : N) (sizes : list N) : list frag :=
  match sizes with
  | [] => [mkFrag fo false (drop (fo * 8) P)]
  | n :: r => mkFrag fo true (take (n * 8) (drop (fo * 8) P)) :: cut_at P (fo + n) r
  end.

Fixpoint sumN (l : list N) : N := match l with [] => 0 | x :: r => x + sumN r end.

(* ---- streams ---- *)
Definition fid := list N.
Fixpoint fid_eqb (a b : fid) : bool :=
  match a, b with
  | [], [] => true
  | x :: a', y :: b' => (x =? y) && fid_eqb a' b'
  | _, _ => false
  end.

Fixpoint alookup {V} (k : fid) (l : list (fid * V)) : option V :=
  match l with
  | [] => None
  | (k', v) :: r => if fid_eqb k k' then Some v else alookup k r
  end.
Fixpoint aremove {V} (k : fid) (l : list (fid * V)) : list (fid * V) :=
  match l with
  | [] => []
  | (k', v) :: r => if fid_eqb k k' then aremove k r else (k', v) :: aremove k r
  end.
(* replace in place, or add *)
Fixpoint aset {V} (k : fid) (v : V) (l : list (fid * V)) : list (fid * V) :=
  match l with
  | [] => [(k, v)]
  | (k', v') :: r => if fid_eqb k k' then (k, v) :: aremove k r else (k', v') :: aset k v r
  end.

(* one packet as the pool sees it after slicing *)
Record pkt := mkPkt {
  k_id : fid;        (* vlan ids, ip version, addresses, identification, payload ip number, channel *)
  k_v4 : bool;
  k_ipn : N;         (* ip number of the payload *)
  k_frag : frag
}.

Inductive pres :=
| PNone
| PDone (ipn : N) (v4 : bool) (payload : list (option byte))
| PErr (v : verdict).

Definition is_fragmenting (f : frag) : bool := f_mf f || negb (f_fo f =? 0).

Definition spool := list (fid * (rstate * N)).

Definition spec_process (sp : spool) (k : pkt) (ts : N) : pres * spool :=
  if negb (is_fragmenting (k_frag k)) then (PNone, sp)
  else
    let st := match alookup (k_id k) sp with Some (st, _) => st | None => spec_new end in
    match spec_add st (k_frag k) with
    | (VOk, st') =>
        if spec_complete st' then (PDone (k_ipn k) (k_v4 k) (spec_payload st'), aremove (k_id k) sp)
        else (PNone, aset (k_id k) (st', ts) sp)
    | (v, _) => (PErr v, sp)
    end.

(* streams whose last accepted fragment is older than the cutoff are dropped *)
Definition spec_retain (sp : spool) (cutoff : N) : spool :=
  filter (fun e => cutoff <=? snd (snd e)) sp.
