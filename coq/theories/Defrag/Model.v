(* Defrag/Model.v -- transliteration of
     etherparse/src/defrag/ip_frag_range.rs   (IpFragRange::is_value_connected, merge)
     etherparse/src/defrag/ip_defrag_buf.rs   (IpDefragBuf::new, add, is_complete, take_bufs)
     etherparse/src/defrag/ip_defrag_pool.rs  (IpDefragPool::new, process_sliced_packet after
                                               the slice has been inspected, return_buf, retain)
   u16 / usize values are N.  `data : list (option byte)`: `None` is a byte that
   `Vec::set_len` exposed and that this datagram never wrote (uninitialised
   capacity or a stale byte of the datagram that used the allocation before).
   Not modelled: allocation failure (`try_reserve` -> AllocationFailure), the
   capacity of the vectors, the iteration order of the HashMap (the model keeps
   an association list; nothing observable depends on the order). *)
From EP Require Import Base.Bytes Defrag.Spec.
Local Open Scope N_scope.

(* ---- ip_frag_range.rs ---- *)
Record range := mkRange { r_start : N; r_end : N }.

(* self.start <= value && self.end >= value *)
Definition is_value_connected (r : range) (v : N) : bool :=
  (r_start r <=? v) && (v <=? r_end r).

Definition merge (a b : range) : option range :=
  if is_value_connected a (r_start b)
     || is_value_connected a (r_end b)
     || is_value_connected b (r_start a)
     || is_value_connected b (r_end a)
  then Some (mkRange (N.min (r_start a) (r_start b)) (N.max (r_end a) (r_end b)))
  else None.

(* ---- ip_defrag_buf.rs ---- *)
Record buf := mkBuf {
  b_ipn : N;
  b_data : list (option byte);
  b_sections : list range;
  b_end : option N
}.

(* IpDefragBuf::new: both vectors are cleared (their capacity, i.e. the stale
   bytes, stays: whatever set_len exposes later is None here) *)
Definition buf_new (ipn : N) (data : list (option byte)) (sections : list range) : buf :=
  mkBuf ipn [] [] None.

(* self.sections.retain(|it| if let Some(m) = new_section.merge(it) { new_section = m; false } else { true }) *)
Fixpoint retain_merge (ns : range) (l : list range) : range * list range :=
  match l with
  | [] => (ns, [])
  | it :: r =>
      match merge ns it with
      | Some m => retain_merge m r
      | None => let '(ns', k) := retain_merge ns r in (ns', it :: k)
      end
  end.

(* if data.len() < required_len { reserve; set_len(required_len) } *)
Definition grow (d : list (option byte)) (e : N) : list (option byte) :=
  if len d <? e then d ++ repeat None (N.to_nat (e - len d)) else d.

(* self.data[off..off + payload.len()].copy_from_slice(payload) -- the caller checks the range *)
Definition write (d : list (option byte)) (off : N) (payload : bytes) : list (option byte) :=
  take off d ++ map Some payload ++ drop (off + len payload) d.

(* self.sections.iter().map(|s| s.end).max(): None for an empty vector *)
Fixpoint sec_max (l : list range) : option N :=
  match l with
  | [] => None
  | r :: t => Some (match sec_max t with Some m => N.max (r_end r) m | None => r_end r end)
  end.

Inductive add_res := AddOk (b : buf) | AddErr (v : verdict) | AddPanic.

Definition add (b : buf) (f : frag) : add_res :=
  let plen := len (f_data f) in
  (* u16::try_from(payload.len()) *)
  if 65535 <? plen then AddErr (VTooBig (f_fo f) plen) else
  let off := f_fo f * 8 in                       (* offset.byte_offset() = self.0 << 3, self.0 <= 0x1fff *)
  (* offset.byte_offset().checked_add(len_u16) *)
  let e := off + plen in
  if 65535 <? e then AddErr (VTooBig (f_fo f) plen) else
  (* more_fragments && 0 != payload.len() & 0b111 *)
  if f_mf f && negb (N.land plen 7 =? 0) then AddErr (VUnaligned (f_fo f) plen) else
  match (match b_end b with
         | Some prev =>
             if (prev <? e) || (negb (f_mf f) && negb (e =? prev)) then Some (VConflict prev e) else None
         | None =>
             (* else if false == more_fragments: the end must not be before already received data *)
             if negb (f_mf f) then
               match sec_max (b_sections b) with
               | Some received_end =>
                   if e <? received_end then Some (VConflict received_end e) else None
               | None => None
               end
             else None
         end) with
  | Some v => AddErr v
  | None =>
      let d1 := grow (b_data b) e in
      (* slicing data[off..off+plen] panics when out of range *)
      if len d1 <? off + plen then AddPanic else
      let d2 := write d1 off (f_data f) in
      let '(ns, kept) := retain_merge (mkRange off e) (b_sections b) in
      let secs := kept ++ [ns] in
      if f_mf f then AddOk (mkBuf (b_ipn b) d2 secs (b_end b))
      else
        (* self.end = Some(end); self.data.set_len(end)  (unsafe: needs end <= len) *)
        if len d2 <? e then AddPanic
        else AddOk (mkBuf (b_ipn b) (take e d2) secs (Some e))
  end.

(* self.end.is_some() && 1 == self.sections.len() && 0 == self.sections[0].start *)
Definition is_complete (b : buf) : bool :=
  match b_end b with
  | Some _ => match b_sections b with [r] => r_start r =? 0 | _ => false end
  | None => false
  end.

(* a delivery: on Err the buffer is untouched (every `return Err` precedes the first mutation) *)
Definition model_step (b : buf) (f : frag) : verdict * buf :=
  match add b f with
  | AddOk b' => (VOk, b')
  | AddErr v => (v, b)
  | AddPanic => (VPanic, b)
  end.

Definition model_obs (v : verdict) (b : buf) : obs :=
  (v, is_complete b, if is_complete b then Some (b_data b) else None).

Fixpoint model_trace (b : buf) (h : list frag) : list obs :=
  match h with
  | [] => []
  | f :: r => let '(v, b') := model_step b f in model_obs v b' :: model_trace b' r
  end.

Definition model_run (b : buf) (h : list frag) : buf :=
  fold_left (fun s f => snd (model_step s f)) h b.

(* ---- ip_defrag_pool.rs ---- *)
Record pool := mkPool {
  p_active : list (fid * (buf * N));               (* HashMap<IpFragId, (IpDefragBuf, Timestamp)> *)
  p_fdata : list (list (option byte));             (* finished_data_bufs, top of the stack first *)
  p_fsec : list (list range)                       (* finished_section_bufs *)
}.
Definition pool_new : pool := mkPool [] [] [].

Definition pop {A} (l : list (list A)) : list A * list (list A) :=
  match l with
  | d :: r => (d, r)       (* finished_*_bufs.pop(), then clear() *)
  | [] => ([], [])         (* Vec::with_capacity(..) *)
  end.

Definition process (p : pool) (k : pkt) (ts : N) : pres * pool :=
  let f := k_frag k in
  (* header.is_fragmenting_payload() == false => Ok(None) *)
  if negb (is_fragmenting f) then (PNone, p) else
  match alookup (k_id k) (p_active p) with
  | Some (b, t) =>                                      (* Entry::Occupied *)
      match add b f with
      | AddOk b' =>
          if is_complete b'
          then (PDone (k_ipn k) (k_v4 k) (b_data b'),
                mkPool (aremove (k_id k) (p_active p)) (p_fdata p) (b_sections b' :: p_fsec p))
          else (PNone, mkPool (aset (k_id k) (b', ts) (p_active p)) (p_fdata p) (p_fsec p))
      | AddErr v => (PErr v, p)
      | AddPanic => (PErr VPanic, p)
      end
  | None =>                                             (* Entry::Vacant *)
      let '(d, fd) := pop (p_fdata p) in
      let '(s, fs) := pop (p_fsec p) in
      let b0 := buf_new (k_ipn k) d s in
      match add b0 f with
      | AddOk b' => (PNone, mkPool (aset (k_id k) (b', ts) (p_active p)) fd fs)   (* no completeness check here *)
      | AddErr v => (PErr v, mkPool (p_active p) (b_data b0 :: fd) (b_sections b0 :: fs))
      | AddPanic => (PErr VPanic, p)
      end
  end.

Definition return_buf (p : pool) (payload : list (option byte)) : pool :=
  mkPool (p_active p) (payload :: p_fdata p) (p_fsec p).

(* retain(|t| cutoff <= *t): evicted buffers go to the free lists (in HashMap
   order in the code; only their number is meaningful) *)
Definition retain (p : pool) (cutoff : N) : pool :=
  let keep := filter (fun e => cutoff <=? snd (snd e)) (p_active p) in
  let gone := filter (fun e => negb (cutoff <=? snd (snd e))) (p_active p) in
  mkPool keep
         (map (fun e => b_data (fst (snd e))) gone ++ p_fdata p)
         (map (fun e => b_sections (fst (snd e))) gone ++ p_fsec p).
