(* Defrag/Proofs.v -- lemmas about Defrag/Model.v and Defrag/Spec.v.
   A: lists indexed by N        B: ranges (IpFragRange::merge)
   C: retain_merge              D: case analysis of add, no panic
   E: the invariant Inv         F: simulation Model / Spec (every history)
   G: completeness, payload     H: delivery histories, fragments of one payload, cuts, rejects
   P: the pool (isolation of streams) *)
From Coq Require Import Permutation.
From EP Require Import Base.Bytes Defrag.Spec Defrag.Model.
Local Open Scope N_scope.

(* ---------- A: lists indexed by N ---------- *)
Definition dget {A} (d : list A) (i : N) : option A := nth_error d (N.to_nat i).

Lemma dget_lt {A} (d : list A) i : i < len d -> exists x, dget d i = Some x.
Proof.
  unfold dget, len. intros H. destruct (nth_error d (N.to_nat i)) eqn:E; eauto.
  apply nth_error_None in E. lia.
Qed.

Lemma dget_ge {A} (d : list A) i : len d <= i -> dget d i = None.
Proof. unfold dget, len. intros H. apply nth_error_None. lia. Qed.

Lemma dget_Some_lt {A} (d : list A) i x : dget d i = Some x -> i < len d.
Proof.
  unfold dget, len. intros H.
  assert (N.to_nat i < length d)%nat by (apply nth_error_Some; congruence). lia.
Qed.

Lemma dget_app {A} (a b : list A) i :
  dget (a ++ b) i = if i <? len a then dget a i else dget b (i - len a).
Proof.
  unfold dget, len. destruct (N.ltb_spec i (N.of_nat (length a))).
  - rewrite nth_error_app1 by lia. reflexivity.
  - rewrite nth_error_app2 by lia. f_equal. lia.
Qed.

Lemma nth_error_firstn' {A} : forall n (l : list A) k,
  nth_error (firstn n l) k = if (k <? n)%nat then nth_error l k else None.
Proof.
  induction n as [|n IH]; intros l k.
  - cbn. destruct k; reflexivity.
  - destruct l as [|x l]; cbn [firstn].
    + destruct k; cbn [nth_error]; destruct (Nat.ltb _ _); reflexivity.
    + destruct k as [|k]; [reflexivity|]. cbn [nth_error]. rewrite IH. reflexivity.
Qed.

Lemma nth_error_skipn' {A} : forall n (l : list A) k,
  nth_error (skipn n l) k = nth_error l (n + k).
Proof.
  induction n as [|n IH]; intros l k; [reflexivity|].
  destruct l as [|x l]; cbn [skipn].
  - destruct k; reflexivity.
  - apply IH.
Qed.

Lemma dget_take {A} n (d : list A) i : dget (take n d) i = if i <? n then dget d i else None.
Proof.
  unfold dget, take. rewrite nth_error_firstn'.
  destruct (N.ltb_spec i n); destruct (Nat.ltb_spec (N.to_nat i) (N.to_nat n)); try reflexivity; lia.
Qed.

Lemma dget_drop {A} n (d : list A) i : dget (drop n d) i = dget d (n + i).
Proof. unfold dget, drop. rewrite nth_error_skipn'. f_equal. lia. Qed.

Lemma dget_repeat {A} (x : A) k i : dget (repeat x k) i = if i <? N.of_nat k then Some x else None.
Proof.
  unfold dget. destruct (N.ltb_spec i (N.of_nat k)).
  - assert (Hk : (N.to_nat i < k)%nat) by lia. clear H. revert Hk. generalize (N.to_nat i) as m.
    induction k as [|k IH]; intros m Hm; [lia|]. destruct m; [reflexivity|]. cbn. apply IH. lia.
  - apply nth_error_None. rewrite repeat_length. lia.
Qed.

Lemma dget_map {A B} (f : A -> B) d i : dget (map f d) i = option_map f (dget d i).
Proof.
  unfold dget. generalize (N.to_nat i) as m. induction d as [|x d IH]; intros m.
  - destruct m; reflexivity.
  - destruct m; [reflexivity|]. cbn. apply IH.
Qed.

Lemma nth_error_ext' {A} : forall (a b : list A), (forall n, nth_error a n = nth_error b n) -> a = b.
Proof.
  induction a as [|x a IH]; intros b H.
  - destruct b; [reflexivity|]. specialize (H O). discriminate.
  - destruct b as [|y b]; [specialize (H O); discriminate|].
    f_equal.
    + specialize (H O). cbn in H. congruence.
    + apply IH. intros n. apply (H (S n)).
Qed.

Lemma dget_ext {A} (a b : list A) : (forall i, dget a i = dget b i) -> a = b.
Proof.
  intros H. apply nth_error_ext'. intros n. specialize (H (N.of_nat n)).
  unfold dget in H. rewrite Nat2N.id in H. exact H.
Qed.

Lemma len_map {A B} (f : A -> B) l : len (map f l) = len l.
Proof. unfold len. rewrite map_length. reflexivity. Qed.

Lemma len_repeat {A} (x : A) k : len (repeat x k) = N.of_nat k.
Proof. unfold len. rewrite repeat_length. reflexivity. Qed.

Lemma rd_dget (p : bytes) i : rd p i = dget p i.
Proof. reflexivity. Qed.

(* grow / write *)
Lemma len_grow d e : len (grow d e) = N.max (len d) e.
Proof.
  unfold grow. destruct (N.ltb_spec (len d) e).
  - rewrite len_app, len_repeat. lia.
  - lia.
Qed.

Lemma dget_grow d e i :
  dget (grow d e) i = if i <? len d then dget d i else if i <? e then Some None else None.
Proof.
  unfold grow. destruct (N.ltb_spec (len d) e) as [H|H].
  - rewrite dget_app. destruct (N.ltb_spec i (len d)); [reflexivity|].
    rewrite dget_repeat.
    destruct (N.ltb_spec (i - len d) (N.of_nat (N.to_nat (e - len d)))); destruct (N.ltb_spec i e);
      try reflexivity; lia.
  - destruct (N.ltb_spec i (len d)); [reflexivity|].
    rewrite dget_ge by lia. destruct (N.ltb_spec i e); [lia|reflexivity].
Qed.

Lemma len_write d off p : off + len p <= len d -> len (write d off p) = len d.
Proof.
  intros H. unfold write. rewrite !len_app, len_take, len_map, len_drop. lia.
Qed.

Lemma dget_write d off p i : off + len p <= len d ->
  dget (write d off p) i =
    if (off <=? i) && (i <? off + len p) then option_map Some (rd p (i - off)) else dget d i.
Proof.
  intros H. unfold write. rewrite dget_app, len_take.
  replace (N.min off (len d)) with off by lia.
  destruct (N.ltb_spec i off) as [H1|H1].
  - rewrite dget_take. destruct (N.leb_spec off i); [lia|]. cbn [andb].
    destruct (N.ltb_spec i off); [reflexivity|lia].
  - destruct (N.leb_spec off i); [|lia]. cbn [andb].
    rewrite dget_app, len_map.
    destruct (N.ltb_spec (i - off) (len p)); destruct (N.ltb_spec i (off + len p)); try lia.
    + rewrite dget_map. reflexivity.
    + rewrite dget_drop. f_equal. lia.
Qed.
(* ---------- B: ranges ---------- *)
Definition wf (r : range) : Prop := r_start r <= r_end r.
Definition inr (r : range) (i : N) : Prop := r_start r <= i < r_end r.
(* closed intervals disjoint: neither overlapping nor touching *)
Definition disj (a b : range) : Prop := r_end a < r_start b \/ r_end b < r_start a.
Definition covered (ss : list range) (i : N) : Prop := exists r, In r ss /\ inr r i.

Lemma disj_sym a b : disj a b -> disj b a.
Proof. unfold disj. tauto. Qed.

Lemma connected_iff r v : is_value_connected r v = true <-> r_start r <= v <= r_end r.
Proof. unfold is_value_connected. rewrite andb_true_iff, !N.leb_le. tauto. Qed.

Lemma merge_spec a b : wf a -> wf b ->
  match merge a b with
  | Some m => ~ disj a b /\ m = mkRange (N.min (r_start a) (r_start b)) (N.max (r_end a) (r_end b))
  | None => disj a b
  end.
Proof.
  unfold merge, wf, disj. intros Ha Hb.
  destruct (is_value_connected a (r_start b) || is_value_connected a (r_end b)
            || is_value_connected b (r_start a) || is_value_connected b (r_end a)) eqn:E.
  - rewrite !orb_true_iff, !connected_iff in E. split; [lia|reflexivity].
  - assert (E' : ~ (((r_start a <= r_start b <= r_end a \/ r_start a <= r_end b <= r_end a)
                     \/ r_start b <= r_start a <= r_end b) \/ r_start b <= r_end a <= r_end b)).
    { rewrite <- !connected_iff, <- !orb_true_iff, E. discriminate. }
    lia.
Qed.

(* ---------- C: retain_merge ---------- *)
Lemma rm_basic : forall l ns ns' k, retain_merge ns l = (ns', k) ->
  wf ns -> (forall r, In r l -> wf r) ->
  wf ns' /\
  (forall x, In x k -> In x l) /\
  r_start ns' <= r_start ns /\ r_end ns <= r_end ns' /\
  (forall x, In x l -> In x k \/ (r_start ns' <= r_start x /\ r_end x <= r_end ns')) /\
  (r_end ns' = r_end ns \/ exists x, In x l /\ r_end x = r_end ns') /\
  (forall i, inr ns' i \/ covered k i <-> inr ns i \/ covered l i).
Proof.
  induction l as [|it r IH]; intros ns ns' k E Hns Hl; cbn [retain_merge] in E.
  - inversion E; subst. repeat split; try tauto; try lia; auto.
  - assert (Hit : wf it) by (apply Hl; left; reflexivity).
    assert (Hr : forall x, In x r -> wf x) by (intros x Hx; apply Hl; right; exact Hx).
    pose proof (merge_spec ns it Hns Hit) as M.
    destruct (merge ns it) as [m|].
    + destruct M as [Hnd Hm].
      assert (Hwm : wf m) by (subst m; unfold wf in *; cbn; lia).
      destruct (IH m ns' k E Hwm Hr) as (W & Hin & Hs & He & Hab & Hmax & Hcov).
      assert (Hms : r_start m = N.min (r_start ns) (r_start it)) by (subst m; reflexivity).
      assert (Hme : r_end m = N.max (r_end ns) (r_end it)) by (subst m; reflexivity).
      split; [exact W|]. split; [intros x Hx; right; apply Hin; exact Hx|].
      split; [lia|]. split; [lia|].
      split.
      { intros x [Hx|Hx]; [subst x; right; lia | apply Hab; exact Hx]. }
      split.
      { destruct Hmax as [Hmax|(x & Hx & Hxe)].
        - destruct (N.max_spec (r_end ns) (r_end it)) as [[_ Q]|[_ Q]].
          + right. exists it. split; [left; reflexivity|lia].
          + left. lia.
        - right. exists x. split; [right; exact Hx|exact Hxe]. }
      intros i. rewrite Hcov. unfold covered, inr in *. unfold wf, disj in *.
      split.
      * intros [Hi|(x & Hx & Hxi)].
        -- assert (Q : r_start ns <= i < r_end ns \/ r_start it <= i < r_end it) by lia.
           destruct Q as [Q|Q]; [left; exact Q|right; exists it; split; [left; reflexivity|exact Q]].
        -- right. exists x. split; [right; exact Hx|exact Hxi].
      * intros [Hi|(x & [Hx|Hx] & Hxi)].
        -- left. lia.
        -- subst x. left. lia.
        -- right. exists x. split; assumption.
    + destruct (retain_merge ns r) as [ns0 k0] eqn:E0. inversion E; subst ns0 k. clear E.
      destruct (IH ns ns' k0 E0 Hns Hr) as (W & Hin & Hs & He & Hab & Hmax & Hcov).
      split; [exact W|]. split.
      { intros x [Hx|Hx]; [left; exact Hx|right; apply Hin; exact Hx]. }
      split; [exact Hs|]. split; [exact He|]. split.
      { intros x [Hx|Hx]; [left; left; exact Hx|].
        destruct (Hab x Hx) as [Q|Q]; [left; right; exact Q|right; exact Q]. }
      split.
      { destruct Hmax as [Hmax|(x & Hx & Hxe)]; [left; exact Hmax|right; exists x; split; [right; exact Hx|exact Hxe]]. }
      intros i. unfold covered in *. split.
      * intros [Hi|(x & [Hx|Hx] & Hxi)].
        -- destruct (proj1 (Hcov i) (or_introl Hi)) as [Q|(y & Hy & Hyi)]; [left; exact Q|].
           right. exists y. split; [right; exact Hy|exact Hyi].
        -- subst x. right. exists it. split; [left; reflexivity|exact Hxi].
        -- destruct (proj1 (Hcov i) (or_intror (ex_intro _ x (conj Hx Hxi)))) as [Q|(y & Hy & Hyi)];
             [left; exact Q|]. right. exists y. split; [right; exact Hy|exact Hyi].
      * intros [Hi|(x & [Hx|Hx] & Hxi)].
        -- destruct (proj2 (Hcov i) (or_introl Hi)) as [Q|(y & Hy & Hyi)]; [left; exact Q|].
           right. exists y. split; [right; exact Hy|exact Hyi].
        -- subst x. right. exists it. split; [left; reflexivity|exact Hxi].
        -- destruct (proj2 (Hcov i) (or_intror (ex_intro _ x (conj Hx Hxi)))) as [Q|(y & Hy & Hyi)];
             [left; exact Q|]. right. exists y. split; [right; exact Hy|exact Hyi].
Qed.

(* a range away from ns and from every stored section stays away from the merged section *)
Lemma rm_far : forall l ns ns' k y, retain_merge ns l = (ns', k) ->
  wf ns -> (forall r, In r l -> wf r) -> wf y ->
  disj y ns -> (forall x, In x l -> disj y x) -> disj y ns'.
Proof.
  induction l as [|it r IH]; intros ns ns' k y E Hns Hl Hy D Dl; cbn [retain_merge] in E.
  - inversion E; subst. exact D.
  - assert (Hit : wf it) by (apply Hl; left; reflexivity).
    assert (Hr : forall x, In x r -> wf x) by (intros x Hx; apply Hl; right; exact Hx).
    pose proof (merge_spec ns it Hns Hit) as M.
    destruct (merge ns it) as [m|].
    + destruct M as [Hnd Hm].
      apply (IH m ns' k y E); auto.
      * subst m; unfold wf in *; cbn; lia.
      * assert (D2 : disj y it) by (apply Dl; left; reflexivity).
        subst m. unfold disj, wf in *. cbn [r_start r_end]. lia.
      * intros x Hx. apply Dl. right. exact Hx.
    + destruct (retain_merge ns r) as [ns0 k0] eqn:E0. inversion E; subst ns0 k. clear E.
      apply (IH ns ns' k0 y E0); auto. intros x Hx. apply Dl. right. exact Hx.
Qed.

Lemma rm_sep : forall l ns ns' k, retain_merge ns l = (ns', k) ->
  wf ns -> (forall r, In r l -> wf r) -> ForallOrdPairs disj l ->
  ForallOrdPairs disj k /\ (forall x, In x k -> disj x ns').
Proof.
  induction l as [|it r IH]; intros ns ns' k E Hns Hl F; cbn [retain_merge] in E.
  - inversion E; subst. split; [constructor|intros x []].
  - assert (Hit : wf it) by (apply Hl; left; reflexivity).
    assert (Hr : forall x, In x r -> wf x) by (intros x Hx; apply Hl; right; exact Hx).
    inversion F as [|a l' Fa Fr]; subst.
    pose proof (merge_spec ns it Hns Hit) as M.
    destruct (merge ns it) as [m|].
    + destruct M as [Hnd Hm]. apply (IH m ns' k E); auto.
      subst m; unfold wf in *; cbn; lia.
    + destruct (retain_merge ns r) as [ns0 k0] eqn:E0. inversion E; subst ns0 k. clear E.
      destruct (IH ns ns' k0 E0 Hns Hr Fr) as [Fk Dk].
      destruct (rm_basic r ns ns' k0 E0 Hns Hr) as (_ & Hin & _).
      rewrite Forall_forall in Fa.
      split.
      * constructor; [|exact Fk]. rewrite Forall_forall. intros x Hx. apply Fa, Hin, Hx.
      * intros x [Hx|Hx]; [|apply Dk; exact Hx]. subst x.
        apply (rm_far r ns ns' k0 it E0); auto. apply disj_sym. exact M.
Qed.

Lemma fop_snoc {A} (R : A -> A -> Prop) : forall l x,
  ForallOrdPairs R l -> (forall y, In y l -> R y x) -> ForallOrdPairs R (l ++ [x]).
Proof.
  induction l as [|a l IH]; intros x F H; cbn.
  - constructor; constructor.
  - inversion F as [|a' l' Fa Fl]; subst. constructor.
    + rewrite Forall_forall in *. intros y Hy. apply in_app_or in Hy. destruct Hy as [Hy|[Hy|[]]].
      * apply Fa, Hy.
      * subst y. apply H. left. reflexivity.
    + apply IH; [exact Fl|]. intros y Hy. apply H. right. exact Hy.
Qed.

Lemma covered_dec l i : covered l i \/ ~ covered l i.
Proof.
  induction l as [|r l IH].
  - right. intros (x & [] & _).
  - destruct IH as [IH|IH].
    + left. destruct IH as (x & Hx & Hi). exists x. split; [right; exact Hx|exact Hi].
    + destruct (N.le_gt_cases (r_start r) i) as [H1|H1]; [destruct (N.lt_ge_cases i (r_end r)) as [H2|H2]|].
      * left. exists r. split; [left; reflexivity|split; assumption].
      * right. intros (x & [Hx|Hx] & Hi); [subst x; unfold inr in Hi; lia|apply IH; exists x; auto].
      * right. intros (x & [Hx|Hx] & Hi); [subst x; unfold inr in Hi; lia|apply IH; exists x; auto].
Qed.
(* ---------- D: add ---------- *)
Lemma land7 x : N.land x 7 = x mod 8.
Proof. change 7 with (N.ones 3). rewrite N.land_ones. reflexivity. Qed.

Definition written (b : buf) (f : frag) : list (option byte) :=
  write (grow (b_data b) (f_endp f)) (f_off f) (f_data f).

Definition add_result (b : buf) (f : frag) (ns : range) (kept : list range) : buf :=
  mkBuf (b_ipn b)
        (if f_mf f then written b f else take (f_endp f) (written b f))
        (kept ++ [ns])
        (if f_mf f then b_end b else Some (f_endp f)).

Definition accepts (b : buf) (f : frag) : Prop :=
  f_endp f <= 65535 /\
  (f_mf f = true -> len (f_data f) mod 8 = 0) /\
  (forall prev, b_end b = Some prev -> f_endp f <= prev /\ (f_mf f = false -> f_endp f = prev)) /\
  (b_end b = None -> f_mf f = false -> forall r, In r (b_sections b) -> r_end r <= f_endp f).

(* iter().map(|s| s.end).max() *)
Lemma sec_max_spec l :
  match sec_max l with
  | None => l = []
  | Some m => (forall r, In r l -> r_end r <= m) /\ exists r, In r l /\ r_end r = m
  end.
Proof.
  induction l as [|a t IH]; cbn [sec_max]; [reflexivity|].
  destruct (sec_max t) as [m|].
  - destruct IH as [IH1 (r0 & Hr0 & IH2)]. split.
    + intros r [Hr|Hr]; [subst r; lia|]. specialize (IH1 r Hr). lia.
    + destruct (N.max_spec (r_end a) m) as [[_ Q]|[_ Q]].
      * exists r0. split; [right; exact Hr0|lia].
      * exists a. split; [left; reflexivity|lia].
  - subst t. split.
    + intros r [Hr|[]]. subst r. lia.
    + exists a. split; [left; reflexivity|reflexivity].
Qed.

Lemma len_written b f : len (written b f) = N.max (len (b_data b)) (f_endp f).
Proof.
  unfold written. rewrite len_write; [apply len_grow|]. rewrite len_grow. unfold f_endp. lia.
Qed.

Lemma add_cases b f :
  (65535 < f_endp f /\ add b f = AddErr (VTooBig (f_fo f) (len (f_data f)))) \/
  (f_endp f <= 65535 /\ f_mf f = true /\ len (f_data f) mod 8 <> 0 /\
     add b f = AddErr (VUnaligned (f_fo f) (len (f_data f)))) \/
  (f_endp f <= 65535 /\ (f_mf f = true -> len (f_data f) mod 8 = 0) /\
     exists prev, b_end b = Some prev /\ (prev < f_endp f \/ (f_mf f = false /\ f_endp f <> prev)) /\
     add b f = AddErr (VConflict prev (f_endp f))) \/
  (f_endp f <= 65535 /\ b_end b = None /\ f_mf f = false /\
     exists r, In r (b_sections b) /\ (forall r', In r' (b_sections b) -> r_end r' <= r_end r) /\
     f_endp f < r_end r /\
     add b f = AddErr (VConflict (r_end r) (f_endp f))) \/
  (accepts b f /\ exists ns kept,
     retain_merge (mkRange (f_off f) (f_endp f)) (b_sections b) = (ns, kept) /\
     add b f = AddOk (add_result b f ns kept)).
Proof.
  unfold add. fold (f_off f). fold (f_endp f).
  destruct (N.ltb_spec 65535 (len (f_data f))) as [H0|H0].
  { left. split; [unfold f_endp; lia|reflexivity]. }
  destruct (N.ltb_spec 65535 (f_endp f)) as [H1|H1].
  { left. split; [exact H1|reflexivity]. }
  rewrite land7.
  destruct (f_mf f) eqn:Emf; cbn [andb negb].
  - destruct (N.eqb_spec (len (f_data f) mod 8) 0) as [H2|H2]; cbn [negb].
    + destruct (b_end b) as [prev|] eqn:Ee.
      * rewrite orb_false_r. destruct (N.ltb_spec prev (f_endp f)) as [H3|H3].
        -- right. right. left. split; [exact H1|]. split; [auto|]. exists prev. auto.
        -- right. right. right. right. split.
           { split; [exact H1|]. split; [auto|]. split.
             - intros p Hp. rewrite Ee in Hp. inversion Hp; subst. split; [exact H3|rewrite Emf; discriminate].
             - intros Q. rewrite Ee in Q. discriminate. }
           pose proof (len_written b f) as LW. unfold written in LW.
           destruct (N.ltb_spec (len (grow (b_data b) (f_endp f))) (f_endp f)) as [H4|H4].
           { rewrite len_grow in H4. unfold f_endp in *. lia. }
           destruct (retain_merge (mkRange (f_off f) (f_endp f)) (b_sections b)) as [ns kept] eqn:Erm.
           exists ns, kept. split; [reflexivity|]. unfold add_result, written. rewrite Emf, Ee. reflexivity.
      * right. right. right. right. split.
        { split; [exact H1|]. split; [auto|]. split.
          - intros p Hp. rewrite Ee in Hp. discriminate.
          - intros _ Q. rewrite Emf in Q. discriminate. }
        destruct (N.ltb_spec (len (grow (b_data b) (f_endp f))) (f_endp f)) as [H4|H4].
        { rewrite len_grow in H4. unfold f_endp in *. lia. }
        destruct (retain_merge (mkRange (f_off f) (f_endp f)) (b_sections b)) as [ns kept] eqn:Erm.
        exists ns, kept. split; [reflexivity|]. unfold add_result, written. rewrite Emf, Ee. reflexivity.
    + right. left. auto.
  - assert (Hal : f_mf f = true -> len (f_data f) mod 8 = 0) by (rewrite Emf; discriminate).
    assert (G : forall ov, (match ov with Some v => AddErr v | None =>
               if len (grow (b_data b) (f_endp f)) <? f_endp f then AddPanic
               else let '(ns, kept) := retain_merge (mkRange (f_off f) (f_endp f)) (b_sections b) in
                    if len (write (grow (b_data b) (f_endp f)) (f_off f) (f_data f)) <? f_endp f then AddPanic
                    else AddOk (mkBuf (b_ipn b) (take (f_endp f) (write (grow (b_data b) (f_endp f)) (f_off f) (f_data f)))
                                      (kept ++ [ns]) (Some (f_endp f))) end) =
             match ov with Some v => AddErr v | None =>
               let '(ns, kept) := retain_merge (mkRange (f_off f) (f_endp f)) (b_sections b) in
               AddOk (add_result b f ns kept) end).
    { intros [v|]; [reflexivity|].
      pose proof (len_written b f) as LW. unfold written in LW.
      destruct (N.ltb_spec (len (grow (b_data b) (f_endp f))) (f_endp f)) as [H4|H4].
      { rewrite len_grow in H4. unfold f_endp in *. lia. }
      destruct (retain_merge (mkRange (f_off f) (f_endp f)) (b_sections b)) as [ns kept].
      destruct (N.ltb_spec (len (write (grow (b_data b) (f_endp f)) (f_off f) (f_data f))) (f_endp f)) as [H5|H5].
      { lia. }
      unfold add_result, written. rewrite Emf. reflexivity. }
    rewrite G. clear G.
    destruct (b_end b) as [prev|] eqn:Ee.
    + destruct (N.ltb_spec prev (f_endp f)) as [H3|H3]; cbn [orb].
      * right. right. left. split; [exact H1|]. split; [intros Q; try rewrite Emf in Q; discriminate|]. exists prev. auto.
      * destruct (N.eqb_spec (f_endp f) prev) as [H6|H6]; cbn [negb].
        -- right. right. right. right. split.
           { split; [exact H1|]. split; [intros Q; try rewrite Emf in Q; discriminate|]. split.
             - intros p Hp. rewrite Ee in Hp. inversion Hp; subst p. split; [lia|intros _; exact H6].
             - intros Q. rewrite Ee in Q. discriminate. }
           destruct (retain_merge (mkRange (f_off f) (f_endp f)) (b_sections b)) as [ns kept] eqn:Erm.
           exists ns, kept. split; reflexivity.
        -- right. right. left. split; [exact H1|]. split; [intros Q; try rewrite Emf in Q; discriminate|]. exists prev. auto.
    + pose proof (sec_max_spec (b_sections b)) as SM.
      destruct (sec_max (b_sections b)) as [m|].
      * destruct SM as [SM1 (r & Hr & SM2)]. subst m.
        destruct (N.ltb_spec (f_endp f) (r_end r)) as [H7|H7].
        -- right. right. right. left. split; [exact H1|]. split; [reflexivity|]. split; [reflexivity|].
           exists r. auto.
        -- right. right. right. right. split.
           { split; [exact H1|]. split; [intros Q; try rewrite Emf in Q; discriminate|]. split.
             - intros p Hp. rewrite Ee in Hp. discriminate.
             - intros _ _ r' Hr'. specialize (SM1 r' Hr'). lia. }
           destruct (retain_merge (mkRange (f_off f) (f_endp f)) (b_sections b)) as [ns kept] eqn:Erm.
           exists ns, kept. split; reflexivity.
      * right. right. right. right. split.
        { split; [exact H1|]. split; [intros Q; try rewrite Emf in Q; discriminate|]. split.
          - intros p Hp. rewrite Ee in Hp. discriminate.
          - intros _ _ r' Hr'. rewrite SM in Hr'. destruct Hr'. }
        destruct (retain_merge (mkRange (f_off f) (f_endp f)) (b_sections b)) as [ns kept] eqn:Erm.
        exists ns, kept. split; reflexivity.
Qed.

Lemma add_never_panics b f : add b f <> AddPanic.
Proof.
  destruct (add_cases b f) as [[_ H]|[(_ & _ & _ & H)|[(_ & _ & p & _ & _ & H)|[(_ & _ & _ & r & _ & _ & _ & H)|(_ & ns & k & _ & H)]]]];
    rewrite H; discriminate.
Qed.
(* ---------- E: the invariant ---------- *)
Record Inv (b : buf) : Prop := mkInv {
  inv_wf : forall r, In r (b_sections b) -> wf r;
  inv_sep : ForallOrdPairs disj (b_sections b);
  inv_some : forall i, i < len (b_data b) -> covered (b_sections b) i ->
             exists v, dget (b_data b) i = Some (Some v);
  inv_none : forall i, i < len (b_data b) -> ~ covered (b_sections b) i ->
             dget (b_data b) i = Some None;
  (* every section ends within data; data is empty or ends where the last section
     ends; once the total length is known, data has exactly that length *)
  inv_len : (forall r, In r (b_sections b) -> r_end r <= len (b_data b)) /\
            (len (b_data b) = 0 \/ exists r, In r (b_sections b) /\ r_end r = len (b_data b)) /\
            (forall E, b_end b = Some E ->
               len (b_data b) = E /\ exists r, In r (b_sections b) /\ r_end r = E);
  inv_max : len (b_data b) <= 65535 /\ forall r, In r (b_sections b) -> r_end r <= 65535
}.

Lemma Inv_new ipn d s : Inv (buf_new ipn d s).
Proof.
  constructor; cbn.
  - intros r [].
  - constructor.
  - intros i H. try rewrite len_nil in H; lia.
  - intros i H. try rewrite len_nil in H; lia.
  - split; [intros r []|]. split; [left; reflexivity|]. intros E HE. discriminate.
  - split; [try rewrite len_nil; lia|intros r []].
Qed.

Lemma dget_written b f i :
  dget (written b f) i =
    if (f_off f <=? i) && (i <? f_endp f) then option_map Some (rd (f_data f) (i - f_off f))
    else if i <? len (b_data b) then dget (b_data b) i
    else if i <? f_endp f then Some None else None.
Proof.
  unfold written. rewrite dget_write.
  - unfold f_endp at 2. fold (f_endp f). rewrite dget_grow. reflexivity.
  - rewrite len_grow. unfold f_endp. lia.
Qed.

Lemma covered_snoc l x i : covered (l ++ [x]) i <-> inr x i \/ covered l i.
Proof.
  unfold covered. split.
  - intros (r & Hr & Hi). apply in_app_or in Hr. destruct Hr as [Hr|[Hr|[]]].
    + right. exists r. auto.
    + subst r. left. exact Hi.
  - intros [Hi|(r & Hr & Hi)].
    + exists x. split; [apply in_or_app; right; left; reflexivity|exact Hi].
    + exists r. split; [apply in_or_app; left; exact Hr|exact Hi].
Qed.

Lemma written_inv b f ns kept : Inv b -> accepts b f ->
  retain_merge (mkRange (f_off f) (f_endp f)) (b_sections b) = (ns, kept) ->
  (forall i, i < len (written b f) -> covered (kept ++ [ns]) i ->
     exists v, dget (written b f) i = Some (Some v)) /\
  (forall i, i < len (written b f) -> ~ covered (kept ++ [ns]) i ->
     dget (written b f) i = Some None).
Proof.
  intros I (A1 & A2 & A3 & A4) E.
  assert (Hw0 : wf (mkRange (f_off f) (f_endp f))) by (unfold wf, f_endp; cbn; lia).
  destruct (rm_basic _ _ _ _ E Hw0 (inv_wf b I)) as (W & Hin & Hs & He & Hab & Hmax & Hcov).
  assert (Hlen : forall i, i < len (written b f) -> covered (b_sections b) i -> i < len (b_data b)).
  { intros i Hi (r & Hr & Hri).
    pose proof (inv_len b I) as (L & _). specialize (L r Hr). unfold inr in Hri. lia. }
  assert (Hc : forall i, covered (kept ++ [ns]) i <-> (f_off f <= i < f_endp f) \/ covered (b_sections b) i).
  { intros i. rewrite covered_snoc. rewrite Hcov. unfold inr. cbn [r_start r_end]. tauto. }
  split.
  - intros i Hi Hcv. rewrite dget_written. apply Hc in Hcv.
    destruct (N.leb_spec (f_off f) i) as [H1|H1]; destruct (N.ltb_spec i (f_endp f)) as [H2|H2]; cbn [andb].
    + destruct (rd_lt_Some (f_data f) (i - f_off f)) as [v Hv]; [unfold f_endp in H2; lia|].
      exists v. rewrite Hv. reflexivity.
    + destruct Hcv as [Hcv|Hcv]; [lia|]. pose proof (Hlen i Hi Hcv) as Q.
      destruct (N.ltb_spec i (len (b_data b))); [|lia]. apply (inv_some b I); assumption.
    + destruct Hcv as [Hcv|Hcv]; [lia|]. pose proof (Hlen i Hi Hcv) as Q.
      destruct (N.ltb_spec i (len (b_data b))); [|lia]. apply (inv_some b I); assumption.
    + destruct Hcv as [Hcv|Hcv]; [lia|]. pose proof (Hlen i Hi Hcv) as Q.
      destruct (N.ltb_spec i (len (b_data b))); [|lia]. apply (inv_some b I); assumption.
  - intros i Hi Hcv. rewrite dget_written. rewrite Hc in Hcv. rewrite len_written in Hi.
    destruct (N.leb_spec (f_off f) i) as [H1|H1]; destruct (N.ltb_spec i (f_endp f)) as [H2|H2]; cbn [andb];
      try (exfalso; apply Hcv; left; lia);
      (destruct (N.ltb_spec i (len (b_data b))); [apply (inv_none b I); [assumption|tauto]|]);
      try reflexivity; lia.
Qed.

Lemma add_preserves_Inv b f b' : Inv b -> add b f = AddOk b' -> Inv b'.
Proof.
  intros I Hadd.
  destruct (add_cases b f) as [[_ H]|[(_ & _ & _ & H)|[(_ & _ & p & _ & _ & H)|[(_ & _ & _ & r & _ & _ & _ & H)|(Acc & ns & kept & E & H)]]]];
    rewrite H in Hadd; try discriminate.
  inversion Hadd; subst b'; clear Hadd H.
  destruct (written_inv b f ns kept I Acc E) as [WS WN].
  destruct Acc as (A1 & A2 & A3 & A4).
  assert (Hw0 : wf (mkRange (f_off f) (f_endp f))) by (unfold wf, f_endp; cbn; lia).
  destruct (rm_basic _ _ _ _ E Hw0 (inv_wf b I)) as (W & Hin & Hs & He & Hab & Hmax & Hcov).
  destruct (rm_sep _ _ _ _ E Hw0 (inv_wf b I) (inv_sep b I)) as [Fk Dk].
  cbn [r_start r_end] in *.
  pose proof (len_written b f) as LW.
  pose proof (inv_len b I) as L. pose proof (inv_max b I) as [M1 M2].
  assert (Hns_max : r_end ns <= 65535).
  { destruct Hmax as [Q|(x & Hx & Q)]; [lia|]. specialize (M2 x Hx). lia. }
  constructor; unfold add_result; cbn [b_sections b_data b_end b_ipn].
  - intros r Hr. apply in_app_or in Hr. destruct Hr as [Hr|[Hr|[]]].
    + apply (inv_wf b I), Hin, Hr.
    + subst r. exact W.
  - apply fop_snoc; assumption.
  - destruct (f_mf f); [exact WS|].
    intros i Hi Hc. rewrite len_take in Hi. rewrite dget_take.
    destruct (N.ltb_spec i (f_endp f)); [|lia]. apply WS; [lia|exact Hc].
  - destruct (f_mf f); [exact WN|].
    intros i Hi Hc. rewrite len_take in Hi. rewrite dget_take.
    destruct (N.ltb_spec i (f_endp f)); [|lia]. apply WN; [lia|exact Hc].
  - destruct L as (L1 & L2 & L3).
    (* a final fragment never shortens the data *)
    assert (Hfin : f_mf f = false -> len (b_data b) <= f_endp f).
    { intros Hm. destruct (b_end b) as [E0|] eqn:Ee.
      - destruct (A3 E0 eq_refl) as [_ Q]. rewrite (proj1 (L3 E0 eq_refl)). specialize (Q Hm). lia.
      - destruct L2 as [L2|(r & Hr & L2)]; [lia|]. specialize (A4 eq_refl Hm r Hr). lia. }
    assert (Hnse : r_end ns <= N.max (len (b_data b)) (f_endp f)).
    { destruct Hmax as [Q|(x & Hx & Q)]; [lia|]. specialize (L1 x Hx). lia. }
    assert (Hdlen : len (if f_mf f then written b f else take (f_endp f) (written b f))
                    = N.max (len (b_data b)) (f_endp f)).
    { destruct (f_mf f) eqn:Em; [exact LW|]. rewrite len_take, LW. specialize (Hfin eq_refl). lia. }
    rewrite Hdlen. split; [|split].
    + intros r Hr. apply in_app_or in Hr. destruct Hr as [Hr|[Hr|[]]].
      * specialize (L1 r (Hin r Hr)). lia.
      * subst r. exact Hnse.
    + right. destruct (N.le_gt_cases (len (b_data b)) (f_endp f)) as [C|C].
      * exists ns. split; [apply in_or_app; right; left; reflexivity|lia].
      * destruct L2 as [L2|(r & Hr & L2)]; [lia|].
        destruct (Hab r Hr) as [Hk|[_ Hk]].
        -- exists r. split; [apply in_or_app; left; exact Hk|lia].
        -- exists ns. split; [apply in_or_app; right; left; reflexivity|lia].
    + intros E0 HE. destruct (f_mf f) eqn:Em.
      * destruct (L3 E0 HE) as [L3a (r & Hr & L3b)]. destruct (A3 E0 HE) as [Q _]. split; [lia|].
        destruct (Hab r Hr) as [Hk|[_ Hk]].
        -- exists r. split; [apply in_or_app; left; exact Hk|exact L3b].
        -- exists ns. split; [apply in_or_app; right; left; reflexivity|lia].
      * inversion HE; subst E0. specialize (Hfin eq_refl). split; [lia|].
        exists ns. split; [apply in_or_app; right; left; reflexivity|lia].
  - split.
    + destruct (f_mf f); [|rewrite len_take]; lia.
    + intros r Hr. apply in_app_or in Hr. destruct Hr as [Hr|[Hr|[]]].
      * apply M2, Hin, Hr.
      * subst r. exact Hns_max.
Qed.

Lemma model_step_Inv b f : Inv b -> Inv (snd (model_step b f)).
Proof.
  intros I. unfold model_step. destruct (add b f) eqn:E; cbn [snd]; try exact I.
  eapply add_preserves_Inv; eauto.
Qed.

Lemma model_run_Inv : forall h b, Inv b -> Inv (model_run b h).
Proof.
  unfold model_run. induction h as [|f h IH]; intros b I; cbn [fold_left]; [exact I|].
  apply IH, model_step_Inv, I.
Qed.

(* a completed buffer has no unwritten byte *)
Lemma complete_no_None b : Inv b -> is_complete b = true ->
  forall i, i < len (b_data b) -> exists v, dget (b_data b) i = Some (Some v).
Proof.
  intros I C i Hi. unfold is_complete in C. pose proof (inv_len b I) as L.
  destruct (b_end b) as [E0|]; [|discriminate].
  destruct (b_sections b) as [|r [|r2 t]] eqn:Es; try discriminate.
  apply N.eqb_eq in C. destruct L as (L1 & [L2|(r' & [Hr|[]] & L2)] & L3); [lia|]. subst r'.
  apply (inv_some b I); [exact Hi|]. rewrite Es. exists r. split; [left; reflexivity|].
  unfold inr. lia.
Qed.
(* ---------- F: the model refines the specification ---------- *)
Record Rel (b : buf) (st : rstate) : Prop := mkRel {
  rel_inv : Inv b;
  rel_end : b_end b = s_end st;
  rel_data : forall i, i < len (b_data b) -> dget (b_data b) i = Some (lookup (s_frags st) i);
  rel_hi : hi (s_frags st) <= len (b_data b);
  rel_len : b_end b = None -> len (b_data b) = hi (s_frags st)
}.

Lemma lookup_lt_hi : forall fs i v, lookup fs i = Some v -> i < hi fs.
Proof.
  induction fs as [|[o d] fs IH]; intros i v H; cbn [lookup hi] in *; [discriminate|].
  unfold covers in H.
  destruct (N.leb_spec o i); destruct (N.ltb_spec i (o + len d)); cbn [andb] in H;
    try (specialize (IH i v H)); lia.
Qed.

Lemma lookup_ge_hi fs i : hi fs <= i -> lookup fs i = None.
Proof.
  intros H. destruct (lookup fs i) eqn:E; [|reflexivity]. apply lookup_lt_hi in E. lia.
Qed.

Lemma Rel_new ipn d s : Rel (buf_new ipn d s) spec_new.
Proof.
  constructor.
  - apply Inv_new.
  - reflexivity.
  - cbn. intros i H. lia.
  - cbn. lia.
  - reflexivity.
Qed.

Definition push (st : rstate) (f : frag) (e : option N) : rstate :=
  mkR ((f_off f, f_data f) :: s_frags st) e.

Lemma Rel_push b st f ns kept : Rel b st -> accepts b f ->
  retain_merge (mkRange (f_off f) (f_endp f)) (b_sections b) = (ns, kept) ->
  (f_mf f = false -> b_end b = None -> hi (s_frags st) <= f_endp f) ->
  Rel (add_result b f ns kept) (push st f (if f_mf f then s_end st else Some (f_endp f))).
Proof.
  intros R Acc E Hlate.
  assert (I' : Inv (add_result b f ns kept)).
  { apply (add_preserves_Inv b f); [apply (rel_inv _ _ R)|].
    destruct (add_cases b f) as [[Q _]|[(_ & Q1 & Q2 & _)|[(_ & _ & p & Qe & Q & _)|[(_ & Qe & Qm & r & Hr & _ & Q & _)|(_ & ns0 & k0 & E0 & H)]]]].
    - destruct Acc as (A1 & _). lia.
    - destruct Acc as (_ & A2 & _). specialize (A2 Q1). lia.
    - destruct Acc as (_ & _ & A3 & _). destruct (A3 p Qe) as [Q3 Q4]. destruct Q as [Q|[Q Q']]; [lia|]. specialize (Q4 Q). lia.
    - destruct Acc as (_ & _ & _ & A4). specialize (A4 Qe Qm r Hr). lia.
    - rewrite E in E0. inversion E0; subst. exact H. }
  pose proof (rel_inv _ _ R) as I.
  destruct Acc as (A1 & A2 & A3 & A4).
  assert (Hw0 : wf (mkRange (f_off f) (f_endp f))) by (unfold wf, f_endp; cbn; lia).
  destruct (rm_basic _ _ _ _ E Hw0 (inv_wf b I)) as (W & Hin & Hs & He & Hab & Hmax & Hcov).
  cbn [r_start r_end] in *.
  pose proof (len_written b f) as LW.
  pose proof (rel_hi _ _ R) as RH. pose proof (rel_end _ _ R) as RE.
  pose proof (inv_len b I) as L.
  (* the final fragment never shortens the data *)
  assert (Hfin : f_mf f = false -> len (b_data b) <= f_endp f).
  { intros Hm. destruct (b_end b) as [E0|] eqn:Ee.
    - destruct L as (_ & _ & L). rewrite (proj1 (L E0 eq_refl)). destruct (A3 E0 eq_refl) as [_ Q]. specialize (Q Hm). lia.
    - rewrite (rel_len _ _ R Ee). apply Hlate; [exact Hm|reflexivity]. }
  assert (Hlen' : len (b_data (add_result b f ns kept)) = len (written b f)).
  { unfold add_result; cbn [b_data]. destruct (f_mf f) eqn:Em; [reflexivity|].
    rewrite len_take. specialize (Hfin eq_refl). lia. }
  constructor.
  - exact I'.
  - unfold add_result, push; cbn [b_end s_end]. destruct (f_mf f); [exact RE|reflexivity].
  - intros i Hi. rewrite Hlen' in Hi.
    assert (Hd : dget (b_data (add_result b f ns kept)) i = dget (written b f) i).
    { unfold add_result; cbn [b_data]. destruct (f_mf f) eqn:Em; [reflexivity|].
      rewrite dget_take. specialize (Hfin eq_refl).
      destruct (N.ltb_spec i (f_endp f)); [reflexivity|lia]. }
    rewrite Hd, dget_written. unfold push; cbn [s_frags lookup]. unfold covers.
    fold (f_endp f).
    destruct ((f_off f <=? i) && (i <? f_endp f)) eqn:Ec.
    + apply andb_true_iff in Ec. destruct Ec as [Ec1 Ec2]. apply N.leb_le in Ec1. apply N.ltb_lt in Ec2.
      destruct (rd_lt_Some (f_data f) (i - f_off f)) as [v Hv]; [unfold f_endp in Ec2; lia|].
      rewrite Hv. reflexivity.
    + destruct (N.ltb_spec i (len (b_data b))) as [C|C].
      * apply (rel_data _ _ R). exact C.
      * rewrite lookup_ge_hi by lia. rewrite LW in Hi.
        destruct (N.ltb_spec i (f_endp f)); [reflexivity|lia].
  - rewrite Hlen', LW. unfold push; cbn [s_frags hi]. fold (f_endp f). lia.
  - intros Hn. rewrite Hlen', LW. unfold push; cbn [s_frags hi]. fold (f_endp f).
    unfold add_result in Hn; cbn [b_end] in Hn. destruct (f_mf f); [|discriminate].
    rewrite (rel_len _ _ R Hn). lia.
Qed.

(* with the total length unknown, the largest section end is the largest offset received *)
Lemma Rel_hi_max b st r : Rel b st -> b_end b = None -> In r (b_sections b) ->
  (forall r', In r' (b_sections b) -> r_end r' <= r_end r) -> hi (s_frags st) <= r_end r.
Proof.
  intros R Ee Hr Hmax. rewrite <- (rel_len _ _ R Ee).
  destruct (inv_len b (rel_inv _ _ R)) as (_ & [L|(r0 & Hr0 & L)] & _); [lia|].
  specialize (Hmax r0 Hr0). lia.
Qed.

(* one delivery: same verdict, related states *)
Lemma sim_step b st f : Rel b st ->
  fst (model_step b f) = fst (spec_add st f) /\
  Rel (snd (model_step b f)) (snd (spec_add st f)).
Proof.
  intros R. pose proof (rel_end _ _ R) as RE.
  unfold model_step.
  destruct (add_cases b f) as [[Q H]|[(Q0 & Q1 & Q2 & H)|[(Q0 & Q1 & p & Qe & Q & H)|[(Q0 & Qe & Qm & r & Hr & Hrmax & Q & H)|(Acc & ns & kept & E & H)]]]];
    rewrite H; cbn [fst snd]; unfold spec_add in *; unfold MAX_DEFRAG_LEN in *.
  - destruct (N.ltb_spec 65535 (f_endp f)); [|lia]. cbn [fst snd]. auto.
  - destruct (N.ltb_spec 65535 (f_endp f)); [lia|]. rewrite Q1. cbn [andb].
    destruct (N.eqb_spec (len (f_data f) mod 8) 0); [lia|]. cbn [negb fst snd]. auto.
  - destruct (N.ltb_spec 65535 (f_endp f)); [lia|].
    assert (Hal : f_mf f && negb (len (f_data f) mod 8 =? 0) = false).
    { destruct (f_mf f); [|reflexivity]. rewrite (Q1 eq_refl). reflexivity. }
    rewrite Hal. rewrite <- RE, Qe.
    assert (Hc : (p <? f_endp f) || negb (f_mf f) && negb (f_endp f =? p) = true).
    { destruct Q as [Q|[Qm Q]].
      - destruct (N.ltb_spec p (f_endp f)); [reflexivity|lia].
      - rewrite Qm. destruct (N.eqb_spec (f_endp f) p); [lia|]. apply orb_true_r. }
    rewrite Hc. cbn [fst snd]. auto.
  - (* the final fragment ends below stored data *)
    destruct (N.ltb_spec 65535 (f_endp f)); [lia|].
    rewrite Qm. cbn [andb]. rewrite <- RE, Qe.
    pose proof (Rel_hi_max b st r R Qe Hr Hrmax) as Hh.
    pose proof (proj1 (inv_len b (rel_inv _ _ R)) r Hr) as Hh'. rewrite (rel_len _ _ R Qe) in Hh'.
    replace (hi (s_frags st)) with (r_end r) by lia.
    destruct (N.ltb_spec (f_endp f) (r_end r)); [|lia]. cbn [fst snd]. auto.
  - pose proof Acc as (A1 & A2 & A3 & A4).
    destruct (N.ltb_spec 65535 (f_endp f)); [lia|].
    assert (Hal : f_mf f && negb (len (f_data f) mod 8 =? 0) = false).
    { destruct (f_mf f); [|reflexivity]. rewrite (A2 eq_refl). reflexivity. }
    rewrite Hal in *. rewrite <- RE in *.
    destruct (b_end b) as [E0|] eqn:Ee.
    + destruct (A3 E0 eq_refl) as [B1 B2].
      assert (Hc : (E0 <? f_endp f) || negb (f_mf f) && negb (f_endp f =? E0) = false).
      { destruct (N.ltb_spec E0 (f_endp f)); [lia|]. cbn [orb].
        destruct (f_mf f); [reflexivity|]. rewrite (B2 eq_refl), N.eqb_refl. reflexivity. }
      rewrite Hc. cbn [fst snd]. split; [reflexivity|].
      pose proof (Rel_push b st f ns kept R Acc E) as RP.
      rewrite <- RE, Ee in RP.
      assert (Heq : (if f_mf f then Some E0 else Some (f_endp f)) = Some E0).
      { destruct (f_mf f); [reflexivity|]. rewrite (B2 eq_refl). reflexivity. }
      rewrite Heq in RP. apply RP. intros _ Q. discriminate.
    + pose proof (Rel_push b st f ns kept R Acc E) as RP. rewrite <- RE, Ee in RP.
      destruct (f_mf f) eqn:Em.
      * cbn [fst snd]. split; [reflexivity|]. apply RP. discriminate.
      * assert (C : hi (s_frags st) <= f_endp f).
        { rewrite <- (rel_len _ _ R Ee).
          destruct (inv_len b (rel_inv _ _ R)) as (_ & [L|(r0 & Hr0 & L)] & _); [lia|].
          specialize (A4 eq_refl eq_refl r0 Hr0). lia. }
        destruct (N.ltb_spec (f_endp f) (hi (s_frags st))) as [C'|C']; [lia|].
        cbn [fst snd]. split; [reflexivity|]. apply RP. intros _ _. exact C.
Qed.
(* ---------- G: completeness and payload ---------- *)
Lemma nth_nseq_from : forall k s m,
  nth_error (nseq_from s k) m = if (m <? k)%nat then Some (s + N.of_nat m) else None.
Proof.
  induction k as [|k IH]; intros s m; cbn [nseq_from].
  - destruct m; reflexivity.
  - destruct m as [|m]; cbn [nth_error].
    + replace (s + N.of_nat 0) with s by (cbn; lia). reflexivity.
    + rewrite IH. change (S m <? S k)%nat with (m <? k)%nat.
      destruct (m <? k)%nat; [f_equal; lia|reflexivity].
Qed.

Lemma dget_nseq n i : dget (nseq n) i = if i <? n then Some i else None.
Proof.
  unfold dget, nseq. rewrite nth_nseq_from.
  destruct (Nat.ltb_spec (N.to_nat i) (N.to_nat n)); destruct (N.ltb_spec i n); try lia; [f_equal; lia|reflexivity].
Qed.

Lemma in_nseq n i : In i (nseq n) <-> i < n.
Proof.
  split.
  - intros H. apply In_nth_error in H. destruct H as [m Hm].
    unfold nseq in Hm. rewrite nth_nseq_from in Hm.
    destruct (Nat.ltb_spec m (N.to_nat n)); [|discriminate]. inversion Hm. lia.
  - intros H. apply (nth_error_In _ (N.to_nat i)). fold (dget (nseq n) i). rewrite dget_nseq.
    destruct (N.ltb_spec i n); [reflexivity|lia].
Qed.

Lemma len_nseq n : len (nseq n) = n.
Proof.
  unfold len, nseq. assert (H : forall k s, length (nseq_from s k) = k).
  { induction k; intros s; cbn; [reflexivity|]. f_equal. apply IHk. }
  rewrite H. lia.
Qed.

Lemma spec_complete_iff st : spec_complete st = true <->
  exists E, s_end st = Some E /\ forall i, i < E -> exists v, lookup (s_frags st) i = Some v.
Proof.
  unfold spec_complete. destruct (s_end st) as [E|].
  - rewrite forallb_forall. split.
    + intros H. exists E. split; [reflexivity|]. intros i Hi. apply in_nseq in Hi. specialize (H i Hi).
      destruct (lookup (s_frags st) i); [eauto|discriminate].
    + intros (E' & HE & H) i Hi. inversion HE; subst E'. apply in_nseq in Hi.
      destruct (H i Hi) as [v Hv]. rewrite Hv. reflexivity.
  - split; [discriminate|]. intros (E & HE & _). discriminate.
Qed.

Lemma complete_agree b st : Rel b st -> is_complete b = spec_complete st.
Proof.
  intros R. pose proof (rel_inv _ _ R) as I. pose proof (inv_len b I) as L.
  pose proof (rel_end _ _ R) as RE.
  destruct (spec_complete st) eqn:Sc.
  - apply spec_complete_iff in Sc. destruct Sc as (E & HE & Hall).
    rewrite <- RE in HE. destruct L as (Lsec & _ & L3). destruct (L3 E HE) as [L1 (r0 & Hr0 & Hr0e)].
    assert (Hcov : forall i, i < E -> covered (b_sections b) i).
    { intros i Hi. destruct (Hall i Hi) as [v Hv].
      assert (Hd : dget (b_data b) i = Some (Some v)) by (rewrite (rel_data _ _ R) by lia; rewrite Hv; reflexivity).
      destruct (covered_dec (b_sections b) i) as [C|C]; [exact C|].
      rewrite (inv_none b I i) in Hd by (try lia; exact C). discriminate. }
    assert (Hr0w : wf r0) by (apply (inv_wf b I), Hr0).
    assert (Hdiff : forall r, In r (b_sections b) -> r = r0 \/ disj r r0).
    { intros r Hr. destruct (ForallOrdPairs_In (inv_sep b I) r r0 Hr Hr0) as [Q|[Q|Q]]; auto.
      right. apply disj_sym. exact Q. }
    assert (Hr0s : r_start r0 = 0).
    { destruct (N.eq_dec (r_start r0) 0) as [Q|Q]; [exact Q|]. exfalso.
      unfold wf in Hr0w.
      destruct (Hcov (r_start r0 - 1)) as (r1 & Hr1 & Hi1); [lia|].
      unfold inr in Hi1. destruct (Hdiff r1 Hr1) as [Q1|Q1].
      - subst r1. lia.
      - unfold disj in Q1. lia. }
    assert (Hall_eq : forall r, In r (b_sections b) -> r = r0).
    { intros r Hr. destruct (Hdiff r Hr) as [Q|Q]; [exact Q|]. exfalso.
      pose proof (inv_wf b I r Hr) as Wr. pose proof (Lsec r Hr) as Sr.
      unfold disj, wf in *. lia. }
    unfold is_complete. rewrite HE.
    destruct (b_sections b) as [|a [|a2 t]] eqn:Es.
    + destruct Hr0.
    + rewrite (Hall_eq a (or_introl eq_refl)). apply N.eqb_eq. exact Hr0s.
    + exfalso. pose proof (inv_sep b I) as F. rewrite Es in F.
      inversion F as [|x l' Fa Fr]; subst. inversion Fa as [|y l'' Fd _]; subst.
      rewrite (Hall_eq a (or_introl eq_refl)), (Hall_eq a2 (or_intror (or_introl eq_refl))) in Fd.
      unfold disj, wf in *. lia.
  - destruct (is_complete b) eqn:C; [|reflexivity]. exfalso.
    assert (Sc' : spec_complete st = true); [|congruence].
    apply spec_complete_iff. unfold is_complete in C.
    destruct (b_end b) as [E|] eqn:Ee; [|discriminate].
    destruct (b_sections b) as [|r [|r2 t]] eqn:Es; try discriminate.
    apply N.eqb_eq in C. destruct L as (Lsec & _ & L3). destruct (L3 E eq_refl) as [L1 (r' & [Hr'|[]] & L2)]. subst r'.
    exists E. split; [congruence|]. intros i Hi.
    assert (Hr : In r (b_sections b)) by (rewrite Es; left; reflexivity).
    destruct (inv_some b I i) as [v Hv]; [lia| |].
    + exists r. split; [exact Hr|]. unfold inr. lia.
    + exists v. rewrite (rel_data _ _ R) in Hv by lia. congruence.
Qed.
(* ---------- H: histories ---------- *)
Lemma payload_agree b st : Rel b st -> is_complete b = true -> b_data b = spec_payload st.
Proof.
  intros R C. pose proof (rel_inv _ _ R) as I. pose proof (inv_len b I) as L.
  pose proof (rel_end _ _ R) as RE. unfold is_complete in C. unfold spec_payload.
  destruct (b_end b) as [E|] eqn:Ee; [|discriminate]. rewrite <- RE. destruct L as (_ & _ & L).
  destruct (L E eq_refl) as [L1 _].
  apply dget_ext. intros i. rewrite dget_map, dget_nseq.
  destruct (N.ltb_spec i E) as [H|H]; cbn [option_map].
  - apply (rel_data _ _ R). lia.
  - apply dget_ge. lia.
Qed.

Lemma obs_agree v b st : Rel b st -> model_obs v b = spec_obs v st.
Proof.
  intros R. unfold model_obs, spec_obs. rewrite <- (complete_agree b st R).
  destruct (is_complete b) eqn:C; [|reflexivity]. rewrite (payload_agree b st R C). reflexivity.
Qed.

Lemma refines_gen : forall h b st, Rel b st ->
  model_trace b h = spec_trace st h /\ Rel (model_run b h) (spec_run st h).
Proof.
  induction h as [|f h IH]; intros b st R.
  - split; [reflexivity|exact R].
  - cbn [model_trace spec_trace] in *. unfold model_run, spec_run. cbn [fold_left].
    pose proof (sim_step b st f R) as S.
    destruct (model_step b f) as [v b'] eqn:Em. destruct (spec_add st f) as [sv st'] eqn:Es.
    cbn [fst snd] in *. destruct S as [Hv R']. subst sv.
    destruct (IH b' st' R') as [Ht Hr].
    split; [|exact Hr]. rewrite (obs_agree v b' st' R'), Ht. reflexivity.
Qed.

(* ---------- fragments of one payload: what the Spec does ---------- *)
Lemma hi_le (fs : list (N * bytes)) m :
  (forall o d, In (o, d) fs -> o + len d <= m) -> hi fs <= m.
Proof.
  induction fs as [|[o d] fs IH]; intros H; cbn [hi]; [lia|].
  pose proof (H o d (or_introl eq_refl)). assert (hi fs <= m) by (apply IH; intros; apply H; right; assumption). lia.
Qed.

Lemma lookup_covers : forall fs i v, lookup fs i = Some v ->
  exists o d, In (o, d) fs /\ covers o d i = true /\ rd d (i - o) = Some v.
Proof.
  induction fs as [|[o d] fs IH]; intros i v H; cbn [lookup] in H; [discriminate|].
  destruct (covers o d i) eqn:C.
  - exists o, d. split; [left; reflexivity|auto].
  - destruct (IH i v H) as (o' & d' & Hin & Hc & Hr). exists o', d'. split; [right; exact Hin|auto].
Qed.

Lemma covers_lookup : forall fs o d i, In (o, d) fs -> covers o d i = true -> exists v, lookup fs i = Some v.
Proof.
  induction fs as [|[o' d'] fs IH]; intros o d i Hin Hc; [destruct Hin|]. cbn [lookup].
  destruct (covers o' d' i) eqn:C.
  - unfold covers in C. apply andb_true_iff in C. destruct C as [C1 C2].
    apply N.leb_le in C1. apply N.ltb_lt in C2. apply rd_lt_Some. lia.
  - destruct Hin as [Hin|Hin]; [inversion Hin; subst; congruence|]. eapply IH; eauto.
Qed.

Lemma rd_slice (P d : bytes) o n j : d = take n (drop o P) -> j < n -> rd d j = rd P (o + j).
Proof.
  intros Hd Hj. subst d. rewrite !rd_dget, dget_take, dget_drop.
  destruct (N.ltb_spec j n); [reflexivity|lia].
Qed.

Record SInv (P : bytes) (hs : list frag) (st : rstate) : Prop := mkSInv {
  si_from : forall o d, In (o, d) (s_frags st) ->
            exists f, In f hs /\ frag_of P f /\ o = f_off f /\ d = f_data f;
  si_to : forall f, In f hs -> In (f_off f, f_data f) (s_frags st);
  si_end : match s_end st with
           | Some E => E = len P /\ exists f, In f hs /\ f_mf f = false
           | None => forall f, In f hs -> f_mf f = true
           end
}.

Lemma SInv_new P : SInv P [] spec_new.
Proof. constructor; cbn; [intros o d []|intros f []|intros f []]. Qed.

Lemma SInv_hi P hs st : SInv P hs st -> hi (s_frags st) <= len P.
Proof.
  intros S. apply hi_le. intros o d Hin. destruct (si_from _ _ _ S o d Hin) as (f & _ & (F1 & _) & Ho & Hd).
  subst. exact F1.
Qed.

Lemma spec_step_consistent P hs st f : len P <= 65535 -> SInv P hs st -> frag_of P f ->
  fst (spec_add st f) = VOk /\ SInv P (hs ++ [f]) (snd (spec_add st f)).
Proof.
  intros HP S (F1 & F2 & F3 & F4). pose proof (SInv_hi _ _ _ S) as Hhi. pose proof (si_end _ _ _ S) as SE.
  unfold spec_add, MAX_DEFRAG_LEN.
  destruct (N.ltb_spec 65535 (f_endp f)); [lia|].
  assert (Hal : f_mf f && negb (len (f_data f) mod 8 =? 0) = false).
  { destruct (f_mf f); [|reflexivity]. rewrite (F3 eq_refl). reflexivity. }
  rewrite Hal.
  assert (Push : forall e', (match e' with Some E => E = len P /\ exists g, In g (hs ++ [f]) /\ f_mf g = false
                             | None => forall g, In g (hs ++ [f]) -> f_mf g = true end) ->
                 SInv P (hs ++ [f]) (mkR ((f_off f, f_data f) :: s_frags st) e')).
  { intros e' He. constructor; cbn [s_frags s_end].
    - intros o d [Hin|Hin].
      + inversion Hin; subst. exists f. split; [apply in_or_app; right; left; reflexivity|].
        split; [repeat split; assumption|auto].
      + destruct (si_from _ _ _ S o d Hin) as (g & Hg & Q). exists g. split; [apply in_or_app; left; exact Hg|exact Q].
    - intros g Hg. apply in_app_or in Hg. destruct Hg as [Hg|[Hg|[]]].
      + right. apply (si_to _ _ _ S), Hg.
      + subst g. left. reflexivity.
    - exact He. }
  destruct (s_end st) as [E|] eqn:Ee.
  - destruct SE as [SE1 (g & Hg & Hgm)]. subst E.
    assert (Hc : (len P <? f_endp f) || negb (f_mf f) && negb (f_endp f =? len P) = false).
    { destruct (N.ltb_spec (len P) (f_endp f)); [lia|]. cbn [orb].
      destruct (f_mf f); [reflexivity|]. rewrite (F4 eq_refl), N.eqb_refl. reflexivity. }
    rewrite Hc. cbn [fst snd]. split; [reflexivity|]. apply Push. split; [reflexivity|].
    exists g. split; [apply in_or_app; left; exact Hg|exact Hgm].
  - destruct (f_mf f) eqn:Em.
    + cbn [fst snd]. split; [reflexivity|]. apply Push. intros g Hg.
      apply in_app_or in Hg. destruct Hg as [Hg|[Hg|[]]]; [apply SE, Hg|subst g; exact Em].
    + destruct (N.ltb_spec (f_endp f) (hi (s_frags st))) as [C|C].
      * rewrite (F4 eq_refl) in C. lia.
      * cbn [fst snd]. split; [reflexivity|]. apply Push. split; [apply F4; reflexivity|].
        exists f. split; [apply in_or_app; right; left; reflexivity|exact Em].
Qed.

Lemma spec_run_consistent P : len P <= 65535 -> forall h hs st, SInv P hs st -> Forall (frag_of P) h ->
  SInv P (hs ++ h) (spec_run st h) /\
  Forall (fun o : obs => fst (fst o) = VOk) (spec_trace st h).
Proof.
  intros HP. induction h as [|f h IH]; intros hs st S F.
  - rewrite app_nil_r. split; [exact S|constructor].
  - inversion F as [|x l Ff Fh]; subst.
    destruct (spec_step_consistent P hs st f HP S Ff) as [Hv S'].
    unfold spec_run. cbn [fold_left spec_trace].
    destruct (spec_add st f) as [v st'] eqn:Es. cbn [fst snd] in *. subst v.
    destruct (IH (hs ++ [f]) st' S' Fh) as (S2 & T2).
    rewrite <- app_assoc in S2. cbn [app] in S2.
    split; [exact S2|]. constructor; [reflexivity|exact T2].
Qed.

Lemma SInv_lookup P hs st i v : SInv P hs st -> lookup (s_frags st) i = Some v -> rd P i = Some v.
Proof.
  intros S H. destruct (lookup_covers _ _ _ H) as (o & d & Hin & Hc & Hr).
  destruct (si_from _ _ _ S o d Hin) as (f & _ & (F1 & F2 & _) & Ho & Hd). subst o d.
  unfold covers in Hc. apply andb_true_iff in Hc. destruct Hc as [C1 C2].
  apply N.leb_le in C1. apply N.ltb_lt in C2.
  rewrite (rd_slice P (f_data f) (f_off f) (len (f_data f)) (i - f_off f) F2) in Hr by lia.
  replace (f_off f + (i - f_off f)) with i in Hr by lia. exact Hr.
Qed.

Lemma SInv_complete P hs st : SInv P hs st -> (spec_complete st = true <-> Covered P hs).
Proof.
  intros S. rewrite spec_complete_iff. pose proof (si_end _ _ _ S) as SE. unfold Covered. split.
  - intros (E & HE & Hall). rewrite HE in SE. destruct SE as [SE1 SE2]. subst E. split; [exact SE2|].
    intros i Hi. destruct (Hall i Hi) as [v Hv].
    destruct (lookup_covers _ _ _ Hv) as (o & d & Hin & Hc & _).
    destruct (si_from _ _ _ S o d Hin) as (f & Hf & _ & Ho & Hd). subst o d. exists f. split; [exact Hf|].
    unfold covers in Hc. apply andb_true_iff in Hc. destruct Hc as [C1 C2].
    apply N.leb_le in C1. apply N.ltb_lt in C2. unfold f_endp. lia.
  - intros ((g & Hg & Hgm) & Hall). destruct (s_end st) as [E|].
    + destruct SE as [SE1 _]. subst E. exists (len P). split; [reflexivity|]. intros i Hi.
      destruct (Hall i Hi) as (f & Hf & Hr). apply (covers_lookup _ (f_off f) (f_data f)).
      * apply (si_to _ _ _ S), Hf.
      * unfold covers. apply andb_true_iff. split; [apply N.leb_le; lia|apply N.ltb_lt; unfold f_endp in Hr; lia].
    + specialize (SE g Hg). congruence.
Qed.

Lemma SInv_payload P hs st : SInv P hs st -> spec_complete st = true -> spec_payload st = map Some P.
Proof.
  intros S C. pose proof C as C'. apply spec_complete_iff in C'. destruct C' as (E & HE & Hall).
  pose proof (si_end _ _ _ S) as SE. rewrite HE in SE. destruct SE as [SE1 _]. subst E.
  unfold spec_payload. rewrite HE. apply dget_ext. intros i. rewrite !dget_map, dget_nseq.
  destruct (N.ltb_spec i (len P)) as [H|H]; cbn [option_map].
  - destruct (Hall i H) as [v Hv]. rewrite Hv. pose proof (SInv_lookup _ _ _ _ _ S Hv) as Hr.
    rewrite rd_dget in Hr. rewrite Hr. reflexivity.
  - rewrite dget_ge by lia. reflexivity.
Qed.

(* the buffer-level theorem *)
Lemma any_order P h ipn d0 s0 : len P <= 65535 -> Forall (frag_of P) h ->
  let b := model_run (buf_new ipn d0 s0) h in
  (is_complete b = true <-> Covered P h) /\
  (is_complete b = true -> b_data b = map Some P) /\
  Forall (fun o : obs => fst (fst o) = VOk) (model_trace (buf_new ipn d0 s0) h).
Proof.
  intros HP F b.
  destruct (spec_run_consistent P HP h [] spec_new (SInv_new P) F) as (S & T). cbn [app] in S.
  destruct (refines_gen h (buf_new ipn d0 s0) spec_new (Rel_new ipn d0 s0)) as [Ht R].
  fold b in R. split; [|split].
  - rewrite (complete_agree _ _ R). apply (SInv_complete _ _ _ S).
  - intros C. rewrite (payload_agree _ _ R C). apply (SInv_payload _ _ _ S).
    rewrite <- (complete_agree _ _ R). exact C.
  - rewrite Ht. exact T.
Qed.

Lemma Forall_firstn' {A} (Q : A -> Prop) : forall k l, Forall Q l -> Forall Q (firstn k l).
Proof.
  induction k as [|k IH]; intros l F; [constructor|]. destruct l as [|x l]; [constructor|].
  inversion F; subst. cbn [firstn]. constructor; auto.
Qed.

(* cuts *)
Lemma take_all {A} (l : list A) : take (len l) l = l.
Proof. unfold take, len. rewrite Nat2N.id. apply firstn_all. Qed.

Lemma cut_frag_of P : forall sizes fo, (fo + sumN sizes) * 8 <= len P ->
  Forall (frag_of P) (cut_at P fo sizes).
Proof.
  induction sizes as [|n r IH]; intros fo H; cbn [cut_at sumN] in *.
  - constructor; [|constructor]. unfold frag_of, f_endp, f_off; cbn [f_fo f_mf f_data].
    rewrite len_drop. split; [lia|]. split; [|split; [discriminate|intros _; lia]].
    rewrite <- len_drop. symmetry. apply take_all.
  - constructor; [|apply IH; lia]. unfold frag_of, f_endp, f_off; cbn [f_fo f_mf f_data].
    assert (Hl : len (take (n * 8) (drop (fo * 8) P)) = n * 8) by (rewrite len_take, len_drop; lia).
    rewrite Hl. split; [lia|]. split; [reflexivity|]. split; [|discriminate].
    intros _. apply N.mod_mul. lia.
Qed.

Lemma cut_covers P : forall sizes fo, (fo + sumN sizes) * 8 <= len P ->
  (exists f, In f (cut_at P fo sizes) /\ f_mf f = false) /\
  forall i, fo * 8 <= i < len P -> exists f, In f (cut_at P fo sizes) /\ f_off f <= i < f_endp f.
Proof.
  induction sizes as [|n r IH]; intros fo H; cbn [cut_at sumN] in *.
  - split.
    + eexists. split; [left; reflexivity|reflexivity].
    + intros i Hi. eexists. split; [left; reflexivity|].
      unfold f_endp, f_off; cbn [f_fo f_data]. rewrite len_drop. lia.
  - destruct (IH (fo + n)) as [(g & Hg & Hgm) Hall]; [lia|]. split.
    + exists g. split; [right; exact Hg|exact Hgm].
    + intros i Hi. destruct (N.lt_ge_cases i ((fo + n) * 8)) as [C|C].
      * eexists. split; [left; reflexivity|].
        unfold f_endp, f_off; cbn [f_fo f_data]. rewrite len_take, len_drop. lia.
      * destruct (Hall i) as (f & Hf & Hr); [lia|]. exists f. split; [right; exact Hf|exact Hr].
Qed.

Lemma cut_any_order P sizes h ipn d0 s0 : len P <= 65535 -> sumN sizes * 8 <= len P ->
  (forall f, In f h -> In f (cut_at P 0 sizes)) ->
  let b := model_run (buf_new ipn d0 s0) h in
  (is_complete b = true <-> Covered P h) /\
  (is_complete b = true -> b_data b = map Some P) /\
  ((forall f, In f (cut_at P 0 sizes) -> In f h) -> is_complete b = true).
Proof.
  intros HP Hs Hin b.
  assert (F : Forall (frag_of P) h).
  { rewrite Forall_forall. intros f Hf. pose proof (cut_frag_of P sizes 0) as Q.
    rewrite Forall_forall in Q. apply Q; [lia|apply Hin, Hf]. }
  destruct (any_order P h ipn d0 s0 HP F) as (A1 & A2 & _). fold b in A1, A2.
  split; [exact A1|]. split; [exact A2|]. intros Hall. apply A1.
  destruct (cut_covers P sizes 0) as [(g & Hg & Hgm) Hc]; [lia|]. split.
  - exists g. split; [apply Hall, Hg|exact Hgm].
  - intros i Hi. destruct (Hc i) as (f & Hf & Hr); [lia|]. exists f. split; [apply Hall, Hf|exact Hr].
Qed.

(* rejects *)
Lemma reject_toobig b f : 65535 < f_endp f ->
  model_step b f = (VTooBig (f_fo f) (len (f_data f)), b).
Proof.
  intros H. unfold model_step.
  destruct (add_cases b f) as [[Q E]|[(Q0 & Q1 & Q2 & E)|[(Q0 & Q1 & p & Qe & Q & E)|[(Q0 & _ & _ & r & _ & _ & _ & E)|((A1 & _) & ns & kept & _ & E)]]]];
    rewrite E; try reflexivity; lia.
Qed.

Lemma reject_unaligned b f : f_endp f <= 65535 -> f_mf f = true -> len (f_data f) mod 8 <> 0 ->
  model_step b f = (VUnaligned (f_fo f) (len (f_data f)), b).
Proof.
  intros H Hm Hu. unfold model_step.
  destruct (add_cases b f) as [[Q E]|[(Q0 & Q1 & Q2 & E)|[(Q0 & Q1 & p & Qe & Q & E)|[(Q0 & _ & Qm & r & _ & _ & _ & E)|((A1 & A2 & _) & ns & kept & _ & E)]]]];
    rewrite E; try reflexivity; try lia.
  - specialize (Q1 Hm). lia.
  - congruence.
  - specialize (A2 Hm). lia.
Qed.

Lemma reject_conflict b f prev : f_endp f <= 65535 -> (f_mf f = true -> len (f_data f) mod 8 = 0) ->
  b_end b = Some prev -> (prev < f_endp f \/ (f_mf f = false /\ f_endp f <> prev)) ->
  model_step b f = (VConflict prev (f_endp f), b).
Proof.
  intros H Ha He Hc. unfold model_step.
  destruct (add_cases b f) as [[Q E]|[(Q0 & Q1 & Q2 & E)|[(Q0 & Q1 & p & Qe & Q & E)|[(Q0 & Qe & _ & r & _ & _ & _ & E)|((A1 & A2 & A3 & _) & ns & kept & _ & E)]]]];
    rewrite E; try lia.
  - specialize (Ha Q1). lia.
  - rewrite He in Qe. inversion Qe; subst. reflexivity.
  - congruence.
  - destruct (A3 prev He) as [B1 B2]. destruct Hc as [Hc|[Hm Hc]]; [lia|]. specialize (B2 Hm). lia.
Qed.

(* the reject the repair of F8 added: the total length is still unknown and a
   final fragment ends below the largest section end *)
Lemma reject_late_end b f r : f_endp f <= 65535 -> b_end b = None -> f_mf f = false ->
  In r (b_sections b) -> (forall r', In r' (b_sections b) -> r_end r' <= r_end r) ->
  f_endp f < r_end r ->
  model_step b f = (VConflict (r_end r) (f_endp f), b).
Proof.
  intros H He Hm Hr Hmax Hc. unfold model_step.
  destruct (add_cases b f) as [[Q E]|[(Q0 & Q1 & Q2 & E)|[(Q0 & Q1 & p & Qe & Q & E)|[(Q0 & Qe & _ & r0 & Hr0 & Hmax0 & _ & E)|((A1 & A2 & A3 & A4) & ns & kept & _ & E)]]]];
    rewrite E; try lia; try congruence.
  - specialize (Hmax r0 Hr0). specialize (Hmax0 r Hr). replace (r_end r0) with (r_end r) by lia. reflexivity.
  - specialize (A4 He Hm r Hr). lia.
Qed.

Lemma accept_ok b f : accepts b f -> exists b', model_step b f = (VOk, b').
Proof.
  intros (A1 & A2 & A3 & A4). unfold model_step.
  destruct (add_cases b f) as [[Q E]|[(Q0 & Q1 & Q2 & E)|[(Q0 & Q1 & p & Qe & Q & E)|[(Q0 & Qe & Qm & r & Hr & _ & Q & E)|(_ & ns & kept & _ & E)]]]];
    rewrite E.
  - lia.
  - specialize (A2 Q1). lia.
  - destruct (A3 p Qe) as [B1 B2]. destruct Q as [Q|[Qm Q]]; [lia|]. specialize (B2 Qm). lia.
  - specialize (A4 Qe Qm r Hr). lia.
  - eauto.
Qed.
(* ---------- P: the pool ---------- *)
Lemma fid_eqb_eq : forall a b, fid_eqb a b = true <-> a = b.
Proof.
  induction a as [|x a IH]; intros [|y b]; cbn [fid_eqb]; split; intros H; try reflexivity; try discriminate.
  - apply andb_true_iff in H. destruct H as [H1 H2]. apply N.eqb_eq in H1. apply IH in H2. congruence.
  - inversion H; subst. rewrite N.eqb_refl. cbn [andb]. apply IH. reflexivity.
Qed.

Lemma fid_eqb_refl a : fid_eqb a a = true.
Proof. apply fid_eqb_eq. reflexivity. Qed.

Lemma fid_eqb_neq a b : a <> b -> fid_eqb a b = false.
Proof. intros H. destruct (fid_eqb a b) eqn:E; [|reflexivity]. apply fid_eqb_eq in E. contradiction. Qed.

Section Assoc.
  Context {V : Type}.
  Implicit Types (l : list (fid * V)).

  Lemma alookup_aremove_same k l : alookup k (aremove k l) = None.
  Proof.
    induction l as [|[k' v] l IH]; cbn [aremove alookup]; [reflexivity|].
    destruct (fid_eqb k k') eqn:E; [exact IH|]. cbn [alookup]. rewrite E. exact IH.
  Qed.

  Lemma alookup_aremove_other k k' l : k <> k' -> alookup k' (aremove k l) = alookup k' l.
  Proof.
    intros H. induction l as [|[k2 v] l IH]; cbn [aremove alookup]; [reflexivity|].
    destruct (fid_eqb k k2) eqn:E.
    - apply fid_eqb_eq in E. subst k2. rewrite (fid_eqb_neq k' k) by congruence. exact IH.
    - cbn [alookup]. rewrite IH. reflexivity.
  Qed.

  Lemma alookup_aset_same k v l : alookup k (aset k v l) = Some v.
  Proof.
    induction l as [|[k' v'] l IH]; cbn [aset alookup].
    - rewrite fid_eqb_refl. reflexivity.
    - destruct (fid_eqb k k') eqn:E; cbn [alookup]; [rewrite fid_eqb_refl; reflexivity|].
      rewrite E. exact IH.
  Qed.

  Lemma alookup_aset_other k k' v l : k <> k' -> alookup k' (aset k v l) = alookup k' l.
  Proof.
    intros H. induction l as [|[k2 v2] l IH]; cbn [aset alookup].
    - rewrite (fid_eqb_neq k' k) by congruence. reflexivity.
    - destruct (fid_eqb k k2) eqn:E; cbn [alookup].
      + apply fid_eqb_eq in E. subst k2. rewrite (fid_eqb_neq k' k) by congruence.
        apply alookup_aremove_other. exact H.
      + rewrite IH. reflexivity.
  Qed.
End Assoc.

Definition view (id : fid) (p : pool) : option (buf * N) := alookup id (p_active p).

(* what process_sliced_packet does to one stream, alone *)
Definition stream_step (s : option (buf * N)) (k : pkt) (ts : N) : pres * option (buf * N) :=
  let f := k_frag k in
  if negb (is_fragmenting f) then (PNone, s) else
  match s with
  | Some (b, t) =>
      match add b f with
      | AddOk b' => if is_complete b' then (PDone (k_ipn k) (k_v4 k) (b_data b'), None)
                    else (PNone, Some (b', ts))
      | AddErr v => (PErr v, s)
      | AddPanic => (PErr VPanic, s)
      end
  | None =>
      match add (buf_new (k_ipn k) [] []) f with
      | AddOk b' => (PNone, Some (b', ts))
      | AddErr v => (PErr v, None)
      | AddPanic => (PErr VPanic, None)
      end
  end.

Lemma process_view p k ts :
  fst (process p k ts) = fst (stream_step (view (k_id k) p) k ts) /\
  view (k_id k) (snd (process p k ts)) = snd (stream_step (view (k_id k) p) k ts) /\
  forall id', id' <> k_id k -> view id' (snd (process p k ts)) = view id' p.
Proof.
  unfold process, stream_step, view.
  destruct (negb (is_fragmenting (k_frag k))); [cbn [fst snd]; auto|].
  destruct (alookup (k_id k) (p_active p)) as [[b t]|] eqn:El.
  - destruct (add b (k_frag k)) as [b'| v |]; try (cbn [fst snd]; rewrite El; auto).
    destruct (is_complete b'); cbn [fst snd p_active].
    + split; [reflexivity|]. split; [apply alookup_aremove_same|].
      intros id' H. apply alookup_aremove_other. congruence.
    + split; [reflexivity|]. split; [apply alookup_aset_same|].
      intros id' H. apply alookup_aset_other. congruence.
  - destruct (pop (p_fdata p)) as [d fd]. destruct (pop (p_fsec p)) as [s fs].
    change (buf_new (k_ipn k) d s) with (buf_new (k_ipn k) [] []).
    destruct (add (buf_new (k_ipn k) [] []) (k_frag k)) as [b'| v |]; cbn [fst snd p_active].
    + split; [reflexivity|]. split; [apply alookup_aset_same|].
      intros id' H. apply alookup_aset_other. congruence.
    + rewrite El. auto.
    + rewrite El. auto.
Qed.

Inductive pool_op := ODeliver (k : pkt) (ts : N) | OReturn (payload : list (option byte)).

Fixpoint pool_trace (p : pool) (ops : list pool_op) : list (fid * pres) :=
  match ops with
  | [] => []
  | ODeliver k ts :: r => let '(res, p') := process p k ts in (k_id k, res) :: pool_trace p' r
  | OReturn pl :: r => pool_trace (return_buf p pl) r
  end.

Fixpoint stream_trace (s : option (buf * N)) (ks : list (pkt * N)) : list pres :=
  match ks with
  | [] => []
  | (k, ts) :: r => let '(res, s') := stream_step s k ts in res :: stream_trace s' r
  end.

(* the deliveries of one stream id, in order *)
Fixpoint for_id (id : fid) (ops : list pool_op) : list (pkt * N) :=
  match ops with
  | [] => []
  | ODeliver k ts :: r => if fid_eqb (k_id k) id then (k, ts) :: for_id id r else for_id id r
  | OReturn _ :: r => for_id id r
  end.

Definition results_for (id : fid) (tr : list (fid * pres)) : list pres :=
  map snd (filter (fun r => fid_eqb (fst r) id) tr).

Lemma isolation : forall ops p id,
  results_for id (pool_trace p ops) = stream_trace (view id p) (for_id id ops).
Proof.
  induction ops as [|[k ts|pl] ops IH]; intros p id; cbn [pool_trace for_id].
  - reflexivity.
  - destruct (process_view p k ts) as (H1 & H2 & H3).
    destruct (process p k ts) as [res p'] eqn:Ep. cbn [fst snd] in *.
    unfold results_for. cbn [filter fst]. destruct (fid_eqb (k_id k) id) eqn:E.
    + apply fid_eqb_eq in E. subst id. cbn [map snd stream_trace].
      destruct (stream_step (view (k_id k) p) k ts) as [res' s'] eqn:Es. cbn [fst snd] in *. subst res'.
      f_equal. rewrite <- H2. apply IH.
    + fold (results_for id (pool_trace p' ops)). rewrite IH. rewrite H3; [reflexivity|].
      intros Q. subst id. rewrite fid_eqb_refl in E. discriminate.
  - rewrite IH. reflexivity.
Qed.

(* ---------- one stream through the pool: fragments of one payload ---------- *)
Lemma model_step_ok b f b' : model_step b f = (VOk, b') -> add b f = AddOk b'.
Proof.
  unfold model_step. intros H.
  destruct (add_cases b f) as [[_ E]|[(_ & _ & _ & E)|[(_ & _ & p & _ & _ & E)|[(_ & _ & _ & r & _ & _ & _ & E)|(_ & ns & kept & _ & E)]]]];
    rewrite E in *; try discriminate. inversion H. reflexivity.
Qed.

Lemma model_run_snoc b hs f : model_run b (hs ++ [f]) = snd (model_step (model_run b hs) f).
Proof. unfold model_run. rewrite fold_left_app. reflexivity. Qed.

Lemma consistent_add P hs ipn d s f : len P <= 65535 -> Forall (frag_of P) hs -> frag_of P f ->
  add (model_run (buf_new ipn d s) hs) f = AddOk (model_run (buf_new ipn d s) (hs ++ [f])).
Proof.
  intros HP F Ff.
  destruct (spec_run_consistent P HP hs [] spec_new (SInv_new P) F) as (S & _). cbn [app] in S.
  destruct (refines_gen hs (buf_new ipn d s) spec_new (Rel_new ipn d s)) as [_ R].
  destruct (spec_step_consistent P hs _ f HP S Ff) as [Hv _].
  destruct (sim_step _ _ f R) as [Hm _]. rewrite Hv in Hm.
  apply model_step_ok. rewrite model_run_snoc.
  destruct (model_step (model_run (buf_new ipn d s) hs) f) as [v b'] eqn:E. cbn [fst snd] in *. subst v. reflexivity.
Qed.

Lemma fragmenting_not_covered P f : frag_of P f -> is_fragmenting f = true -> ~ Covered P [f].
Proof.
  intros (F1 & F2 & F3 & F4) Hf ((g & [Hg|[]] & Hgm) & Hall). subst g.
  unfold is_fragmenting in Hf. rewrite Hgm in Hf. cbn [orb] in Hf.
  destruct (N.eqb_spec (f_fo f) 0) as [Q|Q]; [discriminate|].
  specialize (F4 Hgm). unfold f_endp, f_off in *.
  destruct (Hall 0) as (g & [Hg|[]] & Hr); [lia|]. subst g. lia.
Qed.

Section OneStream.
  Variable P : bytes.
  Hypothesis HP : len P <= 65535.

  Definition pkt_ok (kt : pkt * N) : Prop :=
    frag_of P (k_frag (fst kt)) /\ is_fragmenting (k_frag (fst kt)) = true.
  Definition frags_of (ks : list (pkt * N)) : list frag := map (fun kt => k_frag (fst kt)) ks.

  (* the stream's entry in `active` after the deliveries hs of the current datagram *)
  Definition sstate (hs : list frag) (s : option (buf * N)) : Prop :=
    (hs = [] /\ s = None) \/
    (hs <> [] /\ exists ipn t, s = Some (model_run (buf_new ipn [] []) hs, t)).

  Fixpoint stream_run (s : option (buf * N)) (ks : list (pkt * N)) : option (buf * N) :=
    match ks with
    | [] => s
    | (k, ts) :: r => stream_run (snd (stream_step s k ts)) r
    end.

  Lemma stream_step_consistent hs s k ts : sstate hs s -> Forall (frag_of P) hs -> pkt_ok (k, ts) ->
    (~ Covered P (hs ++ [k_frag k]) ->
       fst (stream_step s k ts) = PNone /\ sstate (hs ++ [k_frag k]) (snd (stream_step s k ts))) /\
    (Covered P (hs ++ [k_frag k]) ->
       stream_step s k ts = (PDone (k_ipn k) (k_v4 k) (map Some P), None)).
  Proof.
    intros St F [Ff Hfr]. cbn [fst] in Ff, Hfr.
    assert (F' : Forall (frag_of P) (hs ++ [k_frag k])).
    { apply Forall_app. split; [exact F|constructor; [exact Ff|constructor]]. }
    unfold stream_step. rewrite Hfr. cbn [negb].
    destruct St as [[Hh Hs]|(Hh & ipn & t & Hs)]; subst s.
    - subst hs. cbn [app] in *.
      pose proof (consistent_add P [] (k_ipn k) [] [] (k_frag k) HP F Ff) as Ha.
      change (model_run (buf_new (k_ipn k) [] []) []) with (buf_new (k_ipn k) [] []) in Ha.
      cbn [app] in Ha. rewrite Ha. cbn [fst snd]. split.
      + intros _. split; [reflexivity|]. right. split; [discriminate|]. eauto.
      + intros C. exfalso. exact (fragmenting_not_covered P _ Ff Hfr C).
    - rewrite (consistent_add P hs ipn [] [] (k_frag k) HP F Ff).
      destruct (any_order P (hs ++ [k_frag k]) ipn [] [] HP F') as (A1 & A2 & _).
      cbn zeta in A1, A2.
      destruct (is_complete (model_run (buf_new ipn [] []) (hs ++ [k_frag k]))) eqn:C.
      + split.
        * intros NC. exfalso. apply NC, A1. reflexivity.
        * intros _. rewrite (A2 eq_refl). reflexivity.
      + split.
        * intros _. cbn [fst snd]. split; [reflexivity|]. right. split; [|eauto].
          destruct hs; discriminate.
        * intros Cv. apply A1 in Cv. discriminate.
  Qed.

  Lemma stream_none_gen : forall ks hs s, sstate hs s -> Forall (frag_of P) hs ->
    (forall kt, In kt ks -> pkt_ok kt) ->
    (forall j, (1 <= j <= length ks)%nat -> ~ Covered P (hs ++ firstn j (frags_of ks))) ->
    stream_trace s ks = map (fun _ => PNone) ks /\ sstate (hs ++ frags_of ks) (stream_run s ks).
  Proof.
    induction ks as [|[k ts] r IH]; intros hs s St F Hok Hnc.
    - cbn. rewrite app_nil_r. auto.
    - cbn [stream_trace stream_run map frags_of].
      assert (Hk : pkt_ok (k, ts)) by (apply Hok; left; reflexivity).
      destruct (stream_step_consistent hs s k ts St F Hk) as [SN _].
      assert (NC1 : ~ Covered P (hs ++ [k_frag k])).
      { specialize (Hnc 1%nat). cbn [length firstn frags_of map fst] in Hnc. apply Hnc. lia. }
      destruct (SN NC1) as [Hres St'].
      destruct (stream_step s k ts) as [res s'] eqn:Es. cbn [fst snd] in *. subst res.
      destruct (IH (hs ++ [k_frag k]) s' St') as [Ht Hs].
      + apply Forall_app. split; [exact F|]. constructor; [apply Hk|constructor].
      + intros kt Hkt. apply Hok. right. exact Hkt.
      + intros j Hj. rewrite <- app_assoc. cbn [app].
        specialize (Hnc (S j)). cbn [length firstn frags_of map fst] in Hnc. apply Hnc. lia.
      + rewrite Ht. split; [reflexivity|]. rewrite <- app_assoc in Hs. exact Hs.
  Qed.

  Lemma stream_trace_app : forall a b s,
    stream_trace s (a ++ b) = stream_trace s a ++ stream_trace (stream_run s a) b.
  Proof.
    induction a as [|[k ts] a IH]; intros b s; [reflexivity|].
    cbn [app stream_trace stream_run]. destruct (stream_step s k ts) as [res s']. cbn [snd].
    rewrite IH. reflexivity.
  Qed.

  Lemma stream_run_app : forall a b s, stream_run s (a ++ b) = stream_run (stream_run s a) b.
  Proof.
    induction a as [|[k ts] a IH]; intros b s; [reflexivity|]. cbn [app stream_run]. apply IH.
  Qed.

  (* nothing is returned while the delivered fragments do not cover P ... *)
  Lemma pool_never_early ks : (forall kt, In kt ks -> pkt_ok kt) ->
    (forall j, (j <= length ks)%nat -> ~ Covered P (firstn j (frags_of ks))) ->
    stream_trace None ks = map (fun _ => PNone) ks.
  Proof.
    intros Hok Hnc.
    destruct (stream_none_gen ks [] None) as [Ht _]; auto.
    - left. auto.
    - intros j Hj. cbn [app]. apply Hnc. lia.
  Qed.

  (* ... and the delivery that completes the cover returns P, once, and releases the stream *)
  Lemma pool_completes ks k ts : (forall kt, In kt ks -> pkt_ok kt) -> pkt_ok (k, ts) ->
    (forall j, (j <= length ks)%nat -> ~ Covered P (firstn j (frags_of ks))) ->
    Covered P (frags_of ks ++ [k_frag k]) ->
    stream_trace None (ks ++ [(k, ts)]) =
      map (fun _ => PNone) ks ++ [PDone (k_ipn k) (k_v4 k) (map Some P)] /\
    stream_run None (ks ++ [(k, ts)]) = None.
  Proof.
    intros Hok Hk Hnc Hc.
    destruct (stream_none_gen ks [] None) as [Ht Hs]; auto.
    - left. auto.
    - intros j Hj. cbn [app]. apply Hnc. lia.
    - cbn [app] in Hs.
      assert (F : Forall (frag_of P) (frags_of ks)).
      { rewrite Forall_forall. intros f Hf. unfold frags_of in Hf. apply in_map_iff in Hf.
        destruct Hf as (kt & Hkt & Hin). subst f. apply (Hok kt Hin). }
      destruct (stream_step_consistent _ _ k ts Hs F Hk) as [_ SC]. specialize (SC Hc).
      rewrite stream_trace_app, stream_run_app, Ht. cbn [stream_trace stream_run].
      rewrite SC. cbn [snd]. auto.
  Qed.
End OneStream.

(* ---------- no stale / unwritten byte in anything the pool returns (every history) ---------- *)
Definition no_None (pl : list (option byte)) : Prop := forall x, In x pl -> x <> None.

Lemma complete_data_no_None b : Inv b -> is_complete b = true -> no_None (b_data b).
Proof.
  intros I C x Hx. apply In_nth_error in Hx. destruct Hx as [n Hn].
  destruct (complete_no_None b I C (N.of_nat n)) as [v Hv].
  - apply (dget_Some_lt _ _ x). unfold dget. rewrite Nat2N.id. exact Hn.
  - unfold dget in Hv. rewrite Nat2N.id in Hv. congruence.
Qed.

Definition res_ok (r : pres) : Prop :=
  match r with PDone _ _ pl => no_None pl | PErr VPanic => False | _ => True end.
Definition sinv (s : option (buf * N)) : Prop := match s with Some (b, _) => Inv b | None => True end.

Lemma stream_step_ok s k ts : sinv s ->
  res_ok (fst (stream_step s k ts)) /\ sinv (snd (stream_step s k ts)).
Proof.
  intros I. unfold stream_step. destruct (negb (is_fragmenting (k_frag k))); [cbn; auto|].
  destruct s as [[b t]|].
  - cbn [sinv] in I. pose proof (add_never_panics b (k_frag k)) as NP.
    destruct (add b (k_frag k)) as [b'|v|] eqn:E; [| |congruence].
    + pose proof (add_preserves_Inv b _ b' I E) as I'.
      destruct (is_complete b') eqn:C; cbn [fst snd res_ok sinv]; [|auto].
      split; [apply complete_data_no_None; assumption|exact Logic.I].
    + cbn [fst snd sinv]. split; [|exact I].
      destruct (add_cases b (k_frag k)) as [[_ H]|[(_ & _ & _ & H)|[(_ & _ & p & _ & _ & H)|[(_ & _ & _ & r & _ & _ & _ & H)|(_ & ns & kept & _ & H)]]]];
        rewrite H in E; inversion E; exact Logic.I.
  - pose proof (add_never_panics (buf_new (k_ipn k) [] []) (k_frag k)) as NP.
    destruct (add (buf_new (k_ipn k) [] []) (k_frag k)) as [b'|v|] eqn:E; [| |congruence].
    + cbn [fst snd res_ok sinv]. split; [exact Logic.I|].
      apply (add_preserves_Inv _ _ b' (Inv_new _ _ _) E).
    + cbn [fst snd sinv]. split; [|exact Logic.I].
      destruct (add_cases (buf_new (k_ipn k) [] []) (k_frag k)) as [[_ H]|[(_ & _ & _ & H)|[(_ & _ & p & _ & _ & H)|[(_ & _ & _ & r & _ & _ & _ & H)|(_ & ns & kept & _ & H)]]]];
        rewrite H in E; inversion E; exact Logic.I.
Qed.

Lemma stream_trace_ok : forall ks s, sinv s -> Forall res_ok (stream_trace s ks).
Proof.
  induction ks as [|[k ts] ks IH]; intros s I; cbn [stream_trace]; [constructor|].
  destruct (stream_step_ok s k ts I) as [H1 H2].
  destruct (stream_step s k ts) as [res s']. cbn [fst snd] in *. constructor; [exact H1|apply IH, H2].
Qed.

Lemma pool_no_leak ops id : Forall res_ok (results_for id (pool_trace pool_new ops)).
Proof. rewrite isolation. apply stream_trace_ok. exact Logic.I. Qed.

Lemma passthrough p k ts : is_fragmenting (k_frag k) = false -> process p k ts = (PNone, p).
Proof. intros H. unfold process. rewrite H. reflexivity. Qed.

(* ---------- two facts about the repaired add that explain equivalent mutants ---------- *)
(* while the total length is unknown, the largest section end IS the data length
   (so comparing the final fragment's end with data.len() gives the same answer) *)
Lemma sec_max_is_len b : Inv b -> b_end b = None ->
  match sec_max (b_sections b) with
  | Some m => m = len (b_data b)
  | None => len (b_data b) = 0
  end.
Proof.
  intros I Ee. pose proof (sec_max_spec (b_sections b)) as SM.
  destruct (inv_len b I) as (L1 & L2 & _).
  destruct (sec_max (b_sections b)) as [m|].
  - destruct SM as [SM1 (r & Hr & SM2)]. specialize (L1 r Hr).
    destruct L2 as [L2|(r0 & Hr0 & L2)]; [lia|]. specialize (SM1 r0 Hr0). lia.
  - rewrite SM in L2. destruct L2 as [L2|(r0 & [] & _)]. exact L2.
Qed.

(* an accepted final fragment never shortens the data: after growth and copy the
   data already has length `end`, the closing set_len(end) changes nothing *)
Lemma final_set_len_noop b f : Inv b -> accepts b f -> f_mf f = false ->
  len (written b f) = f_endp f /\ take (f_endp f) (written b f) = written b f.
Proof.
  intros I (A1 & A2 & A3 & A4) Hm.
  destruct (inv_len b I) as (L1 & L2 & L3).
  assert (Hl : len (written b f) = f_endp f).
  { rewrite len_written. destruct (b_end b) as [E0|] eqn:Ee.
    - destruct (A3 E0 eq_refl) as [_ Q]. specialize (Q Hm). rewrite (proj1 (L3 E0 eq_refl)). lia.
    - destruct L2 as [L2|(r & Hr & L2)]; [lia|]. specialize (A4 eq_refl Hm r Hr). lia. }
  split; [exact Hl|]. rewrite <- Hl. apply take_all.
Qed.

(* ---------- the former finding F8: regression ---------- *)
(* [0,16) non-final and [8,12) final: whichever comes second is rejected, with the
   values the repaired crate reports, and the buffer stays as it was *)
Lemma f8_regression :
  let a := mkFrag 0 true [0;1;2;3;4;5;6;7;8;9;10;11;12;13;14;15] in
  let z := mkFrag 1 false [170;187;204;221] in
  let ba := model_run (buf_new 17 [] []) [a] in
  let bz := model_run (buf_new 17 [] []) [z] in
  LateEndClass [a; z] /\
  model_step ba z = (VConflict 16 12, ba) /\
  model_step bz a = (VConflict 12 16, bz) /\
  model_trace (buf_new 17 [] []) [a; z] = [(VOk, false, None); (VConflict 16 12, false, None)] /\
  spec_trace spec_new [a; z] = [(VOk, false, None); (VConflict 16 12, false, None)] /\
  model_trace (buf_new 17 [] []) [z; a] = [(VOk, false, None); (VConflict 12 16, false, None)] /\
  spec_trace spec_new [z; a] = [(VOk, false, None); (VConflict 12 16, false, None)].
Proof. cbv zeta. repeat split; vm_compute; reflexivity. Qed.

(* variants: several stored sections (the maximum is reported, not the last one
   nor the data length of an earlier state), an overlapping final fragment, and a
   final fragment that ends exactly at the maximum, which is accepted *)
Lemma f8_variants :
  let s0 := mkFrag 0 true [1;2;3;4;5;6;7;8] in
  let s4 := mkFrag 4 true [41;42;43;44;45;46;47;48] in
  let s2 := mkFrag 2 true [21;22;23;24;25;26;27;28] in
  let b := model_run (buf_new 6 [] []) [s0; s4; s2] in
  b_sections b = [mkRange 0 8; mkRange 32 40; mkRange 16 24] /\
  model_step b (mkFrag 3 false [9;9;9]) = (VConflict 40 27, b) /\
  model_step b (mkFrag 4 false [9;9;9;9;9;9;9]) = (VConflict 40 39, b) /\
  fst (model_step b (mkFrag 4 false [9;9;9;9;9;9;9;9])) = VOk /\
  fst (model_step b (mkFrag 5 false [])) = VOk /\
  fst (model_step b (mkFrag 5 false [7])) = VOk /\
  map (fun o : obs => fst o)
      (model_trace (buf_new 6 [] []) [mkFrag 0 true [0;1;2;3;4;5;6;7;8;9;10;11;12;13;14;15];
                                      mkFrag 1 false [170;187;204;221;1;2;3;4]])
    = [(VOk, false); (VOk, true)].
Proof. cbv zeta. repeat split; vm_compute; reflexivity. Qed.

(* ---------- statements as used in Props/C11.v ---------- *)
Lemma refines h ipn d s :
  model_trace (buf_new ipn d s) h = spec_trace spec_new h.
Proof. apply (refines_gen h (buf_new ipn d s) spec_new (Rel_new ipn d s)). Qed.

(* ---------- order independence of the verdict (what F8 violated) ---------- *)
Definition okobs (o : obs) : Prop := fst (fst o) = VOk.

(* the Spec state after the accepted fragments hs *)
Record JInv (hs : list frag) (st : rstate) : Prop := mkJ {
  j_hi_ge : forall g, In g hs -> f_endp g <= hi (s_frags st);
  j_hi_in : hi (s_frags st) = 0 \/ exists g, In g hs /\ f_endp g = hi (s_frags st);
  j_end : match s_end st with
          | Some E => hi (s_frags st) <= E /\ exists g, In g hs /\ f_mf g = false /\ f_endp g = E
          | None => forall g, In g hs -> f_mf g = true
          end;
  j_frags : forall o d, In (o, d) (s_frags st) <-> exists g, In g hs /\ o = f_off g /\ d = f_data g
}.

Lemma JInv_new : JInv [] spec_new.
Proof.
  constructor; cbn.
  - intros g [].
  - left. reflexivity.
  - intros g [].
  - intros o d. split; [intros []|intros (g & [] & _)].
Qed.

Lemma consistent_nil : consistent [].
Proof. split; [constructor|intros f g []]. Qed.

Lemma consistent_incl l l' : consistent l -> (forall x, In x l' -> In x l) -> consistent l'.
Proof.
  intros [F H] Hin. split.
  - rewrite Forall_forall in *. intros x Hx. apply F, Hin, Hx.
  - intros f g Hf Hg. apply H; apply Hin; assumption.
Qed.

Lemma consistent_snoc hs f : consistent (hs ++ [f]) <->
  consistent hs /\ frag_wf f /\
  (forall g, In g hs -> f_mf g = false -> f_endp f <= f_endp g) /\
  (f_mf f = false -> forall g, In g hs -> f_endp g <= f_endp f).
Proof.
  unfold consistent. rewrite Forall_app. split.
  - intros [[F1 F2] H]. inversion F2 as [|x l Wf _]; subst.
    assert (Hf : In f (hs ++ [f])) by (apply in_or_app; right; left; reflexivity).
    split; [split; [exact F1|]|split; [exact Wf|split]].
    + intros a b Ha Hb. apply H; apply in_or_app; left; assumption.
    + intros g Hg Hm. apply (H g f); [apply in_or_app; left; exact Hg|exact Hf|exact Hm].
    + intros Hm g Hg. apply (H f g); [exact Hf|apply in_or_app; left; exact Hg|exact Hm].
  - intros ([F1 H1] & Wf & H2 & H3). split; [split; [exact F1|constructor; [exact Wf|constructor]]|].
    intros a b Ha Hb Hm. apply in_app_or in Ha. apply in_app_or in Hb.
    destruct Ha as [Ha|[Ha|[]]]; destruct Hb as [Hb|[Hb|[]]]; subst.
    + apply H1; assumption.
    + apply H2; assumption.
    + apply H3; assumption.
    + lia.
Qed.

Lemma JInv_push hs st f e' : JInv hs st ->
  match e' with
  | Some E => N.max (f_endp f) (hi (s_frags st)) <= E /\
              exists g, In g (hs ++ [f]) /\ f_mf g = false /\ f_endp g = E
  | None => forall g, In g (hs ++ [f]) -> f_mf g = true
  end ->
  JInv (hs ++ [f]) (mkR ((f_off f, f_data f) :: s_frags st) e').
Proof.
  intros J He.
  pose proof (j_hi_ge _ _ J) as J1. pose proof (j_hi_in _ _ J) as J2.
  assert (Hf : In f (hs ++ [f])) by (apply in_or_app; right; left; reflexivity).
  constructor; cbn [s_frags s_end hi]; fold (f_endp f).
  - intros g Hg. apply in_app_or in Hg. destruct Hg as [Hg|[Hg|[]]].
    + specialize (J1 g Hg). lia.
    + subst g. lia.
  - right. destruct (N.max_spec (f_endp f) (hi (s_frags st))) as [[Hlt Q]|[Hge Q]].
    + destruct J2 as [J2|(g & Hg & J2)]; [lia|]. exists g. split; [apply in_or_app; left; exact Hg|lia].
    + exists f. split; [exact Hf|lia].
  - destruct e' as [E|]; exact He.
  - intros o d. split.
    + intros [Q|Q].
      * inversion Q; subst. exists f. auto.
      * apply (j_frags _ _ J) in Q. destruct Q as (g & Hg & Q). exists g. split; [apply in_or_app; left; exact Hg|exact Q].
    + intros (g & Hg & Ho & Hd). apply in_app_or in Hg. destruct Hg as [Hg|[Hg|[]]].
      * right. apply (j_frags _ _ J). exists g. auto.
      * subst. left. reflexivity.
Qed.

(* one delivery is accepted exactly when it keeps the accepted set consistent *)
Lemma spec_step_ok hs st f : JInv hs st -> consistent hs ->
  (fst (spec_add st f) = VOk <-> consistent (hs ++ [f])) /\
  (fst (spec_add st f) = VOk -> JInv (hs ++ [f]) (snd (spec_add st f))).
Proof.
  intros J C. rewrite consistent_snoc.
  pose proof (j_hi_ge _ _ J) as J1. pose proof (j_hi_in _ _ J) as J2. pose proof (j_end _ _ J) as J3.
  assert (Hf : In f (hs ++ [f])) by (apply in_or_app; right; left; reflexivity).
  unfold spec_add, frag_wf, MAX_DEFRAG_LEN. cbv zeta.
  destruct (N.ltb_spec 65535 (f_endp f)) as [H1|H1].
  { cbn [fst snd]. split; [split; [discriminate|intros (_ & (W & _) & _); lia]|discriminate]. }
  destruct (f_mf f) eqn:Em; cbn [andb negb].
  - destruct (N.eqb_spec (len (f_data f) mod 8) 0) as [H2|H2]; cbn [negb].
    2:{ cbn [fst snd]. split; [split; [discriminate|intros (_ & (_ & W) & _); specialize (W eq_refl); lia]|discriminate]. }
    destruct (s_end st) as [E|] eqn:Ee.
    + rewrite orb_false_r. destruct J3 as [J3a (g0 & Hg0 & Hg0m & Hg0e)].
      destruct (N.ltb_spec E (f_endp f)) as [H3|H3]; cbn [fst snd].
      * split; [split; [discriminate|]|discriminate]. intros (_ & _ & H & _). specialize (H g0 Hg0 Hg0m). lia.
      * split.
        -- split; [intros _|reflexivity]. split; [exact C|]. split; [split; [exact H1|auto]|]. split; [|discriminate].
           intros g Hg Hm. destruct C as [_ C]. pose proof (C g g0 Hg Hg0 Hm). lia.
        -- intros _. apply JInv_push; [exact J|]. split; [lia|]. exists g0. split; [apply in_or_app; left; exact Hg0|auto].
    + cbn [fst snd]. split.
      * split; [intros _|reflexivity]. split; [exact C|]. split; [split; [exact H1|auto]|]. split; [|discriminate].
        intros g Hg Hm. rewrite (J3 g Hg) in Hm. discriminate.
      * intros _. apply JInv_push; [exact J|]. intros g Hg. apply in_app_or in Hg.
        destruct Hg as [Hg|[Hg|[]]]; [apply J3, Hg|subst g; exact Em].
  - destruct (s_end st) as [E|] eqn:Ee.
    + destruct J3 as [J3a (g0 & Hg0 & Hg0m & Hg0e)].
      destruct (N.ltb_spec E (f_endp f)) as [H3|H3]; cbn [orb].
      * cbn [fst snd]. split; [split; [discriminate|]|discriminate]. intros (_ & _ & H & _). specialize (H g0 Hg0 Hg0m). lia.
      * destruct (N.eqb_spec (f_endp f) E) as [H4|H4]; cbn [negb fst snd].
        -- split.
           ++ split; [intros _|reflexivity]. split; [exact C|]. split; [split; [exact H1|discriminate]|]. split.
              ** intros g Hg Hm. destruct C as [_ C]. pose proof (C g g0 Hg Hg0 Hm). lia.
              ** intros _ g Hg. specialize (J1 g Hg). lia.
           ++ intros _. apply JInv_push; [exact J|]. split; [lia|]. exists g0. split; [apply in_or_app; left; exact Hg0|auto].
        -- split; [split; [discriminate|]|discriminate]. intros (_ & _ & H & H').
           specialize (H g0 Hg0 Hg0m). specialize (H' eq_refl g0 Hg0). lia.
    + destruct (N.ltb_spec (f_endp f) (hi (s_frags st))) as [H3|H3]; cbn [fst snd].
      * split; [split; [discriminate|]|discriminate]. intros (_ & _ & _ & H').
        destruct J2 as [J2|(g & Hg & J2)]; [lia|]. specialize (H' eq_refl g Hg). lia.
      * split.
        -- split; [intros _|reflexivity]. split; [exact C|]. split; [split; [exact H1|discriminate]|]. split.
           ++ intros g Hg Hm. rewrite (J3 g Hg) in Hm. discriminate.
           ++ intros _ g Hg. specialize (J1 g Hg). lia.
        -- intros _. apply JInv_push; [exact J|]. split; [lia|]. exists f. auto.
Qed.

Lemma spec_all_ok : forall h hs st, JInv hs st -> consistent hs ->
  (Forall okobs (spec_trace st h) <-> consistent (hs ++ h)) /\
  (consistent (hs ++ h) -> JInv (hs ++ h) (spec_run st h)).
Proof.
  induction h as [|f h IH]; intros hs st J C.
  - rewrite app_nil_r. cbn [spec_trace]. split; [split; [intros _; exact C|constructor]|intros _; exact J].
  - destruct (spec_step_ok hs st f J C) as [S1 S2].
    cbn [spec_trace]. unfold spec_run. cbn [fold_left].
    destruct (spec_add st f) as [v st'] eqn:Es. cbn [fst snd] in *.
    assert (Hsub : consistent (hs ++ f :: h) -> consistent (hs ++ [f])).
    { intros Q. apply (consistent_incl _ _ Q). intros x Hx. apply in_app_or in Hx.
      apply in_or_app. destruct Hx as [Hx|[Hx|[]]]; [left; exact Hx|right; left; exact Hx]. }
    replace (hs ++ f :: h) with ((hs ++ [f]) ++ h) in * by (rewrite <- app_assoc; reflexivity).
    split; [split|].
    + intros F. inversion F as [|x l Hv Ft]; subst. unfold okobs, spec_obs in Hv. cbn [fst] in Hv.
      pose proof (proj1 S1 Hv) as C'. apply (IH (hs ++ [f]) st' (S2 Hv) C'). exact Ft.
    + intros Q. pose proof (Hsub Q) as C'. pose proof (proj2 S1 C') as Hv.
      constructor; [unfold okobs, spec_obs; cbn [fst]; exact Hv|].
      apply (IH (hs ++ [f]) st' (S2 Hv) C'). exact Q.
    + intros Q. pose proof (Hsub Q) as C'. pose proof (proj2 S1 C') as Hv.
      apply (IH (hs ++ [f]) st' (S2 Hv) C'). exact Q.
Qed.

Lemma JInv_complete hs st : JInv hs st -> consistent hs -> (spec_complete st = true <-> GCovered hs).
Proof.
  intros J C. rewrite spec_complete_iff. pose proof (j_end _ _ J) as J3. unfold GCovered. split.
  - intros (E & HE & Hall). rewrite HE in J3. destruct J3 as [_ (g0 & Hg0 & Hg0m & Hg0e)].
    exists g0. split; [exact Hg0|]. split; [exact Hg0m|]. intros i Hi. rewrite Hg0e in Hi.
    destruct (Hall i Hi) as [v Hv]. destruct (lookup_covers _ _ _ Hv) as (o & d & Hin & Hc & _).
    apply (j_frags _ _ J) in Hin. destruct Hin as (g & Hg & Ho & Hd). subst o d.
    exists g. split; [exact Hg|]. unfold covers in Hc. apply andb_true_iff in Hc. destruct Hc as [C1 C2].
    apply N.leb_le in C1. apply N.ltb_lt in C2. unfold f_endp. lia.
  - intros (f & Hf & Hfm & Hall). destruct (s_end st) as [E|].
    + destruct J3 as [_ (g0 & Hg0 & Hg0m & Hg0e)]. exists E. split; [reflexivity|]. intros i Hi.
      destruct C as [_ C]. pose proof (C f g0 Hf Hg0 Hfm). pose proof (C g0 f Hg0 Hf Hg0m).
      destruct (Hall i) as (g & Hg & Hr); [lia|].
      apply (covers_lookup _ (f_off g) (f_data g)).
      * apply (j_frags _ _ J). exists g. auto.
      * unfold covers. apply andb_true_iff. split; [apply N.leb_le; lia|apply N.ltb_lt; unfold f_endp in Hr; lia].
    + rewrite (J3 f Hf) in Hfm. discriminate.
Qed.

(* every delivery of h is accepted  <=>  h is a consistent set of fragments *)
Lemma all_ok_iff h ipn d s :
  Forall okobs (model_trace (buf_new ipn d s) h) <-> consistent h.
Proof.
  rewrite refines. apply (spec_all_ok h [] spec_new JInv_new consistent_nil).
Qed.

Lemma consistent_perm h1 h2 : Permutation h1 h2 -> consistent h1 -> consistent h2.
Proof.
  intros HP C. apply (consistent_incl _ _ C). intros x Hx.
  apply (Permutation_in x (Permutation_sym HP) Hx).
Qed.

Lemma GCovered_perm h1 h2 : Permutation h1 h2 -> GCovered h1 -> GCovered h2.
Proof.
  intros HP (f & Hf & Hm & Hall). exists f. split; [apply (Permutation_in f HP Hf)|]. split; [exact Hm|].
  intros i Hi. destruct (Hall i Hi) as (g & Hg & Hr). exists g. split; [apply (Permutation_in g HP Hg)|exact Hr].
Qed.

(* a consistent set, in any order: complete exactly when the set covers [0, end) *)
Lemma consistent_complete h ipn d s : consistent h ->
  (is_complete (model_run (buf_new ipn d s) h) = true <-> GCovered h).
Proof.
  intros C.
  destruct (refines_gen h (buf_new ipn d s) spec_new (Rel_new ipn d s)) as [_ R].
  rewrite (complete_agree _ _ R).
  destruct (spec_all_ok h [] spec_new JInv_new consistent_nil) as [_ J]. cbn [app] in J.
  apply (JInv_complete h _ (J C) C).
Qed.

Lemma order_independent h1 h2 ipn d s : Permutation h1 h2 ->
  (Forall okobs (model_trace (buf_new ipn d s) h1) <-> Forall okobs (model_trace (buf_new ipn d s) h2)) /\
  (Forall okobs (model_trace (buf_new ipn d s) h1) ->
     is_complete (model_run (buf_new ipn d s) h1) = is_complete (model_run (buf_new ipn d s) h2)).
Proof.
  intros HP. rewrite !all_ok_iff. split.
  - split; apply consistent_perm; [exact HP|apply Permutation_sym, HP].
  - intros C1. pose proof (consistent_perm _ _ HP C1) as C2.
    pose proof (consistent_complete h1 ipn d s C1) as Q1.
    pose proof (consistent_complete h2 ipn d s C2) as Q2.
    destruct (is_complete (model_run (buf_new ipn d s) h1)); destruct (is_complete (model_run (buf_new ipn d s) h2));
      try reflexivity.
    + assert (Q : false = true); [|discriminate]. apply Q2, (GCovered_perm _ _ HP), Q1. reflexivity.
    + assert (Q : false = true); [|discriminate]. apply Q1, (GCovered_perm _ _ (Permutation_sym HP)), Q2. reflexivity.
Qed.

Lemma any_order_prefix P h k ipn d0 s0 : len P <= 65535 -> Forall (frag_of P) h ->
  let b := model_run (buf_new ipn d0 s0) (firstn k h) in
  (is_complete b = true <-> Covered P (firstn k h)) /\
  (is_complete b = true -> b_data b = map Some P).
Proof.
  intros HP F.
  destruct (any_order P (firstn k h) ipn d0 s0 HP (Forall_firstn' _ k h F)) as (A1 & A2 & _).
  split; assumption.
Qed.

Lemma no_leak h ipn d s :
  let b := model_run (buf_new ipn d s) h in
  is_complete b = true -> no_None (b_data b).
Proof. cbv zeta. apply complete_data_no_None, model_run_Inv, Inv_new. Qed.
