(* Defrag/PacketStepProofs.v -- lemmas about Defrag/PacketStep.v:
   A. `encode_id` is injective (the structured IpFragId embeds into the abstract ids of the pool
      model), `same_stream_iff`;
   B. on a strict slicing result the accessors `frag_key_of` reads return the RFC field at the
      layer's absolute position -- obtained from the C03 field lemmas of Parse/FieldsProofs.v
      (`ext_fields_ok`, `net_fields_ok`: accessor list = `spec_fields`) by inversion; the two
      address arrays of IPv4 (which C03 states as numbers) through `repr_rd_arr`;
      the iterator loop that looks for the fragment header = `frag_pos` over the RFC 8200 chain;
      `key_wire`: frag_key_of = wire_key, never Bug;
   C. a strict result has at most 3 link extensions (the ArrayVec capacity `vlan_ids` relies on);
   D. `packet_key`: every entry point, accepted / rejected / never Bug;
   E. pass-through; F. frame histories: lowering to the pool model's histories, isolation,
      completion; G. the wire fields that make the id. *)
From Coq Require Import ZArith Lia ZifyN ZifyBool List.
From EP Require BitFields.Spec.
From EP Require Import Base.Bytes Defrag.Spec Defrag.Model.
From EP Require Defrag.Proofs.
From EP Require Import Parse.Types Parse.Slices Parse.Cursor Parse.View Parse.WireSpec
  Parse.Repr Parse.StrictProofs Parse.Access Parse.AccessProofs Parse.Fields Parse.FieldsProofs.
From EP Require Import Defrag.PacketStep.
Import ListNotations.
Local Open Scope N_scope.

(* ---- A. the encoding of the structured id is injective ---- *)
Lemma app_eq_len {A} (a b c d : list A) :
  a ++ c = b ++ d -> length a = length b -> a = b /\ c = d.
Proof.
  revert b. induction a as [|x a IH]; intros [|y b] H L; cbn in *; try discriminate; auto.
  injection H as -> H. destruct (IH b H) as [-> ->]; [lia|]. auto.
Qed.

Lemma len_inj {A} (a b : list A) : len a = len b -> length a = length b.
Proof. unfold len. lia. Qed.

Lemma encode_ip_split a b r s :
  encode_ip a ++ r = encode_ip b ++ s -> a = b /\ r = s.
Proof.
  unfold encode_ip. cbn [app]. rewrite <- !app_assoc. cbn [app]. rewrite <- !app_assoc. cbn [app].
  intros H. injection H as Hv Ls H.
  apply app_eq_len in H; [|now apply len_inj]. destruct H as [Es H].
  injection H as Ld H.
  apply app_eq_len in H; [|now apply len_inj]. destruct H as [Ed H].
  injection H as Ei Hr.
  split; [|exact Hr].
  destruct a as [s1 d1 i1|s1 d1 i1], b as [s2 d2 i2|s2 d2 i2]; cbn in *; try discriminate; congruence.
Qed.

Lemma encode_id_inj a b : encode_id a = encode_id b -> a = b.
Proof.
  unfold encode_id. intros H. injection H as L H.
  apply app_eq_len in H; [|now apply len_inj]. destruct H as [Ev H].
  apply encode_ip_split in H. destruct H as [Ei H]. injection H as En Ec.
  destruct a, b; cbn in *; congruence.
Qed.

Theorem same_stream_iff a b :
  encode_id a = encode_id b <->
  fi_vlans a = fi_vlans b /\
  id_is_v4 (fi_ip a) = id_is_v4 (fi_ip b) /\
  id_src (fi_ip a) = id_src (fi_ip b) /\
  id_dst (fi_ip a) = id_dst (fi_ip b) /\
  id_ident (fi_ip a) = id_ident (fi_ip b) /\
  fi_ipn a = fi_ipn b /\
  fi_chan a = fi_chan b.
Proof.
  split.
  - intros H. apply encode_id_inj in H. subst b. repeat split.
  - intros (H1 & H2 & H3 & H4 & H5 & H6 & H7). f_equal.
    destruct a as [va ia na ca], b as [vb ib nb cb]. cbn in *. subst.
    destruct ia, ib; cbn in *; try discriminate; subst; reflexivity.
Qed.

Lemma fid_eqb_encode a b : fid_eqb (encode_id a) (encode_id b) = true <-> a = b.
Proof.
  rewrite Defrag.Proofs.fid_eqb_eq. split; [apply encode_id_inj|now intros ->].
Qed.

(* ---- B. accessors on a strict result = RFC field at the absolute position (via the C03 lemmas) ---- *)

Section Acc.
  Variable bs : bytes.
  Hypothesis Hok : bytes_ok bs.

  (* ---- VLAN ---- *)
  Lemma vlan_vid_wire s :
    ext_prov bs (LeVlan s) -> SingleVlanA.vlan_identifier s = Ok (bits bs (s_off s) 2 4 12).
  Proof.
    intros P. pose proof (ext_fields_ok bs Hok _ P) as H.
    cbn [ext_fields view_ext spec_ext] in H. binv H f Ef. injection H as H.
    unfold vlan_fields in Ef. binv Ef a Ea. binv Ef b Eb. binv Ef c Ec. binv Ef d Ed.
    injection Ef as <-. unfold vlan_spec, win_of in H. cbn [fst] in H. injection H as _ _ H _.
    rewrite Ec, H. reflexivity.
  Qed.

  Lemma vlan_ids_loop_wire xs : forall acc,
    Forall (ext_prov bs) xs -> len acc + len xs <= 3 ->
    vlan_ids_loop xs acc = Ok (acc ++ wire_vids bs (map view_ext xs)).
  Proof.
    induction xs as [|x xs IH]; intros acc F L; cbn [vlan_ids_loop map wire_vids flat_map].
    - now rewrite app_nil_r.
    - inversion F as [|? ? Px Pr]; subst. rewrite len_cons in L.
      destruct x as [s|m]; cbn [view_ext wire_vid app].
      + rewrite (vlan_vid_wire s Px). cbn [bind]. unfold LINK_EXTS_CAP.
        destruct (len acc <? 3) eqn:E; [|lia].
        rewrite IH; [|exact Pr|rewrite len_app, len_cons, len_nil; lia].
        rewrite <- app_assoc. reflexivity.
      + apply IH; [exact Pr|lia].
  Qed.

  Lemma vlan_ids_wire p :
    Forall (ext_prov bs) (sp_exts p) -> len (sp_exts p) <= 3 ->
    vlan_ids p = Ok (wire_vids bs (v_exts (view p))).
  Proof.
    intros F L. unfold vlan_ids. rewrite (vlan_ids_loop_wire _ [] F) by (rewrite len_nil; lia).
    reflexivity.
  Qed.

  (* ---- IPv4 header ---- *)
  Lemma ipv4_acc_wire v :
    net_prov bs (NtIpv4 v) ->
    let h := v4_header v in let q := s_off h in
    Ipv4HeaderA.identification h = Ok (W bs (q + 4)) /\
    Ipv4HeaderA.more_fragments h = Ok (flag bs (q + 6) 2 2) /\
    Ipv4HeaderA.fragments_offset h = Ok (bits bs (q + 6) 2 3 13) /\
    Ipv4HeaderA.source h = Ok (bytes_at bs (q + 12) 4) /\
    Ipv4HeaderA.destination h = Ok (bytes_at bs (q + 16) 4) /\
    in_buf bs (ipp_slice (v4_payload v)).
  Proof.
    intros P h q. pose proof (net_fields_ok bs Hok _ P) as H.
    destruct P as (src & I & Hs).
    assert (WF : wf_ipv4 v /\ ipv4_in v src).
    { destruct Hs as [Hs|Hs]; [now apply ipv4_wf|exact (ip_wf _ _ Hs)]. }
    destruct WF as ((Wh & _) & (Sh & _ & Sp)). destruct Wh as (L1 & L2).
    pose proof (sub_of_in_buf _ _ _ I Sh) as Ih. pose proof (in_buf_repr _ _ Ih) as R.
    cbn [net_fields view_net spec_net] in H. binv H f Ef. binv H a Ea. injection H as H _.
    unfold win_of in H. cbn [fst snd] in H. fold h in Ef, R, L1. fold h q in H.
    unfold ipv4_fields in Ef.
    binv Ef f1 E1. binv Ef f2 E2. binv Ef f3 E3. binv Ef f4 E4. binv Ef f5 E5. binv Ef f6 E6.
    binv Ef f7 E7. binv Ef f8 E8. binv Ef f9 E9. binv Ef f10 E10. binv Ef f11 E11. binv Ef f12 E12.
    binv Ef f13 E13. binv Ef f14 E14. binv Ef f15 E15. injection Ef as <-.
    unfold ipv4_spec in H. injection H as _ _ _ _ _ Hid _ Hmf Hfo _ _ _ _ _ _.
    rewrite E6, E8, E9, Hid, Hmf, Hfo.
    unfold Ipv4HeaderA.source, Ipv4HeaderA.destination.
    rewrite (repr_rd_arr bs h _ _ 4 12 R), (repr_rd_arr bs h _ _ 4 16 R) by (cbn; lia).
    repeat split; try reflexivity.
    exact (sub_of_in_buf _ _ _ I Sp).
  Qed.
End Acc.


Fixpoint first_xfrag (l : list ext_item) : option slice :=
  match l with
  | [] => None
  | XFragment s :: _ => Some s
  | _ :: r => first_xfrag r
  end.
Fixpoint first_lfrag (ly : layers) : option fl :=
  match ly with
  | [] => None
  | (LFragment, f) :: _ => Some f
  | _ :: r => first_lfrag r
  end.

Lemma find_collect fuel : forall it l,
  Ipv6ExtIterA.collect fuel it = Ok l -> find_frag fuel it = Ok (first_xfrag l).
Proof.
  induction fuel as [|f IH]; intros it l H; [discriminate|].
  cbn [Ipv6ExtIterA.collect] in H. cbn [find_frag]. binv H o Eo. rewrite Eo. cbn [bind].
  destruct o as [[x it']|].
  - binv H r Er. injection H as <-. specialize (IH _ _ Er).
    destruct x; cbn [first_xfrag]; try exact IH. reflexivity.
  - injection H as <-. reflexivity.
Qed.

Lemma mapM_first l : forall ly, mapM item_fields l = Ok ly ->
  match first_xfrag l with
  | Some s => exists f, frag_fields s = Ok f /\ first_lfrag ly = Some f
  | None => first_lfrag ly = None
  end.
Proof.
  induction l as [|x l IH]; intros ly H; cbn [mapM] in H.
  - injection H as <-. reflexivity.
  - binv H y Ey. binv H ys Eys. injection H as <-. specialize (IH _ Eys).
    destruct x; cbn [item_fields] in Ey; binv Ey g Eg; injection Ey as <-;
      cbn [first_xfrag first_lfrag]; try exact IH.
    exists g. auto.
Qed.

Section Acc6.
  Variable bs : bytes.
  Hypothesis Hok : bytes_ok bs.

  Lemma chain_first fuel : forall nh pos lim,
    first_lfrag (chain_spec bs fuel nh pos lim) = option_map (frag_spec bs) (frag_pos bs fuel nh pos lim).
  Proof.
    induction fuel as [|f IH]; intros nh pos lim; [reflexivity|].
    cbn [chain_spec frag_pos]. destruct (lim <=? pos); [reflexivity|].
    destruct (nh =? 0); cbn [orb first_lfrag]; [apply IH|].
    destruct (nh =? 43); cbn [orb first_lfrag]; [apply IH|].
    destruct (nh =? 60); cbn [orb first_lfrag]; [apply IH|].
    destruct (nh =? 44); cbn [first_lfrag option_map]; [reflexivity|].
    destruct (nh =? 51); cbn [first_lfrag]; [apply IH|reflexivity].
  Qed.

  Lemma ipv6_acc_wire v :
    net_prov bs (NtIpv6 v) ->
    let h := v6_header v in let x := x6_slice (v6_exts v) in
    Ipv6HeaderA.source h = Ok (bytes_at bs (s_off h + 8) 16) /\
    Ipv6HeaderA.destination h = Ok (bytes_at bs (s_off h + 24) 16) /\
    in_buf bs (ipp_slice (v6_payload v)) /\
    match frag_pos bs (S (N.to_nat (s_len x))) (B bs (s_off h + 6)) (s_off x) (s_off x + s_len x) with
    | Some q =>
        exists f, first_frag (v6_exts v) = Ok (Some f) /\
          Ipv6FragmentHeaderA.next_header f = Ok (B bs q) /\
          Ipv6FragmentHeaderA.fragment_offset f = Ok (bits bs (q + 2) 2 0 13) /\
          Ipv6FragmentHeaderA.more_fragments f = Ok (flag bs (q + 2) 2 15) /\
          Ipv6FragmentHeaderA.identification f = Ok (num_at bs (q + 4) 4)
    | None => first_frag (v6_exts v) = Ok None
    end.
  Proof.
    intros P h x. pose proof (net_fields_ok bs Hok _ P) as H.
    destruct P as (src & I & Hs).
    assert (WF : wf_ipv6 v /\ ipv6_in v src).
    { destruct Hs as [Hs|Hs]; [now apply ipv6_wf|exact (ip_wf _ _ Hs)]. }
    destruct WF as (_ & (_ & _ & Sp)).
    cbn [net_fields view_net spec_net] in H. binv H f Ef. binv H items Ei. binv H xs Ex.
    unfold win_of in H. cbn [fst snd] in H. fold h x in H.
    remember (chain_spec bs (S (N.to_nat (s_len x))) (B bs (s_off h + 6)) (s_off x) (s_off x + s_len x)) as cs eqn:Hcs.
    remember (ipv6_spec bs (s_off h)) as s6 eqn:Hs6.
    injection H as H Hc. subst s6 cs. fold h in Ef.
    unfold ipv6_fields in Ef.
    binv Ef f1 E1. binv Ef f2 E2. binv Ef f3 E3. binv Ef f4 E4. binv Ef f5 E5. binv Ef f6 E6.
    binv Ef f7 E7. binv Ef f8 E8. injection Ef as <-.
    unfold ipv6_spec in H.
    remember (bytes_at bs (s_off h + 8) 16) as sa. remember (bytes_at bs (s_off h + 24) 16) as da.
    injection H as _ _ _ _ _ _ Hsrc Hdst.
    rewrite E7, E8, Hsrc, Hdst.
    split; [reflexivity|]. split; [reflexivity|]. split; [exact (sub_of_in_buf _ _ _ I Sp)|].
    pose proof (mapM_first _ _ Ex) as M. rewrite Hc, chain_first in M.
    unfold Ipv6ExtIterA.items in Ei. pose proof (find_collect _ _ _ Ei) as Ff.
    fold (first_frag (v6_exts v)) in Ff. rewrite Ff.
    destruct (frag_pos bs (S (N.to_nat (s_len x))) (B bs (s_off h + 6)) (s_off x) (s_off x + s_len x)) as [q|];
      cbn [option_map] in M.
    - destruct (first_xfrag items) as [s|]; [|discriminate].
      destruct M as (g & Eg & Hg). injection Hg as <-. exists s. split; [reflexivity|].
      unfold frag_fields in Eg. binv Eg a Ea. binv Eg b Eb. binv Eg c Ec. binv Eg d Ed.
      unfold frag_spec in Eg. injection Eg as -> -> -> ->. auto.
    - destruct (first_xfrag items) as [s|]; [|reflexivity].
      destruct M as (g & _ & Hg). discriminate.
  Qed.
End Acc6.


Definition key_view (k : frag_key) : wire_frag :=
  mkWireFrag (fk_id k) (fk_fo k) (fk_mf k) (win_of (ipp_slice (fk_payload k))) (fk_v4 k).

Lemma in_buf_bytes bs s : in_buf bs s -> snd s = bytes_n bs (s_off s) (s_len s).
Proof.
  intros I. pose proof (in_buf_repr _ _ I) as R. rewrite (repr_snd _ _ _ _ R). f_equal. lia.
Qed.

Theorem key_wire bs p chan :
  bytes_ok bs -> sliced_wf bs p -> len (sp_exts p) <= 3 ->
  exists ok, frag_key_of p chan = Ok ok /\
    option_map key_view ok = wire_key bs (view p) chan /\
    forall k, ok = Some k ->
      k_frag (pkt_of_key k) = frag_of_wire bs (key_view k) /\
      k_ipn (pkt_of_key k) = fi_ipn (fk_id k) /\
      k_v4 (pkt_of_key k) = id_is_v4 (fi_ip (fk_id k)) /\
      is_fragmenting (k_frag (pkt_of_key k)) = true.
Proof.
  intros Hok (_ & X & C & _) L. unfold frag_key_of, wire_key, view. cbn [v_net v_exts].
  pose proof (vlan_ids_wire bs Hok p X L) as Ev. unfold view in Ev. cbn [v_exts] in Ev.
  destruct (sp_net p) as [[v|v|a]|]; cbn [option_map view_net optP] in *.
  - destruct (ipv4_acc_wire bs Hok v C) as (Eid & Emf & Efo & Esrc & Edst & Ipl).
    cbn zeta in *. unfold win_of at 1. cbn [fst].
    unfold Ipv4HeaderA.is_fragmenting_payload. rewrite Emf, Efo. cbn [bind].
    fold (fragmenting (flag bs (s_off (v4_header v) + 6) 2 2) (bits bs (s_off (v4_header v) + 6) 2 3 13)).
    destruct (fragmenting _ _) eqn:Fr; cbn [negb].
    + rewrite Ev, Esrc, Edst, Eid. cbn [bind]. eexists. split; [reflexivity|]. split; [reflexivity|].
      intros k Ek. injection Ek as <-. unfold pkt_of_key, frag_of_wire, key_view. cbn.
      rewrite (in_buf_bytes _ _ Ipl). auto.
    + exists None. split; [reflexivity|]. split; [reflexivity|]. discriminate.
  - destruct (ipv6_acc_wire bs Hok v C) as (Esrc & Edst & Ipl & Hf). cbn zeta in *.
    unfold win_of at 1 2 3 4. cbn [fst snd].
    destruct (frag_pos bs _ _ _ _) as [q|].
    + destruct Hf as (f & Ef & Enh & Efo & Emf & Eident). rewrite Ef. cbn [bind].
      unfold Ipv6FragmentHeaderA.is_fragmenting_payload, Ipv6FragmentHeaderA.to_header.
      rewrite Emf, Efo, Enh, Eident. cbn [bind].
      fold (fragmenting (flag bs (q + 2) 2 15) (bits bs (q + 2) 2 0 13)).
      destruct (fragmenting _ _) eqn:Fr.
      * rewrite Ev, Esrc, Edst. cbn [bind]. eexists. split; [reflexivity|]. split; [reflexivity|].
        intros k Ek. injection Ek as <-. unfold pkt_of_key, frag_of_wire, key_view. cbn.
        rewrite (in_buf_bytes _ _ Ipl). auto.
      * exists None. split; [reflexivity|]. split; [reflexivity|]. discriminate.
    + rewrite Hf. cbn [bind]. exists None. split; [reflexivity|]. split; [reflexivity|]. discriminate.
  - exists None. split; [reflexivity|]. split; [reflexivity|]. discriminate.
  - exists None. split; [reflexivity|]. split; [reflexivity|]. discriminate.
Qed.

(* ---- C. at most LINK_EXTS_CAP link extensions in a strict result (the ArrayVec<_, 3>) ---- *)
Section Cap.
  Import SlicedPacketCursor.

  Lemma transport_dispatch_exts c p r :
    transport_dispatch c p = Ok r -> sp_exts r = sp_exts (c_result c).
  Proof.
    unfold transport_dispatch, slice_icmp4, slice_udp, slice_tcp, slice_icmp6.
    repeat match goal with |- context[if ?b then _ else _] => destruct b end;
      intros H; try (injection H as <-; reflexivity);
      binv H t Et; injection H as <-; reflexivity.
  Qed.

  Lemma slice_ipv4_exts c s r : slice_ipv4 c s = Ok r -> sp_exts r = sp_exts (c_result c).
  Proof.
    unfold slice_ipv4. intros H. binv H ip Eip. binv H d Ed.
    apply transport_dispatch_exts in H. exact H.
  Qed.
  Lemma slice_ipv6_exts c s r : slice_ipv6 c s = Ok r -> sp_exts r = sp_exts (c_result c).
  Proof.
    unfold slice_ipv6. intros H. binv H ip Eip. binv H d Ed.
    apply transport_dispatch_exts in H. exact H.
  Qed.
  Lemma slice_ip_exts c s r : slice_ip c s = Ok r -> sp_exts r = sp_exts (c_result c).
  Proof.
    unfold slice_ip. intros H. binv H ip Eip. binv H d Ed.
    apply transport_dispatch_exts in H. exact H.
  Qed.
  Lemma slice_arp_exts c s r : slice_arp c s = Ok r -> sp_exts r = sp_exts (c_result c).
  Proof. unfold slice_arp. intros H. binv H a Ea. injection H as <-. reflexivity. Qed.

  Lemma ether_loop_cap fuel : forall c ep r,
    len (sp_exts (c_result c)) <= 3 -> slice_ether_type_loop fuel c ep = Ok r -> len (sp_exts r) <= 3.
  Proof.
    induction fuel as [|f IH]; intros c ep r L H; [discriminate|].
    cbn [slice_ether_type_loop] in H. unfold LINK_EXTS_CAP in H.
    destruct (is_vlan_type (ep_ether_type ep)).
    { destruct (3 <=? len (sp_exts (c_result c))) eqn:E; [injection H as <-; exact L|].
      binv H vlan Ev. binv H vp Evp. binv H c' Ec'.
      apply view_push_ext in Ec'. destruct Ec' as (_ & _ & _ & Lc). eapply IH; [|exact H]. lia. }
    destruct (ep_ether_type ep =? ET_MACSEC).
    { destruct (3 <=? len (sp_exts (c_result c))) eqn:E; [injection H as <-; exact L|].
      binv H m Em. binv H hl Ehl. binv H sl Esl. binv H c' Ec'.
      apply view_push_ext in Ec'. destruct Ec' as (_ & _ & _ & Lc).
      destruct (ms_payload m); [eapply IH; [|exact H]; lia|injection H as <-; lia]. }
    destruct (ep_ether_type ep =? ET_ARP); [apply slice_arp_exts in H; now rewrite H|].
    destruct (ep_ether_type ep =? ET_IPV4); [apply slice_ipv4_exts in H; now rewrite H|].
    destruct (ep_ether_type ep =? ET_IPV6); [apply slice_ipv6_exts in H; now rewrite H|].
    injection H as <-. exact L.
  Qed.

  Lemma exts_cap_entry e bs p : slice_with e bs = Ok p -> len (sp_exts p) <= 3.
  Proof.
    destruct e as [| |et|]; cbn [slice_with]; intros H.
    - unfold SlicedPacket.from_ethernet, slice_ethernet2 in H. binv H r Er. binv H ep Eep.
      unfold slice_ether_type in H. eapply ether_loop_cap; [|exact H]. cbn. lia.
    - unfold SlicedPacket.from_linux_sll, slice_linux_sll in H. binv H r Er. destruct r as (h, whole).
      binv H pt Ept. binv H pl Epl.
      destruct pt; try (injection H as <-; cbn; lia).
      unfold slice_ether_type in H. eapply ether_loop_cap; [|exact H]. cbn. lia.
    - unfold SlicedPacket.from_ether_type, slice_ether_type in H.
      eapply ether_loop_cap; [|exact H]. cbn. lia.
    - unfold SlicedPacket.from_ip in H. apply slice_ip_exts in H. rewrite H. cbn. lia.
  Qed.
End Cap.

(* ---- D. every entry point: the model's key is the wire key; never Bug ---- *)
Lemma slice_with_wf e bs p : slice_with e bs = Ok p -> sliced_wf bs p.
Proof.
  intros H. apply (sliced_wf_entry bs (match e with EEtherType et => et | _ => 0 end) p).
  destruct e; cbn [slice_with] in H; auto.
Qed.

Lemma slice_with_rel e bs : bytes_ok bs -> res_rel (vres_of (slice_with e bs)) (wire_with e bs).
Proof.
  intros Hok. destruct e; cbn [slice_with wire_with].
  - now apply from_ethernet_rel.
  - now apply from_linux_sll_rel.
  - now apply from_ether_type_rel.
  - now apply from_ip_rel.
Qed.

Theorem packet_key e bs chan : bytes_ok bs ->
  match slice_with e bs with
  | Ok p =>
      wire_with e bs = VOk (View.view p) /\
      exists ok, frag_key_of p chan = Ok ok /\
        option_map key_view ok = wire_frag_of e bs chan /\
        forall k, ok = Some k ->
          k_frag (pkt_of_key k) = frag_of_wire bs (key_view k) /\
          k_ipn (pkt_of_key k) = fi_ipn (fk_id k) /\
          k_v4 (pkt_of_key k) = id_is_v4 (fi_ip (fk_id k)) /\
          is_fragmenting (k_frag (pkt_of_key k)) = true
  | Err _ => wire_frag_of e bs chan = None
  | Bug _ => False
  end.
Proof.
  intros Hok. pose proof (slice_with_rel e bs Hok) as R. unfold wire_frag_of.
  destruct (slice_with e bs) as [p|err|b] eqn:E; cbn [vres_of] in R.
  - assert (Ew : wire_with e bs = VOk (View.view p)).
    { unfold res_rel in R. destruct (wire_with e bs); [now subst|contradiction|contradiction]. }
    split; [exact Ew|]. rewrite Ew.
    apply (key_wire bs p chan Hok (slice_with_wf _ _ _ E) (exts_cap_entry _ _ _ E)).
  - unfold res_rel in R. destruct (wire_with e bs) as [v|e'|b]; [destruct err; contradiction|reflexivity|reflexivity].
  - exact R.
Qed.

(* ---- E. pass-through: no key exactly for the packets that are not fragments on the wire ---- *)
Definition wire_unfragmented (bs : bytes) (v : vpacket) : Prop :=
  match v_net v with
  | Some (VIpv4 h _ _) =>
      flag bs (fst h + 6) 2 2 = false /\ bits bs (fst h + 6) 2 3 13 = 0
  | Some (VIpv6 h _ _ x _) =>
      match frag_pos bs (S (N.to_nat (snd x))) (B bs (fst h + 6)) (fst x) (fst x + snd x) with
      | Some q => flag bs (q + 2) 2 15 = false /\ bits bs (q + 2) 2 0 13 = 0
      | None => True
      end
  | Some (VArp _) | None => True
  end.

Lemma fragmenting_false mf fo : fragmenting mf fo = false <-> mf = false /\ fo = 0.
Proof.
  unfold fragmenting. destruct mf; cbn [orb]; [split; [discriminate|intros [H _]; discriminate]|].
  destruct (N.eqb_spec fo 0); cbn [negb]; split; auto; try discriminate. intros [_ H]. contradiction.
Qed.

Lemma wire_key_none_iff bs v chan : wire_key bs v chan = None <-> wire_unfragmented bs v.
Proof.
  unfold wire_key, wire_unfragmented.
  destruct (v_net v) as [[h a pl|h fi fr x pl|w]|]; try tauto.
  - rewrite <- fragmenting_false. destruct (fragmenting _ _); split; auto; discriminate.
  - destruct (frag_pos bs _ _ _ _) as [q|]; [|tauto].
    rewrite <- fragmenting_false. destruct (fragmenting _ _); split; auto; discriminate.
Qed.

Theorem packet_passthrough e bs p chan : bytes_ok bs -> slice_with e bs = Ok p ->
  (frag_key_of p chan = Ok None <-> wire_unfragmented bs (View.view p)) /\
  (wire_unfragmented bs (View.view p) ->
   forall pl ts, process_sliced_packet pl p ts chan = Ok (PNone, pl)).
Proof.
  intros Hok E. pose proof (packet_key e bs chan Hok) as K. rewrite E in K.
  destruct K as (Ew & ok & Ek & Ev & _). unfold wire_frag_of in Ev. rewrite Ew in Ev.
  assert (X : frag_key_of p chan = Ok None <-> wire_unfragmented bs (View.view p)).
  { rewrite <- (wire_key_none_iff bs (View.view p) chan), <- Ev, Ek.
    destruct ok; cbn [option_map]; split; intros H; try discriminate; reflexivity. }
  split; [exact X|]. intros U pl ts. unfold process_sliced_packet. apply X in U. rewrite U. reflexivity.
Qed.

(* a packet that is a fragment: the pool model of Defrag/Model.v is run on the wire fields *)
Theorem packet_fragment e bs p chan w : bytes_ok bs -> slice_with e bs = Ok p ->
  wire_key bs (View.view p) chan = Some w ->
  forall pl ts,
    process_sliced_packet pl p ts chan =
      Ok (process pl (mkPkt (encode_id (wf_id w)) (id_is_v4 (fi_ip (wf_id w))) (fi_ipn (wf_id w))
                        (frag_of_wire bs w)) ts) /\
    is_fragmenting (frag_of_wire bs w) = true.
Proof.
  intros Hok E Hw pl ts. pose proof (packet_key e bs chan Hok) as K. rewrite E in K.
  destruct K as (Ew & ok & Ek & Ev & Hk). unfold wire_frag_of in Ev. rewrite Ew, Hw in Ev.
  destruct ok as [k|]; [|discriminate]. injection Ev as Ev.
  destruct (Hk k eq_refl) as (H1 & H2 & H3 & H4). rewrite Ev in H1.
  unfold process_sliced_packet. rewrite Ek. cbn [bind].
  assert (Ep : pkt_of_key k = mkPkt (encode_id (wf_id w)) (id_is_v4 (fi_ip (wf_id w))) (fi_ipn (wf_id w))
                                 (frag_of_wire bs w)).
  { rewrite <- Ev at 1 2 3. cbn [key_view wf_id]. rewrite <- H1, <- H2, <- H3. reflexivity. }
  rewrite <- Ep. split; [reflexivity|]. rewrite Ep in H4. exact H4.
Qed.

(* ---- F. packet histories ---- *)
Module DP := Defrag.Proofs.

Fixpoint lower (ops : list pk_op) : list DP.pool_op :=
  match ops with
  | [] => []
  | KPacket e bs ts chan :: r =>
      match slice_with e bs with
      | Ok p => match frag_key_of p chan with
                | Ok (Some k) => DP.ODeliver (pkt_of_key k) ts :: lower r
                | _ => lower r
                end
      | _ => lower r
      end
  | KReturn payload :: r => DP.OReturn payload :: lower r
  end.

Lemma pk_trace_lower ops : forall pl, Forall op_bytes_ok ops ->
  exists tr, pk_trace pl ops = Ok tr /\
    forall id, answers_for id tr = DP.results_for id (DP.pool_trace pl (lower ops)).
Proof.
  induction ops as [|o ops IH]; intros pl F.
  - exists []. split; reflexivity.
  - inversion F as [|? ? Ho Fr]; subst. cbn [pk_trace lower].
    destruct o as [e bs ts chan|payload]; cbn [pk_step op_bytes_ok] in *.
    + pose proof (packet_key e bs chan Ho) as K.
      destruct (slice_with e bs) as [p|err|b]; [| |contradiction].
      * destruct K as (_ & ok & Ek & _). rewrite Ek. cbn [bind].
        destruct ok as [k|].
        -- cbn [DP.pool_trace]. destruct (process pl (pkt_of_key k) ts) as [r pl'] eqn:Ep.
           cbn [bind fst snd]. destruct (IH pl' Fr) as (tr & Et & Ha). rewrite Et. cbn [bind].
           eexists. split; [reflexivity|]. intros id. unfold answers_for, DP.results_for.
           cbn [filter fst map snd pkt_of_key k_id].
           destruct (fid_eqb (encode_id (fk_id k)) id); cbn [map snd]; [f_equal|]; apply Ha.
        -- cbn [bind fst snd]. destruct (IH pl Fr) as (tr & Et & Ha). rewrite Et. cbn [bind].
           eexists. split; [reflexivity|]. intros id. unfold answers_for. cbn [filter fst]. apply Ha.
      * cbn [bind fst snd]. destruct (IH pl Fr) as (tr & Et & Ha). rewrite Et. cbn [bind].
        eexists. split; [reflexivity|]. intros id. unfold answers_for. cbn [filter fst]. apply Ha.
    + cbn [bind fst snd DP.pool_trace]. destruct (IH (return_buf pl payload) Fr) as (tr & Et & Ha).
      rewrite Et. cbn [bind]. eexists. split; [reflexivity|]. intros id. unfold answers_for. cbn [filter fst]. apply Ha.
Qed.

(* the datagram id i as the pool model's packet *)
Definition pkt_for (i : frag_id) (ft : frag * N) : pkt * N :=
  (mkPkt (encode_id i) (id_is_v4 (fi_ip i)) (fi_ipn i) (fst ft), snd ft).

Lemma for_id_lower i ops : Forall op_bytes_ok ops ->
  DP.for_id (encode_id i) (lower ops) = map (pkt_for i) (wire_for i ops).
Proof.
  induction ops as [|o ops IH]; intros F; [reflexivity|].
  inversion F as [|? ? Ho Fr]; subst. specialize (IH Fr). cbn [lower wire_for].
  destruct o as [e bs ts chan|payload]; cbn [op_bytes_ok] in *; [|exact IH].
  pose proof (packet_key e bs chan Ho) as K.
  destruct (slice_with e bs) as [p|err|b]; [| |contradiction].
  - destruct K as (_ & ok & Ek & Ev & Hk). rewrite Ek, <- Ev.
    destruct ok as [k|]; cbn [option_map]; [|exact IH].
    cbn [DP.for_id pkt_of_key k_id key_view wf_id].
    destruct (Hk k eq_refl) as (H1 & H2 & H3 & _).
    destruct (fid_eqb (encode_id (fk_id k)) (encode_id i)) eqn:Eq; [|exact IH].
    apply fid_eqb_encode in Eq. cbn [map]. rewrite IH. f_equal.
    unfold pkt_for. cbn [fst snd]. f_equal. rewrite <- H1, <- Eq, <- H2, <- H3. reflexivity.
  - rewrite K. exact IH.
Qed.

(* packet-level isolation: the answers to the packets of one datagram id inside ANY packet history
   are the answers its own wire fragments get alone *)
Theorem packets_isolation pl i ops : Forall op_bytes_ok ops ->
  exists tr, pk_trace pl ops = Ok tr /\
    answers_for (encode_id i) tr =
      DP.stream_trace (DP.view (encode_id i) pl) (map (pkt_for i) (wire_for i ops)).
Proof.
  intros F. destruct (pk_trace_lower ops pl F) as (tr & Et & Ha). exists tr. split; [exact Et|].
  rewrite Ha, DP.isolation, for_id_lower by exact F. reflexivity.
Qed.

Lemma wire_key_fragmenting bs v chan w : wire_key bs v chan = Some w -> fragmenting (wf_mf w) (wf_fo w) = true.
Proof.
  unfold wire_key. destruct (v_net v) as [[h a pl|h fi fr x pl|a]|]; try discriminate.
  - destruct (fragmenting _ _) eqn:Fr; [|discriminate]. intros H. injection H as <-. exact Fr.
  - destruct (frag_pos bs _ _ _ _) as [q|]; [|discriminate].
    destruct (fragmenting _ _) eqn:Fr; [|discriminate]. intros H. injection H as <-. exact Fr.
Qed.

Lemma wire_for_fragmenting i ops g t : In (g, t) (wire_for i ops) -> is_fragmenting g = true.
Proof.
  induction ops as [|o ops IH]; cbn [wire_for]; [intros []|].
  destruct o as [e bs ts chan|payload]; [|exact IH].
  destruct (wire_frag_of e bs chan) as [w|] eqn:Ew; [|exact IH].
  destruct (fid_eqb _ _); [|exact IH]. intros [H|H]; [|exact (IH H)].
  injection H as <- _. unfold wire_frag_of in Ew. destruct (wire_with e bs); try discriminate.
  exact (wire_key_fragmenting _ _ _ _ Ew).
Qed.

(* any interleaving of packets: the fragments of the datagram with id i (whatever else is in the
   history: fragments of datagrams that differ from i in at least one key field, unfragmented
   packets, frames the slicer rejects, buffer returns) -- nothing is returned for i while its
   fragments do not cover P, the packet that completes the cover is answered with P, once *)
Theorem packets_complete P i ops pl ks f ts :
  len P <= 65535 -> Forall op_bytes_ok ops ->
  DP.view (encode_id i) pl = None ->
  wire_for i ops = ks ++ [(f, ts)] ->
  (forall g, In g (map fst ks) -> frag_of P g) -> frag_of P f ->
  (forall j, (j <= length ks)%nat -> ~ Covered P (firstn j (map fst ks))) ->
  Covered P (map fst ks ++ [f]) ->
  exists tr, pk_trace pl ops = Ok tr /\
    answers_for (encode_id i) tr =
      map (fun _ => PNone) ks ++ [PDone (fi_ipn i) (id_is_v4 (fi_ip i)) (map Some P)].
Proof.
  intros HP F Hv Hw Hks Hf Hnc Hc.
  destruct (packets_isolation pl i ops F) as (tr & Et & Ha). exists tr. split; [exact Et|].
  rewrite Ha, Hv, Hw, map_app. cbn [map].
  assert (Hfr : forall g t, In (g, t) (ks ++ [(f, ts)]) -> is_fragmenting g = true).
  { intros g t Hin. rewrite <- Hw in Hin. exact (wire_for_fragmenting _ _ _ _ Hin). }
  assert (Efr : DP.frags_of (map (pkt_for i) ks) = map fst ks).
  { unfold DP.frags_of. rewrite map_map. apply map_ext. intros (g, t). reflexivity. }
  destruct (DP.pool_completes P HP (map (pkt_for i) ks) (fst (pkt_for i (f, ts))) ts) as (Ht & _).
  - intros kt Hin. apply in_map_iff in Hin. destruct Hin as ((g, t) & <- & Hin). split; cbn.
    + apply Hks. apply in_map_iff. exists (g, t). auto.
    + apply (Hfr g t). apply in_or_app. auto.
  - split; cbn; [exact Hf|]. apply (Hfr f ts). apply in_or_app. right. left. reflexivity.
  - intros j Hj. rewrite Efr. apply Hnc. rewrite map_length in Hj. exact Hj.
  - rewrite Efr. exact Hc.
  - change (pkt_for i (f, ts)) with (fst (pkt_for i (f, ts)), ts).
    rewrite Ht. rewrite map_map. reflexivity.
Qed.

(* ---- G. which wire fields make the stream id: exactly these, nothing else ---- *)
Theorem same_stream_v4_wire bs1 bs2 v1 v2 c1 c2 h1 a1 pl1 h2 a2 pl2 w1 w2 :
  v_net v1 = Some (VIpv4 h1 a1 pl1) -> v_net v2 = Some (VIpv4 h2 a2 pl2) ->
  wire_key bs1 v1 c1 = Some w1 -> wire_key bs2 v2 c2 = Some w2 ->
  (encode_id (wf_id w1) = encode_id (wf_id w2) <->
   wire_vids bs1 (v_exts v1) = wire_vids bs2 (v_exts v2) /\
   bytes_at bs1 (fst h1 + 12) 4 = bytes_at bs2 (fst h2 + 12) 4 /\
   bytes_at bs1 (fst h1 + 16) 4 = bytes_at bs2 (fst h2 + 16) 4 /\
   W bs1 (fst h1 + 4) = W bs2 (fst h2 + 4) /\
   vip_number pl1 = vip_number pl2 /\
   c1 = c2).
Proof.
  intros N1 N2. unfold wire_key. rewrite N1, N2.
  destruct (fragmenting _ _); [|discriminate]. destruct (fragmenting _ _); [|discriminate].
  intros H1 H2. injection H1 as <-. injection H2 as <-. rewrite same_stream_iff. cbn. tauto.
Qed.

Theorem same_stream_v6_wire bs1 bs2 v1 v2 c1 c2 h1 f1 g1 x1 pl1 h2 f2 g2 x2 pl2 q1 q2 w1 w2 :
  v_net v1 = Some (VIpv6 h1 f1 g1 x1 pl1) -> v_net v2 = Some (VIpv6 h2 f2 g2 x2 pl2) ->
  frag_pos bs1 (S (N.to_nat (snd x1))) (B bs1 (fst h1 + 6)) (fst x1) (fst x1 + snd x1) = Some q1 ->
  frag_pos bs2 (S (N.to_nat (snd x2))) (B bs2 (fst h2 + 6)) (fst x2) (fst x2 + snd x2) = Some q2 ->
  wire_key bs1 v1 c1 = Some w1 -> wire_key bs2 v2 c2 = Some w2 ->
  (encode_id (wf_id w1) = encode_id (wf_id w2) <->
   wire_vids bs1 (v_exts v1) = wire_vids bs2 (v_exts v2) /\
   bytes_at bs1 (fst h1 + 8) 16 = bytes_at bs2 (fst h2 + 8) 16 /\
   bytes_at bs1 (fst h1 + 24) 16 = bytes_at bs2 (fst h2 + 24) 16 /\
   num_at bs1 (q1 + 4) 4 = num_at bs2 (q2 + 4) 4 /\
   vip_number pl1 = vip_number pl2 /\
   c1 = c2).
Proof.
  intros N1 N2 Q1 Q2. unfold wire_key. rewrite N1, N2, Q1, Q2.
  destruct (fragmenting _ _); [|discriminate]. destruct (fragmenting _ _); [|discriminate].
  intros H1 H2. injection H1 as <-. injection H2 as <-. rewrite same_stream_iff.
  cbn [wf_id fi_vlans fi_ip fi_ipn fi_chan id_is_v4 id_src id_dst id_ident]. tauto.
Qed.

Theorem diff_version_wire bs1 bs2 v1 v2 c1 c2 h1 a1 pl1 h2 f2 g2 x2 pl2 w1 w2 :
  v_net v1 = Some (VIpv4 h1 a1 pl1) -> v_net v2 = Some (VIpv6 h2 f2 g2 x2 pl2) ->
  wire_key bs1 v1 c1 = Some w1 -> wire_key bs2 v2 c2 = Some w2 ->
  encode_id (wf_id w1) <> encode_id (wf_id w2).
Proof.
  intros N1 N2. unfold wire_key. rewrite N1, N2.
  destruct (fragmenting _ _); [|discriminate]. destruct (frag_pos bs2 _ _ _ _); [|discriminate].
  destruct (fragmenting _ _); [|discriminate].
  intros H1 H2. injection H1 as <-. injection H2 as <-. rewrite same_stream_iff. cbn.
  intros (_ & H & _). discriminate.
Qed.

(* the model's id of a sliced packet IS the wire id (packet_key), so for two sliceable packets:
   same stream in the pool <=> same wire id *)
Theorem packets_same_stream e1 bs1 c1 p1 k1 e2 bs2 c2 p2 k2 :
  bytes_ok bs1 -> bytes_ok bs2 ->
  slice_with e1 bs1 = Ok p1 -> slice_with e2 bs2 = Ok p2 ->
  frag_key_of p1 c1 = Ok (Some k1) -> frag_key_of p2 c2 = Ok (Some k2) ->
  exists w1 w2,
    wire_key bs1 (View.view p1) c1 = Some w1 /\ wire_key bs2 (View.view p2) c2 = Some w2 /\
    wire_with e1 bs1 = VOk (View.view p1) /\ wire_with e2 bs2 = VOk (View.view p2) /\
    (k_id (pkt_of_key k1) = k_id (pkt_of_key k2) <-> wf_id w1 = wf_id w2).
Proof.
  intros O1 O2 S1 S2 K1 K2.
  pose proof (packet_key e1 bs1 c1 O1) as A. rewrite S1 in A. destruct A as (W1 & ok1 & E1 & V1 & _).
  pose proof (packet_key e2 bs2 c2 O2) as A. rewrite S2 in A. destruct A as (W2 & ok2 & E2 & V2 & _).
  rewrite K1 in E1. injection E1 as <-. rewrite K2 in E2. injection E2 as <-.
  unfold wire_frag_of in V1, V2. rewrite W1 in V1. rewrite W2 in V2. cbn [option_map] in V1, V2.
  exists (key_view k1), (key_view k2). repeat split; auto.
  - cbn. apply encode_id_inj.
  - cbn. intros ->. reflexivity.
Qed.
