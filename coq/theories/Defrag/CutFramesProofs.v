(* Defrag/CutFramesProofs.v -- the frames of a cut reassemble (audit round 3, item 6).
   A. reading a buffer given as a concatenation (`B_at`, `W_be16`, `bits_be16`, `bytes_at_at`);
   B. the reference decoder walks MACs + 802.1Q tags (`wire_ether_tags`, `wire_ethernet_link`);
   C. IPv4: `frame_v4_wire` -- wire_frag_of (frame_v4 l h f) = (id_v4 l h c, f_fo f, f_mf f, window of
      the data, v4); `frame_v4_decodes`, `frame_v4_model` (slicer model + frag_key_of + pkt_of_key,
      through PacketStepProofs.packet_key);
   D. IPv6 + fragment header: `frame_v6_wire`, `frame_v6_decodes`;
   E. schedules: `wire_for_realize`, `cut_frames_reassemble` (discharges the `frag_of P` hypothesis
      of `packets_complete`), `cut_frames_any_order` (index sets: any order, duplicates). *)
From Coq Require Import ZArith Lia ZifyN ZifyBool List.
From EP Require BitFields.Spec BitFields.BitLemmas BitFields.Model BitFields.Proofs.
From EP Require Import Base.Bytes Defrag.Spec Defrag.Model.
From EP Require Defrag.Proofs.
From EP Require Import Parse.Types Parse.View Parse.WireSpec Parse.Fields Parse.FieldsProofs.
From EP Require Import Defrag.PacketStep Defrag.PacketStepProofs Defrag.CutFrames.
Import ListNotations.
Local Open Scope N_scope.

(* ---------------------------------------------------------------- *)

Ltac dmlia := zify; Z.div_mod_to_equations; lia.

(* ---- reading a buffer given as a concatenation ---- *)
Lemma B_at bs pre x post p : bs = pre ++ x :: post -> p = len pre -> B bs p = x.
Proof.
  intros -> ->. unfold B, len. rewrite Nnat.Nat2N.id, app_nth2 by lia.
  rewrite Nat.sub_diag. reflexivity.
Qed.

Lemma W_at bs pre a b post p : bs = pre ++ a :: b :: post -> p = len pre -> W bs p = a * 256 + b.
Proof.
  intros E ->. unfold W. rewrite (B_at bs pre a (b :: post) _ E eq_refl).
  rewrite (B_at bs (pre ++ [a]) b post).
  - reflexivity.
  - rewrite E, <- app_assoc. reflexivity.
  - rewrite len_app. reflexivity.
Qed.

Lemma bytes_at_at bs mid : forall pre post p,
  bs = pre ++ mid ++ post -> p = len pre -> bytes_at bs p (length mid) = mid.
Proof.
  induction mid as [|x mid IH]; intros pre post p E Hp; [reflexivity|].
  cbn [length bytes_at]. f_equal.
  - exact (B_at bs pre x (mid ++ post) p E Hp).
  - apply (IH (pre ++ [x]) post).
    + rewrite E, <- app_assoc. reflexivity.
    + rewrite len_app, Hp. reflexivity.
Qed.

Lemma bytes_n_at bs mid pre post p :
  bs = pre ++ mid ++ post -> p = len pre -> bytes_n bs p (len mid) = mid.
Proof.
  intros E Hp. unfold bytes_n, len. rewrite Nnat.Nat2N.id. exact (bytes_at_at bs mid pre post p E Hp).
Qed.

Lemma to_be16_val v : v < 65536 -> (v / 256) mod 256 * 256 + v mod 256 = v.
Proof. intros H. dmlia. Qed.

Lemma to_be16_ok v : bytes_ok (to_be16 v).
Proof. unfold to_be16. repeat constructor; unfold byte_ok; dmlia. Qed.

Lemma W_be16 bs pre v post p : v < 65536 -> bs = pre ++ to_be16 v ++ post -> p = len pre -> W bs p = v.
Proof.
  intros Hv E Hp. unfold to_be16 in E. cbn [app] in E. rewrite (W_at bs pre _ _ post p E Hp).
  exact (to_be16_val v Hv).
Qed.

(* bit fields of a big-endian 16 bit number *)
Lemma bits_of_be16 v : BitFields.Spec.bits_of (to_be16 v) = BitFields.Spec.nbits 16 v.
Proof.
  unfold to_be16. rewrite !BitFields.BitLemmas.bits_of_cons. unfold BitFields.Spec.bits_of. cbn [flat_map].
  rewrite app_nil_r. apply BitFields.BitLemmas.nbits16_bytes.
Qed.

(* bits [16-w, 16) *)
Lemma field16_low v (w : nat) : (w <= 16)%nat ->
  BitFields.Spec.field (BitFields.Spec.nbits 16 v) (16 - w) w = v mod 2 ^ N.of_nat w.
Proof.
  intros Hw. replace 16%nat with ((16 - w) + w)%nat at 1 by lia.
  rewrite BitFields.BitLemmas.nbits_split.
  pose proof (BitFields.BitLemmas.field_mid (BitFields.Spec.nbits (16 - w) (v / 2 ^ N.of_nat w))
                (BitFields.Spec.nbits w v) []) as F.
  rewrite !BitFields.BitLemmas.nbits_length, app_nil_r in F. rewrite F.
  apply BitFields.BitLemmas.bits_val_nbits.
Qed.

(* bits [a, a+w) with a + w + r = 16: (v / 2^r) mod 2^w *)
Lemma field16_mid v (a w r : nat) : (a + w + r = 16)%nat ->
  BitFields.Spec.field (BitFields.Spec.nbits 16 v) a w = (v / 2 ^ N.of_nat r) mod 2 ^ N.of_nat w.
Proof.
  intros E. replace 16%nat with ((a + w) + r)%nat by lia.
  rewrite BitFields.BitLemmas.nbits_split, BitFields.BitLemmas.nbits_split.
  rewrite <- app_assoc.
  pose proof (BitFields.BitLemmas.field_mid
                (BitFields.Spec.nbits a (v / 2 ^ N.of_nat r / 2 ^ N.of_nat w))
                (BitFields.Spec.nbits w (v / 2 ^ N.of_nat r)) (BitFields.Spec.nbits r v)) as F.
  rewrite !BitFields.BitLemmas.nbits_length in F. rewrite F.
  apply BitFields.BitLemmas.bits_val_nbits.
Qed.

Lemma bits_be16 bs pre v post p a w r : bs = pre ++ to_be16 v ++ post -> p = len pre ->
  (a + w + r = 16)%nat -> bits bs p 2 a w = (v / 2 ^ N.of_nat r) mod 2 ^ N.of_nat w.
Proof.
  intros E Hp Hs. unfold bits. change 2%nat with (length (to_be16 v)).
  rewrite (bytes_at_at bs (to_be16 v) pre post p E Hp), bits_of_be16.
  exact (field16_mid v a w r Hs).
Qed.

(* ---- the link part: walking the 802.1Q tags ---- *)
Definition first_et (tags : list (N * N)) (et : N) : N :=
  match tags with [] => et | t :: _ => fst t end.

Lemma tags_bytes_head tags et : exists tl, tags_bytes tags et = to_be16 (first_et tags et) ++ tl.
Proof.
  destruct tags as [|t r]; cbn [tags_bytes first_et].
  - exists []. rewrite app_nil_r. reflexivity.
  - eexists. reflexivity.
Qed.

Lemma len_tags_bytes tags et : len (tags_bytes tags et) = 2 + 4 * len tags.
Proof.
  induction tags as [|t r IH]; cbn [tags_bytes]; [reflexivity|].
  rewrite !len_app, IH, len_cons. change (len (to_be16 (fst t))) with 2. change (len (to_be16 (snd t))) with 2. lia.
Qed.

Lemma tags_bytes_ok tags et : bytes_ok (tags_bytes tags et).
Proof.
  induction tags as [|t r IH]; cbn [tags_bytes]; [apply to_be16_ok|].
  apply bytes_ok_app. split; [apply to_be16_ok|]. apply bytes_ok_app. split; [apply to_be16_ok|exact IH].
Qed.

Fixpoint tag_exts (pos lim : N) (n : nat) : list vlink_ext :=
  match n with O => [] | S m => VVlan (pos, lim - pos) :: tag_exts (pos + 4) lim m end.

Definition add_exts (p : vpacket) (xs : list vlink_ext) : vpacket :=
  mkVPacket (v_link p) (v_exts p ++ xs) (v_net p) (v_transport p).

Lemma tag_ok_vlan t : tag_ok t -> is_vlan (fst t) = true /\ fst t < 65536.
Proof. unfold tag_ok. intros (H & _). destruct H as [H|[H|H]]; rewrite H; split; reflexivity. Qed.

Lemma first_et_lt tags et : Forall tag_ok tags -> et < 65536 -> first_et tags et < 65536.
Proof.
  intros F He. destruct tags as [|t r]; [exact He|]. apply Forall_cons_iff in F; destruct F as (Ht & _).
  exact (proj2 (tag_ok_vlan t Ht)).
Qed.

Lemma wire_ether_tags et bs body : is_vlan et = false -> et <> 35045 -> et < 65536 ->
  forall tags cap p front, (length tags <= cap)%nat -> Forall tag_ok tags ->
  bs = front ++ tags_bytes tags et ++ body ->
  wire_ether bs cap p (first_et tags et) LsSlice (len front + 2) (len bs) =
  wire_net bs (add_exts p (tag_exts (len front + 2) (len bs) (length tags))) et LsSlice
    (len front + 2 + 4 * len tags) (len bs).
Proof.
  intros Hv Hm He. induction tags as [|t r IH]; intros cap p front Hc F E.
  - cbn [first_et length tag_exts]. unfold add_exts. rewrite app_nil_r.
    replace (len front + 2 + 4 * len (@nil (N * N))) with (len front + 2) by (unfold len; cbn [length]; lia).
    apply N.eqb_neq in Hm.
    destruct p; destruct cap; cbn [wire_ether]; rewrite Hv, Hm; reflexivity.
  - apply Forall_cons_iff in F; destruct F as (Ht & Fr). destruct (tag_ok_vlan t Ht) as (Hvt & Hlt).
    destruct cap as [|c]; [cbn [length] in Hc; lia|]. cbn [first_et wire_ether]. rewrite Hvt.
    cbn [tags_bytes] in E.
    assert (Hl : len bs = len front + 4 + len (tags_bytes r et) + len body).
    { rewrite E, !len_app. change (len (to_be16 (fst t))) with 2. change (len (to_be16 (snd t))) with 2. lia. }
    pose proof (len_tags_bytes r et) as Hlt2.
    replace (len bs - (len front + 2) <? 4) with false by (symmetry; apply N.ltb_ge; lia).
    destruct (tags_bytes_head r et) as (tl & Etl).
    assert (EW : W bs (len front + 2 + 2) = first_et r et).
    { apply (W_be16 bs (front ++ to_be16 (fst t) ++ to_be16 (snd t)) (first_et r et) (tl ++ body)).
      - apply first_et_lt; assumption.
      - rewrite E, Etl, <- !app_assoc. reflexivity.
      - rewrite !len_app. change (len (to_be16 (fst t))) with 2. change (len (to_be16 (snd t))) with 2. lia. }
    rewrite EW.
    assert (Ef : len (front ++ to_be16 (fst t) ++ to_be16 (snd t)) + 2 = len front + 2 + 4).
    { rewrite !len_app. change (len (to_be16 (fst t))) with 2. change (len (to_be16 (snd t))) with 2. lia. }
    rewrite <- Ef.
    rewrite (IH c (with_ext p (VVlan (len front + 2, len bs - (len front + 2))))
                (front ++ to_be16 (fst t) ++ to_be16 (snd t))).
    + rewrite Ef. cbn [length tag_exts]. f_equal.
      * unfold add_exts, with_ext. cbn [v_link v_exts v_net v_transport]. rewrite <- app_assoc. reflexivity.
      * rewrite len_cons. lia.
    + cbn [length] in Hc. lia.
    + exact Fr.
    + rewrite E, <- !app_assoc. reflexivity.
Qed.

Lemma wire_vids_tags et bs body : forall tags front, Forall tag_ok tags ->
  bs = front ++ tags_bytes tags et ++ body ->
  wire_vids bs (tag_exts (len front + 2) (len bs) (length tags)) = map (fun t => snd t mod 4096) tags.
Proof.
  induction tags as [|t r IH]; intros front F E; [reflexivity|].
  apply Forall_cons_iff in F; destruct F as (Ht & Fr). cbn [length tag_exts wire_vids flat_map wire_vid map app fst].
  cbn [tags_bytes] in E. f_equal.
  - rewrite (bits_be16 bs (front ++ to_be16 (fst t)) (snd t) (tags_bytes r et ++ body) _ 4 12 0).
    + change (2 ^ N.of_nat 0) with 1. rewrite N.div_1_r. reflexivity.
    + rewrite E, <- !app_assoc. reflexivity.
    + rewrite len_app. reflexivity.
    + reflexivity.
  - assert (Ef : len (front ++ to_be16 (fst t) ++ to_be16 (snd t)) + 2 = len front + 2 + 4).
    { rewrite !len_app. change (len (to_be16 (fst t))) with 2. change (len (to_be16 (snd t))) with 2. lia. }
    rewrite <- Ef. apply (IH _ Fr). rewrite E, <- !app_assoc. reflexivity.
Qed.

(* ---------------------------------------------------------------- *)

Lemma B_mid bs pre mid post p (k : nat) : bs = pre ++ mid ++ post -> p = len pre + N.of_nat k ->
  (k < length mid)%nat -> B bs p = nth k mid 0.
Proof.
  intros -> -> Hk. unfold B, len. rewrite <- Nnat.Nat2N.inj_add, Nnat.Nat2N.id.
  rewrite app_nth2_plus, app_nth1 by exact Hk. reflexivity.
Qed.

Lemma len4 (l : bytes) : len l = 4 -> exists a b c d, l = [a; b; c; d].
Proof.
  unfold len. intros H. destruct l as [|a [|b [|c [|d [|e l]]]]]; cbn [length] in H; try lia.
  exists a, b, c, d. reflexivity.
Qed.

(* ---- IPv4: the reference decoder on a 20 octet header of a fragment ---- *)
Lemma wire_ipv4_eval bs p pos lim proto tl :
  B bs pos = 69 -> W bs (pos + 2) = tl -> 20 <= tl -> pos + tl <= lim ->
  B bs (pos + 9) = proto -> proto <> 51 -> ipv4_fragmented bs pos = true ->
  wire_ipv4 bs p LsSlice pos lim =
    VOk (with_net p (VIpv4 (pos, 20) None
           (mkVIp proto true LsIpv4HeaderTotalLen (pos + 20, pos + tl - (pos + 20))))).
Proof.
  intros E0 E2 Htl Hlim E9 Hp Hf.
  unfold wire_ipv4. cbv zeta. rewrite E0. change (69 / 16) with 4. change (69 mod 16) with 5.
  change (4 =? 4) with true. change (5 <? 5) with false. change (5 * 4) with 20. cbn [negb].
  destruct (N.ltb_spec (lim - pos) 20) as [L|L]; [lia|].
  unfold wire_ipv4_body. cbv zeta. rewrite E2.
  destruct (N.ltb_spec tl 20) as [L1|L1]; [lia|]. destruct (N.ltb_spec (lim - pos) tl) as [L2|L2]; [lia|].
  unfold wire_ipv4_tail. cbv zeta. rewrite E9, Hf. apply N.eqb_neq in Hp. rewrite Hp.
  unfold wire_transport. reflexivity.
Qed.

Lemma len_v4_header h f : v4_ok h -> len (v4_header h f) = 20.
Proof.
  intros (_ & _ & _ & _ & _ & Hs & _ & Hd & _). unfold v4_header. rewrite !len_app, Hs, Hd. reflexivity.
Qed.

Lemma flags_fo_lt df mf fo : fo < 8192 -> v4_flags_fo df mf fo < 65536.
Proof. unfold v4_flags_fo. destruct df, mf; lia. Qed.

Lemma flags_fo_mf df mf fo : fo < 8192 -> ((v4_flags_fo df mf fo / 8192) mod 2 =? 1) = mf.
Proof. unfold v4_flags_fo. intros H. destruct df, mf; apply Bool.eq_true_iff_eq; rewrite N.eqb_eq; split; intros; try discriminate; try reflexivity; dmlia. Qed.

Lemma flags_fo_fo df mf fo : fo < 8192 -> v4_flags_fo df mf fo mod 8192 = fo.
Proof. unfold v4_flags_fo. intros H. destruct df, mf; dmlia. Qed.

Lemma flags_fo_byte df mf fo : fo < 8192 ->
  negb ((((v4_flags_fo df mf fo / 256) mod 256) / 32) mod 2 =? 0) = mf.
Proof.
  unfold v4_flags_fo. intros H.
  destruct df, mf; cbn [negb]; apply Bool.eq_true_iff_eq; rewrite Bool.negb_true_iff, N.eqb_neq;
    split; intros; try discriminate; try reflexivity; dmlia.
Qed.


Lemma len_to_be16 v : len (to_be16 v) = 2.
Proof. reflexivity. Qed.

Lemma B_be16_hi bs pre v post p : bs = pre ++ to_be16 v ++ post -> p = len pre -> B bs p = (v / 256) mod 256.
Proof. intros E Hp. unfold to_be16 in E. cbn [app] in E. exact (B_at bs pre _ _ p E Hp). Qed.

Lemma bytes_at_at' bs mid pre post p n :
  bs = pre ++ mid ++ post -> p = len pre -> n = length mid -> bytes_at bs p n = mid.
Proof. intros E Hp ->. exact (bytes_at_at bs mid pre post p E Hp). Qed.

Ltac lenlia := rewrite ?len_app, ?len_to_be16; unfold len; cbn [length]; lia.


(* the octets of the frame behind an arbitrary prefix `pre` *)
Ltac v4_split E := rewrite E; unfold v4_header; rewrite <- ?app_assoc; reflexivity.

Lemma v4_facts pre h f bs : v4_ok h -> fits_v4 f -> bs = pre ++ v4_header h f ++ f_data f ->
  let ffo := v4_flags_fo (v4_df h) (f_mf f) (f_fo f) in
  len bs = len pre + 20 + len (f_data f) /\
  B bs (len pre) = 69 /\
  W bs (len pre + 2) = 20 + len (f_data f) /\
  W bs (len pre + 4) = v4_ident h /\
  B bs (len pre + 6) = (ffo / 256) mod 256 /\
  W bs (len pre + 6) = ffo /\
  B bs (len pre + 9) = v4_proto h /\
  flag bs (len pre + 6) 2 2 = f_mf f /\
  bits bs (len pre + 6) 2 3 13 = f_fo f /\
  bytes_at bs (len pre + 12) 4 = v4_src h /\
  bytes_at bs (len pre + 16) 4 = v4_dst h /\
  bytes_n bs (len pre + 20) (len (f_data f)) = f_data f.
Proof.
  intros Hh (Hfo & Hfit & Hdok) E ffo.
  destruct Hh as (Htos & Httl & Hpr & Hpr' & Hck & Hs & Hsb & Hd & Hdb & Hid).
  pose proof (flags_fo_lt (v4_df h) (f_mf f) (f_fo f) Hfo) as Hffo. fold ffo in Hffo.
  repeat match goal with |- _ /\ _ => split end.
  - rewrite E, !len_app. unfold v4_header. rewrite !len_app, Hs, Hd, !len_to_be16. unfold len. cbn [length]. lia.
  - eapply B_at; [rewrite E; unfold v4_header; cbn [app]; reflexivity|reflexivity].
  - eapply (W_be16 bs (pre ++ [69; v4_tos h])); [lia|v4_split E|lenlia].
  - eapply (W_be16 bs (pre ++ [69; v4_tos h] ++ to_be16 (20 + len (f_data f)))); [lia|v4_split E|lenlia].
  - eapply (B_be16_hi bs (pre ++ [69; v4_tos h] ++ to_be16 (20 + len (f_data f)) ++ to_be16 (v4_ident h)));
      [v4_split E|lenlia].
  - eapply (W_be16 bs (pre ++ [69; v4_tos h] ++ to_be16 (20 + len (f_data f)) ++ to_be16 (v4_ident h)));
      [exact Hffo|v4_split E|lenlia].
  - eapply (B_at bs (pre ++ [69; v4_tos h] ++ to_be16 (20 + len (f_data f)) ++ to_be16 (v4_ident h) ++
                       to_be16 ffo ++ [v4_ttl h])); [v4_split E|lenlia].
  - unfold flag.
    rewrite (bits_be16 bs (pre ++ [69; v4_tos h] ++ to_be16 (20 + len (f_data f)) ++ to_be16 (v4_ident h))
               ffo (([v4_ttl h; v4_proto h] ++ to_be16 (v4_cksum h) ++ v4_src h ++ v4_dst h) ++ f_data f)
               _ 2 1 13); [|v4_split E|lenlia|reflexivity].
    change (2 ^ N.of_nat 13) with 8192. change (2 ^ N.of_nat 1) with 2.
    exact (flags_fo_mf (v4_df h) (f_mf f) (f_fo f) Hfo).
  - rewrite (bits_be16 bs (pre ++ [69; v4_tos h] ++ to_be16 (20 + len (f_data f)) ++ to_be16 (v4_ident h))
               ffo (([v4_ttl h; v4_proto h] ++ to_be16 (v4_cksum h) ++ v4_src h ++ v4_dst h) ++ f_data f)
               _ 3 13 0); [|v4_split E|lenlia|reflexivity].
    change (2 ^ N.of_nat 13) with 8192. change (2 ^ N.of_nat 0) with 1. rewrite N.div_1_r.
    exact (flags_fo_fo (v4_df h) (f_mf f) (f_fo f) Hfo).
  - eapply (bytes_at_at' bs (v4_src h)
              (pre ++ [69; v4_tos h] ++ to_be16 (20 + len (f_data f)) ++ to_be16 (v4_ident h) ++
                 to_be16 ffo ++ [v4_ttl h; v4_proto h] ++ to_be16 (v4_cksum h))); [v4_split E|lenlia|unfold len in Hs; lia].
  - eapply (bytes_at_at' bs (v4_dst h)
              (pre ++ [69; v4_tos h] ++ to_be16 (20 + len (f_data f)) ++ to_be16 (v4_ident h) ++
                 to_be16 ffo ++ [v4_ttl h; v4_proto h] ++ to_be16 (v4_cksum h) ++ v4_src h) (f_data f));
      [v4_split E| |unfold len in Hd; lia].
    rewrite ?len_app, ?len_to_be16, Hs. unfold len. cbn [length]. lia.
  - eapply (bytes_n_at bs (f_data f) (pre ++ v4_header h f) []).
    + rewrite app_nil_r, <- app_assoc. exact E.
    + rewrite len_app, (len_v4_header h f); [lia|]. repeat split; assumption.
Qed.

(* ---- Ethernet II + tags, any ether type that is neither a tag nor MACsec ---- *)
Lemma len_link_bytes l et : link_ok l -> len (link_bytes l et) = 14 + 4 * len (el_tags l).
Proof. intros (Hm & _). unfold link_bytes. rewrite len_app, Hm, len_tags_bytes. lia. Qed.

Lemma link_bytes_ok l et : link_ok l -> bytes_ok (link_bytes l et).
Proof. intros (_ & Hm & _). apply bytes_ok_app. split; [exact Hm|apply tags_bytes_ok]. Qed.

Lemma wire_ethernet_link l et body bs : link_ok l -> is_vlan et = false -> et <> 35045 -> et < 65536 ->
  bs = link_bytes l et ++ body ->
  wire_ethernet bs =
    wire_net bs (mkVPacket (Some (VEthernet2 (0, len bs))) (tag_exts 14 (len bs) (length (el_tags l))) None None)
      et LsSlice (len (link_bytes l et)) (len bs) /\
  wire_vids bs (tag_exts 14 (len bs) (length (el_tags l))) = link_vids l.
Proof.
  intros Hl Hv Hm He E. pose proof (len_link_bytes l et Hl) as Hlen.
  destruct Hl as (Hmac & Hmok & Hn & Ht).
  assert (E' : bs = el_macs l ++ tags_bytes (el_tags l) et ++ body).
  { rewrite E. unfold link_bytes. rewrite <- app_assoc. reflexivity. }
  unfold wire_ethernet, n_bs.
  replace 14 with (len (el_macs l) + 2) by lia. split.
  - 
    assert (Hb : len bs = 14 + 4 * len (el_tags l) + len body) by (rewrite E, len_app; lia).
    destruct (N.ltb_spec (len bs) (len (el_macs l) + 2)) as [L|L]; [lia|].
    destruct (tags_bytes_head (el_tags l) et) as (tl & Etl).
    assert (EW : W bs 12 = first_et (el_tags l) et).
    { apply (W_be16 bs (el_macs l) _ (tl ++ body)).
      - apply first_et_lt; assumption.
      - rewrite E', Etl, <- app_assoc. reflexivity.
      - symmetry. exact Hmac. }
    rewrite EW.
    rewrite (wire_ether_tags et bs body Hv Hm He (el_tags l) 3 _ (el_macs l) Hn Ht E').
    unfold add_exts. cbn [v_link v_exts v_net v_transport app]. f_equal. lia.
  - exact (wire_vids_tags et bs body (el_tags l) (el_macs l) Ht E').
Qed.

(* ---- the IPv4 frame of a fragment is, by the wire formats, exactly that fragment ---- *)
Theorem frame_v4_wire l h f c : link_ok l -> v4_ok h -> fits_v4 f -> is_fragmenting f = true ->
  wire_frag_of EEthernet (frame_v4 l h f) c =
    Some (mkWireFrag (id_v4 l h c) (f_fo f) (f_mf f)
            (len (link_bytes l 2048) + 20, len (f_data f)) true).
Proof.
  intros Hl Hh Hf Hfr. set (bs := frame_v4 l h f).
  assert (E : bs = link_bytes l 2048 ++ v4_header h f ++ f_data f) by reflexivity.
  destruct (wire_ethernet_link l 2048 (v4_header h f ++ f_data f) bs Hl eq_refl) as (Ew & Ev);
    [discriminate|reflexivity|exact E|].
  pose proof (v4_facts (link_bytes l 2048) h f bs Hh Hf E) as Fx. cbv zeta in Fx.
  destruct Fx as (Hlen & B0 & W2 & W4 & B6 & W6 & B9 & Fmf & Ffo & Fs & Fd & Fdata).
  set (q := len (link_bytes l 2048)) in *.
  pose proof Hf as (Hfo & Hfit & Hdok). pose proof Hh as (_ & _ & _ & Hp51 & _).
  assert (Hfrag : ipv4_fragmented bs q = true).
  { unfold ipv4_fragmented. rewrite B6, W6, flags_fo_byte, flags_fo_fo by exact Hfo. exact Hfr. }
  unfold wire_frag_of, wire_with. rewrite Ew. unfold wire_net.
  change (2048 =? 2054) with false. change (2048 =? 2048) with true. cbv iota.
  rewrite (wire_ipv4_eval bs _ q (len bs) (v4_proto h) (20 + len (f_data f)) B0 W2); try assumption; try lia.
  unfold wire_key. cbn [with_net v_net v_exts fst]. rewrite Fmf, Ffo.
  unfold fragmenting. unfold is_fragmenting in Hfr. rewrite Hfr. rewrite Ev, Fs, Fd, W4.
  cbn [vip_number vip_win]. unfold id_v4. f_equal. f_equal. f_equal. lia.
Qed.



(* ---------------------------------------------------------------- *)

Lemma B_be16_lo bs pre v post p : bs = pre ++ to_be16 v ++ post -> p = len pre + 1 -> B bs p = v mod 256.
Proof.
  intros E Hp. unfold to_be16 in E. cbn [app] in E.
  apply (B_at bs (pre ++ [(v / 256) mod 256]) _ post p).
  - rewrite E, <- app_assoc. reflexivity.
  - rewrite len_app, Hp. reflexivity.
Qed.

Lemma be_num_be32 v : v < 4294967296 -> be_num (to_be32 v) = v.
Proof.
  intros H. unfold to_be32. rewrite <- be32_num. exact (BitFields.Proofs.be32_bytes v H).
Qed.

Definition v6_ffo (h : v6_fields) (f : frag) : N := f_fo f * 8 + v6_res2 h * 2 + (if f_mf f then 1 else 0).

Lemma v6_ffo_lt h f : f_fo f < 8192 -> v6_res2 h < 4 -> v6_ffo h f < 65536.
Proof. unfold v6_ffo. destruct (f_mf f); lia. Qed.
Lemma v6_ffo_mf h f : v6_res2 h < 4 -> (v6_ffo h f mod 2 =? 1) = f_mf f.
Proof.
  unfold v6_ffo. intros H. destruct (f_mf f); apply Bool.eq_true_iff_eq; rewrite N.eqb_eq;
    split; intros; try discriminate; try reflexivity; dmlia.
Qed.
Lemma v6_ffo_fo h f : f_fo f < 8192 -> v6_res2 h < 4 -> v6_ffo h f / 8 = f_fo f.
Proof. unfold v6_ffo. intros H1 H2. destruct (f_mf f); dmlia. Qed.
Lemma v6_ffo_lo h f : v6_res2 h < 4 -> negb ((v6_ffo h f mod 256) mod 2 =? 0) = f_mf f.
Proof.
  unfold v6_ffo. intros H. destruct (f_mf f); cbn [negb]; apply Bool.eq_true_iff_eq;
    rewrite Bool.negb_true_iff, N.eqb_neq; split; intros; try discriminate; try reflexivity; dmlia.
Qed.

Lemma len_v6_header h f : v6_ok h -> len (v6_header h f) = 48.
Proof.
  intros (_ & _ & _ & _ & _ & _ & _ & _ & _ & Hs & _ & Hd & _). unfold v6_header.
  rewrite !len_app, Hs, Hd. reflexivity.
Qed.

Ltac v6_split E := rewrite E; unfold v6_header; rewrite <- ?app_assoc; reflexivity.

Lemma v6_facts pre h f bs : v6_ok h -> fits_v6 f -> bs = pre ++ v6_header h f ++ f_data f ->
  len bs = len pre + 48 + len (f_data f) /\
  B bs (len pre) = 96 + v6_tc h / 16 /\
  W bs (len pre + 4) = 8 + len (f_data f) /\
  B bs (len pre + 6) = 44 /\
  bytes_at bs (len pre + 8) 16 = v6_src h /\
  bytes_at bs (len pre + 24) 16 = v6_dst h /\
  B bs (len pre + 40) = v6_next h /\
  B bs (len pre + 40 + 3) = v6_ffo h f mod 256 /\
  W bs (len pre + 40 + 2) = v6_ffo h f /\
  flag bs (len pre + 40 + 2) 2 15 = f_mf f /\
  bits bs (len pre + 40 + 2) 2 0 13 = f_fo f /\
  num_at bs (len pre + 40 + 4) 4 = v6_ident h /\
  bytes_n bs (len pre + 48) (len (f_data f)) = f_data f.
Proof.
  intros Hh (Hfo & Hfit & Hdok) E. pose proof Hh as Hh0.
  destruct Hh as (Htc & Hfl & Hhop & Hnx & _ & _ & _ & _ & _ & Hs & Hsb & Hd & Hdb & Hid & Hr1 & Hr2).
  pose proof (v6_ffo_lt h f Hfo Hr2) as Hffo.
  set (T0 := [96 + v6_tc h / 16; v6_tc h mod 16 * 16 + v6_flow h / 65536; (v6_flow h / 256) mod 256; v6_flow h mod 256]).
  assert (HT0 : len T0 = 4) by reflexivity.
  assert (Hs' : length (v6_src h) = 16%nat) by (unfold len in Hs; lia).
  assert (Hd' : length (v6_dst h) = 16%nat) by (unfold len in Hd; lia).
  repeat match goal with |- _ /\ _ => split end.
  - rewrite E, !len_app, (len_v6_header h f); [lia|exact Hh0].
  - eapply B_at; [rewrite E; unfold v6_header; cbn [app]; reflexivity|reflexivity].
  - eapply (W_be16 bs (pre ++ T0)); [lia|v6_split E|rewrite ?len_app, ?len_to_be16, ?HT0, ?Hs, ?Hd; unfold len; cbn [length]; lia].
  - eapply (B_at bs (pre ++ T0 ++ to_be16 (8 + len (f_data f)))); [v6_split E|rewrite ?len_app, ?len_to_be16, ?HT0, ?Hs, ?Hd; unfold len; cbn [length]; lia].
  - eapply (bytes_at_at' bs (v6_src h) (pre ++ T0 ++ to_be16 (8 + len (f_data f)) ++ [44; v6_hop h]));
      [v6_split E|rewrite ?len_app, ?len_to_be16, ?HT0, ?Hs, ?Hd; unfold len; cbn [length]; lia|lia].
  - eapply (bytes_at_at' bs (v6_dst h) (pre ++ T0 ++ to_be16 (8 + len (f_data f)) ++ [44; v6_hop h] ++ v6_src h));
      [v6_split E| |lia].
    rewrite ?len_app, ?len_to_be16, ?HT0, ?Hs, ?Hd; unfold len; cbn [length]; lia.
  - eapply (B_at bs (pre ++ T0 ++ to_be16 (8 + len (f_data f)) ++ [44; v6_hop h] ++ v6_src h ++ v6_dst h));
      [v6_split E|]. rewrite ?len_app, ?len_to_be16, ?HT0, ?Hs, ?Hd; unfold len; cbn [length]; lia.
  - eapply (B_be16_lo bs (pre ++ T0 ++ to_be16 (8 + len (f_data f)) ++ [44; v6_hop h] ++ v6_src h ++ v6_dst h ++
                           [v6_next h; v6_res1 h])); [v6_split E|].
    rewrite ?len_app, ?len_to_be16, ?HT0, ?Hs, ?Hd; unfold len; cbn [length]; lia.
  - eapply (W_be16 bs (pre ++ T0 ++ to_be16 (8 + len (f_data f)) ++ [44; v6_hop h] ++ v6_src h ++ v6_dst h ++
                           [v6_next h; v6_res1 h])); [exact Hffo|v6_split E|].
    rewrite ?len_app, ?len_to_be16, ?HT0, ?Hs, ?Hd; unfold len; cbn [length]; lia.
  - unfold flag.
    rewrite (bits_be16 bs (pre ++ T0 ++ to_be16 (8 + len (f_data f)) ++ [44; v6_hop h] ++ v6_src h ++ v6_dst h ++
                           [v6_next h; v6_res1 h]) (v6_ffo h f) (to_be32 (v6_ident h) ++ f_data f) _ 15 1 0);
      [|v6_split E| |reflexivity].
    + change (2 ^ N.of_nat 0) with 1. change (2 ^ N.of_nat 1) with 2. rewrite N.div_1_r. exact (v6_ffo_mf h f Hr2).
    + rewrite ?len_app, ?len_to_be16, ?HT0, ?Hs, ?Hd; unfold len; cbn [length]; lia.
  - rewrite (bits_be16 bs (pre ++ T0 ++ to_be16 (8 + len (f_data f)) ++ [44; v6_hop h] ++ v6_src h ++ v6_dst h ++
                           [v6_next h; v6_res1 h]) (v6_ffo h f) (to_be32 (v6_ident h) ++ f_data f) _ 0 13 3);
      [|v6_split E| |reflexivity].
    + change (2 ^ N.of_nat 3) with 8. change (2 ^ N.of_nat 13) with 8192. rewrite (v6_ffo_fo h f Hfo Hr2).
      apply N.mod_small. exact Hfo.
    + rewrite ?len_app, ?len_to_be16, ?HT0, ?Hs, ?Hd; unfold len; cbn [length]; lia.
  - unfold num_at.
    rewrite (bytes_at_at' bs (to_be32 (v6_ident h))
               (pre ++ T0 ++ to_be16 (8 + len (f_data f)) ++ [44; v6_hop h] ++ v6_src h ++ v6_dst h ++
                  [v6_next h; v6_res1 h] ++ to_be16 (v6_ffo h f)) (f_data f)); [exact (be_num_be32 _ Hid)|v6_split E| |reflexivity].
    rewrite ?len_app, ?len_to_be16, ?HT0, ?Hs, ?Hd; unfold len; cbn [length]; lia.
  - eapply (bytes_n_at bs (f_data f) (pre ++ v6_header h f) []).
    + rewrite app_nil_r, <- app_assoc. exact E.
    + rewrite len_app, (len_v6_header h f); [lia|exact Hh0].
Qed.

Lemma wire_ipv6_eval bs p pos lim next plen :
  B bs pos / 16 = 6 -> W bs (pos + 4) = plen -> 8 <= plen -> pos + 40 + plen = lim ->
  B bs (pos + 6) = 44 -> B bs (pos + 40) = next ->
  next <> 0 -> next <> 43 -> next <> 44 -> next <> 51 -> next <> 60 ->
  negb (B bs (pos + 40 + 3) mod 2 =? 0) || negb (W bs (pos + 40 + 2) / 8 =? 0) = true ->
  wire_ipv6 bs p LsSlice pos lim =
    VOk (with_net p (VIpv6 (pos, 40) (Some 44) true (pos + 40, pos + 40 + 8 - (pos + 40))
           (mkVIp next true LsIpv6HeaderPayloadLen (pos + 40 + 8, pos + 40 + plen - (pos + 40 + 8))))).
Proof.
  intros E0 E4 Hpl Hlim E6 E40 N0 N43 N44 N51 N60 Hfr.
  unfold wire_ipv6. cbv zeta. rewrite E0. change (6 =? 6) with true. cbn [negb].
  destruct (N.ltb_spec (lim - pos) 40) as [L|L]; [lia|].
  unfold wire_ipv6_body. cbv zeta. rewrite E4.
  destruct (N.eqb_spec plen 0) as [Z|Z]; [lia|]. cbn [andb].
  destruct (N.ltb_spec (lim - pos) (40 + plen)) as [L1|L1]; [lia|].
  unfold wire_ipv6_tail, wire_exts. rewrite E6. change (44 =? 0) with false. cbv iota.
  cbn [wire_chain]. change (44 =? 0) with false. change ((44 =? 60) || (44 =? 43)) with false.
  change (44 =? 44) with true. cbv iota. cbv zeta.
  destruct (N.ltb_spec (pos + 40 + plen - (pos + 40)) 8) as [L2|L2]; [lia|].
  rewrite Hfr, E40. cbn [orb].
  destruct (N.to_nat (pos + 40 + plen - (pos + 40))) as [|n] eqn:En; [lia|].
  cbn [wire_chain].
  apply N.eqb_neq in N0, N43, N44, N51, N60. rewrite N0, N43, N44, N51, N60. cbn [orb]. cbv iota.
  destruct (N.eqb_spec (pos + 40 + 8) (pos + 40)) as [Q|Q]; [lia|].
  unfold wire_transport. reflexivity.
Qed.

Theorem frame_v6_wire l h f c : link_ok l -> v6_ok h -> fits_v6 f -> is_fragmenting f = true ->
  wire_frag_of EEthernet (frame_v6 l h f) c =
    Some (mkWireFrag (id_v6 l h c) (f_fo f) (f_mf f)
            (len (link_bytes l 34525) + 48, len (f_data f)) false).
Proof.
  intros Hl Hh Hf Hfr. set (bs := frame_v6 l h f).
  assert (E : bs = link_bytes l 34525 ++ v6_header h f ++ f_data f) by reflexivity.
  destruct (wire_ethernet_link l 34525 (v6_header h f ++ f_data f) bs Hl eq_refl) as (Ew & Ev);
    [discriminate|reflexivity|exact E|].
  pose proof (v6_facts (link_bytes l 34525) h f bs Hh Hf E) as Fx.
  destruct Fx as (Hlen & B0 & W4 & B6 & Fs & Fd & B40 & B43 & W42 & Fmf & Ffo & Fid & Fdata).
  set (q := len (link_bytes l 34525)) in *.
  pose proof Hf as (Hfo & Hfit & Hdok).
  pose proof Hh as (Htc & _ & _ & _ & N0 & N43 & N44 & N51 & N60 & _ & _ & _ & _ & _ & _ & Hr2).
  assert (Hfrag : negb (B bs (q + 40 + 3) mod 2 =? 0) || negb (W bs (q + 40 + 2) / 8 =? 0) = true).
  { rewrite B43, W42, (v6_ffo_lo h f Hr2), (v6_ffo_fo h f Hfo Hr2). exact Hfr. }
  unfold wire_frag_of, wire_with. rewrite Ew. unfold wire_net.
  change (34525 =? 2054) with false. change (34525 =? 2048) with false. change (34525 =? 34525) with true. cbv iota.
  rewrite (wire_ipv6_eval bs _ q (len bs) (v6_next h) (8 + len (f_data f))); try assumption; try lia.
  unfold wire_key. cbn [with_net v_net v_exts fst snd frag_pos].
  destruct (N.leb_spec (q + 40 + (q + 40 + 8 - (q + 40))) (q + 40)) as [L|L]; [lia|].
  rewrite B6. change ((44 =? 0) || (44 =? 43) || (44 =? 60)) with false. change (44 =? 44) with true. cbv iota.
  rewrite Fmf, Ffo. unfold fragmenting. unfold is_fragmenting in Hfr. rewrite Hfr. rewrite Ev, Fs, Fd, Fid.
  cbn [vip_number vip_win]. unfold id_v6. f_equal. f_equal. f_equal; lia.
Qed.

(* ---------------------------------------------------------------- *)

(* ---- the frames are byte strings ---- *)
Ltac bok := repeat match goal with |- bytes_ok (_ ++ _) => apply bytes_ok_app; split end.
Ltac bok_list := unfold bytes_ok; repeat (apply Forall_cons || apply Forall_nil); unfold byte_ok.
Lemma frame_v4_ok l h f : link_ok l -> v4_ok h -> fits_v4 f -> bytes_ok (frame_v4 l h f).
Proof.
  intros Hl (Htos & Httl & Hpr & _ & _ & _ & Hsb & _ & Hdb & _) (_ & _ & Hd).
  unfold frame_v4, v4_header.
  bok; try apply to_be16_ok; try assumption; try (apply link_bytes_ok; exact Hl); bok_list; lia.
Qed.

Lemma to_be32_ok v : bytes_ok (to_be32 v).
Proof. unfold to_be32. repeat constructor; unfold byte_ok; apply N.mod_lt; discriminate. Qed.

Lemma frame_v6_ok l h f : link_ok l -> v6_ok h -> fits_v6 f -> bytes_ok (frame_v6 l h f).
Proof.
  intros Hl (Htc & Hfl & Hhop & Hnx & _ & _ & _ & _ & _ & _ & Hsb & _ & Hdb & _ & Hr1 & _) (_ & _ & Hd).
  unfold frame_v6, v6_header.
  bok; try apply to_be16_ok; try apply to_be32_ok; try assumption;
    try (apply link_bytes_ok; exact Hl); bok_list; try lia; dmlia.
Qed.

(* ---- the frame decodes to (id, fragment) ---- *)
Theorem frame_v4_decodes l h f c : link_ok l -> v4_ok h -> fits_v4 f -> is_fragmenting f = true ->
  exists w, wire_frag_of EEthernet (frame_v4 l h f) c = Some w /\
    wf_id w = id_v4 l h c /\ wf_v4 w = true /\ frag_of_wire (frame_v4 l h f) w = f.
Proof.
  intros Hl Hh Hf Hfr. eexists. split; [exact (frame_v4_wire l h f c Hl Hh Hf Hfr)|].
  split; [reflexivity|]. split; [reflexivity|]. unfold frag_of_wire. cbn [wf_fo wf_mf wf_win fst snd].
  pose proof (v4_facts (link_bytes l 2048) h f (frame_v4 l h f) Hh Hf eq_refl) as Fx. cbv zeta in Fx.
  destruct Fx as (_ & _ & _ & _ & _ & _ & _ & _ & _ & _ & _ & Fdata). rewrite Fdata. destruct f; reflexivity.
Qed.

Theorem frame_v6_decodes l h f c : link_ok l -> v6_ok h -> fits_v6 f -> is_fragmenting f = true ->
  exists w, wire_frag_of EEthernet (frame_v6 l h f) c = Some w /\
    wf_id w = id_v6 l h c /\ wf_v4 w = false /\ frag_of_wire (frame_v6 l h f) w = f.
Proof.
  intros Hl Hh Hf Hfr. eexists. split; [exact (frame_v6_wire l h f c Hl Hh Hf Hfr)|].
  split; [reflexivity|]. split; [reflexivity|]. unfold frag_of_wire. cbn [wf_fo wf_mf wf_win fst snd].
  pose proof (v6_facts (link_bytes l 34525) h f (frame_v6 l h f) Hh Hf eq_refl) as Fx.
  destruct Fx as (_ & _ & _ & _ & _ & _ & _ & _ & _ & _ & _ & _ & Fdata). rewrite Fdata. destruct f; reflexivity.
Qed.

(* ... and so does the crate's model: slicer, key extraction, pool packet *)
Theorem frame_v4_model l h f c : link_ok l -> v4_ok h -> fits_v4 f -> is_fragmenting f = true ->
  exists p k, slice_with EEthernet (frame_v4 l h f) = Ok p /\ frag_key_of p c = Ok (Some k) /\
    pkt_of_key k = mkPkt (encode_id (id_v4 l h c)) true (v4_proto h) f /\
    forall pl ts, process_sliced_packet pl p ts c =
                  Ok (process pl (mkPkt (encode_id (id_v4 l h c)) true (v4_proto h) f) ts).
Proof.
  intros Hl Hh Hf Hfr. destruct (frame_v4_decodes l h f c Hl Hh Hf Hfr) as (w & Ew & Eid & Ev4 & Efr).
  pose proof (packet_key EEthernet (frame_v4 l h f) c (frame_v4_ok l h f Hl Hh Hf)) as K.
  destruct (slice_with EEthernet (frame_v4 l h f)) as [p|err|b]; [|rewrite Ew in K; discriminate|contradiction].
  destruct K as (_ & ok & Ek & Eo & Hk). rewrite Ew in Eo. destruct ok as [k|]; [|discriminate].
  injection Eo as Eo. destruct (Hk k eq_refl) as (H1 & H2 & H3 & _).
  assert (Ep : pkt_of_key k = mkPkt (encode_id (id_v4 l h c)) true (v4_proto h) f).
  { rewrite Eo, Efr in H1. destruct (pkt_of_key k) as [kid kv4 kipn kfr] eqn:Epk. cbn [k_frag k_ipn k_v4] in *.
    assert (kid = encode_id (fk_id k)) by (unfold pkt_of_key in Epk; injection Epk; intros; subst; reflexivity).
    subst kid kfr kipn kv4. rewrite <- Eo in Eid. cbn [key_view wf_id] in Eid. rewrite Eid. reflexivity. }
  exists p, k. split; [reflexivity|]. split; [exact Ek|]. split; [exact Ep|].
  intros pl ts. unfold process_sliced_packet. rewrite Ek. cbn [bind]. rewrite Ep. reflexivity.
Qed.

(* ---- schedules ---- *)
Lemma fid_neq a b : a <> b -> fid_eqb (encode_id a) (encode_id b) = false.
Proof.
  intros H. destruct (fid_eqb (encode_id a) (encode_id b)) eqn:E; [|reflexivity].
  apply fid_eqb_encode in E. contradiction.
Qed.
Lemma fid_refl a : fid_eqb (encode_id a) (encode_id a) = true.
Proof. apply fid_eqb_encode. reflexivity. Qed.

Lemma wire_for_realize i pieces : Forall (fun f => is_fragmenting f = true) pieces ->
  forall s, Forall (sched_ok i pieces) s ->
  wire_for i (realize pieces s) = map (fun jt => (piece pieces (fst jt), snd jt)) (sched_js s) /\
  Forall op_bytes_ok (realize pieces s) /\
  Forall (fun jt => (fst jt < length pieces)%nat) (sched_js s).
Proof.
  intros Hfr. induction s as [|it s IH]; intros F; [repeat split; constructor|].
  apply Forall_cons_iff in F. destruct F as (Hit & Fr). destruct (IH Fr) as (IH1 & IH2 & IH3).
  assert (Hp : forall j, (j < length pieces)%nat -> is_fragmenting (piece pieces j) = true).
  { intros j Hj. rewrite Forall_forall in Hfr. apply Hfr. apply nth_In. exact Hj. }
  destruct it as [l h c j ts|l h c j ts|o]; cbn [realize map realize1 sched_js wire_for sched_ok] in *.
  - destruct Hit as (Hl & Hh & Hid & Hj & Hfit).
    destruct (frame_v4_decodes l h _ c Hl Hh Hfit (Hp j Hj)) as (w & Ew & Eid & _ & Efr).
    rewrite Ew, Eid, Hid, fid_refl, Efr. repeat split.
    + cbn [fst snd]. f_equal. exact IH1.
    + constructor; [exact (frame_v4_ok l h _ Hl Hh Hfit)|exact IH2].
    + constructor; [exact Hj|exact IH3].
  - destruct Hit as (Hl & Hh & Hid & Hj & Hfit).
    destruct (frame_v6_decodes l h _ c Hl Hh Hfit (Hp j Hj)) as (w & Ew & Eid & _ & Efr).
    rewrite Ew, Eid, Hid, fid_refl, Efr. repeat split.
    + cbn [fst snd]. f_equal. exact IH1.
    + constructor; [exact (frame_v6_ok l h _ Hl Hh Hfit)|exact IH2].
    + constructor; [exact Hj|exact IH3].
  - destruct Hit as (Hok & Hfo). repeat split; [|constructor; assumption|exact IH3].
    destruct o as [e bs ts chan|payload]; cbn [wire_for]; [|exact IH1].
    destruct (wire_frag_of e bs chan) as [w|] eqn:Ew; [|exact IH1].
    rewrite (fid_neq _ _ (Hfo w eq_refl)). exact IH1.
Qed.

Lemma cut_fragmenting P : forall sizes fo, 0 < fo + sumN sizes ->
  Forall (fun f => is_fragmenting f = true) (cut_at P fo sizes).
Proof.
  induction sizes as [|n r IH]; intros fo H; cbn [cut_at sumN] in *.
  - constructor; [|constructor]. unfold is_fragmenting. cbn [f_mf f_fo orb].
    destruct (N.eqb_spec fo 0); [lia|reflexivity].
  - constructor; [reflexivity|]. apply IH. lia.
Qed.

Module DPx := Defrag.Proofs.

(* ---- the frames of a cut reassemble ---- *)
Theorem cut_frames_reassemble P sizes i s pl js0 jl tl :
  len P <= 65535 -> sumN sizes * 8 <= len P -> 0 < sumN sizes ->
  Forall (sched_ok i (cut_at P 0 sizes)) s ->
  DPx.view (encode_id i) pl = None ->
  sched_js s = js0 ++ [(jl, tl)] ->
  (forall k, (k <= length js0)%nat ->
     ~ Covered P (map (piece (cut_at P 0 sizes)) (firstn k (map fst js0)))) ->
  Covered P (map (piece (cut_at P 0 sizes)) (map fst js0 ++ [jl])) ->
  exists tr, pk_trace pl (realize (cut_at P 0 sizes) s) = Ok tr /\
    answers_for (encode_id i) tr =
      map (fun _ => PNone) js0 ++ [PDone (fi_ipn i) (id_is_v4 (fi_ip i)) (map Some P)].
Proof.
  intros HP Hsum Hpos Hs Hv Hjs Hnc Hc. set (pieces := cut_at P 0 sizes) in *.
  assert (Hfr : Forall (fun f => is_fragmenting f = true) pieces) by (apply cut_fragmenting; lia).
  destruct (wire_for_realize i pieces Hfr s Hs) as (Ew & Hok & Hrange).
  assert (Hfo : Forall (frag_of P) pieces) by (apply DPx.cut_frag_of; lia).
  assert (Hpf : forall j, (j < length pieces)%nat -> frag_of P (piece pieces j)).
  { intros j Hj. rewrite Forall_forall in Hfo. apply Hfo. apply nth_In. exact Hj. }
  rewrite Hjs in Ew, Hrange. rewrite map_app in Ew. cbn [map fst snd] in Ew.
  apply Forall_app in Hrange. destruct Hrange as (Hr0 & Hrl).
  apply Forall_cons_iff in Hrl. destruct Hrl as (Hrl & _). cbn [fst] in Hrl.
  set (ks := map (fun jt : nat * N => (piece pieces (fst jt), snd jt)) js0) in *.
  assert (Eks : map fst ks = map (piece pieces) (map fst js0)).
  { unfold ks. rewrite !map_map. reflexivity. }
  destruct (packets_complete P i (realize pieces s) pl ks (piece pieces jl) tl HP Hok Hv Ew) as (tr & Et & Ea).
  - intros g Hg. rewrite Eks in Hg. apply in_map_iff in Hg. destruct Hg as (j & <- & Hj).
    apply Hpf. apply in_map_iff in Hj. destruct Hj as (jt & <- & Hjt).
    rewrite Forall_forall in Hr0. exact (Hr0 jt Hjt).
  - exact (Hpf jl Hrl).
  - intros k Hk. rewrite Eks, firstn_map. apply Hnc. unfold ks in Hk. rewrite map_length in Hk. exact Hk.
  - rewrite Eks. rewrite map_app in Hc. exact Hc.
  - exists tr. split; [exact Et|]. rewrite Ea. unfold ks. rewrite map_map. reflexivity.
Qed.

(* ---- a decidable sufficient condition for `foreign` (used by the examples) ---- *)
Definition foreignb (i : frag_id) (o : pk_op) : bool :=
  match o with
  | KPacket e bs ts chan =>
      bytes_okb bs &&
      match wire_frag_of e bs chan with
      | Some w => negb (fid_eqb (encode_id (wf_id w)) (encode_id i))
      | None => true
      end
  | KReturn _ => true
  end.

Lemma foreignb_spec i o : foreignb i o = true -> foreign i o.
Proof.
  destruct o as [e bs ts chan|payload]; cbn [foreignb foreign op_bytes_ok]; [|split; exact I].
  intros H. apply andb_prop in H. destruct H as (H1 & H2). split; [apply bytes_okb_spec; exact H1|].
  intros w Ew Eq. rewrite Ew, Eq, fid_refl in H2. discriminate.
Qed.

(* ---------------------------------------------------------------- *)

(* ---- F. the pieces of a cut by index ---- *)
Lemma sumN_firstn_S l : forall j, sumN (firstn (S j) l) = sumN (firstn j l) + nth j l 0.
Proof.
  induction l as [|x l IH]; intros j.
  - rewrite !firstn_nil. destruct j; reflexivity.
  - destruct j as [|j].
    + cbn [firstn sumN nth]. lia.
    + change (firstn (S (S j)) (x :: l)) with (x :: firstn (S j) l).
      change (firstn (S j) (x :: l)) with (x :: firstn j l). cbn [sumN nth]. rewrite IH. lia.
Qed.

Lemma sumN_firstn_mono l j j' : (j <= j')%nat -> sumN (firstn j l) <= sumN (firstn j' l).
Proof. intros H. induction H; [lia|]. rewrite sumN_firstn_S. lia. Qed.

Lemma sumN_firstn_le l j : sumN (firstn j l) <= sumN l.
Proof.
  destruct (Nat.le_ge_cases j (length l)) as [H|H].
  - rewrite <- (firstn_all l) at 2. apply sumN_firstn_mono. exact H.
  - rewrite firstn_all2 by exact H. lia.
Qed.

Lemma length_cut P : forall sizes fo, length (cut_at P fo sizes) = S (length sizes).
Proof. induction sizes as [|n r IH]; intros fo; cbn [cut_at length]; [reflexivity|]. rewrite IH. reflexivity. Qed.

Lemma nth_cut P : forall sizes fo j, (j <= length sizes)%nat -> (fo + sumN sizes) * 8 <= len P ->
  f_fo (nth j (cut_at P fo sizes) no_frag) = fo + sumN (firstn j sizes) /\
  ((j < length sizes)%nat -> f_mf (nth j (cut_at P fo sizes) no_frag) = true /\
                            len (f_data (nth j (cut_at P fo sizes) no_frag)) = nth j sizes 0 * 8) /\
  ((j = length sizes)%nat -> f_mf (nth j (cut_at P fo sizes) no_frag) = false).
Proof.
  induction sizes as [|n r IH]; intros fo j Hj Hb; cbn [cut_at].
  - cbn [length] in Hj. assert (j = 0%nat) by lia. subst j. cbn [nth firstn sumN f_fo f_mf length].
    split; [lia|]. split; [intros H; lia|reflexivity].
  - destruct j as [|j]; cbn [nth].
    + cbn [firstn sumN f_fo f_mf f_data length]. split; [lia|]. split.
      * intros _. split; [reflexivity|]. rewrite len_take, len_drop. cbn [sumN] in Hb. lia.
      * intros H. discriminate.
    + cbn [length] in Hj. cbn [sumN] in Hb. destruct (IH (fo + n) j) as (I1 & I2 & I3); [lia|lia|].
      cbn [firstn sumN length]. split; [rewrite I1; lia|]. split.
      * intros H. apply I2. lia.
      * intros H. apply I3. lia.
Qed.

Lemma in_firstn {A} (x : A) k l : In x (firstn k l) -> In x l.
Proof. intros H. rewrite <- (firstn_skipn k l). apply in_or_app. left. exact H. Qed.

(* index form: the deliveries of datagram i are ANY list over the piece indices 0 .. length sizes
   (any order, any repetitions) in which the last delivered index jl is the only one that was
   missing *)
Theorem cut_frames_any_order P sizes i s pl js0 jl tl :
  len P <= 65535 -> sumN sizes * 8 <= len P -> sizes <> [] -> Forall (fun n => 0 < n) sizes ->
  Forall (sched_ok i (cut_at P 0 sizes)) s ->
  DPx.view (encode_id i) pl = None ->
  sched_js s = js0 ++ [(jl, tl)] ->
  ~ In jl (map fst js0) ->
  (forall j, (j <= length sizes)%nat -> In j (map fst js0 ++ [jl])) ->
  exists tr, pk_trace pl (realize (cut_at P 0 sizes) s) = Ok tr /\
    answers_for (encode_id i) tr =
      map (fun _ => PNone) js0 ++ [PDone (fi_ipn i) (id_is_v4 (fi_ip i)) (map Some P)].
Proof.
  intros HP Hsum Hne Hpos Hs Hv Hjs Hnew Hall.
  assert (Hsp : 0 < sumN sizes).
  { destruct sizes as [|n r]; [contradiction|]. apply Forall_cons_iff in Hpos. cbn [sumN]. lia. }
  set (pieces := cut_at P 0 sizes) in *.
  assert (Hfr : Forall (fun f => is_fragmenting f = true) pieces) by (apply cut_fragmenting; lia).
  destruct (wire_for_realize i pieces Hfr s Hs) as (_ & _ & Hrange).
  rewrite Hjs in Hrange. apply Forall_app in Hrange. destruct Hrange as (Hr0 & Hrl).
  apply Forall_cons_iff in Hrl. destruct Hrl as (Hrl & _). cbn [fst] in Hrl.
  unfold pieces in Hr0, Hrl. rewrite length_cut in Hrl.
  assert (Hr0' : forall j, In j (map fst js0) -> (j <= length sizes)%nat).
  { intros j Hj. apply in_map_iff in Hj. destruct Hj as (jt & <- & Hjt). rewrite Forall_forall in Hr0.
    specialize (Hr0 jt Hjt). cbn beta in Hr0. rewrite length_cut in Hr0. lia. }
  assert (Hb : (0 + sumN sizes) * 8 <= len P) by lia.
  apply (cut_frames_reassemble P sizes i s pl js0 jl tl HP Hsum Hsp Hs Hv Hjs).
  - (* no prefix covers P: piece jl is missing *)
    intros k Hk ((g & Hg & Hgm) & Hc).
    assert (Hsub : forall j, In j (firstn k (map fst js0)) -> (j <= length sizes)%nat /\ j <> jl).
    { intros j Hj. apply in_firstn in Hj. split; [exact (Hr0' j Hj)|]. intros ->. contradiction. }
    destruct (Nat.eq_dec jl (length sizes)) as [El|El].
    + apply in_map_iff in Hg. destruct Hg as (j & <- & Hj). destruct (Hsub j Hj) as (Hj1 & Hj2).
      destruct (nth_cut P sizes 0 j Hj1 Hb) as (_ & Hm & _). unfold piece in Hgm.
      destruct Hm as (Hm & _); [lia|]. rewrite Hm in Hgm. discriminate.
    + assert (Hjl : (jl < length sizes)%nat) by lia.
      destruct (nth_cut P sizes 0 jl ltac:(lia) Hb) as (Ofo & Om & _). destruct (Om Hjl) as (_ & Olen).
      assert (Hnz : 0 < nth jl sizes 0).
      { rewrite Forall_forall in Hpos. apply Hpos. apply nth_In. exact Hjl. }
      pose proof (sumN_firstn_S sizes jl) as HS. pose proof (sumN_firstn_le sizes (S jl)) as HL.
      destruct (Hc (f_off (piece (cut_at P 0 sizes) jl))) as (f & Hf & Hlo & Hhi).
      { unfold f_off, piece. rewrite Ofo. lia. }
      apply in_map_iff in Hf. destruct Hf as (j & <- & Hj). destruct (Hsub j Hj) as (Hj1 & Hj2).
      destruct (nth_cut P sizes 0 j Hj1 Hb) as (Jfo & Jm & _).
      unfold f_endp, f_off, piece in Hlo, Hhi. rewrite Ofo, Jfo in *.
      destruct (Nat.lt_ge_cases j jl) as [Lt|Ge].
      * destruct Jm as (_ & Jlen); [lia|]. rewrite Jlen in Hhi.
        pose proof (sumN_firstn_S sizes j) as HSj.
        pose proof (sumN_firstn_mono sizes (S j) jl ltac:(lia)). lia.
      * pose proof (sumN_firstn_mono sizes (S jl) j ltac:(lia)). lia.
  - (* all indices delivered: the cut covers P *)
    destruct (DPx.cut_covers P sizes 0 Hb) as ((g & Hg & Hgm) & Hc).
    assert (Hin : forall f, In f (cut_at P 0 sizes) ->
                   In f (map (piece (cut_at P 0 sizes)) (map fst js0 ++ [jl]))).
    { intros f Hf. destruct (In_nth _ _ no_frag Hf) as (j & Hj & Ej). rewrite length_cut in Hj.
      rewrite <- Ej. apply (in_map (piece (cut_at P 0 sizes))). apply Hall. lia. }
    split.
    + exists g. split; [exact (Hin g Hg)|exact Hgm].
    + intros x Hx. destruct (Hc x) as (f & Hf & Hr); [lia|]. exists f. split; [exact (Hin f Hf)|exact Hr].
Qed.
