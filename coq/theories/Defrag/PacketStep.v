(* Defrag/PacketStep.v -- the step  packet -> (stream id, offset, more-fragments flag,
   payload, protocol)  of `IpDefragPool::process_sliced_packet`
   (etherparse/src/defrag/ip_defrag_pool.rs, the `match &slice.net` at the start of the
   function), of `IpFragId` / `IpFragVersionSpecId` (defrag/ip_frag_id.rs,
   defrag/ip_frag_version_spec_id.rs) and of `SlicedPacket::vlan_ids` (sliced_packet.rs),
   transliterated over the model of `SlicedPacket` (Parse/Cursor.v `sliced_packet`) with the
   accessor models of Parse/Access.v.

   Model : `frag_key_of`, `process_sliced_packet` (= extraction, then Defrag/Model.v `process`),
           `encode_id` (the structured id as one of the abstract ids `fid = list N` of
           Defrag/Spec.v), packet histories `pk_op / pk_trace`.
   Spec  : `wire_key bs v chan` -- the same data read off the WIRE: from the layers / windows of
           the reference decoder (Parse/WireSpec.v, Parse/View.v) and the RFC fields at their
           absolute positions (Parse/Fields.v `bits`, `flag`, `bytes_at`, `num_at`, `B`, `W`):
           RFC 791 identification / flags / fragment offset / addresses, RFC 8200 addresses and
           section 4.5 fragment header (found by walking the extension header chain, `frag_pos`),
           IEEE 802.1Q VID.
   No proofs here (Defrag/PacketStepProofs.v). *)
From EP Require Import Base.Bytes Defrag.Spec Defrag.Model.
From EP Require Import Parse.Types Parse.Slices Parse.Cursor Parse.View Parse.WireSpec
  Parse.Access Parse.Fields.

Local Open Scope N_scope.

(* ============================================================================
   MODEL
   ============================================================================ *)

(* ---- ip_frag_version_spec_id.rs: enum IpFragVersionSpecId -------------------
   Ipv4 { source: [u8;4], destination: [u8;4], identification: u16 }
   Ipv6 { source: [u8;16], destination: [u8;16], identification: u32 }
   #[derive(Hash, Eq, PartialEq)]: equality is structural, i.e. Coq's `=`. *)
Inductive ip_spec_id :=
| IdV4 (source destination : bytes) (identification : N)
| IdV6 (source destination : bytes) (identification : N).

(* ---- ip_frag_id.rs: struct IpFragId<CustomChannelId> ------------------------
   vlan_ids: ArrayVec<VlanId, 3>, ip: IpFragVersionSpecId, payload_ip_number: IpNumber,
   channel_id: CustomChannelId (a number here; the harness instantiates u32).
   #[derive(Hash, Eq, PartialEq)]: structural equality. *)
Record frag_id := mkFragId {
  fi_vlans : list N;
  fi_ip : ip_spec_id;
  fi_ipn : N;
  fi_chan : N
}.

Definition id_is_v4 (i : ip_spec_id) : bool := match i with IdV4 _ _ _ => true | IdV6 _ _ _ => false end.
Definition id_src (i : ip_spec_id) : bytes := match i with IdV4 s _ _ | IdV6 s _ _ => s end.
Definition id_dst (i : ip_spec_id) : bytes := match i with IdV4 _ d _ | IdV6 _ d _ => d end.
Definition id_ident (i : ip_spec_id) : N := match i with IdV4 _ _ n | IdV6 _ _ n => n end.

(* ---- SlicedPacket::vlan_ids -------------------------------------------------
   for e in &self.link_exts { if let LinkExtSlice::Vlan(s) = e { result.push_unchecked(s.vlan_identifier()) } }
   push_unchecked on a full ArrayVec<_, 3> is undefined behaviour: Bug SITE_PUSH. *)
Fixpoint vlan_ids_loop (xs : list link_ext_slice) (acc : list N) : res (list N) :=
  match xs with
  | [] => Ok acc
  | LeVlan s :: r =>
      let* v := SingleVlanA.vlan_identifier s in
      if len acc <? LINK_EXTS_CAP then vlan_ids_loop r (acc ++ [v]) else Bug SITE_PUSH
  | LeMacsec _ :: r => vlan_ids_loop r acc
  end.
Definition vlan_ids (p : sliced_packet) : res (list N) := vlan_ids_loop (sp_exts p) [].

(* ---- the IPv6 arm: `for ext in ipv6.extensions().clone().into_iter() { if let Fragment(frag_it) = ext
   { f = Some(frag_it); break; } }` -- the first fragment header the iterator yields; fuel as in
   Ipv6ExtIterA.items (one call of next per 8 bytes at most, plus the last) *)
Fixpoint find_frag (fuel : nat) (it : ext_iter) : res (option slice) :=
  match fuel with
  | O => Bug SITE_FUEL
  | S f =>
      let* o := Ipv6ExtIterA.next it in
      match o with
      | None => Ok None
      | Some (XFragment s, _) => Ok (Some s)
      | Some (_, it') => find_frag f it'
      end
  end.
Definition first_frag (x : ipv6_exts_slice) : res (option slice) :=
  find_frag (S (length (snd (x6_slice x)))) (Ipv6ExtIterA.into_iter x).

(* what the `match &slice.net` hands to the rest of the function:
   (frag_id, offset, more_fragments, payload, is_ipv4) *)
Record frag_key := mkFragKey {
  fk_id : frag_id;
  fk_fo : N;                 (* IpFragOffset: units of 8 octets *)
  fk_mf : bool;
  fk_payload : ip_payload;   (* IpPayloadSlice: ip_number, fragmented, len_source, payload *)
  fk_v4 : bool
}.

(* `None` = one of the `return Ok(None)` ("nothing to defragment here, skip packet") *)
Definition frag_key_of (p : sliced_packet) (chan : N) : res (option frag_key) :=
  match sp_net p with
  | Some (NtIpv4 v) =>
      let header := v4_header v in
      let* fr := Ipv4HeaderA.is_fragmenting_payload header in
      if negb fr then Ok None
      else
        let* vl := vlan_ids p in
        let* src := Ipv4HeaderA.source header in
        let* dst := Ipv4HeaderA.destination header in
        let* ident := Ipv4HeaderA.identification header in
        let* fo := Ipv4HeaderA.fragments_offset header in
        let* mf := Ipv4HeaderA.more_fragments header in
        Ok (Some (mkFragKey (mkFragId vl (IdV4 src dst ident) (ipp_number (v4_payload v)) chan)
                    fo mf (v4_payload v) true))
  | Some (NtIpv6 v) =>
      let* f := first_frag (v6_exts v) in
      match f with
      | Some f =>
          let* fr := Ipv6FragmentHeaderA.is_fragmenting_payload f in
          if fr then
            let* hd := Ipv6FragmentHeaderA.to_header f in
            let '(_, fragment_offset, more_fragments, identification) := hd in
            let* vl := vlan_ids p in
            let* src := Ipv6HeaderA.source (v6_header v) in
            let* dst := Ipv6HeaderA.destination (v6_header v) in
            Ok (Some (mkFragKey (mkFragId vl (IdV6 src dst identification) (ipp_number (v6_payload v)) chan)
                        fragment_offset more_fragments (v6_payload v) false))
          else Ok None
      | None => Ok None
      end
  | Some (NtArp _) | None => Ok None
  end.

(* ---- the structured id as an abstract stream id of Defrag/Spec.v ---------------
   every variable-length component carries its length, so the encoding is injective
   (PacketStepProofs.encode_id_inj) *)
Definition encode_ip (i : ip_spec_id) : list N :=
  (if id_is_v4 i then 4 else 6) :: len (id_src i) :: id_src i ++ len (id_dst i) :: id_dst i ++ [id_ident i].
Definition encode_id (i : frag_id) : fid :=
  len (fi_vlans i) :: fi_vlans i ++ encode_ip (fi_ip i) ++ [fi_ipn i; fi_chan i].

(* the packet as the pool model of Defrag/Model.v sees it: buf.add(offset, more_fragments,
   payload.payload), IpDefragBuf::new(payload.ip_number, ..), IpDefragPayloadVec { ip_number:
   payload.ip_number, len_source: if is_ipv4 .. } *)
Definition pkt_of_key (k : frag_key) : pkt :=
  mkPkt (encode_id (fk_id k)) (fk_v4 k) (ipp_number (fk_payload k))
        (mkFrag (fk_fo k) (fk_mf k) (snd (ipp_slice (fk_payload k)))).

(* IpDefragPool::process_sliced_packet, whole *)
Definition process_sliced_packet (pl : pool) (p : sliced_packet) (ts chan : N) : res (pres * pool) :=
  let* k := frag_key_of p chan in
  match k with
  | None => Ok (PNone, pl)
  | Some k => Ok (process pl (pkt_of_key k) ts)
  end.

(* ---- histories of PACKETS ---------------------------------------------------------
   A received frame is sliced with one of the four entry points of SlicedPacket; when the
   slicer rejects it there is nothing to hand to the pool. *)
Inductive entry := EEthernet | ELinuxSll | EEtherType (et : N) | EIp.

Definition slice_with (e : entry) (bs : bytes) : res sliced_packet :=
  match e with
  | EEthernet => SlicedPacket.from_ethernet bs
  | ELinuxSll => SlicedPacket.from_linux_sll bs
  | EEtherType et => SlicedPacket.from_ether_type et bs
  | EIp => SlicedPacket.from_ip bs
  end.

Inductive pk_op :=
| KPacket (e : entry) (bs : bytes) (ts chan : N)
| KReturn (payload : list (option byte)).

(* one answer per operation, tagged with the stream id the crate computed (None: the packet
   was not handed to a reassembly buffer / a buffer return) *)
Definition pk_step (pl : pool) (o : pk_op) : res ((option fid * pres) * pool) :=
  match o with
  | KPacket e bs ts chan =>
      match slice_with e bs with
      | Ok p =>
          let* k := frag_key_of p chan in
          match k with
          | None => Ok ((None, PNone), pl)
          | Some k => let '(r, pl') := process pl (pkt_of_key k) ts in
                      Ok ((Some (encode_id (fk_id k)), r), pl')
          end
      | Err _ => Ok ((None, PNone), pl)
      | Bug s => Bug s
      end
  | KReturn payload => Ok ((None, PNone), return_buf pl payload)
  end.

Fixpoint pk_trace (pl : pool) (ops : list pk_op) : res (list (option fid * pres)) :=
  match ops with
  | [] => Ok []
  | o :: r =>
      let* s := pk_step pl o in
      let* t := pk_trace (snd s) r in
      Ok (fst s :: t)
  end.

Definition answers_for (id : fid) (tr : list (option fid * pres)) : list pres :=
  map snd (filter (fun r => match fst r with Some i => fid_eqb i id | None => false end) tr).

(* ============================================================================
   SPECIFICATION: the same data read off the wire
   ============================================================================ *)
Record wire_frag := mkWireFrag {
  wf_id : frag_id;
  wf_fo : N;
  wf_mf : bool;
  wf_win : window;    (* absolute position and length of the fragment's data *)
  wf_v4 : bool
}.

(* RFC 791 / RFC 8200 4.5: a packet is a fragment when M is set or the offset is not 0 *)
Definition fragmenting (mf : bool) (fo : N) : bool := mf || negb (fo =? 0).

Section WireKey.
  Variable bs : bytes.
  Local Notation B := (WireSpec.B bs).
  Local Notation W := (WireSpec.W bs).

  (* IEEE 802.1Q: the 12 VID bits of the TCI of every VLAN tag, outermost first
     (MACsec SecTAGs between them carry no VLAN id) *)
  Definition wire_vid (x : vlink_ext) : list N :=
    match x with
    | VVlan w => [bits bs (fst w) 2 4 12]
    | VMacsec _ _ => []
    end.
  Definition wire_vids (xs : list vlink_ext) : list N := flat_map wire_vid xs.

  (* RFC 8200 section 4: position of the first fragment header (next header value 44) in the
     extension header chain inside [pos, lim); every header names the kind of the one behind
     it; hop-by-hop / routing / destination options: (len+1)*8 octets, AH: (len+2)*4 *)
  Fixpoint frag_pos (fuel : nat) (nh pos lim : N) : option N :=
    match fuel with
    | O => None
    | S f =>
        if lim <=? pos then None
        else if (nh =? 0) || (nh =? 43) || (nh =? 60) then
          frag_pos f (B pos) (pos + (B (pos + 1) + 1) * 8) lim
        else if nh =? 44 then Some pos
        else if nh =? 51 then frag_pos f (B pos) (pos + (B (pos + 1) + 2) * 4) lim
        else None
    end.

  Definition wire_key (v : vpacket) (chan : N) : option wire_frag :=
    match v_net v with
    | Some (VIpv4 h _ pl) =>
        let q := fst h in
        let mf := flag bs (q + 6) 2 2 in              (* RFC 791: flags bit 2 = MF *)
        let fo := bits bs (q + 6) 2 3 13 in           (* fragment offset, 13 bits *)
        if fragmenting mf fo then
          Some (mkWireFrag
                  (mkFragId (wire_vids (v_exts v))
                     (IdV4 (bytes_at bs (q + 12) 4)   (* source address: octets 12..16 *)
                           (bytes_at bs (q + 16) 4)   (* destination address: octets 16..20 *)
                           (W (q + 4)))               (* identification: octets 4..6 *)
                     (vip_number pl) chan)
                  fo mf (vip_win pl) true)
        else None
    | Some (VIpv6 h _ _ x pl) =>
        match frag_pos (S (N.to_nat (snd x))) (B (fst h + 6)) (fst x) (fst x + snd x) with
        | Some q =>
            let mf := flag bs (q + 2) 2 15 in         (* RFC 8200 4.5: M = last bit of octets 2..4 *)
            let fo := bits bs (q + 2) 2 0 13 in       (* fragment offset: first 13 bits *)
            if fragmenting mf fo then
              Some (mkWireFrag
                      (mkFragId (wire_vids (v_exts v))
                         (IdV6 (bytes_at bs (fst h + 8) 16)    (* source address: octets 8..24 *)
                               (bytes_at bs (fst h + 24) 16)   (* destination address: octets 24..40 *)
                               (num_at bs (q + 4) 4))          (* identification: octets 4..8 of the fragment header *)
                         (vip_number pl) chan)
                      fo mf (vip_win pl) false)
            else None
        | None => None
        end
    | Some (VArp _) | None => None
    end.

  (* the fragment of Defrag/Spec.v a wire fragment denotes: the octets of its window *)
  Definition frag_of_wire (w : wire_frag) : frag :=
    mkFrag (wf_fo w) (wf_mf w) (bytes_n bs (fst (wf_win w)) (snd (wf_win w))).
End WireKey.

(* the reference decoder for an entry point *)
Definition wire_with (e : entry) (bs : bytes) : vres :=
  match e with
  | EEthernet => wire_ethernet bs
  | ELinuxSll => wire_linux_sll bs
  | EEtherType et => wire_ether_type bs et
  | EIp => wire_from_ip bs
  end.

(* a received frame as a fragment, by the wire formats alone *)
Definition wire_frag_of (e : entry) (bs : bytes) (chan : N) : option wire_frag :=
  match wire_with e bs with
  | VOk v => wire_key bs v chan
  | _ => None
  end.

(* the deliveries of one datagram id in a packet history, in order: (fragment, timestamp) *)
Fixpoint wire_for (i : frag_id) (ops : list pk_op) : list (frag * N) :=
  match ops with
  | [] => []
  | KPacket e bs ts chan :: r =>
      match wire_frag_of e bs chan with
      | Some w => if fid_eqb (encode_id (wf_id w)) (encode_id i)
                  then (frag_of_wire bs w, ts) :: wire_for i r else wire_for i r
      | None => wire_for i r
      end
  | KReturn _ :: r => wire_for i r
  end.

Definition op_bytes_ok (o : pk_op) : Prop :=
  match o with KPacket _ bs _ _ => bytes_ok bs | KReturn _ => True end.
