(* Defrag/CutFrames.v -- the FRAMES of a fragmented datagram, built from the wire formats
   (IEEE 802.3 Ethernet II, IEEE 802.1Q tags, RFC 791 IPv4 header, RFC 8200 IPv6 header +
   section 4.5 fragment header), independent of the crate and of the reference decoder:
   plain byte lists, big-endian fields written with `to_be16` / `to_be32`.

     frame_v4 l h f  =  MACs ++ [TPID, TCI]* ++ 0x0800 ++ IPv4 header (IHL 5, total length,
                        identification, DF / MF / fragment offset of f) ++ data of f
     frame_v6 l h f  =  MACs ++ [TPID, TCI]* ++ 0x86DD ++ IPv6 header (payload length, next
                        header 44) ++ fragment header (next header, offset / M of f,
                        identification) ++ data of f

   `f` is a fragment of Defrag/Spec.v (offset field, more-fragments flag, data); the frames of a
   cut of P are `frame_v4 l h (nth j (cut_at P 0 sizes))`.  Schedules (`sched_item`) describe a
   history of received frames: frames of the observed datagram (each with ITS OWN link part and
   header fields -- only the key fields are shared) interleaved with arbitrary other operations.
   No proofs here (Defrag/CutFramesProofs.v). *)
From Coq Require Import List.
From EP Require Import Base.Bytes Defrag.Spec Defrag.Model.
From EP Require Import Defrag.PacketStep.
Import ListNotations.
Local Open Scope N_scope.

(* ---- link part: destination + source MAC (12 octets), then 0..3 IEEE 802.1Q tags
   (TPID 0x8100 / 0x88A8 / 0x9100, TCI = PCP 3 | DEI 1 | VID 12), then the ether type ---- *)
Record eth_link := mkEthLink { el_macs : bytes; el_tags : list (N * N) }.

Fixpoint tags_bytes (tags : list (N * N)) (et : N) : bytes :=
  match tags with
  | [] => to_be16 et
  | t :: r => to_be16 (fst t) ++ to_be16 (snd t) ++ tags_bytes r et
  end.

Definition link_bytes (l : eth_link) (et : N) : bytes := el_macs l ++ tags_bytes (el_tags l) et.

Definition tag_ok (t : N * N) : Prop :=
  (fst t = 33024 \/ fst t = 34984 \/ fst t = 37120) /\ snd t < 65536.

Definition link_ok (l : eth_link) : Prop :=
  len (el_macs l) = 12 /\ bytes_ok (el_macs l) /\ (length (el_tags l) <= 3)%nat /\
  Forall tag_ok (el_tags l).

(* the VLAN ids of the frame: the low 12 bits of every TCI, outermost first *)
Definition link_vids (l : eth_link) : list N := map (fun t => snd t mod 4096) (el_tags l).

(* ---- RFC 791 header without options; every field free except version / IHL ---- *)
Record v4_fields := mkV4F {
  v4_tos : N; v4_df : bool; v4_ttl : N; v4_proto : N; v4_cksum : N;
  v4_src : bytes; v4_dst : bytes; v4_ident : N }.

Definition v4_ok (h : v4_fields) : Prop :=
  v4_tos h < 256 /\ v4_ttl h < 256 /\ v4_proto h < 256 /\ v4_proto h <> 51 /\ v4_cksum h < 65536 /\
  len (v4_src h) = 4 /\ bytes_ok (v4_src h) /\ len (v4_dst h) = 4 /\ bytes_ok (v4_dst h) /\
  v4_ident h < 65536.

(* octets 6..8: reserved 0, DF, MF, 13 bit fragment offset *)
Definition v4_flags_fo (df mf : bool) (fo : N) : N :=
  (if df then 16384 else 0) + (if mf then 8192 else 0) + fo.

Definition v4_header (h : v4_fields) (f : frag) : bytes :=
  [69; v4_tos h] ++ to_be16 (20 + len (f_data f)) ++ to_be16 (v4_ident h) ++
  to_be16 (v4_flags_fo (v4_df h) (f_mf f) (f_fo f)) ++ [v4_ttl h; v4_proto h] ++
  to_be16 (v4_cksum h) ++ v4_src h ++ v4_dst h.

Definition frame_v4 (l : eth_link) (h : v4_fields) (f : frag) : bytes :=
  link_bytes l 2048 ++ v4_header h f ++ f_data f.

(* the fragment fits an IPv4 packet with a 20 octet header *)
Definition fits_v4 (f : frag) : Prop :=
  f_fo f < 8192 /\ 20 + len (f_data f) <= 65535 /\ bytes_ok (f_data f).

(* the IpFragId the crate is expected to compute for such a frame received on channel c *)
Definition id_v4 (l : eth_link) (h : v4_fields) (c : N) : frag_id :=
  mkFragId (link_vids l) (IdV4 (v4_src h) (v4_dst h) (v4_ident h)) (v4_proto h) c.

(* ---- RFC 8200 header + fragment header (section 4.5) directly behind it ---- *)
Record v6_fields := mkV6F {
  v6_tc : N; v6_flow : N; v6_hop : N; v6_next : N;      (* v6_next: next header of the fragment header *)
  v6_src : bytes; v6_dst : bytes; v6_ident : N;
  v6_res1 : N; v6_res2 : N }.                            (* the reserved octet and the 2 reserved bits *)

Definition v6_ok (h : v6_fields) : Prop :=
  v6_tc h < 256 /\ v6_flow h < 1048576 /\ v6_hop h < 256 /\ v6_next h < 256 /\
  v6_next h <> 0 /\ v6_next h <> 43 /\ v6_next h <> 44 /\ v6_next h <> 51 /\ v6_next h <> 60 /\
  len (v6_src h) = 16 /\ bytes_ok (v6_src h) /\ len (v6_dst h) = 16 /\ bytes_ok (v6_dst h) /\
  v6_ident h < 4294967296 /\ v6_res1 h < 256 /\ v6_res2 h < 4.

Definition v6_header (h : v6_fields) (f : frag) : bytes :=
  (* version 6 (4 bits), traffic class (8), flow label (20) *)
  [96 + v6_tc h / 16; (v6_tc h mod 16) * 16 + v6_flow h / 65536; (v6_flow h / 256) mod 256;
   v6_flow h mod 256] ++ to_be16 (8 + len (f_data f)) ++
  [44; v6_hop h] ++ v6_src h ++ v6_dst h ++
  [v6_next h; v6_res1 h] ++ to_be16 (f_fo f * 8 + v6_res2 h * 2 + (if f_mf f then 1 else 0)) ++
  to_be32 (v6_ident h).

Definition frame_v6 (l : eth_link) (h : v6_fields) (f : frag) : bytes :=
  link_bytes l 34525 ++ v6_header h f ++ f_data f.

Definition fits_v6 (f : frag) : Prop :=
  f_fo f < 8192 /\ 8 + len (f_data f) <= 65535 /\ bytes_ok (f_data f).

Definition id_v6 (l : eth_link) (h : v6_fields) (c : N) : frag_id :=
  mkFragId (link_vids l) (IdV6 (v6_src h) (v6_dst h) (v6_ident h)) (v6_next h) c.

(* ---- schedules: a history of received frames in which the frames of ONE datagram are named ----
   SFrame4 l h c j ts : the j-th piece, sent as an IPv4 frame with link part l and header fields h,
                        received on channel c at time ts
   SFrame6 ...        : the same as an IPv6 frame
   SOther o           : any other operation (frames of other datagrams, unfragmented packets,
                        garbage, buffer returns) *)
Inductive sched_item :=
| SFrame4 (l : eth_link) (h : v4_fields) (c : N) (j : nat) (ts : N)
| SFrame6 (l : eth_link) (h : v6_fields) (c : N) (j : nat) (ts : N)
| SOther (o : pk_op).

Definition no_frag : frag := mkFrag 0 false [].
Definition piece (pieces : list frag) (j : nat) : frag := nth j pieces no_frag.

Definition realize1 (pieces : list frag) (s : sched_item) : pk_op :=
  match s with
  | SFrame4 l h c j ts => KPacket EEthernet (frame_v4 l h (piece pieces j)) ts c
  | SFrame6 l h c j ts => KPacket EEthernet (frame_v6 l h (piece pieces j)) ts c
  | SOther o => o
  end.
Definition realize (pieces : list frag) (s : list sched_item) : list pk_op := map (realize1 pieces) s.

(* the deliveries of the observed datagram: piece index and time, in order of arrival *)
Fixpoint sched_js (s : list sched_item) : list (nat * N) :=
  match s with
  | [] => []
  | SFrame4 _ _ _ j ts :: r => (j, ts) :: sched_js r
  | SFrame6 _ _ _ j ts :: r => (j, ts) :: sched_js r
  | SOther _ :: r => sched_js r
  end.

(* an operation that is no fragment of datagram i (by the wire formats alone) *)
Definition foreign (i : frag_id) (o : pk_op) : Prop :=
  op_bytes_ok o /\
  match o with
  | KPacket e bs ts chan => forall w, wire_frag_of e bs chan = Some w -> wf_id w <> i
  | KReturn _ => True
  end.

(* the schedule is about datagram i cut into `pieces` *)
Definition sched_ok (i : frag_id) (pieces : list frag) (s : sched_item) : Prop :=
  match s with
  | SFrame4 l h c j ts =>
      link_ok l /\ v4_ok h /\ id_v4 l h c = i /\ (j < length pieces)%nat /\ fits_v4 (piece pieces j)
  | SFrame6 l h c j ts =>
      link_ok l /\ v6_ok h /\ id_v6 l h c = i /\ (j < length pieces)%nat /\ fits_v6 (piece pieces j)
  | SOther o => foreign i o
  end.
