(* Defrag/PoolProofs.v -- lemmas about the pool's bookkeeping (release of
   streams, recycling of buffers, retain) over histories of any length. *)
From EP Require Import Base.Bytes Defrag.Spec Defrag.Model Defrag.Proofs Defrag.PoolModel.
Local Open Scope N_scope.

(* ---------- association lists with one entry per key ---------- *)
Section AssocND.
  Context {V : Type}.
  Implicit Types (l : list (fid * V)).

  Lemma alookup_None_notin k l : alookup k l = None <-> ~ In k (map fst l).
  Proof.
    induction l as [|[k' v] l IH]; cbn [alookup map fst In]; [tauto|].
    destruct (fid_eqb k k') eqn:E.
    - apply fid_eqb_eq in E. subst k'. split; [discriminate|]. intros H. exfalso. apply H. left. reflexivity.
    - rewrite IH. split.
      + intros H [Q|Q]; [subst k'; rewrite fid_eqb_refl in E; discriminate|tauto].
      + tauto.
  Qed.

  Lemma aremove_notin k l : alookup k l = None -> aremove k l = l.
  Proof.
    induction l as [|[k' v] l IH]; cbn [alookup aremove]; [reflexivity|].
    destruct (fid_eqb k k'); [discriminate|]. intros H. rewrite (IH H). reflexivity.
  Qed.

  Lemma keys_aremove k k' l : In k' (map fst (aremove k l)) -> In k' (map fst l) /\ k' <> k.
  Proof.
    induction l as [|[k2 v] l IH]; cbn [aremove map fst In]; [tauto|].
    destruct (fid_eqb k k2) eqn:E.
    - intros H. destruct (IH H). tauto.
    - cbn [map fst In]. intros [Q|Q].
      + subst k2. split; [left; reflexivity|]. intros Q. subst k'. rewrite fid_eqb_refl in E. discriminate.
      + destruct (IH Q). tauto.
  Qed.

  Lemma NoDup_aremove k l : NoDup (map fst l) -> NoDup (map fst (aremove k l)).
  Proof.
    induction l as [|[k2 v] l IH]; cbn [aremove map fst]; [auto|].
    intros H. inversion H as [|x xs Hn Hd]; subst.
    destruct (fid_eqb k k2); [auto|]. cbn [map fst]. constructor; [|auto].
    intros Q. apply keys_aremove in Q. tauto.
  Qed.

  Lemma len_aremove k v l : NoDup (map fst l) -> alookup k l = Some v -> len (aremove k l) + 1 = len l.
  Proof.
    induction l as [|[k2 v2] l IH]; cbn [aremove alookup map fst]; [discriminate|].
    intros H. inversion H as [|x xs Hn Hd]; subst.
    destruct (fid_eqb k k2) eqn:E.
    - intros _. apply fid_eqb_eq in E. subst k2.
      rewrite aremove_notin by (apply alookup_None_notin; exact Hn). rewrite len_cons. lia.
    - intros Hl. rewrite !len_cons. specialize (IH Hd Hl). lia.
  Qed.

  Lemma keys_aset k v k' l : In k' (map fst (aset k v l)) -> k' = k \/ In k' (map fst l).
  Proof.
    induction l as [|[k2 v2] l IH]; cbn [aset map fst In].
    - intros [Q|[]]. left. congruence.
    - destruct (fid_eqb k k2) eqn:E; cbn [map fst In].
      + intros [Q|Q]; [left; congruence|]. apply keys_aremove in Q. tauto.
      + intros [Q|Q]; [tauto|]. destruct (IH Q); tauto.
  Qed.

  Lemma NoDup_aset k v l : NoDup (map fst l) -> NoDup (map fst (aset k v l)).
  Proof.
    induction l as [|[k2 v2] l IH]; cbn [aset map fst].
    - intros _. constructor; [intros []|constructor].
    - intros H. inversion H as [|x xs Hn Hd]; subst.
      destruct (fid_eqb k k2) eqn:E; cbn [map fst].
      + constructor; [|apply NoDup_aremove; exact Hd].
        intros Q. apply keys_aremove in Q. tauto.
      + constructor; [|auto]. intros Q. apply keys_aset in Q. destruct Q as [Q|Q]; [|tauto].
        subst k2. rewrite fid_eqb_refl in E. discriminate.
  Qed.

  Lemma len_aset_new k v l : alookup k l = None -> len (aset k v l) = len l + 1.
  Proof.
    induction l as [|[k2 v2] l IH]; cbn [aset alookup]; [reflexivity|].
    destruct (fid_eqb k k2); [discriminate|]. intros H. rewrite !len_cons, (IH H). lia.
  Qed.

  Lemma len_aset_old k v v0 l : NoDup (map fst l) -> alookup k l = Some v0 -> len (aset k v l) = len l.
  Proof.
    induction l as [|[k2 v2] l IH]; cbn [aset alookup map fst]; [discriminate|].
    intros H. inversion H as [|x xs Hn Hd]; subst.
    destruct (fid_eqb k k2) eqn:E.
    - intros _. apply fid_eqb_eq in E. subst k2.
      rewrite aremove_notin by (apply alookup_None_notin; exact Hn). rewrite !len_cons. reflexivity.
    - intros Hl. rewrite !len_cons, (IH Hd Hl). reflexivity.
  Qed.

  Lemma keys_filter (g : fid * V -> bool) l k : In k (map fst (filter g l)) -> In k (map fst l).
  Proof.
    intros H. apply in_map_iff in H. destruct H as (e & He & Hin). apply filter_In in Hin.
    apply in_map_iff. exists e. tauto.
  Qed.

  Lemma NoDup_filter (g : fid * V -> bool) l : NoDup (map fst l) -> NoDup (map fst (filter g l)).
  Proof.
    induction l as [|[k2 v2] l IH]; cbn [filter map fst]; [auto|].
    intros H. inversion H as [|x xs Hn Hd]; subst.
    destruct (g (k2, v2)); [|auto]. cbn [map fst]. constructor; [|auto].
    intros Q. apply keys_filter in Q. tauto.
  Qed.

  Lemma alookup_filter (g : fid * V -> bool) l k : NoDup (map fst l) ->
    alookup k (filter g l) =
      match alookup k l with Some v => if g (k, v) then Some v else None | None => None end.
  Proof.
    induction l as [|[k2 v2] l IH]; cbn [filter alookup map fst]; [reflexivity|].
    intros H. inversion H as [|x xs Hn Hd]; subst. specialize (IH Hd).
    destruct (fid_eqb k k2) eqn:E.
    - apply fid_eqb_eq in E. subst k2. destruct (g (k, v2)); cbn [alookup].
      + rewrite fid_eqb_refl. reflexivity.
      + rewrite IH. apply alookup_None_notin in Hn. rewrite Hn. reflexivity.
    - destruct (g (k2, v2)); cbn [alookup]; [rewrite E|]; exact IH.
  Qed.

  Lemma len_filter_split (g : fid * V -> bool) l :
    len (filter g l) + len (filter (fun e => negb (g e)) l) = len l.
  Proof.
    induction l as [|e l IH]; cbn [filter]; [reflexivity|].
    destruct (g e); cbn [negb]; rewrite !len_cons; lia.
  Qed.
End AssocND.

Lemma len_map {A B} (f : A -> B) l : len (map f l) = len l.
Proof. unfold len. rewrite map_length. reflexivity. Qed.

Lemma is_nil_len {A} (l : list A) : is_nil l = true <-> len l = 0.
Proof. destruct l; cbn [is_nil]; [split; reflexivity|]. rewrite len_cons. split; [discriminate|lia]. Qed.

Lemma pop_len {A} (l : list (list A)) : len (snd (pop l)) = len l - 1.
Proof. destruct l; cbn [pop snd]; [reflexivity|]. rewrite len_cons. lia. Qed.

(* ---------- retain ---------- *)
Lemma retain_is_retain_f p c : retain p c = retain_f p (fun _ t => c <=? t).
Proof. reflexivity. Qed.

Lemma retain_f_view p f id : pool_wf p -> view id (retain_f p f) = retain_view id f (view id p).
Proof.
  intros W. unfold view, retain_f, retain_view. cbn [p_active].
  rewrite (alookup_filter (kept f) (p_active p) id W).
  destruct (alookup id (p_active p)) as [[b t]|]; reflexivity.
Qed.

Lemma retain_f_wf p f : pool_wf p -> pool_wf (retain_f p f).
Proof. intros W. unfold pool_wf, retain_f. cbn [p_active]. apply NoDup_filter. exact W. Qed.

Lemma retain_f_stats p f :
  len (p_active (retain_f p f)) + evicted p f = len (p_active p) /\
  len (p_fdata (retain_f p f)) = len (p_fdata p) + evicted p f /\
  len (p_fsec (retain_f p f)) = len (p_fsec p) + evicted p f.
Proof.
  unfold retain_f, evicted. cbn [p_active p_fdata p_fsec].
  rewrite !len_app, !len_map. pose proof (len_filter_split (kept f) (p_active p)). lia.
Qed.

(* the full statement about retain *)
Lemma retain_release p f : pool_wf p ->
  let p' := retain_f p f in
  pool_wf p' /\
  (forall id, view id p' = retain_view id f (view id p)) /\
  p_active p' = filter (kept f) (p_active p) /\
  p_fdata p' = map (fun e => b_data (fst (snd e))) (filter (fun e => negb (kept f e)) (p_active p)) ++ p_fdata p /\
  p_fsec p' = map (fun e => b_sections (fst (snd e))) (filter (fun e => negb (kept f e)) (p_active p)) ++ p_fsec p /\
  len (p_active p') + evicted p f = len (p_active p) /\
  len (p_fdata p') = len (p_fdata p) + evicted p f /\
  len (p_fsec p') = len (p_fsec p) + evicted p f.
Proof.
  intros W. cbv zeta. split; [apply retain_f_wf; exact W|].
  split; [intros id; apply retain_f_view; exact W|].
  split; [reflexivity|]. split; [reflexivity|]. split; [reflexivity|]. apply retain_f_stats.
Qed.

(* ---------- process: what moves where ---------- *)
Lemma process_wf p k ts : pool_wf p -> pool_wf (snd (process p k ts)).
Proof.
  intros W. unfold process, pool_wf in *.
  destruct (negb (is_fragmenting (k_frag k))); [exact W|].
  destruct (alookup (k_id k) (p_active p)) as [[b t]|].
  - destruct (add b (k_frag k)) as [b'|v|]; try exact W.
    destruct (is_complete b'); cbn [snd p_active]; [apply NoDup_aremove|apply NoDup_aset]; exact W.
  - destruct (pop (p_fdata p)) as [d fd]. destruct (pop (p_fsec p)) as [s fs].
    destruct (add (buf_new (k_ipn k) d s) (k_frag k)) as [b'|v|]; cbn [snd p_active]; try exact W.
    apply NoDup_aset. exact W.
Qed.

(* a delivery that returns a payload: Occupied entry, add succeeded and completed it; exactly
   that entry leaves `active`, its section vector goes to the free list, its data vector is the
   payload handed to the caller, the data free list is untouched *)
Lemma release_complete p k ts ipn v4 pl p' : pool_wf p -> process p k ts = (PDone ipn v4 pl, p') ->
  exists b t b',
    view (k_id k) p = Some (b, t) /\ add b (k_frag k) = AddOk b' /\ is_complete b' = true /\
    ipn = k_ipn k /\ v4 = k_v4 k /\ pl = b_data b' /\
    p_active p' = aremove (k_id k) (p_active p) /\
    view (k_id k) p' = None /\
    (forall id', id' <> k_id k -> view id' p' = view id' p) /\
    len (p_active p') + 1 = len (p_active p) /\
    p_fdata p' = p_fdata p /\
    p_fsec p' = b_sections b' :: p_fsec p.
Proof.
  intros W. unfold process, view.
  destruct (negb (is_fragmenting (k_frag k))); [discriminate|].
  destruct (alookup (k_id k) (p_active p)) as [[b t]|] eqn:El.
  - destruct (add b (k_frag k)) as [b'|v|] eqn:Ea; try discriminate.
    destruct (is_complete b') eqn:C; [|discriminate].
    intros H. inversion H; subst. exists b, t, b'. cbn [p_active p_fdata p_fsec].
    split; [reflexivity|]. split; [exact Ea|]. split; [exact C|].
    repeat (split; [reflexivity|]).
    split; [apply alookup_aremove_same|].
    split; [intros id' Hn; apply alookup_aremove_other; congruence|].
    split; [apply (len_aremove _ (b, t)); assumption|]. split; reflexivity.
  - destruct (pop (p_fdata p)) as [d fd]. destruct (pop (p_fsec p)) as [s fs].
    destruct (add (buf_new (k_ipn k) d s) (k_frag k)) as [b'|v|]; discriminate.
Qed.

(* a failing FIRST add: no entry is created and both vectors taken for it (popped or freshly
   allocated), cleared, are pushed to the free lists *)
Lemma release_first_err p k ts v p' : view (k_id k) p = None -> process p k ts = (PErr v, p') ->
  p_active p' = p_active p /\
  p_fdata p' = [] :: tl (p_fdata p) /\
  p_fsec p' = [] :: tl (p_fsec p) /\
  len (p_fdata p') = N.max 1 (len (p_fdata p)) /\
  len (p_fsec p') = N.max 1 (len (p_fsec p)).
Proof.
  unfold process, view. intros El.
  destruct (negb (is_fragmenting (k_frag k))); [discriminate|]. rewrite El.
  pose proof (add_never_panics (buf_new (k_ipn k) [] []) (k_frag k)) as NP.
  destruct (p_fdata p) as [|d0 fd0]; destruct (p_fsec p) as [|s0 fs0]; cbn [pop tl];
    match goal with |- context [add (buf_new ?i ?d ?s) _] => change (buf_new i d s) with (buf_new i [] []) end;
    destruct (add (buf_new (k_ipn k) [] []) (k_frag k)) as [b'|v'|]; try discriminate; try congruence;
    intros H; inversion H; subst; cbn [p_active p_fdata p_fsec buf_new b_data b_sections];
    rewrite ?len_cons, ?len_nil; repeat split; try reflexivity; lia.
Qed.

(* an error on an existing entry leaves the whole pool as it was *)
Lemma release_err_occupied p k ts v p' b t : view (k_id k) p = Some (b, t) ->
  process p k ts = (PErr v, p') -> p' = p.
Proof.
  unfold process, view. intros El.
  destruct (negb (is_fragmenting (k_frag k))); [discriminate|]. rewrite El.
  destruct (add b (k_frag k)) as [b'|v'|]; [destruct (is_complete b'); discriminate| |]; congruence.
Qed.

Lemma vacant_false_nf p k : is_fragmenting (k_frag k) = false -> vacant p k = false.
Proof. unfold vacant. intros H. rewrite H. reflexivity. Qed.

(* the three numbers after any delivery *)
Lemma process_stats p k ts : pool_wf p ->
  delivery_stats p k (fst (process p k ts)) (snd (process p k ts)).
Proof.
  intros W. unfold delivery_stats, stats, process, vacant.
  destruct (is_fragmenting (k_frag k)); cbn [negb andb fst snd]; [|auto].
  destruct (alookup (k_id k) (p_active p)) as [[b t]|] eqn:El; cbn [is_none].
  - destruct (add b (k_frag k)) as [b'|v|]; cbn [fst snd]; auto.
    destruct (is_complete b'); cbn [fst snd p_active p_fdata p_fsec].
    + split; [reflexivity|]. split; [apply (len_aremove _ (b, t)); assumption|].
      split; [reflexivity|]. rewrite len_cons. lia.
    + split; [apply (len_aset_old _ _ (b, t)); assumption|]. auto.
  - pose proof (pop_len (p_fdata p)) as Ld. pose proof (pop_len (p_fsec p)) as Ls.
    destruct (pop (p_fdata p)) as [d fd]. destruct (pop (p_fsec p)) as [s fs]. cbn [snd] in Ld, Ls.
    pose proof (add_never_panics (buf_new (k_ipn k) d s) (k_frag k)) as NP.
    destruct (add (buf_new (k_ipn k) d s) (k_frag k)) as [b'|v|]; [| |congruence];
      cbn [fst snd p_active p_fdata p_fsec].
    + split; [apply len_aset_new; exact El|]. split; assumption.
    + split; [reflexivity|]. rewrite !len_cons. lia.
Qed.

(* ---------- histories: well-formedness and the ledger ---------- *)
Lemma rstep_wf p o : pool_wf p -> pool_wf (snd (rstep p o)).
Proof.
  intros W. destruct o as [k ts|pl|f]; cbn [rstep].
  - pose proof (process_wf p k ts W) as H. destruct (process p k ts). exact H.
  - exact W.
  - apply retain_f_wf. exact W.
Qed.

Lemma rrun_wf : forall ops p, pool_wf p -> pool_wf (rrun p ops).
Proof.
  induction ops as [|o ops IH]; intros p W; [exact W|].
  unfold rrun. cbn [fold_left]. apply IH, rstep_wf, W.
Qed.

Lemma pool_new_wf : pool_wf pool_new.
Proof. constructor. Qed.

Lemma rstep_deliver_snd p k ts : snd (rstep p (RDeliver k ts)) = snd (process p k ts).
Proof. cbn [rstep]. destruct (process p k ts). reflexivity. Qed.

Lemma lstep_balanced p l o : pool_wf p -> balanced p l -> balanced (snd (rstep p o)) (lstep p l o).
Proof.
  intros W [B1 B2]. destruct o as [k ts|pl|f].
  - rewrite rstep_deliver_snd. pose proof (process_stats p k ts W) as S.
    unfold delivery_stats, stats in S. unfold balanced, lstep. cbn [l_held l_new_data l_new_sec l_foreign].
    pose proof (is_nil_len (p_fdata p)) as Nd. pose proof (is_nil_len (p_fsec p)) as Ns.
    destruct (fst (process p k ts)); cbn [is_done b2n].
    + destruct (vacant p k); cbn [andb].
      * destruct (is_nil (p_fdata p)), (is_nil (p_fsec p)); cbn [b2n];
          (assert (len (p_fdata p) = 0 \/ len (p_fdata p) <> 0) as Q1 by lia);
          try (assert (len (p_fdata p) = 0) by (apply Nd; reflexivity));
          try (assert (len (p_fsec p) = 0) by (apply Ns; reflexivity));
          try (assert (len (p_fdata p) <> 0) by (intros Q; apply Nd in Q; discriminate));
          try (assert (len (p_fsec p) <> 0) by (intros Q; apply Ns in Q; discriminate)); lia.
      * cbn [b2n]. lia.
    + destruct S as (V & S1 & S2 & S3). rewrite V. cbn [andb b2n]. lia.
    + destruct S as (S1 & S). destruct (vacant p k); cbn [andb].
      * destruct (is_nil (p_fdata p)), (is_nil (p_fsec p)); cbn [b2n];
          try (assert (len (p_fdata p) = 0) by (apply Nd; reflexivity));
          try (assert (len (p_fsec p) = 0) by (apply Ns; reflexivity));
          try (assert (len (p_fdata p) <> 0) by (intros Q; apply Nd in Q; discriminate));
          try (assert (len (p_fsec p) <> 0) by (intros Q; apply Ns in Q; discriminate)); lia.
      * cbn [b2n]. lia.
  - unfold balanced, lstep. cbn [rstep snd return_buf p_active p_fdata p_fsec].
    rewrite len_cons. destruct (N.eqb_spec (l_held l) 0) as [E|E];
      cbn [l_held l_new_data l_new_sec l_foreign]; lia.
  - unfold balanced, lstep. cbn [rstep snd]. pose proof (retain_f_stats p f). lia.
Qed.

Lemma lrun_balanced : forall ops p l, pool_wf p -> balanced p l ->
  pool_wf (fst (lrun p l ops)) /\ balanced (fst (lrun p l ops)) (snd (lrun p l ops)).
Proof.
  induction ops as [|o ops IH]; intros p l W B; cbn [lrun fst snd]; [auto|].
  apply IH; [apply rstep_wf; exact W|apply lstep_balanced; assumption].
Qed.

Lemma lrun_fst : forall ops p l, fst (lrun p l ops) = rrun p ops.
Proof.
  induction ops as [|o ops IH]; intros p l; cbn [lrun]; [reflexivity|].
  rewrite IH. unfold rrun. reflexivity.
Qed.

Lemma balanced0 : balanced pool_new ledger0.
Proof. split; reflexivity. Qed.

(* conservation for every history from the empty pool *)
Lemma conservation ops :
  pool_wf (rrun pool_new ops) /\ balanced (rrun pool_new ops) (snd (lrun pool_new ledger0 ops)).
Proof.
  destruct (lrun_balanced ops pool_new ledger0 pool_new_wf balanced0) as [W B].
  rewrite lrun_fst in W, B. auto.
Qed.

(* where new vectors come from: the pool allocates only on a Vacant entry whose free list is empty *)
Lemma alloc_only_when_empty p l o :
  (l_new_data (lstep p l o) <> l_new_data l ->
     exists k ts, o = RDeliver k ts /\ vacant p k = true /\ p_fdata p = [] /\
                  l_new_data (lstep p l o) = l_new_data l + 1) /\
  (l_new_sec (lstep p l o) <> l_new_sec l ->
     exists k ts, o = RDeliver k ts /\ vacant p k = true /\ p_fsec p = [] /\
                  l_new_sec (lstep p l o) = l_new_sec l + 1) /\
  (l_foreign (lstep p l o) <> l_foreign l ->
     exists pl, o = RReturn pl /\ l_held l = 0 /\ l_foreign (lstep p l o) = l_foreign l + 1).
Proof.
  destruct o as [k ts|pl|f]; cbn [lstep l_new_data l_new_sec l_foreign].
  - split; [|split]; [| |congruence]; intros H.
    + destruct (vacant p k) eqn:V; cbn [andb b2n] in *; [|lia].
      destruct (p_fdata p) eqn:L; cbn [is_nil b2n] in *; [|lia]. exists k, ts. repeat split; auto.
    + destruct (vacant p k) eqn:V; cbn [andb b2n] in *; [|lia].
      destruct (p_fsec p) eqn:L; cbn [is_nil b2n] in *; [|lia]. exists k, ts. repeat split; auto.
  - destruct (N.eqb_spec (l_held l) 0) as [E|E]; cbn [l_new_data l_new_sec l_foreign];
      split; [congruence| |congruence|]; split; try congruence.
    intros _. exists pl. auto.
  - split; [congruence|]. split; congruence.
Qed.

(* the number of vectors in existence changes exactly by the allocations *)
Lemma total_step p l o : pool_wf p ->
  total (snd (rstep p o)) (lstep p l o) + l_new_data l + l_new_sec l + l_foreign l =
  total p l + l_new_data (lstep p l o) + l_new_sec (lstep p l o) + l_foreign (lstep p l o).
Proof.
  intros W. unfold total. destruct o as [k ts|pl|f].
  - rewrite rstep_deliver_snd. pose proof (process_stats p k ts W) as S.
    unfold delivery_stats, stats in S. unfold lstep. cbn [l_held l_new_data l_new_sec l_foreign].
    pose proof (is_nil_len (p_fdata p)) as Nd. pose proof (is_nil_len (p_fsec p)) as Ns.
    destruct (fst (process p k ts)); cbn [is_done b2n].
    + destruct (vacant p k); cbn [andb].
      * destruct (is_nil (p_fdata p)), (is_nil (p_fsec p)); cbn [b2n];
          try (assert (len (p_fdata p) = 0) by (apply Nd; reflexivity));
          try (assert (len (p_fsec p) = 0) by (apply Ns; reflexivity));
          try (assert (len (p_fdata p) <> 0) by (intros Q; apply Nd in Q; discriminate));
          try (assert (len (p_fsec p) <> 0) by (intros Q; apply Ns in Q; discriminate)); lia.
      * cbn [b2n]. lia.
    + destruct S as (V & S1 & S2 & S3). rewrite V. cbn [andb b2n]. lia.
    + destruct S as (S1 & S). destruct (vacant p k); cbn [andb].
      * destruct (is_nil (p_fdata p)), (is_nil (p_fsec p)); cbn [b2n];
          try (assert (len (p_fdata p) = 0) by (apply Nd; reflexivity));
          try (assert (len (p_fsec p) = 0) by (apply Ns; reflexivity));
          try (assert (len (p_fdata p) <> 0) by (intros Q; apply Nd in Q; discriminate));
          try (assert (len (p_fsec p) <> 0) by (intros Q; apply Ns in Q; discriminate)); lia.
      * cbn [b2n]. lia.
  - unfold lstep. cbn [rstep snd return_buf p_active p_fdata p_fsec].
    rewrite len_cons. destruct (N.eqb_spec (l_held l) 0) as [E|E];
      cbn [l_held l_new_data l_new_sec l_foreign]; lia.
  - unfold lstep. cbn [rstep snd]. pose proof (retain_f_stats p f). lia.
Qed.

(* ---------- the contents of the free lists never matter ---------- *)
Lemma pool_sim_stats p q : pool_sim p q -> stats p = stats q.
Proof. intros (A & D & S). unfold stats. rewrite A, D, S. reflexivity. Qed.

Lemma process_sim p q k ts : pool_sim p q ->
  fst (process p k ts) = fst (process q k ts) /\ pool_sim (snd (process p k ts)) (snd (process q k ts)).
Proof.
  intros (A & D & S). unfold process. rewrite <- A.
  destruct (negb (is_fragmenting (k_frag k))); [cbn [fst snd]; unfold pool_sim; auto|].
  destruct (alookup (k_id k) (p_active p)) as [[b t]|].
  - destruct (add b (k_frag k)) as [b'|v|]; try (cbn [fst snd]; unfold pool_sim; auto).
    destruct (is_complete b'); cbn [fst snd]; unfold pool_sim; cbn [p_active p_fdata p_fsec];
      rewrite ?len_cons, ?D, ?S; auto.
  - pose proof (pop_len (p_fdata p)) as L1. pose proof (pop_len (p_fsec p)) as L2.
    pose proof (pop_len (p_fdata q)) as L3. pose proof (pop_len (p_fsec q)) as L4.
    destruct (pop (p_fdata p)) as [d fd]. destruct (pop (p_fsec p)) as [s fs].
    destruct (pop (p_fdata q)) as [d' fd']. destruct (pop (p_fsec q)) as [s' fs']. cbn [snd] in *.
    change (buf_new (k_ipn k) d s) with (buf_new (k_ipn k) [] []).
    change (buf_new (k_ipn k) d' s') with (buf_new (k_ipn k) [] []).
    destruct (add (buf_new (k_ipn k) [] []) (k_frag k)) as [b'|v|]; cbn [fst snd]; unfold pool_sim;
      cbn [p_active p_fdata p_fsec]; rewrite <- ?A, ?len_cons; repeat split; try reflexivity; try lia.
Qed.

Lemma retain_f_sim p q f g : pool_sim p q -> (forall id t, f id t = g id t) ->
  pool_sim (retain_f p f) (retain_f q g).
Proof.
  intros (A & D & S) E. unfold pool_sim, retain_f. cbn [p_active p_fdata p_fsec]. rewrite <- A.
  assert (Ek : forall e, kept f e = kept g e) by (intros e; unfold kept; apply E).
  rewrite (filter_ext _ _ Ek).
  rewrite (filter_ext (fun e => negb (kept f e)) (fun e => negb (kept g e))) by (intros e; rewrite Ek; reflexivity).
  rewrite !len_app, !len_map. repeat split; lia.
Qed.

Lemma rstep_sim p q o1 o2 : pool_sim p q -> rop_sim o1 o2 ->
  fst (rstep p o1) = fst (rstep q o2) /\ pool_sim (snd (rstep p o1)) (snd (rstep q o2)).
Proof.
  intros Hs Ho. destruct Ho as [k ts|pl1 pl2|f g E]; cbn [rstep].
  - destruct (process_sim p q k ts Hs) as [H1 H2].
    destruct (process p k ts) as [r1 p1]. destruct (process q k ts) as [r2 p2]. cbn [fst snd] in *.
    subst. auto.
  - cbn [fst snd]. split; [reflexivity|]. destruct Hs as (A & D & S).
    unfold pool_sim, return_buf. cbn [p_active p_fdata p_fsec]. rewrite !len_cons. repeat split; auto. lia.
  - cbn [fst snd]. split; [reflexivity|]. apply retain_f_sim; assumption.
Qed.

Lemma free_list_contents_irrelevant : forall ops1 ops2 p q, pool_sim p q -> Forall2 rop_sim ops1 ops2 ->
  rtrace p ops1 = rtrace q ops2 /\ stats_trace p ops1 = stats_trace q ops2 /\
  pool_sim (rrun p ops1) (rrun q ops2).
Proof.
  induction ops1 as [|o1 ops1 IH]; intros ops2 p q Hs HF; inversion HF as [|x y xs ys Ho HF']; subst.
  - cbn. auto.
  - destruct (rstep_sim p q o1 y Hs Ho) as [H1 H2].
    destruct (IH ys _ _ H2 HF') as (I1 & I2 & I3).
    cbn [rtrace stats_trace]. unfold rrun. cbn [fold_left]. fold (rrun (snd (rstep p o1)) ops1).
    fold (rrun (snd (rstep q y)) ys).
    rewrite (pool_sim_stats _ _ H2), I2.
    destruct (rstep p o1) as [r1 p1]. destruct (rstep q y) as [r2 p2]. cbn [fst snd] in *. subst r2.
    rewrite I1. auto.
Qed.

(* ---------- one stream inside a history with retain ---------- *)
Definition sev_step (id : fid) (s : option (buf * N)) (e : sev) : option pres * option (buf * N) :=
  match e with
  | SDeliver k ts => let '(r, s') := stream_step s k ts in (Some r, s')
  | SRetain f => (None, retain_view id f s)
  end.

Fixpoint sev_trace (id : fid) (s : option (buf * N)) (evs : list sev) : list pres :=
  match evs with
  | [] => []
  | e :: r =>
      let '(res, s') := sev_step id s e in
      match res with Some x => x :: sev_trace id s' r | None => sev_trace id s' r end
  end.

Definition sev_run (id : fid) (s : option (buf * N)) (evs : list sev) : option (buf * N) :=
  fold_left (fun s e => snd (sev_step id s e)) evs s.

Lemma results_for_cons id x tr :
  results_for id (x :: tr) = if fid_eqb (fst x) id then snd x :: results_for id tr else results_for id tr.
Proof. unfold results_for. cbn [filter]. destruct (fid_eqb (fst x) id); reflexivity. Qed.

Lemma results_for_app id a b : results_for id (a ++ b) = results_for id a ++ results_for id b.
Proof. unfold results_for. rewrite filter_app, map_app. reflexivity. Qed.

Lemma isolation_retain : forall ops p id, pool_wf p ->
  results_for id (rtrace p ops) = sev_trace id (view id p) (events_for id ops) /\
  view id (rrun p ops) = sev_run id (view id p) (events_for id ops).
Proof.
  induction ops as [|[k ts|pl|f] ops IH]; intros p id W; cbn [rtrace events_for rstep].
  - cbn. auto.
  - destruct (process_view p k ts) as (H1 & H2 & H3).
    pose proof (process_wf p k ts W) as W'.
    unfold rrun. cbn [fold_left rstep].
    destruct (process p k ts) as [res p'] eqn:Ep. cbn [fst snd] in *. fold (rrun p' ops).
    rewrite results_for_cons. cbn [fst snd]. destruct (fid_eqb (k_id k) id) eqn:E.
    + apply fid_eqb_eq in E. subst id. cbn [sev_trace sev_step]. unfold sev_run. cbn [fold_left sev_step].
      destruct (stream_step (view (k_id k) p) k ts) as [res' s'] eqn:Es. cbn [fst snd] in *. subst res'.
      rewrite <- H2. destruct (IH p' (k_id k) W') as [I1 I2]. rewrite I1. split; [reflexivity|exact I2].
    + destruct (IH p' id W') as [I1 I2]. rewrite I1, I2, H3; [auto|].
      intros Q. subst id. rewrite fid_eqb_refl in E. discriminate.
  - unfold rrun. cbn [fold_left rstep snd]. apply (IH (return_buf p pl) id). exact W.
  - unfold rrun. cbn [fold_left rstep snd]. fold (rrun (retain_f p f) ops).
    destruct (IH (retain_f p f) id (retain_f_wf p f W)) as [I1 I2].
    cbn [sev_trace sev_step]. unfold sev_run. cbn [fold_left sev_step snd].
    rewrite I1, I2, (retain_f_view p f id W). auto.
Qed.

(* retain calls that keep the observed stream do not change its answers *)
Fixpoint keeps (id : fid) (s : option (buf * N)) (evs : list sev) : Prop :=
  match evs with
  | [] => True
  | SDeliver k ts :: r => keeps id (snd (stream_step s k ts)) r
  | SRetain f :: r => retain_view id f s = s /\ keeps id s r
  end.

Lemma keeps_trace : forall evs id s, keeps id s evs ->
  sev_trace id s evs = stream_trace s (deliveries evs).
Proof.
  induction evs as [|[k ts|f] evs IH]; intros id s K; cbn [sev_trace sev_step deliveries stream_trace keeps] in *.
  - reflexivity.
  - destruct (stream_step s k ts) as [r s']. cbn [snd] in K. rewrite (IH id s' K). reflexivity.
  - destruct K as [K1 K2]. rewrite K1. apply IH. exact K2.
Qed.

Lemma keeps_always : forall evs id s,
  (forall f, In (SRetain f) evs -> forall t, f id t = true) -> keeps id s evs.
Proof.
  induction evs as [|[k ts|f] evs IH]; intros id s H; cbn [keeps]; [exact I| |].
  - apply IH. intros f Hf. apply H. right. exact Hf.
  - split.
    + destruct s as [[b t]|]; cbn [retain_view]; [|reflexivity]. rewrite (H f); [reflexivity|left; reflexivity].
    + apply IH. intros g Hg. apply H. right. exact Hg.
Qed.

Lemma events_for_retain id f : forall ops, In (SRetain f) (events_for id ops) -> In (RRetain f) ops.
Proof.
  induction ops as [|[k ts|pl|g] ops IH]; cbn [events_for]; [tauto| | |].
  - destruct (fid_eqb (k_id k) id); cbn [In]; intros H.
    + destruct H as [H|H]; [discriminate|]. right. auto.
    + right. auto.
  - intros H. right. auto.
  - cbn [In]. intros [H|H]; [left; congruence|right; auto].
Qed.

Lemma isolation_keep ops p id : pool_wf p -> keeps id (view id p) (events_for id ops) ->
  results_for id (rtrace p ops) = stream_trace (view id p) (deliveries (events_for id ops)).
Proof.
  intros W K. destruct (isolation_retain ops p id W) as [H _]. rewrite H. apply keeps_trace. exact K.
Qed.

Lemma isolation_keep_always ops p id : pool_wf p ->
  (forall f, In (RRetain f) ops -> forall t, f id t = true) ->
  results_for id (rtrace p ops) = stream_trace (view id p) (deliveries (events_for id ops)).
Proof.
  intros W H. apply isolation_keep; [exact W|]. apply keeps_always.
  intros f Hf. apply H. apply (events_for_retain id). exact Hf.
Qed.

(* histories without retain are the histories of Proofs.v *)
Definition rop_of (o : pool_op) : rop :=
  match o with ODeliver k ts => RDeliver k ts | OReturn pl => RReturn pl end.

Lemma rtrace_embed : forall ops p, rtrace p (map rop_of ops) = pool_trace p ops.
Proof.
  induction ops as [|[k ts|pl] ops IH]; intros p; cbn [map rop_of rtrace rstep pool_trace]; [reflexivity| |].
  - destruct (process p k ts) as [r p']. rewrite IH. reflexivity.
  - apply IH.
Qed.

Lemma deliveries_embed id : forall ops, deliveries (events_for id (map rop_of ops)) = for_id id ops.
Proof.
  induction ops as [|[k ts|pl] ops IH]; cbn [map rop_of events_for for_id]; [reflexivity| |].
  - destruct (fid_eqb (k_id k) id); cbn [deliveries]; rewrite IH; reflexivity.
  - exact IH.
Qed.

(* ---------- eviction of a partially received stream ---------- *)
Lemma sev_trace_app : forall a b id s,
  sev_trace id s (a ++ b) = sev_trace id s a ++ sev_trace id (sev_run id s a) b.
Proof.
  induction a as [|e a IH]; intros b id s; [reflexivity|].
  cbn [app sev_trace]. unfold sev_run. cbn [fold_left]. fold (sev_run id (snd (sev_step id s e)) a).
  destruct (sev_step id s e) as [[x|] s']; cbn [snd]; rewrite IH; reflexivity.
Qed.

Lemma rtrace_app : forall a b p, rtrace p (a ++ b) = rtrace p a ++ rtrace (rrun p a) b.
Proof.
  induction a as [|o a IH]; intros b p; [reflexivity|].
  cbn [app rtrace]. unfold rrun. cbn [fold_left]. fold (rrun (snd (rstep p o)) a).
  destruct (rstep p o) as [[x|] p']; cbn [snd]; rewrite IH; reflexivity.
Qed.

Lemma rrun_app a b p : rrun p (a ++ b) = rrun (rrun p a) b.
Proof. unfold rrun. apply fold_left_app. Qed.

(* after a retain that evicts stream id (or finds nothing to evict), the stream's later answers
   are those of a stream that starts from nothing: they are a function of the later events
   alone -- nothing of what was received before the eviction can show up *)
Lemma evict_restart ops1 f ops2 p id : pool_wf p ->
  retain_view id f (view id (rrun p ops1)) = None ->
  results_for id (rtrace p (ops1 ++ RRetain f :: ops2)) =
    results_for id (rtrace p ops1) ++ sev_trace id None (events_for id ops2) /\
  view id (rrun p (ops1 ++ [RRetain f])) = None.
Proof.
  intros W E. pose proof (rrun_wf ops1 p W) as W1.
  rewrite rtrace_app, results_for_app. cbn [rtrace rstep].
  destruct (isolation_retain ops2 (retain_f (rrun p ops1) f) id (retain_f_wf _ f W1)) as [H _].
  rewrite H, (retain_f_view _ f id W1), E. split; [reflexivity|].
  rewrite rrun_app. unfold rrun at 1. cbn [fold_left rstep snd].
  rewrite (retain_f_view _ f id W1). exact E.
Qed.

Lemma evict_partial ops1 f ops2 p id b t : pool_wf p ->
  view id (rrun p ops1) = Some (b, t) -> f id t = false ->
  results_for id (rtrace p (ops1 ++ RRetain f :: ops2)) =
    results_for id (rtrace p ops1) ++ sev_trace id None (events_for id ops2).
Proof.
  intros W V F. apply evict_restart; [exact W|]. rewrite V. cbn [retain_view]. rewrite F. reflexivity.
Qed.

(* two pools, two different pasts of the stream, both evicted: the same future *)
Lemma evict_no_leak ops1 ops1' f f' ops2 p p' id : pool_wf p -> pool_wf p' ->
  retain_view id f (view id (rrun p ops1)) = None ->
  retain_view id f' (view id (rrun p' ops1')) = None ->
  skipn (length (results_for id (rtrace p ops1))) (results_for id (rtrace p (ops1 ++ RRetain f :: ops2))) =
  skipn (length (results_for id (rtrace p' ops1'))) (results_for id (rtrace p' (ops1' ++ RRetain f' :: ops2))).
Proof.
  intros W W' E E'.
  destruct (evict_restart ops1 f ops2 p id W E) as [H _].
  destruct (evict_restart ops1' f' ops2 p' id W' E') as [H' _].
  rewrite H, H'. rewrite !skipn_app, !skipn_all, !Nat.sub_diag. reflexivity.
Qed.

(* the rest of an evicted datagram alone never completes it: with C11_pool_never_early *)
Lemma evicted_rest_never_completes P : len P <= 65535 -> forall ops1 f ops2 p id, pool_wf p ->
  retain_view id f (view id (rrun p ops1)) = None ->
  (forall g, In (RRetain g) ops2 -> forall t, g id t = true) ->
  let ks := deliveries (events_for id ops2) in
  (forall kt, In kt ks -> pkt_ok P kt) ->
  (forall j, (j <= length ks)%nat -> ~ Covered P (firstn j (frags_of ks))) ->
  results_for id (rtrace p (ops1 ++ RRetain f :: ops2)) =
    results_for id (rtrace p ops1) ++ map (fun _ => PNone) ks.
Proof.
  intros HP ops1 f ops2 p id W E K ks Hok Hnc.
  destruct (evict_restart ops1 f ops2 p id W E) as [H _]. rewrite H. f_equal.
  rewrite keeps_trace.
  - apply (pool_never_early P HP); assumption.
  - apply keeps_always. intros g Hg. apply K. apply (events_for_retain id). exact Hg.
Qed.

(* ---------- no stale byte, no panic: histories with retain ---------- *)
Lemma retain_view_sinv id f s : sinv s -> sinv (retain_view id f s).
Proof. destruct s as [[b t]|]; cbn [retain_view]; [|auto]. destruct (f id t); cbn [sinv]; auto. Qed.

Lemma sev_trace_ok : forall evs id s, sinv s -> Forall res_ok (sev_trace id s evs).
Proof.
  induction evs as [|[k ts|f] evs IH]; intros id s I; cbn [sev_trace sev_step]; [constructor| |].
  - destruct (stream_step_ok s k ts I) as [H1 H2].
    destruct (stream_step s k ts) as [res s']. cbn [fst snd] in *. constructor; [exact H1|apply IH, H2].
  - apply IH, retain_view_sinv, I.
Qed.

Lemma pool_no_leak_retain ops id : Forall res_ok (results_for id (rtrace pool_new ops)).
Proof.
  destruct (isolation_retain ops pool_new id pool_new_wf) as [H _]. rewrite H.
  apply sev_trace_ok. exact Logic.I.
Qed.

(* cleared before use: the entry a first fragment creates is built from empty vectors, whatever
   the free lists contained *)
Lemma first_fragment_clean p k ts : is_fragmenting (k_frag k) = true -> view (k_id k) p = None ->
  view (k_id k) (snd (process p k ts)) =
    match add (mkBuf (k_ipn k) [] [] None) (k_frag k) with
    | AddOk b' => Some (b', ts)
    | _ => None
    end.
Proof.
  intros Hf Hv. destruct (process_view p k ts) as (_ & H2 & _). rewrite H2, Hv.
  unfold stream_step. rewrite Hf. cbn [negb]. unfold buf_new.
  destruct (add (mkBuf (k_ipn k) [] [] None) (k_frag k)); reflexivity.
Qed.

Lemma embed_both ops p :
  rtrace p (map rop_of ops) = pool_trace p ops /\
  forall id, deliveries (events_for id (map rop_of ops)) = for_id id ops.
Proof. split; [apply rtrace_embed|intros id; apply deliveries_embed]. Qed.
