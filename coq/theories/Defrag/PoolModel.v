(* Defrag/PoolModel.v -- second part of the model of
     etherparse/src/defrag/ip_defrag_pool.rs:
   `retain` with an arbitrary predicate, histories made of the three public
   operations of the pool (process_sliced_packet, return_buf, retain), the
   numbers the verification hook `verif_stats` exposes, and the caller's side of
   the buffer bookkeeping (which payload vectors were handed out and which came
   back).  Definitions only; proofs are in Defrag/PoolProofs.v.

   Model.v's `retain p cutoff` is `retain_f p (fun _ t => cutoff <=? t)`
   (PoolProofs.retain_is_retain_f).  The code's predicate sees the timestamp
   only (`F: Fn(&Timestamp) -> bool`); the model lets it see the stream id as
   well, which covers the code's case (a predicate that ignores the id) and any
   later widening of the signature. *)
From EP Require Import Base.Bytes Defrag.Spec Defrag.Model.
Local Open Scope N_scope.

(* pub fn retain<F: Fn(&Timestamp) -> bool>(&mut self, f: F):
     if self.active.iter().any(|(_, (_, t))| false == f(t)) {
        self.active = self.active.drain().filter_map(|(k, v)|
            if f(&v.1) { Some((k, v)) }
            else { let (data, sections) = v.0.take_bufs();
                   self.finished_data_bufs.push(data);
                   self.finished_section_bufs.push(sections); None }).collect() }
   (without an evicted entry the filter keeps everything: the guard is an
   optimisation).  The evicted buffers are pushed in HashMap order; only their
   number is meaningful (PoolProofs.free_list_contents_irrelevant). *)
Definition kept (f : fid -> N -> bool) (e : fid * (buf * N)) : bool := f (fst e) (snd (snd e)).

Definition retain_f (p : pool) (f : fid -> N -> bool) : pool :=
  let keep := filter (kept f) (p_active p) in
  let gone := filter (fun e => negb (kept f e)) (p_active p) in
  mkPool keep
         (map (fun e => b_data (fst (snd e))) gone ++ p_fdata p)
         (map (fun e => b_sections (fst (snd e))) gone ++ p_fsec p).

(* the specification's side of retain with any predicate (Spec.spec_retain is the cutoff case) *)
Definition spec_retain_f (sp : spool) (f : fid -> N -> bool) : spool :=
  filter (fun e => f (fst e) (snd (snd e))) sp.

(* the number of streams a retain call evicts *)
Definition evicted (p : pool) (f : fid -> N -> bool) : N :=
  len (filter (fun e => negb (kept f e)) (p_active p)).

(* ---- histories over the three operations ---- *)
Inductive rop :=
| RDeliver (k : pkt) (ts : N)                    (* process_sliced_packet *)
| RReturn (payload : list (option byte))         (* return_buf *)
| RRetain (f : fid -> N -> bool).                (* retain *)

Definition rstep (p : pool) (o : rop) : option (fid * pres) * pool :=
  match o with
  | RDeliver k ts => let '(r, p') := process p k ts in (Some (k_id k, r), p')
  | RReturn pl => (None, return_buf p pl)
  | RRetain f => (None, retain_f p f)
  end.

Fixpoint rtrace (p : pool) (ops : list rop) : list (fid * pres) :=
  match ops with
  | [] => []
  | o :: r =>
      let '(res, p') := rstep p o in
      match res with
      | Some x => x :: rtrace p' r
      | None => rtrace p' r
      end
  end.

Definition rrun (p : pool) (ops : list rop) : pool :=
  fold_left (fun s o => snd (rstep s o)) ops p.

(* what `verif_stats` returns: (active.len(), finished_data_bufs.len(), finished_section_bufs.len()) *)
Definition stats (p : pool) : N * N * N := (len (p_active p), len (p_fdata p), len (p_fsec p)).

(* the numbers after every operation of a history *)
Fixpoint stats_trace (p : pool) (ops : list rop) : list (N * N * N) :=
  match ops with
  | [] => []
  | o :: r => let p' := snd (rstep p o) in stats p' :: stats_trace p' r
  end.

Definition is_nil {A} (l : list A) : bool := match l with [] => true | _ => false end.
Definition b2n (b : bool) : N := if b then 1 else 0.
Definition is_done (r : pres) : bool := match r with PDone _ _ _ => true | _ => false end.
Definition is_none {A} (o : option A) : bool := match o with None => true | Some _ => false end.

(* does this delivery take the Vacant path (and hence pop both free lists)? *)
Definition vacant (p : pool) (k : pkt) : bool :=
  is_fragmenting (k_frag k) && is_none (alookup (k_id k) (p_active p)).

(* what one delivery does to the three numbers, by answer:
     a payload is returned  -> Occupied path; the entry is gone, the section vector joined its free
                               list, the data vector left the pool as the payload;
     nothing is returned    -> Occupied: nothing moves; Vacant: one more entry, one vector popped from
                               each free list (or none, when the list was empty: a fresh allocation);
     an error is returned   -> Occupied: nothing moves; Vacant (failing first fragment): no entry, both
                               vectors taken for it are pushed (back) to the free lists *)
Definition delivery_stats (p : pool) (k : pkt) (r : pres) (p' : pool) : Prop :=
  let '(a, d, s) := stats p in
  let '(a', d', s') := stats p' in
  match r with
  | PDone _ _ _ => vacant p k = false /\ a' + 1 = a /\ d' = d /\ s' = s + 1
  | PNone => if vacant p k then a' = a + 1 /\ d' = d - 1 /\ s' = s - 1
             else a' = a /\ d' = d /\ s' = s
  | PErr _ => a' = a /\ (if vacant p k then d' = N.max 1 d /\ s' = N.max 1 s else d' = d /\ s' = s)
  end.

(* the HashMap has one entry per key *)
Definition pool_wf (p : pool) : Prop := NoDup (map fst (p_active p)).

(* ---- the bookkeeping seen from outside the pool ----
   Every IpDefragBuf owns one data vector and one section vector.  A vector is
   either inside an active entry, in a free list, or (data vectors only) in the
   hands of the caller as the payload of a result.  New vectors come into
   existence in exactly three places:
     Vec::with_capacity(payload.len()*2)  when finished_data_bufs is empty on a Vacant entry,
     Vec::with_capacity(4)                when finished_section_bufs is empty on a Vacant entry,
     return_buf of a vector the pool never handed out (the caller's own allocation). *)
Record ledger := mkLedger {
  l_held : N;        (* payload vectors handed out by the pool and not given back yet *)
  l_new_data : N;    (* data vectors allocated by the pool *)
  l_new_sec : N;     (* section vectors allocated by the pool *)
  l_foreign : N      (* vectors given to return_buf while nothing was held *)
}.
Definition ledger0 : ledger := mkLedger 0 0 0 0.

Definition lstep (p : pool) (l : ledger) (o : rop) : ledger :=
  match o with
  | RDeliver k ts =>
      mkLedger (l_held l + b2n (is_done (fst (process p k ts))))
               (l_new_data l + b2n (vacant p k && is_nil (p_fdata p)))
               (l_new_sec l + b2n (vacant p k && is_nil (p_fsec p)))
               (l_foreign l)
  | RReturn _ =>
      if l_held l =? 0 then mkLedger 0 (l_new_data l) (l_new_sec l) (l_foreign l + 1)
      else mkLedger (l_held l - 1) (l_new_data l) (l_new_sec l) (l_foreign l)
  | RRetain _ => l
  end.

Fixpoint lrun (p : pool) (l : ledger) (ops : list rop) : pool * ledger :=
  match ops with
  | [] => (p, l)
  | o :: r => lrun (snd (rstep p o)) (lstep p l o) r
  end.

(* conservation: every data vector is in an entry, in the free list or held;
   every section vector is in an entry or in the free list *)
Definition balanced (p : pool) (l : ledger) : Prop :=
  len (p_active p) + len (p_fdata p) + l_held l = l_new_data l + l_foreign l /\
  len (p_active p) + len (p_fsec p) = l_new_sec l.

(* the number of vectors in existence that the pool knows of or handed out *)
Definition total (p : pool) (l : ledger) : N :=
  2 * len (p_active p) + len (p_fdata p) + len (p_fsec p) + l_held l.

(* ---- one stream inside a history with retain ---- *)
Inductive sev :=
| SDeliver (k : pkt) (ts : N)
| SRetain (f : fid -> N -> bool).

(* what a retain call does to the entry of stream `id` *)
Definition retain_view (id : fid) (f : fid -> N -> bool) (s : option (buf * N)) : option (buf * N) :=
  match s with
  | Some (b, t) => if f id t then Some (b, t) else None
  | None => None
  end.

(* the events of a history that concern stream `id`: its deliveries and every retain *)
Fixpoint events_for (id : fid) (ops : list rop) : list sev :=
  match ops with
  | [] => []
  | RDeliver k ts :: r => if fid_eqb (k_id k) id then SDeliver k ts :: events_for id r else events_for id r
  | RReturn _ :: r => events_for id r
  | RRetain f :: r => SRetain f :: events_for id r
  end.

(* the deliveries among the events *)
Fixpoint deliveries (evs : list sev) : list (pkt * N) :=
  match evs with
  | [] => []
  | SDeliver k ts :: r => (k, ts) :: deliveries r
  | SRetain _ :: r => deliveries r
  end.

(* two histories that differ only in the vectors given to return_buf *)
Inductive rop_sim : rop -> rop -> Prop :=
| sim_deliver k ts : rop_sim (RDeliver k ts) (RDeliver k ts)
| sim_return pl1 pl2 : rop_sim (RReturn pl1) (RReturn pl2)
| sim_retain f g : (forall id t, f id t = g id t) -> rop_sim (RRetain f) (RRetain g).

(* two pools that differ only in the contents of the free lists *)
Definition pool_sim (p q : pool) : Prop :=
  p_active p = p_active q /\ len (p_fdata p) = len (p_fdata q) /\ len (p_fsec p) = len (p_fsec q).
