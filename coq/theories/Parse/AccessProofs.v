(* Parse/AccessProofs.v -- the accessors, conversions and iterators of
   Parse/Access.v never hit `Bug` on a value produced by the corresponding
   constructor of Parse/Slices.v, and every sub-slice they hand back lies inside
   the slice it was taken from.  Only the length facts established by the
   constructors are used (per-type invariants the wf_T predicates); the conversions whose
   unwrap depends on a value range additionally need "a byte is < 256". *)
From EP Require Import Base.Bytes Parse.Types Parse.Slices Parse.Cursor Parse.Repr Parse.Access.
From Coq Require Import ZArith Lia ZifyN ZifyBool.
Import SlicedPacketCursor.

Local Open Scope N_scope.

(* ---- outcomes ------------------------------------------------------------- *)
Definition okr {A} (r : res A) : Prop := exists x, r = Ok x.

Lemma okr_not_bug {A} (r : res A) : okr r -> forall b, r <> Bug b.
Proof. intros (x & ->) b. discriminate. Qed.

Lemma okr_run {A} (r : res A) : okr r -> okr (run r).
Proof. intros (x & ->). exists tt. reflexivity. Qed.

Lemma run_okr {A} (r : res A) : okr (run r) -> okr r.
Proof. destruct r; cbn; intros (x & E); try discriminate. eexists; reflexivity. Qed.

Lemma run_bug {A} (r : res A) b : run r = Bug b -> r = Bug b.
Proof. destruct r; cbn; intros E; try discriminate. now injection E as ->. Qed.

Lemma okr_Ok {A} (x : A) : okr (Ok x).
Proof. eexists; reflexivity. Qed.

(* ---- the unchecked primitives succeed inside the slice ---------------------- *)
Lemma rdU_ok s i : i < s_len s -> exists x, rdU s i = Ok x.
Proof.
  intros H. unfold rdU. destruct (rd_lt_Some (snd s) i H) as (v & ->). eexists; reflexivity.
Qed.

Lemma rdU_inv s i x : rdU s i = Ok x -> i < s_len s.
Proof.
  unfold rdU. destruct (rd (snd s) i) eqn:E; [|discriminate]. intros _.
  now apply rd_Some_lt in E.
Qed.

Lemma rd16_ok s i : i + 1 < s_len s -> exists x, rd16 s i = Ok x.
Proof.
  intros H. unfold rd16.
  destruct (rdU_ok s i) as (a & ->); [lia|]. destruct (rdU_ok s (i + 1)) as (b & ->); [lia|].
  eexists; reflexivity.
Qed.

Lemma rd16_inv s i x : rd16 s i = Ok x -> i + 1 < s_len s.
Proof.
  unfold rd16. destruct (rdU s i); cbn; try discriminate.
  destruct (rdU s (i + 1)) eqn:E; cbn; try discriminate. intros _. now apply rdU_inv in E.
Qed.

Lemma rd32_ok s i : i + 3 < s_len s -> exists x, rd32 s i = Ok x.
Proof.
  intros H. unfold rd32.
  destruct (rdU_ok s i) as (a & ->); [lia|]. destruct (rdU_ok s (i + 1)) as (b & ->); [lia|].
  destruct (rdU_ok s (i + 2)) as (c & ->); [lia|]. destruct (rdU_ok s (i + 3)) as (d & ->); [lia|].
  eexists; reflexivity.
Qed.

Lemma rd_arr_ok s n : forall i, i + N.of_nat n <= s_len s -> exists x, rd_arr s i n = Ok x.
Proof.
  induction n as [|n IH]; intros i H; cbn [rd_arr]; [eexists; reflexivity|].
  destruct (rdU_ok s i) as (a & ->); [lia|]. cbn [bind].
  destruct (IH (i + 1)) as (r & ->); [lia|]. eexists; reflexivity.
Qed.

Lemma subU_ok s k n :
  k + n <= s_len s ->
  exists s', subU s k n = Ok s' /\ s_len s' = n /\ s_off s' = s_off s + k.
Proof.
  intros H. unfold subU. destruct (k + n <=? s_len s) eqn:E; [|lia].
  eexists. split; [reflexivity|]. unfold s_len, s_off in *. cbn [fst snd].
  rewrite len_take, len_drop. split; lia.
Qed.

Lemma subU_inv s k n s' :
  subU s k n = Ok s' ->
  k + n <= s_len s /\ s_len s' = n /\ s_off s' = s_off s + k /\
  s' = (fst s + k, take n (drop k (snd s))).
Proof.
  unfold subU. destruct (k + n <=? s_len s) eqn:E; [|discriminate].
  intros X. injection X as <-. unfold s_len, s_off in *. cbn [fst snd].
  rewrite len_take, len_drop. repeat split; lia.
Qed.

Lemma subU_rd s k n s' i : subU s k n = Ok s' -> i < n -> rdU s' i = rdU s (k + i).
Proof.
  intros H Hi. apply subU_inv in H. destruct H as (H1 & _ & _ & ->).
  unfold rdU, rd, take, drop. cbn [snd].
  rewrite nth_error_firstn_lt by lia. rewrite nth_error_skipn.
  replace (N.to_nat k + N.to_nat i)%nat with (N.to_nat (k + i)) by lia. reflexivity.
Qed.

Lemma subU_rd16 s k n s' i : subU s k n = Ok s' -> i + 1 < n -> rd16 s' i = rd16 s (k + i).
Proof.
  intros H Hi. unfold rd16.
  rewrite (subU_rd s k n s' i H) by lia. rewrite (subU_rd s k n s' (i + 1) H) by lia.
  now rewrite N.add_assoc.
Qed.

Lemma subU_bytes_ok s k n s' : subU s k n = Ok s' -> bytes_ok (snd s) -> bytes_ok (snd s').
Proof.
  intros H Hok. apply subU_inv in H. destruct H as (_ & _ & _ & ->). cbn [snd].
  now apply bytes_ok_take, bytes_ok_drop.
Qed.

Lemma rdU_byte s i x : bytes_ok (snd s) -> rdU s i = Ok x -> x < 256.
Proof.
  unfold rdU. destruct (rd (snd s) i) eqn:E; [|discriminate]. intros Hok X. injection X as <-.
  eapply rd_ok; eauto.
Qed.

Lemma subN_okr a b : b <= a -> subN a b = Ok (a - b).
Proof. apply subN_ok. Qed.

Lemma idx_range_subU s a b : a <= b -> b <= s_len s -> idx_range s a b = subU s a (b - a).
Proof.
  intros H1 H2. unfold idx_range, subU.
  destruct ((a <=? b) && (b <=? s_len s)) eqn:E; [|lia].
  destruct (a + (b - a) <=? s_len s) eqn:E2; [reflexivity|lia].
Qed.

Lemma idx_range_inv s a b w : idx_range s a b = Ok w -> a <= b /\ b <= s_len s /\ subU s a (b - a) = Ok w.
Proof.
  unfold idx_range. destruct ((a <=? b) && (b <=? s_len s)) eqn:E; [|discriminate].
  intros X. assert (a <= b) by lia. assert (b <= s_len s) by lia.
  repeat split; auto. rewrite <- X. unfold subU.
  destruct (a + (b - a) <=? s_len s) eqn:E2; [reflexivity|lia].
Qed.

(* ---- windows: a is a sub-slice of b ------------------------------------------ *)
Definition sub_of (a b : slice) : Prop := exists k n, subU b k n = Ok a.

(* the arithmetic content: the window of a lies inside the window of b *)
Definition inside (a b : slice) : Prop :=
  s_off b <= s_off a /\ s_off a + s_len a <= s_off b + s_len b.

Lemma sub_of_inside a b : sub_of a b -> inside a b.
Proof.
  intros (k & n & H). apply subU_inv in H. destruct H as (H1 & H2 & H3 & _).
  unfold inside. lia.
Qed.

Lemma take_all {A} (l : list A) : take (len l) l = l.
Proof. unfold take, len. rewrite Nnat.Nat2N.id. apply firstn_all. Qed.

Lemma sub_of_refl s : sub_of s s.
Proof.
  exists 0, (s_len s). unfold subU. destruct (0 + s_len s <=? s_len s) eqn:E; [|lia].
  destruct s as (o, l). unfold s_len. cbn [fst snd]. rewrite N.add_0_r.
  change (drop 0 l) with l. now rewrite take_all.
Qed.

Lemma subU_subU s k n s' k' n' s'' :
  subU s k n = Ok s' -> subU s' k' n' = Ok s'' -> subU s (k + k') n' = Ok s''.
Proof.
  intros H1 H2. apply subU_inv in H1. destruct H1 as (A1 & A2 & A3 & ->).
  apply subU_inv in H2. destruct H2 as (B1 & B2 & B3 & ->). cbn [fst snd].
  unfold subU. destruct (k + k' + n' <=? s_len s) eqn:E; [|lia].
  f_equal. f_equal; [lia|]. unfold take, drop.
  rewrite firstn_skipn_firstn by lia. rewrite skipn_skipn_add.
  f_equal. f_equal. lia.
Qed.

Lemma sub_of_trans a b c : sub_of a b -> sub_of b c -> sub_of a c.
Proof.
  intros (k1 & n1 & H1) (k2 & n2 & H2). exists (k2 + k1), n1. eapply subU_subU; eauto.
Qed.

Lemma sub_of_len a b : sub_of a b -> s_len a <= s_len b.
Proof. intros (k & n & H). apply subU_inv in H. lia. Qed.

Lemma sub_of_bytes_ok a b : sub_of a b -> bytes_ok (snd b) -> bytes_ok (snd a).
Proof. intros (k & n & H). eapply subU_bytes_ok; eauto. Qed.

(* a sub-slice of a window of the buffer is a window of the buffer *)
Definition in_buf (bs : bytes) (s : slice) : Prop := exists pos lim, repr bs s pos lim.

Lemma subU_repr bs s pos lim k n s' :
  repr bs s pos lim -> subU s k n = Ok s' -> repr bs s' (pos + k) (pos + k + n).
Proof.
  intros R H. pose proof (subU_inv _ _ _ _ H) as (H1 & _).
  rewrite (repr_len _ _ _ _ R) in H1.
  destruct (repr_subU bs s pos lim k n R H1) as (s2 & E & R2).
  rewrite H in E. injection E as ->. exact R2.
Qed.

Lemma sub_of_in_buf bs a b : in_buf bs b -> sub_of a b -> in_buf bs a.
Proof.
  intros (pos & lim & R) (k & n & H). eexists _, _. eapply subU_repr; eauto.
Qed.

Lemma in_buf_whole bs : in_buf bs (mk_slice bs).
Proof. eexists _, _. apply repr_whole. Qed.

Lemma in_buf_bounds bs s : in_buf bs s -> s_off s + s_len s <= len bs.
Proof.
  intros (pos & lim & R). rewrite (repr_off _ _ _ _ R), (repr_len _ _ _ _ R).
  destruct R as (_ & A & B). lia.
Qed.

Lemma B_nth bs i : (N.to_nat i < length bs)%nat -> nth_error bs (N.to_nat i) = Some (WireSpec.B bs i).
Proof. intros H. unfold WireSpec.B. now apply nth_error_nth_lt. Qed.

Lemma in_buf_bytes_ok bs s : bytes_ok bs -> in_buf bs s -> bytes_ok (snd s).
Proof.
  intros Hok (pos & lim & (-> & _)). cbn [snd]. now apply bytes_ok_take, bytes_ok_drop.
Qed.

(* ---- automation -------------------------------------------------------------- *)
Definition nobug {A} (r : res A) : Prop := forall b, r <> Bug b.

Lemma okr_nobug {A} (r : res A) : okr r -> nobug r.
Proof. intros H b. now apply okr_not_bug. Qed.

Lemma nobug_run {A} (r : res A) : nobug r -> nobug (run r).
Proof. intros H b E. apply run_bug in E. now apply (H b). Qed.

(* a returned window: the accessor succeeds and the result is a sub-slice of `parent` *)
Definition win_ok (parent : slice) (r : res slice) : Prop :=
  exists w, r = Ok w /\ sub_of w parent.

Lemma win_ok_okr parent r : win_ok parent r -> okr r.
Proof. intros (w & -> & _). eexists; reflexivity. Qed.

Ltac okstep :=
  match goal with
  | H : ?t = Ok _ |- context [?t] => rewrite H; cbn [bind]; cbv beta iota
  | |- context [rdU ?s ?i] =>
      let x := fresh "x" in let E := fresh "E" in
      destruct (rdU_ok s i) as (x & E); [lia|]; rewrite E; cbn [bind]
  | |- context [rd16 ?s ?i] =>
      let x := fresh "x" in let E := fresh "E" in
      destruct (rd16_ok s i) as (x & E); [lia|]; rewrite E; cbn [bind]
  | |- context [rd32 ?s ?i] =>
      let x := fresh "x" in let E := fresh "E" in
      destruct (rd32_ok s i) as (x & E); [lia|]; rewrite E; cbn [bind]
  | |- context [rd_arr ?s ?i ?n] =>
      let x := fresh "x" in let E := fresh "E" in
      destruct (rd_arr_ok s n i) as (x & E); [cbn; lia|]; rewrite E; clear E; cbn [bind]
  | |- context [subN ?a ?b] => rewrite (subN_ok a b) by lia; cbn [bind]
  | |- context [subU ?s ?k ?n] =>
      let x := fresh "w" in let E := fresh "E" in let L := fresh "L" in let O := fresh "O" in
      destruct (subU_ok s k n) as (x & E & L & O); [lia|]; rewrite E; cbn [bind]
  | |- context [idx_range ?s ?a ?b] =>
      rewrite (idx_range_subU s a b) by lia
  end.

Ltac okcase :=
  match goal with
  | |- context [if negb ?c then _ else _] =>
      let E := fresh "C" in destruct c eqn:E; try rewrite E in *; cbn [bind negb] in *; cbv beta iota in *
  | |- context [if ?c then _ else _] =>
      let E := fresh "C" in destruct c eqn:E; try rewrite E in *; cbn [bind] in *; cbv beta iota in *
  end.

Ltac oksteps := cbn [bind]; repeat okstep; repeat (okcase; repeat okstep).
Ltac okfin := first [ eexists; reflexivity | exfalso; lia ].
Ltac oksolve := oksteps; okfin.
Ltac winfin :=
  first [ eexists; split; [reflexivity| first [ eexists _, _; eassumption | apply sub_of_refl ] ]
        | exfalso; lia ].
Ltac winsolve := oksteps; winfin.

(* prove `Forall nobug [run a1; ...; run an]` given a tactic that unfolds the accessors *)
Ltac forall_ok unf :=
  repeat (apply Forall_cons; [apply nobug_run, okr_nobug; unf; oksolve|]); apply Forall_nil.
Ltac forall_win unf :=
  repeat (apply Forall_cons; [unfold win_ok; unf; winsolve|]); apply Forall_nil.

(* ---- Ethernet2Slice ------------------------------------------------------------ *)
Definition wf_eth2 (e : eth2_slice) : Prop :=
  (e2_fcs_len e = 0 \/ e2_fcs_len e = 4) /\ 14 + e2_fcs_len e <= s_len (e2_slice e).

Lemma eth2_plain_wf s r : Ethernet2Slice.from_slice_without_fcs s = Ok r -> r = s /\ wf_eth2 (mkEth2 0 r).
Proof.
  unfold Ethernet2Slice.from_slice_without_fcs.
  destruct (s_len s <? 14) eqn:E; unfold lerr; cbn [bind]; [discriminate|]. intros X. injection X as <-.
  unfold wf_eth2. cbn. repeat split; auto. lia.
Qed.

Lemma eth2_wf_without_fcs s e : Ethernet2A.from_slice_without_fcs s = Ok e -> wf_eth2 e /\ e2_slice e = s.
Proof.
  unfold Ethernet2A.from_slice_without_fcs.
  destruct (Ethernet2Slice.from_slice_without_fcs s) as [r| |] eqn:E; cbn; try discriminate.
  intros X. injection X as <-. apply eth2_plain_wf in E. destruct E as (-> & W). auto.
Qed.

Lemma eth2_wf_with_fcs s e : Ethernet2A.from_slice_with_crc32_fcs s = Ok e -> wf_eth2 e /\ e2_slice e = s.
Proof.
  unfold Ethernet2A.from_slice_with_crc32_fcs.
  destruct (s_len s <? 14 + 4) eqn:E; unfold lerr; cbn [bind]; [discriminate|]. intros X. injection X as <-.
  unfold wf_eth2. cbn. repeat split; auto. lia.
Qed.

Ltac unf_eth2 :=
  unfold Ethernet2A.debug, Ethernet2A.payload, Ethernet2A.to_header, Ethernet2A.destination, Ethernet2A.source,
    Ethernet2A.ether_type, Ethernet2A.fcs, Ethernet2A.header_slice, Ethernet2A.payload_slice.

Lemma eth2_accessors_ok e : wf_eth2 e -> Forall nobug (Ethernet2A.accessors e).
Proof.
  intros ([F|F] & L); unfold Ethernet2A.accessors; rewrite F in L; forall_ok ltac:(unf_eth2; rewrite ?F).
Qed.

Lemma eth2_windows_ok e : wf_eth2 e -> Forall (win_ok (e2_slice e)) (Ethernet2A.windows e).
Proof.
  intros ([F|F] & L); unfold Ethernet2A.windows; rewrite F in L; forall_win ltac:(unf_eth2; rewrite ?F).
Qed.

(* ---- SingleVlanSlice ------------------------------------------------------------ *)
Definition wf_vlan (s : slice) : Prop := 4 <= s_len s.

Lemma vlan_wf s v : SingleVlanSlice.from_slice s = Ok v -> v = s /\ wf_vlan v.
Proof.
  unfold SingleVlanSlice.from_slice. destruct (s_len s <? 4) eqn:E; unfold lerr; cbn [bind]; [discriminate|].
  intros X. injection X as <-. split; [reflexivity|]. unfold wf_vlan. lia.
Qed.

Ltac unf_vlan :=
  unfold SingleVlanA.debug, SingleVlanA.payload, SingleVlanA.to_header, SingleVlanA.priority_code_point,
    SingleVlanA.drop_eligible_indicator, SingleVlanA.vlan_identifier, SingleVlanA.ether_type,
    SingleVlanA.header_slice, SingleVlanA.payload_slice.

Lemma vlan_accessors_ok s : wf_vlan s -> Forall nobug (SingleVlanA.accessors s).
Proof. unfold wf_vlan. intros L. unfold SingleVlanA.accessors. forall_ok unf_vlan. Qed.

Lemma vlan_windows_ok s : wf_vlan s -> Forall (win_ok s) (SingleVlanA.windows s).
Proof. unfold wf_vlan. intros L. unfold SingleVlanA.windows. forall_win unf_vlan. Qed.

(* ---- LinuxSll -------------------------------------------------------------------- *)
Definition wf_sllh (h : slice) : Prop :=
  s_len h = 16 /\
  exists pt hw pr v, rd16 h 0 = Ok pt /\ pt <= 7 /\ rd16 h 2 = Ok hw /\ rd16 h 14 = Ok pr /\
                     LinuxSll.protocol_type_try_from hw pr = Ok v.

Lemma sllh_wf s h : LinuxSll.header_from_slice s = Ok h -> wf_sllh h /\ sub_of h s.
Proof.
  unfold LinuxSll.header_from_slice. destruct (s_len s <? 16) eqn:E; unfold lerr; cbn [bind]; [discriminate|].
  destruct (rd16 s 0) as [pt| |] eqn:E0; cbn [bind]; try discriminate.
  unfold LinuxSll.packet_type_try_from at 1.
  destruct (pt <=? 7) eqn:Ept; cbn [bind]; [|discriminate].
  destruct (rd16 s 2) as [hw| |] eqn:E2; cbn [bind]; try discriminate.
  destruct (rd16 s 14) as [pr| |] eqn:E14; cbn [bind]; try discriminate.
  destruct (LinuxSll.protocol_type_try_from hw pr) as [v| |] eqn:Ev; cbn [bind]; try discriminate.
  intros H. split; [|now exists 0, 16].
  pose proof (subU_inv _ _ _ _ H) as (A1 & A2 & _).
  split; [exact A2|]. exists pt, hw, pr, v.
  rewrite (subU_rd16 s 0 16 h 0 H), (subU_rd16 s 0 16 h 2 H), (subU_rd16 s 0 16 h 14 H) by lia.
  rewrite !N.add_0_l. repeat split; auto. lia.
Qed.

Definition wf_sll (x : slice * slice) : Prop := wf_sllh (fst x) /\ 16 <= s_len (snd x).

Lemma idx_prefix_subU s n : n <= s_len s -> (fst s, take n (snd s)) = (fst s + 0, take n (drop 0 (snd s))).
Proof. intros _. now rewrite N.add_0_r. Qed.

Lemma sll_wf s x : LinuxSll.from_slice s = Ok x -> wf_sll x /\ snd x = s /\ sub_of (fst x) s.
Proof.
  unfold LinuxSll.from_slice. destruct (s_len s <? 16) eqn:E; unfold lerr; cbn [bind]; [discriminate|].
  destruct (16 <=? s_len s) eqn:E'; [|lia]. cbn [bind].
  destruct (LinuxSll.header_from_slice (fst s, take 16 (snd s))) as [h| |] eqn:Eh; cbn [bind]; try discriminate.
  intros X. injection X as <-. cbn [fst snd].
  apply sllh_wf in Eh. destruct Eh as (W & S). split; [split; [exact W|cbn; lia]|]. split; [reflexivity|].
  eapply sub_of_trans; [exact S|]. exists 0, 16. unfold subU.
  destruct (0 + 16 <=? s_len s) eqn:E2; [|lia]. now rewrite N.add_0_r.
Qed.

Ltac unf_sllh :=
  unfold LinuxSllHeaderA.to_header, LinuxSllHeaderA.protocol_type, LinuxSllHeaderA.sender_address,
    LinuxSllHeaderA.packet_type, LinuxSllHeaderA.arp_hardware_type,
    LinuxSllHeaderA.sender_address_valid_length, LinuxSllHeaderA.sender_address_full.

Lemma sllh_sender_address_ok h : s_len h = 16 -> win_ok h (LinuxSllHeaderA.sender_address h).
Proof.
  intros L. unfold win_ok. unf_sllh. okstep.
  destruct (N.min_spec (6 + x) (6 + 8)) as [[A ->]|[A ->]]; winsolve.
Qed.

Lemma sllh_accessors_ok h : wf_sllh h -> Forall nobug (LinuxSllHeaderA.accessors h).
Proof.
  intros (L & pt & hw & pr & v & E0 & Ept & E2 & E14 & Ev).
  assert (Pt : LinuxSll.packet_type_try_from pt = Ok pt).
  { unfold LinuxSll.packet_type_try_from. destruct (pt <=? 7) eqn:X; [reflexivity|lia]. }
  pose proof (sllh_sender_address_ok h L) as SA.
  unfold LinuxSllHeaderA.accessors.
  do 4 (apply Forall_cons; [apply nobug_run, okr_nobug; unf_sllh; oksolve|]).
  apply Forall_cons; [apply nobug_run, okr_nobug; eapply win_ok_okr; exact SA|].
  forall_ok unf_sllh.
Qed.

Lemma sllh_windows_ok h : wf_sllh h -> Forall (win_ok h) (LinuxSllHeaderA.windows h).
Proof. intros (L & _). repeat constructor. now apply sllh_sender_address_ok. Qed.

Ltac unf_sll :=
  unfold LinuxSllA.debug, LinuxSllA.payload, LinuxSllA.to_header, LinuxSllA.payload_slice, LinuxSllA.header_slice;
  unf_sllh.

Lemma sll_accessors_ok x : wf_sll x -> Forall nobug (LinuxSllA.accessors x).
Proof.
  intros (W & L16). unfold LinuxSllA.accessors. apply Forall_app. split; [now apply sllh_accessors_ok|].
  destruct W as (L & pt & hw & pr & v & E0 & Ept & E2 & E14 & Ev).
  assert (Pt : LinuxSll.packet_type_try_from pt = Ok pt).
  { unfold LinuxSll.packet_type_try_from. destruct (pt <=? 7) eqn:X; [reflexivity|lia]. }
  forall_ok unf_sll.
Qed.

Lemma sll_windows_ok x : wf_sll x -> Forall (win_ok (snd x)) (LinuxSllA.windows x).
Proof. intros (W & L16). unfold LinuxSllA.windows. forall_win unf_sll. Qed.

(* the model of Parse/Slices.v used by the cursor agrees with the accessor model *)
Lemma sll_protocol_type_same h : LinuxSll.protocol_type h = LinuxSllHeaderA.protocol_type h.
Proof. reflexivity. Qed.

(* ---- MACsec ------------------------------------------------------------------------ *)
Definition wf_macsech (h : slice) : Prop :=
  exists t, rdU h 0 = Ok t /\
            s_len h = 6 + (if N.land t 12 =? 0 then 2 else 0) + (if bitset t 32 then 8 else 0).

Lemma macsech_wf s h : Macsec.header_from_slice s = Ok h -> wf_macsech h /\ sub_of h s.
Proof.
  unfold Macsec.header_from_slice. destruct (s_len s <? 6) eqn:E; unfold lerr; cbn [bind]; [discriminate|].
  destruct (rdU s 0) as [t| |] eqn:E0; cbn [bind]; try discriminate.
  destruct (Macsec.bit t 128); [discriminate|].
  match goal with |- context [bind ?X _] => destruct X as [u| |]; cbn [bind]; try discriminate end.
  change (Macsec.bit t 32) with (bitset t 32).
  set (rl := 6 + (if N.land t 12 =? 0 then 2 else 0) + (if bitset t 32 then 8 else 0)).
  destruct (s_len s <? rl) eqn:El; unfold lerr; cbn [bind]; [discriminate|].
  intros H. split; [|now exists 0, rl].
  pose proof (subU_inv _ _ _ _ H) as (A1 & A2 & _).
  exists t. rewrite (subU_rd s 0 rl h 0 H) by (subst rl; lia). rewrite N.add_0_l. split; auto.
Qed.

Ltac unf_macsech :=
  unfold MacsecHeaderA.to_header, MacsecHeaderA.expected_payload_len, MacsecHeaderA.header_len,
    MacsecHeaderA.next_ether_type, MacsecHeaderA.sci, MacsecHeaderA.ptype;
  unfold MacsecHeaderA.sci_present, MacsecHeaderA.packet_nr, MacsecHeaderA.short_len, MacsecHeaderA.an,
    MacsecHeaderA.is_unmodified, MacsecHeaderA.userdata_changed, MacsecHeaderA.encrypted,
    MacsecHeaderA.tci_scb, MacsecHeaderA.endstation_id, MacsecHeaderA.tci_an_raw.

Lemma land_4_12 t : bitset t 4 = true -> N.land t 12 =? 0 = false.
Proof.
  unfold bitset. intros H. apply N.eqb_neq. intros Z.
  assert (X : N.land (N.land t 12) 4 = 0) by (rewrite Z; reflexivity).
  rewrite <- N.land_assoc in X. change (N.land 12 4) with 4 in X. rewrite X in H. discriminate.
Qed.
Lemma land_8_12 t : bitset t 8 = true -> N.land t 12 =? 0 = false.
Proof.
  unfold bitset. intros H. apply N.eqb_neq. intros Z.
  assert (X : N.land (N.land t 12) 8 = 0) by (rewrite Z; reflexivity).
  rewrite <- N.land_assoc in X. change (N.land 12 8) with 8 in X. rewrite X in H. discriminate.
Qed.
Lemma land_none_12 t : bitset t 8 = false -> bitset t 4 = false -> N.land t 12 =? 0 = true.
Proof.
  unfold bitset. intros H8 H4. apply N.eqb_eq.
  assert (A8 : N.land t 8 = 0) by (destruct (N.land t 8 =? 0) eqn:X; [lia|discriminate]).
  assert (A4 : N.land t 4 = 0) by (destruct (N.land t 4 =? 0) eqn:X; [lia|discriminate]).
  change 12 with (N.lor 8 4). rewrite N.land_lor_distr_r, A8, A4. reflexivity.
Qed.

Lemma macsech_accessors_ok h : wf_macsech h -> Forall nobug (MacsecHeaderA.accessors h).
Proof.
  intros (t & E0 & L).
  assert (L6 : 6 <= s_len h) by lia.
  (* the two accessors that read behind byte 5 *)
  assert (P : okr (MacsecHeaderA.ptype h)).
  { unf_macsech. rewrite E0. cbn [bind].
    destruct (bitset t 8) eqn:B8; [destruct (bitset t 4); eexists; reflexivity|].
    destruct (bitset t 4) eqn:B4; [eexists; reflexivity|].
    rewrite (land_none_12 t B8 B4) in L. destruct (bitset t 32) eqn:B32; oksolve. }
  assert (S : okr (MacsecHeaderA.sci h)).
  { unf_macsech. rewrite E0. cbn [bind]. destruct (bitset t 32) eqn:B32; [|eexists; reflexivity].
    assert (14 <= s_len h) by (destruct (N.land t 12 =? 0); lia). oksolve. }
  assert (Nx : okr (MacsecHeaderA.next_ether_type h)).
  { unf_macsech. rewrite E0. cbn [bind].
    destruct (N.land t 12 =? 0) eqn:B12; cbn [negb]; [|eexists; reflexivity].
    destruct (bitset t 32) eqn:B32; oksolve. }
  unfold MacsecHeaderA.accessors.
  do 6 (apply Forall_cons; [apply nobug_run, okr_nobug; unf_macsech; oksolve|]).
  apply Forall_cons; [apply nobug_run, okr_nobug; exact P|].
  do 4 (apply Forall_cons; [apply nobug_run, okr_nobug; unf_macsech; oksolve|]).
  apply Forall_cons; [apply nobug_run, okr_nobug; exact S|].
  apply Forall_cons; [apply nobug_run, okr_nobug; exact Nx|].
  do 2 (apply Forall_cons; [apply nobug_run, okr_nobug; unf_macsech; oksolve|]).
  apply Forall_cons; [|apply Forall_nil].
  apply nobug_run, okr_nobug. unfold MacsecHeaderA.to_header.
  destruct P as (p & ->). destruct S as (sc & ->). cbn [bind].
  unf_macsech. oksolve.
Qed.

Definition wf_macsec (m : macsec_slice) : Prop := wf_macsech (ms_header m).

Lemma macsec_accessors_ok m : wf_macsec m -> Forall nobug (MacsecA.accessors m).
Proof.
  intros W. unfold MacsecA.accessors. apply Forall_app. split; [now apply macsech_accessors_ok|].
  pose proof (macsech_accessors_ok _ W) as F. unfold MacsecHeaderA.accessors in F.
  repeat constructor.
  - apply nobug_run, okr_nobug. unfold MacsecA.ether_payload. destruct (ms_payload m); eexists; reflexivity.
  - unfold MacsecA.next_ether_type. rewrite Forall_forall in F. apply F. cbn. tauto.
Qed.

(* ---- ArpPacketSlice ------------------------------------------------------------------ *)
Definition wf_arp (a : slice) : Prop :=
  exists hw pr, rdU a 4 = Ok hw /\ rdU a 5 = Ok pr /\ s_len a = 8 + hw * 2 + pr * 2.

Lemma arp_wf s a : ArpPacketSlice.from_slice s = Ok a -> wf_arp a /\ sub_of a s.
Proof.
  unfold ArpPacketSlice.from_slice. destruct (s_len s <? 8) eqn:E; unfold lerr; cbn [bind]; [discriminate|].
  destruct (rdU s 4) as [hw| |] eqn:E4; cbn [bind]; try discriminate.
  destruct (rdU s 5) as [pr| |] eqn:E5; cbn [bind]; try discriminate.
  set (l := 8 + hw * 2 + pr * 2).
  destruct (s_len s <? l) eqn:El; [discriminate|].
  intros H. split; [|now exists 0, l].
  pose proof (subU_inv _ _ _ _ H) as (A1 & A2 & _).
  exists hw, pr. rewrite (subU_rd s 0 l a 4 H), (subU_rd s 0 l a 5 H) by (subst l; lia).
  rewrite !N.add_0_l. auto.
Qed.

Ltac unf_arp :=
  unfold ArpPacketA.to_packet, ArpPacketA.target_protocol_addr, ArpPacketA.target_hw_addr,
    ArpPacketA.sender_protocol_addr, ArpPacketA.sender_hw_addr, ArpPacketA.operation,
    ArpPacketA.proto_addr_type, ArpPacketA.hw_addr_type, ArpPacketA.proto_addr_size, ArpPacketA.hw_addr_size.

Lemma arp_accessors_ok a : wf_arp a -> Forall nobug (ArpPacketA.accessors a).
Proof. intros (hw & pr & E4 & E5 & L). unfold ArpPacketA.accessors. forall_ok unf_arp. Qed.

Lemma arp_windows_ok a : wf_arp a -> Forall (win_ok a) (ArpPacketA.windows a).
Proof. intros (hw & pr & E4 & E5 & L). unfold ArpPacketA.windows. forall_win unf_arp. Qed.

Lemma arp_conversions_ok a : wf_arp a -> bytes_ok (snd a) -> Forall nobug (ArpPacketA.conversions a).
Proof.
  intros (hw & pr & E4 & E5 & L) Hok.
  pose proof (rdU_byte a 4 hw Hok E4) as B4. pose proof (rdU_byte a 5 pr Hok E5) as B5.
  unfold ArpPacketA.conversions. forall_ok ltac:(unf_arp; unfold ArpPacketA.copy255).
Qed.

(* ---- Ipv4HeaderSlice -------------------------------------------------------------------- *)
Definition wf_ipv4h (h : slice) : Prop := 20 <= s_len h /\ s_len h <= 60.

Lemma land15_le b : N.land b 15 <= 15.
Proof.
  change 15 with (N.ones 4) at 1. rewrite N.land_ones.
  pose proof (N.mod_lt b (2 ^ 4) ltac:(discriminate)). change (2 ^ 4) with 16 in *. lia.
Qed.

Lemma ipv4h_wf s h : Ipv4HeaderSlice.from_slice s = Ok h -> wf_ipv4h h /\ sub_of h s.
Proof.
  unfold Ipv4HeaderSlice.from_slice. destruct (s_len s <? 20) eqn:E; unfold lerr; cbn [bind]; [discriminate|].
  destruct (rdU s 0) as [v| |] eqn:E0; cbn [bind]; try discriminate.
  destruct (negb (N.shiftr v 4 =? 4)); [discriminate|].
  destruct (N.land v 15 <? 5) eqn:Ei; [discriminate|].
  destruct (s_len s <? N.land v 15 * 4) eqn:El; [discriminate|].
  intros H. split; [|now exists 0, (N.land v 15 * 4)].
  pose proof (subU_inv _ _ _ _ H) as (A1 & A2 & _).
  pose proof (land15_le v). unfold wf_ipv4h. lia.
Qed.

Ltac unf_ipv4h :=
  unfold Ipv4HeaderA.to_header, Ipv4HeaderA.is_fragmenting_payload, Ipv4HeaderA.payload_len;
  unfold Ipv4HeaderA.options, Ipv4HeaderA.destination, Ipv4HeaderA.source, Ipv4HeaderA.header_checksum,
    Ipv4HeaderA.protocol, Ipv4HeaderA.ttl, Ipv4HeaderA.fragments_offset, Ipv4HeaderA.more_fragments,
    Ipv4HeaderA.dont_fragment, Ipv4HeaderA.identification, Ipv4HeaderA.total_len, Ipv4HeaderA.ecn,
    Ipv4HeaderA.dcp, Ipv4HeaderA.ihl, Ipv4HeaderA.version.

Lemma ipv4h_payload_len_nobug h : wf_ipv4h h -> nobug (Ipv4HeaderA.payload_len h).
Proof.
  intros (L1 & L2). unf_ipv4h. okstep.
  destruct (s_len h mod 65536 <=? x) eqn:C.
  - apply okr_nobug. rewrite subN_ok by lia. eexists; reflexivity.
  - intros b. discriminate.
Qed.

Lemma ipv4h_to_header_options_ok o : s_len o <= 40 -> okr (Ipv4HeaderA.to_header_options o).
Proof.
  intros L. unfold Ipv4HeaderA.to_header_options. rewrite N.mod_small by lia.
  destruct (40 <? s_len o) eqn:C; [lia|]. rewrite N.eqb_refl. eexists; reflexivity.
Qed.

Lemma ipv4h_accessors_ok h : wf_ipv4h h -> Forall nobug (Ipv4HeaderA.accessors h).
Proof.
  intros W. pose proof W as (L1 & L2). unfold Ipv4HeaderA.accessors.
  do 5 (apply Forall_cons; [apply nobug_run, okr_nobug; unf_ipv4h; oksolve|]).
  apply Forall_cons; [apply nobug_run; now apply ipv4h_payload_len_nobug|].
  do 11 (apply Forall_cons; [apply nobug_run, okr_nobug; unf_ipv4h; oksolve|]).
  apply Forall_cons; [|apply Forall_nil].
  apply nobug_run, okr_nobug. unf_ipv4h. oksteps.
  destruct (ipv4h_to_header_options_ok w) as (o & ->); [lia|]. eexists; reflexivity.
Qed.

Lemma ipv4h_windows_ok h : wf_ipv4h h -> Forall (win_ok h) (Ipv4HeaderA.windows h).
Proof. intros (L1 & L2). unfold Ipv4HeaderA.windows. forall_win unf_ipv4h. Qed.

(* ---- IpAuthHeaderSlice ------------------------------------------------------------------- *)
Definition wf_ah (h : slice) : Prop :=
  exists p, rdU h 1 = Ok p /\ 1 <= p /\ s_len h = (p + 2) * 4.

Lemma ah_wf s h : IpAuthHeaderSlice.from_slice s = Ok h -> wf_ah h /\ sub_of h s.
Proof.
  unfold IpAuthHeaderSlice.from_slice. destruct (s_len s <? 12) eqn:E; unfold lerr; cbn [bind]; [discriminate|].
  destruct (rdU s 1) as [p| |] eqn:E1; cbn [bind]; try discriminate.
  destruct (p <? 1) eqn:Ep; [discriminate|].
  destruct (s_len s <? (p + 2) * 4) eqn:El; [discriminate|].
  intros H. split; [|now exists 0, ((p + 2) * 4)].
  pose proof (subU_inv _ _ _ _ H) as (A1 & A2 & _).
  exists p. rewrite (subU_rd s 0 _ h 1 H) by lia. rewrite N.add_0_l. repeat split; auto. lia.
Qed.

Ltac unf_ah :=
  unfold IpAuthHeaderA.to_header, IpAuthHeaderA.raw_icv, IpAuthHeaderA.sequence_number, IpAuthHeaderA.spi,
    IpAuthHeaderA.next_header, idx_from.

Lemma ah_accessors_ok h : wf_ah h -> Forall nobug (IpAuthHeaderA.accessors h).
Proof. intros (p & E1 & P1 & L). unfold IpAuthHeaderA.accessors. forall_ok unf_ah. Qed.

Lemma ah_windows_ok h : wf_ah h -> Forall (win_ok h) (IpAuthHeaderA.windows h).
Proof. intros (p & E1 & P1 & L). unfold IpAuthHeaderA.windows. forall_win unf_ah. Qed.

(* the unwrap of IpAuthHeader::new: ICV length (p+2)*4-12 = (p-1)*4 is a multiple
   of 4 and at most 1016 because p is a byte *)
Lemma ah_conversions_ok h : wf_ah h -> bytes_ok (snd h) -> Forall nobug (IpAuthHeaderA.conversions h).
Proof.
  intros (p & E1 & P1 & L) Hok. pose proof (rdU_byte h 1 p Hok E1) as B.
  unfold IpAuthHeaderA.conversions. apply Forall_cons; [|apply Forall_nil].
  apply nobug_run, okr_nobug. unf_ah. oksteps.
  unfold IpAuthHeaderA.header_new, IpAuthHeaderA.MAX_ICV_LEN.
  assert (Lw : s_len w = (p - 1) * 4) by lia. rewrite Lw.
  destruct (1016 <? (p - 1) * 4) eqn:C1; [lia|].
  rewrite N.mod_mul by discriminate. rewrite N.eqb_refl. cbn [negb]. eexists; reflexivity.
Qed.

(* ---- Ipv6HeaderSlice ----------------------------------------------------------------------- *)
Definition wf_ipv6h (h : slice) : Prop := s_len h = 40.

Lemma ipv6h_wf s h : Ipv6HeaderSlice.from_slice s = Ok h -> wf_ipv6h h /\ sub_of h s.
Proof.
  unfold Ipv6HeaderSlice.from_slice. destruct (s_len s <? 40) eqn:E; unfold lerr; cbn [bind]; [discriminate|].
  destruct (rdU s 0) as [v| |] eqn:E0; cbn [bind]; try discriminate.
  destruct (negb (N.shiftr v 4 =? 6)); [discriminate|].
  intros H. split; [|now exists 0, 40]. now pose proof (subU_inv _ _ _ _ H) as (A1 & A2 & _).
Qed.

Ltac unf_ipv6h :=
  unfold Ipv6HeaderA.to_header, Ipv6HeaderA.dscp, Ipv6HeaderA.ecn;
  unfold Ipv6HeaderA.destination, Ipv6HeaderA.source, Ipv6HeaderA.hop_limit, Ipv6HeaderA.next_header,
    Ipv6HeaderA.payload_length, Ipv6HeaderA.flow_label, Ipv6HeaderA.traffic_class, Ipv6HeaderA.version.

Lemma ipv6h_accessors_ok h : wf_ipv6h h -> Forall nobug (Ipv6HeaderA.accessors h).
Proof. unfold wf_ipv6h. intros L. unfold Ipv6HeaderA.accessors. forall_ok unf_ipv6h. Qed.

(* ---- Ipv6RawExtHeaderSlice ------------------------------------------------------------------ *)
Definition wf_raw (h : slice) : Prop := exists b, rdU h 1 = Ok b /\ s_len h = (b + 1) * 8.

Lemma raw_wf s h : Ipv6RawExtHeaderSlice.from_slice s = Ok h -> wf_raw h /\ sub_of h s.
Proof.
  unfold Ipv6RawExtHeaderSlice.from_slice. destruct (s_len s <? 8) eqn:E; unfold lerr; cbn [bind]; [discriminate|].
  destruct (rd (snd s) 1) as [b|] eqn:E1; cbn [bind]; try discriminate.
  destruct (s_len s <? (b + 1) * 8) eqn:El; [discriminate|].
  intros H. split; [|now exists 0, ((b + 1) * 8)].
  pose proof (subU_inv _ _ _ _ H) as (A1 & A2 & _).
  exists b. rewrite (subU_rd s 0 _ h 1 H) by lia. rewrite N.add_0_l. unfold rdU. rewrite E1. auto.
Qed.

Ltac unf_raw :=
  unfold Ipv6RawExtHeaderA.to_header, Ipv6RawExtHeaderA.payload, Ipv6RawExtHeaderA.next_header.

Lemma raw_accessors_ok h : wf_raw h -> Forall nobug (Ipv6RawExtHeaderA.accessors h).
Proof. intros (b & E1 & L). unfold Ipv6RawExtHeaderA.accessors. forall_ok unf_raw. Qed.

Lemma raw_windows_ok h : wf_raw h -> Forall (win_ok h) (Ipv6RawExtHeaderA.windows h).
Proof. intros (b & E1 & L). unfold Ipv6RawExtHeaderA.windows. forall_win unf_raw. Qed.

(* the unwrap of Ipv6RawExtHeader::new_raw: payload length (b+1)*8-2 lies in
   [6, 2046] because b is a byte, and (len + 2) mod 8 = 0 *)
Lemma raw_conversions_ok h : wf_raw h -> bytes_ok (snd h) -> Forall nobug (Ipv6RawExtHeaderA.conversions h).
Proof.
  intros (b & E1 & L) Hok. pose proof (rdU_byte h 1 b Hok E1) as B.
  unfold Ipv6RawExtHeaderA.conversions. apply Forall_cons; [|apply Forall_nil].
  apply nobug_run, okr_nobug. unf_raw. oksteps.
  unfold Ipv6RawExtHeaderA.new_raw, Ipv6RawExtHeaderA.MIN_PAYLOAD_LEN, Ipv6RawExtHeaderA.MAX_PAYLOAD_LEN.
  destruct (s_len w <? 6) eqn:C1; [lia|]. destruct (2046 <? s_len w) eqn:C2; [lia|].
  replace (s_len w + 2) with ((b + 1) * 8) by lia.
  rewrite N.mod_mul by discriminate. rewrite N.eqb_refl. cbn [negb]. eexists; reflexivity.
Qed.

(* ---- Ipv6FragmentHeaderSlice ------------------------------------------------------------------ *)
Definition wf_frag (h : slice) : Prop := s_len h = 8.

Lemma frag_wf s h : Ipv6FragmentHeaderSlice.from_slice s = Ok h -> wf_frag h /\ sub_of h s.
Proof.
  unfold Ipv6FragmentHeaderSlice.from_slice. destruct (s_len s <? 8) eqn:E; unfold lerr; [discriminate|].
  intros H. split; [|now exists 0, 8]. now pose proof (subU_inv _ _ _ _ H) as (A1 & A2 & _).
Qed.

Ltac unf_frag :=
  unfold Ipv6FragmentHeaderA.to_header, Ipv6FragmentHeaderA.is_fragmenting_payload;
  unfold Ipv6FragmentHeaderA.identification, Ipv6FragmentHeaderA.more_fragments,
    Ipv6FragmentHeaderA.fragment_offset, Ipv6FragmentHeaderA.next_header.

Lemma frag_accessors_ok h : wf_frag h -> Forall nobug (Ipv6FragmentHeaderA.accessors h).
Proof. unfold wf_frag. intros L. unfold Ipv6FragmentHeaderA.accessors. forall_ok unf_frag. Qed.

(* ---- UDP ------------------------------------------------------------------------------------------ *)
Definition wf_udph (h : slice) : Prop := s_len h = 8.
Definition wf_udp (s : slice) : Prop := 8 <= s_len s.

Lemma udph_wf s h : UdpSlice.header_from_slice s = Ok h -> wf_udph h /\ sub_of h s.
Proof.
  unfold UdpSlice.header_from_slice. destruct (s_len s <? 8) eqn:E; unfold lerr; [discriminate|].
  intros H. split; [|now exists 0, 8]. now pose proof (subU_inv _ _ _ _ H) as (A1 & A2 & _).
Qed.

Lemma udp_wf s u : UdpSlice.from_slice s = Ok u -> wf_udp u /\ sub_of u s.
Proof.
  unfold UdpSlice.from_slice.
  destruct (UdpSlice.header_from_slice s) as [h| |] eqn:Eh; cbn [bind]; try discriminate.
  assert (L8 : 8 <= s_len s).
  { unfold UdpSlice.header_from_slice in Eh. destruct (s_len s <? 8) eqn:E; [discriminate|lia]. }
  destruct (UdpSlice.length h) as [l| |]; cbn [bind]; try discriminate.
  destruct (s_len s <? l) eqn:E1; unfold lerr; [discriminate|].
  destruct (l =? 0) eqn:E0.
  - intros X. injection X as <-. split; [exact L8|apply sub_of_refl].
  - destruct (l <? 8) eqn:E8; [discriminate|]. intros H. split; [|now exists 0, l].
    pose proof (subU_inv _ _ _ _ H) as (A1 & A2 & _). unfold wf_udp. lia.
Qed.

Lemma udp_lax_wf s u : UdpSlice.from_slice_lax s = Ok u -> wf_udp u /\ sub_of u s.
Proof.
  unfold UdpSlice.from_slice_lax.
  destruct (UdpSlice.header_from_slice s) as [h| |] eqn:Eh; cbn [bind]; try discriminate.
  assert (L8 : 8 <= s_len s).
  { unfold UdpSlice.header_from_slice in Eh. destruct (s_len s <? 8) eqn:E; [discriminate|lia]. }
  destruct (UdpSlice.length h) as [l| |]; cbn [bind]; try discriminate.
  destruct ((s_len s <? l) || (l <? 8)) eqn:E1.
  - intros X. injection X as <-. split; [exact L8|apply sub_of_refl].
  - intros H. split; [|now exists 0, l].
    pose proof (subU_inv _ _ _ _ H) as (A1 & A2 & _). unfold wf_udp. lia.
Qed.

Ltac unf_udp :=
  unfold UdpA.payload_len_source, UdpA.to_header;
  unfold UdpA.payload, UdpA.header_slice, UdpA.checksum, UdpA.length, UdpA.destination_port, UdpA.source_port.

Lemma udph_accessors_ok h : wf_udph h -> Forall nobug (UdpA.header_accessors h).
Proof. unfold wf_udph. intros L. unfold UdpA.header_accessors. forall_ok unf_udp. Qed.

Lemma udp_accessors_ok s : wf_udp s -> Forall nobug (UdpA.accessors s).
Proof.
  unfold wf_udp. intros L. unfold UdpA.accessors, UdpA.header_accessors. cbn [app]. forall_ok unf_udp.
Qed.

Lemma udp_windows_ok s : wf_udp s -> Forall (win_ok s) (UdpA.windows s).
Proof. unfold wf_udp. intros L. unfold UdpA.windows. forall_win unf_udp. Qed.

(* ---- TCP -------------------------------------------------------------------------------------------- *)
Lemma land240_byte b : N.land b 240 = N.land (b mod 256) 240.
Proof.
  change 240 with (N.land 255 240) at 1. rewrite N.land_assoc.
  change 255 with (N.ones 8). now rewrite N.land_ones.
Qed.

Definition all_bytes' : list N := map N.of_nat (seq 0 256).
Lemma byte_sweep' (P : N -> bool) :
  forallb P all_bytes' = true -> forall b, b < 256 -> P b = true.
Proof.
  intros H b Hb. rewrite forallb_forall in H. apply H.
  unfold all_bytes'. apply in_map_iff. exists (N.to_nat b). split; [lia|]. apply in_seq. lia.
Qed.

Lemma tcp_hl_le b : N.shiftr (N.land b 240) 2 <= 60.
Proof.
  rewrite land240_byte.
  assert (H : b mod 256 < 256) by (apply N.mod_lt; discriminate).
  apply N.leb_le.
  apply (byte_sweep' (fun x => N.shiftr (N.land x 240) 2 <=? 60)); [vm_compute; reflexivity|exact H].
Qed.

Lemma tcp_do_hl b : N.shiftr (N.land b 240) 4 * 4 = N.shiftr (N.land b 240) 2.
Proof.
  rewrite land240_byte.
  assert (H : b mod 256 < 256) by (apply N.mod_lt; discriminate).
  apply N.eqb_eq.
  apply (byte_sweep' (fun x => N.shiftr (N.land x 240) 4 * 4 =? N.shiftr (N.land x 240) 2));
    [vm_compute; reflexivity|exact H].
Qed.

Definition wf_tcp (x : N * slice) : Prop := 20 <= fst x /\ fst x <= s_len (snd x) /\ fst x <= 60.

Lemma tcp_wf s x : TcpSlice.from_slice s = Ok x -> wf_tcp x /\ snd x = s.
Proof.
  unfold TcpSlice.from_slice. destruct (s_len s <? 20) eqn:E; unfold lerr; cbn [bind]; [discriminate|].
  destruct (rdU s 12) as [b| |] eqn:E12; cbn [bind]; try discriminate.
  destruct (N.shiftr (N.land b 240) 2 <? 20) eqn:E1; [discriminate|].
  destruct (s_len s <? N.shiftr (N.land b 240) 2) eqn:E2; [discriminate|].
  intros X. injection X as <-. cbn [fst snd]. split; [|reflexivity].
  pose proof (tcp_hl_le b). unfold wf_tcp. cbn [fst snd]. lia.
Qed.

Ltac unf_tcpf :=
  unfold TcpFieldsA.fields;
  unfold TcpFieldsA.urgent_pointer, TcpFieldsA.checksum, TcpFieldsA.window_size, TcpFieldsA.cwr,
    TcpFieldsA.ece, TcpFieldsA.urg, TcpFieldsA.ack, TcpFieldsA.psh, TcpFieldsA.rst, TcpFieldsA.syn,
    TcpFieldsA.fin, TcpFieldsA.ns, TcpFieldsA.data_offset, TcpFieldsA.acknowledgment_number,
    TcpFieldsA.sequence_number, TcpFieldsA.destination_port, TcpFieldsA.source_port.

Lemma tcp_fields_ok s : 20 <= s_len s -> Forall nobug (TcpFieldsA.field_accessors s).
Proof. intros L. unfold TcpFieldsA.field_accessors. forall_ok unf_tcpf. Qed.

Lemma tcp_fields_okr s : 20 <= s_len s -> okr (TcpFieldsA.fields s).
Proof. intros L. unf_tcpf. oksolve. Qed.

Ltac unf_tcp :=
  unfold TcpSliceA.debug, TcpSliceA.to_header, TcpSliceA.checksum_windows;
  unfold TcpSliceA.options, TcpSliceA.payload, TcpSliceA.header_slice, idx_from,
    TcpFieldsA.to_header_options.

Lemma tcp_accessors_ok x : wf_tcp x -> Forall nobug (TcpSliceA.accessors x).
Proof.
  intros (L1 & L2 & L3). unfold TcpSliceA.accessors. apply Forall_app.
  split; [apply tcp_fields_ok; lia|].
  destruct (tcp_fields_okr (snd x)) as (f & Ef); [lia|].
  forall_ok unf_tcp.
Qed.

Lemma tcp_windows_ok x : wf_tcp x -> Forall (win_ok (snd x)) (TcpSliceA.windows x).
Proof. intros (L1 & L2 & L3). unfold TcpSliceA.windows. forall_win unf_tcp. Qed.

Definition wf_tcph (h : slice) : Prop :=
  20 <= s_len h /\ s_len h <= 60 /\
  exists b, rdU h 12 = Ok b /\ s_len h = N.shiftr (N.land b 240) 2.

Lemma tcph_wf s h : TcpHeaderSliceA.from_slice s = Ok h -> wf_tcph h /\ sub_of h s.
Proof.
  unfold TcpHeaderSliceA.from_slice. destruct (s_len s <? 20) eqn:E; unfold lerr; cbn [bind]; [discriminate|].
  destruct (rdU s 12) as [b| |] eqn:E12; cbn [bind]; try discriminate.
  destruct (N.shiftr (N.land b 240) 2 <? 20) eqn:E1; [discriminate|].
  destruct (s_len s <? N.shiftr (N.land b 240) 2) eqn:E2; [discriminate|].
  intros H. split; [|now exists 0, (N.shiftr (N.land b 240) 2)].
  pose proof (subU_inv _ _ _ _ H) as (A1 & A2 & _). pose proof (tcp_hl_le b).
  unfold wf_tcph. repeat split; try lia.
  exists b. rewrite (subU_rd s 0 _ h 12 H) by lia. rewrite N.add_0_l. auto.
Qed.

Ltac unf_tcph :=
  unfold TcpHeaderSliceA.to_header, TcpHeaderSliceA.checksum_windows;
  unfold TcpHeaderSliceA.options, TcpFieldsA.data_offset, TcpFieldsA.to_header_options.

Lemma tcph_accessors_ok h : wf_tcph h -> Forall nobug (TcpHeaderSliceA.accessors h).
Proof.
  intros (L1 & L2 & b & E12 & Lb). unfold TcpHeaderSliceA.accessors. apply Forall_app.
  split; [apply tcp_fields_ok; lia|].
  destruct (tcp_fields_okr h) as (f & Ef); [lia|].
  pose proof (tcp_do_hl b) as D. set (d := N.shiftr (N.land b 240) 4) in *.
  forall_ok unf_tcph.
Qed.

Lemma tcph_windows_ok h : wf_tcph h -> Forall (win_ok h) (TcpHeaderSliceA.windows h).
Proof.
  intros (L1 & L2 & b & E12 & Lb). unfold TcpHeaderSliceA.windows.
  pose proof (tcp_do_hl b) as D. set (d := N.shiftr (N.land b 240) 4) in *.
  forall_win unf_tcph.
Qed.

(* ---- ICMPv4 / ICMPv6 ------------------------------------------------------------------------------------ *)
Definition wf_icmp4 (s : slice) : Prop :=
  8 <= s_len s /\
  exists t c, rdU s 0 = Ok t /\ rdU s 1 = Ok c /\ (Icmpv4A.is_ts t c = true -> s_len s = 20).

Lemma icmp4_wf s v : Icmpv4Slice.from_slice s = Ok v -> v = s /\ wf_icmp4 v.
Proof.
  unfold Icmpv4Slice.from_slice. destruct (s_len s <? 8) eqn:E; unfold lerr; cbn [bind]; [discriminate|].
  destruct (rdU s 0) as [t| |] eqn:E0; cbn [bind]; try discriminate.
  destruct (rdU s 1) as [c| |] eqn:E1; cbn [bind]; try discriminate.
  destruct ((t =? 13) && (0 =? c) && negb (20 =? s_len s)) eqn:C13; [discriminate|].
  destruct ((t =? 14) && (0 =? c) && negb (20 =? s_len s)) eqn:C14; [discriminate|].
  intros X. injection X as <-. split; [reflexivity|]. split; [lia|].
  exists t, c. repeat split; auto. unfold Icmpv4A.is_ts. intros T. lia.
Qed.

Ltac unf_icmp4 :=
  unfold Icmpv4A.header, Icmpv4A.icmp_type, Icmpv4A.unknown, Icmpv4A.timestamp_message, Icmpv4A.payload,
    Icmpv4A.header_len;
  unfold Icmpv4A.bytes5to8, Icmpv4A.checksum, Icmpv4A.code_u8, Icmpv4A.type_u8.

Lemma icmp4_type_ok s : wf_icmp4 s -> okr (Icmpv4A.icmp_type s).
Proof.
  intros (L & t & c & E0 & E1 & T). unfold Icmpv4A.is_ts in T.
  unf_icmp4. rewrite E0, E1. cbn [bind].
  destruct ((t =? 13) && (0 =? c)) eqn:C13.
  { assert (L20 : s_len s = 20) by (apply T; lia). oksolve. }
  destruct ((t =? 14) && (0 =? c)) eqn:C14.
  { assert (L20 : s_len s = 20) by (apply T; lia). oksolve. }
  clear T. oksolve.
Qed.

Lemma icmp4_accessors_ok s : wf_icmp4 s -> Forall nobug (Icmpv4A.accessors s).
Proof.
  intros W. pose proof (icmp4_type_ok s W) as (ty & Ety).
  destruct W as (L & t & c & E0 & E1 & T).
  unfold Icmpv4A.accessors.
  do 5 (apply Forall_cons; [apply nobug_run, okr_nobug; unf_icmp4; oksolve|]).
  apply Forall_cons.
  { apply nobug_run, okr_nobug. unf_icmp4. rewrite E0, E1. cbn [bind].
    destruct (Icmpv4A.is_ts t c) eqn:C; [specialize (T eq_refl)|]; oksolve. }
  apply Forall_cons; [apply nobug_run, okr_nobug; eexists; exact Ety|].
  apply Forall_cons; [|apply Forall_nil].
  apply nobug_run, okr_nobug. unfold Icmpv4A.header. rewrite Ety. cbn [bind]. unf_icmp4. oksolve.
Qed.

Lemma icmp4_windows_ok s : wf_icmp4 s -> Forall (win_ok s) (Icmpv4A.windows s).
Proof.
  intros (L & t & c & E0 & E1 & T). unfold Icmpv4A.windows. repeat constructor.
  unfold win_ok. unf_icmp4. rewrite E0, E1. cbn [bind].
  destruct (Icmpv4A.is_ts t c) eqn:C; [specialize (T eq_refl)|]; winsolve.
Qed.

Definition wf_icmp6 (s : slice) : Prop := 8 <= s_len s.

Lemma icmp6_wf s v : Icmpv6Slice.from_slice s = Ok v -> v = s /\ wf_icmp6 v.
Proof.
  unfold Icmpv6Slice.from_slice. destruct (s_len s <? 8) eqn:E; unfold lerr; [discriminate|].
  destruct (Icmpv6Slice.MAX_LEN <? s_len s); [discriminate|].
  intros X. injection X as <-. split; [reflexivity|]. unfold wf_icmp6. lia.
Qed.

Ltac unf_icmp6 :=
  unfold Icmpv6A.header, Icmpv6A.icmp_type;
  unfold Icmpv6A.payload, Icmpv6A.bytes5to8, Icmpv6A.checksum, Icmpv6A.code_u8, Icmpv6A.type_u8.

Lemma icmp6_accessors_ok s : wf_icmp6 s -> Forall nobug (Icmpv6A.accessors s).
Proof. unfold wf_icmp6. intros L. unfold Icmpv6A.accessors. forall_ok unf_icmp6. Qed.

Lemma icmp6_windows_ok s : wf_icmp6 s -> Forall (win_ok s) (Icmpv6A.windows s).
Proof. unfold wf_icmp6. intros L. unfold Icmpv6A.windows. forall_win unf_icmp6. Qed.

(* ---- inversion of the monad ------------------------------------------------------------------------------ *)
Lemma bind_inv {A B} (r : res A) (f : A -> res B) y :
  bind r f = Ok y -> exists x, r = Ok x /\ f x = Ok y.
Proof. destruct r; cbn; intros H; try discriminate. eauto. Qed.

Lemma map_len_err_inv {A} f (r : res A) x : map_len_err f r = Ok x -> r = Ok x.
Proof. destruct r as [a|[e|c]|b]; cbn; intros H; try discriminate; exact H. Qed.

Ltac binv H x E := apply bind_inv in H; destruct H as (x & E & H).

(* ---- IPv6 extension chain: the iterator re-walks what from_slice validated --------------------------------- *)
(* I is the first u bytes of W (same pointer) *)
Definition pre (u : N) (I W : slice) : Prop :=
  fst I = fst W /\ snd I = take u (snd W) /\ u <= s_len W.

Lemma pre_len u I W : pre u I W -> s_len I = u.
Proof. intros (_ & E & L). unfold s_len in *. rewrite E, len_take. lia. Qed.

Lemma pre_rd u I W i : pre u I W -> i < u -> rdU I i = rdU W i.
Proof.
  intros (_ & E & L) Hi. unfold rdU, rd. rewrite E. unfold take.
  rewrite nth_error_firstn_lt by lia. reflexivity.
Qed.

Lemma pre_subU u I W k n : pre u I W -> k + n <= u -> subU I k n = subU W k n.
Proof.
  intros P H. pose proof (pre_len _ _ _ P) as LI. destruct P as (E1 & E2 & L). unfold subU.
  rewrite LI. destruct (k + n <=? u) eqn:A; [|lia]. destruct (k + n <=? s_len W) eqn:B; [|lia].
  rewrite E1, E2. f_equal. f_equal. unfold take, drop. apply firstn_skipn_firstn. lia.
Qed.

Lemma pre_rest u I W l I' W' :
  pre u I W -> l <= u -> subU I l (u - l) = Ok I' -> subU W l (s_len W - l) = Ok W' ->
  pre (u - l) I' W'.
Proof.
  intros P Hl HI HW. pose proof (pre_len _ _ _ P) as LI. destruct P as (E1 & E2 & L).
  apply subU_inv in HI. destruct HI as (_ & _ & _ & ->).
  pose proof (subU_inv _ _ _ _ HW) as (_ & LW' & _ & ->). unfold pre. cbn [fst snd].
  split; [now rewrite E1|]. split.
  - rewrite E2. unfold take, drop. rewrite firstn_skipn_firstn by lia.
    rewrite firstn_firstn. f_equal. lia.
  - rewrite LW'. lia.
Qed.

Definition item_wf (x : ext_item) : Prop :=
  match x with
  | XHopByHop s | XRouting s | XDestinationOptions s => wf_raw s
  | XFragment s => wf_frag s
  | XAuthentication s => wf_ah s
  end.

(* consecutive windows from pos to endp *)
Fixpoint tiles (pos : N) (ws : list window) (endp : N) : Prop :=
  match ws with
  | [] => pos = endp
  | (o, l) :: r => o = pos /\ tiles (pos + l) r endp
  end.

Definition item_win (x : ext_item) : window := win_of (ext_item_slice x).

Import Ipv6ExtIterA.

(* one arm of Iterator::next, given that the unchecked constructor returns the
   header sl = W[0..l] that from_slice validated *)
Lemma arm_ok I W u l sl W' mk nhf wrap nx nh0 :
  pre u I W -> l <= u -> subU W 0 l = Ok sl -> mk I = Ok sl -> nhf sl = Ok nx ->
  subU W l (s_len W - l) = Ok W' ->
  exists I', arm (mkExtIter nh0 I) mk nhf wrap = Ok (Some (wrap sl, mkExtIter nx I')) /\
             pre (u - l) I' W' /\ sub_of I' I.
Proof.
  intros P Hl Hsl Hmk Hnh HW'. pose proof (pre_len _ _ _ P) as LI.
  pose proof (subU_inv _ _ _ _ Hsl) as (_ & Lsl & _).
  unfold arm. cbn [xi_rest]. rewrite Hmk. cbn [bind]. rewrite Lsl, LI.
  rewrite subN_ok by lia. cbn [bind].
  destruct (subU_ok I l (u - l)) as (I' & E & _ & _); [lia|]. rewrite E. cbn [bind].
  rewrite Hnh. cbn [bind]. exists I'. split; [reflexivity|]. split.
  - eapply pre_rest; eauto.
  - now exists l, (u - l).
Qed.

Lemma raw_inv s h :
  Ipv6RawExtHeaderSlice.from_slice s = Ok h ->
  exists b, rdU s 1 = Ok b /\ subU s 0 ((b + 1) * 8) = Ok h /\ (b + 1) * 8 <= s_len s.
Proof.
  unfold Ipv6RawExtHeaderSlice.from_slice. destruct (s_len s <? 8) eqn:E; unfold lerr; cbn [bind]; [discriminate|].
  destruct (rd (snd s) 1) as [b|] eqn:E1; cbn [bind]; try discriminate.
  destruct (s_len s <? (b + 1) * 8) eqn:El; [discriminate|].
  intros H. exists b. unfold rdU. rewrite E1. repeat split; auto. lia.
Qed.

Lemma frag_inv s h :
  Ipv6FragmentHeaderSlice.from_slice s = Ok h -> subU s 0 8 = Ok h /\ 8 <= s_len s.
Proof.
  unfold Ipv6FragmentHeaderSlice.from_slice. destruct (s_len s <? 8) eqn:E; unfold lerr; [discriminate|].
  intros H. split; [exact H|lia].
Qed.

Lemma ah_inv s h :
  IpAuthHeaderSlice.from_slice s = Ok h ->
  exists p, rdU s 1 = Ok p /\ 1 <= p /\ subU s 0 ((p + 2) * 4) = Ok h /\ (p + 2) * 4 <= s_len s.
Proof.
  unfold IpAuthHeaderSlice.from_slice. destruct (s_len s <? 12) eqn:E; unfold lerr; cbn [bind]; [discriminate|].
  destruct (rdU s 1) as [p| |] eqn:E1; cbn [bind]; try discriminate.
  destruct (p <? 1) eqn:Ep; [discriminate|].
  destruct (s_len s <? (p + 2) * 4) eqn:El; [discriminate|].
  intros H. exists p. repeat split; auto; lia.
Qed.

Definition chain_good (pos0 : N) (I : slice) (u : N) (items : list ext_item) : Prop :=
  8 * len items <= u /\
  tiles pos0 (map item_win items) (pos0 + u) /\
  Forall item_wf items /\
  Forall (fun x => sub_of (ext_item_slice x) I) items.

Lemma chain_good_cons I I' W sl l u x r :
  pre u I W -> subU W 0 l = Ok sl -> ext_item_slice x = sl -> item_wf x -> 8 <= l -> l <= u ->
  sub_of I' I -> chain_good (s_off W + l) I' (u - l) r ->
  chain_good (s_off W) I u (x :: r).
Proof.
  intros P Hsl Ex Wx L8 Lu SI (G1 & G2 & G3 & G4).
  pose proof (subU_inv _ _ _ _ Hsl) as (_ & Lsl & Osl & _).
  unfold chain_good. rewrite len_cons. split; [lia|]. split.
  - cbn [map tiles]. unfold item_win at 1. rewrite Ex. unfold win_of. rewrite Lsl, Osl.
    split; [lia|]. replace (s_off W + u) with (s_off W + l + (u - l)) by lia. exact G2.
  - split; [constructor; auto|]. constructor.
    + rewrite Ex. exists 0, l. rewrite (pre_subU u I W 0 l P) by lia. exact Hsl.
    + eapply Forall_impl; [|exact G4]. intros y Hy. exact (sub_of_trans _ _ _ Hy SI).
Qed.

Lemma next_empty nh I : s_len I = 0 -> next (mkExtIter nh I) = Ok None.
Proof. intros H. unfold next. cbn [xi_rest]. now rewrite H. Qed.

Lemma walk_collect fuel start_len :
  forall W nh fr Wf nhf frf,
    Ipv6ExtensionsSlice.walk fuel start_len W nh fr = Ok (Wf, nhf, frf) ->
    s_len Wf <= s_len W /\ sub_of Wf W /\
    forall I fuel2, pre (s_len W - s_len Wf) I W -> (N.to_nat (s_len W - s_len Wf) < fuel2)%nat ->
      exists items, collect fuel2 (mkExtIter nh I) = Ok items /\
                    chain_good (s_off W) I (s_len W - s_len Wf) items.
Proof.
  induction fuel as [|f IH]; intros W nh fr Wf nhf frf H; [discriminate|].
  cbn [Ipv6ExtensionsSlice.walk] in H.
  change IPN_HOP_BY_HOP with 0 in H. change IPN_DEST_OPTIONS with 60 in H.
  change IPN_ROUTE with 43 in H. change IPN_FRAG with 44 in H. change IPN_AUTH with 51 in H.
  destruct (nh =? 0) eqn:E0; [discriminate|].
  (* the common part of the three continuing arms *)
  assert (Step : forall sl l nx fr' mk wrap,
            subU W 0 l = Ok sl -> 8 <= l -> l <= s_len W ->
            (forall I u, pre u I W -> l <= u -> mk I = Ok sl) ->
            rdU sl 0 = Ok nx -> item_wf (wrap sl) -> ext_item_slice (wrap sl) = sl ->
            (forall I, next (mkExtIter nh I) =
                       if s_len I =? 0 then Ok None else arm (mkExtIter nh I) mk (fun s => rdU s 0) wrap) ->
            (let* n := subN (s_len W) (s_len sl) in
             let* rest' := subU W (s_len sl) n in
             let* nh' := Ok nx in
             Ipv6ExtensionsSlice.walk f start_len rest' nh' fr') = Ok (Wf, nhf, frf) ->
            s_len Wf <= s_len W /\ sub_of Wf W /\
            forall I fuel2, pre (s_len W - s_len Wf) I W -> (N.to_nat (s_len W - s_len Wf) < fuel2)%nat ->
              exists items, collect fuel2 (mkExtIter nh I) = Ok items /\
                            chain_good (s_off W) I (s_len W - s_len Wf) items).
  { intros sl l nx fr' mk wrap Hsl L8 Ll Hmk Hnx Hwf Hsl' Hnext HK.
    pose proof (subU_inv _ _ _ _ Hsl) as (_ & Lsl & _).
    rewrite Lsl in HK. rewrite subN_ok in HK by lia. cbn [bind] in HK.
    binv HK W' EW'. cbn [bind] in HK.
    pose proof (subU_inv _ _ _ _ EW') as (_ & LW' & OW' & _).
    destruct (IH _ _ _ _ _ _ HK) as (A1 & A2 & A3).
    split; [lia|]. split; [eapply sub_of_trans; [exact A2|now exists l, (s_len W - l)]|].
    intros I fuel2 P Hf. set (u := s_len W - s_len Wf) in *.
    assert (Lu : l <= u) by (subst u; lia).
    destruct fuel2 as [|f2]; [lia|]. cbn [collect].
    rewrite Hnext. rewrite (pre_len _ _ _ P). destruct (u =? 0) eqn:Eu; [lia|].
    destruct (arm_ok I W u l sl W' mk (fun s => rdU s 0) wrap nx nh P Lu Hsl (Hmk I u P Lu) Hnx EW')
      as (I' & -> & P' & SI). cbn [bind].
    replace (u - l) with (s_len W' - s_len Wf) in P' by (subst u; lia).
    destruct (A3 I' f2 P') as (r & -> & G); [subst u; lia|]. cbn [bind].
    eexists. split; [reflexivity|].
    eapply (chain_good_cons I I' W sl l u); eauto.
    rewrite <- OW'. replace (u - l) with (s_len W' - s_len Wf) by (subst u; lia). exact G. }
  destruct ((nh =? 60) || (nh =? 43)) eqn:Eraw.
  { binv H off Eoff. binv H sl Esl. apply map_len_err_inv in Esl.
    destruct (raw_inv _ _ Esl) as (b & E1 & Hsl & Ll).
    pose proof (raw_wf _ _ Esl) as (Wsl & _).
    binv H n En. binv H rest' Er. binv H nx Enx. unfold Ipv6RawExtHeaderSlice.next_header in Enx.
    destruct (nh =? 43) eqn:E43.
    - apply (Step sl ((b + 1) * 8) nx fr Ipv6RawExtHeaderA.from_slice_unchecked XRouting); auto; try lia.
      + intros I u P Lu. unfold Ipv6RawExtHeaderA.from_slice_unchecked.
        rewrite (pre_rd u I W 1 P) by lia. rewrite E1. cbn [bind]. rewrite (pre_subU u I W 0 ((b + 1) * 8) P) by lia. exact Hsl.
      + intros I. unfold next. cbn [xi_rest xi_next_header].
        change IPN_HOP_BY_HOP with 0. change IPN_ROUTE with 43. rewrite E0, E43. reflexivity.
      + rewrite En. cbn [bind]. rewrite Er. cbn [bind]. exact H.
    - assert (E60 : (nh =? 60) = true) by lia.
      apply (Step sl ((b + 1) * 8) nx fr Ipv6RawExtHeaderA.from_slice_unchecked XDestinationOptions); auto; try lia.
      + intros I u P Lu. unfold Ipv6RawExtHeaderA.from_slice_unchecked.
        rewrite (pre_rd u I W 1 P) by lia. rewrite E1. cbn [bind]. rewrite (pre_subU u I W 0 ((b + 1) * 8) P) by lia. exact Hsl.
      + intros I. unfold next. cbn [xi_rest xi_next_header].
        change IPN_HOP_BY_HOP with 0. change IPN_ROUTE with 43. change IPN_DEST_OPTIONS with 60.
        rewrite E0, E43, E60. reflexivity.
      + rewrite En. cbn [bind]. rewrite Er. cbn [bind]. exact H. }
  destruct (nh =? 44) eqn:Efrag.
  { binv H off Eoff. binv H sl Esl. apply map_len_err_inv in Esl.
    destruct (frag_inv _ _ Esl) as (Hsl & Ll).
    pose proof (frag_wf _ _ Esl) as (Wsl & _).
    binv H n En. binv H rest' Er. binv H nx Enx. unfold Ipv6FragmentHeaderSlice.next_header in Enx.
    binv H fr2 Efr.
    apply (Step sl 8 nx (fr || fr2) Ipv6FragmentHeaderA.from_slice_unchecked XFragment); auto; try lia.
    + intros I u P Lu. unfold Ipv6FragmentHeaderA.from_slice_unchecked.
      rewrite (pre_subU u I W 0 8 P) by lia. exact Hsl.
    + intros I. unfold next. cbn [xi_rest xi_next_header].
      change IPN_HOP_BY_HOP with 0. change IPN_ROUTE with 43. change IPN_DEST_OPTIONS with 60.
      change IPN_FRAG with 44.
      assert ((nh =? 43) = false) as -> by lia. assert ((nh =? 60) = false) as -> by lia.
      rewrite E0, Efrag. reflexivity.
    + rewrite En. cbn [bind]. rewrite Er. cbn [bind]. exact H. }
  destruct (nh =? 51) eqn:Eauth.
  { binv H off Eoff. binv H sl Esl.
    assert (Esl' : IpAuthHeaderSlice.from_slice W = Ok sl).
    { destruct (IpAuthHeaderSlice.from_slice W) as [a|[e|c]|b]; try discriminate; exact Esl. }
    destruct (ah_inv _ _ Esl') as (p & E1 & P1 & Hsl & Ll).
    pose proof (ah_wf _ _ Esl') as (Wsl & _).
    binv H n En. binv H rest' Er. binv H nx Enx. unfold IpAuthHeaderSlice.next_header in Enx.
    apply (Step sl ((p + 2) * 4) nx fr auth_from_slice_unchecked XAuthentication); auto; try lia.
    + intros I u P Lu. unfold auth_from_slice_unchecked.
      rewrite (pre_rd u I W 1 P) by lia. rewrite E1. cbn [bind]. rewrite (pre_subU u I W 0 ((p + 2) * 4) P) by lia. exact Hsl.
    + intros I. unfold next. cbn [xi_rest xi_next_header].
      change IPN_HOP_BY_HOP with 0. change IPN_ROUTE with 43. change IPN_DEST_OPTIONS with 60.
      change IPN_FRAG with 44. change IPN_AUTH with 51.
      assert ((nh =? 43) = false) as -> by lia. assert ((nh =? 60) = false) as -> by lia.
      rewrite E0, Efrag, Eauth. reflexivity.
    + rewrite En. cbn [bind]. rewrite Er. cbn [bind]. exact H. }
  (* end of the chain *)
  injection H as <- <- <-. split; [lia|]. split; [apply sub_of_refl|].
  intros I fuel2 P Hf. rewrite N.sub_diag in *. destruct fuel2 as [|f2]; [lia|].
  cbn [collect]. rewrite next_empty by (now apply pre_len in P). cbn [bind].
  exists []. split; [reflexivity|]. unfold chain_good. cbn. repeat split; auto; lia.
Qed.

(* ---- Ipv6ExtensionsSlice::from_slice establishes what the iterator needs ------------------------------------ *)
Definition exts_good (x : ipv6_exts_slice) : Prop :=
  exists l, items x = Ok l /\
            chain_good (s_off (x6_slice x)) (x6_slice x) (s_len (x6_slice x)) l.

Lemma subN_inv a b c : subN a b = Ok c -> b <= a /\ c = a - b.
Proof. unfold subN. destruct (b <=? a) eqn:E; [|discriminate]. intros X. injection X as <-. split; [lia|reflexivity]. Qed.

Lemma drop_as_sub s l : l <= s_len s -> subU s l (s_len s - l) = Ok (fst s + l, drop l (snd s)).
Proof.
  intros H. unfold subU. destruct (l + (s_len s - l) <=? s_len s) eqn:E; [|lia].
  f_equal. f_equal. unfold take, drop. apply firstn_all2. rewrite skipn_length.
  unfold s_len, len in *. lia.
Qed.

Lemma take_as_sub s u : u <= s_len s -> subU s 0 u = Ok (fst s, take u (snd s)).
Proof.
  intros H. unfold subU. destruct (0 + u <=? s_len s) eqn:E; [|lia]. now rewrite N.add_0_r.
Qed.

Lemma pre_take s u : u <= s_len s -> pre u (fst s, take u (snd s)) s.
Proof. intros H. unfold pre. cbn [fst snd]. auto. Qed.

Lemma s_len_length (s : slice) : length (snd s) = N.to_nat (s_len s).
Proof. unfold s_len, len. lia. Qed.

Lemma exts_good_from_slice nh s x nx rest :
  Ipv6ExtensionsSlice.from_slice nh s = Ok (x, nx, rest) ->
  exts_good x /\ sub_of (x6_slice x) s /\ sub_of rest s.
Proof.
  unfold Ipv6ExtensionsSlice.from_slice. intros H.
  binv H st Est. destruct st as (rest0, nh0).
  binv H w Ew. destruct w as ((restf, nxf), frf).
  binv H used Eu. apply subN_inv in Eu. destruct Eu as (Lr & ->).
  binv H sl Esl.
  destruct (s_len s - s_len restf <=? s_len s) eqn:Eus; [|discriminate]. injection Esl as <-.
  injection H as <- <- <-. cbn [x6_slice].
  set (used := s_len s - s_len restf) in *.
  set (I := (fst s, take used (snd s))).
  assert (PI : pre used I s) by (apply pre_take; lia).
  assert (LI : s_len I = used) by (now apply pre_len in PI).
  assert (SI : sub_of I s) by (exists 0, used; apply take_as_sub; lia).
  change IPN_HOP_BY_HOP with 0 in Est.
  destruct (0 =? nh) eqn:Ehbh.
  - (* hop-by-hop header first *)
    assert (nh = 0) by lia. subst nh.
    binv Est sl0 Esl0. binv Est r0 Er0. binv Est n0 En0. injection Est as <- <-.
    destruct (s_len sl0 <=? s_len s) eqn:El0; [|discriminate]. injection Er0 as <-.
    destruct (raw_inv _ _ Esl0) as (b & E1 & Hsl0 & Ll0).
    pose proof (raw_wf _ _ Esl0) as (Wsl0 & _).
    pose proof (subU_inv _ _ _ _ Hsl0) as (_ & Lsl0 & _). rewrite Lsl0 in *.
    set (l0 := (b + 1) * 8) in *.
    assert (HW' : subU s l0 (s_len s - l0) = Ok (fst s + l0, drop l0 (snd s))) by (apply drop_as_sub; lia).
    set (W' := (fst s + l0, drop l0 (snd s))) in *.
    pose proof (subU_inv _ _ _ _ HW') as (_ & LW' & OW' & _).
    destruct (walk_collect _ _ _ _ _ _ _ _ Ew) as (A1 & A2 & A3).
    assert (L8 : 8 <= l0) by (subst l0; lia).
    assert (Lu : l0 <= used) by (subst used; lia).
    split; [|split; [exact SI|eapply sub_of_trans; [exact A2|now exists l0, (s_len s - l0)]]].
    unfold exts_good, items, into_iter. cbn [x6_slice x6_first].
    assert ((s_len restf =? s_len s) = false) as -> by lia. cbn [negb].
    fold I. rewrite s_len_length, LI. cbn [collect].
    unfold next at 1. cbn [xi_rest xi_next_header]. rewrite LI.
    destruct (used =? 0) eqn:Eu0; [lia|]. change IPN_HOP_BY_HOP with 0. rewrite N.eqb_refl.
    unfold Ipv6RawExtHeaderSlice.next_header in En0.
    destruct (arm_ok I s used l0 sl0 W' Ipv6RawExtHeaderA.from_slice_unchecked Ipv6RawExtHeaderA.next_header
                XHopByHop n0 0 PI Lu Hsl0) as (I' & -> & P' & SI'); auto.
    { unfold Ipv6RawExtHeaderA.from_slice_unchecked. rewrite (pre_rd used I s 1 PI) by lia.
      rewrite E1. cbn [bind]. fold l0. rewrite (pre_subU used I s 0 l0 PI) by lia. exact Hsl0. }
    cbn [bind].
    replace (used - l0) with (s_len W' - s_len restf) in P' by (subst used; lia).
    destruct (A3 I' (N.to_nat used) P') as (r & -> & G); [subst used; lia|]. cbn [bind].
    eexists. split; [reflexivity|].
    change (s_off I) with (s_off s).
    eapply (chain_good_cons I I' s sl0 l0 used); eauto.
    rewrite <- OW'. replace (used - l0) with (s_len W' - s_len restf) by (subst used; lia). exact G.
  - injection Est as <- <-.
    destruct (walk_collect _ _ _ _ _ _ _ _ Ew) as (A1 & A2 & A3).
    split; [|split; [exact SI|exact A2]].
    unfold exts_good, items, into_iter. cbn [x6_slice x6_first]. fold I.
    rewrite s_len_length, LI. change (s_off I) with (s_off s).
    destruct (s_len restf =? s_len s) eqn:Eall; cbn [negb].
    + assert (U0 : used = 0) by (subst used; lia).
      cbn [collect]. rewrite next_empty by lia. cbn [bind]. exists []. split; [reflexivity|].
      rewrite U0. unfold chain_good. cbn. repeat split; auto; lia.
    + destruct (A3 I (S (N.to_nat used)) PI) as (r & E & G); [lia|]. exists r. split; [exact E|exact G].
Qed.

(* the C02 facts about the iteration, stated on the list of yielded items *)
Lemma chain_good_bounded pos I u l : chain_good pos I u l -> 8 * len l <= u.
Proof. now intros (H & _). Qed.

(* ---- Ipv4Slice / Ipv6Slice / IpSlice --------------------------------------------------------------------------- *)
Definition wf_ipv4 (v : ipv4_slice) : Prop :=
  wf_ipv4h (v4_header v) /\ match v4_auth v with Some a => wf_ah a | None => True end.
Definition ipv4_in (v : ipv4_slice) (s : slice) : Prop :=
  sub_of (v4_header v) s /\ match v4_auth v with Some a => sub_of a s | None => True end /\
  sub_of (ipp_slice (v4_payload v)) s.

Lemma ipv4_finish_wf header hp v :
  Ipv4Slice.finish header hp = Ok v ->
  v4_header v = header /\
  match v4_auth v with Some a => wf_ah a /\ sub_of a hp | None => True end /\
  sub_of (ipp_slice (v4_payload v)) hp.
Proof.
  unfold Ipv4Slice.finish. intros H. binv H fr Efr. binv H proto Ep.
  destruct (proto =? IPN_AUTH).
  - binv H auth Ea.
    assert (Ea' : IpAuthHeaderSlice.from_slice hp = Ok auth).
    { destruct (IpAuthHeaderSlice.from_slice hp) as [a|[e|c]|b]; try discriminate; exact Ea. }
    binv H n En. binv H payload Epl. binv H ipn Eipn. injection H as <-. cbn.
    apply ah_wf in Ea'. destruct Ea' as (Wa & Sa). repeat split; auto.
    now exists (s_len auth), n.
  - injection H as <-. cbn. repeat split; auto. apply sub_of_refl.
Qed.

Lemma ipv4_pack v header hp s :
  wf_ipv4h header -> sub_of header s -> sub_of hp s -> v4_header v = header ->
  match v4_auth v with Some a => wf_ah a /\ sub_of a hp | None => True end ->
  sub_of (ipp_slice (v4_payload v)) hp -> wf_ipv4 v /\ ipv4_in v s.
Proof.
  intros Wh Sh Shp E1 E2 E3. unfold wf_ipv4, ipv4_in. rewrite E1.
  pose proof (sub_of_trans _ _ _ E3 Shp) as S3.
  destruct (v4_auth v) as [a|].
  - destruct E2 as (Wa & Sa). pose proof (sub_of_trans _ _ _ Sa Shp) as S2. tauto.
  - tauto.
Qed.

Lemma ipv4_wf s v : Ipv4Slice.from_slice s = Ok v -> wf_ipv4 v /\ ipv4_in v s.
Proof.
  unfold Ipv4Slice.from_slice. intros H. binv H header Eh. binv H total Et.
  destruct (total <? s_len header); unfold lerr in H; [discriminate|].
  destruct (s_len s <? total); [discriminate|].
  binv H n En. binv H hp Ehp.
  apply ipv4h_wf in Eh. destruct Eh as (Wh & Sh).
  assert (Shp : sub_of hp s) by (now exists (s_len header), n).
  apply ipv4_finish_wf in H. destruct H as (E1 & E2 & E3).
  eapply ipv4_pack; eauto.
Qed.

Definition wf_ipv6 (v : ipv6_slice) : Prop := wf_ipv6h (v6_header v) /\ exts_good (v6_exts v).
Definition ipv6_in (v : ipv6_slice) (s : slice) : Prop :=
  sub_of (v6_header v) s /\ sub_of (x6_slice (v6_exts v)) s /\ sub_of (ipp_slice (v6_payload v)) s.

Lemma ipv6_finish_wf s header v :
  Ipv6Slice.finish s header = Ok v ->
  v6_header v = header /\ exts_good (v6_exts v) /\
  sub_of (x6_slice (v6_exts v)) s /\ sub_of (ipp_slice (v6_payload v)) s.
Proof.
  unfold Ipv6Slice.finish. intros H. binv H pl Epl. binv H hp Ehp. destruct hp as (hp, src).
  assert (Shp : sub_of hp s).
  { destruct ((0 =? pl) && (40 <? s_len s)).
    - binv Ehp n En. binv Ehp p Ep. injection Ehp as <- <-. now exists 40, n.
    - destruct (s_len s <? 40 + pl); unfold lerr in Ehp; [discriminate|].
      binv Ehp p Ep. injection Ehp as <- <-. now exists 40, pl. }
  binv H nh Enh. binv H x Ex. destruct x as ((exts, pn), payload). injection H as <-. cbn.
  assert (Ex' : Ipv6ExtensionsSlice.from_slice nh hp = Ok (exts, pn, payload)).
  { destruct (Ipv6ExtensionsSlice.from_slice nh hp) as [a|[e|c]|b]; try discriminate; exact Ex. }
  apply exts_good_from_slice in Ex'. destruct Ex' as (G & S1 & S2).
  pose proof (sub_of_trans _ _ _ S1 Shp). pose proof (sub_of_trans _ _ _ S2 Shp). tauto.
Qed.

Lemma ipv6_wf s v : Ipv6Slice.from_slice s = Ok v -> wf_ipv6 v /\ ipv6_in v s.
Proof.
  unfold Ipv6Slice.from_slice. intros H. binv H header Eh.
  apply ipv6h_wf in Eh. destruct Eh as (Wh & Sh).
  apply ipv6_finish_wf in H. destruct H as (E1 & E2 & E3 & E4).
  unfold wf_ipv6, ipv6_in. rewrite E1. auto.
Qed.

Lemma ip_wf s i :
  IpSlice.from_slice s = Ok i ->
  match i with
  | IpV4 v => wf_ipv4 v /\ ipv4_in v s
  | IpV6 v => wf_ipv6 v /\ ipv6_in v s
  end.
Proof.
  unfold IpSlice.from_slice. destruct (s_len s =? 0); unfold lerr; [discriminate|]. intros H.
  binv H fb Efb. destruct (N.shiftr fb 4 =? 4).
  - destruct (N.land fb 15 <? 5) eqn:Ei; [discriminate|].
    destruct (s_len s <? N.land fb 15 * 4) eqn:El; [discriminate|].
    binv H header Eh. binv H total Et.
    destruct (total <? N.land fb 15 * 4); [discriminate|].
    destruct (s_len s <? total); [discriminate|].
    binv H n En. binv H hp Ehp. binv H v Ev. injection H as <-.
    pose proof (subU_inv _ _ _ _ Eh) as (_ & Lh & _). pose proof (land15_le fb).
    assert (Wh : wf_ipv4h header) by (unfold wf_ipv4h; lia).
    assert (Sh : sub_of header s) by (now exists 0, (N.land fb 15 * 4)).
    assert (Shp : sub_of hp s) by (now exists (N.land fb 15 * 4), n).
    apply ipv4_finish_wf in Ev. destruct Ev as (E1 & E2 & E3).
    eapply ipv4_pack; eauto.
  - destruct (N.shiftr fb 4 =? 6); [|discriminate].
    destruct (s_len s <? 40) eqn:El; [discriminate|].
    binv H header Eh. binv H v Ev. injection H as <-.
    pose proof (subU_inv _ _ _ _ Eh) as (_ & Lh & _).
    apply ipv6_finish_wf in Ev. destruct Ev as (E1 & E2 & E3 & E4).
    assert (sub_of header s) by (now exists 0, 40).
    unfold wf_ipv6, ipv6_in, wf_ipv6h. rewrite E1. tauto.
Qed.

Lemma ipv4_accessors_ok v :
  wf_ipv4 v -> match v4_auth v with Some a => bytes_ok (snd a) | None => True end ->
  Forall nobug (Ipv4SliceA.accessors v).
Proof.
  intros (Wh & Wa) Hok. unfold Ipv4SliceA.accessors.
  pose proof (ipv4h_accessors_ok _ Wh) as F.
  apply Forall_app. split; [exact F|]. apply Forall_app. split.
  - destruct (v4_auth v) as [a|]; [|constructor].
    apply Forall_app. split; [now apply ah_accessors_ok|now apply ah_conversions_ok].
  - repeat constructor. unfold Ipv4SliceA.is_payload_fragmented.
    unfold Ipv4HeaderA.accessors in F. rewrite Forall_forall in F. apply F. cbn. tauto.
Qed.

Lemma ipv4_windows_ok v :
  wf_ipv4 v -> Forall (fun r => exists w, r = Ok w /\
                         (sub_of w (v4_header v) \/ match v4_auth v with Some a => sub_of w a | None => False end))
                      (Ipv4SliceA.windows v).
Proof.
  intros (Wh & Wa). unfold Ipv4SliceA.windows. apply Forall_app. split.
  - eapply Forall_impl; [|apply (ipv4h_windows_ok _ Wh)]. intros r (w & E & S). eauto.
  - destruct (v4_auth v) as [a|]; [|constructor].
    eapply Forall_impl; [|apply (ah_windows_ok _ Wa)]. intros r (w & E & S). eauto.
Qed.

Lemma item_accessors_ok x : item_wf x -> bytes_ok (snd (ext_item_slice x)) -> Forall nobug (item_accessors x).
Proof.
  destruct x; cbn [item_wf ext_item_slice item_accessors]; intros W Hok;
    try (apply Forall_app; split; [now apply raw_accessors_ok|now apply raw_conversions_ok]).
  - now apply frag_accessors_ok.
  - apply Forall_app; split; [now apply ah_accessors_ok|now apply ah_conversions_ok].
Qed.

Lemma item_windows_ok x : item_wf x -> Forall (win_ok (ext_item_slice x)) (item_windows x).
Proof.
  destruct x; cbn [item_wf ext_item_slice item_windows]; intros W;
    try (now apply raw_windows_ok); [constructor|now apply ah_windows_ok].
Qed.

Lemma ipv6_accessors_ok v :
  wf_ipv6 v -> bytes_ok (snd (x6_slice (v6_exts v))) -> Forall nobug (Ipv6SliceA.accessors v).
Proof.
  intros (Wh & l & El & G) Hok. unfold Ipv6SliceA.accessors.
  apply Forall_app. split; [now apply ipv6h_accessors_ok|].
  rewrite El. apply Forall_app. split; [repeat constructor; intros b; discriminate|].
  destruct G as (_ & _ & G3 & G4). clear El.
  induction l as [|x l IH]; [constructor|]. cbn [flat_map].
  inversion G3 as [|? ? Wx G3']; subst. inversion G4 as [|? ? Sx G4']; subst.
  apply Forall_app. split; [|now apply IH].
  apply item_accessors_ok; [exact Wx|]. eapply sub_of_bytes_ok; eauto.
Qed.

(* every window of an IPv6 slice (yielded headers and the sub-slices their accessors return)
   lies inside the extensions slice *)
Lemma ipv6_windows_ok v :
  wf_ipv6 v -> Forall (win_ok (x6_slice (v6_exts v))) (Ipv6SliceA.windows v).
Proof.
  intros (Wh & l & El & G). unfold Ipv6SliceA.windows. rewrite El.
  destruct G as (_ & _ & G3 & G4). clear El. apply Forall_app. split.
  - induction l as [|x l IH]; [constructor|]. inversion G4; subst. inversion G3; subst.
    cbn [map]. constructor; [|now apply IH]. eexists. split; [reflexivity|assumption].
  - induction l as [|x l IH]; [constructor|]. inversion G4 as [|? ? Sx G4']; subst.
    inversion G3 as [|? ? Wx G3']; subst. cbn [flat_map]. apply Forall_app. split; [|now apply IH].
    eapply Forall_impl; [|apply (item_windows_ok _ Wx)]. intros r (w & E & S).
    exists w. split; [exact E|]. eapply sub_of_trans; eauto.
Qed.

(* ---- MacsecSlice::from_slice ------------------------------------------------------------------------------------- *)
Definition macsec_payload_slice (m : macsec_slice) : slice :=
  match ms_payload m with MpUnmodified e => ep_slice e | MpModified s => s end.

Lemma macsec_wf s m :
  Macsec.from_slice s = Ok m ->
  wf_macsec m /\ sub_of (ms_header m) s /\ sub_of (macsec_payload_slice m) s.
Proof.
  unfold Macsec.from_slice. intros H. binv H header Eh. binv H epl Eepl. binv H pls Epls.
  destruct pls as (ps, src). binv H net Enet.
  apply macsech_wf in Eh. destruct Eh as (Wh & Sh).
  assert (Sp : sub_of ps s).
  { destruct epl as [req|].
    - destruct (s_len s <? s_len header + req); unfold lerr in Epls; [discriminate|].
      binv Epls p Ep. injection Epls as <- <-. now exists (s_len header), req.
    - binv Epls n En. binv Epls p Ep. injection Epls as <- <-. now exists (s_len header), n. }
  destruct net as [et|]; injection H as <-; unfold wf_macsec, macsec_payload_slice; cbn; auto.
Qed.

(* ---- whole packets: every stored component was produced by its from_slice ------------------------------------------ *)
Definition link_prov (bs : bytes) (l : link_slice) : Prop :=
  match l with
  | LkEthernet2 s => exists src, in_buf bs src /\ Ethernet2Slice.from_slice_without_fcs src = Ok s
  | LkLinuxSll h w => exists src, in_buf bs src /\ LinuxSll.from_slice src = Ok (h, w)
  | LkEtherPayload e => in_buf bs (ep_slice e)
  end.
Definition ext_prov (bs : bytes) (x : link_ext_slice) : Prop :=
  match x with
  | LeVlan s => exists src, in_buf bs src /\ SingleVlanSlice.from_slice src = Ok s
  | LeMacsec m => exists src, in_buf bs src /\ Macsec.from_slice src = Ok m
  end.
Definition net_prov (bs : bytes) (n : net_slice) : Prop :=
  match n with
  | NtIpv4 v => exists src, in_buf bs src /\
                  (Ipv4Slice.from_slice src = Ok v \/ IpSlice.from_slice src = Ok (IpV4 v))
  | NtIpv6 v => exists src, in_buf bs src /\
                  (Ipv6Slice.from_slice src = Ok v \/ IpSlice.from_slice src = Ok (IpV6 v))
  | NtArp a => exists src, in_buf bs src /\ ArpPacketSlice.from_slice src = Ok a
  end.
Definition transport_prov (bs : bytes) (t : transport_slice) : Prop :=
  match t with
  | TrUdp s => exists src, in_buf bs src /\ UdpSlice.from_slice src = Ok s
  | TrTcp hl s => exists src, in_buf bs src /\ TcpSlice.from_slice src = Ok (hl, s)
  | TrIcmpv4 s => exists src, in_buf bs src /\ Icmpv4Slice.from_slice src = Ok s
  | TrIcmpv6 s => exists src, in_buf bs src /\ Icmpv6Slice.from_slice src = Ok s
  end.
Definition optP {A} (P : A -> Prop) (o : option A) : Prop :=
  match o with Some a => P a | None => True end.

Definition sliced_wf (bs : bytes) (p : sliced_packet) : Prop :=
  optP (link_prov bs) (sp_link p) /\ Forall (ext_prov bs) (sp_exts p) /\
  optP (net_prov bs) (sp_net p) /\ optP (transport_prov bs) (sp_transport p).

Section Lift.
  Variable bs : bytes.

  Lemma set_transport_wf c t :
    sliced_wf bs (c_result c) -> transport_prov bs t -> sliced_wf bs (set_transport c t).
  Proof. intros (A & B & C & D) T. unfold sliced_wf, set_transport. cbn. auto. Qed.

  Lemma set_net_wf c o sr n :
    sliced_wf bs (c_result c) -> net_prov bs n -> sliced_wf bs (c_result (set_net c o sr n)).
  Proof. intros (A & B & C & D) T. unfold sliced_wf, set_net. cbn. auto. Qed.

  Lemma set_link_wf c o l :
    sliced_wf bs (c_result c) -> link_prov bs l -> sliced_wf bs (c_result (set_link c o l)).
  Proof. intros (A & B & C & D) T. unfold sliced_wf, set_link. cbn. auto. Qed.

  Lemma push_ext_wf c o sr x c' :
    sliced_wf bs (c_result c) -> ext_prov bs x -> push_ext c o sr x = Ok c' -> sliced_wf bs (c_result c').
  Proof.
    intros (A & B & C & D) T. unfold push_ext.
    destruct (len (sp_exts (c_result c)) <? LINK_EXTS_CAP); [|discriminate].
    intros X. injection X as <-. unfold sliced_wf. cbn. repeat split; auto.
    apply Forall_app. split; [exact B|]. constructor; [exact T|constructor].
  Qed.

  Lemma transport_dispatch_wf c p r :
    sliced_wf bs (c_result c) -> in_buf bs (ipp_slice p) ->
    transport_dispatch c p = Ok r -> sliced_wf bs r.
  Proof.
    intros W I. unfold transport_dispatch.
    destruct (ipp_fragmented p); [intros X; injection X as <-; exact W|].
    destruct (ipp_number p =? IPN_ICMP).
    { unfold slice_icmp4. intros H. binv H t Et. apply map_len_err_inv in Et. injection H as <-.
      apply set_transport_wf; [exact W|]. cbn. eauto. }
    destruct (ipp_number p =? IPN_UDP).
    { unfold slice_udp. intros H. binv H t Et. apply map_len_err_inv in Et. injection H as <-.
      apply set_transport_wf; [exact W|]. cbn. eauto. }
    destruct (ipp_number p =? IPN_TCP).
    { unfold slice_tcp. intros H. binv H t Et. apply map_len_err_inv in Et. injection H as <-.
      apply set_transport_wf; [exact W|]. cbn. destruct t as (hl, t). cbn. eauto. }
    destruct (ipp_number p =? IPN_ICMPV6).
    { unfold slice_icmp6. intros H. binv H t Et. apply map_len_err_inv in Et. injection H as <-.
      apply set_transport_wf; [exact W|]. cbn. eauto. }
    intros X. injection X as <-. exact W.
  Qed.

  Lemma slice_ip_wf c s r :
    sliced_wf bs (c_result c) -> in_buf bs s -> slice_ip c s = Ok r -> sliced_wf bs r.
  Proof.
    intros W I. unfold slice_ip. intros H. binv H ip Eip. apply map_len_err_inv in Eip.
    binv H d Ed. pose proof (ip_wf _ _ Eip) as Wip.
    eapply transport_dispatch_wf; [| |exact H].
    - apply set_net_wf; [exact W|]. destruct ip as [v|v]; cbn; eauto.
    - destruct ip as [v|v]; cbn [IpSlice.payload].
      + destruct Wip as (_ & _ & _ & S). eapply sub_of_in_buf; eauto.
      + destruct Wip as (_ & _ & _ & S). eapply sub_of_in_buf; eauto.
  Qed.

  Lemma slice_ipv4_wf c s r :
    sliced_wf bs (c_result c) -> in_buf bs s -> slice_ipv4 c s = Ok r -> sliced_wf bs r.
  Proof.
    intros W I. unfold slice_ipv4. intros H. binv H ip Eip. apply map_len_err_inv in Eip.
    binv H d Ed. pose proof (ipv4_wf _ _ Eip) as (_ & _ & _ & S).
    eapply transport_dispatch_wf; [| |exact H].
    - apply set_net_wf; [exact W|]. cbn. eauto.
    - eapply sub_of_in_buf; eauto.
  Qed.

  Lemma slice_ipv6_wf c s r :
    sliced_wf bs (c_result c) -> in_buf bs s -> slice_ipv6 c s = Ok r -> sliced_wf bs r.
  Proof.
    intros W I. unfold slice_ipv6. intros H. binv H ip Eip. apply map_len_err_inv in Eip.
    binv H d Ed. pose proof (ipv6_wf _ _ Eip) as (_ & _ & _ & S).
    eapply transport_dispatch_wf; [| |exact H].
    - apply set_net_wf; [exact W|]. cbn. eauto.
    - eapply sub_of_in_buf; eauto.
  Qed.

  Lemma slice_arp_wf c s r :
    sliced_wf bs (c_result c) -> in_buf bs s -> slice_arp c s = Ok r -> sliced_wf bs r.
  Proof.
    intros W I. unfold slice_arp. intros H. binv H a Ea. apply map_len_err_inv in Ea.
    injection H as <-. apply (set_net_wf c (c_offset c + s_len a) (c_src c) (NtArp a)); [exact W|]. cbn. eauto.
  Qed.

  Lemma ether_loop_wf fuel :
    forall c ep r,
      sliced_wf bs (c_result c) -> in_buf bs (ep_slice ep) ->
      slice_ether_type_loop fuel c ep = Ok r -> sliced_wf bs r.
  Proof.
    induction fuel as [|f IH]; intros c ep r W I H; [discriminate|].
    cbn [slice_ether_type_loop] in H.
    destruct (is_vlan_type (ep_ether_type ep)).
    { destruct (LINK_EXTS_CAP <=? len (sp_exts (c_result c))); [injection H as <-; exact W|].
      binv H vlan Ev. apply map_len_err_inv in Ev. binv H vp Evp. binv H c' Ec'.
      pose proof (vlan_wf _ _ Ev) as (-> & Wv).
      eapply IH; [| |exact H].
      - eapply push_ext_wf; [exact W| |exact Ec']. cbn. eauto.
      - unfold SingleVlanSlice.payload in Evp. binv Evp et Eet. binv Evp pl Epl. injection Evp as <-.
        cbn [ep_slice]. unfold SingleVlanSlice.payload_slice in Epl. binv Epl n En.
        eapply sub_of_in_buf; [exact I|]. now exists 4, n. }
    destruct (ep_ether_type ep =? ET_MACSEC).
    { destruct (LINK_EXTS_CAP <=? len (sp_exts (c_result c))); [injection H as <-; exact W|].
      binv H m Em. apply map_len_err_inv in Em. binv H hl Ehl. binv H sl Esl. binv H c' Ec'.
      pose proof (macsec_wf _ _ Em) as (_ & _ & Sp).
      assert (W' : sliced_wf bs (c_result c')).
      { eapply push_ext_wf; [exact W| |exact Ec']. cbn. eauto. }
      unfold macsec_payload_slice in Sp.
      destruct (ms_payload m) as [e|ps].
      - eapply IH; [exact W'| |exact H]. eapply sub_of_in_buf; eauto.
      - injection H as <-. exact W'. }
    destruct (ep_ether_type ep =? ET_ARP); [eapply slice_arp_wf; eauto|].
    destruct (ep_ether_type ep =? ET_IPV4); [eapply slice_ipv4_wf; eauto|].
    destruct (ep_ether_type ep =? ET_IPV6); [eapply slice_ipv6_wf; eauto|].
    injection H as <-. exact W.
  Qed.

  Lemma new_wf : sliced_wf bs (c_result new).
  Proof. unfold sliced_wf, new. cbn. auto. Qed.

  Theorem sliced_wf_entry et p :
    SlicedPacket.from_ethernet bs = Ok p \/ SlicedPacket.from_linux_sll bs = Ok p \/
    SlicedPacket.from_ether_type et bs = Ok p \/ SlicedPacket.from_ip bs = Ok p ->
    sliced_wf bs p.
  Proof.
    pose proof (in_buf_whole bs) as I.
    intros [H|[H|[H|H]]].
    - unfold SlicedPacket.from_ethernet, slice_ethernet2 in H.
      binv H r Er. apply map_len_err_inv in Er. binv H ep Eep.
      pose proof (eth2_plain_wf _ _ Er) as (-> & _).
      unfold slice_ether_type in H. eapply ether_loop_wf; [| |exact H].
      + apply set_link_wf; [apply new_wf|]. cbn. eauto.
      + unfold Ethernet2Slice.payload in Eep. binv Eep et' Eet. binv Eep pl Epl. injection Eep as <-.
        cbn [ep_slice]. unfold Ethernet2Slice.payload_slice in Epl. binv Epl n En.
        eapply sub_of_in_buf; [exact I|]. now exists 14, n.
    - unfold SlicedPacket.from_linux_sll, slice_linux_sll in H.
      binv H r Er. apply map_len_err_inv in Er. destruct r as (h, whole).
      binv H pt Ept. binv H pl Epl.
      pose proof (sll_wf _ _ Er) as (_ & Ew & _). cbn [snd] in Ew. subst whole.
      assert (W' : sliced_wf bs (c_result (set_link new (c_offset new + 16) (LkLinuxSll h (mk_slice bs))))).
      { apply set_link_wf; [apply new_wf|]. cbn. eauto. }
      unfold LinuxSll.payload_slice in Epl. binv Epl n En.
      destruct pt; try (injection H as <-; exact W').
      unfold slice_ether_type in H. eapply ether_loop_wf; [exact W'| |exact H].
      cbn [ep_slice]. eapply sub_of_in_buf; [exact I|]. now exists 16, n.
    - unfold SlicedPacket.from_ether_type, slice_ether_type in H.
      eapply ether_loop_wf; [| |exact H].
      + apply set_link_wf; [apply new_wf|]. cbn. exact I.
      + cbn. exact I.
    - unfold SlicedPacket.from_ip in H. eapply slice_ip_wf; [apply new_wf|exact I|exact H].
  Qed.

  (* ---- from provenance to accessor safety --------------------------------------------------------------------------- *)
  Hypothesis Hok : bytes_ok bs.

  Definition buf_ok (r : res slice) : Prop := exists w, r = Ok w /\ in_buf bs w.

  Lemma win_ok_buf parent l : in_buf bs parent -> Forall (win_ok parent) l -> Forall buf_ok l.
  Proof.
    intros I F. eapply Forall_impl; [|exact F]. intros r (w & E & S).
    exists w. split; [exact E|]. eapply sub_of_in_buf; eauto.
  Qed.

  Lemma buf_ok_Ok s : in_buf bs s -> buf_ok (Ok s).
  Proof. intros I. exists s. auto. Qed.

  Lemma link_ok l : link_prov bs l ->
    Forall nobug (SlicedPacketA.link_accessors l) /\ Forall buf_ok (SlicedPacketA.link_windows l).
  Proof.
    destruct l as [s|h w|e]; cbn [link_prov SlicedPacketA.link_accessors SlicedPacketA.link_windows].
    - intros (src & I & E). apply eth2_plain_wf in E. destruct E as (-> & W).
      split; [now apply eth2_accessors_ok|].
      constructor; [now apply buf_ok_Ok|]. apply (win_ok_buf src); [exact I|].
      apply (eth2_windows_ok _ W).
    - intros (src & I & E). apply sll_wf in E. destruct E as (W & Ew & Sh). cbn [fst snd] in *. subst w.
      split; [now apply sll_accessors_ok|].
      assert (Ih : in_buf bs h) by (eapply sub_of_in_buf; eauto).
      constructor; [now apply buf_ok_Ok|]. constructor; [now apply buf_ok_Ok|].
      apply Forall_app. split.
      + apply (win_ok_buf h); [exact Ih|]. apply sllh_windows_ok. exact (proj1 W).
      + apply (win_ok_buf src); [exact I|]. apply (sll_windows_ok (h, src) W).
    - intros I. split; [constructor|]. constructor; [now apply buf_ok_Ok|constructor].
  Qed.

  Lemma ext_ok x : ext_prov bs x ->
    Forall nobug (SlicedPacketA.ext_accessors x) /\ Forall buf_ok (SlicedPacketA.ext_windows x).
  Proof.
    destruct x as [s|m]; cbn [ext_prov SlicedPacketA.ext_accessors SlicedPacketA.ext_windows].
    - intros (src & I & E). apply vlan_wf in E. destruct E as (-> & W).
      split; [now apply vlan_accessors_ok|].
      constructor; [now apply buf_ok_Ok|]. apply (win_ok_buf src); [exact I|]. now apply vlan_windows_ok.
    - intros (src & I & E). apply macsec_wf in E. destruct E as (W & Sh & Sp).
      split; [now apply macsec_accessors_ok|].
      constructor; [apply buf_ok_Ok; eapply sub_of_in_buf; eauto|].
      constructor; [|constructor]. apply buf_ok_Ok. eapply sub_of_in_buf; eauto.
  Qed.

  Lemma ipv4_ok v src : in_buf bs src -> wf_ipv4 v -> ipv4_in v src ->
    Forall nobug (Ipv4SliceA.accessors v) /\ Forall buf_ok (SlicedPacketA.net_windows (NtIpv4 v)).
  Proof.
    intros I W (Sh & Sa & Sp). split.
    - apply ipv4_accessors_ok; [exact W|]. destruct (v4_auth v) as [a|]; [|exact Logic.I].
      eapply in_buf_bytes_ok; [exact Hok|]. eapply sub_of_in_buf; eauto.
    - cbn [SlicedPacketA.net_windows].
      constructor; [apply buf_ok_Ok; eapply sub_of_in_buf; eauto|].
      constructor; [apply buf_ok_Ok; eapply sub_of_in_buf; eauto|].
      apply Forall_app. split.
      + destruct (v4_auth v) as [a|]; [|constructor].
        constructor; [|constructor]. apply buf_ok_Ok. eapply sub_of_in_buf; eauto.
      + eapply Forall_impl; [|apply (ipv4_windows_ok v W)]. intros r (w & E & S).
        exists w. split; [exact E|]. destruct S as [S|S].
        * eapply sub_of_in_buf; [|exact S]. eapply sub_of_in_buf; eauto.
        * destruct (v4_auth v) as [a|]; [|contradiction].
          eapply sub_of_in_buf; [|exact S]. eapply sub_of_in_buf; eauto.
  Qed.

  Lemma ipv6_ok v src : in_buf bs src -> wf_ipv6 v -> ipv6_in v src ->
    Forall nobug (Ipv6SliceA.accessors v) /\ Forall buf_ok (SlicedPacketA.net_windows (NtIpv6 v)).
  Proof.
    intros I W (Sh & Sx & Sp).
    assert (Ix : in_buf bs (x6_slice (v6_exts v))) by (eapply sub_of_in_buf; eauto).
    split.
    - apply ipv6_accessors_ok; [exact W|]. eapply in_buf_bytes_ok; eauto.
    - cbn [SlicedPacketA.net_windows].
      apply Forall_cons; [apply buf_ok_Ok; exact (sub_of_in_buf bs _ _ I Sh)|].
      apply Forall_cons; [now apply buf_ok_Ok|].
      apply Forall_cons; [apply buf_ok_Ok; exact (sub_of_in_buf bs _ _ I Sp)|].
      apply (win_ok_buf (x6_slice (v6_exts v))); [exact Ix|]. now apply ipv6_windows_ok.
  Qed.

  Lemma net_ok n : net_prov bs n ->
    Forall nobug (SlicedPacketA.net_accessors n) /\ Forall buf_ok (SlicedPacketA.net_windows n).
  Proof.
    destruct n as [v|v|a]; cbn [net_prov SlicedPacketA.net_accessors].
    - intros (src & I & [E|E]).
      + apply ipv4_wf in E. destruct E. now apply (ipv4_ok v src).
      + apply ip_wf in E. destruct E. now apply (ipv4_ok v src).
    - intros (src & I & [E|E]).
      + apply ipv6_wf in E. destruct E. now apply (ipv6_ok v src).
      + apply ip_wf in E. destruct E. now apply (ipv6_ok v src).
    - intros (src & I & E). apply arp_wf in E. destruct E as (W & S).
      assert (Ia : in_buf bs a) by (eapply sub_of_in_buf; eauto).
      split.
      + apply Forall_app. split; [now apply arp_accessors_ok|].
        apply arp_conversions_ok; [exact W|]. eapply in_buf_bytes_ok; eauto.
      + cbn [SlicedPacketA.net_windows]. constructor; [now apply buf_ok_Ok|].
        apply (win_ok_buf a); [exact Ia|]. now apply arp_windows_ok.
  Qed.

  Lemma transport_ok t : transport_prov bs t ->
    Forall nobug (SlicedPacketA.transport_accessors t) /\ Forall buf_ok (SlicedPacketA.transport_windows t).
  Proof.
    destruct t as [s|hl s|s|s];
      cbn [transport_prov SlicedPacketA.transport_accessors SlicedPacketA.transport_windows].
    - intros (src & I & E). apply udp_wf in E. destruct E as (W & S).
      assert (Is : in_buf bs s) by (eapply sub_of_in_buf; eauto).
      split; [now apply udp_accessors_ok|].
      constructor; [now apply buf_ok_Ok|]. apply (win_ok_buf s); [exact Is|]. now apply udp_windows_ok.
    - intros (src & I & E). apply tcp_wf in E. destruct E as (W & Es). cbn [snd] in Es. subst src.
      split; [now apply tcp_accessors_ok|].
      constructor; [now apply buf_ok_Ok|]. apply (win_ok_buf s); [exact I|]. apply (tcp_windows_ok (hl, s) W).
    - intros (src & I & E). apply icmp4_wf in E. destruct E as (-> & W).
      split; [now apply icmp4_accessors_ok|].
      constructor; [now apply buf_ok_Ok|]. apply (win_ok_buf src); [exact I|]. now apply icmp4_windows_ok.
    - intros (src & I & E). apply icmp6_wf in E. destruct E as (-> & W).
      split; [now apply icmp6_accessors_ok|].
      constructor; [now apply buf_ok_Ok|]. apply (win_ok_buf src); [exact I|]. now apply icmp6_windows_ok.
  Qed.

  Lemma optP_ok {A B} (P : A -> Prop) (Q : B -> Prop) (f : A -> list B) o :
    (forall a, P a -> Forall Q (f a)) -> optP P o -> Forall Q (SlicedPacketA.opt f o).
  Proof. intros H. destruct o as [a|]; cbn; [apply H|constructor]. Qed.

  Lemma Forall_flat_map {A B} (P : A -> Prop) (Q : B -> Prop) (f : A -> list B) l :
    (forall a, P a -> Forall Q (f a)) -> Forall P l -> Forall Q (flat_map f l).
  Proof.
    intros H F. induction F as [|a l Pa F IH]; cbn [flat_map]; [constructor|].
    apply Forall_app. split; [now apply H|exact IH].
  Qed.

  Theorem sliced_accessors_ok p : sliced_wf bs p -> Forall nobug (SlicedPacketA.accessors p).
  Proof.
    intros (A & B & C & D). unfold SlicedPacketA.accessors.
    repeat (apply Forall_app; split).
    - eapply optP_ok; [|exact A]. intros a Ha. apply (link_ok a Ha).
    - eapply Forall_flat_map; [|exact B]. intros a Ha. apply (ext_ok a Ha).
    - eapply optP_ok; [|exact C]. intros a Ha. apply (net_ok a Ha).
    - eapply optP_ok; [|exact D]. intros a Ha. apply (transport_ok a Ha).
  Qed.

  Theorem sliced_windows_ok p : sliced_wf bs p -> Forall buf_ok (SlicedPacketA.windows p).
  Proof.
    intros (A & B & C & D). unfold SlicedPacketA.windows.
    repeat (apply Forall_app; split).
    - eapply optP_ok; [|exact A]. intros a Ha. apply (link_ok a Ha).
    - eapply Forall_flat_map; [|exact B]. intros a Ha. apply (ext_ok a Ha).
    - eapply optP_ok; [|exact C]. intros a Ha. apply (net_ok a Ha).
    - eapply optP_ok; [|exact D]. intros a Ha. apply (transport_ok a Ha).
  Qed.
End Lift.

(* ---- summary statements used by Props/C01.v and Props/C02.v ------------------------------------------------------------ *)
Lemma win_ok_mono p s l : sub_of p s -> Forall (win_ok p) l -> Forall (win_ok s) l.
Proof.
  intros S F. eapply Forall_impl; [|exact F]. intros r (w & E & Sw).
  exists w. split; [exact E|]. eapply sub_of_trans; eauto.
Qed.

Lemma win_ok_arith s r : win_ok s r ->
  exists w, r = Ok w /\ s_off s <= s_off w /\ s_off w + s_len w <= s_off s + s_len s.
Proof. intros (w & E & Sw). exists w. split; [exact E|]. exact (sub_of_inside _ _ Sw). Qed.

Definition entry (bs : bytes) (et : N) (p : sliced_packet) : Prop :=
  SlicedPacket.from_ethernet bs = Ok p \/ SlicedPacket.from_linux_sll bs = Ok p \/
  SlicedPacket.from_ether_type et bs = Ok p \/ SlicedPacket.from_ip bs = Ok p.

Theorem packet_accessors_no_bug bs et p :
  bytes_ok bs -> entry bs et p ->
  sliced_wf bs p /\ forall r, In r (SlicedPacketA.accessors p) -> forall b, r <> Bug b.
Proof.
  intros Hok E. pose proof (sliced_wf_entry bs et p E) as W. split; [exact W|].
  pose proof (sliced_accessors_ok bs Hok p W) as F. rewrite Forall_forall in F. exact F.
Qed.

Theorem packet_windows_inside bs et p :
  bytes_ok bs -> entry bs et p ->
  forall r, In r (SlicedPacketA.windows p) ->
    exists w, r = Ok w /\ s_off w + s_len w <= len bs /\
              snd w = take (s_len w) (drop (s_off w) bs).
Proof.
  intros Hok E r Hr. pose proof (sliced_wf_entry bs et p E) as W.
  pose proof (sliced_windows_ok bs Hok p W) as F. rewrite Forall_forall in F.
  destruct (F r Hr) as (w & -> & I). exists w. split; [reflexivity|].
  split; [now apply in_buf_bounds|].
  destruct I as (pos & lim & R). rewrite (repr_off _ _ _ _ R), (repr_len _ _ _ _ R).
  destruct R as (-> & _). reflexivity.
Qed.

(* totality reading (C02): every accessor run returns normally, Ok or Err *)
Theorem packet_accessors_total bs et p :
  bytes_ok bs -> entry bs et p ->
  forall r, In r (SlicedPacketA.accessors p) -> r = Ok tt \/ exists e, r = Err e.
Proof.
  intros Hok E r Hr. destruct (packet_accessors_no_bug bs et p Hok E) as (_ & F).
  specialize (F r Hr). destruct r as [[]|e|b]; [now left|right; eauto|].
  exfalso. now apply (F b).
Qed.

(* the extension iterator on every Ipv6ExtensionsSlice built by from_slice *)
Theorem exts_iter_bounded nh s x nx rest :
  Ipv6ExtensionsSlice.from_slice nh s = Ok (x, nx, rest) ->
  exists l, Ipv6ExtIterA.items x = Ok l /\
            8 * len l <= s_len (x6_slice x) /\
            tiles (s_off (x6_slice x)) (map item_win l) (s_off (x6_slice x) + s_len (x6_slice x)) /\
            Forall item_wf l /\
            Forall (fun i => sub_of (ext_item_slice i) (x6_slice x)) l.
Proof.
  intros H. destruct (exts_good_from_slice _ _ _ _ _ H) as ((l & E & G1 & G2 & G3 & G4) & _).
  exists l. auto.
Qed.

(* the same for the IPv6 slice stored in a sliced packet *)
Theorem packet_exts_iter_bounded bs et p v :
  entry bs et p -> sp_net p = Some (NtIpv6 v) ->
  exists l, Ipv6ExtIterA.items (v6_exts v) = Ok l /\
            8 * len l <= s_len (x6_slice (v6_exts v)) /\
            tiles (s_off (x6_slice (v6_exts v))) (map item_win l)
                  (s_off (x6_slice (v6_exts v)) + s_len (x6_slice (v6_exts v))).
Proof.
  intros E Hn. pose proof (sliced_wf_entry bs et p E) as (_ & _ & C & _).
  rewrite Hn in C. cbn in C. destruct C as (src & I & [F|F]).
  - apply ipv6_wf in F. destruct F as ((_ & l & El & G1 & G2 & _) & _). eauto.
  - apply ip_wf in F. destruct F as ((_ & l & El & G1 & G2 & _) & _). eauto.
Qed.

(* the two unwraps named by C02 *)
Theorem auth_to_header_unwrap s h :
  IpAuthHeaderSlice.from_slice s = Ok h -> bytes_ok (snd s) -> exists v, IpAuthHeaderA.to_header h = Ok v.
Proof.
  intros H Hok. apply ah_wf in H. destruct H as ((p & E1 & P1 & L) & S).
  pose proof (rdU_byte h 1 p (sub_of_bytes_ok _ _ S Hok) E1) as B.
  unf_ah. oksteps.
  unfold IpAuthHeaderA.header_new, IpAuthHeaderA.MAX_ICV_LEN.
  assert (Lw : s_len w = (p - 1) * 4) by lia. rewrite Lw.
  destruct (1016 <? (p - 1) * 4) eqn:C1; [lia|].
  rewrite N.mod_mul by discriminate. rewrite N.eqb_refl. cbn [negb]. eexists; reflexivity.
Qed.

Theorem raw_ext_to_header_unwrap s h :
  Ipv6RawExtHeaderSlice.from_slice s = Ok h -> bytes_ok (snd s) ->
  exists v, Ipv6RawExtHeaderA.to_header h = Ok v.
Proof.
  intros H Hok. apply raw_wf in H. destruct H as ((b & E1 & L) & S).
  pose proof (rdU_byte h 1 b (sub_of_bytes_ok _ _ S Hok) E1) as B.
  unf_raw. oksteps.
  unfold Ipv6RawExtHeaderA.new_raw, Ipv6RawExtHeaderA.MIN_PAYLOAD_LEN, Ipv6RawExtHeaderA.MAX_PAYLOAD_LEN.
  destruct (s_len w <? 6) eqn:C1; [lia|]. destruct (2046 <? s_len w) eqn:C2; [lia|].
  replace (s_len w + 2) with ((b + 1) * 8) by lia.
  rewrite N.mod_mul by discriminate. rewrite N.eqb_refl. cbn [negb]. eexists; reflexivity.
Qed.

(* single layers: provenance from the constructor on ANY slice s *)
Theorem single_layer_ok :
  (forall s e, Ethernet2A.from_slice_without_fcs s = Ok e \/ Ethernet2A.from_slice_with_crc32_fcs s = Ok e ->
     Forall nobug (Ethernet2A.accessors e) /\ Forall (win_ok s) (Ethernet2A.windows e)) /\
  (forall s v, SingleVlanSlice.from_slice s = Ok v ->
     Forall nobug (SingleVlanA.accessors v) /\ Forall (win_ok s) (SingleVlanA.windows v)) /\
  (forall s h, LinuxSll.header_from_slice s = Ok h ->
     Forall nobug (LinuxSllHeaderA.accessors h) /\ Forall (win_ok s) (LinuxSllHeaderA.windows h)) /\
  (forall s x, LinuxSll.from_slice s = Ok x ->
     Forall nobug (LinuxSllA.accessors x) /\ Forall (win_ok s) (LinuxSllA.windows x)) /\
  (forall s h, Macsec.header_from_slice s = Ok h -> Forall nobug (MacsecHeaderA.accessors h)) /\
  (forall s m, Macsec.from_slice s = Ok m -> Forall nobug (MacsecA.accessors m)) /\
  (forall s a, ArpPacketSlice.from_slice s = Ok a ->
     Forall nobug (ArpPacketA.accessors a) /\ Forall (win_ok s) (ArpPacketA.windows a) /\
     (bytes_ok (snd s) -> Forall nobug (ArpPacketA.conversions a))) /\
  (forall s h, Ipv4HeaderSlice.from_slice s = Ok h ->
     Forall nobug (Ipv4HeaderA.accessors h) /\ Forall (win_ok s) (Ipv4HeaderA.windows h)) /\
  (forall s h, IpAuthHeaderSlice.from_slice s = Ok h ->
     Forall nobug (IpAuthHeaderA.accessors h) /\ Forall (win_ok s) (IpAuthHeaderA.windows h) /\
     (bytes_ok (snd s) -> Forall nobug (IpAuthHeaderA.conversions h))) /\
  (forall s h, Ipv6HeaderSlice.from_slice s = Ok h -> Forall nobug (Ipv6HeaderA.accessors h)) /\
  (forall s h, Ipv6RawExtHeaderSlice.from_slice s = Ok h ->
     Forall nobug (Ipv6RawExtHeaderA.accessors h) /\ Forall (win_ok s) (Ipv6RawExtHeaderA.windows h) /\
     (bytes_ok (snd s) -> Forall nobug (Ipv6RawExtHeaderA.conversions h))) /\
  (forall s h, Ipv6FragmentHeaderSlice.from_slice s = Ok h -> Forall nobug (Ipv6FragmentHeaderA.accessors h)) /\
  (forall s v, Ipv4Slice.from_slice s = Ok v \/ IpSlice.from_slice s = Ok (IpV4 v) ->
     bytes_ok (snd s) -> Forall nobug (Ipv4SliceA.accessors v)) /\
  (forall s v, Ipv6Slice.from_slice s = Ok v \/ IpSlice.from_slice s = Ok (IpV6 v) ->
     bytes_ok (snd s) ->
     Forall nobug (Ipv6SliceA.accessors v) /\ Forall (win_ok s) (Ipv6SliceA.windows v)) /\
  (forall s h, UdpSlice.header_from_slice s = Ok h -> Forall nobug (UdpA.header_accessors h)) /\
  (forall s u, UdpSlice.from_slice s = Ok u \/ UdpSlice.from_slice_lax s = Ok u ->
     Forall nobug (UdpA.accessors u) /\ Forall (win_ok s) (UdpA.windows u)) /\
  (forall s x, TcpSlice.from_slice s = Ok x ->
     Forall nobug (TcpSliceA.accessors x) /\ Forall (win_ok s) (TcpSliceA.windows x)) /\
  (forall s h, TcpHeaderSliceA.from_slice s = Ok h ->
     Forall nobug (TcpHeaderSliceA.accessors h) /\ Forall (win_ok s) (TcpHeaderSliceA.windows h)) /\
  (forall s v, Icmpv4Slice.from_slice s = Ok v ->
     Forall nobug (Icmpv4A.accessors v) /\ Forall (win_ok s) (Icmpv4A.windows v)) /\
  (forall s v, Icmpv6Slice.from_slice s = Ok v ->
     Forall nobug (Icmpv6A.accessors v) /\ Forall (win_ok s) (Icmpv6A.windows v)).
Proof.
  repeat match goal with |- _ /\ _ => split end.
  - intros s e [H|H]; [apply eth2_wf_without_fcs in H|apply eth2_wf_with_fcs in H];
      destruct H as (W & <-); (split; [now apply eth2_accessors_ok|now apply eth2_windows_ok]).
  - intros s v H. apply vlan_wf in H. destruct H as (-> & W).
    split; [now apply vlan_accessors_ok|now apply vlan_windows_ok].
  - intros s h H. apply sllh_wf in H. destruct H as (W & S).
    split; [now apply sllh_accessors_ok|]. eapply win_ok_mono; [exact S|now apply sllh_windows_ok].
  - intros s x H. apply sll_wf in H. destruct H as (W & <- & S).
    split; [now apply sll_accessors_ok|now apply sll_windows_ok].
  - intros s h H. apply macsech_wf in H. destruct H as (W & S). now apply macsech_accessors_ok.
  - intros s m H. apply macsec_wf in H. destruct H as (W & _). now apply macsec_accessors_ok.
  - intros s a H. apply arp_wf in H. destruct H as (W & S).
    split; [now apply arp_accessors_ok|]. split.
    + eapply win_ok_mono; [exact S|now apply arp_windows_ok].
    + intros Hok. apply arp_conversions_ok; [exact W|]. eapply sub_of_bytes_ok; eauto.
  - intros s h H. apply ipv4h_wf in H. destruct H as (W & S).
    split; [now apply ipv4h_accessors_ok|]. eapply win_ok_mono; [exact S|now apply ipv4h_windows_ok].
  - intros s h H. apply ah_wf in H. destruct H as (W & S).
    split; [now apply ah_accessors_ok|]. split.
    + eapply win_ok_mono; [exact S|now apply ah_windows_ok].
    + intros Hok. apply ah_conversions_ok; [exact W|]. eapply sub_of_bytes_ok; eauto.
  - intros s h H. apply ipv6h_wf in H. destruct H as (W & S). now apply ipv6h_accessors_ok.
  - intros s h H. apply raw_wf in H. destruct H as (W & S).
    split; [now apply raw_accessors_ok|]. split.
    + eapply win_ok_mono; [exact S|now apply raw_windows_ok].
    + intros Hok. apply raw_conversions_ok; [exact W|]. eapply sub_of_bytes_ok; eauto.
  - intros s h H. apply frag_wf in H. destruct H as (W & S). now apply frag_accessors_ok.
  - intros s v H Hok.
    assert (X : wf_ipv4 v /\ ipv4_in v s) by (destruct H as [H|H]; [now apply ipv4_wf|exact (ip_wf _ _ H)]).
    destruct X as (W & _ & Sa & _). apply ipv4_accessors_ok; [exact W|].
    destruct (v4_auth v) as [a|]; [|exact Logic.I]. eapply sub_of_bytes_ok; eauto.
  - intros s v H Hok.
    assert (X : wf_ipv6 v /\ ipv6_in v s) by (destruct H as [H|H]; [now apply ipv6_wf|exact (ip_wf _ _ H)]).
    destruct X as (W & _ & Sx & _). split.
    + apply ipv6_accessors_ok; [exact W|]. eapply sub_of_bytes_ok; eauto.
    + eapply win_ok_mono; [exact Sx|now apply ipv6_windows_ok].
  - intros s h H. apply udph_wf in H. destruct H as (W & S). now apply udph_accessors_ok.
  - intros s u H.
    assert (X : wf_udp u /\ sub_of u s) by (destruct H as [H|H]; [now apply udp_wf|now apply udp_lax_wf]).
    destruct X as (W & S). split; [now apply udp_accessors_ok|].
    eapply win_ok_mono; [exact S|now apply udp_windows_ok].
  - intros s x H. apply tcp_wf in H. destruct H as (W & <-).
    split; [now apply tcp_accessors_ok|now apply tcp_windows_ok].
  - intros s h H. apply tcph_wf in H. destruct H as (W & S).
    split; [now apply tcph_accessors_ok|]. eapply win_ok_mono; [exact S|now apply tcph_windows_ok].
  - intros s v H. apply icmp4_wf in H. destruct H as (-> & W).
    split; [now apply icmp4_accessors_ok|now apply icmp4_windows_ok].
  - intros s v H. apply icmp6_wf in H. destruct H as (-> & W).
    split; [now apply icmp6_accessors_ok|now apply icmp6_windows_ok].
Qed.
