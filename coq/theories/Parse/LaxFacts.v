(* Parse/LaxFacts.v -- the property-level facts about the lax slicing model:
   (c) Err exactly for an undecodable first header, (d) incomplete flags against the
   length fields, (a)/(b) in the form the property states them.  Built on
   Parse/LaxProofs.v (lax against strict model). *)
From EP Require Import Base.Bytes Parse.Types Parse.Slices Parse.Cursor Parse.View Parse.WireSpec Parse.Repr
  Parse.StrictProofs Parse.LaxSlices Parse.LaxCursor Parse.LaxView Parse.LaxProofs.
From Coq Require Import ZArith Lia ZifyN ZifyBool.
Local Open Scope N_scope.

(* ---- (c): behind the first header the lax functions never return Err ---------- *)
Lemma slice_transport_not_err lc p e : L.slice_transport lc p = Err e -> False.
Proof.
  unfold L.slice_transport.
  destruct (lipp_fragmented p || L.has_stop (lc_result lc)); [discriminate|].
  destruct (lipp_number p =? IPN_ICMP).
  { destruct (Icmpv4Slice.from_slice (lipp_slice p)) as [x|[l|c]|b]; discriminate. }
  destruct (lipp_number p =? IPN_UDP).
  { destruct (UdpSlice.from_slice_lax (lipp_slice p)) as [x|[l|c]|b]; discriminate. }
  destruct (lipp_number p =? IPN_TCP).
  { destruct (TcpSlice.from_slice (lipp_slice p)) as [x|[l|c]|b]; discriminate. }
  destruct (lipp_number p =? IPN_ICMPV6).
  { destruct (Icmpv6Slice.from_slice (lipp_slice p)) as [x|[l|c]|b]; discriminate. }
  discriminate.
Qed.

Lemma slice_ip_not_err lc s e : L.slice_ip lc s = Err e -> False.
Proof.
  unfold L.slice_ip.
  destruct (LaxIpSlice.from_slice s) as [[ip st]|[l|c]|b]; try discriminate.
  unfold L.ptr_diff. dprim (subN (s_off (lipp_slice (LaxIpSlice.payload ip))) (s_off s)) d Ed.
  apply slice_transport_not_err.
Qed.

Lemma slice_arp_not_err lc s e : L.slice_arp lc s = Err e -> False.
Proof.
  unfold L.slice_arp. destruct (ArpPacketSlice.from_slice s) as [x|[l|c]|b]; discriminate.
Qed.

Lemma ether_loop_not_err : forall fuel lc ep e, L.slice_ether_type_loop fuel lc ep = Err e -> False.
Proof.
  induction fuel as [|f IH]; intros lc ep e; [discriminate|].
  cbn [L.slice_ether_type_loop].
  destruct (L.is_vlan_type (ep_ether_type ep)).
  { destruct (LINK_EXTS_CAP <=? len (lsp_exts (lc_result lc))); [discriminate|].
    destruct (SingleVlanSlice.from_slice (ep_slice ep)) as [vlan|[l|c]|b]; try discriminate.
    unfold SingleVlanSlice.payload, SingleVlanSlice.ether_type, SingleVlanSlice.payload_slice.
    dprim (rd16 vlan 2) et Eet. dprim (subN (s_len vlan) 4) n En. dprim (subU vlan 4 n) p Ep.
    unfold L.push_ext. destruct (len (lsp_exts (lc_result lc)) <? LINK_EXTS_CAP); cbn [bind]; [|discriminate].
    apply IH. }
  destruct (ep_ether_type ep =? ET_MACSEC).
  { destruct (LINK_EXTS_CAP <=? len (lsp_exts (lc_result lc))); [discriminate|].
    destruct (LaxMacsecSlice.from_slice (ep_slice ep)) as [m|[l|c]|b]; try discriminate.
    unfold Macsec.header_len, Macsec.sci_present, Macsec.is_unmodified, Macsec.tci_an_raw.
    dprim (rdU (lms_header m) 0) t Et.
    unfold L.push_ext. destruct (len (lsp_exts (lc_result lc)) <? LINK_EXTS_CAP); cbn [bind]; [|discriminate].
    destruct (lms_payload m); [apply IH|discriminate]. }
  destruct (ep_ether_type ep =? ET_ARP); [apply slice_arp_not_err|].
  destruct (ep_ether_type ep =? ET_IPV4); [apply slice_ip_not_err|].
  destruct (ep_ether_type ep =? ET_IPV6); [apply slice_ip_not_err|].
  discriminate.
Qed.

Lemma rdU_whole bs i : i < len bs -> rdU (mk_slice bs) i = Ok (B bs i).
Proof.
  intros H. rewrite (repr_rdU bs (mk_slice bs) 0 (len bs) i (repr_whole bs)) by lia.
  now rewrite N.add_0_l.
Qed.

Lemma s_len_whole bs : s_len (mk_slice bs) = len bs.
Proof. reflexivity. Qed.

(* from_ethernet: Err exactly when the Ethernet II header does not fit *)
Theorem lax_from_ethernet_err_iff bs e :
  LaxSlicedPacket.from_ethernet bs = Err e <->
  (len bs < 14 /\ e = ELen (mkLenError 14 (len bs) LsSlice LyEthernet2Header 0)).
Proof.
  unfold LaxSlicedPacket.from_ethernet, L.parse_from_ethernet2,
    Ethernet2Slice.from_slice_without_fcs, lerr. rewrite s_len_whole.
  destruct (len bs <? 14) eqn:E; cbn [bind].
  - split; [intros H; injection H as <-; split; [lia|reflexivity]|intros (_ & ->); reflexivity].
  - split; [|intros (H & _); lia].
    unfold Ethernet2Slice.payload, Ethernet2Slice.ether_type, Ethernet2Slice.payload_slice.
    dprim (rd16 (mk_slice bs) 12) et Eet. dprim (subN (s_len (mk_slice bs)) 14) n En.
    dprim (subU (mk_slice bs) 14 n) p Ep.
    intros H. exfalso. eapply ether_loop_not_err. exact H.
Qed.

Theorem lax_from_ether_type_never_err et bs e : LaxSlicedPacket.from_ether_type et bs <> Err e.
Proof. intros H. eapply ether_loop_not_err. exact H. Qed.

(* the IP header as such is undecodable: reference condition over the bytes *)
Definition ip_header_fault (bs : bytes) : option slice_error :=
  if len bs =? 0 then Some (ELen (mkLenError 1 (len bs) LsSlice LyIpHeader 0))
  else
    let ver := B bs 0 / 16 in
    if ver =? 4 then
      let ihl := B bs 0 mod 16 in
      if ihl <? 5 then Some (EContent (CeIpIhl ihl))
      else if len bs <? ihl * 4 then Some (ELen (mkLenError (ihl * 4) (len bs) LsSlice LyIpv4Header 0))
      else None
    else if ver =? 6 then
      if len bs <? 40 then Some (ELen (mkLenError 40 (len bs) LsSlice LyIpv6Header 0)) else None
    else Some (EContent (CeIpUnsupportedVersion ver)).

Lemma some_inj {A} (a b : A) : Some a = Some b <-> a = b.
Proof. split; [intros H; now injection H|now intros ->]. Qed.

Lemma err_inj {A} (a b : slice_error) : @Err A a = Err b <-> a = b.
Proof. split; [intros H; now injection H|now intros ->]. Qed.

Theorem lax_ip_slice_err_iff bs e :
  LaxIpSlice.from_slice (mk_slice bs) = Err e <-> ip_header_fault bs = Some e.
Proof.
  unfold LaxIpSlice.from_slice, ip_header_fault, lerr. rewrite s_len_whole.
  destruct (len bs =? 0) eqn:E0. { rewrite err_inj, some_inj. split; intros <-; reflexivity. }
  rewrite rdU_whole by lia. cbn [bind]. rewrite shr4_div16, land15_mod.
  destruct (B bs 0 / 16 =? 4).
  { destruct (B bs 0 mod 16 <? 5). { rewrite err_inj, some_inj. reflexivity. }
    destruct (len bs <? B bs 0 mod 16 * 4). { rewrite err_inj, some_inj. reflexivity. }
    split; [|discriminate]. intros H. exfalso. revert H.
    dprim (subU (mk_slice bs) 0 (B bs 0 mod 16 * 4)) h Eh.
    unfold Ipv4HeaderSlice.total_len. dprim (rd16 h 2) tlen Et.
    destruct (LaxIpv4Slice.select_payload _ _ _) as [[[hp src] inc]|e0|b0] eqn:Es; cbn [bind];
      [|intros _; eapply select_payload_not_err; eauto|discriminate].
    destruct (LaxIpv4Slice.finish h hp src inc) as [[v st]|e0|b0] eqn:Ef; cbn [bind];
      [discriminate|intros _; eapply v4_finish_not_err; eauto|discriminate]. }
  destruct (B bs 0 / 16 =? 6); [|rewrite err_inj, some_inj; reflexivity].
  destruct (len bs <? 40) eqn:E40. { rewrite err_inj, some_inj. reflexivity. }
  split; [|discriminate]. intros H. exfalso. revert H.
  dprim (subU (mk_slice bs) 0 40) h Eh.
  unfold Ipv6HeaderSlice.payload_length. dprim (rd16 h 4) pl Epl.
  match goal with |- bind ?T _ = _ -> _ => assert (NE : forall e', T = Err e' -> False) end.
  { intros e'. destruct ((0 =? pl) && (40 <? len bs)).
    - dprim (subN (len bs) 40) n En. dprim (subU (mk_slice bs) 40 n) p Ep. discriminate.
    - dprim (subN (len bs) 40) d Ed. destruct (d <? pl).
      + dprim (subU (mk_slice bs) 40 d) p Ep. discriminate.
      + dprim (subU (mk_slice bs) 40 pl) p Ep. discriminate. }
  match goal with |- bind ?T _ = _ -> _ => destruct T as [[[hp src] inc]|e0|b0] end; cbn [bind];
    [|intros _; eapply NE; reflexivity|discriminate].
  destruct (LaxIpv6Slice.finish h hp src inc) as [[v st]|e0|b0] eqn:Ef; cbn [bind];
    [discriminate|intros _; eapply v6_finish_not_err; eauto|discriminate].
Qed.

Theorem lax_from_ip_err_iff bs e :
  LaxSlicedPacket.from_ip bs = Err e <-> ip_header_fault bs = Some e.
Proof.
  rewrite <- lax_ip_slice_err_iff.
  unfold LaxSlicedPacket.from_ip, L.parse_from_ip.
  destruct (LaxIpSlice.from_slice (mk_slice bs)) as [[ip st]|e0|b0]; cbn [bind].
  - split; [|discriminate]. intros H. exfalso. revert H.
    unfold L.ptr_diff. dprim (subN (s_off (lipp_slice (LaxIpSlice.payload ip))) (s_off (mk_slice bs))) d Ed.
    apply slice_transport_not_err.
  - split; intros H; injection H as ->; reflexivity.
  - split; discriminate.
Qed.

(* ---- (c) for the single-layer slicers: Err exactly when the header slicer fails -- *)
Theorem lax_ipv4_err_iff s e :
  LaxIpv4Slice.from_slice s = Err e <-> Ipv4HeaderSlice.from_slice s = Err e.
Proof.
  unfold LaxIpv4Slice.from_slice.
  destruct (Ipv4HeaderSlice.from_slice s) as [h|e0|b0]; cbn [bind]; [|split; intros H; injection H as ->; reflexivity|split; discriminate].
  split; [|discriminate]. intros H. exfalso. revert H.
  unfold Ipv4HeaderSlice.total_len. dprim (rd16 h 2) tlen Et.
  destruct (LaxIpv4Slice.select_payload _ _ _) as [[[hp src] inc]|e1|b1] eqn:Es; cbn [bind];
    [|intros _; eapply select_payload_not_err; eauto|discriminate].
  apply v4_finish_not_err.
Qed.

Theorem lax_ipv6_err_iff s e :
  LaxIpv6Slice.from_slice s = Err e <-> Ipv6HeaderSlice.from_slice s = Err e.
Proof.
  unfold LaxIpv6Slice.from_slice.
  destruct (Ipv6HeaderSlice.from_slice s) as [h|e0|b0]; cbn [bind]; [|split; intros H; injection H as ->; reflexivity|split; discriminate].
  split; [|discriminate]. intros H. exfalso. revert H.
  unfold Ipv6HeaderSlice.payload_length. dprim (rd16 h 4) pl Epl.
  match goal with |- bind ?T _ = _ -> _ => assert (NE : forall e', T = Err e' -> False) end.
  { intros e'. destruct ((0 =? pl) && (40 <? s_len s)).
    - dprim (subN (s_len s) 40) n En. dprim (subU s 40 n) p Ep. discriminate.
    - destruct (s_len s <? 40 + pl).
      + dprim (subN (s_len s) 40) n En. dprim (subU s 40 n) p Ep. discriminate.
      + dprim (subU s 40 pl) p Ep. discriminate. }
  match goal with |- bind ?T _ = _ -> _ => destruct T as [[[hp src] inc]|e1|b1] end; cbn [bind];
    [|intros _; eapply NE; reflexivity|discriminate].
  apply v6_finish_not_err.
Qed.

Theorem lax_macsec_err_iff s e :
  LaxMacsecSlice.from_slice s = Err e <-> Macsec.header_from_slice s = Err e.
Proof.
  unfold LaxMacsecSlice.from_slice.
  destruct (Macsec.header_from_slice s) as [h|e0|b0]; cbn [bind]; [|split; intros H; injection H as ->; reflexivity|split; discriminate].
  split; [|discriminate]. intros H. exfalso. revert H.
  unfold Macsec.expected_payload_len, Macsec.short_len, Macsec.tci_an_raw, Macsec.header_len,
    Macsec.sci_present, Macsec.is_unmodified, Macsec.next_ether_type, Macsec.tci_an_raw.
  dprim (rdU h 1) b1 E1. dprim (rdU h 0) t Et.
  assert (Fin : forall (inc : bool) (p : slice) (src : len_source),
            (let* net := (if negb (N.land t 12 =? 0) then Ok None
                          else if Macsec.bit t 32 then let* v := rd16 h 14 in Ok (Some v)
                               else let* v := rd16 h 6 in Ok (Some v)) in
             match net with
             | Some et => Ok (mkLaxMacsec h (LMpUnmodified (mkLaxEp inc et src p)))
             | None => Ok (mkLaxMacsec h (LMpModified inc p))
             end) = Err e -> False).
  { intros inc p src. destruct (negb (N.land t 12 =? 0)); cbn [bind]; [discriminate|].
    destruct (Macsec.bit t 32).
    - dprim (rd16 h 14) v Ev. discriminate.
    - dprim (rd16 h 6) v Ev. discriminate. }
  destruct (0 <? N.land b1 63).
  - destruct (negb (N.land t 12 =? 0)) eqn:Em; cbn [bind].
    + destruct (s_len s <? _).
      * dprim (subN (s_len s) (s_len h)) n En. dprim (subU s (s_len h) n) p Ep. first [discriminate | apply Fin | apply (Fin _ _ LsSlice)].
      * dprim (subU s (s_len h) (N.land b1 63)) p Ep. first [discriminate | apply Fin | apply (Fin _ _ LsSlice)].
    + destruct (N.land b1 63 <? 2); cbn [bind].
      * dprim (subN (s_len s) (s_len h)) n En. dprim (subU s (s_len h) n) p Ep. first [discriminate | apply Fin | apply (Fin _ _ LsSlice)].
      * destruct (s_len s <? _).
        -- dprim (subN (s_len s) (s_len h)) n En. dprim (subU s (s_len h) n) p Ep. first [discriminate | apply Fin | apply (Fin _ _ LsSlice)].
        -- dprim (subU s (s_len h) (N.land b1 63 - 2)) p Ep. first [discriminate | apply Fin | apply (Fin _ _ LsSlice)].
  - dprim (subN (s_len s) (s_len h)) n En. dprim (subU s (s_len h) n) p Ep. first [apply Fin | apply (Fin _ _ LsSlice)].
Qed.

Theorem lax_udp_err_iff s e :
  UdpSlice.from_slice_lax s = Err e <-> UdpSlice.header_from_slice s = Err e.
Proof.
  unfold UdpSlice.from_slice_lax.
  destruct (UdpSlice.header_from_slice s) as [h|e0|b0]; cbn [bind]; [|split; intros H; injection H as ->; reflexivity|split; discriminate].
  split; [|discriminate]. intros H. exfalso. revert H.
  unfold UdpSlice.length. dprim (rd16 h 4) l El.
  destruct ((s_len s <? l) || (l <? 8)); [discriminate|].
  dprim (subU s 0 l) u Eu. discriminate.
Qed.

Theorem lax_ipv4_exts_never_err nh s e : LaxIpv4Exts.from_slice_lax nh s <> Err e.
Proof.
  unfold LaxIpv4Exts.from_slice_lax. destruct (IPN_AUTH =? nh); [|discriminate].
  destruct (IpAuthHeaderSlice.from_slice s) as [h|e0|b0]; try discriminate.
  dprim (subN (s_len s) (s_len h)) n En. dprim (subU s (s_len h) n) r Er.
  unfold IpAuthHeaderSlice.next_header. dprim (rdU h 0) x Ex. discriminate.
Qed.

(* ---- (d): incomplete <-> the length field promises more than the slice holds ---- *)
Definition s_end (s : slice) : N := s_off s + s_len s.

Lemma subU_end s k n s' : subU s k n = Ok s' -> s_end s' = s_off s + k + n.
Proof. intros H. unfold s_end. now rewrite (subU_off _ _ _ _ H), (subU_len _ _ _ _ H). Qed.

Lemma ipv4_header_le s h :
  Ipv4HeaderSlice.from_slice s = Ok h -> s_len h <= s_len s /\ s_off h = s_off s.
Proof.
  unfold Ipv4HeaderSlice.from_slice, lerr.
  destruct (s_len s <? 20); [discriminate|]. dprim (rdU s 0) v Ev.
  destruct (negb (N.shiftr v 4 =? 4)); [discriminate|].
  destruct (N.land v 15 <? 5); [discriminate|].
  destruct (s_len s <? N.land v 15 * 4); [discriminate|].
  intros H. pose proof (subU_inv _ _ _ _ H) as (A & _).
  rewrite (subU_len _ _ _ _ H), (subU_off _ _ _ _ H). lia.
Qed.

Lemma v4_finish_fields h hp src inc v st :
  LaxIpv4Slice.finish h hp src inc = Ok (v, st) ->
  lipp_incomplete (lv4_payload v) = inc /\ lipp_src (lv4_payload v) = src /\
  s_end (lipp_slice (lv4_payload v)) = s_end hp.
Proof.
  unfold LaxIpv4Slice.finish.
  unfold Ipv4HeaderSlice.is_fragmenting_payload, Ipv4HeaderSlice.more_fragments,
    Ipv4HeaderSlice.fragments_offset, Ipv4HeaderSlice.protocol.
  dprim (rdU h 6) b6 E6. dprim (rdU h 7) b7 E7. dprim (rdU h 9) proto E9.
  destruct (proto =? IPN_AUTH).
  - destruct (IpAuthHeaderSlice.from_slice hp) as [auth|ea|b]; [| |discriminate].
    + dprim (subN (s_len hp) (s_len auth)) n En. dprim (subU hp (s_len auth) n) payload Ep.
      unfold IpAuthHeaderSlice.next_header. dprim (rdU auth 0) nh Enh.
      intros H. injection H as <- <-. cbn. repeat split.
      rewrite (subU_end _ _ _ _ Ep). apply subN_inv in En. unfold s_end. lia.
    + intros H. injection H as <- <-. cbn. auto.
  - intros H. injection H as <- <-. cbn. auto.
Qed.

Theorem lax_ipv4_incomplete s v st :
  LaxIpv4Slice.from_slice s = Ok (v, st) ->
  exists h tlen,
    Ipv4HeaderSlice.from_slice s = Ok h /\ Ipv4HeaderSlice.total_len h = Ok tlen /\
    lipp_incomplete (lv4_payload v) = (s_len s <? tlen) /\
    (lipp_incomplete (lv4_payload v) = true ->
     lipp_src (lv4_payload v) = LsSlice /\ s_end (lipp_slice (lv4_payload v)) = s_end s).
Proof.
  unfold LaxIpv4Slice.from_slice.
  destruct (Ipv4HeaderSlice.from_slice s) as [h|e0|b0] eqn:Eh; cbn [bind]; [|discriminate|discriminate].
  destruct (ipv4_header_le s h Eh) as (Hle & Hoff).
  destruct (Ipv4HeaderSlice.total_len h) as [tlen|e0|b0] eqn:Et; cbn [bind]; [|discriminate|discriminate].
  unfold LaxIpv4Slice.select_payload.
  destruct (tlen <? s_len h) eqn:E1; [|destruct (s_len s <? tlen) eqn:E2].
  - dprim (subN (s_len s) (s_len h)) n En. dprim (subU s (s_len h) n) hp Ehp.
    intros F. apply v4_finish_fields in F. destruct F as (F1 & F2 & F3).
    exists h, tlen. split; [reflexivity|]. split; [exact Et|]. rewrite F1. split.
    + symmetry. apply N.ltb_ge. lia.
    + discriminate.
  - dprim (subN (s_len s) (s_len h)) n En. dprim (subU s (s_len h) n) hp Ehp.
    intros F. apply v4_finish_fields in F. destruct F as (F1 & F2 & F3).
    exists h, tlen. split; [reflexivity|]. split; [exact Et|]. rewrite F1. split; [symmetry; exact E2|].
    intros _. split; [exact F2|].
    rewrite F3, (subU_end _ _ _ _ Ehp). apply subN_inv in En. unfold s_end. lia.
  - dprim (subN tlen (s_len h)) n En. dprim (subU s (s_len h) n) hp Ehp.
    intros F. apply v4_finish_fields in F. destruct F as (F1 & F2 & F3).
    exists h, tlen. split; [reflexivity|]. split; [exact Et|]. rewrite F1. split; [symmetry; exact E2|discriminate].
Qed.

(* the lax extension walk hands back a rest that ends where its input ends *)
Lemma lax_walk_end fuel : forall sl rest nh fr rest' nh' fr' st,
  LaxIpv6Exts.walk fuel sl rest nh fr = Ok (rest', nh', fr', st) -> s_end rest' = s_end rest.
Proof.
  induction fuel as [|f IH]; intros sl rest nh fr rest' nh' fr' st; [discriminate|].
  cbn [LaxIpv6Exts.walk].
  assert (Step : forall hd n r2, subN (s_len rest) (s_len hd) = Ok n -> subU rest (s_len hd) n = Ok r2 ->
                                 s_end r2 = s_end rest).
  { intros hd n r2 En Er. rewrite (subU_end _ _ _ _ Er). apply subN_inv in En. unfold s_end. lia. }
  destruct (nh =? IPN_HOP_BY_HOP). { intros H. now injection H as <- _ _ _. }
  destruct ((nh =? IPN_DEST_OPTIONS) || (nh =? IPN_ROUTE)).
  { destruct (Ipv6RawExtHeaderSlice.from_slice rest) as [hd|[l|c]|b]; [| |discriminate|discriminate].
    - dprim (subN (s_len rest) (s_len hd)) n En. dprim (subU rest (s_len hd) n) r2 Er.
      unfold Ipv6RawExtHeaderSlice.next_header. dprim (rdU hd 0) x Ex.
      intros H. apply IH in H. rewrite H. eapply Step; eauto.
    - dprim (subN sl (s_len rest)) off Eoff. intros H. now injection H as <- _ _ _. }
  destruct (nh =? IPN_FRAG).
  { destruct (Ipv6FragmentHeaderSlice.from_slice rest) as [hd|[l|c]|b]; [| |discriminate|discriminate].
    - dprim (subN (s_len rest) (s_len hd)) n En. dprim (subU rest (s_len hd) n) r2 Er.
      unfold Ipv6FragmentHeaderSlice.next_header. dprim (rdU hd 0) x Ex.
      unfold Ipv6FragmentHeaderSlice.is_fragmenting_payload, Ipv6FragmentHeaderSlice.more_fragments,
        Ipv6FragmentHeaderSlice.fragment_offset.
      dprim (rdU hd 3) b3 E3. dprim (rdU hd 2) b2 E2.
      intros H. apply IH in H. rewrite H. eapply Step; eauto.
    - dprim (subN sl (s_len rest)) off Eoff. intros H. now injection H as <- _ _ _. }
  destruct (nh =? IPN_AUTH).
  { destruct (IpAuthHeaderSlice.from_slice rest) as [hd|[l|c]|b]; [| | |discriminate].
    - dprim (subN (s_len rest) (s_len hd)) n En. dprim (subU rest (s_len hd) n) r2 Er.
      unfold IpAuthHeaderSlice.next_header. dprim (rdU hd 0) x Ex.
      intros H. apply IH in H. rewrite H. eapply Step; eauto.
    - dprim (subN sl (s_len rest)) off Eoff. intros H. now injection H as <- _ _ _.
    - intros H. now injection H as <- _ _ _. }
  intros H. now injection H as <- _ _ _.
Qed.

Lemma lax_exts_end nh s x n rest st :
  LaxIpv6Exts.from_slice_lax nh s = Ok (x, n, rest, st) -> s_end rest = s_end s.
Proof.
  unfold LaxIpv6Exts.from_slice_lax.
  assert (Tail : forall w, (let '(rest0, next_header, fragmented, error) := w in
     let* used := subN (s_len s) (s_len rest0) in
     let* sl := (if used <=? s_len s then Ok (fst s, take used (snd s)) else Bug SITE_INDEX) in
     Ok (mkIpv6Exts (if negb (s_len rest0 =? s_len s) then Some nh else None) fragmented sl,
         next_header, rest0, error)) = Ok (x, n, rest, st) -> rest = fst (fst (fst w))).
  { intros [[[r0 n0] f0] e0]. dprim (subN (s_len s) (s_len r0)) used Eu.
    destruct (used <=? s_len s); cbn [bind]; [|discriminate]. intros H. now injection H as _ _ <- _. }
  destruct (IPN_HOP_BY_HOP =? nh).
  - destruct (Ipv6RawExtHeaderSlice.from_slice s) as [hd|[l|c]|b]; cbn [bind]; try discriminate.
    + destruct (s_len hd <=? s_len s) eqn:Ele; cbn [bind]; [|discriminate].
      unfold Ipv6RawExtHeaderSlice.next_header. dprim (rdU hd 0) x0 Ex.
      destruct (LaxIpv6Exts.walk _ _ _ _ _) as [[[[r1 n1] f1] e1]|e0|b0] eqn:W; cbn [bind];
        [|discriminate|discriminate].
      intros H. apply (Tail (r1, n1, f1, e1)) in H. cbn in H. subst r1.
      apply lax_walk_end in W. rewrite W. unfold s_end, s_off, s_len. cbn [fst snd].
      rewrite len_drop. unfold s_len in Ele. lia.
    + intros H. apply (Tail (s, nh, false, Some (ELen l, LyIpv6HopByHopHeader))) in H. now subst.
  - cbn [bind].
    destruct (LaxIpv6Exts.walk _ _ _ _ _) as [[[[r1 n1] f1] e1]|e0|b0] eqn:W; cbn [bind];
      [|discriminate|discriminate].
    intros H. apply (Tail (r1, n1, f1, e1)) in H. cbn in H. subst r1.
    now apply lax_walk_end in W.
Qed.

Lemma v6_finish_fields h hp src inc v st :
  LaxIpv6Slice.finish h hp src inc = Ok (v, st) ->
  lipp_incomplete (lv6_payload v) = inc /\ lipp_src (lv6_payload v) = src /\
  s_end (lipp_slice (lv6_payload v)) = s_end hp.
Proof.
  unfold LaxIpv6Slice.finish, Ipv6HeaderSlice.next_header.
  dprim (rdU h 6) nh Enh.
  destruct (LaxIpv6Exts.from_slice_lax nh hp) as [[[[x n] r] st0]|e0|b] eqn:EX; cbn [bind];
    [|discriminate|discriminate].
  intros H. injection H as <- _. cbn. repeat split. eapply lax_exts_end; eauto.
Qed.

Theorem lax_ipv6_incomplete s v st :
  LaxIpv6Slice.from_slice s = Ok (v, st) ->
  exists h pl,
    Ipv6HeaderSlice.from_slice s = Ok h /\ Ipv6HeaderSlice.payload_length h = Ok pl /\
    lipp_incomplete (lv6_payload v) = (s_len s <? 40 + pl) /\
    (lipp_incomplete (lv6_payload v) = true ->
     lipp_src (lv6_payload v) = LsSlice /\ s_end (lipp_slice (lv6_payload v)) = s_end s).
Proof.
  unfold LaxIpv6Slice.from_slice.
  destruct (Ipv6HeaderSlice.from_slice s) as [h|e0|b0] eqn:Eh; cbn [bind]; [|discriminate|discriminate].
  destruct (Ipv6HeaderSlice.payload_length h) as [pl|e0|b0] eqn:Et; cbn [bind]; [|discriminate|discriminate].
  destruct ((0 =? pl) && (40 <? s_len s)) eqn:E1; [|destruct (s_len s <? 40 + pl) eqn:E2].
  - dprim (subN (s_len s) 40) n En. dprim (subU s 40 n) hp Ehp.
    intros F. apply v6_finish_fields in F. destruct F as (F1 & F2 & F3).
    exists h, pl. split; [reflexivity|]. split; [exact Et|]. rewrite F1. split.
    + symmetry. apply N.ltb_ge. lia.
    + discriminate.
  - dprim (subN (s_len s) 40) n En. dprim (subU s 40 n) hp Ehp.
    intros F. apply v6_finish_fields in F. destruct F as (F1 & F2 & F3).
    exists h, pl. split; [reflexivity|]. split; [exact Et|]. rewrite F1. split; [symmetry; exact E2|].
    intros _. split; [exact F2|].
    rewrite F3, (subU_end _ _ _ _ Ehp). apply subN_inv in En. unfold s_end. lia.
  - dprim (subU s 40 pl) hp Ehp.
    intros F. apply v6_finish_fields in F. destruct F as (F1 & F2 & F3).
    exists h, pl. split; [reflexivity|]. split; [exact Et|]. rewrite F1. split; [symmetry; exact E2|discriminate].
Qed.

Definition lms_incomplete (m : lax_macsec_slice) : bool :=
  match lms_payload m with LMpUnmodified e => lep_incomplete e | LMpModified i _ => i end.
Definition lms_pslice (m : lax_macsec_slice) : slice :=
  match lms_payload m with LMpUnmodified e => lep_slice e | LMpModified _ s => s end.
Definition lms_src_ok (m : lax_macsec_slice) : Prop :=
  match lms_payload m with LMpUnmodified e => lep_src e = LsSlice | LMpModified _ _ => True end.

Theorem lax_macsec_incomplete s m :
  LaxMacsecSlice.from_slice s = Ok m ->
  exists h epl,
    Macsec.header_from_slice s = Ok h /\ Macsec.expected_payload_len h = Ok epl /\
    lms_incomplete m =
      (match epl with Some req => s_len s <? s_len h + req | None => false end) /\
    (lms_incomplete m = true -> lms_src_ok m /\ s_end (lms_pslice m) = s_end s).
Proof.
  unfold LaxMacsecSlice.from_slice.
  destruct (Macsec.header_from_slice s) as [h|e0|b0] eqn:Eh; cbn [bind]; [|discriminate|discriminate].
  rewrite (macsec_header_len s h Eh).
  destruct (Macsec.expected_payload_len h) as [[req|]|e0|b0] eqn:Ee; cbn [bind]; try discriminate.
  - destruct (s_len s <? s_len h + req) eqn:E1.
    + dprim (subN (s_len s) (s_len h)) n En. dprim (subU s (s_len h) n) p Ep.
      destruct (Macsec.next_ether_type h) as [[et|]|e0|b0]; cbn [bind]; try discriminate;
        intros H; injection H as <-; exists h, (Some req); cbn;
        (split; [reflexivity|]); (split; [exact Ee|]); (split; [symmetry; exact E1|]);
        intros _; (split; [reflexivity|]);
        rewrite (subU_end _ _ _ _ Ep); apply subN_inv in En; unfold s_end; lia.
    + dprim (subU s (s_len h) req) p Ep.
      destruct (Macsec.next_ether_type h) as [[et|]|e0|b0]; cbn [bind]; try discriminate;
        intros H; injection H as <-; exists h, (Some req); cbn;
        (split; [reflexivity|]); (split; [exact Ee|]); (split; [symmetry; exact E1|discriminate]).
  - dprim (subN (s_len s) (s_len h)) n En. dprim (subU s (s_len h) n) p Ep.
    destruct (Macsec.next_ether_type h) as [[et|]|e0|b0]; cbn [bind]; try discriminate;
      intros H; injection H as <-; exists h, None; cbn;
      (split; [reflexivity|]); (split; [exact Ee|]); (split; [reflexivity|discriminate]).
Qed.

(* ---- (a) in the form the property states it -------------------------------------- *)
Definition extends (strict : res sliced_packet) (lax : res lax_sliced_packet) : Prop :=
  forall r, strict = Ok r ->
  exists r', lax = Ok r' /\ strictify (lview r') = view r /\ lsp_stop_err r' = None /\
             all_complete (lview r') = true.

Lemma extends_of strict lax :
  (forall r, strict = Ok r -> lax = Ok (lax_of_packet r)) -> extends strict lax.
Proof.
  intros H r Hr. exists (lax_of_packet r). split; [now apply H|].
  split; [apply strictify_lax_of|]. split; [reflexivity|apply complete_lax_of].
Qed.

Theorem lax_extends_strict bs et :
  extends (SlicedPacket.from_ethernet bs) (LaxSlicedPacket.from_ethernet bs) /\
  extends (SlicedPacket.from_ether_type et bs) (LaxSlicedPacket.from_ether_type et bs) /\
  extends (SlicedPacket.from_ip bs) (LaxSlicedPacket.from_ip bs).
Proof.
  split; [|split]; apply extends_of.
  - apply from_ethernet_extends.
  - apply from_ether_type_extends.
  - apply from_ip_extends.
Qed.

Lemma ipv4_exts_sim nh s :
  match Ipv4Exts.from_slice nh s with
  | Ok w => LaxIpv4Exts.from_slice_lax nh s = Ok (w, None)
  | Err e => LaxIpv4Exts.from_slice_lax nh s = Ok (None, nh, s, Some e)
  | Bug _ => True
  end.
Proof.
  unfold Ipv4Exts.from_slice, LaxIpv4Exts.from_slice_lax.
  destruct (IPN_AUTH =? nh); [|reflexivity].
  destruct (IpAuthHeaderSlice.from_slice s) as [h|e|b] eqn:Eh; cbn [bind]; [|reflexivity|exact I].
  revert Eh. unfold IpAuthHeaderSlice.from_slice, lerr.
  destruct (s_len s <? 12); [discriminate|]. dprim (rdU s 1) pl E1.
  destruct (pl <? 1); [discriminate|]. destruct (s_len s <? (pl + 2) * 4) eqn:El; [discriminate|].
  intros Hs. pose proof (subU_inv _ _ _ _ Hs) as (A & Hh).
  assert (Hl : s_len h = (pl + 2) * 4) by exact (subU_len _ _ _ _ Hs).
  destruct (s_len h <=? s_len s) eqn:Ele; [|lia]. cbn [bind].
  rewrite (subN_ok_lax (s_len s) (s_len h)) by lia. cbn [bind].
  unfold subU. destruct (s_len h + (s_len s - s_len h) <=? s_len s) eqn:E2; [|lia]. cbn [bind].
  unfold IpAuthHeaderSlice.next_header. dprim (rdU h 0) x Ex.
  do 3 f_equal. f_equal. unfold take, drop. apply firstn_all2.
  rewrite skipn_length. unfold s_len, len in *. lia.
Qed.

(* (a) for the single-layer slicers *)
Theorem lax_extends_strict_single s nh :
  (forall i, IpSlice.from_slice s = Ok i -> LaxIpSlice.from_slice s = Ok (lax_of_ip i, None)) /\
  (forall v, Ipv4Slice.from_slice s = Ok v -> LaxIpv4Slice.from_slice s = Ok (lax_of_v4 v, None)) /\
  (forall v, Ipv6Slice.from_slice s = Ok v -> LaxIpv6Slice.from_slice s = Ok (lax_of_v6 v, None)) /\
  (forall m, Macsec.from_slice s = Ok m -> LaxMacsecSlice.from_slice s = Ok (lax_of_macsec m)) /\
  (forall u, UdpSlice.from_slice s = Ok u -> UdpSlice.from_slice_lax s = Ok u) /\
  (forall w, Ipv6ExtensionsSlice.from_slice nh s = Ok w -> LaxIpv6Exts.from_slice_lax nh s = Ok (w, None)) /\
  (forall w, Ipv4Exts.from_slice nh s = Ok w -> LaxIpv4Exts.from_slice_lax nh s = Ok (w, None)).
Proof.
  repeat split.
  - intros i H. pose proof (ipslice_sim s) as X. now rewrite H in X.
  - intros v H. pose proof (ipv4_sim s) as X. now rewrite H in X.
  - intros v H. pose proof (ipv6_sim s) as X. now rewrite H in X.
  - intros m H. pose proof (macsec_sim s) as X. now rewrite H in X.
  - intros u H. pose proof (udp_lax_of_strict s) as X. now rewrite H in X.
  - intros w H. pose proof (exts_sim nh s) as X. now rewrite H in X.
  - intros w H. pose proof (ipv4_exts_sim nh s) as X. now rewrite H in X.
Qed.

(* ---- (b), the part that is proved: per layer, a strict rejection is a fault of the
   first header (lax: the same Err), a documented length fallback, or it is
   recorded unchanged as stop error with a fitting layer tag ------------------------ *)
Theorem lax_records_fault_single s nh :
  (forall e, Ipv4Slice.from_slice s = Err e ->
     match LaxIpv4Slice.from_slice s with
     | Ok (_, st) => v4_len_fallback e \/ (st = Some e /\ auth_fault e)
     | Err e' => e' = e /\ Ipv4HeaderSlice.from_slice s = Err e
     | Bug _ => True
     end) /\
  (forall e, Ipv6Slice.from_slice s = Err e ->
     match LaxIpv6Slice.from_slice s with
     | Ok (_, st) => v6_len_fallback e \/ stop_is st e
     | Err e' => e' = e /\ Ipv6HeaderSlice.from_slice s = Err e
     | Bug _ => True
     end) /\
  (forall e, Ipv6ExtensionsSlice.from_slice nh s = Err e ->
     match LaxIpv6Exts.from_slice_lax nh s with
     | Ok (_, st) => stop_is st e
     | Err _ => False
     | Bug _ => True
     end) /\
  (forall e, Ipv4Exts.from_slice nh s = Err e ->
     LaxIpv4Exts.from_slice_lax nh s = Ok (None, nh, s, Some e)) /\
  (forall e, UdpSlice.from_slice s = Err e ->
     exists l, e = ELen l /\
     ((UdpSlice.header_from_slice s = Err e /\ UdpSlice.from_slice_lax s = Err e) \/
      (udp_fallback l /\ UdpSlice.from_slice_lax s = Ok s))).
Proof.
  repeat split.
  - intros e H. pose proof (ipv4_sim s) as X. rewrite H in X.
    destruct (LaxIpv4Slice.from_slice s) as [[v st]|e'|b]; [exact (proj2 X)|exact X|exact I].
  - intros e H. pose proof (ipv6_sim s) as X. rewrite H in X.
    destruct (LaxIpv6Slice.from_slice s) as [[v st]|e'|b]; [exact (proj2 X)|exact X|exact I].
  - intros e H. pose proof (exts_sim nh s) as X. rewrite H in X.
    destruct (LaxIpv6Exts.from_slice_lax nh s) as [[v st]|e'|b]; [exact X|exact X|exact I].
  - intros e H. pose proof (ipv4_exts_sim nh s) as X. now rewrite H in X.
  - intros e H. pose proof (udp_lax_of_strict s) as X. rewrite H in X.
    destruct e as [l|c]; [|contradiction]. exists l. split; [reflexivity|].
    destruct X as [X|(F & h & _ & X)]; [left; exact X|right; split; assumption].
Qed.

(* the transport step of the whole-packet cursors (used behind every IP layer) *)
Theorem lax_records_fault_transport c lc p :
  lc_offset lc = c_offset c -> c_src c = ipp_src p -> lsp_stop_err (lc_result lc) = None ->
  lc_result lc = lax_of_packet (c_result c) ->
  forall e, SlicedPacketCursor.transport_dispatch c p = Err e ->
  exists r', L.slice_transport lc (lax_of_ipp p) = Ok r' /\
             ((exists l, e = ELen l /\ udp_fallback l) \/ recorded (lc_result lc) r' e).
Proof.
  intros H1 H2 H3 H4 e H. pose proof (transport_sim c lc p H1 H2 H3 H4) as X. now rewrite H in X.
Qed.

