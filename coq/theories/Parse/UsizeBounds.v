(* Parse/UsizeBounds.v -- fixed-width overflow.  The models of Parse/Slices.v compute lengths
   in unbounded N, so an overflowing usize `+` / `*` (a panic in debug builds, a wrap-around
   in release builds) is not a value of the model.  Here the strict single-layer
   constructors that add or multiply are written once more with every `+` and `*` of the
   Rust source CHECKED against a usize of M values (`addC` / `mulC` return Bug SITE_OVERFLOW
   when the exact result is >= M); the theorem: for every M >= 2^17 (in particular the
   32-bit and the 64-bit usize) and every slice whose elements are bytes, the checked
   constructor IS the constructor of Parse/Slices.v -- no sum or product overflows, whatever
   the length of the slice: every operand is a widened u8 / u16 field or a constant
   ((b+2)*4 <= 1028, (b+1)*8 <= 2048, 8+2*hw+2*pr <= 1028, ihl*4 <= 60, 40+payload_len <= 65575,
   MACsec header_len + short_len <= 16+63).
   The other constructors (Ethernet II, VLAN, Linux SLL, fragment header, UDP, TCP, ICMP)
   contain no usize addition or multiplication (TCP: shifts on a u8; with_crc32_fcs: the
   constant 14 + 4).  Subtraction is partial in the model already (subN).
   NOT covered here: the offset bookkeeping of the packet cursors and of the LenError
   fix-ups (offset + header_len, offset + pointer difference, layer_start_offset + offset):
   sums of positions inside the input. *)
From EP Require Import Base.Bytes Parse.Types Parse.Slices Parse.Repr Parse.Access Parse.AccessProofs.
From EP Require Parse.CtorsTotal.
From Coq Require Import ZArith Lia ZifyN ZifyBool.

Local Open Scope N_scope.

Definition SITE_OVERFLOW : N := 9.   (* `attempt to add / multiply with overflow` *)

(* a + b, a * b on a usize with M values *)
Definition addC (M a b : N) : res N := if a + b <? M then Ok (a + b) else Bug SITE_OVERFLOW.
Definition mulC (M a b : N) : res N := if a * b <? M then Ok (a * b) else Bug SITE_OVERFLOW.

Lemma addC_ok M a b : a + b < M -> addC M a b = Ok (a + b).
Proof. intros H. unfold addC. destruct (a + b <? M) eqn:E; [reflexivity|lia]. Qed.
Lemma mulC_ok M a b : a * b < M -> mulC M a b = Ok (a * b).
Proof. intros H. unfold mulC. destruct (a * b <? M) eqn:E; [reflexivity|lia]. Qed.

(* the checked primitives are real: they do report an overflow *)
Lemma addC_overflow : addC (2 ^ 32) 4294967295 1 = Bug SITE_OVERFLOW.
Proof. reflexivity. Qed.

Section Checked.
  Variable M : N.

  (* MacsecHeaderSlice::from_slice: required_len = 6 + (2|0) + (8|0) *)
  Definition macsec_header_from_slice (s : slice) : res slice :=
    if s_len s <? 6 then lerr 6 (s_len s) LsSlice LyMacsecHeader
    else
      let* tci_an := rdU s 0 in
      if Macsec.bit tci_an 128 then Err (EContent CeMacsecVersion)
      else
        let unmodified := N.land tci_an 12 =? 0 in
        let* _ :=
          (if unmodified then
             let* b1 := rdU s 1 in
             if N.land b1 63 =? 1 then Err (EContent CeMacsecUnmodifiedShortLen) else Ok tt
           else Ok tt) in
        let* r1 := addC M 6 (if unmodified then 2 else 0) in
        let* required_len := addC M r1 (if Macsec.bit tci_an 32 then 8 else 0) in
        if s_len s <? required_len then lerr required_len (s_len s) LsSlice LyMacsecHeader
        else subU s 0 required_len.

  (* MacsecSlice::from_slice: header.len() + required payload len *)
  Definition macsec_from_slice (s : slice) : res macsec_slice :=
    let* header := macsec_header_from_slice s in
    let* epl := Macsec.expected_payload_len header in
    let* pls :=
      match epl with
      | Some req_payload_len =>
          let* required_len := addC M (s_len header) req_payload_len in
          if s_len s <? required_len then
            lerr required_len (s_len s) LsMacsecShortLength LyMacsecPacket
          else
            let* p := subU s (s_len header) req_payload_len in
            Ok (p, LsMacsecShortLength)
      | None =>
          let* n := subN (s_len s) (s_len header) in
          let* p := subU s (s_len header) n in
          Ok (p, LsSlice)
      end in
    let '(payload_slice, src) := pls in
    let* net := Macsec.next_ether_type header in
    match net with
    | Some et => Ok (mkMacsecSlice header (MpUnmodified (mkEtherPayload et src payload_slice)))
    | None => Ok (mkMacsecSlice header (MpModified payload_slice))
    end.

  (* ArpPacketSlice::from_slice: 8 + hw*2 + pr*2 *)
  Definition arp_from_slice (s : slice) : res slice :=
    if s_len s <? 8 then lerr 8 (s_len s) LsSlice LyArp
    else
      let* hw := rdU s 4 in
      let* pr := rdU s 5 in
      let* hw2 := mulC M hw 2 in
      let* a := addC M 8 hw2 in
      let* pr2 := mulC M pr 2 in
      let* min_len := addC M a pr2 in
      if s_len s <? min_len then lerr min_len (s_len s) LsArpAddrLengths LyArp
      else subU s 0 min_len.

  (* Ipv4HeaderSlice::from_slice: ihl * 4 *)
  Definition ipv4_header_from_slice (s : slice) : res slice :=
    if s_len s <? 20 then lerr 20 (s_len s) LsSlice LyIpv4Header
    else
      let* v := rdU s 0 in
      let version_number := N.shiftr v 4 in
      let ihl := N.land v 15 in
      if negb (version_number =? 4) then Err (EContent (CeIpv4Version version_number))
      else if ihl <? 5 then Err (EContent (CeIpv4Ihl ihl))
      else
        let* header_length := mulC M ihl 4 in
        if s_len s <? header_length then lerr header_length (s_len s) LsSlice LyIpv4Header
        else subU s 0 header_length.

  (* IpAuthHeaderSlice::from_slice: (payload_len_enc + 2) * 4 *)
  Definition auth_from_slice (s : slice) : res slice :=
    if s_len s <? 12 then lerr 12 (s_len s) LsSlice LyIpAuthHeader
    else
      let* payload_len_enc := rdU s 1 in
      if payload_len_enc <? 1 then Err (EContent CeAuthZeroPayloadLen)
      else
        let* p2 := addC M payload_len_enc 2 in
        let* l := mulC M p2 4 in
        if s_len s <? l then lerr l (s_len s) LsSlice LyIpAuthHeader
        else subU s 0 l.

  (* Ipv6RawExtHeaderSlice::from_slice: (slice[1] + 1) * 8 *)
  Definition raw_from_slice (s : slice) : res slice :=
    if s_len s <? 8 then lerr 8 (s_len s) LsSlice LyIpv6ExtHeader
    else
      let* b1 := (match rd (snd s) 1 with Some v => Ok v | None => Bug SITE_INDEX end) in
      let* b11 := addC M b1 1 in
      let* l := mulC M b11 8 in
      if s_len s <? l then lerr l (s_len s) LsSlice LyIpv6ExtHeader
      else subU s 0 l.

  (* Ipv6Slice::from_slice / the IPv6 arm of IpSlice::from_slice (shared tail):
     Ipv6Header::LEN + payload_length.  The extension walk it calls is the model's; its
     arithmetic is that of the raw / authentication header constructors above. *)
  Definition ipv6_finish (s header : slice) : res ipv6_slice :=
    let* pl := Ipv6HeaderSlice.payload_length header in
    let* hp :=
      (if (0 =? pl) && (40 <? s_len s) then
         let* n := subN (s_len s) 40 in
         let* p := subU s 40 n in
         Ok (p, LsSlice)
       else
         let* expected_len := addC M 40 pl in
         if s_len s <? expected_len then lerr expected_len (s_len s) LsSlice LyIpv6Packet
         else
           let* p := subU s 40 pl in
           Ok (p, LsIpv6HeaderPayloadLen)) in
    let '(header_payload, src) := hp in
    let* nh := Ipv6HeaderSlice.next_header header in
    let* x :=
      match Ipv6ExtensionsSlice.from_slice nh header_payload with
      | Err (ELen e) => Err (ELen (le_add_offset (le_set_src e src) 40))
      | r => r
      end in
    let '(exts, payload_ip_number, payload) := x in
    Ok (mkIpv6Slice header exts
          (mkIpPayload payload_ip_number (x6_fragmented exts) src payload)).

  Definition ipv6_from_slice (s : slice) : res ipv6_slice :=
    let* header := Ipv6HeaderSlice.from_slice s in
    ipv6_finish s header.

  (* IpSlice::from_slice: ihl * 4 (the IPv6 arm: see ipv6_finish) *)
  Definition ip_from_slice (s : slice) : res ip_slice :=
    if s_len s =? 0 then lerr 1 (s_len s) LsSlice LyIpHeader
    else
      let* first_byte := rdU s 0 in
      let ver := N.shiftr first_byte 4 in
      if ver =? 4 then
        let ihl := N.land first_byte 15 in
        if ihl <? 5 then Err (EContent (CeIpIhl ihl))
        else
          let* header_len := mulC M ihl 4 in
          if s_len s <? header_len then lerr header_len (s_len s) LsSlice LyIpv4Header
          else
            let* header := subU s 0 header_len in
            let* total_len := Ipv4HeaderSlice.total_len header in
            if total_len <? header_len then
              lerr header_len total_len LsIpv4HeaderTotalLen LyIpv4Packet
            else if s_len s <? total_len then
              lerr total_len (s_len s) LsSlice LyIpv4Packet
            else
              let* n := subN total_len header_len in
              let* header_payload := subU s header_len n in
              let* v := Ipv4Slice.finish header header_payload in
              Ok (IpV4 v)
      else if ver =? 6 then
        if s_len s <? 40 then lerr 40 (s_len s) LsSlice LyIpv6Header
        else
          let* header := subU s 0 40 in
          let* v := ipv6_finish s header in
          Ok (IpV6 v)
      else Err (EContent (CeIpUnsupportedVersion ver)).

  Hypothesis HM : 2 ^ 17 <= M.

  Lemma macsec_header_chk s : macsec_header_from_slice s = Macsec.header_from_slice s.
  Proof.
    unfold macsec_header_from_slice, Macsec.header_from_slice. cbv zeta.
    destruct (s_len s <? 6); [reflexivity|].
    destruct (rdU s 0) as [t|e|b]; cbn [bind]; try reflexivity.
    destruct (Macsec.bit t 128); [reflexivity|].
    match goal with |- bind ?X _ = bind ?X _ => destruct X as [u|e|b]; cbn [bind]; try reflexivity end.
    assert (P : 2 ^ 17 = 131072) by reflexivity.
    rewrite addC_ok by (destruct (N.land t 12 =? 0); lia). cbn [bind].
    rewrite addC_ok by (destruct (N.land t 12 =? 0), (Macsec.bit t 32); lia). reflexivity.
  Qed.

  Lemma macsec_chk s : bytes_ok (snd s) -> macsec_from_slice s = Macsec.from_slice s.
  Proof.
    intros Hok. unfold macsec_from_slice, Macsec.from_slice. rewrite macsec_header_chk.
    destruct (Macsec.header_from_slice s) as [h|e|b] eqn:Eh; cbn [bind]; try reflexivity.
    destruct (Macsec.expected_payload_len h) as [[req|]|e|b] eqn:Ee; cbn [bind]; try reflexivity.
    apply macsech_wf in Eh. destruct Eh as ((t & E0 & L) & _).
    assert (P : 2 ^ 17 = 131072) by reflexivity.
    assert (Lh : s_len h <= 16) by (destruct (N.land t 12 =? 0), (bitset t 32); lia).
    assert (Lr : req < 64).
    { unfold Macsec.expected_payload_len, Macsec.short_len, Macsec.tci_an_raw in Ee.
      destruct (rdU h 1) as [b1|?|?]; cbn [bind] in Ee; try discriminate.
      rewrite E0 in Ee. cbn [bind] in Ee.
      assert (B : N.land b1 63 < 64).
      { rewrite (N.land_ones b1 6 : N.land b1 63 = b1 mod 2 ^ 6). apply N.mod_lt. discriminate. }
      destruct (0 <? N.land b1 63); [|discriminate].
      destruct (negb (N.land t 12 =? 0)); [injection Ee as <-; exact B|].
      destruct (N.land b1 63 <? 2); [discriminate|]. injection Ee as <-. lia. }
    rewrite addC_ok by lia. reflexivity.
  Qed.

  Lemma arp_chk s : bytes_ok (snd s) -> arp_from_slice s = ArpPacketSlice.from_slice s.
  Proof.
    intros Hok. unfold arp_from_slice, ArpPacketSlice.from_slice. cbv zeta.
    destruct (s_len s <? 8); [reflexivity|].
    destruct (rdU s 4) as [hw|e|b] eqn:E4; cbn [bind]; try reflexivity.
    destruct (rdU s 5) as [pr|e|b] eqn:E5; cbn [bind]; try reflexivity.
    pose proof (rdU_byte s 4 hw Hok E4). pose proof (rdU_byte s 5 pr Hok E5).
    assert (P : 2 ^ 17 = 131072) by reflexivity.
    rewrite (mulC_ok M hw 2) by lia. cbn [bind]. rewrite addC_ok by lia. cbn [bind].
    rewrite (mulC_ok M pr 2) by lia. cbn [bind]. rewrite addC_ok by lia. reflexivity.
  Qed.

  Lemma ipv4_header_chk s : ipv4_header_from_slice s = Ipv4HeaderSlice.from_slice s.
  Proof.
    unfold ipv4_header_from_slice, Ipv4HeaderSlice.from_slice. cbv zeta.
    destruct (s_len s <? 20); [reflexivity|].
    destruct (rdU s 0) as [v|e|b]; cbn [bind]; try reflexivity.
    destruct (negb (N.shiftr v 4 =? 4)); [reflexivity|]. destruct (N.land v 15 <? 5); [reflexivity|].
    pose proof (land15_le v). assert (P : 2 ^ 17 = 131072) by reflexivity.
    rewrite mulC_ok by lia. reflexivity.
  Qed.

  Lemma auth_chk s : bytes_ok (snd s) -> auth_from_slice s = IpAuthHeaderSlice.from_slice s.
  Proof.
    intros Hok. unfold auth_from_slice, IpAuthHeaderSlice.from_slice. cbv zeta.
    destruct (s_len s <? 12); [reflexivity|].
    destruct (rdU s 1) as [p|e|b] eqn:E1; cbn [bind]; try reflexivity.
    destruct (p <? 1); [reflexivity|].
    pose proof (rdU_byte s 1 p Hok E1). assert (P : 2 ^ 17 = 131072) by reflexivity.
    rewrite addC_ok by lia. cbn [bind]. rewrite mulC_ok by lia. reflexivity.
  Qed.

  Lemma raw_chk s : bytes_ok (snd s) -> raw_from_slice s = Ipv6RawExtHeaderSlice.from_slice s.
  Proof.
    intros Hok. unfold raw_from_slice, Ipv6RawExtHeaderSlice.from_slice. cbv zeta.
    destruct (s_len s <? 8); [reflexivity|].
    destruct (rd (snd s) 1) as [b|] eqn:E1; cbn [bind]; [|reflexivity].
    assert (B : b < 256) by (eapply rd_ok; eauto). assert (P : 2 ^ 17 = 131072) by reflexivity.
    rewrite addC_ok by lia. cbn [bind]. rewrite mulC_ok by lia. reflexivity.
  Qed.

  Lemma ipv6_finish_chk s h : bytes_ok (snd h) -> ipv6_finish s h = Ipv6Slice.finish s h.
  Proof.
    intros Hok. unfold ipv6_finish, Ipv6Slice.finish.
    destruct (Ipv6HeaderSlice.payload_length h) as [pl|e|b] eqn:Epl; cbn [bind]; try reflexivity.
    destruct ((0 =? pl) && (40 <? s_len s)); [reflexivity|].
    assert (B : pl < 65536).
    { unfold Ipv6HeaderSlice.payload_length, rd16 in Epl.
      destruct (rdU h 4) as [a|?|?] eqn:Ea; cbn [bind] in Epl; try discriminate.
      destruct (rdU h (4 + 1)) as [c|?|?] eqn:Eb; cbn [bind] in Epl; try discriminate.
      injection Epl as <-. pose proof (rdU_byte h 4 a Hok Ea). pose proof (rdU_byte h (4 + 1) c Hok Eb).
      unfold be16. lia. }
    assert (P : 2 ^ 17 = 131072) by reflexivity.
    rewrite addC_ok by lia. reflexivity.
  Qed.

  Lemma ipv6_chk s : bytes_ok (snd s) -> ipv6_from_slice s = Ipv6Slice.from_slice s.
  Proof.
    intros Hok. unfold ipv6_from_slice, Ipv6Slice.from_slice.
    destruct (Ipv6HeaderSlice.from_slice s) as [h|e|b] eqn:Eh; cbn [bind]; try reflexivity.
    apply ipv6_finish_chk. apply ipv6h_wf in Eh. destruct Eh as (_ & S).
    exact (sub_of_bytes_ok _ _ S Hok).
  Qed.

  Lemma ip_chk s : bytes_ok (snd s) -> ip_from_slice s = IpSlice.from_slice s.
  Proof.
    intros Hok. unfold ip_from_slice, IpSlice.from_slice. cbv zeta.
    destruct (s_len s =? 0); [reflexivity|].
    destruct (rdU s 0) as [fb|e|b]; cbn [bind]; try reflexivity.
    destruct (N.shiftr fb 4 =? 4).
    - destruct (N.land fb 15 <? 5); [reflexivity|].
      pose proof (land15_le fb). assert (P : 2 ^ 17 = 131072) by reflexivity.
      rewrite mulC_ok by lia. reflexivity.
    - destruct (N.shiftr fb 4 =? 6); [|reflexivity]. destruct (s_len s <? 40); [reflexivity|].
      destruct (subU s 0 40) as [h|e|b] eqn:Eh; cbn [bind]; try reflexivity.
      rewrite ipv6_finish_chk; [reflexivity|]. exact (subU_bytes_ok _ _ _ _ Eh Hok).
  Qed.
End Checked.

(* for every usize of at least 17 bits and every slice of bytes: no `+` / `*` of the
   constructors overflows -- the checked constructor is the constructor *)
Theorem no_usize_overflow : forall M s, 2 ^ 17 <= M -> bytes_ok (snd s) ->
  macsec_header_from_slice M s = Macsec.header_from_slice s /\
  macsec_from_slice M s = Macsec.from_slice s /\
  arp_from_slice M s = ArpPacketSlice.from_slice s /\
  ipv4_header_from_slice M s = Ipv4HeaderSlice.from_slice s /\
  auth_from_slice M s = IpAuthHeaderSlice.from_slice s /\
  raw_from_slice M s = Ipv6RawExtHeaderSlice.from_slice s /\
  ipv6_from_slice M s = Ipv6Slice.from_slice s /\
  ip_from_slice M s = IpSlice.from_slice s.
Proof.
  intros M s HM Hok.
  split; [now apply macsec_header_chk|]. split; [now apply macsec_chk|].
  split; [now apply arp_chk|]. split; [now apply ipv4_header_chk|].
  split; [now apply auth_chk|]. split; [now apply raw_chk|].
  split; [now apply ipv6_chk|now apply ip_chk].
Qed.

(* hence the checked constructors never report an overflow (nor any other Bug) *)
Corollary no_usize_overflow_32 : forall s b, bytes_ok (snd s) ->
  macsec_header_from_slice (2 ^ 32) s <> Bug b /\ macsec_from_slice (2 ^ 32) s <> Bug b /\
  arp_from_slice (2 ^ 32) s <> Bug b /\ ipv4_header_from_slice (2 ^ 32) s <> Bug b /\
  auth_from_slice (2 ^ 32) s <> Bug b /\ raw_from_slice (2 ^ 32) s <> Bug b /\
  ipv6_from_slice (2 ^ 32) s <> Bug b /\ ip_from_slice (2 ^ 32) s <> Bug b.
Proof.
  intros s b Hok.
  assert (HM : 2 ^ 17 <= 2 ^ 32) by (vm_compute; discriminate).
  destruct (no_usize_overflow (2 ^ 32) s HM Hok) as (E1 & E2 & E3 & E4 & E5 & E6 & E7 & E8).
  rewrite E1, E2, E3, E4, E5, E6, E7, E8.
  pose proof (CtorsTotal.single_layer_ctor_no_bug s) as H.
  repeat match type of H with _ /\ _ => let A := fresh "A" in destruct H as (A & H) end.
  repeat split; auto.
Qed.

(* the bound is needed: with a 16-bit usize an IPv6 payload length of 65535 would overflow *)
Example overflow_reachable_16 :
  ipv6_finish (2 ^ 16) (mk_slice (repeat 0 41%nat))
    (mk_slice ([96;0;0;0; 255;255; 59; 64] ++ repeat 0 32%nat)) = Bug SITE_OVERFLOW.
Proof. vm_compute. reflexivity. Qed.
