(* Parse/HdrValStruct.v -- property C04, audit round 3, header VALUE equality, part 1:
   every slice stored in a PacketHeaders model result is a window of the input (`hp_ok`,
   `hdr_slices_hold`).  The pass follows the struct decoders of Parse/HdrModel.v layer by
   layer: each stored slice is `sub_of` (a from_raw_parts window of) the slice the decoder
   was given; the extension slots come from `HdrSlots.from_slice_slots`. *)
From Coq Require Import ZArith Lia ZifyN ZifyBool List.
From EP Require Import Base.Bytes Parse.Types Parse.Slices Parse.Cursor Parse.View Parse.Repr
  Parse.Access Parse.AccessProofs Parse.HdrModel Parse.HdrView Parse.HdrCut Parse.HdrProofs
  Parse.HdrProofs2 Parse.HdrProofs3 Parse.HdrSlots Parse.HdrVal.
Import ListNotations.
Import SlicedPacketCursor.
Local Open Scope N_scope.

(* ---- struct side: every stored slice is a window of the input ------------------------- *)
Lemma idx_from_sub s k r : HdrModel.idx_from s k = Ok r -> sub_of r s.
Proof.
  unfold HdrModel.idx_from. destruct (k <=? s_len s) eqn:E; [|discriminate].
  intros H. injection H as <-. exists k, (s_len s - k). apply drop_as_sub. lia.
Qed.

Lemma tcph_same s : HdrModel.TcpHeaderSlice.from_slice s = TcpHeaderSliceA.from_slice s.
Proof. reflexivity. Qed.

Lemma eth_hdr_sub s h rest :
  Ethernet2Header.from_slice s = Ok (h, rest) -> sub_of h s /\ sub_of rest s /\ s_len h = 14.
Proof.
  unfold Ethernet2Header.from_slice. intros H. binv H h' Eh. binv H r' Er. injection H as <- <-.
  destruct (s_len s <? 14); unfold lerr in Eh; [discriminate|].
  split; [now exists 0, 14|]. split; [eapply idx_from_sub; eauto|].
  pose proof (AccessProofs.subU_inv _ _ _ _ Eh) as (_ & L & _). exact L.
Qed.

Lemma vlan_hdr_sub s h rest :
  SingleVlanHeader.from_slice s = Ok (h, rest) -> sub_of h s /\ sub_of rest s.
Proof.
  unfold SingleVlanHeader.from_slice. intros H. binv H h' Eh. binv H r' Er. injection H as <- <-.
  split; [|eapply idx_from_sub; eauto].
  destruct (s_len s <? 4); unfold lerr in Eh; [discriminate|]. now exists 0, 4.
Qed.

Lemma v4_exts_from_sub p s a nh rest :
  Ipv4Extensions.from_slice p s = Ok (a, nh, rest) ->
  optP (fun a => sub_of a s) a /\ sub_of rest s.
Proof.
  unfold Ipv4Extensions.from_slice. destruct (IPN_AUTH =? p).
  - intros H. binv H hdr Eh. binv H r Er. binv H n En. binv H a' Ea. injection H as <- <- <-.
    apply auth_to_header_id in Ea. subst a'. apply ah_wf in Eh. destruct Eh as (_ & S).
    split; [exact S|eapply idx_from_sub; eauto].
  - intros H. injection H as <- <- <-. split; [exact I|apply sub_of_refl].
Qed.

Definition ih_sub (s : slice) (r : ip_headers * ip_payload) : Prop :=
  Forall (fun w => sub_of w s) (hnet_slices (HnIp (fst r))) /\ sub_of (ipp_slice (snd r)) s.

Lemma ih_sub_trans s s' r : ih_sub s r -> sub_of s s' -> ih_sub s' r.
Proof.
  intros (A & B) S. split; [|exact (sub_of_trans _ _ _ B S)].
  eapply Forall_impl; [|exact A]. intros w Hw. exact (sub_of_trans _ _ _ Hw S).
Qed.

Lemma v4_exts_sub header rest r :
  IpHeaders.v4_exts header rest = Ok r ->
  exists a, fst r = IhV4 header a /\ optP (fun a => sub_of a rest) a /\ sub_of (ipp_slice (snd r)) rest.
Proof.
  unfold IpHeaders.v4_exts. intros H. binv H proto Ep. binv H x Ex. destruct x as ((a, np), rest').
  binv H fr Efr. injection H as <-. cbn [fst snd ipp_slice].
  assert (Ex' : Ipv4Extensions.from_slice proto rest = Ok (a, np, rest')).
  { destruct (Ipv4Extensions.from_slice proto rest) as [y|[e|c]|b]; try discriminate; exact Ex. }
  apply v4_exts_from_sub in Ex'. destruct Ex' as (A & B). exists a. auto.
Qed.

Lemma keyed_in l : forall routed k s, In (k, s) (keyed routed l) -> exists it, In it l /\ s = ext_item_slice it.
Proof.
  induction l as [|it r IH]; intros routed k s H; [destruct H|].
  cbn [keyed] in H. destruct H as [H|H].
  - injection H as _ <-. exists it. split; [now left|reflexivity].
  - destruct (IH _ _ _ H) as (it' & A & B). exists it'. split; [now right|exact B].
Qed.

Lemma chain_sub W l : forall k nh k' nh', chain W k nh l k' nh' ->
  forall it, In it l -> sub_of (ext_item_slice it) W.
Proof.
  induction l as [|x r IH]; intros k nh k' nh' C it Hin; [destruct Hin|].
  cbn [chain] in C. destruct C as (_ & _ & S & nx & _ & C').
  destruct Hin as [<-|Hin]; [eexists _, _; exact S|eapply IH; eauto].
Qed.

Lemma at_off_sub s k : k <= s_len s -> sub_of (at_off s k) s.
Proof. intros H. exists k, (s_len s - k). apply drop_as_sub. exact H. Qed.

Lemma struct_exts_sub nh0 hp x nh' r :
  Ipv6Extensions.from_slice nh0 hp = Ok (x, nh', r) ->
  Forall (fun w => sub_of w hp) (exts6_slices x) /\ sub_of r hp.
Proof.
  intros H. destruct (from_slice_slots _ _ _ _ _ H) as (l & k' & (_ & S1) & S2 & S3 & ->).
  split; [|now apply at_off_sub].
  assert (G : forall k s, slot_get x k = Some s -> sub_of s hp).
  { intros k s E. apply S1 in E. destruct (keyed_in _ _ _ _ E) as (it & Hin & ->).
    eapply chain_sub; eauto. }
  unfold exts6_slices. repeat (apply Forall_app; split).
  - destruct (x_hbh x) as [s|] eqn:E; [|constructor]. constructor; [|constructor]. now apply (G SHbh).
  - destruct (x_dest x) as [s|] eqn:E; [|constructor]. constructor; [|constructor]. now apply (G SDest).
  - destruct (x_route x) as [s|] eqn:E; [|constructor]. constructor; [|constructor]. now apply (G SRoute).
  - destruct (x_fdest x) as [s|] eqn:E; [|constructor]. constructor; [|constructor]. now apply (G SFdest).
  - destruct (x_frag x) as [s|] eqn:E; [|constructor]. constructor; [|constructor]. now apply (G SFrag).
  - destruct (x_auth x) as [s|] eqn:E; [|constructor]. constructor; [|constructor]. now apply (G SAuth).
Qed.

Lemma v6_exts_sub header hp src r :
  IpHeaders.v6_exts header hp src = Ok r ->
  exists x, fst r = IhV6 header x /\ Forall (fun w => sub_of w hp) (exts6_slices x) /\
            sub_of (ipp_slice (snd r)) hp.
Proof.
  unfold IpHeaders.v6_exts. intros H. binv H nh0 En. binv H y Ey. destruct y as ((x, nh'), rest).
  binv H fr Efr. injection H as <-. cbn [fst snd ipp_slice].
  assert (Ey' : Ipv6Extensions.from_slice nh0 hp = Ok (x, nh', rest)).
  { destruct (Ipv6Extensions.from_slice nh0 hp) as [z|[e|c]|b]; try discriminate; exact Ey. }
  apply struct_exts_sub in Ey'. destruct Ey' as (A & B). exists x. auto.
Qed.

Lemma Forall_sub_trans l a b :
  Forall (fun w => sub_of w a) l -> sub_of a b -> Forall (fun w => sub_of w b) l.
Proof. intros F S. eapply Forall_impl; [|exact F]. intros w Hw. exact (sub_of_trans _ _ _ Hw S). Qed.

Lemma ipv4_slice_sub s r : IpHeaders.from_ipv4_slice s = Ok r -> ih_sub s r.
Proof.
  unfold IpHeaders.from_ipv4_slice. intros H. binv H hr Ehr. destruct hr as (header, hrest).
  binv H totl Etl. binv H pl Epl. binv H hr' Ehr'.
  unfold Ipv4Header.from_slice in Ehr. binv Ehr h Eh. binv Ehr rest Er. injection Ehr as <- <-.
  apply ipv4h_wf in Eh. destruct Eh as (_ & Sh). apply idx_from_sub in Er.
  assert (S' : sub_of hr' s).
  { destruct (s_len rest <? pl); unfold lerr in Ehr'; [discriminate|].
    eapply sub_of_trans; [|exact Er]. now exists 0, pl. }
  destruct (v4_exts_sub _ _ _ H) as (a & E1 & A & B). destruct r as (ih, p). cbn [fst snd] in *. subst ih.
  split; cbn [fst snd hnet_slices]; [|eapply sub_of_trans; eauto].
  constructor; [exact Sh|]. destruct a as [a|]; cbn [olist]; [|constructor].
  constructor; [|constructor]. cbn [optP] in A. eapply sub_of_trans; eauto.
Qed.

Lemma ipv6_slice_sub s r : IpHeaders.from_ipv6_slice s = Ok r -> ih_sub s r.
Proof.
  unfold IpHeaders.from_ipv6_slice. intros H. binv H hr Ehr. destruct hr as (header, hrest).
  binv H pl Epl. binv H hp Ehp. destruct hp as (hp, src).
  unfold Ipv6Header.from_slice in Ehr. binv Ehr h Eh. binv Ehr rest Er. injection Ehr as <- <-.
  apply ipv6h_wf in Eh. destruct Eh as (_ & Sh). apply idx_from_sub in Er.
  assert (S' : sub_of hp s).
  { destruct ((0 =? pl) && (40 <? s_len s)); [now injection Ehp as <- _|].
    destruct (s_len rest <? pl); unfold lerr in Ehp; [discriminate|].
    binv Ehp p Ep. injection Ehp as <- _. eapply sub_of_trans; [|exact Er]. now exists 0, pl. }
  destruct (v6_exts_sub _ _ _ _ H) as (x & E1 & A & B). destruct r as (ih, p). cbn [fst snd] in *. subst ih.
  split; cbn [fst snd hnet_slices]; [|eapply sub_of_trans; eauto].
  constructor; [exact Sh|]. eapply Forall_sub_trans; eauto.
Qed.

Lemma ip_slice_sub s r : IpHeaders.from_slice s = Ok r -> ih_sub s r.
Proof.
  unfold IpHeaders.from_slice. destruct (s_len s =? 0); unfold lerr; [discriminate|].
  intros H. binv H b0 Eb0. destruct (N.shiftr b0 4 =? 4).
  { destruct (s_len s <? 20); [discriminate|]. binv H b0' Eb0'.
    destruct (N.land b0' 15 <? 5); [discriminate|].
    destruct (s_len s <? N.land b0' 15 * 4); [discriminate|].
    binv H header Eh. binv H totl Etl.
    destruct (totl <? N.land b0' 15 * 4); [discriminate|]. destruct (s_len s <? totl); [discriminate|].
    binv H n En. binv H rest Er.
    assert (Sh : sub_of header s) by (eexists _, _; exact Eh).
    assert (Sr : sub_of rest s) by (eexists _, _; exact Er).
    destruct (v4_exts_sub _ _ _ H) as (a & E1 & A & B). destruct r as (ih, p). cbn [fst snd] in *. subst ih.
    split; cbn [fst snd hnet_slices]; [|eapply sub_of_trans; eauto].
    constructor; [exact Sh|]. destruct a as [a|]; cbn [olist]; [|constructor].
    constructor; [|constructor]. cbn [optP] in A. eapply sub_of_trans; eauto. }
  destruct (N.shiftr b0 4 =? 6); [|discriminate].
  destruct (s_len s <? 40); [discriminate|].
  binv H header Eh. binv H pl Epl. binv H hp Ehp. destruct hp as (hp, src).
  assert (Sh : sub_of header s) by (eexists _, _; exact Eh).
  assert (S' : sub_of hp s).
  { destruct ((0 =? pl) && (40 <? s_len s)).
    - binv Ehp n En. binv Ehp p Ep. injection Ehp as <- _. eexists _, _; exact Ep.
    - cbn zeta in Ehp. destruct (s_len s <? 40 + pl); [discriminate|].
      binv Ehp p Ep. injection Ehp as <- _. eexists _, _; exact Ep. }
  destruct (v6_exts_sub _ _ _ _ H) as (x & E1 & A & B). destruct r as (ih, p). cbn [fst snd] in *. subst ih.
  split; cbn [fst snd hnet_slices]; [|eapply sub_of_trans; eauto].
  constructor; [exact Sh|]. eapply Forall_sub_trans; eauto.
Qed.

(* read_transport *)
Definition htr_sub (s : slice) (t : htransport) : Prop :=
  sub_of (htr_slice t) s /\ match t with HtTcp h => wf_tcph h | _ => True end.

Lemma read_transport_sub p t pl :
  read_transport p = Ok (t, pl) ->
  optP (htr_sub (ipp_slice p)) t /\ Forall (fun w => sub_of w (ipp_slice p)) (hpayload_slices pl).
Proof.
  unfold read_transport. set (s := ipp_slice p).
  assert (None_case : forall (X : option htransport * hpayload), Ok (None, HpIp p) = Ok X ->
            optP (htr_sub s) (fst X) /\ Forall (fun w => sub_of w s) (hpayload_slices (snd X))).
  { intros X E. injection E as <-. cbn. split; [exact I|]. constructor; [apply sub_of_refl|constructor]. }
  destruct (ipp_fragmented p); [intros H; exact (None_case _ H)|].
  destruct (ipp_number p =? IPN_ICMP).
  { intros H. binv H v Ev. apply map_len_err_inv in Ev. binv H h Eh. binv H q Eqq. injection H as <- <-.
    apply icmp4_wf in Ev. destruct Ev as (-> & _).
    unfold Icmpv4Acc.header in Eh. binv Eh hl Ehl.
    unfold Icmpv4Acc.payload in Eqq. binv Eqq hl' Ehl'. binv Eqq n En.
    cbn [optP htr_sub htr_slice hpayload_slices]. split; [split; [eexists _, _; exact Eh|exact I]|].
    constructor; [eexists _, _; exact Eqq|constructor]. }
  destruct (ipp_number p =? IPN_ICMPV6).
  { intros H. binv H v Ev. apply map_len_err_inv in Ev. binv H h Eh. binv H q Eqq. injection H as <- <-.
    apply icmp6_wf in Ev. destruct Ev as (-> & _).
    unfold Icmpv6Acc.header in Eh. unfold Icmpv6Acc.payload in Eqq. binv Eqq n En.
    cbn [optP htr_sub htr_slice hpayload_slices]. split; [split; [eexists _, _; exact Eh|exact I]|].
    constructor; [eexists _, _; exact Eqq|constructor]. }
  destruct (ipp_number p =? IPN_UDP).
  { intros H. binv H v Ev. apply map_len_err_inv in Ev. binv H h Eh. binv H q Eqq. injection H as <- <-.
    apply udp_wf in Ev. destruct Ev as (_ & Sv).
    unfold UdpAcc.to_header in Eh. unfold UdpAcc.payload in Eqq. binv Eqq n En.
    cbn [optP htr_sub htr_slice hpayload_slices].
    split; [split; [eapply sub_of_trans; [eexists _, _; exact Eh|exact Sv]|exact I]|].
    constructor; [eapply sub_of_trans; [eexists _, _; exact Eqq|exact Sv]|constructor]. }
  destruct (ipp_number p =? IPN_TCP); [|intros H; exact (None_case _ H)].
  intros H. binv H v Ev. apply map_len_err_inv in Ev. injection H as <- <-.
  unfold TcpHeader.from_slice in Ev. binv Ev h Eh. binv Ev r Er. injection Ev as <-. cbn [fst snd].
  rewrite tcph_same in Eh. apply tcph_wf in Eh. destruct Eh as (W & Sh). apply idx_from_sub in Er.
  cbn [optP htr_sub htr_slice hpayload_slices]. split; [split; assumption|].
  constructor; [exact Er|constructor].
Qed.

(* ---- PacketHeaders: loop state, net part, entry points ---------------------------------- *)
Definition st_ok (bs : bytes) (st : hstate) : Prop :=
  Forall (fun x => in_buf bs (hext_slice x)) (hs_exts st) /\ in_buf bs (hs_rest st) /\
  Forall (in_buf bs) (hpayload_slices (hs_payload st)).

Lemma add_offset_not_ok {A} slice rest e (x : A) : PacketHeaders.add_offset slice rest e <> Ok x.
Proof. unfold PacketHeaders.add_offset. destruct (ptr_off rest slice); discriminate. Qed.

Lemma push_ok bs l x l' :
  Forall (fun x => in_buf bs (hext_slice x)) l -> in_buf bs (hext_slice x) ->
  PacketHeaders.push l x = Ok l' -> Forall (fun x => in_buf bs (hext_slice x)) l'.
Proof.
  intros F I. unfold PacketHeaders.push. destruct (len l <? LINK_EXTS_CAP); [|discriminate].
  intros H. injection H as <-. apply Forall_app. split; [exact F|]. constructor; [exact I|constructor].
Qed.

Lemma Forall_sub_in_buf bs l s :
  in_buf bs s -> Forall (fun w => sub_of w s) l -> Forall (in_buf bs) l.
Proof. intros I F. eapply Forall_impl; [|exact F]. intros w Hw. eapply sub_of_in_buf; eauto. Qed.

Lemma link_loop_ok bs slice fuel : forall st o,
  st_ok bs st -> PacketHeaders.link_loop fuel slice st = Ok o ->
  match o with
  | LDone p => hp_ok bs p /\ h_link p = None
  | LBreak st' => st_ok bs st'
  end.
Proof.
  induction fuel as [|f IH]; intros st o Hst H; [discriminate|].
  pose proof Hst as (Hx & Hr & Hp).
  cbn [PacketHeaders.link_loop] in H.
  destruct (is_vlan_type (hs_et st)).
  { destruct (LINK_EXTS_CAP <=? len (hs_exts st)); [injection H as <-; exact Hst|].
    destruct (SingleVlanHeader.from_slice (hs_rest st)) as [[vlan vrest]|[e|c]|b] eqn:Ev; try discriminate;
      [|exfalso; exact (add_offset_not_ok _ _ _ _ H)].
    binv H et' Eet. binv H exts' Epush. apply vlan_hdr_sub in Ev. destruct Ev as (Sv & Sr).
    assert (Iv : in_buf bs vlan) by exact (sub_of_in_buf bs _ _ Hr Sv).
    assert (Ir : in_buf bs vrest) by exact (sub_of_in_buf bs _ _ Hr Sr).
    apply (IH _ _) in H; [exact H|]. unfold st_ok. cbn [hs_exts hs_rest hs_payload hpayload_slices ep_slice].
    split; [exact (push_ok bs _ (HxVlan vlan) _ Hx Iv Epush)|]. split; [exact Ir|]. constructor; [exact Ir|constructor]. }
  destruct (hs_et st =? ET_MACSEC); [|injection H as <-; exact Hst].
  destruct (LINK_EXTS_CAP <=? len (hs_exts st)); [injection H as <-; exact Hst|].
  destruct (Macsec.from_slice (hs_rest st)) as [m|[e|c]|b] eqn:Em; try discriminate;
    [|exfalso; exact (add_offset_not_ok _ _ _ _ H)].
  binv H exts' Epush. apply macsec_wf in Em. destruct Em as (_ & Sh & Sp).
  assert (Ih : in_buf bs (ms_header m)) by exact (sub_of_in_buf bs _ _ Hr Sh).
  assert (Ip : in_buf bs (macsec_payload_slice m)) by exact (sub_of_in_buf bs _ _ Hr Sp).
  assert (Fx : Forall (fun x => in_buf bs (hext_slice x)) exts') by exact (push_ok bs _ (HxMacsec (ms_header m)) _ Hx Ih Epush).
  unfold macsec_payload_slice in Ip.
  destruct (ms_payload m) as [e|mp].
  - apply (IH _ _) in H; [exact H|]. unfold st_ok. cbn [hs_exts hs_rest hs_payload hpayload_slices ep_slice].
    split; [exact Fx|]. split; [exact Ip|]. constructor; [exact Ip|constructor].
  - injection H as <-. split; [|reflexivity]. unfold hp_ok.
    cbn [h_link h_exts h_net h_transport h_payload optP hpayload_slices].
    repeat split; auto.
Qed.

Lemma tail_ok bs exts ih p t pl :
  Forall (fun x => in_buf bs (hext_slice x)) exts ->
  Forall (in_buf bs) (hnet_slices (HnIp ih)) -> in_buf bs (ipp_slice p) ->
  read_transport p = Ok (t, pl) ->
  hp_ok bs (mkH None exts (Some (HnIp ih)) t pl).
Proof.
  intros Fx Fn Ip H. apply read_transport_sub in H. destruct H as (A & B).
  unfold hp_ok. cbn [h_link h_exts h_net h_transport h_payload optP].
  split; [exact I|]. split; [exact Fx|]. split; [exact Fn|]. split.
  - destruct t as [t|]; [|exact I]. cbn [optP] in *. destruct A as (A1 & A2). split; [|exact A2].
    eapply sub_of_in_buf; eauto.
  - eapply Forall_sub_in_buf; eauto.
Qed.

Lemma ih_sub_in_buf bs s r : in_buf bs s -> ih_sub s r ->
  Forall (in_buf bs) (hnet_slices (HnIp (fst r))) /\ in_buf bs (ipp_slice (snd r)).
Proof.
  intros I (A & B). split; [eapply Forall_sub_in_buf; eauto|eapply sub_of_in_buf; eauto].
Qed.

Lemma net_part_ok bs slice st p :
  st_ok bs st -> PacketHeaders.net_part slice st = Ok p -> hp_ok bs p /\ h_link p = None.
Proof.
  intros (Hx & Hr & Hp). unfold PacketHeaders.net_part.
  destruct (hs_et st =? ET_IPV4).
  { destruct (IpHeaders.from_ipv4_slice (hs_rest st)) as [[ip ipp]|[e|c]|b] eqn:E; try discriminate;
      [|intros H; exfalso; exact (add_offset_not_ok _ _ _ _ H)].
    apply ipv4_slice_sub in E. destruct (ih_sub_in_buf bs _ _ Hr E) as (A & B). cbn [fst snd] in A, B.
    destruct (read_transport ipp) as [[t pl]|[e|c]|b] eqn:T; try discriminate;
      [|intros H; exfalso; exact (add_offset_not_ok _ _ _ _ H)].
    intros H. injection H as <-. split; [|reflexivity]. eapply tail_ok; eauto. }
  destruct (hs_et st =? ET_IPV6).
  { destruct (IpHeaders.from_ipv6_slice (hs_rest st)) as [[ip ipp]|[e|c]|b] eqn:E; try discriminate;
      [|intros H; exfalso; exact (add_offset_not_ok _ _ _ _ H)].
    apply ipv6_slice_sub in E. destruct (ih_sub_in_buf bs _ _ Hr E) as (A & B). cbn [fst snd] in A, B.
    destruct (read_transport ipp) as [[t pl]|[e|c]|b] eqn:T; try discriminate;
      [|intros H; exfalso; exact (add_offset_not_ok _ _ _ _ H)].
    intros H. injection H as <-. split; [|reflexivity]. eapply tail_ok; eauto. }
  destruct (hs_et st =? ET_ARP).
  { destruct (ArpPacketSlice.from_slice (hs_rest st)) as [a|[e|c]|b] eqn:E; try discriminate;
      [|intros H; exfalso; exact (add_offset_not_ok _ _ _ _ H)].
    apply arp_wf in E. destruct E as (_ & Sa).
    intros H. injection H as <-. split; [|reflexivity]. unfold hp_ok.
    cbn [h_link h_exts h_net h_transport h_payload optP hpayload_slices hnet_slices].
    repeat split; auto. constructor; [eapply sub_of_in_buf; eauto|constructor]. }
  intros H. injection H as <-. split; [|reflexivity]. unfold hp_ok.
  cbn [h_link h_exts h_net h_transport h_payload optP]. repeat split; auto.
Qed.

Lemma ether_type_slice_ok bs et s p :
  in_buf bs s -> PacketHeaders.from_ether_type_slice et s = Ok p -> hp_ok bs p /\ h_link p = None.
Proof.
  intros I. unfold PacketHeaders.from_ether_type_slice. intros H. binv H o Eo.
  apply (link_loop_ok bs) in Eo.
  - destruct o as [q|st']; [injection H as <-; exact Eo|]. eapply net_part_ok; eauto.
  - unfold st_ok. cbn [hs_exts hs_rest hs_payload hpayload_slices ep_slice].
    split; [constructor|]. split; [exact I|]. constructor; [exact I|constructor].
Qed.

Theorem hp_ok_ether_type bs et p : PacketHeaders.from_ether_type et bs = Ok p -> hp_ok bs p.
Proof.
  unfold PacketHeaders.from_ether_type. intros H.
  apply (ether_type_slice_ok bs) in H; [apply H|apply in_buf_whole].
Qed.

Theorem hp_ok_ethernet bs p : PacketHeaders.from_ethernet_slice bs = Ok p -> hp_ok bs p.
Proof.
  unfold PacketHeaders.from_ethernet_slice. intros H. binv H er Eer. destruct er as (eth, rest).
  binv H et Eet. apply eth_hdr_sub in Eer. destruct Eer as (Se & Sr & Le).
  pose proof (in_buf_whole bs) as I.
  destruct (PacketHeaders.from_ether_type_slice et rest) as [r|[e|c]|b] eqn:E; try discriminate.
  injection H as <-. apply (ether_type_slice_ok bs) in E; [|eapply sub_of_in_buf; eauto].
  destruct E as ((_ & A & B & C & D) & _). unfold hp_ok.
  cbn [h_link h_exts h_net h_transport h_payload optP]. repeat split; auto.
  exact (sub_of_in_buf bs _ _ I Se).
Qed.

Theorem hp_ok_ip bs p : PacketHeaders.from_ip_slice bs = Ok p -> hp_ok bs p.
Proof.
  unfold PacketHeaders.from_ip_slice. intros H. binv H ir Eir. destruct ir as (ip, ipp).
  apply ip_slice_sub in Eir. destruct (ih_sub_in_buf bs _ _ (in_buf_whole bs) Eir) as (A & B).
  cbn [fst snd] in A, B.
  destruct (read_transport ipp) as [[t pl]|[e|c]|b] eqn:T; try discriminate;
    [|exfalso; exact (add_offset_not_ok _ _ _ _ H)].
  injection H as <-. eapply tail_ok; eauto.
Qed.

Lemma hp_ok_slices bs p : hp_ok bs p -> Forall (in_win bs) (hp_slices p).
Proof.
  intros (A & B & C & D & E). unfold hp_slices, hp_header_slices.
  repeat (apply Forall_app; split).
  - destruct (h_link p) as [l|]; cbn [olist]; [|constructor]. constructor; [|constructor].
    apply in_buf_in_win. apply A.
  - apply Forall_map. eapply Forall_impl; [|exact B]. intros x Hx. now apply in_buf_in_win.
  - destruct (h_net p) as [n|]; [|constructor]. cbn [optP] in C.
    eapply Forall_impl; [|exact C]. intros x Hx. now apply in_buf_in_win.
  - destruct (h_transport p) as [t|]; cbn [option_map olist]; [|constructor].
    constructor; [|constructor]. apply in_buf_in_win. apply D.
  - eapply Forall_impl; [|exact E]. intros x Hx. now apply in_buf_in_win.
Qed.

Theorem hdr_slices_hold bs et :
  slices_hold bs (PacketHeaders.from_ethernet_slice bs) /\
  slices_hold bs (PacketHeaders.from_ether_type et bs) /\
  slices_hold bs (PacketHeaders.from_ip_slice bs).
Proof.
  unfold slices_hold. repeat split; intros hp H; apply hp_ok_slices.
  - now apply hp_ok_ethernet.
  - now apply (hp_ok_ether_type bs et).
  - now apply hp_ok_ip.
Qed.
