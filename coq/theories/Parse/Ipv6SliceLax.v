(* Parse/Ipv6SliceLax.v -- transliteration of `Ipv6Slice::from_slice_lax`
   (net/ipv6_slice.rs:139), the 13th copy of the IP boundary logic, in the pointer
   model of Parse/Types.v (conventions of Parse/Slices.v and Parse/LaxSlices.v).

   What the Rust function is (checked against the source, it is NOT a forwarding alias):
   a third textual copy of the body of `Ipv6Slice::from_slice`, with the one branch
   `slice.len() < Ipv6Header::LEN + payload_len` replaced: instead of returning
   `Len(expected_len, len, Slice, Ipv6Packet, 0)` it takes the rest of the slice as
   header payload with `LenSource::Slice` (the same fallback as `LaxIpv6Slice::from_slice`,
   but WITHOUT an `incomplete` flag: the result type is the strict `Ipv6Slice`).
   Everything behind the payload selection is the STRICT tail: it calls
   `Ipv6ExtensionsSlice::from_slice` (not `from_slice_lax`), so a fault in the extension
   chain is returned as `Err`, with the same fix-up of length errors
   (`len_source = len_source; layer_start_offset += 40`).
   Error embedding as in Slices.v: ipv6::SliceError::{Len, Header, Exts} = slice_error.

   `Ipv4Slice` has NO `from_slice_lax` in the crate (net/ipv4_slice.rs: only `from_slice`),
   so there is nothing to model on the IPv4 side.

   No proofs here (Equiv/Ipv6SliceLaxProofs.v). *)
From EP Require Import Base.Bytes Parse.Types Parse.Slices.

Local Open Scope N_scope.

Module Ipv6SliceLax.
  Definition from_slice_lax (s : slice) : res ipv6_slice :=
    (* try reading the header *)
    let* header := Ipv6HeaderSlice.from_slice s in
    (* restrict slice by the length specified in the header *)
    let* pl := Ipv6HeaderSlice.payload_length header in
    let* hp :=
      (if (0 =? pl) && (40 <? s_len s) then
         let* n := subN (s_len s) 40 in
         let* p := subU s 40 n in
         Ok (p, LsSlice)
       else
         let expected_len := 40 + pl in
         if s_len s <? expected_len then
           (* the lax branch: rest of the slice, LenSource::Slice, no error *)
           let* n := subN (s_len s) 40 in
           let* p := subU s 40 n in
           Ok (p, LsSlice)
         else
           let* p := subU s 40 pl in
           Ok (p, LsIpv6HeaderPayloadLen)) in
    let '(header_payload, src) := hp in
    (* parse extension headers (strict) *)
    let* nh := Ipv6HeaderSlice.next_header header in
    let* x :=
      match Ipv6ExtensionsSlice.from_slice nh header_payload with
      | Err (ELen e) => Err (ELen (le_add_offset (le_set_src e src) 40))
      | r => r
      end in
    let '(exts, payload_ip_number, payload) := x in
    Ok (mkIpv6Slice header exts
          (mkIpPayload payload_ip_number (x6_fragmented exts) src payload)).
End Ipv6SliceLax.
