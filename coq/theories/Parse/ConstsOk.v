(* Parse/ConstsOk.v -- the numeric constants of the crate (re-extracted from the
   source on every run into Gen/Consts.v) equal the numbers the models and the
   wire specification use (IEEE 802 / IANA / RFC values).  A changed constant in
   the crate breaks this file, and with it every property theorem file that
   imports it. *)
From EP Require Import Base.Bytes Parse.Types Parse.Slices.
From EP Require Gen.Consts.

Local Open Scope N_scope.

Lemma consts_ether_types :
  Gen.Consts.ET_IPV4 = ET_IPV4 /\ Gen.Consts.ET_IPV6 = ET_IPV6 /\ Gen.Consts.ET_ARP = ET_ARP /\
  Gen.Consts.ET_VLAN = ET_VLAN /\ Gen.Consts.ET_QINQ = ET_QINQ /\
  Gen.Consts.ET_VLAN_DOUBLE = ET_VLAN_DOUBLE /\ Gen.Consts.ET_MACSEC = ET_MACSEC /\
  ET_IPV4 = 2048 /\ ET_IPV6 = 34525 /\ ET_ARP = 2054 /\ ET_VLAN = 33024 /\ ET_QINQ = 34984 /\
  ET_VLAN_DOUBLE = 37120 /\ ET_MACSEC = 35045.
Proof. repeat split; reflexivity. Qed.

Lemma consts_ip_numbers :
  Gen.Consts.IPN_HOP_BY_HOP = IPN_HOP_BY_HOP /\ Gen.Consts.IPN_ICMP = IPN_ICMP /\
  Gen.Consts.IPN_TCP = IPN_TCP /\ Gen.Consts.IPN_UDP = IPN_UDP /\
  Gen.Consts.IPN_ROUTE = IPN_ROUTE /\ Gen.Consts.IPN_FRAG = IPN_FRAG /\
  Gen.Consts.IPN_AUTH = IPN_AUTH /\ Gen.Consts.IPN_ICMPV6 = IPN_ICMPV6 /\
  Gen.Consts.IPN_DEST_OPTIONS = IPN_DEST_OPTIONS /\
  IPN_HOP_BY_HOP = 0 /\ IPN_ICMP = 1 /\ IPN_TCP = 6 /\ IPN_UDP = 17 /\ IPN_ROUTE = 43 /\
  IPN_FRAG = 44 /\ IPN_AUTH = 51 /\ IPN_ICMPV6 = 58 /\ IPN_DEST_OPTIONS = 60.
Proof. repeat split; reflexivity. Qed.

(* header sizes used as literals in the slicer models and in the wire specification *)
Lemma consts_header_lengths :
  Gen.Consts.ETHERNET2_LEN = 14 /\ Gen.Consts.VLAN_LEN = 4 /\ Gen.Consts.SLL_LEN = 16 /\
  Gen.Consts.IPV4_MIN_LEN = 20 /\ Gen.Consts.IPV4_MAX_LEN = 60 /\ Gen.Consts.IPV6_LEN = 40 /\
  Gen.Consts.UDP_LEN = 8 /\ Gen.Consts.TCP_MIN_LEN = 20 /\ Gen.Consts.TCP_MAX_LEN = 60 /\
  Gen.Consts.AUTH_MIN_LEN = 12 /\ Gen.Consts.AUTH_MAX_LEN = 1028 /\ Gen.Consts.FRAG_LEN = 8 /\
  Gen.Consts.ICMPV4_MIN_LEN = 8 /\ Gen.Consts.ICMPV6_MIN_LEN = 8 /\
  Gen.Consts.ICMPV4_TYPE_TIMESTAMP = 13 /\ Gen.Consts.ICMPV4_TYPE_TIMESTAMP_REPLY = 14 /\
  Gen.Consts.ICMPV4_TIMESTAMP_LEN = 20 /\
  Ethernet2Slice.header_len = Gen.Consts.ETHERNET2_LEN /\
  SingleVlanSlice.header_len = Gen.Consts.VLAN_LEN.
Proof. repeat split; reflexivity. Qed.

Lemma consts_linux_sll :
  Gen.Consts.ARPHRD_ETHERNET = LinuxSll.ARPHRD_ETHERNET /\
  Gen.Consts.ARPHRD_FRAD = LinuxSll.ARPHRD_FRAD /\
  Gen.Consts.ARPHRD_IPGRE = LinuxSll.ARPHRD_IPGRE /\
  Gen.Consts.ARPHRD_RADIOTAP = LinuxSll.ARPHRD_RADIOTAP /\
  Gen.Consts.ARPHRD_NETLINK = LinuxSll.ARPHRD_NETLINK /\
  Gen.Consts.SLL_PACKET_TYPE_MAX = 7.
Proof. repeat split; reflexivity. Qed.

Lemma consts_ok : True.
Proof.
  pose proof consts_ether_types. pose proof consts_ip_numbers.
  pose proof consts_header_lengths. pose proof consts_linux_sll. exact I.
Qed.
