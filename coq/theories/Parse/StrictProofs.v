(* Parse/StrictProofs.v -- the strict slicing model (Slices.v, Cursor.v) agrees
   with the wire specification (WireSpec.v) for every byte string. *)
From EP Require Import Base.Bytes Parse.Types Parse.Slices Parse.Cursor Parse.View
  Parse.WireSpec Parse.Repr.
From Coq Require Import ZArith Lia ZifyN ZifyBool.
Import SlicedPacketCursor.

Local Open Scope N_scope.

(* ---- the relation between model answers and specification answers -------- *)

(* known finding F7: the two errors whose len_source names the field that
   produced required_len *)
Definition F7 (e : len_error) : Prop :=
  (le_layer e = LyArp /\ le_src e = LsArpAddrLengths) \/
  (le_layer e = LyMacsecPacket /\ le_src e = LsMacsecShortLength).

Definition len_rel (m s : len_error) : Prop :=
  le_required m = le_required s /\ le_len m = le_len s /\ le_layer m = le_layer s /\
  le_off m = le_off s /\ (le_src m = le_src s \/ le_src m = LsSlice \/ F7 m).

Definition res_rel (m s : vres) : Prop :=
  match m, s with
  | VOk a, VOk b => a = b
  | VErr (EContent a), VErr (EContent b) => a = b
  | VErr (ELen a), VErr (ELen b) => len_rel a b
  | _, _ => False
  end.

(* the cursor's idea of the length source is the true one or "slice" *)
Definition src_ok (cs src : len_source) : Prop := cs = src \/ cs = LsSlice.

Lemma src_ok_refl s : src_ok s s. Proof. now left. Qed.
Lemma src_ok_slice s : src_ok LsSlice s. Proof. now right. Qed.

(* ---- tactics ------------------------------------------------------------- *)
Ltac get_prefix R n h Eh Rh :=
  match type of R with
  | repr ?bs ?s ?pos ?lim =>
      let H := fresh in
      assert (H : n <= lim - pos) by lia;
      destruct (repr_prefix bs s pos lim n R H) as (h & Eh & Rh); clear H
  end.

Ltac get_rest R k h Eh Rh :=
  match type of R with
  | repr ?bs ?s ?pos ?lim =>
      let H := fresh in
      assert (H : k <= lim - pos) by lia;
      destruct (repr_rest bs s pos lim k R H) as (h & Eh & Rh); clear H
  end.

Ltac get_sub R k n h Eh Rh :=
  match type of R with
  | repr ?bs ?s ?pos ?lim =>
      let H := fresh in
      assert (H : k + n <= lim - pos) by lia;
      destruct (repr_subU bs s pos lim k n R H) as (h & Eh & Rh); clear H
  end.

Ltac rd8 R i :=
  match type of R with
  | repr ?bs ?s ?pos ?lim => rewrite (repr_rdU bs s pos lim i R) by lia; cbn [bind]
  end.
Ltac rd16 R i :=
  match type of R with
  | repr ?bs ?s ?pos ?lim => rewrite (repr_rd16 bs s pos lim i R) by lia; cbn [bind]
  end.

Ltac len_rel_tac :=
  unfold len_rel, le_add_offset, le_set_src; cbn;
  repeat split; try lia; auto.

Ltac fin_tr R :=
  match type of R with
  | repr ?bs ?s ?pos ?lim =>
      change (view (set_transport ?c ?t)) with (with_tr (view (c_result c)) (view_tr t));
      cbn [view_tr]; rewrite (repr_win bs s pos lim R); reflexivity
  end.

(* ---- views of cursor updates --------------------------------------------- *)
Lemma view_set_transport c t :
  view (set_transport c t) = with_tr (view (c_result c)) (view_tr t).
Proof. reflexivity. Qed.

Lemma view_set_net c o sr n :
  view (c_result (set_net c o sr n)) = with_net (view (c_result c)) (view_net n).
Proof. reflexivity. Qed.

(* ---- bit facts: complete sweeps over one byte ---------------------------- *)
Definition all_bytes : list N := map N.of_nat (seq 0 256).

Lemma all_bytes_in b : b < 256 -> In b all_bytes.
Proof.
  intros H. unfold all_bytes. apply in_map_iff. exists (N.to_nat b). split; [lia|].
  apply in_seq. lia.
Qed.

Lemma byte_sweep (P : N -> bool) :
  forallb P all_bytes = true -> forall b, b < 256 -> P b = true.
Proof. intros H b Hb. rewrite forallb_forall in H. apply H. now apply all_bytes_in. Qed.

Lemma shr4_div b : b < 256 -> N.shiftr b 4 = b / 16.
Proof. intros _. now rewrite N.shiftr_div_pow2. Qed.

Lemma land15_mod b : N.land b 15 = b mod 16.
Proof. change 15 with (N.ones 4). now rewrite N.land_ones. Qed.

Lemma land63_mod b : N.land b 63 = b mod 64.
Proof. change 63 with (N.ones 6). now rewrite N.land_ones. Qed.

Lemma tcp_hl_bits b : b < 256 -> N.shiftr (N.land b 240) 2 = (b / 16) * 4.
Proof.
  intros H.
  apply N.eqb_eq.
  apply (byte_sweep (fun b => N.shiftr (N.land b 240) 2 =? (b / 16) * 4)); [vm_compute; reflexivity|exact H].
Qed.

Lemma tcp_do_bits b : b < 256 -> (N.shiftr ((b / 16) * 4) 2) mod 256 = b / 16.
Proof.
  intros H. apply N.eqb_eq.
  apply (byte_sweep (fun b => (N.shiftr ((b / 16) * 4) 2) mod 256 =? b / 16)); [vm_compute; reflexivity|exact H].
Qed.

(* ---- transport ----------------------------------------------------------- *)
Section Transport.
  Variables (bs : bytes) (c : cursor) (s : slice) (pos lim : N) (src : len_source).
  Hypothesis Hok : bytes_ok bs.
  Hypothesis R : repr bs s pos lim.
  Hypothesis Hoff : c_offset c = pos.
  Hypothesis Hsrc : src_ok (c_src c) src.

  Lemma tr_fix_slice req l ly :
    len_rel (tr_fix c (mkLenError req l LsSlice ly 0)) (mkLenError req l src ly pos).
  Proof.
    unfold tr_fix. cbn. rewrite Hoff. destruct Hsrc as [E|E]; rewrite E; len_rel_tac.
  Qed.

  Lemma udp_rel :
    res_rel (vres_of (slice_udp c s)) (wire_udp bs (view (c_result c)) src pos lim).
  Proof.
    unfold slice_udp, UdpSlice.from_slice, UdpSlice.header_from_slice, UdpSlice.length, wire_udp.
    rewrite (repr_len _ _ _ _ R).
    destruct (lim - pos <? 8) eqn:E8; cbn.
    - apply tr_fix_slice.
    - get_prefix R 8 h Eh Rh. rewrite Eh. cbn [bind].
      rd16 Rh 4.
      destruct (lim - pos <? W bs (pos + 4)) eqn:El; cbn.
      + apply tr_fix_slice.
      + destruct (W bs (pos + 4) =? 0) eqn:E0; cbn.
        * fin_tr R.
        * destruct (W bs (pos + 4) <? 8) eqn:E8'; cbn.
          -- unfold tr_fix. cbn. rewrite Hoff. len_rel_tac.
          -- get_prefix R (W bs (pos + 4)) u Eu Ru. rewrite Eu. cbn.
             change (view (set_transport ?c ?t)) with (with_tr (view (c_result c)) (view_tr t)).
             cbn [view_tr]. rewrite (repr_win _ _ _ _ Ru). repeat f_equal. lia.
  Qed.

  Lemma tcp_rel :
    res_rel (vres_of (slice_tcp c s)) (wire_tcp bs (view (c_result c)) src pos lim).
  Proof.
    unfold slice_tcp, TcpSlice.from_slice, wire_tcp.
    rewrite (repr_len _ _ _ _ R).
    destruct (lim - pos <? 20) eqn:E20; cbn.
    - apply tr_fix_slice.
    - rd8 R 12.
      pose proof (B_lt bs (pos + 12) Hok) as Hb.
      rewrite (tcp_hl_bits _ Hb).
      assert (Hd : (B bs (pos + 12) / 16 * 4 <? 20) = (B bs (pos + 12) / 16 <? 5)).
      { destruct (B bs (pos + 12) / 16 <? 5) eqn:E; lia. }
      rewrite Hd.
      destruct (B bs (pos + 12) / 16 <? 5) eqn:E5; cbn.
      + now rewrite (tcp_do_bits _ Hb).
      + destruct (lim - pos <? B bs (pos + 12) / 16 * 4) eqn:El; cbn.
        * apply tr_fix_slice.
        * fin_tr R.
  Qed.

  Lemma icmp4_rel :
    res_rel (vres_of (slice_icmp4 c s)) (wire_icmp4 bs (view (c_result c)) src pos lim).
  Proof.
    unfold slice_icmp4, Icmpv4Slice.from_slice, wire_icmp4.
    rewrite (repr_len _ _ _ _ R).
    destruct (lim - pos <? 8) eqn:E8; cbn.
    - apply tr_fix_slice.
    - rd8 R 0. rd8 R 1. rewrite N.add_0_r.
      rewrite (N.eqb_sym 0 (B bs (pos + 1))), (N.eqb_sym 20 (lim - pos)).
      destruct ((B bs pos =? 13) && (B bs (pos + 1) =? 0) && negb (lim - pos =? 20)) eqn:E13; cbn.
      + apply tr_fix_slice.
      + destruct ((B bs pos =? 14) && (B bs (pos + 1) =? 0) && negb (lim - pos =? 20)) eqn:E14; cbn.
        * apply tr_fix_slice.
        * fin_tr R.
  Qed.

  Lemma icmp6_rel :
    res_rel (vres_of (slice_icmp6 c s)) (wire_icmp6 (view (c_result c)) src pos lim).
  Proof.
    unfold slice_icmp6, Icmpv6Slice.from_slice, Icmpv6Slice.MAX_LEN, wire_icmp6.
    rewrite (repr_len _ _ _ _ R).
    destruct (lim - pos <? 8) eqn:E8; cbn.
    - apply tr_fix_slice.
    - destruct (4294967295 <? lim - pos) eqn:Em; cbn.
      + apply tr_fix_slice.
      + fin_tr R.
  Qed.
End Transport.

Lemma transport_rel bs c p pos lim src :
  bytes_ok bs -> repr bs (ipp_slice p) pos lim -> c_offset c = pos -> src_ok (c_src c) src ->
  res_rel (vres_of (transport_dispatch c p))
          (wire_transport bs (view (c_result c)) (ipp_number p) (ipp_fragmented p) src pos lim).
Proof.
  intros Hok R Hoff Hsrc. unfold transport_dispatch, wire_transport.
  destruct (ipp_fragmented p); [reflexivity|].
  change IPN_ICMP with 1. change IPN_UDP with 17. change IPN_TCP with 6. change IPN_ICMPV6 with 58.
  destruct (ipp_number p =? 1); [apply (icmp4_rel bs); assumption|].
  destruct (ipp_number p =? 17); [apply (udp_rel bs); assumption|].
  destruct (ipp_number p =? 6); [apply (tcp_rel bs); assumption|].
  destruct (ipp_number p =? 58); [apply (icmp6_rel bs); assumption|].
  reflexivity.
Qed.

(* ---- authentication header ----------------------------------------------- *)
Lemma ah_eq bs s pos lim :
  repr bs s pos lim ->
  IpAuthHeaderSlice.from_slice s =
    (if lim - pos <? 12 then lerr 12 (lim - pos) LsSlice LyIpAuthHeader
     else if B bs (pos + 1) =? 0 then Err (EContent CeAuthZeroPayloadLen)
     else if lim - pos <? (B bs (pos + 1) + 2) * 4
          then lerr ((B bs (pos + 1) + 2) * 4) (lim - pos) LsSlice LyIpAuthHeader
          else subU s 0 ((B bs (pos + 1) + 2) * 4)).
Proof.
  intros R. unfold IpAuthHeaderSlice.from_slice. rewrite (repr_len _ _ _ _ R).
  destruct (lim - pos <? 12) eqn:E; [reflexivity|].
  rd8 R 1.
  assert (Hz : (B bs (pos + 1) <? 1) = (B bs (pos + 1) =? 0)).
  { destruct (B bs (pos + 1) =? 0) eqn:E0; lia. }
  rewrite Hz. reflexivity.
Qed.

(* ---- IPv4 ---------------------------------------------------------------- *)
Definition v4_cont (c : cursor) (s : slice) (ip : ipv4_slice) : res sliced_packet :=
  let payload := v4_payload ip in
  let* d := ptr_diff (ipp_slice payload) s in
  transport_dispatch (set_net c (c_offset c + d) (ipp_src payload) (NtIpv4 ip)) payload.

Lemma slice_ipv4_unfold c s :
  slice_ipv4 c s =
  (let* ip := map_len_err (fun e => le_add_offset e (c_offset c)) (Ipv4Slice.from_slice s) in
   v4_cont c s ip).
Proof. reflexivity. Qed.

Lemma ipv4_frag_eq bs h pos hl :
  bytes_ok bs -> repr bs h pos (pos + hl) -> 20 <= hl ->
  Ipv4HeaderSlice.is_fragmenting_payload h = Ok (ipv4_fragmented bs pos).
Proof.
  intros Hok R Hl. unfold Ipv4HeaderSlice.is_fragmenting_payload,
    Ipv4HeaderSlice.more_fragments, Ipv4HeaderSlice.fragments_offset, ipv4_fragmented.
  rd8 R 6. rd8 R 7.
  pose proof (B_lt bs (pos + 6) Hok) as H6. pose proof (B_lt bs (pos + 7) Hok) as H7.
  f_equal. f_equal.
  - f_equal. change 32 with (2 ^ 5) at 1.
    assert (X : N.land (B bs (pos + 6)) 32 =? 0 = ((B bs (pos + 6) / 32) mod 2 =? 0)).
    { apply (byte_sweep (fun b => Bool.eqb (N.land b 32 =? 0) ((b / 32) mod 2 =? 0)) eq_refl) in H6.
      now apply Bool.eqb_prop in H6. }
    exact X.
  - f_equal. unfold W, be16.
    replace (pos + 6 + 1) with (pos + 7) by lia.
    assert (X : N.land (B bs (pos + 6)) 31 = B bs (pos + 6) mod 32).
    { change 31 with (N.ones 5). now rewrite N.land_ones. }
    rewrite X.
    assert (Y : (B bs (pos + 6) * 256 + B bs (pos + 7)) mod 8192
                = (B bs (pos + 6) mod 32) * 256 + B bs (pos + 7)).
    { set (x := B bs (pos + 6)) in *. set (y := B bs (pos + 7)) in *.
      symmetry. apply N.mod_unique with (q := x / 32); [|].
      - pose proof (N.mod_lt x 32 ltac:(lia)). lia.
      - pose proof (N.div_mod x 32 ltac:(lia)). lia. }
    now rewrite Y.
Qed.

Lemma res_rel_conv m s s' : s = s' -> res_rel m s -> res_rel m s'.
Proof. now intros ->. Qed.

Lemma v4_finish_rel bs c s header hp pos lim hl lim' :
  bytes_ok bs ->
  repr bs s pos lim ->
  repr bs header pos (pos + hl) -> repr bs hp (pos + hl) lim' ->
  20 <= hl -> c_offset c = pos ->
  res_rel
    (vres_of (let* ip := map_len_err (fun e => le_add_offset e (c_offset c))
                           (Ipv4Slice.finish header hp) in v4_cont c s ip))
    (wire_ipv4_tail bs (view (c_result c)) pos hl lim').
Proof.
  intros Hok Rs Rh Rp Hhl Hoff.
  pose proof Rp as (_ & Hp1 & Hp2).
  unfold Ipv4Slice.finish, wire_ipv4_tail.
  rewrite (ipv4_frag_eq bs header pos hl Hok Rh Hhl). cbn [bind].
  unfold Ipv4HeaderSlice.protocol. rd8 Rh 9.
  change IPN_AUTH with 51.
  destruct (B bs (pos + 9) =? 51) eqn:Eah.
  - (* authentication header *)
    rewrite (ah_eq bs hp (pos + hl) lim' Rp). unfold wire_ah.
    rewrite (repr_len _ _ _ _ Rh).
    replace (pos + hl - pos) with hl by lia.
    destruct (lim' - (pos + hl) <? 12) eqn:E12; cbn.
    { rewrite Hoff. len_rel_tac. }
    destruct (B bs (pos + hl + 1) =? 0) eqn:Ez; cbn; [reflexivity|].
    destruct (lim' - (pos + hl) <? (B bs (pos + hl + 1) + 2) * 4) eqn:El; cbn.
    { rewrite Hoff. len_rel_tac. }
    set (l := (B bs (pos + hl + 1) + 2) * 4) in *.
    get_prefix Rp l auth Ea Ra. rewrite Ea. cbn [bind].
    rewrite (repr_len _ _ _ _ Rp), (repr_len _ _ _ _ Ra).
    replace (pos + hl + l - (pos + hl)) with l by lia.
    assert (Hl' : l <= lim' - (pos + hl)) by lia.
    destruct (repr_rest bs hp (pos + hl) lim' l Rp Hl') as (pl & Epl & Rpl).
    rewrite subN_ok by lia. cbn [bind]. rewrite Epl. cbn [bind].
    unfold IpAuthHeaderSlice.next_header. rd8 Ra 0. rewrite N.add_0_r.
    cbn [map_len_err bind]. unfold v4_cont. cbn [v4_payload ipp_slice ipp_src].
    unfold ptr_diff. rewrite (repr_off _ _ _ _ Rpl), (repr_off _ _ _ _ Rs).
    rewrite subN_ok by lia. cbn [bind].
    eapply res_rel_conv; [|apply (transport_rel bs _ _ (pos + hl + l) lim' LsIpv4HeaderTotalLen Hok)].
    + cbn [ipp_number ipp_fragmented]. rewrite view_set_net. cbn [view_net v4_header v4_auth v4_payload option_map]. unfold view_ipp. cbn [ipp_number ipp_fragmented ipp_src ipp_slice].
      rewrite (repr_win _ _ _ _ Rh), (repr_win _ _ _ _ Ra), (repr_win _ _ _ _ Rpl).
      replace (pos + hl - pos) with hl by lia.
      replace (pos + hl + l - (pos + hl)) with l by lia.
      reflexivity.
    + exact Rpl.
    + cbn. rewrite Hoff. lia.
    + apply src_ok_refl.
  - (* no extension header *)
    cbn [map_len_err bind]. unfold v4_cont. cbn [v4_payload ipp_slice ipp_src].
    unfold ptr_diff. rewrite (repr_off _ _ _ _ Rp), (repr_off _ _ _ _ Rs).
    rewrite subN_ok by lia. cbn [bind].
    eapply res_rel_conv; [|apply (transport_rel bs _ _ (pos + hl) lim' LsIpv4HeaderTotalLen Hok)].
    + cbn [ipp_number ipp_fragmented]. rewrite view_set_net. cbn [view_net v4_header v4_auth v4_payload option_map]. unfold view_ipp. cbn [ipp_number ipp_fragmented ipp_src ipp_slice].
      rewrite (repr_win _ _ _ _ Rh), (repr_win _ _ _ _ Rp).
      replace (pos + hl - pos) with hl by lia.
      reflexivity.
    + exact Rp.
    + cbn. rewrite Hoff. lia.
    + apply src_ok_refl.
Qed.

Lemma shr4_div16 b : N.shiftr b 4 = b / 16.
Proof. now rewrite N.shiftr_div_pow2. Qed.

Ltac err_slice Hoff := cbn; rewrite ?Hoff; len_rel_tac.

Lemma ipv4_rel bs c s pos lim src :
  bytes_ok bs -> repr bs s pos lim -> c_offset c = pos -> src_ok (c_src c) src ->
  res_rel (vres_of (slice_ipv4 c s)) (wire_ipv4 bs (view (c_result c)) src pos lim).
Proof.
  intros Hok R Hoff Hsrc. rewrite slice_ipv4_unfold.
  pose proof R as (_ & HR1 & HR2).
  unfold Ipv4Slice.from_slice, Ipv4HeaderSlice.from_slice, wire_ipv4, wire_ipv4_body.
  rewrite (repr_len _ _ _ _ R).
  destruct (lim - pos <? 20) eqn:E20; [err_slice Hoff|].
  rd8 R 0. rewrite N.add_0_r. rewrite shr4_div16, land15_mod.
  destruct (negb (B bs pos / 16 =? 4)) eqn:Ev; [reflexivity|].
  destruct (B bs pos mod 16 <? 5) eqn:Ei; [reflexivity|].
  set (hl := B bs pos mod 16 * 4) in *.
  destruct (lim - pos <? hl) eqn:Eh; [err_slice Hoff|].
  get_prefix R hl header Ehd Rhd. rewrite Ehd. cbn [bind].
  unfold Ipv4HeaderSlice.total_len. rd16 Rhd 2.
  rewrite (repr_len _ _ _ _ Rhd). replace (pos + hl - pos) with hl by lia.
  destruct (W bs (pos + 2) <? hl) eqn:Et; [err_slice Hoff|].
  destruct (lim - pos <? W bs (pos + 2)) eqn:Et2; [err_slice Hoff|].
  rewrite subN_ok by lia. cbn [bind].
  get_sub R hl (W bs (pos + 2) - hl) hp Ehp Rhp. rewrite Ehp. cbn [bind].
  replace (pos + hl + (W bs (pos + 2) - hl)) with (pos + W bs (pos + 2)) in Rhp by lia.
  apply (v4_finish_rel bs c s header hp pos lim hl (pos + W bs (pos + 2))); auto.
  subst hl. lia.
Qed.

(* ---- IPv6 extension chain ------------------------------------------------ *)
Definition chain_ok (bs : bytes) (src : len_source) (pos0 lim : N)
  (m : res (slice * N * bool)) (sp : chain_res) (pos : N) : Prop :=
  match sp with
  | ChOk e next fr =>
      exists rest', m = Ok (rest', next, fr) /\ repr bs rest' e lim /\ pos <= e
  | ChErr (VErr (ELen se)) =>
      exists me, m = Err (ELen me) /\ le_required me = le_required se /\
                 le_len me = le_len se /\ le_layer me = le_layer se /\
                 le_off me + pos0 = le_off se /\ le_src me = LsSlice /\ le_src se = src
  | ChErr (VErr (EContent ce)) => m = Err (EContent ce)
  | ChErr _ => False
  end.

Lemma raw_ext_eq bs s pos lim :
  repr bs s pos lim ->
  Ipv6RawExtHeaderSlice.from_slice s =
    (if lim - pos <? 8 then lerr 8 (lim - pos) LsSlice LyIpv6ExtHeader
     else if lim - pos <? (B bs (pos + 1) + 1) * 8
          then lerr ((B bs (pos + 1) + 1) * 8) (lim - pos) LsSlice LyIpv6ExtHeader
          else subU s 0 ((B bs (pos + 1) + 1) * 8)).
Proof.
  intros R. unfold Ipv6RawExtHeaderSlice.from_slice. rewrite (repr_len _ _ _ _ R).
  destruct (lim - pos <? 8) eqn:E; [reflexivity|].
  rewrite (repr_rd bs s pos lim 1 R) by lia. reflexivity.
Qed.

Lemma chain_rel bs (Hok : bytes_ok bs) src pos0 lim fuel :
  forall rest pos nh frag,
    repr bs rest pos lim -> pos0 <= pos ->
    (N.to_nat (lim - pos) < fuel)%nat ->
    chain_ok bs src pos0 lim
      (Ipv6ExtensionsSlice.walk fuel (lim - pos0) rest nh frag)
      (wire_chain bs fuel src pos lim nh frag) pos.
Proof.
  induction fuel as [|f IH]; intros rest pos nh frag R Hp Hf; [lia|].
  pose proof R as (_ & HR1 & HR2).
  cbn [Ipv6ExtensionsSlice.walk wire_chain].
  change IPN_HOP_BY_HOP with 0. change IPN_DEST_OPTIONS with 60. change IPN_ROUTE with 43.
  change IPN_FRAG with 44. change IPN_AUTH with 51.
  destruct (nh =? 0) eqn:E0; [reflexivity|].
  destruct ((nh =? 60) || (nh =? 43)) eqn:Eraw.
  { (* destination options / routing *)
    rewrite (repr_len _ _ _ _ R). rewrite subN_ok by lia. cbn [bind].
    rewrite (raw_ext_eq bs rest pos lim R).
    destruct (lim - pos <? 8) eqn:E8.
    { cbn. eexists. split; [reflexivity|]. cbn. repeat split; lia. }
    destruct (lim - pos <? (B bs (pos + 1) + 1) * 8) eqn:El.
    { cbn. eexists. split; [reflexivity|]. cbn. repeat split; lia. }
    set (l := (B bs (pos + 1) + 1) * 8) in *.
    get_prefix R l h Eh Rh. rewrite Eh. cbn [map_len_err bind].
    rewrite (repr_len _ _ _ _ Rh). replace (pos + l - pos) with l by lia.
    rewrite subN_ok by lia. cbn [bind].
    assert (Hl : l <= lim - pos) by lia.
    destruct (repr_rest bs rest pos lim l R Hl) as (r' & Er & Rr). rewrite Er. cbn [bind].
    unfold Ipv6RawExtHeaderSlice.next_header. rd8 Rh 0. rewrite N.add_0_r.
    assert (L8 : 8 <= l) by (subst l; lia).
    specialize (IH r' (pos + l) (B bs pos) frag Rr ltac:(lia) ltac:(lia)).
    unfold chain_ok in *. destruct (wire_chain bs f src (pos + l) lim (B bs pos) frag) as [e nx fr|r]; [|exact IH].
    destruct IH as (rest' & E & RR & Le). exists rest'. split; [exact E|]. split; [exact RR|lia]. }
  destruct (nh =? 44) eqn:Efrag.
  { rewrite (repr_len _ _ _ _ R). rewrite subN_ok by lia. cbn [bind].
    unfold Ipv6FragmentHeaderSlice.from_slice. rewrite (repr_len _ _ _ _ R).
    destruct (lim - pos <? 8) eqn:E8.
    { cbn. eexists. split; [reflexivity|]. cbn. repeat split; lia. }
    get_prefix R 8 h Eh Rh. rewrite Eh. cbn [map_len_err bind].
    rewrite (repr_len _ _ _ _ Rh). replace (pos + 8 - pos) with 8 by lia.
    rewrite subN_ok by lia. cbn [bind].
    assert (Hl : 8 <= lim - pos) by lia.
    destruct (repr_rest bs rest pos lim 8 R Hl) as (r' & Er & Rr). rewrite Er. cbn [bind].
    unfold Ipv6FragmentHeaderSlice.next_header. rd8 Rh 0. rewrite N.add_0_r.
    unfold Ipv6FragmentHeaderSlice.is_fragmenting_payload,
      Ipv6FragmentHeaderSlice.more_fragments, Ipv6FragmentHeaderSlice.fragment_offset.
    rd8 Rh 3. rd8 Rh 2.
    assert (Efr : negb (N.land (B bs (pos + 3)) 1 =? 0)
                  || negb (N.shiftr (be16 (B bs (pos + 2)) (B bs (pos + 3))) 3 =? 0)
                  = negb (B bs (pos + 3) mod 2 =? 0) || negb (W bs (pos + 2) / 8 =? 0)).
    { f_equal.
      - change 1 with (N.ones 1). now rewrite N.land_ones.
      - rewrite N.shiftr_div_pow2. unfold W, be16.
        replace (pos + 2 + 1) with (pos + 3) by lia. reflexivity. }
    rewrite Efr.
    specialize (IH r' (pos + 8) (B bs pos)
      (frag || (negb (B bs (pos + 3) mod 2 =? 0) || negb (W bs (pos + 2) / 8 =? 0)))
      Rr ltac:(lia) ltac:(lia)).
    unfold chain_ok in *.
    destruct (wire_chain bs f src (pos + 8) lim (B bs pos) _) as [e nx fr|r]; [|exact IH].
    destruct IH as (rest' & E & RR & Le). exists rest'. split; [exact E|]. split; [exact RR|lia]. }
  destruct (nh =? 51) eqn:Eauth.
  { rewrite (repr_len _ _ _ _ R). rewrite subN_ok by lia. cbn [bind].
    rewrite (ah_eq bs rest pos lim R). unfold wire_ah.
    destruct (lim - pos <? 12) eqn:E12.
    { cbn. eexists. split; [reflexivity|]. cbn. repeat split; lia. }
    destruct (B bs (pos + 1) =? 0) eqn:Ez; [reflexivity|].
    destruct (lim - pos <? (B bs (pos + 1) + 2) * 4) eqn:El.
    { cbn. eexists. split; [reflexivity|]. cbn. repeat split; lia. }
    set (l := (B bs (pos + 1) + 2) * 4) in *.
    get_prefix R l h Eh Rh. rewrite Eh. cbn [bind].
    rewrite (repr_len _ _ _ _ Rh). replace (pos + l - pos) with l by lia.
    rewrite subN_ok by lia. cbn [bind].
    assert (Hl : l <= lim - pos) by lia.
    destruct (repr_rest bs rest pos lim l R Hl) as (r' & Er & Rr). rewrite Er. cbn [bind].
    unfold IpAuthHeaderSlice.next_header. rd8 Rh 0. rewrite N.add_0_r.
    assert (L8 : 8 <= l) by (subst l; lia).
    specialize (IH r' (pos + l) (B bs pos) frag Rr ltac:(lia) ltac:(lia)).
    unfold chain_ok in *. destruct (wire_chain bs f src (pos + l) lim (B bs pos) frag) as [e nx fr|r]; [|exact IH].
    destruct IH as (rest' & E & RR & Le). exists rest'. split; [exact E|]. split; [exact RR|lia]. }
  cbn. exists rest. split; [reflexivity|]. split; [exact R|lia].
Qed.

Lemma repr_drop bs s pos lim l :
  repr bs s pos lim -> l <= lim - pos ->
  repr bs (fst s + l, drop l (snd s)) (pos + l) lim.
Proof.
  intros R Hl. destruct (repr_rest bs s pos lim l R Hl) as (s' & E & R').
  unfold subU in E. rewrite (repr_len _ _ _ _ R) in E.
  destruct (l + (lim - pos - l) <=? lim - pos) eqn:EE; [|lia].
  injection E as E. rewrite <- E in R'.
  replace (take (lim - pos - l) (drop l (snd s))) with (drop l (snd s)) in R'; [exact R'|].
  unfold take, drop. symmetry. apply firstn_all2.
  rewrite skipn_length. rewrite (repr_length _ _ _ _ R). lia.
Qed.

Definition exts_ok (bs : bytes) (src : len_source) (pos lim nh : N)
  (m : res (ipv6_exts_slice * N * slice)) (sp : chain_res) : Prop :=
  match sp with
  | ChOk e next fr =>
      exists x rest, m = Ok (x, next, rest) /\ repr bs rest e lim /\ pos <= e /\
                     repr bs (x6_slice x) pos e /\ x6_fragmented x = fr /\
                     x6_first x = (if e =? pos then None else Some nh)
  | ChErr (VErr (ELen se)) =>
      exists me, m = Err (ELen me) /\ le_required me = le_required se /\
                 le_len me = le_len se /\ le_layer me = le_layer se /\
                 le_off me + pos = le_off se /\ le_src me = LsSlice /\ le_src se = src
  | ChErr (VErr (EContent ce)) => m = Err (EContent ce)
  | ChErr _ => False
  end.

Lemma exts_rel bs (Hok : bytes_ok bs) src s pos lim nh :
  repr bs s pos lim ->
  exts_ok bs src pos lim nh (Ipv6ExtensionsSlice.from_slice nh s)
    (wire_exts bs (S (N.to_nat (lim - pos))) src pos lim nh).
Proof.
  intros R. pose proof R as (_ & HR1 & HR2).
  unfold Ipv6ExtensionsSlice.from_slice, wire_exts.
  change IPN_HOP_BY_HOP with 0. rewrite (N.eqb_sym 0 nh).
  rewrite (repr_length _ _ _ _ R), (repr_len _ _ _ _ R).
  (* common end game, given the result of the walk *)
  assert (Fin : forall rest0 nh0 pos1,
             repr bs rest0 pos1 lim -> pos <= pos1 ->
             exts_ok bs src pos lim nh
               (let* w := Ipv6ExtensionsSlice.walk (S (N.to_nat (lim - pos))) (lim - pos) rest0 nh0 false in
                let '(rest, next_header, fragmented) := w in
                let* used := subN (lim - pos) (s_len rest) in
                let* sl := (if used <=? lim - pos then Ok (fst s, take used (snd s)) else Bug SITE_INDEX) in
                Ok (mkIpv6Exts (if negb (s_len rest =? lim - pos) then Some nh else None) fragmented sl,
                    next_header, rest))
               (wire_chain bs (S (N.to_nat (lim - pos))) src pos1 lim nh0 false)
             \/ pos1 = pos1).
  { intros. now right. }
  clear Fin.
  assert (Walk : forall rest0 nh0 pos1,
             repr bs rest0 pos1 lim -> pos <= pos1 ->
             chain_ok bs src pos lim
               (Ipv6ExtensionsSlice.walk (S (N.to_nat (lim - pos))) (lim - pos) rest0 nh0 false)
               (wire_chain bs (S (N.to_nat (lim - pos))) src pos1 lim nh0 false) pos1).
  { intros rest0 nh0 pos1 R0 Hp1. apply chain_rel; auto.
    destruct R0 as (_ & A1 & A2). lia. }
  assert (End : forall rest0 nh0 pos1,
             repr bs rest0 pos1 lim -> pos <= pos1 -> (pos1 = pos -> nh0 = nh) -> (pos1 <> pos -> True) ->
             exts_ok bs src pos lim nh
               (let* w := Ipv6ExtensionsSlice.walk (S (N.to_nat (lim - pos))) (lim - pos) rest0 nh0 false in
                let '(rest, next_header, fragmented) := w in
                let* used := subN (lim - pos) (s_len rest) in
                let* sl := (if used <=? lim - pos then Ok (fst s, take used (snd s)) else Bug SITE_INDEX) in
                Ok (mkIpv6Exts (if negb (s_len rest =? lim - pos) then Some nh else None) fragmented sl,
                    next_header, rest))
               (wire_chain bs (S (N.to_nat (lim - pos))) src pos1 lim nh0 false)).
  { intros rest0 nh0 pos1 R0 Hp1 _ _.
    specialize (Walk rest0 nh0 pos1 R0 Hp1). unfold chain_ok, exts_ok in *.
    destruct (wire_chain bs (S (N.to_nat (lim - pos))) src pos1 lim nh0 false) as [e nx fr|[p|[se|ce]|b]];
      try exact Walk.
    - destruct Walk as (rest' & -> & RR & Le). cbn [bind].
      pose proof RR as (_ & Q1 & Q2).
      rewrite (repr_len _ _ _ _ RR). rewrite subN_ok by lia. cbn [bind].
      destruct (lim - pos - (lim - e) <=? lim - pos) eqn:EE; [|lia]. cbn [bind].
      eexists _, rest'. split; [reflexivity|]. cbn [x6_slice x6_fragmented x6_first].
      split; [exact RR|]. split; [lia|]. split.
      + replace (lim - pos - (lim - e)) with (e - pos) by lia.
        pose proof (repr_sub bs s pos lim 0 (e - pos) R ltac:(lia)) as RS.
        rewrite (repr_off _ _ _ _ R : fst s = pos).
        rewrite N.add_0_r in RS. replace (pos + (e - pos)) with e in RS by lia.
        unfold drop in RS. cbn [N.to_nat skipn] in RS. exact RS.
      + split; [reflexivity|].
        destruct (e =? pos) eqn:Ee.
        * assert (e = pos) by lia. subst e. rewrite N.eqb_refl. reflexivity.
        * assert ((lim - e =? lim - pos) = false) by lia. rewrite H. reflexivity.
    - destruct Walk as (me & -> & W). cbn [bind]. exists me. split; [reflexivity|exact W].
    - rewrite Walk. reflexivity. }
  destruct (nh =? 0) eqn:E0.
  - (* hop-by-hop options first *)
    rewrite (raw_ext_eq bs s pos lim R).
    destruct (lim - pos <? 8) eqn:E8.
    { cbn. eexists. split; [reflexivity|]. cbn. repeat split; lia. }
    destruct (lim - pos <? (B bs (pos + 1) + 1) * 8) eqn:El.
    { cbn. eexists. split; [reflexivity|]. cbn. repeat split; lia. }
    set (l := (B bs (pos + 1) + 1) * 8) in *.
    get_prefix R l h Eh Rh. rewrite Eh. cbn [bind].
    rewrite (repr_len _ _ _ _ Rh). replace (pos + l - pos) with l by lia.
    destruct (l <=? lim - pos) eqn:Ell; [|lia]. cbn [bind].
    unfold Ipv6RawExtHeaderSlice.next_header. rd8 Rh 0. rewrite N.add_0_r.
    assert (Hl : l <= lim - pos) by lia.
    pose proof (repr_drop bs s pos lim l R Hl) as Rd.
    apply (End _ (B bs pos) (pos + l) Rd); auto; lia.
  - cbn [bind]. apply (End s nh pos R); auto; lia.
Qed.

(* ---- IPv6 ---------------------------------------------------------------- *)
Definition v6_cont (c : cursor) (s : slice) (ip : ipv6_slice) : res sliced_packet :=
  let payload := v6_payload ip in
  let* d := ptr_diff (ipp_slice payload) s in
  transport_dispatch (set_net c (c_offset c + d) (ipp_src payload) (NtIpv6 ip)) payload.

Lemma slice_ipv6_unfold c s :
  slice_ipv6 c s =
  (let* ip := map_len_err (fun e => le_add_offset e (c_offset c)) (Ipv6Slice.from_slice s) in
   v6_cont c s ip).
Proof. reflexivity. Qed.

(* the chain + transport part, for a header payload [pos+40, lim') *)
Lemma v6_tail_rel bs c s header hp pos lim lim' esrc psrc :
  bytes_ok bs -> repr bs s pos lim ->
  repr bs header pos (pos + 40) -> repr bs hp (pos + 40) lim' ->
  c_offset c = pos -> src_ok psrc esrc ->
  res_rel
    (vres_of
       (let* ip := map_len_err (fun e => le_add_offset e (c_offset c))
          (let* nh := Ipv6HeaderSlice.next_header header in
           let* x :=
             match Ipv6ExtensionsSlice.from_slice nh hp with
             | Err (ELen e) => Err (ELen (le_add_offset (le_set_src e psrc) 40))
             | r => r
             end in
           let '(exts, payload_ip_number, payload) := x in
           Ok (mkIpv6Slice header exts
                 (mkIpPayload payload_ip_number (x6_fragmented exts) psrc payload))) in
        v6_cont c s ip))
    (wire_ipv6_tail bs (view (c_result c)) esrc psrc pos lim').
Proof.
  intros Hok Rs Rh Rp Hoff Hps. pose proof Rp as (_ & P1 & P2).
  unfold wire_ipv6_tail, Ipv6HeaderSlice.next_header. rd8 Rh 6.
  pose proof (exts_rel bs Hok esrc hp (pos + 40) lim' (B bs (pos + 6)) Rp) as X.
  unfold exts_ok in X.
  destruct (wire_exts bs (S (N.to_nat (lim' - (pos + 40)))) esrc (pos + 40) lim' (B bs (pos + 6)))
    as [e nx fr|[p|[se|ce]|b]]; try contradiction.
  - destruct X as (x & rest & -> & Rr & Le & Rx & Efr & Efirst). cbn [bind map_len_err].
    unfold v6_cont. cbn [v6_payload ipp_slice ipp_src]. unfold ptr_diff.
    rewrite (repr_off _ _ _ _ Rr), (repr_off _ _ _ _ Rs).
    pose proof Rr as (_ & Q1 & Q2).
    rewrite subN_ok by lia. cbn [bind].
    eapply res_rel_conv; [|apply (transport_rel bs _ _ e lim' esrc Hok)].
    + cbn [ipp_number ipp_fragmented]. rewrite view_set_net.
      cbn [view_net v6_header v6_exts v6_payload]. unfold view_ipp.
      cbn [ipp_number ipp_fragmented ipp_src ipp_slice].
      rewrite (repr_win _ _ _ _ Rh), (repr_win _ _ _ _ Rx), (repr_win _ _ _ _ Rr).
      rewrite Efr, Efirst. replace (pos + 40 - pos) with 40 by lia. reflexivity.
    + exact Rr.
    + cbn. rewrite Hoff. lia.
    + cbn. exact Hps.
  - destruct X as (me & -> & A1 & A2 & A3 & A4 & A5 & A6). cbn.
    unfold len_rel, le_add_offset, le_set_src. cbn. rewrite Hoff.
    repeat split; try lia; auto.
    destruct Hps as [->| ->]; rewrite ?A6; auto.
  - rewrite X. reflexivity.
Qed.

Lemma v6_finish_rel bs c s header pos lim src :
  bytes_ok bs -> repr bs s pos lim -> repr bs header pos (pos + 40) -> 40 <= lim - pos ->
  c_offset c = pos -> src_ok (c_src c) src ->
  res_rel
    (vres_of (let* ip := map_len_err (fun e => le_add_offset e (c_offset c))
                           (Ipv6Slice.finish s header) in v6_cont c s ip))
    (wire_ipv6_body bs (view (c_result c)) src pos lim).
Proof.
  intros Hok Rs Rh H40 Hoff Hsrc. pose proof Rs as (_ & S1 & S2).
  unfold Ipv6Slice.finish, wire_ipv6_body, Ipv6HeaderSlice.payload_length.
  rd16 Rh 4. rewrite (repr_len _ _ _ _ Rs).
  rewrite (N.eqb_sym 0 (W bs (pos + 4))).
  destruct ((W bs (pos + 4) =? 0) && (40 <? lim - pos)) eqn:Ez.
  - rewrite subN_ok by lia. cbn [bind].
    assert (H40' : 40 <= lim - pos) by lia.
    destruct (repr_rest bs s pos lim 40 Rs H40') as (hp & Ehp & Rhp). rewrite Ehp. cbn [bind].
    apply (v6_tail_rel bs c s header hp pos lim lim src LsSlice); auto. apply src_ok_slice.
  - destruct (lim - pos <? 40 + W bs (pos + 4)) eqn:El; [err_slice Hoff|].
    get_sub Rs 40 (W bs (pos + 4)) hp Ehp Rhp. rewrite Ehp. cbn [bind].
    apply (v6_tail_rel bs c s header hp pos lim (pos + 40 + W bs (pos + 4))
             LsIpv6HeaderPayloadLen LsIpv6HeaderPayloadLen); auto. apply src_ok_refl.
Qed.

Lemma ipv6_rel bs c s pos lim src :
  bytes_ok bs -> repr bs s pos lim -> c_offset c = pos -> src_ok (c_src c) src ->
  res_rel (vres_of (slice_ipv6 c s)) (wire_ipv6 bs (view (c_result c)) src pos lim).
Proof.
  intros Hok R Hoff Hsrc. rewrite slice_ipv6_unfold.
  unfold Ipv6Slice.from_slice, Ipv6HeaderSlice.from_slice, wire_ipv6.
  rewrite (repr_len _ _ _ _ R).
  destruct (lim - pos <? 40) eqn:E40; [err_slice Hoff|].
  rd8 R 0. rewrite N.add_0_r, shr4_div16.
  destruct (negb (B bs pos / 16 =? 6)) eqn:Ev; [reflexivity|].
  get_prefix R 40 header Eh Rh. rewrite Eh. cbn [bind].
  apply (v6_finish_rel bs c s header pos lim src); auto. lia.
Qed.

(* ---- IpSlice (version dispatch) ------------------------------------------ *)
Lemma ip_rel bs c s pos lim src :
  bytes_ok bs -> repr bs s pos lim -> c_offset c = pos -> src_ok (c_src c) src ->
  res_rel (vres_of (slice_ip c s)) (wire_ip bs (view (c_result c)) src pos lim).
Proof.
  intros Hok R Hoff Hsrc. pose proof R as (_ & HR1 & HR2).
  unfold slice_ip, IpSlice.from_slice, wire_ip, wire_ipv4_body.
  rewrite (repr_len _ _ _ _ R).
  destruct (lim - pos =? 0) eqn:E0; [err_slice Hoff|].
  rd8 R 0. rewrite N.add_0_r, shr4_div16, land15_mod.
  destruct (B bs pos / 16 =? 4) eqn:E4.
  - destruct (B bs pos mod 16 <? 5) eqn:Ei; [reflexivity|].
    set (hl := B bs pos mod 16 * 4) in *.
    destruct (lim - pos <? hl) eqn:Eh; [err_slice Hoff|].
    get_prefix R hl header Ehd Rhd. rewrite Ehd. cbn [bind].
    unfold Ipv4HeaderSlice.total_len. rd16 Rhd 2.
    destruct (W bs (pos + 2) <? hl) eqn:Et; [err_slice Hoff|].
    destruct (lim - pos <? W bs (pos + 2)) eqn:Et2; [err_slice Hoff|].
    rewrite subN_ok by lia. cbn [bind].
    get_sub R hl (W bs (pos + 2) - hl) hp Ehp Rhp. rewrite Ehp. cbn [bind].
    replace (pos + hl + (W bs (pos + 2) - hl)) with (pos + W bs (pos + 2)) in Rhp by lia.
    assert (Hhl : 20 <= hl) by (subst hl; lia).
    pose proof (v4_finish_rel bs c s header hp pos lim hl (pos + W bs (pos + 2)) Hok R Rhd Rhp Hhl Hoff) as F.
    destruct (Ipv4Slice.finish header hp) as [v|e|b]; cbn [bind map_len_err] in *.
    + exact F.
    + destruct e; exact F.
    + exact F.
  - destruct (B bs pos / 16 =? 6) eqn:E6; [|reflexivity].
    destruct (lim - pos <? 40) eqn:E40; [err_slice Hoff|].
    get_prefix R 40 header Eh Rh. rewrite Eh. cbn [bind].
    pose proof (v6_finish_rel bs c s header pos lim src Hok R Rh ltac:(lia) Hoff Hsrc) as F.
    destruct (Ipv6Slice.finish s header) as [v|e|b]; cbn [bind map_len_err] in *.
    + exact F.
    + destruct e; exact F.
    + exact F.
Qed.

(* ---- ARP ----------------------------------------------------------------- *)
Lemma arp_rel bs c s pos lim src :
  bytes_ok bs -> repr bs s pos lim -> c_offset c = pos -> src_ok (c_src c) src ->
  res_rel (vres_of (slice_arp c s)) (wire_arp bs (view (c_result c)) src pos lim).
Proof.
  intros Hok R Hoff Hsrc. unfold slice_arp, ArpPacketSlice.from_slice, wire_arp.
  rewrite (repr_len _ _ _ _ R).
  destruct (lim - pos <? 8) eqn:E8; [err_slice Hoff|].
  rd8 R 4. rd8 R 5.
  set (l := 8 + B bs (pos + 4) * 2 + B bs (pos + 5) * 2) in *.
  destruct (lim - pos <? l) eqn:El.
  - cbn. rewrite Hoff. unfold len_rel, F7. cbn. repeat split; try lia. right. right. left. auto.
  - get_prefix R l a Ea Ra. rewrite Ea. cbn [map_len_err bind vres_of].
    rewrite view_set_net. cbn [view_net]. rewrite (repr_win _ _ _ _ Ra).
    replace (pos + l - pos) with l by lia. reflexivity.
Qed.

(* ---- MACsec -------------------------------------------------------------- *)
Lemma bit128 b : b < 256 -> Macsec.bit b 128 = (128 <=? b).
Proof.
  intros H. apply Bool.eqb_prop.
  apply (byte_sweep (fun b => Bool.eqb (Macsec.bit b 128) (128 <=? b)) eq_refl _ H).
Qed.
Lemma bit32 b : b < 256 -> Macsec.bit b 32 = negb ((b / 32) mod 2 =? 0).
Proof.
  intros H. apply Bool.eqb_prop.
  apply (byte_sweep (fun b => Bool.eqb (Macsec.bit b 32) (negb ((b / 32) mod 2 =? 0))) eq_refl _ H).
Qed.
Lemma land12 b : b < 256 -> (N.land b 12 =? 0) = ((b / 4) mod 4 =? 0).
Proof.
  intros H. apply Bool.eqb_prop.
  apply (byte_sweep (fun b => Bool.eqb (N.land b 12 =? 0) ((b / 4) mod 4 =? 0)) eq_refl _ H).
Qed.

Lemma subU_eq s k n :
  k + n <= s_len s -> subU s k n = Ok (fst s + k, take n (drop k (snd s))).
Proof. intros H. unfold subU. destruct (k + n <=? s_len s) eqn:E; [reflexivity|lia]. Qed.

Lemma drop0 {A} (l : list A) : drop 0 l = l.
Proof. reflexivity. Qed.

Section MacsecSpec.
  Variables (bs : bytes) (s : slice) (pos lim : N).
  Hypothesis Hok : bytes_ok bs.
  Hypothesis R : repr bs s pos lim.

  Let tci := B bs pos.
  Let sl := B bs (pos + 1) mod 64.
  Let unmod := (tci / 4) mod 4 =? 0.
  Let sc := negb ((tci / 32) mod 2 =? 0).
  Let hl := 6 + (if unmod then 2 else 0) + (if sc then 8 else 0).
  Let body := if unmod then sl - 2 else sl.
  Let a := lim - pos.
  Let plen := if 0 <? sl then body else a - hl.
  Let psrc := if 0 <? sl then LsMacsecShortLength else LsSlice.

  Lemma macsec_from_slice_eq :
    Macsec.from_slice s =
      (if a <? 6 then lerr 6 a LsSlice LyMacsecHeader
       else if 128 <=? tci then Err (EContent CeMacsecVersion)
       else if unmod && (sl =? 1) then Err (EContent CeMacsecUnmodifiedShortLen)
       else if a <? hl then lerr hl a LsSlice LyMacsecHeader
       else if (0 <? sl) && (a <? hl + body) then
              lerr (hl + body) a LsMacsecShortLength LyMacsecPacket
       else
         let header := (pos, take hl (snd s)) in
         let payload := (pos + hl, take plen (drop hl (snd s))) in
         Ok (mkMacsecSlice header
               (if unmod then MpUnmodified (mkEtherPayload (W bs (pos + hl - 2)) psrc payload)
                else MpModified payload))).
  Proof.
    pose proof R as (_ & HR1 & HR2).
    pose proof (B_lt bs pos Hok) as Ht. pose proof (B_lt bs (pos + 1) Hok) as H1.
    unfold Macsec.from_slice, Macsec.header_from_slice.
    rewrite (repr_len _ _ _ _ R). fold a.
    destruct (a <? 6) eqn:E6; [reflexivity|]. subst a.
    rd8 R 0. rewrite N.add_0_r. fold tci.
    rewrite (bit128 tci Ht).
    destruct (128 <=? tci) eqn:Ev; [reflexivity|].
    rewrite (land12 tci Ht). fold unmod.
    rewrite (bit32 tci Ht). fold sc.
    assert (Esl : forall (X : res unit),
      (if unmod then (let* b1 := rdU s 1 in
                      if N.land b1 63 =? 1 then Err (EContent CeMacsecUnmodifiedShortLen) else Ok tt)
       else Ok tt) =
      (if unmod && (sl =? 1) then Err (EContent CeMacsecUnmodifiedShortLen) else Ok tt)).
    { intros _. destruct unmod; [|reflexivity]. rd8 R 1. rewrite land63_mod. fold sl.
      destruct (sl =? 1); reflexivity. }
    rewrite (Esl (Ok tt)). clear Esl.
    destruct (unmod && (sl =? 1)) eqn:Eu; [reflexivity|]. cbn [bind].
    fold hl.
    destruct (lim - pos <? hl) eqn:Eh; [reflexivity|].
    assert (Hhl : hl <= lim - pos) by lia.
    assert (Hhl6 : 6 <= hl) by (subst hl; lia).
    rewrite subU_eq by (rewrite (repr_len _ _ _ _ R); lia). cbn [bind].
    rewrite (repr_off _ _ _ _ R : fst s = pos). rewrite N.add_0_r.
    rewrite !drop0.
    pose proof (repr_sub bs s pos lim 0 hl R ltac:(lia)) as Rh.
    rewrite N.add_0_r, drop0 in Rh.
    set (header := (pos, take hl (snd s))) in *.
    (* accessors on the header *)
    unfold Macsec.expected_payload_len, Macsec.short_len, Macsec.tci_an_raw.
    rd8 Rh 1. rd8 Rh 0. rewrite N.add_0_r. fold tci. rewrite land63_mod. fold sl.
    rewrite (land12 tci Ht). fold unmod.
    rewrite (repr_len _ _ _ _ Rh). replace (pos + hl - pos) with hl by lia.
    unfold Macsec.next_ether_type, Macsec.tci_an_raw.
    rd8 Rh 0. rewrite N.add_0_r. fold tci. rewrite (land12 tci Ht). fold unmod.
    rewrite (bit32 tci Ht). fold sc.
    destruct (0 <? sl) eqn:Esl.
    - (* short length given *)
      destruct unmod eqn:Eun; cbn [negb andb].
      + assert (Hsl2 : (sl <? 2) = false) by (cbn in Eu; lia). rewrite Hsl2.
        subst body plen psrc. cbn [bind andb].
        destruct (lim - pos <? hl + (sl - 2)) eqn:Eb; [reflexivity|].
        rewrite subU_eq by (rewrite (repr_len _ _ _ _ R); lia). cbn [bind].
        rewrite (repr_off _ _ _ _ R : fst s = pos).
        destruct sc eqn:Esc.
        * assert (hl = 16) by (subst hl; reflexivity).
          rewrite (repr_rd16 bs header pos (pos + hl) 14 Rh) by lia. cbn [bind].
          replace (pos + hl - 2) with (pos + 14) by lia. reflexivity.
        * assert (hl = 8) by (subst hl; reflexivity).
          rewrite (repr_rd16 bs header pos (pos + hl) 6 Rh) by lia. cbn [bind].
          replace (pos + hl - 2) with (pos + 6) by lia. reflexivity.
      + subst body plen psrc. cbn [bind andb].
        destruct (lim - pos <? hl + sl) eqn:Eb; [reflexivity|].
        rewrite subU_eq by (rewrite (repr_len _ _ _ _ R); lia). cbn [bind].
        rewrite (repr_off _ _ _ _ R : fst s = pos). reflexivity.
    - subst body plen psrc. cbn [bind andb].
      rewrite subN_ok by lia. cbn [bind].
      rewrite subU_eq by (rewrite (repr_len _ _ _ _ R); lia). cbn [bind].
      rewrite (repr_off _ _ _ _ R : fst s = pos).
      destruct unmod eqn:Eun; cbn [negb].
      + destruct sc eqn:Esc.
        * assert (hl = 16) by (subst hl; reflexivity).
          rewrite (repr_rd16 bs header pos (pos + hl) 14 Rh) by lia. cbn [bind].
          replace (pos + hl - 2) with (pos + 14) by lia. reflexivity.
        * assert (hl = 8) by (subst hl; reflexivity).
          rewrite (repr_rd16 bs header pos (pos + hl) 6 Rh) by lia. cbn [bind].
          replace (pos + hl - 2) with (pos + 6) by lia. reflexivity.
      + reflexivity.
  Qed.
End MacsecSpec.

(* ---- network dispatch and the link extension loop ------------------------- *)
Lemma view_push_ext c o sr x c' :
  push_ext c o sr x = Ok c' ->
  view (c_result c') = with_ext (view (c_result c)) (view_ext x) /\
  c_offset c' = o /\ c_src c' = sr /\
  len (sp_exts (c_result c')) = len (sp_exts (c_result c)) + 1.
Proof.
  unfold push_ext. destruct (len (sp_exts (c_result c)) <? LINK_EXTS_CAP); [|discriminate].
  intros E. injection E as <-. cbn. unfold view, with_ext. cbn.
  rewrite map_app. cbn. repeat split. rewrite len_app. reflexivity.
Qed.

Lemma push_ext_ok c o sr x :
  len (sp_exts (c_result c)) < 3 -> exists c', push_ext c o sr x = Ok c'.
Proof.
  intros H. unfold push_ext, LINK_EXTS_CAP.
  destruct (len (sp_exts (c_result c)) <? 3) eqn:E; [eexists; reflexivity|lia].
Qed.

Lemma net_rel bs c ep pos lim src :
  bytes_ok bs -> repr bs (ep_slice ep) pos lim -> c_offset c = pos -> src_ok (c_src c) src ->
  is_vlan_type (ep_ether_type ep) = false -> (ep_ether_type ep =? ET_MACSEC) = false ->
  res_rel
    (vres_of (if ep_ether_type ep =? ET_ARP then slice_arp c (ep_slice ep)
              else if ep_ether_type ep =? ET_IPV4 then slice_ipv4 c (ep_slice ep)
              else if ep_ether_type ep =? ET_IPV6 then slice_ipv6 c (ep_slice ep)
              else Ok (c_result c)))
    (wire_net bs (view (c_result c)) (ep_ether_type ep) src pos lim).
Proof.
  intros Hok R Hoff Hsrc _ _. unfold wire_net.
  change ET_ARP with 2054. change ET_IPV4 with 2048. change ET_IPV6 with 34525.
  destruct (ep_ether_type ep =? 2054); [now apply arp_rel|].
  destruct (ep_ether_type ep =? 2048); [now apply ipv4_rel|].
  destruct (ep_ether_type ep =? 34525); [now apply ipv6_rel|].
  reflexivity.
Qed.

Lemma ether_rel bs (Hok : bytes_ok bs) cap :
  forall fuel c ep pos lim src,
    (cap < fuel)%nat ->
    N.of_nat cap + len (sp_exts (c_result c)) = 3 ->
    repr bs (ep_slice ep) pos lim -> c_offset c = pos -> src_ok (c_src c) src ->
    res_rel (vres_of (slice_ether_type_loop fuel c ep))
            (wire_ether bs cap (view (c_result c)) (ep_ether_type ep) src pos lim).
Proof.
  induction cap as [|cap IH]; intros fuel c ep pos lim src Hf Hcap R Hoff Hsrc;
    (destruct fuel as [|f]; [lia|]); pose proof R as (_ & HR1 & HR2);
    cbn [slice_ether_type_loop wire_ether];
    change (is_vlan (ep_ether_type ep)) with (is_vlan_type (ep_ether_type ep));
    change 35045 with ET_MACSEC; unfold LINK_EXTS_CAP.
  - (* link_exts is full *)
    destruct (is_vlan_type (ep_ether_type ep)) eqn:Ev.
    { destruct (3 <=? len (sp_exts (c_result c))) eqn:E3; [reflexivity|lia]. }
    destruct (ep_ether_type ep =? ET_MACSEC) eqn:Em.
    { destruct (3 <=? len (sp_exts (c_result c))) eqn:E3; [reflexivity|lia]. }
    now apply net_rel.
  - destruct (is_vlan_type (ep_ether_type ep)) eqn:Ev.
    { (* VLAN tag *)
      destruct (3 <=? len (sp_exts (c_result c))) eqn:E3; [lia|].
      unfold SingleVlanSlice.from_slice. rewrite (repr_len _ _ _ _ R).
      destruct (lim - pos <? 4) eqn:E4; [err_slice Hoff|].
      cbn [map_len_err bind].
      unfold SingleVlanSlice.payload, SingleVlanSlice.ether_type, SingleVlanSlice.payload_slice.
      rd16 R 2. rewrite (repr_len _ _ _ _ R). rewrite subN_ok by lia. cbn [bind].
      assert (H4 : 4 <= lim - pos) by lia.
      destruct (repr_rest bs (ep_slice ep) pos lim 4 R H4) as (pl & Epl & Rpl).
      rewrite Epl. cbn [bind].
      destruct (push_ext_ok c (c_offset c + SingleVlanSlice.header_len) (c_src c) (LeVlan (ep_slice ep)))
        as (c' & Ec'); [lia|].
      rewrite Ec'. cbn [bind].
      destruct (view_push_ext _ _ _ _ _ Ec') as (V1 & V2 & V3 & V4).
      eapply res_rel_conv; [|apply (IH f c' _ (pos + 4) lim src)]; cbn [ep_ether_type ep_slice]; auto.
      + rewrite V1. cbn [view_ext]. rewrite (repr_win _ _ _ _ R). reflexivity.
      + lia.
      + lia.
      + rewrite V2, Hoff. reflexivity.
      + rewrite V3. exact Hsrc. }
    destruct (ep_ether_type ep =? ET_MACSEC) eqn:Em; [|now apply net_rel].
    (* MACsec *)
    destruct (3 <=? len (sp_exts (c_result c))) eqn:E3; [lia|].
    rewrite (macsec_from_slice_eq bs (ep_slice ep) pos lim Hok R).
    destruct (lim - pos <? 6) eqn:E6; [err_slice Hoff|].
    destruct (128 <=? B bs pos) eqn:Ever; [reflexivity|].
    set (tci := B bs pos) in *.
    set (sl := B bs (pos + 1) mod 64) in *.
    set (unmod := (tci / 4) mod 4 =? 0) in *.
    set (sc := negb ((tci / 32) mod 2 =? 0)) in *.
    destruct (unmod && (sl =? 1)) eqn:Eu; [reflexivity|].
    set (hl := 6 + (if unmod then 2 else 0) + (if sc then 8 else 0)) in *.
    destruct (lim - pos <? hl) eqn:Eh; [err_slice Hoff|].
    set (body := if unmod then sl - 2 else sl) in *.
    destruct ((0 <? sl) && (lim - pos <? hl + body)) eqn:Eb.
    { cbn. rewrite Hoff. unfold len_rel, F7. cbn. repeat split; try lia. right. right. right. auto. }
    cbn zeta.
    set (plen := if 0 <? sl then body else lim - pos - hl) in *.
    set (psrc := if 0 <? sl then LsMacsecShortLength else LsSlice) in *.
    cbn [map_len_err bind ms_header ms_payload].
    assert (Hhl : hl <= lim - pos) by lia.
    assert (Hhl6 : 6 <= hl) by (subst hl; lia).
    pose proof (repr_sub bs (ep_slice ep) pos lim 0 hl R ltac:(lia)) as Rh.
    rewrite N.add_0_r, drop0 in Rh.
    set (header := (pos, take hl (snd (ep_slice ep)))) in *.
    assert (Hplen : hl + plen <= lim - pos).
    { subst plen. destruct (0 <? sl); cbn [andb] in Eb; lia. }
    pose proof (repr_sub bs (ep_slice ep) pos lim hl plen R Hplen) as Rp.
    set (payload := (pos + hl, take plen (drop hl (snd (ep_slice ep))))) in *.
    (* header accessors *)
    pose proof (B_lt bs pos Hok) as Ht. fold tci in Ht.
    assert (Ehl : Macsec.header_len header = Ok hl).
    { unfold Macsec.header_len, Macsec.sci_present, Macsec.is_unmodified, Macsec.tci_an_raw.
      rd8 Rh 0. rewrite N.add_0_r. fold tci.
      rewrite (bit32 tci Ht), (land12 tci Ht). fold sc unmod. subst hl. f_equal. lia. }
    assert (Esl : Macsec.short_len header = Ok sl).
    { unfold Macsec.short_len. rd8 Rh 1. now rewrite land63_mod. }
    rewrite Ehl, Esl. cbn [bind].
    set (src1 := if 0 <? sl then LsMacsecShortLength else c_src c).
    destruct (push_ext_ok c (c_offset c + hl) src1
                (LeMacsec (mkMacsecSlice header
                   (if unmod then MpUnmodified (mkEtherPayload (W bs (pos + hl - 2)) psrc payload)
                    else MpModified payload)))) as (c' & Ec'); [lia|].
    rewrite Ec'. cbn [bind].
    destruct (view_push_ext _ _ _ _ _ Ec') as (V1 & V2 & V3 & V4).
    assert (Elim : pos + hl + plen = (if 0 <? sl then pos + hl + body else lim)).
    { subst plen. destruct (0 <? sl); lia. }
    destruct unmod eqn:Eun.
    + cbn [ms_payload].
      eapply res_rel_conv;
        [|apply (IH f c' (mkEtherPayload (W bs (pos + hl - 2)) psrc payload) (pos + hl) (pos + hl + plen)
                   (if 0 <? sl then LsMacsecShortLength else src))];
        cbn [ep_ether_type ep_slice]; auto.
      * rewrite V1. cbn [view_ext ms_header ms_payload]. unfold view_ep. cbn [ep_ether_type ep_src ep_slice].
        rewrite (repr_win _ _ _ _ Rh), (repr_win _ _ _ _ Rp).
        replace (pos + hl - pos) with hl by lia.
        rewrite Elim. reflexivity.
      * lia.
      * lia.
      * rewrite V2, Hoff. reflexivity.
      * rewrite V3. subst src1. destruct (0 <? sl); [apply src_ok_refl|exact Hsrc].
    + cbn [ms_payload vres_of]. rewrite V1. cbn [view_ext ms_header ms_payload].
      rewrite (repr_win _ _ _ _ Rh), (repr_win _ _ _ _ Rp).
      replace (pos + hl - pos) with hl by lia. rewrite Elim. reflexivity.
Qed.

(* ---- entry points -------------------------------------------------------- *)
Theorem from_ip_rel bs :
  bytes_ok bs -> res_rel (vres_of (SlicedPacket.from_ip bs)) (wire_from_ip bs).
Proof.
  intros Hok. unfold SlicedPacket.from_ip, wire_from_ip, n_bs.
  apply (ip_rel bs new (mk_slice bs) 0 (len bs) LsSlice Hok (repr_whole bs) eq_refl).
  apply src_ok_refl.
Qed.

Theorem from_ether_type_rel bs et :
  bytes_ok bs -> res_rel (vres_of (SlicedPacket.from_ether_type et bs)) (wire_ether_type bs et).
Proof.
  intros Hok. unfold SlicedPacket.from_ether_type, wire_ether_type, slice_ether_type, n_bs.
  pose proof (repr_whole bs) as R.
  eapply res_rel_conv;
    [|apply (ether_rel bs Hok 3 5 _ (mkEtherPayload et LsSlice (mk_slice bs)) 0 (len bs) LsSlice)];
    cbn [ep_ether_type ep_slice].
  - unfold view, set_link, new. cbn [c_result sp_link sp_exts sp_net sp_transport option_map map view_link].
    unfold view_ep. cbn [ep_ether_type ep_src ep_slice].
    rewrite (repr_win _ _ _ _ R). rewrite N.sub_0_r. reflexivity.
  - lia.
  - reflexivity.
  - exact R.
  - reflexivity.
  - apply src_ok_refl.
Qed.

Theorem from_ethernet_rel bs :
  bytes_ok bs -> res_rel (vres_of (SlicedPacket.from_ethernet bs)) (wire_ethernet bs).
Proof.
  intros Hok. unfold SlicedPacket.from_ethernet, wire_ethernet, slice_ethernet2, n_bs.
  pose proof (repr_whole bs) as R.
  unfold Ethernet2Slice.from_slice_without_fcs. rewrite (repr_len _ _ _ _ R). rewrite N.sub_0_r.
  destruct (len bs <? 14) eqn:E14; [cbn; len_rel_tac|].
  cbn [map_len_err bind].
  unfold Ethernet2Slice.payload, Ethernet2Slice.ether_type, Ethernet2Slice.payload_slice.
  rd16 R 12. rewrite (repr_len _ _ _ _ R). rewrite N.sub_0_r.
  rewrite subN_ok by lia. cbn [bind].
  assert (H14 : 14 <= len bs - 0) by lia.
  destruct (repr_rest bs (mk_slice bs) 0 (len bs) 14 R H14) as (pl & Epl & Rpl).
  rewrite N.sub_0_r in Epl. rewrite Epl. cbn [bind].
  unfold slice_ether_type.
  eapply res_rel_conv;
    [|apply (ether_rel bs Hok 3 5 _ (mkEtherPayload (W bs (0 + 12)) LsSlice pl) 14 (len bs) LsSlice)];
    cbn [ep_ether_type ep_slice].
  - unfold view, set_link, new. cbn [c_result sp_link sp_exts sp_net sp_transport option_map map view_link].
    rewrite (repr_win _ _ _ _ R). rewrite N.sub_0_r. reflexivity.
  - lia.
  - reflexivity.
  - exact Rpl.
  - reflexivity.
  - apply src_ok_refl.
Qed.

Lemma sll_nonstandard_eq v : LinuxSll.nonstandard v = sll_nonstandard v.
Proof. reflexivity. Qed.

Theorem from_linux_sll_rel bs :
  bytes_ok bs -> res_rel (vres_of (SlicedPacket.from_linux_sll bs)) (wire_linux_sll bs).
Proof.
  intros Hok. unfold SlicedPacket.from_linux_sll, wire_linux_sll, slice_linux_sll, n_bs.
  pose proof (repr_whole bs) as R.
  unfold LinuxSll.from_slice. rewrite (repr_len _ _ _ _ R). rewrite N.sub_0_r.
  destruct (len bs <? 16) eqn:E16; [cbn; len_rel_tac|].
  destruct (16 <=? len bs) eqn:E16'; [|lia]. cbn [bind].
  pose proof (repr_sub bs (mk_slice bs) 0 (len bs) 0 16 R ltac:(lia)) as Rh.
  rewrite N.add_0_r, drop0 in Rh. cbn [fst snd mk_slice] in *.
  change (fst (mk_slice bs)) with 0. change (snd (mk_slice bs)) with bs.
  set (h16 := (0, take 16 bs)) in *.
  unfold LinuxSll.header_from_slice. rewrite (repr_len _ _ _ _ Rh).
  replace (0 + 16 - 0) with 16 by lia. cbn [N.ltb N.compare Pos.compare Pos.compare_cont].
  change (16 <? 16) with false. cbv iota.
  rd16 Rh 0. rd16 Rh 2. rd16 Rh 14. rewrite !N.add_0_l.
  unfold LinuxSll.packet_type_try_from.
  destruct (W bs 0 <=? 7) eqn:Ept.
  2:{ assert ((7 <? W bs 0) = true) as -> by lia. reflexivity. }
  assert ((7 <? W bs 0) = false) as -> by lia. cbn [bind].
  unfold LinuxSll.protocol_type_try_from, LinuxSll.ARPHRD_NETLINK, LinuxSll.ARPHRD_IPGRE,
    LinuxSll.ARPHRD_RADIOTAP, LinuxSll.ARPHRD_FRAD, LinuxSll.ARPHRD_ETHERNET, sll_hw_supported.
  (* the header sub-slice and the payload *)
  assert (Hsub : subU h16 0 16 = Ok h16).
  { rewrite subU_eq by (rewrite (repr_len _ _ _ _ Rh); lia).
    subst h16. cbn [fst snd]. rewrite drop0. f_equal. f_equal.
    unfold take. rewrite firstn_firstn. f_equal. }
  assert (H16 : 16 <= len bs - 0) by lia.
  destruct (repr_rest bs (mk_slice bs) 0 (len bs) 16 R H16) as (pl & Epl & Rpl).
  rewrite N.sub_0_r in Epl.
  assert (Tail : forall (pt : sll_protocol_type),
     LinuxSll.protocol_type h16 = Ok pt ->
     res_rel
       (vres_of
          (let* r := map_len_err (fun e => le_add_offset e (c_offset new)) (Ok (h16, mk_slice bs)) in
           let '(h, whole) := r in
           let* pt := LinuxSll.protocol_type h in
           let* pl := LinuxSll.payload_slice whole in
           let c' := set_link new (c_offset new + 16) (LkLinuxSll h whole) in
           match pt with
           | SllEtherType et => slice_ether_type c' (mkEtherPayload et LsSlice pl)
           | _ => Ok (c_result c')
           end))
       (match pt with
        | SllEtherType et =>
            wire_ether bs 3 (mkVPacket (Some (VLinuxSll (0, 16) (0, len bs))) [] None None)
              et LsSlice 16 (len bs)
        | _ => VOk (mkVPacket (Some (VLinuxSll (0, 16) (0, len bs))) [] None None)
        end)).
  { intros pt Hpt. cbn [map_len_err bind]. rewrite Hpt. cbn [bind].
    unfold LinuxSll.payload_slice. rewrite (repr_len _ _ _ _ R). rewrite N.sub_0_r.
    rewrite subN_ok by lia. cbn [bind]. rewrite Epl. cbn [bind].
    assert (Vl : view (c_result (set_link new (c_offset new + 16) (LkLinuxSll h16 (mk_slice bs))))
                 = mkVPacket (Some (VLinuxSll (0, 16) (0, len bs))) [] None None).
    { unfold view, set_link, new.
      cbn [c_result sp_link sp_exts sp_net sp_transport option_map map view_link].
      rewrite (repr_win _ _ _ _ R), (repr_win _ _ _ _ Rh). rewrite !N.sub_0_r, N.add_0_l.
      reflexivity. }
    destruct pt; try (cbn [vres_of]; rewrite Vl; reflexivity).
    unfold slice_ether_type.
    eapply res_rel_conv;
      [|apply (ether_rel bs Hok 3 5 _ (mkEtherPayload v LsSlice pl) 16 (len bs) LsSlice)];
      cbn [ep_ether_type ep_slice].
    - rewrite Vl. reflexivity.
    - lia.
    - reflexivity.
    - exact Rpl.
    - reflexivity.
    - apply src_ok_refl. }
  unfold LinuxSll.protocol_type in Tail.
  rewrite (repr_rd16 bs h16 0 (0 + 16) 2 Rh) in Tail by lia.
  rewrite (repr_rd16 bs h16 0 (0 + 16) 14 Rh) in Tail by lia.
  rewrite !N.add_0_l in Tail. cbn [bind] in Tail.
  unfold LinuxSll.protocol_type_try_from, LinuxSll.ARPHRD_NETLINK, LinuxSll.ARPHRD_IPGRE,
    LinuxSll.ARPHRD_RADIOTAP, LinuxSll.ARPHRD_FRAD, LinuxSll.ARPHRD_ETHERNET in Tail.
  destruct (W bs 2 =? 824) eqn:E1.
  { cbn [bind orb negb]. rewrite Hsub. cbn [bind].
    assert ((W bs 2 =? 1) = false) as -> by lia. cbn [andb].
    exact (Tail _ eq_refl). }
  destruct (W bs 2 =? 778) eqn:E2.
  { cbn [bind orb negb]. rewrite Hsub. cbn [bind].
    assert ((W bs 2 =? 1) = false) as -> by lia. cbn [andb].
    exact (Tail _ eq_refl). }
  destruct (W bs 2 =? 803) eqn:E3.
  { cbn [bind orb negb]. rewrite Hsub. cbn [bind].
    assert ((W bs 2 =? 1) = false) as -> by lia. cbn [andb].
    exact (Tail _ eq_refl). }
  destruct (W bs 2 =? 770) eqn:E4.
  { cbn [bind orb negb]. rewrite Hsub. cbn [bind].
    assert ((W bs 2 =? 1) = false) as -> by lia. cbn [andb].
    exact (Tail _ eq_refl). }
  destruct (W bs 2 =? 1) eqn:E5.
  { cbn [orb negb andb].
    change (LinuxSll.nonstandard (W bs 14)) with (sll_nonstandard (W bs 14)) in *.
    destruct (sll_nonstandard (W bs 14)) eqn:En; cbn [bind negb]; rewrite Hsub; cbn [bind];
      exact (Tail _ eq_refl). }
  cbn [orb negb bind]. reflexivity.
Qed.

(* ---- corollaries ----------------------------------------------------------- *)
(* C03 projection: accepted packets equal; rejections agree on the cause *)
Definition c03_rel (m s : vres) : Prop :=
  match m, s with
  | VOk a, VOk b => a = b
  | VErr (EContent a), VErr (EContent b) => a = b
  | VErr (ELen a), VErr (ELen b) =>
      le_layer a = le_layer b /\ le_required a = le_required b /\ le_len a = le_len b
  | _, _ => False
  end.

Lemma res_rel_c03 m s : res_rel m s -> c03_rel m s.
Proof.
  destruct m as [a|[a|a]|a], s as [b|[b|b]|b]; cbn; auto.
  intros (H1 & H2 & H3 & _). auto.
Qed.

Lemma res_rel_no_bug m s : res_rel m s -> forall b, m <> VBug b.
Proof. destruct m as [a|[a|a]|a]; cbn; intros H b; try discriminate. destruct H. Qed.

Lemma vres_of_bug r b : vres_of r = VBug b -> r = Bug b.
Proof. destruct r; cbn; intros H; try discriminate. now injection H as ->. Qed.

(* C07: a reported length error is the specification's (truthful) one, except
   possibly for the length source, which is then "slice" or in the F7 class *)
Definition c07_truthful (m s : vres) : Prop :=
  match m with
  | VErr (ELen e) =>
      exists se, s = VErr (ELen se) /\
                 le_layer e = le_layer se /\ le_off e = le_off se /\
                 le_len e = le_len se /\ le_required e = le_required se /\
                 (~ F7 e -> le_src e = le_src se \/ le_src e = LsSlice)
  | VErr (EContent c) => s = VErr (EContent c)
  | _ => True
  end.

Lemma res_rel_c07 m s : res_rel m s -> c07_truthful m s.
Proof.
  destruct m as [a|[a|a]|a], s as [b|[b|b]|b]; cbn; auto; try contradiction.
  - intros (H1 & H2 & H3 & H4 & H5). exists b. repeat split; auto. tauto.
  - now intros ->.
Qed.

Theorem strict_never_bug bs et b : bytes_ok bs ->
  SlicedPacket.from_ethernet bs <> Bug b /\ SlicedPacket.from_linux_sll bs <> Bug b /\
  SlicedPacket.from_ether_type et bs <> Bug b /\ SlicedPacket.from_ip bs <> Bug b.
Proof.
  intros H. repeat split; intros E.
  - apply (res_rel_no_bug _ _ (from_ethernet_rel bs H) b). now rewrite E.
  - apply (res_rel_no_bug _ _ (from_linux_sll_rel bs H) b). now rewrite E.
  - apply (res_rel_no_bug _ _ (from_ether_type_rel bs et H) b). now rewrite E.
  - apply (res_rel_no_bug _ _ (from_ip_rel bs H) b). now rewrite E.
Qed.

Theorem strict_total bs et : bytes_ok bs ->
  (exists r, vres_of (SlicedPacket.from_ethernet bs) = r /\ forall b, r <> VBug b) /\
  (forall b, SlicedPacket.from_linux_sll bs <> Bug b) /\
  (forall b, SlicedPacket.from_ether_type et bs <> Bug b) /\
  (forall b, SlicedPacket.from_ip bs <> Bug b).
Proof.
  intros H. split; [|repeat split; intros b; apply (strict_never_bug bs et b H)].
  eexists. split; [reflexivity|]. intros b. apply (res_rel_no_bug _ _ (from_ethernet_rel bs H)).
Qed.
