(* Parse/Fields2.v -- C03, DERIVED and TYPED accessor values of a strict slicing result
   (the accessors that Parse/Fields.v does not list: values computed from several raw
   fields, sub-windows, payload descriptors).

   Spec  (`spec_fields2 bs v`): per layer of the observer's view `v` the list of
          (tag, value) the formats prescribe, defined from the RFC / IEEE fields at the
          layer's ABSOLUTE position (readers `B bs i` / `W bs i` of Parse/WireSpec.v, bit
          ranges `bits` / `flag` of Parse/Fields.v in the RFC numbering):
            MACsec   payload type from the E and C bits, the ether type behind the SecTAG
                     (behind the SCI when SC is set) iff E = C = 0, header length
                     6 + (SC ? 8 : 0) + (E = C = 0 ? 2 : 0), expected payload length from SL;
            IPv4     payload length = total length - IHL*4, "fragmenting" = MF or offset <> 0;
            IPv6     DSCP = upper 6 / ECN = lower 2 bits of the traffic class;
            fragment header: "fragmenting" = M or offset <> 0;
            SLL      sender address = the first min(length field, 8) octets of the field;
            payload / header windows = the window behind / of the header, cut the way
                     `nested` of Parse/WireNested.v says (end of the enclosing data, or the
                     position the layer's own length field names);
            IP payload descriptor: protocol number (`chain_end` of Parse/WireDesc.v for IPv6),
                     fragmentation flag, length source, window;
            UDP      length source: the UDP length field unless it is 0;
            TCP      header length = data offset * 4; ICMPv4 header length 20 for
                     timestamp / timestamp reply (type 13 / 14, code 0), otherwise 8.
   Model (`fields2_of_packet p`): the same list obtained through the ACCESSOR models of
          Parse/Access.v applied to the slices stored in the strict result `p`; a window is
          the (pointer offset, length) of the returned sub-slice.
   No proofs here (Parse/Fields2Proofs.v). *)
From EP Require BitFields.Spec.
From EP Require Import Base.Bytes Parse.Types Parse.Slices Parse.Cursor Parse.View
  Parse.WireSpec Parse.WireSpecFacts Parse.WireNested Parse.WireDesc Parse.Access Parse.Fields.

Local Open Scope N_scope.

(* ---- tags and values (what runner and harness print) ------------------------------ *)
Inductive dtag :=
| Dfcs | Dheader | Dpayload | Dsender_address
| Dis_unmodified | Dptype | Dptype_ether_type | Dnext_ether_type | Dheader_len
| Dexpected_payload_len
| Dsender_hw | Dsender_proto | Dtarget_hw | Dtarget_proto
| Dpayload_len | Dis_fragmenting_payload
| Dpl_ip_number | Dpl_fragmented | Dpl_len_source | Dpl_window
| Ddscp | Decn
| Dpayload_len_source.

Inductive dval :=
| DvN (n : N)                     (* a number *)
| DvB (b : bool)                  (* a flag *)
| DvWin (w : window)              (* a sub-slice: absolute offset, length *)
| DvOptN (o : option N)           (* an optional number *)
| DvOptBytes (o : option bytes)   (* optional octets *)
| DvSrc (s : len_source).         (* a length source *)

Definition dl := list (dtag * dval).
Definition dlayers := list (ltag * dl).

(* ============================================================================
   SPECIFICATION
   ============================================================================ *)
Section FieldSpec2.
  Variable bs : bytes.
  Local Notation B := (WireSpec.B bs).
  Local Notation W := (WireSpec.W bs).
  Local Notation bits := (Fields.bits bs).
  Local Notation flag := (Fields.flag bs).

  (* Ethernet II frame handed over without frame check sequence: 14 octet header, the rest
     is payload *)
  Definition eth_spec2 (w : window) : dl :=
    [(Dfcs, DvOptBytes None); (Dheader, DvWin (fst w, 14)); (Dpayload, DvWin (fst w + 14, snd w - 14))].

  (* LINKTYPE_LINUX_SLL: of the 8 octet address field at 6 only the first `address length`
     (field at 4) octets are valid; 16 octet header, the rest is payload *)
  Definition sll_spec2 (h w : window) : dl :=
    [(Dsender_address, DvWin (fst h + 6, N.min (W (fst h + 4)) 8));
     (Dpayload, DvWin (fst w + 16, snd w - 16))].

  (* IEEE 802.1Q: 4 octet tag, the rest is payload *)
  Definition vlan_spec2 (w : window) : dl :=
    [(Dheader, DvWin (fst w, 4)); (Dpayload, DvWin (fst w + 4, snd w - 4))].

  (* IEEE 802.1AE SecTAG at p: E = bit 4, C = bit 5, SC = bit 2 of the TCI octet, SL = low
     6 bits of octet 1.  Payload type: 3 encrypted (E, C), 2 encrypted-unmodified (E), 1
     modified (C), 0 unmodified -- then the SecTAG (6 octets, + 8 octets SCI when SC) is
     followed by the ether type of the user data, which the crate counts as header.
     Expected payload length: SL = 0 says nothing; otherwise SL octets follow the SecTAG,
     2 of them the ether type of an unmodified frame *)
  Definition macsec_spec2 (p : N) : dl :=
    let e := flag p 1 4 in
    let c := flag p 1 5 in
    let sc := flag p 1 2 in
    let sl := bits (p + 1) 1 2 6 in
    let unmod := negb e && negb c in
    let et := W (p + 6 + (if sc then 8 else 0)) in
    [(Dis_unmodified, DvB unmod);
     (Dptype, DvN (if e then (if c then 3 else 2) else if c then 1 else 0));
     (Dptype_ether_type, DvOptN (if unmod then Some et else None));
     (Dnext_ether_type, DvOptN (if unmod then Some et else None));
     (Dheader_len, DvN (6 + (if sc then 8 else 0) + (if unmod then 2 else 0)));
     (Dexpected_payload_len,
      DvOptN (if sl =? 0 then None
              else if unmod then (if sl <? 2 then None else Some (sl - 2))
              else Some sl))].

  (* RFC 826: the four addresses follow the 8 fixed octets: hln, pln, hln, pln octets *)
  Definition arp_spec2 (p : N) : dl :=
    let hln := B (p + 4) in
    let pln := B (p + 5) in
    [(Dsender_hw, DvWin (p + 8, hln)); (Dsender_proto, DvWin (p + 8 + hln, pln));
     (Dtarget_hw, DvWin (p + 8 + hln + pln, hln));
     (Dtarget_proto, DvWin (p + 8 + hln + pln + hln, pln))].

  (* RFC 791: the payload is fragmented iff MF is set or the fragment offset is not 0 *)
  Definition ipv4_frag_spec (p : N) : bool :=
    flag (p + 6) 2 2 || negb (bits (p + 6) 2 3 13 =? 0).

  (* IPv4 header window h, optional authentication header window a directly behind it:
     payload length = total length - IHL*4; the payload starts behind the last header and
     ends at p + total length; its protocol number is the protocol octet, or the next-header
     octet of the authentication header *)
  Definition ipv4_spec2 (h : window) (a : option window) : dl :=
    let p := fst h in
    let start := match a with Some w => fst w + snd w | None => fst h + snd h end in
    [(Dpayload_len, DvN (W (p + 2) - bits p 1 4 4 * 4));
     (Dis_fragmenting_payload, DvB (ipv4_frag_spec p));
     (Dpl_ip_number, DvN (match a with Some w => B (fst w) | None => B (p + 9) end));
     (Dpl_fragmented, DvB (ipv4_frag_spec p));
     (Dpl_len_source, DvSrc LsIpv4HeaderTotalLen);
     (Dpl_window, DvWin (start, p + W (p + 2) - start))].

  (* RFC 8200 4.5: fragment header at pos: M = bit 15, offset = bits 0..12 of the word at 2 *)
  Definition frag_fragments_spec (pos : N) : bool :=
    flag (pos + 2) 2 15 || negb (bits (pos + 2) 2 0 13 =? 0).

  (* the walk of Parse/WireDesc.v `chain_end` with the fragment header read as bit ranges *)
  Fixpoint chain_end_b (fuel : nat) (nh pos lim : N) (fr : bool) : N * bool :=
    match fuel with
    | O => (nh, fr)
    | S f =>
        if lim <=? pos then (nh, fr)
        else if (nh =? 0) || (nh =? 43) || (nh =? 60) then
          chain_end_b f (B pos) (pos + (B (pos + 1) + 1) * 8) lim fr
        else if nh =? 44 then
          chain_end_b f (B pos) (pos + 8) lim (fr || frag_fragments_spec pos)
        else if nh =? 51 then
          chain_end_b f (B pos) (pos + (B (pos + 1) + 2) * 4) lim fr
        else (nh, fr)
    end.

  (* IPv6 header window h, extension window x directly behind it, `cend` = end of the data
     available to the IPv6 packet (the enclosing layer's payload): DSCP / ECN (RFC 2474 /
     3168) = bits 4..9 / 10..11 of the first two octets; the payload starts behind the
     extension headers and ends at p + 40 + payload length, or at `cend` when that field is
     0 -- then (and when there is anything behind the header) the length source is the
     slice *)
  Definition ipv6_spec2 (h x : window) (cend : N) : dl :=
    let p := fst h in
    let ne := chain_end_b (S (N.to_nat (snd x))) (B (p + 6)) (fst x) (fst x + snd x) false in
    let pend := if W (p + 4) =? 0 then cend else p + 40 + W (p + 4) in
    [(Ddscp, DvN (bits p 2 4 6)); (Decn, DvN (bits p 2 10 2));
     (Dpl_ip_number, DvN (fst ne)); (Dpl_fragmented, DvB (snd ne));
     (Dpl_len_source,
      DvSrc (if (W (p + 4) =? 0) && (p + 40 <? cend) then LsSlice else LsIpv6HeaderPayloadLen));
     (Dpl_window, DvWin (fst x + snd x, pend - (fst x + snd x)))].

  (* per fragment header of the extension window (same walk as Fields.chain_spec) *)
  Fixpoint chain_spec2 (fuel : nat) (nh pos lim : N) : dlayers :=
    match fuel with
    | O => []
    | S f =>
        if lim <=? pos then []
        else if (nh =? 0) || (nh =? 43) || (nh =? 60) then
          chain_spec2 f (B pos) (pos + (B (pos + 1) + 1) * 8) lim
        else if nh =? 44 then
          (LFragment, [(Dis_fragmenting_payload, DvB (frag_fragments_spec pos))]) ::
          chain_spec2 f (B pos) (pos + 8) lim
        else if nh =? 51 then
          chain_spec2 f (B pos) (pos + (B (pos + 1) + 2) * 4) lim
        else []
    end.

  (* RFC 768: 8 octet header; the end of the datagram comes from the length field unless
     that is 0 (then from the enclosing data) *)
  Definition udp_spec2 (w : window) : dl :=
    [(Dheader, DvWin (fst w, 8)); (Dpayload, DvWin (fst w + 8, snd w - 8));
     (Dpayload_len_source, DvSrc (if W (fst w + 4) =? 0 then LsSlice else LsUdpHeaderLen))].

  (* RFC 9293: header length = data offset (bits 0..3 of octet 12) in 32 bit words *)
  Definition tcp_spec2 (w : window) : dl :=
    let hl := bits (fst w + 12) 1 0 4 * 4 in
    [(Dheader_len, DvN hl); (Dheader, DvWin (fst w, hl)); (Dpayload, DvWin (fst w + hl, snd w - hl))].

  (* RFC 792: timestamp / timestamp reply (type 13 / 14, code 0) are 20 octet messages
     without payload, every other message has an 8 octet header *)
  Definition icmp4_spec2 (w : window) : dl :=
    let p := fst w in
    let hl := if ((B p =? 13) || (B p =? 14)) && (B (p + 1) =? 0) then 20 else 8 in
    [(Dheader_len, DvN hl); (Dpayload, DvWin (p + hl, snd w - hl))].

  (* RFC 4443: 8 octet header *)
  Definition icmp6_spec2 (w : window) : dl :=
    [(Dheader_len, DvN 8); (Dpayload, DvWin (fst w + 8, snd w - 8))].

  (* ---- a whole view ------------------------------------------------------------- *)
  Definition spec_link2 (l : vlink) : dlayers :=
    match l with
    | VEthernet2 w => [(LEth, eth_spec2 w)]
    | VLinuxSll h w => [(LSll, sll_spec2 h w)]
    | VEtherPayload _ => []
    end.
  Definition spec_ext2 (x : vlink_ext) : ltag * dl :=
    match x with
    | VVlan w => (LVlan, vlan_spec2 w)
    | VMacsec h _ => (LMacsec, macsec_spec2 (fst h))
    end.
  (* cend: end of the data available to the network layer *)
  Definition spec_net2 (cend : N) (n : vnet) : dlayers :=
    match n with
    | VIpv4 h a _ => [(LIpv4, ipv4_spec2 h a)]
    | VIpv6 h _ _ x _ =>
        (LIpv6, ipv6_spec2 h x cend) ::
        chain_spec2 (S (N.to_nat (snd x))) (B (fst h + 6)) (fst x) (fst x + snd x)
    | VArp w => [(LArp, arp_spec2 (fst w))]
    end.
  Definition spec_tr2 (t : vtransport) : dlayers :=
    match t with
    | VUdp w => [(LUdp, udp_spec2 w)]
    | VTcp _ w => [(LTcp, tcp_spec2 w)]
    | VIcmpv4 w => [(LIcmp4, icmp4_spec2 w)]
    | VIcmpv6 w => [(LIcmp6, icmp6_spec2 w)]
    end.
  Definition dopt {A} (f : A -> dlayers) (o : option A) : dlayers :=
    match o with Some a => f a | None => [] end.
  (* the data available to the network layer: what the link layer and the link extensions
     leave (WireNested: link_payload, ext_payload, exts_final) *)
  Definition net_cur (v : vpacket) : window :=
    exts_final (link_payload bs (v_link v)) (v_exts v).
  Definition spec_fields2 (v : vpacket) : dlayers :=
    dopt spec_link2 (v_link v) ++ map spec_ext2 (v_exts v)
    ++ dopt (spec_net2 (wend (net_cur v))) (v_net v) ++ dopt spec_tr2 (v_transport v).
End FieldSpec2.

(* ============================================================================
   MODEL: the accessors of Parse/Access.v on the stored slices
   ============================================================================ *)
Fixpoint flatM {A C} (f : A -> res (list C)) (l : list A) : res (list C) :=
  match l with
  | [] => Ok []
  | x :: r => let* y := f x in let* ys := flatM f r in Ok (y ++ ys)
  end.

(* Ethernet2Slice (from_slice_without_fcs): fcs(), header_slice(), payload_slice() *)
Definition eth_fields2 (s : slice) : res dl :=
  let e := mkEth2 0 s in
  let* f := Ethernet2A.fcs e in
  let* h := Ethernet2A.header_slice e in
  let* p := Ethernet2A.payload_slice e in
  Ok [(Dfcs, DvOptBytes f); (Dheader, DvWin (win_of h)); (Dpayload, DvWin (win_of p))].

(* LinuxSllSlice: sender_address() (of the header slice), payload_slice() *)
Definition sll_fields2 (h w : slice) : res dl :=
  let* a := LinuxSllHeaderA.sender_address h in
  let* p := LinuxSllA.payload_slice (h, w) in
  Ok [(Dsender_address, DvWin (win_of a)); (Dpayload, DvWin (win_of p))].

Definition vlan_fields2 (s : slice) : res dl :=
  let* h := SingleVlanA.header_slice s in
  let* p := SingleVlanA.payload_slice s in
  Ok [(Dheader, DvWin (win_of h)); (Dpayload, DvWin (win_of p))].

(* MacsecPType as printed: 0 Unmodified(ether type), 1 Modified, 2 EncryptedUnmodified,
   3 Encrypted *)
Definition ptype_code (t : macsec_ptype) : N :=
  match t with PtUnmodified _ => 0 | PtModified => 1 | PtEncryptedUnmodified => 2 | PtEncrypted => 3 end.
Definition ptype_et (t : macsec_ptype) : option N :=
  match t with PtUnmodified e => Some e | _ => None end.

(* MacsecHeaderSlice: is_unmodified(), ptype(), next_ether_type(), header_len(),
   expected_payload_len() *)
Definition macsec_fields2 (h : slice) : res dl :=
  let* u := MacsecHeaderA.is_unmodified h in
  let* t := MacsecHeaderA.ptype h in
  let* n := MacsecHeaderA.next_ether_type h in
  let* l := MacsecHeaderA.header_len h in
  let* e := MacsecHeaderA.expected_payload_len h in
  Ok [(Dis_unmodified, DvB u); (Dptype, DvN (ptype_code t)); (Dptype_ether_type, DvOptN (ptype_et t));
      (Dnext_ether_type, DvOptN n); (Dheader_len, DvN l); (Dexpected_payload_len, DvOptN e)].

(* ArpPacketSlice: the four address sub-slices as windows *)
Definition arp_fields2 (a : slice) : res dl :=
  let* sh := ArpPacketA.sender_hw_addr a in
  let* sp := ArpPacketA.sender_protocol_addr a in
  let* th := ArpPacketA.target_hw_addr a in
  let* tp := ArpPacketA.target_protocol_addr a in
  Ok [(Dsender_hw, DvWin (win_of sh)); (Dsender_proto, DvWin (win_of sp));
      (Dtarget_hw, DvWin (win_of th)); (Dtarget_proto, DvWin (win_of tp))].

(* IpPayloadSlice (public fields ip_number, fragmented, len_source, payload) *)
Definition ipp_fields2 (p : ip_payload) : dl :=
  [(Dpl_ip_number, DvN (ipp_number p)); (Dpl_fragmented, DvB (ipp_fragmented p));
   (Dpl_len_source, DvSrc (ipp_src p)); (Dpl_window, DvWin (win_of (ipp_slice p)))].

(* Ipv4HeaderSlice: payload_len() (a Result), is_fragmenting_payload(); Ipv4Slice: payload() *)
Definition ipv4_fields2 (v : ipv4_slice) : res dl :=
  let* pl := Ipv4HeaderA.payload_len (v4_header v) in
  let* fr := Ipv4HeaderA.is_fragmenting_payload (v4_header v) in
  Ok ([(Dpayload_len, DvN pl); (Dis_fragmenting_payload, DvB fr)] ++ ipp_fields2 (v4_payload v)).

(* Ipv6HeaderSlice: dscp(), ecn(); Ipv6Slice: payload() *)
Definition ipv6_fields2 (v : ipv6_slice) : res dl :=
  let* d := Ipv6HeaderA.dscp (v6_header v) in
  let* e := Ipv6HeaderA.ecn (v6_header v) in
  Ok ([(Ddscp, DvN d); (Decn, DvN e)] ++ ipp_fields2 (v6_payload v)).

(* Ipv6FragmentHeaderSlice::is_fragmenting_payload() of every fragment header the
   extension iterator yields *)
Definition item_fields2 (x : ext_item) : res dlayers :=
  match x with
  | XFragment s =>
      let* f := Ipv6FragmentHeaderA.is_fragmenting_payload s in
      Ok [(LFragment, [(Dis_fragmenting_payload, DvB f)])]
  | _ => Ok []
  end.

(* UdpSlice: header_slice(), payload(), payload_len_source() *)
Definition udp_fields2 (s : slice) : res dl :=
  let* h := UdpA.header_slice s in
  let* p := UdpA.payload s in
  let* l := UdpA.payload_len_source s in
  Ok [(Dheader, DvWin (win_of h)); (Dpayload, DvWin (win_of p)); (Dpayload_len_source, DvSrc l)].

(* TcpSlice::header_len() returns the stored field *)
Definition tcp_header_len (x : N * slice) : res N := Ok (fst x).
(* TcpSlice: header_len(), header_slice(), payload() *)
Definition tcp_fields2 (x : N * slice) : res dl :=
  let* l := tcp_header_len x in
  let* h := TcpSliceA.header_slice x in
  let* p := TcpSliceA.payload x in
  Ok [(Dheader_len, DvN l); (Dheader, DvWin (win_of h)); (Dpayload, DvWin (win_of p))].

(* Icmpv4Slice: header_len(), payload() *)
Definition icmp4_fields2 (s : slice) : res dl :=
  let* l := Icmpv4A.header_len s in
  let* p := Icmpv4A.payload s in
  Ok [(Dheader_len, DvN l); (Dpayload, DvWin (win_of p))].

(* Icmpv6Slice::header_len() is the constant 8 *)
Definition icmp6_header_len (s : slice) : res N := Ok 8.
Definition icmp6_fields2 (s : slice) : res dl :=
  let* l := icmp6_header_len s in
  let* p := Icmpv6A.payload s in
  Ok [(Dheader_len, DvN l); (Dpayload, DvWin (win_of p))].

(* ---- a whole SlicedPacket ---------------------------------------------------------- *)
Definition link_fields2 (l : link_slice) : res dlayers :=
  match l with
  | LkEthernet2 s => let* f := eth_fields2 s in Ok [(LEth, f)]
  | LkLinuxSll h w => let* f := sll_fields2 h w in Ok [(LSll, f)]
  | LkEtherPayload _ => Ok []
  end.
Definition ext_fields2 (x : link_ext_slice) : res (ltag * dl) :=
  match x with
  | LeVlan s => let* f := vlan_fields2 s in Ok (LVlan, f)
  | LeMacsec m => let* f := macsec_fields2 (ms_header m) in Ok (LMacsec, f)
  end.
Definition net_fields2 (n : net_slice) : res dlayers :=
  match n with
  | NtIpv4 v => let* f := ipv4_fields2 v in Ok [(LIpv4, f)]
  | NtIpv6 v =>
      let* f := ipv6_fields2 v in
      let* items := Ipv6ExtIterA.items (v6_exts v) in
      let* xs := flatM item_fields2 items in
      Ok ((LIpv6, f) :: xs)
  | NtArp a => let* f := arp_fields2 a in Ok [(LArp, f)]
  end.
Definition transport_fields2 (t : transport_slice) : res dlayers :=
  match t with
  | TrUdp s => let* f := udp_fields2 s in Ok [(LUdp, f)]
  | TrTcp hl s => let* f := tcp_fields2 (hl, s) in Ok [(LTcp, f)]
  | TrIcmpv4 s => let* f := icmp4_fields2 s in Ok [(LIcmp4, f)]
  | TrIcmpv6 s => let* f := icmp6_fields2 s in Ok [(LIcmp6, f)]
  end.
Definition ropt2 {A} (f : A -> res dlayers) (o : option A) : res dlayers :=
  match o with Some a => f a | None => Ok [] end.

Definition fields2_of_packet (p : sliced_packet) : res dlayers :=
  let* l := ropt2 link_fields2 (sp_link p) in
  let* x := mapM ext_fields2 (sp_exts p) in
  let* n := ropt2 net_fields2 (sp_net p) in
  let* t := ropt2 transport_fields2 (sp_transport p) in
  Ok (l ++ x ++ n ++ t).
