(* Parse/FaultGeometry.v -- round 3 (agent c07sl), audit top-12 item 3 (partial): the GEOMETRY of the
   length errors of the strict reference decoder, read off the instrumented decoder `pwire_*` of
   Parse/LaxWire.v (forget pwire = wire: LaxPrefix.pwire_sound).  `pwire_X bs = PRej q (ELen e)`
   hands back the layers q decoded in front of the fault; `cur_window start q` is the data window
   those layers leave for the next layer (payload of the last link extension / of the link header /
   of the IP layer), computed from q alone.  Theorem: the fault lies AT the start of that window and
   `len` is the length of that window (or the failing header's own length field: IPv4 total length
   smaller than the header, UDP length smaller than 8); for a fault inside the network layer
   (authentication header, IPv6 extension chain) it lies INSIDE the window: start <= offset and
   offset + len <= end.  This gives "true offset" and "really available" a reading that is
   independent of the error record of WireSpec.v: positions come from the windows of q. *)
From EP Require Import Base.Bytes Parse.Types Parse.View Parse.WireSpec Parse.LaxWire.
From Coq Require Import ZArith Lia ZifyN ZifyBool List.
Import ListNotations.

Local Open Scope N_scope.

Definition ext_rest (x : vlink_ext) : option window :=
  match x with
  | VVlan (o, l) => Some (o + 4, l - 4)
  | VMacsec _ (VMpUnmodified e) => Some (vep_win e)
  | VMacsec _ (VMpModified _) => None
  end.

Definition cur_window (start : window) (q : vpacket) : option window :=
  match v_net q with
  | Some (VIpv4 _ _ ip) => Some (vip_win ip)
  | Some (VIpv6 _ _ _ _ ip) => Some (vip_win ip)
  | Some (VArp _) => None
  | None =>
      match last (map Some (v_exts q)) None with
      | None => Some start
      | Some x => ext_rest x
      end
  end.

(* faults of a header INSIDE the network layer *)
Definition inner_net (e : len_error) : bool :=
  match le_layer e with
  | LyIpAuthHeader | LyIpv6ExtHeader | LyIpv6FragHeader => true
  | _ => false
  end.

Definition at_window (bs : bytes) (w : window) (e : len_error) : Prop :=
  le_off e = fst w /\
  (le_len e = snd w \/
   (le_layer e = LyIpv4Packet /\ le_src e = LsIpv4HeaderTotalLen /\ le_len e = W bs (fst w + 2)) \/
   (le_layer e = LyUdpHeader /\ le_src e = LsUdpHeaderLen /\ le_len e = W bs (fst w + 4))).

Definition in_window (w : window) (e : len_error) : Prop :=
  fst w <= le_off e /\ le_off e + le_len e <= fst w + snd w.

Definition located (bs : bytes) (start : window) (q : vpacket) (e : len_error) : Prop :=
  exists w, cur_window start q = Some w /\ fst w + snd w <= len bs /\
    (inner_net e = false -> at_window bs w e) /\
    (inner_net e = true -> in_window w e).

Ltac crack :=
  repeat match goal with
         | |- context [if ?c then _ else _] => let E := fresh "E" in destruct c eqn:E
         end.

Section Geo.
  Variable bs : bytes.
  Variable start : window.

  Lemma transport_geo p ipn frag src pos lim e :
    wire_transport bs p ipn frag src pos lim = VErr (ELen e) ->
    inner_net e = false /\ at_window bs (pos, lim - pos) e.
  Proof.
    unfold wire_transport, wire_icmp4, wire_udp, wire_tcp, wire_icmp6, cut, bad, at_window, inner_net.
    cbv zeta. crack; intros H; try discriminate; injection H as <-; cbn; auto 8.
  Qed.

  Lemma ah_geo zero src pos lim e :
    wire_ah bs zero src pos lim = AhErr (VErr (ELen e)) ->
    inner_net e = true /\ le_off e = pos /\ le_len e = lim - pos.
  Proof.
    unfold wire_ah, cut, bad, inner_net. cbv zeta.
    crack; intros H; try discriminate; injection H as <-; cbn; auto.
  Qed.

  Lemma ah_ok_geo zero src pos lim l nx :
    wire_ah bs zero src pos lim = AhOk l nx -> l <= lim - pos.
  Proof.
    unfold wire_ah. cbv zeta. crack; intros H; try discriminate. injection H as <- _. lia.
  Qed.

  Lemma chain_geo : forall fuel src pos lim nh frag,
    pos <= lim ->
    match wire_chain bs fuel src pos lim nh frag with
    | ChErr (VErr (ELen e)) =>
        inner_net e = true /\ pos <= le_off e /\ le_off e <= lim /\ le_len e = lim - le_off e
    | ChOk e' _ _ => pos <= e' /\ e' <= lim
    | _ => True
    end.
  Proof.
    induction fuel as [|f IH]; intros src pos lim nh frag Hp; cbn [wire_chain]; [exact I|].
    cbv zeta. unfold cut, bad.
    destruct (nh =? 0); [exact I|].
    destruct ((nh =? 60) || (nh =? 43)).
    { destruct (lim - pos <? 8) eqn:E1; [cbn; repeat split; lia|].
      destruct (lim - pos <? (B bs (pos + 1) + 1) * 8) eqn:E2; [cbn; repeat split; lia|].
      specialize (IH src (pos + (B bs (pos + 1) + 1) * 8) lim (B bs pos) frag ltac:(lia)).
      destruct (wire_chain bs f src (pos + (B bs (pos + 1) + 1) * 8) lim (B bs pos) frag)
        as [e' nx fr|[v|[e|c]|b]]; auto.
      - lia.
      - destruct IH as (A & B' & C & D). repeat split; auto; lia. }
    destruct (nh =? 44).
    { destruct (lim - pos <? 8) eqn:E1; [cbn; repeat split; lia|].
      match goal with |- context [wire_chain bs f src (pos + 8) lim (B bs pos) ?fr] =>
        specialize (IH src (pos + 8) lim (B bs pos) fr ltac:(lia));
        destruct (wire_chain bs f src (pos + 8) lim (B bs pos) fr) as [e' nx fr'|[v|[e|c]|b]]; auto
      end.
      - lia.
      - destruct IH as (A & B' & C & D). repeat split; auto; lia. }
    destruct (nh =? 51).
    { destruct (wire_ah bs CeIpv6AuthZeroPayloadLen src pos lim) as [l nx|r] eqn:Ea.
      - pose proof (ah_ok_geo _ _ _ _ _ _ Ea) as Hl.
        specialize (IH src (pos + l) lim nx frag ltac:(lia)).
        destruct (wire_chain bs f src (pos + l) lim nx frag) as [e' nx' fr'|[v|[e|c]|b]]; auto.
        + lia.
        + destruct IH as (A & B' & C & D). repeat split; auto; lia.
      - destruct r as [v|[e|c]|b]; auto.
        destruct (ah_geo _ _ _ _ _ Ea) as (A & B' & C). repeat split; auto; lia. }
    lia.
  Qed.

  Lemma exts_geo fuel src pos lim nh :
    pos <= lim ->
    match wire_exts bs fuel src pos lim nh with
    | ChErr (VErr (ELen e)) =>
        inner_net e = true /\ pos <= le_off e /\ le_off e <= lim /\ le_len e = lim - le_off e
    | ChOk e' _ _ => pos <= e' /\ e' <= lim
    | _ => True
    end.
  Proof.
    intros Hp. unfold wire_exts. cbv zeta. unfold cut.
    destruct (nh =? 0); [|now apply chain_geo].
    destruct (lim - pos <? 8) eqn:E1; [cbn; repeat split; lia|].
    destruct (lim - pos <? (B bs (pos + 1) + 1) * 8) eqn:E2; [cbn; repeat split; lia|].
    pose proof (chain_geo fuel src (pos + (B bs (pos + 1) + 1) * 8) lim (B bs pos) false ltac:(lia)) as IH.
    destruct (wire_chain bs fuel src (pos + (B bs (pos + 1) + 1) * 8) lim (B bs pos) false)
      as [e' nx fr|[v|[e|c]|b]]; auto.
    - lia.
    - destruct IH as (A & B' & C & D). repeat split; auto; lia.
  Qed.

  (* the current window of p is [pos, lim) *)
  Definition here (p : vpacket) (pos lim : N) : Prop :=
    v_net p = None /\ cur_window start p = Some (pos, lim - pos) /\ pos <= lim /\ lim <= len bs.

  Lemma located_here p pos lim e :
    here p pos lim -> inner_net e = false -> at_window bs (pos, lim - pos) e -> located bs start p e.
  Proof.
    intros (_ & Hc & Hp & Hl) Hi Ha. exists (pos, lim - pos). split; [exact Hc|].
    split; [cbn; lia|]. split; [auto|]. rewrite Hi. discriminate.
  Qed.

  Lemma located_inner p pos lim e :
    here p pos lim -> inner_net e = true -> pos <= le_off e -> le_off e + le_len e <= lim ->
    located bs start p e.
  Proof.
    intros (_ & Hc & Hp & Hl) Hi H1 H2. exists (pos, lim - pos). split; [exact Hc|].
    split; [cbn; lia|]. split; [rewrite Hi; discriminate|]. intros _. split; cbn; lia.
  Qed.

  Lemma located_transport p n ip ipn frag src ppos lim' e :
    v_net (with_net p n) = Some n ->
    (n = VIpv4 (fst (vip_win ip), 0) None ip \/ True) ->
    cur_window start (with_net p n) = Some (ppos, lim' - ppos) -> ppos <= lim' -> lim' <= len bs ->
    wire_transport bs (with_net p n) ipn frag src ppos lim' = VErr (ELen e) ->
    located bs start (with_net p n) e.
  Proof.
    intros _ _ Hc Hp Hl H. destruct (transport_geo _ _ _ _ _ _ _ H) as (Hi & Ha).
    exists (ppos, lim' - ppos). split; [exact Hc|]. split; [cbn; lia|]. split; [auto|].
    rewrite Hi. discriminate.
  Qed.

  Lemma pres_of_rej p r q e : pres_of p r = PRej q e -> q = p /\ r = VErr e.
  Proof. destruct r; cbn; intros H; try discriminate. injection H as <- <-. auto. Qed.

  Lemma ptransport_geo p n ipn frag src ppos lim' q e :
    cur_window start (with_net p n) = Some (ppos, lim' - ppos) -> ppos <= lim' -> lim' <= len bs ->
    pwire_transport bs (with_net p n) ipn frag src ppos lim' = PRej q (ELen e) ->
    located bs start q e.
  Proof.
    intros Hc Hp Hl H. unfold pwire_transport in H. apply pres_of_rej in H. destruct H as (-> & H).
    destruct (transport_geo _ _ _ _ _ _ _ H) as (Hi & Ha).
    exists (ppos, lim' - ppos). split; [exact Hc|]. split; [cbn; lia|]. split; [auto|].
    rewrite Hi. discriminate.
  Qed.

  Lemma ipv4_tail_geo p pos hl lim' lim q e :
    here p pos lim -> pos + hl <= lim' -> lim' <= lim ->
    pwire_ipv4_tail bs p pos hl lim' = PRej q (ELen e) -> located bs start q e.
  Proof.
    intros Hh Hhl Hl'. pose proof Hh as (_ & _ & Hp & Hl). unfold pwire_ipv4_tail. cbv zeta.
    destruct (B bs (pos + 9) =? 51).
    - destruct (wire_ah bs CeAuthZeroPayloadLen LsIpv4HeaderTotalLen (pos + hl) lim') as [l nx|r] eqn:Ea.
      + pose proof (ah_ok_geo _ _ _ _ _ _ Ea) as Hal.
        apply ptransport_geo; [reflexivity|lia|lia].
      + intros H. apply pres_of_rej in H. destruct H as (-> & ->).
        destruct (ah_geo _ _ _ _ _ Ea) as (A & B' & C).
        apply (located_inner p pos lim e Hh A); lia.
    - apply ptransport_geo; [reflexivity|lia|lia].
  Qed.

  Lemma ipv4_body_geo p src pos lim hl q e :
    here p pos lim -> hl <= lim - pos ->
    pwire_ipv4_body bs p src pos lim hl = PRej q (ELen e) -> located bs start q e.
  Proof.
    intros Hh Hhl. pose proof Hh as (_ & _ & Hp & Hl). unfold pwire_ipv4_body. cbv zeta.
    destruct (W bs (pos + 2) <? hl) eqn:E1.
    { intros H. injection H as <- <-. apply (located_here p pos lim _ Hh); [reflexivity|].
      split; [reflexivity|]. right. left. cbn. auto. }
    destruct (lim - pos <? W bs (pos + 2)) eqn:E2.
    { intros H. injection H as <- <-. apply (located_here p pos lim _ Hh); [reflexivity|].
      split; [reflexivity|]. left. reflexivity. }
    apply (ipv4_tail_geo p pos hl (pos + W bs (pos + 2)) lim q e Hh); lia.
  Qed.

  Lemma ipv6_tail_geo p esrc psrc pos lim' lim q e :
    here p pos lim -> pos + 40 <= lim' -> lim' <= lim ->
    pwire_ipv6_tail bs p esrc psrc pos lim' = PRej q (ELen e) -> located bs start q e.
  Proof.
    intros Hh H40 Hl'. pose proof Hh as (_ & _ & Hp & Hl). unfold pwire_ipv6_tail.
    pose proof (exts_geo (S (N.to_nat (lim' - (pos + 40)))) esrc (pos + 40) lim' (B bs (pos + 6)) H40) as G.
    destruct (wire_exts bs (S (N.to_nat (lim' - (pos + 40)))) esrc (pos + 40) lim' (B bs (pos + 6)))
      as [e' nx fr|r].
    - apply ptransport_geo; [reflexivity|lia|lia].
    - intros H. apply pres_of_rej in H. destruct H as (-> & ->).
      destruct G as (A & B' & C & D). apply (located_inner p pos lim e Hh A); lia.
  Qed.

  Lemma ipv6_body_geo p src pos lim q e :
    here p pos lim -> 40 <= lim - pos ->
    pwire_ipv6_body bs p src pos lim = PRej q (ELen e) -> located bs start q e.
  Proof.
    intros Hh H40. pose proof Hh as (_ & _ & Hp & Hl). unfold pwire_ipv6_body. cbv zeta.
    destruct ((W bs (pos + 4) =? 0) && (40 <? lim - pos)) eqn:E1.
    { apply (ipv6_tail_geo p _ _ pos lim lim q e Hh); lia. }
    destruct (lim - pos <? 40 + W bs (pos + 4)) eqn:E2.
    { intros H. injection H as <- <-. apply (located_here p pos lim _ Hh); [reflexivity|].
      split; [reflexivity|]. left. reflexivity. }
    apply (ipv6_tail_geo p _ _ pos (pos + 40 + W bs (pos + 4)) lim q e Hh); lia.
  Qed.

  Ltac direct Hh :=
    let H := fresh in
    intros H; injection H as <- <-;
    apply (located_here _ _ _ _ Hh); [reflexivity|]; split; [reflexivity|left; reflexivity].

  Lemma ip_geo p src pos lim q e :
    here p pos lim -> pwire_ip bs p src pos lim = PRej q (ELen e) -> located bs start q e.
  Proof.
    intros Hh. pose proof Hh as (_ & _ & Hp & Hl). unfold pwire_ip. cbv zeta.
    destruct (lim - pos =? 0) eqn:E0; [direct Hh|].
    destruct (B bs pos / 16 =? 4).
    { destruct (B bs pos mod 16 <? 5); [discriminate|].
      destruct (lim - pos <? B bs pos mod 16 * 4) eqn:E1; [direct Hh|].
      apply (ipv4_body_geo p src pos lim _ q e Hh). lia. }
    destruct (B bs pos / 16 =? 6); [|discriminate].
    destruct (lim - pos <? 40) eqn:E1; [direct Hh|].
    apply (ipv6_body_geo p src pos lim q e Hh). lia.
  Qed.

  Lemma net_geo p et src pos lim q e :
    here p pos lim -> pwire_net bs p et src pos lim = PRej q (ELen e) -> located bs start q e.
  Proof.
    intros Hh. pose proof Hh as (_ & _ & Hp & Hl). unfold pwire_net.
    destruct (et =? 2054).
    { intros H. apply pres_of_rej in H. destruct H as (-> & H).
      unfold wire_arp, cut in H. cbv zeta in H.
      destruct (lim - pos <? 8); [injection H as <-; apply (located_here _ _ _ _ Hh); [reflexivity|];
                                  split; [reflexivity|left; reflexivity]|].
      destruct (lim - pos <? 8 + B bs (pos + 4) * 2 + B bs (pos + 5) * 2); [|discriminate].
      injection H as <-. apply (located_here _ _ _ _ Hh); [reflexivity|]. split; [reflexivity|left; reflexivity]. }
    destruct (et =? 2048).
    { unfold pwire_ipv4. cbv zeta.
      destruct (lim - pos <? 20) eqn:E1; [direct Hh|].
      destruct (negb (B bs pos / 16 =? 4)); [discriminate|].
      destruct (B bs pos mod 16 <? 5); [discriminate|].
      destruct (lim - pos <? B bs pos mod 16 * 4) eqn:E2; [direct Hh|].
      apply (ipv4_body_geo p src pos lim _ q e Hh). lia. }
    destruct (et =? 34525); [|discriminate].
    unfold pwire_ipv6. cbv zeta.
    destruct (lim - pos <? 40) eqn:E1; [direct Hh|].
    destruct (negb (B bs pos / 16 =? 6)); [discriminate|].
    apply (ipv6_body_geo p src pos lim q e Hh). lia.
  Qed.

  Lemma here_with_ext p x pos lim pos' lim' :
    here p pos lim -> ext_rest x = Some (pos', lim' - pos') -> pos' <= lim' -> lim' <= len bs ->
    here (with_ext p x) pos' lim'.
  Proof.
    intros (Hn & _ & _ & _) Hx Hp Hl. unfold here, cur_window, with_ext. cbn [v_net v_exts].
    rewrite Hn. rewrite map_app. cbn [map]. rewrite last_last. auto.
  Qed.

  Lemma ether_geo : forall cap p et src pos lim q e,
    here p pos lim -> pwire_ether bs cap p et src pos lim = PRej q (ELen e) -> located bs start q e.
  Proof.
    induction cap as [|c IH]; intros p et src pos lim q e Hh; cbn [pwire_ether]; cbv zeta.
    { destruct (is_vlan et); [discriminate|]. destruct (et =? 35045); [discriminate|now apply net_geo]. }
    pose proof Hh as (_ & _ & Hp & Hl).
    destruct (is_vlan et).
    { destruct (lim - pos <? 4) eqn:E1; [direct Hh|].
      apply IH. apply (here_with_ext p _ pos lim _ _ Hh); [|lia|lia]. cbn. f_equal. f_equal. lia. }
    destruct (et =? 35045); [|now apply net_geo].
    set (unmod := (B bs pos / 4) mod 4 =? 0).
    set (sc := negb ((B bs pos / 32) mod 2 =? 0)).
    set (sl := B bs (pos + 1) mod 64).
    set (hl := 6 + (if unmod then 2 else 0) + (if sc then 8 else 0)).
    set (body := if unmod then sl - 2 else sl).
    clearbody body hl sl sc unmod.
    destruct (lim - pos <? 6) eqn:E1; [direct Hh|].
    destruct (128 <=? B bs pos); [discriminate|].
    destruct (unmod && (sl =? 1)); [discriminate|].
    destruct (lim - pos <? hl) eqn:E2; [direct Hh|].
    destruct ((0 <? sl) && (lim - pos <? hl + body)) eqn:E3; [direct Hh|].
    destruct unmod; [|discriminate].
    apply IH. apply (here_with_ext p _ pos lim _ _ Hh).
    - cbn. f_equal.
    - destruct (0 <? sl); lia.
    - destruct (0 <? sl) eqn:Es; [|lia]. cbn [andb] in E3. lia.
  Qed.
End Geo.

Lemma here_start bs start p :
  v_net p = None -> v_exts p = [] -> fst start + snd start <= len bs ->
  here bs start p (fst start) (fst start + snd start).
Proof.
  intros Hn Hx Hl. unfold here, cur_window. rewrite Hn, Hx. cbn.
  replace (fst start + snd start - fst start) with (snd start) by lia.
  destruct start. repeat split; auto. cbn. lia.
Qed.

(* ---- the three entry points of the instrumented reference decoder ------------------------------ *)
Theorem pwire_fault_geometry bs et q e :
  (14 <= len bs -> pwire_ethernet bs = PRej q (ELen e) -> located bs (14, len bs - 14) q e) /\
  (pwire_ether_type bs et = PRej q (ELen e) -> located bs (0, len bs) q e) /\
  (pwire_from_ip bs = PRej q (ELen e) -> located bs (0, len bs) q e).
Proof.
  split; [|split].
  - intros H14. unfold pwire_ethernet, n_bs. destruct (len bs <? 14) eqn:E; [lia|].
    apply ether_geo.
    pose proof (here_start bs (14, len bs - 14)
                  (mkVPacket (Some (VEthernet2 (0, len bs))) [] None None) eq_refl eq_refl) as H.
    cbn [fst snd] in H. replace (14 + (len bs - 14)) with (len bs) in H by lia. apply H. lia.
  - unfold pwire_ether_type, n_bs. apply ether_geo.
    pose proof (here_start bs (0, len bs)
                  (mkVPacket (Some (VEtherPayload (mkVEp et LsSlice (0, len bs)))) [] None None)
                  eq_refl eq_refl) as H.
    cbn [fst snd] in H. rewrite N.add_0_l in H. apply H. lia.
  - unfold pwire_from_ip, n_bs. apply ip_geo.
    pose proof (here_start bs (0, len bs) empty_packet eq_refl eq_refl) as H.
    cbn [fst snd] in H. rewrite N.add_0_l in H. apply H. lia.
Qed.

(* ---- transfer to the model of SlicedPacket (through forget pwire = wire and the C07 relation) ---- *)
From EP Require Import Parse.Slices Parse.Cursor Parse.StrictProofs Parse.LaxPrefix.

Lemma forget_rej pw e : forget pw = VErr e -> exists q, pw = PRej q e.
Proof. destruct pw; cbn; intros H; try discriminate. injection H as ->. eauto. Qed.

Definition same_place (e se : len_error) : Prop :=
  le_layer e = le_layer se /\ le_off e = le_off se /\ le_len e = le_len se /\
  le_required e = le_required se.

Lemma geo_transfer bs start (r : res sliced_packet) pw w e :
  c07_truthful (vres_of r) w -> forget pw = w ->
  (forall q se, pw = PRej q (ELen se) -> located bs start q se) ->
  r = Err (ELen e) ->
  exists q se, pw = PRej q (ELen se) /\ same_place e se /\ located bs start q se.
Proof.
  intros T Fg G ->. cbn in T. destruct T as (se & Ew & A & B' & C & D & _).
  rewrite Ew in Fg. destruct (forget_rej pw _ Fg) as (q & Eq).
  exists q, se. split; [exact Eq|]. split; [repeat split; auto|]. now apply G.
Qed.

Theorem strict_fault_geometry bs et e : bytes_ok bs ->
  (14 <= len bs -> SlicedPacket.from_ethernet bs = Err (ELen e) ->
   exists q se, pwire_ethernet bs = PRej q (ELen se) /\ same_place e se /\
                located bs (14, len bs - 14) q se) /\
  (SlicedPacket.from_ether_type et bs = Err (ELen e) ->
   exists q se, pwire_ether_type bs et = PRej q (ELen se) /\ same_place e se /\
                located bs (0, len bs) q se) /\
  (SlicedPacket.from_ip bs = Err (ELen e) ->
   exists q se, pwire_from_ip bs = PRej q (ELen se) /\ same_place e se /\
                located bs (0, len bs) q se).
Proof.
  intros Hok. destruct (pwire_sound bs et) as (S1 & S2 & S3). split; [|split].
  - intros H14. apply (geo_transfer bs _ _ _ _ e (res_rel_c07 _ _ (from_ethernet_rel bs Hok)) S1).
    intros q se. apply (proj1 (pwire_fault_geometry bs et q se) H14).
  - apply (geo_transfer bs _ _ _ _ e (res_rel_c07 _ _ (from_ether_type_rel bs et Hok)) S2).
    intros q se. apply (proj1 (proj2 (pwire_fault_geometry bs et q se))).
  - apply (geo_transfer bs _ _ _ _ e (res_rel_c07 _ _ (from_ip_rel bs Hok)) S3).
    intros q se. apply (proj2 (proj2 (pwire_fault_geometry bs et q se))).
Qed.
