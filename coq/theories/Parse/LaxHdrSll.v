(* Parse/LaxHdrSll.v -- round 3 (C01 / C02): LaxPacketHeaders::from_linux_sll never reaches Bug.

   Pure composition, no new model: Equiv/SllStart.v `sll_start_laxheaders` (no hypothesis) writes
   LaxPacketHeaders::from_linux_sll bs as an Err, a literal Ok, or `lh_behind 16` of
   LaxPacketHeaders::from_ether_type et (drop 16 bs) -- `lh_behind` maps Bug to Bug and nothing
   else to Bug --, and Parse/HdrLaxProofs3.v `lax_hdr_never_bug` (C04_lax_headers_never_bug)
   excludes Bug for from_ether_type on every byte string of bytes. *)
From EP Require Import Base.Bytes Parse.Types Parse.Slices Parse.HdrLaxModel Equiv.HdrLaxShift Equiv.SllStart.
From EP Require Parse.HdrLaxProofs3.

Local Open Scope N_scope.

Theorem lax_headers_from_linux_sll_never_bug bs b :
  bytes_ok bs -> LaxPacketHeaders.from_linux_sll bs <> Bug b.
Proof.
  intros Hok. pose proof (sll_start_laxheaders bs) as H.
  destruct (sll_head bs) as [|c|pt|et]; try (rewrite H; discriminate).
  rewrite H.
  destruct (HdrLaxProofs3.lax_hdr_never_bug (drop 16 bs) et b (bytes_ok_drop 16 bs Hok)) as ((_ & N & _) & _).
  unfold lh_behind.
  destruct (LaxPacketHeaders.from_ether_type et (drop 16 bs)) as [q|e|b']; [discriminate|discriminate|exact N].
Qed.

(* totality reading: Ok or Err *)
Theorem lax_headers_from_linux_sll_total bs :
  bytes_ok bs ->
  (exists p, LaxPacketHeaders.from_linux_sll bs = Ok p) \/ (exists e, LaxPacketHeaders.from_linux_sll bs = Err e).
Proof.
  intros Hok. pose proof (lax_headers_from_linux_sll_never_bug bs) as N.
  destruct (LaxPacketHeaders.from_linux_sll bs) as [p|e|b]; [left; eauto|right; eauto|].
  exfalso. now apply (N b Hok).
Qed.
