(* Parse/OffsetBounds.v -- audit round 2 follow-up (C02): fixed-width overflow in the OFFSET
   bookkeeping of the strict whole-packet path.

   Parse/UsizeBounds.v checks the usize `+` / `*` on VALUES (lengths computed from u8 / u16
   fields).  What it leaves out are the sums of POSITIONS:
     * `LenError::add_offset` / `err.layer_start_offset += ..` : in Ipv4Slice::from_slice and
       the IPv4 arm of IpSlice::from_slice (+ header.slice().len()), in the extension walk of
       Ipv6ExtensionsSlice::from_slice (+ start_slice.len() - rest.len()), in
       Ipv6Slice::from_slice and the IPv6 arm of IpSlice::from_slice (+ Ipv6Header::LEN), and
       in every slicer of SlicedPacketCursor (+ self.offset);
     * `self.offset += header_len` / `+= pointer difference` / `+= result.slice().len()` of
       SlicedPacketCursor (the last one, in the four transport slicers, is a dead store that
       Parse/Cursor.v does not carry; the checked copy below has it);
     * MacsecHeaderSlice::header_len(): 6 + (8|0) + (2|0).
   Here the whole strict path is written once more -- same structure as Parse/Slices.v and
   Parse/Cursor.v, calling the checked constructors of UsizeBounds.v -- with EVERY such `+`
   checked against a usize of M values (`addC M`: Bug SITE_OVERFLOW when the exact sum is
   >= M).  Theorem `no_offset_overflow`: for every M >= 2^17 and every byte string bs with
   len bs < M (a real slice has len <= isize::MAX < M / 2), the four checked entry points ARE
   SlicedPacket.from_ethernet / from_linux_sll / from_ether_type / from_ip of Parse/Cursor.v:
   no addition overflows.  The proof carries the position invariant
       c_offset c + s_len s <= len bs        (s: the slice the cursor is about to parse)
   and, for the errors, `X.from_slice s = Err (ELen e) -> le_off e <= s_len s`. *)
From EP Require Import Base.Bytes Parse.Types Parse.Slices Parse.Cursor Parse.Repr Parse.Access
  Parse.AccessProofs Parse.CtorsTotal Parse.UsizeBounds.
From EP Require Parse.View Parse.StrictProofs.
From Coq Require Import ZArith Lia ZifyN ZifyBool.

Local Open Scope N_scope.

(* ================================================================================================ *)
(* the checked copies                                                                                *)
Section Checked.
  Variable M : N.

  (* LenError::add_offset / `err.layer_start_offset += o` *)
  Definition le_add_offsetC (e : len_error) (o : N) : res len_error :=
    let* x := addC M (le_off e) o in
    Ok (mkLenError (le_required e) (le_len e) (le_src e) (le_layer e) x).

  (* the closure of a map_err may now panic *)
  Definition fixC {A} (x : res len_error) : res A :=
    match x with Ok e => Err (ELen e) | Err y => Err y | Bug b => Bug b end.
  Definition map_len_errC {A} (f : len_error -> res len_error) (r : res A) : res A :=
    match r with
    | Err (ELen e) => fixC (f e)
    | _ => r
    end.

  (* ---- IPv4 ------------------------------------------------------------------------------------ *)
  Definition ipv4_finishC (header header_payload : slice) : res ipv4_slice :=
    let* fragmented := Ipv4HeaderSlice.is_fragmenting_payload header in
    let* proto := Ipv4HeaderSlice.protocol header in
    if proto =? IPN_AUTH then
      let* auth :=
        match auth_from_slice M header_payload with
        | Err (ELen l) =>
            fixC (le_add_offsetC (le_set_src l LsIpv4HeaderTotalLen) (s_len header))
        | r => r
        end in
      let* n := subN (s_len header_payload) (s_len auth) in
      let* payload := subU header_payload (s_len auth) n in
      let* ipn := IpAuthHeaderSlice.next_header auth in
      Ok (mkIpv4Slice header (Some auth)
            (mkIpPayload ipn fragmented LsIpv4HeaderTotalLen payload))
    else
      Ok (mkIpv4Slice header None
            (mkIpPayload proto fragmented LsIpv4HeaderTotalLen header_payload)).

  Definition ipv4_from_sliceC (s : slice) : res ipv4_slice :=
    let* header := ipv4_header_from_slice M s in
    let* header_total_len := Ipv4HeaderSlice.total_len header in
    if header_total_len <? s_len header then
      lerr (s_len header) header_total_len LsIpv4HeaderTotalLen LyIpv4Packet
    else if s_len s <? header_total_len then
      lerr header_total_len (s_len s) LsSlice LyIpv4Packet
    else
      let* n := subN header_total_len (s_len header) in
      let* header_payload := subU s (s_len header) n in
      ipv4_finishC header header_payload.

  (* ---- IPv6 extension walk ----------------------------------------------------------------------- *)
  Fixpoint walkC (fuel : nat) (start_len : N) (rest : slice) (next_header : N) (fragmented : bool)
    : res (slice * N * bool) :=
    match fuel with
    | O => Bug SITE_FUEL
    | S f =>
        if next_header =? IPN_HOP_BY_HOP then Err (EContent CeHopByHopNotAtStart)
        else if (next_header =? IPN_DEST_OPTIONS) || (next_header =? IPN_ROUTE) then
          let* off := subN start_len (s_len rest) in
          let* sl := map_len_errC (fun e => le_add_offsetC e off) (raw_from_slice M rest) in
          let* n := subN (s_len rest) (s_len sl) in
          let* rest' := subU rest (s_len sl) n in
          let* nh := Ipv6RawExtHeaderSlice.next_header sl in
          walkC f start_len rest' nh fragmented
        else if next_header =? IPN_FRAG then
          let* off := subN start_len (s_len rest) in
          let* sl := map_len_errC (fun e => le_add_offsetC e off) (Ipv6FragmentHeaderSlice.from_slice rest) in
          let* n := subN (s_len rest) (s_len sl) in
          let* rest' := subU rest (s_len sl) n in
          let* nh := Ipv6FragmentHeaderSlice.next_header sl in
          let* fr := Ipv6FragmentHeaderSlice.is_fragmenting_payload sl in
          walkC f start_len rest' nh (fragmented || fr)
        else if next_header =? IPN_AUTH then
          let* off := subN start_len (s_len rest) in
          let* sl :=
            match auth_from_slice M rest with
            | Err (ELen e) => fixC (le_add_offsetC e off)
            | Err (EContent _) => Err (EContent CeIpv6AuthZeroPayloadLen)
            | r => r
            end in
          let* n := subN (s_len rest) (s_len sl) in
          let* rest' := subU rest (s_len sl) n in
          let* nh := IpAuthHeaderSlice.next_header sl in
          walkC f start_len rest' nh fragmented
        else Ok (rest, next_header, fragmented)
    end.

  Definition exts_from_sliceC (start_ip_number : N) (start_slice : slice)
    : res (ipv6_exts_slice * N * slice) :=
    let* st :=
      (if IPN_HOP_BY_HOP =? start_ip_number then
         let* sl := raw_from_slice M start_slice in
         let* rest := (if s_len sl <=? s_len start_slice
                       then Ok (fst start_slice + s_len sl, drop (s_len sl) (snd start_slice))
                       else Bug SITE_INDEX) in
         let* nh := Ipv6RawExtHeaderSlice.next_header sl in
         Ok (rest, nh)
       else Ok (start_slice, start_ip_number)) in
    let '(rest0, nh0) := st in
    let* w := walkC (S (length (snd start_slice))) (s_len start_slice) rest0 nh0 false in
    let '(rest, next_header, fragmented) := w in
    let* used := subN (s_len start_slice) (s_len rest) in
    let* sl := (if used <=? s_len start_slice
                then Ok (fst start_slice, take used (snd start_slice)) else Bug SITE_INDEX) in
    Ok (mkIpv6Exts
          (if negb (s_len rest =? s_len start_slice) then Some start_ip_number else None)
          fragmented sl,
        next_header, rest).

  (* ---- IPv6 ---------------------------------------------------------------------------------------- *)
  Definition ipv6_finishC (s header : slice) : res ipv6_slice :=
    let* pl := Ipv6HeaderSlice.payload_length header in
    let* hp :=
      (if (0 =? pl) && (40 <? s_len s) then
         let* n := subN (s_len s) 40 in
         let* p := subU s 40 n in
         Ok (p, LsSlice)
       else
         let* expected_len := addC M 40 pl in
         if s_len s <? expected_len then lerr expected_len (s_len s) LsSlice LyIpv6Packet
         else
           let* p := subU s 40 pl in
           Ok (p, LsIpv6HeaderPayloadLen)) in
    let '(header_payload, src) := hp in
    let* nh := Ipv6HeaderSlice.next_header header in
    let* x :=
      match exts_from_sliceC nh header_payload with
      | Err (ELen e) => fixC (le_add_offsetC (le_set_src e src) 40)
      | r => r
      end in
    let '(exts, payload_ip_number, payload) := x in
    Ok (mkIpv6Slice header exts
          (mkIpPayload payload_ip_number (x6_fragmented exts) src payload)).

  Definition ipv6_from_sliceC (s : slice) : res ipv6_slice :=
    let* header := Ipv6HeaderSlice.from_slice s in
    ipv6_finishC s header.

  (* ---- IpSlice ----------------------------------------------------------------------------------- *)
  Definition ip_from_sliceC (s : slice) : res ip_slice :=
    if s_len s =? 0 then lerr 1 (s_len s) LsSlice LyIpHeader
    else
      let* first_byte := rdU s 0 in
      let ver := N.shiftr first_byte 4 in
      if ver =? 4 then
        let ihl := N.land first_byte 15 in
        if ihl <? 5 then Err (EContent (CeIpIhl ihl))
        else
          let* header_len := mulC M ihl 4 in
          if s_len s <? header_len then lerr header_len (s_len s) LsSlice LyIpv4Header
          else
            let* header := subU s 0 header_len in
            let* total_len := Ipv4HeaderSlice.total_len header in
            if total_len <? header_len then
              lerr header_len total_len LsIpv4HeaderTotalLen LyIpv4Packet
            else if s_len s <? total_len then
              lerr total_len (s_len s) LsSlice LyIpv4Packet
            else
              let* n := subN total_len header_len in
              let* header_payload := subU s header_len n in
              let* v := ipv4_finishC header header_payload in
              Ok (IpV4 v)
      else if ver =? 6 then
        if s_len s <? 40 then lerr 40 (s_len s) LsSlice LyIpv6Header
        else
          let* header := subU s 0 40 in
          let* v := ipv6_finishC s header in
          Ok (IpV6 v)
      else Err (EContent (CeIpUnsupportedVersion ver)).

  (* ---- SlicedPacketCursor ---------------------------------------------------------------------------- *)
  Import SlicedPacketCursor.

  (* err.layer_start_offset += self.offset; if Slice == err.len_source { .. } *)
  Definition tr_fixC (c : cursor) (e : len_error) : res len_error :=
    let* e1 := le_add_offsetC e (c_offset c) in
    Ok (match le_src e1 with
        | LsSlice => le_set_src e1 (c_src c)
        | _ => e1
        end).

  (* the four transport slicers end with `self.offset += result.slice().len()` *)
  Definition slice_icmp4C (c : cursor) (s : slice) : res sliced_packet :=
    let* r := map_len_errC (tr_fixC c) (Icmpv4Slice.from_slice s) in
    let* _ := addC M (c_offset c) (s_len r) in
    Ok (set_transport c (TrIcmpv4 r)).
  Definition slice_icmp6C (c : cursor) (s : slice) : res sliced_packet :=
    let* r := map_len_errC (tr_fixC c) (Icmpv6Slice.from_slice s) in
    let* _ := addC M (c_offset c) (s_len r) in
    Ok (set_transport c (TrIcmpv6 r)).
  Definition slice_udpC (c : cursor) (s : slice) : res sliced_packet :=
    let* r := map_len_errC (tr_fixC c) (UdpSlice.from_slice s) in
    let* _ := addC M (c_offset c) (s_len r) in
    Ok (set_transport c (TrUdp r)).
  Definition slice_tcpC (c : cursor) (s : slice) : res sliced_packet :=
    let* r := map_len_errC (tr_fixC c) (TcpSlice.from_slice s) in
    let* _ := addC M (c_offset c) (s_len (snd r)) in
    Ok (set_transport c (TrTcp (fst r) (snd r))).

  Definition slice_arpC (c : cursor) (s : slice) : res sliced_packet :=
    let* r := map_len_errC (fun e => le_add_offsetC e (c_offset c)) (arp_from_slice M s) in
    let* off := addC M (c_offset c) (s_len r) in
    let c' := set_net c off (c_src c) (NtArp r) in
    Ok (c_result c').

  Definition transport_dispatchC (c : cursor) (p : ip_payload) : res sliced_packet :=
    if ipp_fragmented p then Ok (c_result c)
    else if ipp_number p =? IPN_ICMP then slice_icmp4C c (ipp_slice p)
    else if ipp_number p =? IPN_UDP then slice_udpC c (ipp_slice p)
    else if ipp_number p =? IPN_TCP then slice_tcpC c (ipp_slice p)
    else if ipp_number p =? IPN_ICMPV6 then slice_icmp6C c (ipp_slice p)
    else Ok (c_result c).

  Definition slice_ipC (c : cursor) (s : slice) : res sliced_packet :=
    let* ip := map_len_errC (fun e => le_add_offsetC e (c_offset c)) (ip_from_sliceC s) in
    let payload := IpSlice.payload ip in
    let* d := ptr_diff (ipp_slice payload) s in
    let* off := addC M (c_offset c) d in
    let c' := set_net c off (ipp_src payload)
                (match ip with IpV4 v => NtIpv4 v | IpV6 v => NtIpv6 v end) in
    transport_dispatchC c' payload.

  Definition slice_ipv4C (c : cursor) (s : slice) : res sliced_packet :=
    let* ip := map_len_errC (fun e => le_add_offsetC e (c_offset c)) (ipv4_from_sliceC s) in
    let payload := v4_payload ip in
    let* d := ptr_diff (ipp_slice payload) s in
    let* off := addC M (c_offset c) d in
    let c' := set_net c off (ipp_src payload) (NtIpv4 ip) in
    transport_dispatchC c' payload.

  Definition slice_ipv6C (c : cursor) (s : slice) : res sliced_packet :=
    let* ip := map_len_errC (fun e => le_add_offsetC e (c_offset c)) (ipv6_from_sliceC s) in
    let payload := v6_payload ip in
    let* d := ptr_diff (ipp_slice payload) s in
    let* off := addC M (c_offset c) d in
    let c' := set_net c off (ipp_src payload) (NtIpv6 ip) in
    transport_dispatchC c' payload.

  (* MacsecHeaderSlice::header_len: 6 + if sci {8} else {0} + if unmodified {2} else {0} *)
  Definition macsec_header_lenC (h : slice) : res N :=
    let* sci := Macsec.sci_present h in
    let* un := Macsec.is_unmodified h in
    let* a := addC M 6 (if sci then 8 else 0) in
    addC M a (if un then 2 else 0).

  Fixpoint slice_ether_type_loopC (fuel : nat) (c : cursor) (ep : ether_payload)
    : res sliced_packet :=
    match fuel with
    | O => Bug SITE_FUEL
    | S f =>
        let et := ep_ether_type ep in
        if is_vlan_type et then
          if LINK_EXTS_CAP <=? len (sp_exts (c_result c)) then Ok (c_result c)
          else
            let* vlan := map_len_errC (fun e => le_add_offsetC e (c_offset c))
                           (SingleVlanSlice.from_slice (ep_slice ep)) in
            let* vp := SingleVlanSlice.payload vlan in
            let* off := addC M (c_offset c) SingleVlanSlice.header_len in
            let* c' := push_ext c off (c_src c) (LeVlan vlan) in
            slice_ether_type_loopC f c' vp
        else if et =? ET_MACSEC then
          if LINK_EXTS_CAP <=? len (sp_exts (c_result c)) then Ok (c_result c)
          else
            let* macsec := map_len_errC (fun e => le_add_offsetC e (c_offset c))
                             (macsec_from_slice M (ep_slice ep)) in
            let* hl := macsec_header_lenC (ms_header macsec) in
            let* sl := Macsec.short_len (ms_header macsec) in
            let src := if 0 <? sl then LsMacsecShortLength else c_src c in
            let* off := addC M (c_offset c) hl in
            let* c' := push_ext c off src (LeMacsec macsec) in
            match ms_payload macsec with
            | MpUnmodified e => slice_ether_type_loopC f c' e
            | MpModified _ => Ok (c_result c')
            end
        else if et =? ET_ARP then slice_arpC c (ep_slice ep)
        else if et =? ET_IPV4 then slice_ipv4C c (ep_slice ep)
        else if et =? ET_IPV6 then slice_ipv6C c (ep_slice ep)
        else Ok (c_result c)
    end.

  Definition slice_ether_typeC (c : cursor) (ep : ether_payload) : res sliced_packet :=
    slice_ether_type_loopC 5 c ep.

  Definition slice_ethernet2C (c : cursor) (s : slice) : res sliced_packet :=
    let* r := map_len_errC (fun e => le_add_offsetC e (c_offset c))
                (Ethernet2Slice.from_slice_without_fcs s) in
    let* ep := Ethernet2Slice.payload r in
    let* off := addC M (c_offset c) Ethernet2Slice.header_len in
    let c' := set_link c off (LkEthernet2 r) in
    slice_ether_typeC c' ep.

  Definition slice_linux_sllC (c : cursor) (s : slice) : res sliced_packet :=
    let* r := map_len_errC (fun e => le_add_offsetC e (c_offset c)) (LinuxSll.from_slice s) in
    let '(h, whole) := r in
    let* pt := LinuxSll.protocol_type h in
    let* pl := LinuxSll.payload_slice whole in
    let* off := addC M (c_offset c) 16 in
    let c' := set_link c off (LkLinuxSll h whole) in
    match pt with
    | SllEtherType et => slice_ether_typeC c' (mkEtherPayload et LsSlice pl)
    | _ => Ok (c_result c')
    end.

  (* SlicedPacket::from_* *)
  Definition from_ethernetC (data : bytes) : res sliced_packet :=
    slice_ethernet2C new (mk_slice data).
  Definition from_linux_sllC (data : bytes) : res sliced_packet :=
    slice_linux_sllC new (mk_slice data).
  Definition from_ether_typeC (ether_type : N) (data : bytes) : res sliced_packet :=
    let ep := mkEtherPayload ether_type LsSlice (mk_slice data) in
    slice_ether_typeC (set_link new 0 (LkEtherPayload ep)) ep.
  Definition from_ipC (data : bytes) : res sliced_packet :=
    slice_ipC new (mk_slice data).
End Checked.

(* ================================================================================================ *)
(* where the layer_start_offset of a constructor's LenError can lie                                   *)
Definition erroff {A} (r : res A) (b : N) : Prop := forall e, r = Err (ELen e) -> le_off e <= b.

Lemma eo_Ok {A} (x : A) b : erroff (Ok x) b. Proof. intros e H; discriminate. Qed.
Lemma eo_Bug {A} n b : erroff (@Bug A n) b. Proof. intros e H; discriminate. Qed.
Lemma eo_content {A} c b : erroff (@Err A (EContent c)) b. Proof. intros e H; discriminate. Qed.
Lemma eo_lerr {A} r l s y b : erroff (@lerr A r l s y) b.
Proof. intros e H. unfold lerr in H. injection H as <-. cbn. lia. Qed.
Lemma eo_mono {A} (r : res A) a b : erroff r a -> a <= b -> erroff r b.
Proof. intros H L e E. specialize (H e E). lia. Qed.

Lemma eo_bind {A B} (r : res A) (f : A -> res B) b :
  erroff r b -> (forall x, r = Ok x -> erroff (f x) b) -> erroff (bind r f) b.
Proof.
  destruct r as [x|e|n]; cbn [bind]; intros H K; [now apply K| |apply eo_Bug].
  intros e' E. apply H. injection E as ->. reflexivity.
Qed.

(* the primitives never return Err *)
Lemma eo_rdU s i b : erroff (rdU s i) b.
Proof. unfold rdU. destruct (rd (snd s) i); [apply eo_Ok|apply eo_Bug]. Qed.
Lemma eo_subN x y b : erroff (subN x y) b.
Proof. unfold subN. destruct (y <=? x); [apply eo_Ok|apply eo_Bug]. Qed.
Lemma eo_subU s k n b : erroff (subU s k n) b.
Proof. unfold subU. destruct (k + n <=? s_len s); [apply eo_Ok|apply eo_Bug]. Qed.
Lemma eo_rd16 s i b : erroff (rd16 s i) b.
Proof.
  unfold rd16. apply eo_bind; [apply eo_rdU|]. intros x _.
  apply eo_bind; [apply eo_rdU|]. intros y _. apply eo_Ok.
Qed.

Ltac eofin := first [ apply eo_Ok | apply eo_Bug | apply eo_content | apply eo_lerr
                    | apply eo_rdU | apply eo_subN | apply eo_subU | apply eo_rd16 ].
Ltac eostep :=
  match goal with
  | |- erroff (if ?c then _ else _) _ => destruct c
  | |- erroff (bind _ _) _ => apply eo_bind; [|intros ? _]
  | |- erroff (match ?x with Some _ => _ | None => _ end) _ => destruct x
  | |- erroff (let '(_, _) := ?x in _) _ => destruct x
  end.
Ltac eo := repeat (first [ eofin | eostep ]).

(* constructors whose LenErrors all carry layer_start_offset 0 *)
Lemma eo_eth2 s b : erroff (Ethernet2Slice.from_slice_without_fcs s) b.
Proof. unfold Ethernet2Slice.from_slice_without_fcs. eo. Qed.
Lemma eo_vlan s b : erroff (SingleVlanSlice.from_slice s) b.
Proof. unfold SingleVlanSlice.from_slice. eo. Qed.
Lemma eo_sllh s b : erroff (LinuxSll.header_from_slice s) b.
Proof.
  unfold LinuxSll.header_from_slice, LinuxSll.packet_type_try_from, LinuxSll.protocol_type_try_from. eo.
Qed.
Lemma eo_sll s b : erroff (LinuxSll.from_slice s) b.
Proof. unfold LinuxSll.from_slice. eo. apply eo_sllh. Qed.
Lemma eo_macsech s b : erroff (Macsec.header_from_slice s) b.
Proof. unfold Macsec.header_from_slice. cbv zeta. eo. Qed.
Lemma eo_macsec s b : erroff (Macsec.from_slice s) b.
Proof.
  unfold Macsec.from_slice, Macsec.expected_payload_len, Macsec.next_ether_type, Macsec.short_len,
    Macsec.tci_an_raw. cbv zeta.
  apply eo_bind; [apply eo_macsech|]. intros h _. eo.
Qed.
Lemma eo_arp s b : erroff (ArpPacketSlice.from_slice s) b.
Proof. unfold ArpPacketSlice.from_slice. cbv zeta. eo. Qed.
Lemma eo_ipv4h s b : erroff (Ipv4HeaderSlice.from_slice s) b.
Proof. unfold Ipv4HeaderSlice.from_slice. cbv zeta. eo. Qed.
Lemma eo_ah s b : erroff (IpAuthHeaderSlice.from_slice s) b.
Proof. unfold IpAuthHeaderSlice.from_slice. cbv zeta. eo. Qed.
Lemma eo_ipv6h s b : erroff (Ipv6HeaderSlice.from_slice s) b.
Proof. unfold Ipv6HeaderSlice.from_slice. cbv zeta. eo. Qed.
Lemma eo_raw s b : erroff (Ipv6RawExtHeaderSlice.from_slice s) b.
Proof. unfold Ipv6RawExtHeaderSlice.from_slice. cbv zeta. eo. Qed.
Lemma eo_frag s b : erroff (Ipv6FragmentHeaderSlice.from_slice s) b.
Proof. unfold Ipv6FragmentHeaderSlice.from_slice. eo. Qed.
Lemma eo_udp s b : erroff (UdpSlice.from_slice s) b.
Proof. unfold UdpSlice.from_slice, UdpSlice.header_from_slice, UdpSlice.length. eo. Qed.
Lemma eo_tcp s b : erroff (TcpSlice.from_slice s) b.
Proof. unfold TcpSlice.from_slice. cbv zeta. eo. Qed.
Lemma eo_icmp4 s b : erroff (Icmpv4Slice.from_slice s) b.
Proof. unfold Icmpv4Slice.from_slice. eo. Qed.
Lemma eo_icmp6 s b : erroff (Icmpv6Slice.from_slice s) b.
Proof. unfold Icmpv6Slice.from_slice. eo. Qed.

(* Ipv4Slice: the authentication header's error is moved behind the IPv4 header *)
Lemma eo_ipv4_finish h hp : erroff (Ipv4Slice.finish h hp) (s_len h).
Proof.
  unfold Ipv4Slice.finish, Ipv4HeaderSlice.is_fragmenting_payload, Ipv4HeaderSlice.more_fragments,
    Ipv4HeaderSlice.fragments_offset, Ipv4HeaderSlice.protocol, IpAuthHeaderSlice.next_header.
  eo.
  pose proof (eo_ah hp 0) as H.
  destruct (IpAuthHeaderSlice.from_slice hp) as [a|[e|c]|n]; eo.
  intros e' E. injection E as <-. specialize (H e eq_refl). cbn. lia.
Qed.

Lemma eo_ipv4 s : erroff (Ipv4Slice.from_slice s) (s_len s).
Proof.
  unfold Ipv4Slice.from_slice. apply eo_bind; [apply eo_ipv4h|]. intros h Eh.
  apply ipv4h_wf in Eh. destruct Eh as (_ & S). pose proof (sub_of_len _ _ S).
  unfold Ipv4HeaderSlice.total_len. eo. eapply eo_mono; [apply eo_ipv4_finish|lia].
Qed.

(* the walk: an extension header's error is moved by what has been consumed *)
Lemma eo_map_add {A} (r : res A) off b :
  erroff r 0 -> off <= b -> erroff (map_len_err (fun e => le_add_offset e off) r) b.
Proof.
  intros H L. destruct r as [x|[e|c]|n]; cbn [map_len_err]; eo.
  intros e' E. injection E as <-. specialize (H e eq_refl). cbn. lia.
Qed.

Lemma eo_walk fuel start : forall rest nh fr,
  erroff (Ipv6ExtensionsSlice.walk fuel start rest nh fr) start.
Proof.
  induction fuel as [|f IH]; intros rest nh fr; cbn [Ipv6ExtensionsSlice.walk]; [apply eo_Bug|].
  unfold Ipv6RawExtHeaderSlice.next_header, Ipv6FragmentHeaderSlice.next_header,
    IpAuthHeaderSlice.next_header.
  destruct (nh =? IPN_HOP_BY_HOP); [eo|].
  destruct ((nh =? IPN_DEST_OPTIONS) || (nh =? IPN_ROUTE)).
  { apply eo_bind; [eo|]. intros off Eo. apply subN_inv in Eo.
    apply eo_bind; [apply eo_map_add; [apply eo_raw|lia]|]. intros sl _. eo. apply IH. }
  destruct (nh =? IPN_FRAG).
  { apply eo_bind; [eo|]. intros off Eo. apply subN_inv in Eo.
    apply eo_bind; [apply eo_map_add; [apply eo_frag|lia]|]. intros sl _. eo.
    unfold Ipv6FragmentHeaderSlice.is_fragmenting_payload, Ipv6FragmentHeaderSlice.more_fragments,
      Ipv6FragmentHeaderSlice.fragment_offset. eo. apply IH. }
  destruct (nh =? IPN_AUTH); [|eo].
  apply eo_bind; [eo|]. intros off Eo. apply subN_inv in Eo.
  apply eo_bind.
  { pose proof (eo_ah rest 0) as H.
    destruct (IpAuthHeaderSlice.from_slice rest) as [a|[e|c]|n]; eo.
    intros e' E. injection E as <-. specialize (H e eq_refl). cbn. lia. }
  intros sl _. eo. apply IH.
Qed.

Lemma eo_exts nh s : erroff (Ipv6ExtensionsSlice.from_slice nh s) (s_len s).
Proof.
  unfold Ipv6ExtensionsSlice.from_slice, Ipv6RawExtHeaderSlice.next_header.
  apply eo_bind.
  { destruct (IPN_HOP_BY_HOP =? nh); eo. apply eo_raw. }
  intros (rest0, nh0) _. apply eo_bind; [apply eo_walk|]. intros ((r, x), fr) _. eo.
Qed.

(* Ipv6Slice: + Ipv6Header::LEN *)
Lemma eo_ipv6_finish s h : erroff (Ipv6Slice.finish s h) (s_len s).
Proof.
  unfold Ipv6Slice.finish, Ipv6HeaderSlice.payload_length, Ipv6HeaderSlice.next_header. cbv zeta.
  apply eo_bind; [eo|]. intros pl _.
  match goal with |- erroff (bind ?X _) _ =>
    assert (HX : erroff X (s_len s)) by eo;
    destruct X as [(hp, src)|[e|c]|n] eqn:Ehp; cbn [bind] end; eo;
    [|intros e' E; injection E as <-; exact (HX e eq_refl)].
  assert (L : 40 + s_len hp <= s_len s).
  { destruct ((0 =? pl) && (40 <? s_len s)).
    - binv Ehp n En. binv Ehp p Ep. injection Ehp as <- <-. apply subU_inv in Ep. lia.
    - destruct (s_len s <? 40 + pl); [discriminate|].
      binv Ehp p Ep. injection Ehp as <- <-. apply subU_inv in Ep. lia. }
  pose proof (eo_exts x hp) as H.
  destruct (Ipv6ExtensionsSlice.from_slice x hp) as [a|[e|c]|n]; eo.
  intros e' E. injection E as <-. specialize (H e eq_refl). cbn. lia.
Qed.

Lemma eo_ipv6 s : erroff (Ipv6Slice.from_slice s) (s_len s).
Proof. unfold Ipv6Slice.from_slice. apply eo_bind; [apply eo_ipv6h|]. intros h _. apply eo_ipv6_finish. Qed.

Lemma eo_ip s : erroff (IpSlice.from_slice s) (s_len s).
Proof.
  unfold IpSlice.from_slice, Ipv4HeaderSlice.total_len. cbv zeta.
  destruct (s_len s =? 0); [eo|]. apply eo_bind; [eo|]. intros fb _.
  destruct (N.shiftr fb 4 =? 4).
  - destruct (N.land fb 15 <? 5); [eo|]. destruct (s_len s <? N.land fb 15 * 4) eqn:C; [eo|].
    apply eo_bind; [eo|]. intros h Eh. apply subU_inv in Eh. eo.
    eapply eo_mono; [apply eo_ipv4_finish|lia].
  - eo. apply eo_ipv6_finish.
Qed.

(* ================================================================================================ *)
(* checked = unchecked                                                                              *)
Lemma bind_ext {A B} (r : res A) (f g : A -> res B) :
  (forall x, r = Ok x -> f x = g x) -> bind r f = bind r g.
Proof. destruct r as [x|e|n]; cbn [bind]; intros H; [now apply H|reflexivity|reflexivity]. Qed.

Section Proofs.
  Variable M : N.
  Hypothesis HM : 2 ^ 17 <= M.

  Lemma HM' : 131072 <= M. Proof. exact HM. Qed.

  Lemma le_add_offsetC_ok e o : le_off e + o < M -> le_add_offsetC M e o = Ok (le_add_offset e o).
  Proof. intros H. unfold le_add_offsetC. rewrite addC_ok by exact H. reflexivity. Qed.

  Lemma map_len_errC_eq {A} fC f (r : res A) :
    (forall e, r = Err (ELen e) -> fC e = Ok (f e)) -> map_len_errC fC r = map_len_err f r.
  Proof.
    intros H. destruct r as [x|[e|c]|n]; cbn [map_len_errC map_len_err]; try reflexivity.
    rewrite (H e eq_refl). reflexivity.
  Qed.

  (* the usual shape: add an offset to an error that lies at most b into the slice *)
  Lemma map_addC_eq {A} (r : res A) b o :
    erroff r b -> b + o < M ->
    map_len_errC (fun e => le_add_offsetC M e o) r = map_len_err (fun e => le_add_offset e o) r.
  Proof.
    intros H L. apply map_len_errC_eq. intros e E. apply le_add_offsetC_ok.
    specialize (H e E). lia.
  Qed.

  (* ---- IPv4 ------------------------------------------------------------------------------------ *)
  Lemma ipv4_finishC_eq h hp : s_len h < M -> bytes_ok (snd hp) ->
    ipv4_finishC M h hp = Ipv4Slice.finish h hp.
  Proof.
    intros L Hok. unfold ipv4_finishC, Ipv4Slice.finish.
    apply bind_ext. intros fr _. apply bind_ext. intros proto _.
    destruct (proto =? IPN_AUTH); [|reflexivity].
    rewrite (auth_chk M HM hp Hok).
    pose proof (eo_ah hp 0) as H.
    destruct (IpAuthHeaderSlice.from_slice hp) as [a|[e|c]|n]; try reflexivity.
    specialize (H e eq_refl).
    rewrite le_add_offsetC_ok by (cbn; lia). reflexivity.
  Qed.

  Lemma ipv4_from_sliceC_eq s : bytes_ok (snd s) -> ipv4_from_sliceC M s = Ipv4Slice.from_slice s.
  Proof.
    intros Hok. unfold ipv4_from_sliceC, Ipv4Slice.from_slice. rewrite (ipv4_header_chk M HM).
    apply bind_ext. intros h Eh. apply ipv4h_wf in Eh. destruct Eh as ((L20 & L60) & S).
    apply bind_ext. intros tl _.
    destruct (tl <? s_len h); [reflexivity|]. destruct (s_len s <? tl); [reflexivity|].
    apply bind_ext. intros n _. apply bind_ext. intros hp Ehp.
    pose proof HM'. apply ipv4_finishC_eq; [lia|]. exact (subU_bytes_ok _ _ _ _ Ehp Hok).
  Qed.

  (* ---- extension walk ---------------------------------------------------------------------------- *)
  Lemma walkC_eq fuel start : start < M -> forall rest nh fr, bytes_ok (snd rest) ->
    walkC M fuel start rest nh fr = Ipv6ExtensionsSlice.walk fuel start rest nh fr.
  Proof.
    intros LS. induction fuel as [|f IH]; intros rest nh fr Hok; [reflexivity|].
    cbn [walkC Ipv6ExtensionsSlice.walk].
    destruct (nh =? IPN_HOP_BY_HOP); [reflexivity|].
    destruct ((nh =? IPN_DEST_OPTIONS) || (nh =? IPN_ROUTE)).
    { apply bind_ext. intros off Eo. apply subN_inv in Eo.
      rewrite (raw_chk M HM rest Hok).
      rewrite (map_addC_eq _ 0 off (eo_raw rest 0)) by lia.
      apply bind_ext. intros sl _. apply bind_ext. intros n _. apply bind_ext. intros rest' Er.
      apply bind_ext. intros nh' _. apply IH. exact (subU_bytes_ok _ _ _ _ Er Hok). }
    destruct (nh =? IPN_FRAG).
    { apply bind_ext. intros off Eo. apply subN_inv in Eo.
      rewrite (map_addC_eq _ 0 off (eo_frag rest 0)) by lia.
      apply bind_ext. intros sl _. apply bind_ext. intros n _. apply bind_ext. intros rest' Er.
      apply bind_ext. intros nh' _. apply bind_ext. intros fr' _.
      apply IH. exact (subU_bytes_ok _ _ _ _ Er Hok). }
    destruct (nh =? IPN_AUTH); [|reflexivity].
    apply bind_ext. intros off Eo. apply subN_inv in Eo.
    rewrite (auth_chk M HM rest Hok).
    assert (E : match IpAuthHeaderSlice.from_slice rest with
                | Err (ELen e) => fixC (le_add_offsetC M e off)
                | Err (EContent _) => Err (EContent CeIpv6AuthZeroPayloadLen)
                | r => r
                end =
                match IpAuthHeaderSlice.from_slice rest with
                | Err (ELen e) => Err (ELen (le_add_offset e off))
                | Err (EContent _) => Err (EContent CeIpv6AuthZeroPayloadLen)
                | r => r
                end).
    { pose proof (eo_ah rest 0) as H.
      destruct (IpAuthHeaderSlice.from_slice rest) as [a|[e|c]|n]; try reflexivity.
      specialize (H e eq_refl). rewrite le_add_offsetC_ok by lia. reflexivity. }
    rewrite E. clear E.
    apply bind_ext. intros sl _. apply bind_ext. intros n _. apply bind_ext. intros rest' Er.
    apply bind_ext. intros nh' _. apply IH. exact (subU_bytes_ok _ _ _ _ Er Hok).
  Qed.

  Lemma exts_from_sliceC_eq nh s : s_len s < M -> bytes_ok (snd s) ->
    exts_from_sliceC M nh s = Ipv6ExtensionsSlice.from_slice nh s.
  Proof.
    intros L Hok. unfold exts_from_sliceC, Ipv6ExtensionsSlice.from_slice.
    rewrite (raw_chk M HM s Hok).
    match goal with |- bind ?X _ = bind ?X _ => destruct X as [(rest0, nh0)|e|n] eqn:Est; cbn [bind]; try reflexivity end.
    assert (Hr : bytes_ok (snd rest0)).
    { destruct (IPN_HOP_BY_HOP =? nh).
      - binv Est sl Esl. binv Est r Er. binv Est x Ex. injection Est as <- <-.
        destruct (s_len sl <=? s_len s); [|discriminate]. injection Er as <-. cbn [snd].
        now apply bytes_ok_drop.
      - injection Est as <- <-. exact Hok. }
    rewrite (walkC_eq _ _ L _ _ _ Hr). reflexivity.
  Qed.

  (* ---- IPv6 ---------------------------------------------------------------------------------------- *)
  Lemma ipv6_finishC_eq s h : s_len s < M -> bytes_ok (snd s) -> bytes_ok (snd h) ->
    ipv6_finishC M s h = Ipv6Slice.finish s h.
  Proof.
    intros L Hok Hh. unfold ipv6_finishC, Ipv6Slice.finish. pose proof HM' as P.
    destruct (Ipv6HeaderSlice.payload_length h) as [pl|e|b] eqn:Epl; cbn [bind]; try reflexivity.
    assert (B : pl < 65536).
    { unfold Ipv6HeaderSlice.payload_length, rd16 in Epl.
      destruct (rdU h 4) as [a|?|?] eqn:Ea; cbn [bind] in Epl; try discriminate.
      destruct (rdU h (4 + 1)) as [c|?|?] eqn:Eb; cbn [bind] in Epl; try discriminate.
      injection Epl as <-. pose proof (rdU_byte h 4 a Hh Ea). pose proof (rdU_byte h (4 + 1) c Hh Eb).
      unfold be16. lia. }
    assert (E : (if (0 =? pl) && (40 <? s_len s)
                 then let* n := subN (s_len s) 40 in let* p := subU s 40 n in Ok (p, LsSlice)
                 else let* expected_len := addC M 40 pl in
                      if s_len s <? expected_len then lerr expected_len (s_len s) LsSlice LyIpv6Packet
                      else let* p := subU s 40 pl in Ok (p, LsIpv6HeaderPayloadLen)) =
                (if (0 =? pl) && (40 <? s_len s)
                 then let* n := subN (s_len s) 40 in let* p := subU s 40 n in Ok (p, LsSlice)
                 else let expected_len := 40 + pl in
                      if s_len s <? expected_len then lerr expected_len (s_len s) LsSlice LyIpv6Packet
                      else let* p := subU s 40 pl in Ok (p, LsIpv6HeaderPayloadLen))).
    { destruct ((0 =? pl) && (40 <? s_len s)); [reflexivity|]. rewrite addC_ok by lia. reflexivity. }
    rewrite E. clear E. cbv zeta.
    match goal with |- bind ?X _ = bind ?X _ => destruct X as [(hp, src)|e|n] eqn:Ehp; cbn [bind]; try reflexivity end.
    assert (Shp : 40 + s_len hp <= s_len s /\ bytes_ok (snd hp)).
    { destruct ((0 =? pl) && (40 <? s_len s)).
      - binv Ehp n En. binv Ehp p Ep. injection Ehp as <- <-.
        split; [apply subU_inv in Ep; lia|exact (subU_bytes_ok _ _ _ _ Ep Hok)].
      - destruct (s_len s <? 40 + pl); [discriminate|].
        binv Ehp p Ep. injection Ehp as <- <-.
        split; [apply subU_inv in Ep; lia|exact (subU_bytes_ok _ _ _ _ Ep Hok)]. }
    destruct Shp as (Lhp & Hhp).
    apply bind_ext. intros nh _.
    rewrite exts_from_sliceC_eq by (auto; lia).
    pose proof (eo_exts nh hp) as H.
    destruct (Ipv6ExtensionsSlice.from_slice nh hp) as [a|[e|c]|n]; try reflexivity.
    specialize (H e eq_refl). rewrite le_add_offsetC_ok by (cbn; lia). reflexivity.
  Qed.

  Lemma ipv6_from_sliceC_eq s : s_len s < M -> bytes_ok (snd s) ->
    ipv6_from_sliceC M s = Ipv6Slice.from_slice s.
  Proof.
    intros L Hok. unfold ipv6_from_sliceC, Ipv6Slice.from_slice.
    apply bind_ext. intros h Eh. apply ipv6h_wf in Eh. destruct Eh as (_ & S).
    apply ipv6_finishC_eq; auto. exact (sub_of_bytes_ok _ _ S Hok).
  Qed.

  Lemma ip_from_sliceC_eq s : s_len s < M -> bytes_ok (snd s) ->
    ip_from_sliceC M s = IpSlice.from_slice s.
  Proof.
    intros L Hok. unfold ip_from_sliceC, IpSlice.from_slice. cbv zeta. pose proof HM' as P.
    destruct (s_len s =? 0); [reflexivity|].
    apply bind_ext. intros fb _.
    destruct (N.shiftr fb 4 =? 4).
    - destruct (N.land fb 15 <? 5); [reflexivity|].
      pose proof (land15_le fb). rewrite mulC_ok by lia. cbn [bind].
      destruct (s_len s <? N.land fb 15 * 4); [reflexivity|].
      apply bind_ext. intros h Eh. apply bind_ext. intros tl _.
      destruct (tl <? N.land fb 15 * 4); [reflexivity|]. destruct (s_len s <? tl); [reflexivity|].
      apply bind_ext. intros n _. apply bind_ext. intros hp Ehp.
      rewrite ipv4_finishC_eq; [reflexivity| |exact (subU_bytes_ok _ _ _ _ Ehp Hok)].
      apply subU_inv in Eh. lia.
    - destruct (N.shiftr fb 4 =? 6); [|reflexivity]. destruct (s_len s <? 40); [reflexivity|].
      apply bind_ext. intros h Eh.
      rewrite ipv6_finishC_eq; auto. exact (subU_bytes_ok _ _ _ _ Eh Hok).
  Qed.
End Proofs.

(* ================================================================================================ *)
(* the cursor                                                                                         *)
Section CursorProofs.
  Import SlicedPacketCursor.
  Variable M : N.
  Hypothesis HM : 2 ^ 17 <= M.
  Variable L : N.                  (* length of the input *)
  Hypothesis HL : L < M.

  (* the position invariant: what is left to parse fits behind the offset *)
  Definition fits (c : cursor) (s : slice) : Prop :=
    c_offset c + s_len s <= L /\ bytes_ok (snd s).

  Lemma tr_fixC_ok c e : le_off e + c_offset c < M -> tr_fixC M c e = Ok (tr_fix c e).
  Proof. intros H. unfold tr_fixC, tr_fix. rewrite le_add_offsetC_ok by exact H. reflexivity. Qed.

  Lemma map_trC_eq {A} c (r : res A) b :
    erroff r b -> b + c_offset c < M ->
    map_len_errC (tr_fixC M c) r = map_len_err (tr_fix c) r.
  Proof.
    intros H Lb. apply map_len_errC_eq. intros e E. apply tr_fixC_ok. specialize (H e E). lia.
  Qed.

  (* one transport slicer: constructor error at offset 0, result inside the slice *)
  Lemma transportC_eq {A} c s (ctor : res A) (ln : A -> N) (mk : A -> transport_slice) :
    fits c s -> erroff ctor 0 -> (forall r, ctor = Ok r -> ln r <= s_len s) ->
    (let* r := map_len_errC (tr_fixC M c) ctor in
     let* _ := addC M (c_offset c) (ln r) in Ok (set_transport c (mk r))) =
    (let* r := map_len_err (tr_fix c) ctor in Ok (set_transport c (mk r))).
  Proof.
    intros (F & _) E Hl. rewrite (map_trC_eq c ctor 0 E) by lia.
    apply bind_ext. intros r Er. apply map_len_err_inv in Er. specialize (Hl r Er).
    rewrite addC_ok by lia. reflexivity.
  Qed.

  Lemma slice_icmp4C_eq c s : fits c s -> slice_icmp4C M c s = slice_icmp4 c s.
  Proof.
    intros F. apply (transportC_eq c s _ (fun r => s_len r) TrIcmpv4 F (eo_icmp4 s 0)).
    intros r Er. apply icmp4_wf in Er. destruct Er as (-> & _). lia.
  Qed.
  Lemma slice_icmp6C_eq c s : fits c s -> slice_icmp6C M c s = slice_icmp6 c s.
  Proof.
    intros F. apply (transportC_eq c s _ (fun r => s_len r) TrIcmpv6 F (eo_icmp6 s 0)).
    intros r Er. apply icmp6_wf in Er. destruct Er as (-> & _). lia.
  Qed.
  Lemma slice_udpC_eq c s : fits c s -> slice_udpC M c s = slice_udp c s.
  Proof.
    intros F. apply (transportC_eq c s _ (fun r => s_len r) TrUdp F (eo_udp s 0)).
    intros r Er. apply udp_wf in Er. destruct Er as (_ & S). exact (sub_of_len _ _ S).
  Qed.
  Lemma slice_tcpC_eq c s : fits c s -> slice_tcpC M c s = slice_tcp c s.
  Proof.
    intros F.
    apply (transportC_eq c s _ (fun r => s_len (snd r)) (fun r => TrTcp (fst r) (snd r)) F (eo_tcp s 0)).
    intros r Er. apply tcp_wf in Er. destruct Er as (_ & ->). lia.
  Qed.

  Lemma transport_dispatchC_eq c p : fits c (ipp_slice p) ->
    transport_dispatchC M c p = transport_dispatch c p.
  Proof.
    intros F. unfold transport_dispatchC, transport_dispatch.
    destruct (ipp_fragmented p); [reflexivity|].
    destruct (ipp_number p =? IPN_ICMP); [now apply slice_icmp4C_eq|].
    destruct (ipp_number p =? IPN_UDP); [now apply slice_udpC_eq|].
    destruct (ipp_number p =? IPN_TCP); [now apply slice_tcpC_eq|].
    destruct (ipp_number p =? IPN_ICMPV6); [now apply slice_icmp6C_eq|]. reflexivity.
  Qed.

  Lemma slice_arpC_eq c s : fits c s -> slice_arpC M c s = slice_arp c s.
  Proof.
    intros (F & Hok). unfold slice_arpC, slice_arp. rewrite (arp_chk M HM s Hok).
    rewrite (map_addC_eq M HM _ 0 (c_offset c) (eo_arp s 0)) by lia.
    apply bind_ext. intros r Er. apply map_len_err_inv in Er. apply arp_wf in Er.
    destruct Er as (_ & S). pose proof (sub_of_len _ _ S). rewrite addC_ok by lia. reflexivity.
  Qed.

  (* the net slicers: payload window inside the slice, offset moved by the pointer difference *)
  Lemma net_tail c s p (n : net_slice) : fits c s -> sub_of (ipp_slice p) s ->
    (let* d := ptr_diff (ipp_slice p) s in
     let* off := addC M (c_offset c) d in
     transport_dispatchC M (set_net c off (ipp_src p) n) p) =
    (let* d := ptr_diff (ipp_slice p) s in
     transport_dispatch (set_net c (c_offset c + d) (ipp_src p) n) p).
  Proof.
    intros (F & Hok) S. pose proof (sub_of_inside _ _ S) as (I1 & I2).
    apply bind_ext. intros d Ed. unfold ptr_diff in Ed. apply subN_inv in Ed.
    rewrite addC_ok by lia. cbn [bind]. apply transport_dispatchC_eq.
    split; [cbn [set_net c_offset]; lia|exact (sub_of_bytes_ok _ _ S Hok)].
  Qed.

  Lemma slice_ipC_eq c s : fits c s -> slice_ipC M c s = slice_ip c s.
  Proof.
    intros F. pose proof F as (Fl & Hok). unfold slice_ipC, slice_ip.
    rewrite (ip_from_sliceC_eq M HM s) by (auto; lia).
    rewrite (map_addC_eq M HM _ (s_len s) (c_offset c) (eo_ip s)) by lia.
    apply bind_ext. intros ip Eip. apply map_len_err_inv in Eip. cbv zeta.
    apply net_tail; [exact F|]. pose proof (ip_wf _ _ Eip) as W.
    destruct ip as [v|v]; cbn [IpSlice.payload]; destruct W as (_ & _ & _ & S); exact S.
  Qed.

  Lemma slice_ipv4C_eq c s : fits c s -> slice_ipv4C M c s = slice_ipv4 c s.
  Proof.
    intros F. pose proof F as (Fl & Hok). unfold slice_ipv4C, slice_ipv4.
    rewrite (ipv4_from_sliceC_eq M HM s Hok).
    rewrite (map_addC_eq M HM _ (s_len s) (c_offset c) (eo_ipv4 s)) by lia.
    apply bind_ext. intros ip Eip. apply map_len_err_inv in Eip. cbv zeta.
    apply net_tail; [exact F|]. pose proof (ipv4_wf _ _ Eip) as (_ & _ & _ & S). exact S.
  Qed.

  Lemma slice_ipv6C_eq c s : fits c s -> slice_ipv6C M c s = slice_ipv6 c s.
  Proof.
    intros F. pose proof F as (Fl & Hok). unfold slice_ipv6C, slice_ipv6.
    rewrite (ipv6_from_sliceC_eq M HM s) by (auto; lia).
    rewrite (map_addC_eq M HM _ (s_len s) (c_offset c) (eo_ipv6 s)) by lia.
    apply bind_ext. intros ip Eip. apply map_len_err_inv in Eip. cbv zeta.
    apply net_tail; [exact F|]. pose proof (ipv6_wf _ _ Eip) as (_ & _ & _ & S). exact S.
  Qed.

  (* ---- link extensions ------------------------------------------------------------------------------ *)
  Lemma push_ext_offset c o sr x c' : push_ext c o sr x = Ok c' -> c_offset c' = o.
  Proof.
    unfold push_ext. destruct (len (sp_exts (c_result c)) <? LINK_EXTS_CAP); [|discriminate].
    intros H. injection H as <-. reflexivity.
  Qed.

  (* header_len() of an accepted MACsec header is the length of its slice *)
  Lemma macsec_header_len_is h : wf_macsech h -> Macsec.header_len h = Ok (s_len h).
  Proof.
    intros (t & E0 & Lh). unfold Macsec.header_len, Macsec.sci_present, Macsec.is_unmodified,
      Macsec.tci_an_raw. rewrite E0. cbn [bind]. change (Macsec.bit t 32) with (bitset t 32).
    f_equal. destruct (N.land t 12 =? 0), (bitset t 32); lia.
  Qed.

  Lemma macsec_header_lenC_eq h : macsec_header_lenC M h = Macsec.header_len h.
  Proof.
    unfold macsec_header_lenC, Macsec.header_len.
    apply bind_ext. intros sci _. apply bind_ext. intros un _.
    assert (P : 2 ^ 17 = 131072) by reflexivity.
    rewrite addC_ok by (destruct sci; lia). cbn [bind].
    rewrite addC_ok by (destruct sci, un; lia). reflexivity.
  Qed.

  (* header and payload of a MacsecSlice lie behind one another inside the input *)
  Lemma macsec_fit s m : Macsec.from_slice s = Ok m ->
    s_len (ms_header m) + s_len (macsec_payload_slice m) <= s_len s.
  Proof.
    unfold Macsec.from_slice. intros H. binv H header Eh. binv H epl Eepl. binv H pls Epls.
    destruct pls as (ps, src). binv H net Enet.
    assert (Sp : s_len header + s_len ps <= s_len s).
    { destruct epl as [req|].
      - destruct (s_len s <? s_len header + req); unfold lerr in Epls; [discriminate|].
        binv Epls p Ep. injection Epls as <- <-. apply subU_inv in Ep. lia.
      - binv Epls n En. binv Epls p Ep. injection Epls as <- <-. apply subU_inv in Ep. lia. }
    destruct net as [et|]; injection H as <-; unfold macsec_payload_slice; cbn; exact Sp.
  Qed.

  Lemma ether_loopC_eq fuel : forall c ep, fits c (ep_slice ep) ->
    slice_ether_type_loopC M fuel c ep = slice_ether_type_loop fuel c ep.
  Proof.
    induction fuel as [|f IH]; intros c ep F; [reflexivity|]. pose proof F as (Fl & Hok).
    cbn [slice_ether_type_loopC slice_ether_type_loop]. cbv zeta.
    destruct (is_vlan_type (ep_ether_type ep)).
    { destruct (LINK_EXTS_CAP <=? len (sp_exts (c_result c))); [reflexivity|].
      rewrite (map_addC_eq M HM _ 0 (c_offset c) (eo_vlan (ep_slice ep) 0)) by lia.
      apply bind_ext. intros vlan Ev. apply map_len_err_inv in Ev.
      pose proof (vlan_wf _ _ Ev) as (-> & Wv). unfold wf_vlan in Wv.
      apply bind_ext. intros vp Evp.
      unfold SingleVlanSlice.header_len. rewrite addC_ok by lia. cbn [bind].
      apply bind_ext. intros c' Ec'. apply IH.
      unfold SingleVlanSlice.payload in Evp. binv Evp et Eet. binv Evp pl Epl. injection Evp as <-.
      cbn [ep_slice]. unfold SingleVlanSlice.payload_slice in Epl. binv Epl n En.
      split; [rewrite (push_ext_offset _ _ _ _ _ Ec'); apply subU_inv in Epl; lia
             |exact (subU_bytes_ok _ _ _ _ Epl Hok)]. }
    destruct (ep_ether_type ep =? ET_MACSEC).
    { destruct (LINK_EXTS_CAP <=? len (sp_exts (c_result c))); [reflexivity|].
      rewrite (macsec_chk M HM _ Hok).
      rewrite (map_addC_eq M HM _ 0 (c_offset c) (eo_macsec (ep_slice ep) 0)) by lia.
      apply bind_ext. intros m Em. apply map_len_err_inv in Em.
      pose proof (macsec_wf _ _ Em) as (Wm & Sh & Sp). pose proof (macsec_fit _ _ Em) as Lm.
      rewrite macsec_header_lenC_eq. rewrite (macsec_header_len_is _ Wm). cbn [bind].
      apply bind_ext. intros sl _.
      rewrite addC_ok by lia. cbn [bind].
      apply bind_ext. intros c' Ec'. unfold macsec_payload_slice in Sp, Lm.
      destruct (ms_payload m) as [e|ps]; [|reflexivity].
      apply IH.
      split; [rewrite (push_ext_offset _ _ _ _ _ Ec'); lia|exact (sub_of_bytes_ok _ _ Sp Hok)]. }
    destruct (ep_ether_type ep =? ET_ARP); [now apply slice_arpC_eq|].
    destruct (ep_ether_type ep =? ET_IPV4); [now apply slice_ipv4C_eq|].
    destruct (ep_ether_type ep =? ET_IPV6); [now apply slice_ipv6C_eq|]. reflexivity.
  Qed.

  Lemma slice_ethernet2C_eq c s : fits c s -> slice_ethernet2C M c s = slice_ethernet2 c s.
  Proof.
    intros (Fl & Hok). unfold slice_ethernet2C, slice_ethernet2.
    rewrite (map_addC_eq M HM _ 0 (c_offset c) (eo_eth2 s 0)) by lia.
    apply bind_ext. intros r Er. apply map_len_err_inv in Er.
    pose proof (eth2_plain_wf _ _ Er) as (-> & _).
    unfold Ethernet2Slice.from_slice_without_fcs in Er.
    destruct (s_len s <? 14) eqn:C; [discriminate|].
    apply bind_ext. intros ep Eep. unfold Ethernet2Slice.header_len.
    rewrite addC_ok by lia. cbn [bind]. unfold slice_ether_typeC, slice_ether_type.
    apply ether_loopC_eq.
    unfold Ethernet2Slice.payload in Eep. binv Eep et Eet. binv Eep pl Epl. injection Eep as <-.
    cbn [ep_slice]. unfold Ethernet2Slice.payload_slice in Epl. binv Epl n En.
    split; [cbn [set_link c_offset]; apply subU_inv in Epl; lia|exact (subU_bytes_ok _ _ _ _ Epl Hok)].
  Qed.

  Lemma slice_linux_sllC_eq c s : fits c s -> slice_linux_sllC M c s = slice_linux_sll c s.
  Proof.
    intros (Fl & Hok). unfold slice_linux_sllC, slice_linux_sll.
    rewrite (map_addC_eq M HM _ 0 (c_offset c) (eo_sll s 0)) by lia.
    apply bind_ext. intros (h, whole) Er. apply map_len_err_inv in Er.
    pose proof (sll_wf _ _ Er) as ((_ & L16) & Ew & _). cbn [fst snd] in *. subst whole.
    apply bind_ext. intros pt _. apply bind_ext. intros pl Epl.
    rewrite addC_ok by lia. cbn [bind].
    destruct pt; try reflexivity.
    unfold slice_ether_typeC, slice_ether_type. apply ether_loopC_eq. cbn [ep_slice].
    unfold LinuxSll.payload_slice in Epl. binv Epl n En.
    split; [cbn [set_link c_offset]; apply subU_inv in Epl; lia|exact (subU_bytes_ok _ _ _ _ Epl Hok)].
  Qed.
End CursorProofs.

(* ================================================================================================ *)
(* summary                                                                                            *)
Theorem no_offset_overflow : forall M bs et, 2 ^ 17 <= M -> bytes_ok bs -> len bs < M ->
  from_ethernetC M bs = SlicedPacket.from_ethernet bs /\
  from_linux_sllC M bs = SlicedPacket.from_linux_sll bs /\
  from_ether_typeC M et bs = SlicedPacket.from_ether_type et bs /\
  from_ipC M bs = SlicedPacket.from_ip bs.
Proof.
  intros M bs et HM Hok HL.
  assert (F : forall c, c_offset c = 0 -> fits (len bs) c (mk_slice bs)).
  { intros c E. split; [rewrite E; unfold s_len, mk_slice; cbn [snd]; lia|exact Hok]. }
  split; [apply (slice_ethernet2C_eq M HM (len bs) HL); now apply F|].
  split; [apply (slice_linux_sllC_eq M HM (len bs) HL); now apply F|].
  split; [|apply (slice_ipC_eq M HM (len bs) HL); now apply F].
  unfold from_ether_typeC, SlicedPacket.from_ether_type, slice_ether_typeC,
    SlicedPacketCursor.slice_ether_type.
  apply (ether_loopC_eq M HM (len bs) HL). cbn [ep_slice]. now apply F.
Qed.

(* hence no checked entry point reports an overflow, nor any other Bug *)
Corollary no_offset_overflow_nobug : forall M bs et, 2 ^ 17 <= M -> bytes_ok bs -> len bs < M ->
  nobug (from_ethernetC M bs) /\ nobug (from_linux_sllC M bs) /\
  nobug (from_ether_typeC M et bs) /\ nobug (from_ipC M bs).
Proof.
  intros M bs et HM Hok HL.
  destruct (no_offset_overflow M bs et HM Hok HL) as (E1 & E2 & E3 & E4).
  rewrite E1, E2, E3, E4.
  destruct (StrictProofs.strict_total bs et Hok) as ((r & Er & Nr) & T2 & T3 & T4).
  repeat split; try assumption.
  intros b Eb. apply (Nr b). rewrite <- Er, Eb. reflexivity.
Qed.

(* the 32-bit and the 64-bit usize *)
Corollary no_offset_overflow_32 : forall bs et, bytes_ok bs -> len bs < 2 ^ 32 ->
  from_ethernetC (2 ^ 32) bs = SlicedPacket.from_ethernet bs /\
  from_linux_sllC (2 ^ 32) bs = SlicedPacket.from_linux_sll bs /\
  from_ether_typeC (2 ^ 32) et bs = SlicedPacket.from_ether_type et bs /\
  from_ipC (2 ^ 32) bs = SlicedPacket.from_ip bs.
Proof.
  intros bs et. apply no_offset_overflow. vm_compute; discriminate.
Qed.

Corollary no_offset_overflow_64 : forall bs et, bytes_ok bs -> len bs < 2 ^ 64 ->
  from_ethernetC (2 ^ 64) bs = SlicedPacket.from_ethernet bs /\
  from_linux_sllC (2 ^ 64) bs = SlicedPacket.from_linux_sll bs /\
  from_ether_typeC (2 ^ 64) et bs = SlicedPacket.from_ether_type et bs /\
  from_ipC (2 ^ 64) bs = SlicedPacket.from_ip bs.
Proof.
  intros bs et. apply no_offset_overflow. vm_compute; discriminate.
Qed.

(* the checked copies are not the models by construction: with a usize too small for the
   input they do report the overflow.
   (a) Ethernet II + VLAN, usize of 16 values: `self.offset += vlan.header_len()` = 14 + 4;
   (b) Ethernet II + IPv6 (next header 60) + 1 byte, usize of 50 values: the LenError of the
       truncated destination options header is moved by 0 (walk), 40 (Ipv6Slice) and then
       `add_offset(self.offset)` = 40 + 14 overflows; with a 32-bit usize: the error, offset 54 *)
Definition ex_vlan_pkt : bytes :=
  [1;2;3;4;5;6; 7;8;9;10;11;12; 129;0;  0;5; 18;52;  0;0].
Definition ex_v6_cut_pkt : bytes :=
  [1;2;3;4;5;6; 7;8;9;10;11;12; 134;221] ++ [96;0;0;0; 0;0; 60; 64] ++ repeat 0 32%nat ++ [17].

Example offset_overflow_reachable :
  from_ethernetC 16 ex_vlan_pkt = Bug SITE_OVERFLOW /\
  (exists p, from_ethernetC (2 ^ 32) ex_vlan_pkt = Ok p /\ SlicedPacket.from_ethernet ex_vlan_pkt = Ok p) /\
  from_ethernetC 50 ex_v6_cut_pkt = Bug SITE_OVERFLOW /\
  from_ethernetC (2 ^ 32) ex_v6_cut_pkt = Err (ELen (mkLenError 8 1 LsSlice LyIpv6ExtHeader 54)) /\
  SlicedPacket.from_ethernet ex_v6_cut_pkt = Err (ELen (mkLenError 8 1 LsSlice LyIpv6ExtHeader 54)).
Proof.
  split; [vm_compute; reflexivity|]. split; [eexists; split; vm_compute; reflexivity|].
  vm_compute. repeat split.
Qed.

(* the constructors on their own (any slice, not only windows of a packet) *)
Theorem no_offset_overflow_ctors : forall M s, 2 ^ 17 <= M -> bytes_ok (snd s) ->
  ipv4_from_sliceC M s = Ipv4Slice.from_slice s /\
  (s_len s < M ->
   (forall nh, exts_from_sliceC M nh s = Ipv6ExtensionsSlice.from_slice nh s) /\
   ipv6_from_sliceC M s = Ipv6Slice.from_slice s /\
   ip_from_sliceC M s = IpSlice.from_slice s).
Proof.
  intros M s HM Hok. split; [now apply ipv4_from_sliceC_eq|]. intros L.
  split; [intros nh; now apply exts_from_sliceC_eq|].
  split; [now apply ipv6_from_sliceC_eq|now apply ip_from_sliceC_eq].
Qed.

(* the layer_start_offset of a LenError of the composite constructors lies inside the slice *)
Theorem len_error_offset_inside : forall s e,
  (Ipv4Slice.from_slice s = Err (ELen e) \/ Ipv6Slice.from_slice s = Err (ELen e) \/
   IpSlice.from_slice s = Err (ELen e) \/
   (exists nh, Ipv6ExtensionsSlice.from_slice nh s = Err (ELen e))) -> le_off e <= s_len s.
Proof.
  intros s e [H|[H|[H|(nh & H)]]].
  - exact (eo_ipv4 s e H).
  - exact (eo_ipv6 s e H).
  - exact (eo_ip s e H).
  - exact (eo_exts nh s e H).
Qed.
