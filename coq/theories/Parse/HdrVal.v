(* Parse/HdrVal.v -- property C04, audit round 3 (item "header VALUE equality"), part 1:
   every slice stored in a PacketHeaders model result -- link header, link extension
   headers, IPv4 header + authentication header, IPv6 header + the six extension slots,
   ARP packet, transport header, payload -- is a window of the input: it lies inside the
   buffer and its contents are the bytes of the buffer at its position (`in_buf`, the
   predicate C01 uses for the slicing family; `in_win` is its arithmetic reading).

   Definitions of the VALUE views (`hvals`): what `to_header()` / `to_packet()` / `header()`
   (accessor models of Parse/Access.v) return for every header of a PacketHeaders result
   and of a slicing result.  The theorems are in Parse/HdrValProofs.v. *)
From Coq Require Import ZArith Lia ZifyN ZifyBool List.
From EP Require Import Base.Bytes Parse.Types Parse.Slices Parse.Cursor Parse.Repr
  Parse.Access Parse.AccessProofs Parse.HdrModel Parse.HdrView Parse.HdrCut Parse.HdrSlots.
Import ListNotations.
Import SlicedPacketCursor.

Local Open Scope N_scope.

(* ---- a slice is a window of the buffer ------------------------------------------------ *)
Definition in_win (bs : bytes) (s : slice) : Prop :=
  s_off s + s_len s <= len bs /\ snd s = take (s_len s) (drop (s_off s) bs).

Lemma in_buf_in_win bs s : in_buf bs s -> in_win bs s.
Proof.
  intros I. split; [now apply in_buf_bounds|].
  destruct I as (pos & lim & R). rewrite (repr_off _ _ _ _ R), (repr_len _ _ _ _ R).
  destruct R as (-> & _). reflexivity.
Qed.

Lemma in_win_in_buf bs s : in_win bs s -> in_buf bs s.
Proof.
  intros (L & E). exists (s_off s), (s_off s + s_len s). unfold repr.
  split; [|lia]. replace (s_off s + s_len s - s_off s) with (s_len s) by lia.
  rewrite <- E. now destruct s.
Qed.

(* two windows of the same buffer with the same position are the same slice *)
Lemma in_buf_win_eq bs a b : in_buf bs a -> in_buf bs b -> win_of a = win_of b -> a = b.
Proof.
  intros Ia Ib W. apply in_buf_in_win in Ia. apply in_buf_in_win in Ib.
  destruct Ia as (_ & Ea), Ib as (_ & Eb). unfold win_of in W. injection W as Wo Wl.
  destruct a as (oa, ba), b as (ob, bb). unfold s_off, s_len in *. cbn [fst snd] in *.
  subst oa. rewrite Ea, Eb. now rewrite Wl.
Qed.

(* a window that starts where another one starts and is not longer is its prefix *)
Lemma in_buf_pre bs h s n :
  in_buf bs h -> in_buf bs s -> s_off h = s_off s -> s_len h = n -> n <= s_len s -> pre n h s.
Proof.
  intros Ih Is Ho Hl Hn. apply in_buf_in_win in Ih. apply in_buf_in_win in Is.
  destruct Ih as (_ & Eh), Is as (_ & Es). unfold pre. split; [exact Ho|]. split; [|exact Hn].
  rewrite Eh, Es, Hl, Ho. unfold take. rewrite firstn_firstn. f_equal. lia.
Qed.

(* ---- the slices of a PacketHeaders result --------------------------------------------- *)
Definition olist {A} (o : option A) : list A := match o with Some a => [a] | None => [] end.

Definition exts6_slices (x : exts6) : list slice :=
  olist (x_hbh x) ++ olist (x_dest x) ++ olist (x_route x) ++ olist (x_fdest x) ++
  olist (x_frag x) ++ olist (x_auth x).

Definition hext_slice (x : hlink_ext) : slice :=
  match x with HxVlan h | HxMacsec h => h end.

Definition hnet_slices (n : hnet) : list slice :=
  match n with
  | HnArp a => [a]
  | HnIp (IhV4 h a) => h :: olist a
  | HnIp (IhV6 h x) => h :: exts6_slices x
  end.

Definition htr_slice (t : htransport) : slice :=
  match t with HtUdp h | HtTcp h | HtIcmpv4 h | HtIcmpv6 h => h end.

Definition hpayload_slices (p : hpayload) : list slice :=
  match p with
  | HpEmpty => []
  | HpEther e => [ep_slice e]
  | HpMacsecMod s => [s]
  | HpIp i => [ipp_slice i]
  | HpUdp s | HpTcp s | HpIcmpv4 s | HpIcmpv6 s => [s]
  end.

(* all header slices of a result, then its payload slice *)
Definition hp_header_slices (p : hpacket) : list slice :=
  olist (h_link p) ++ map hext_slice (h_exts p) ++
  match h_net p with Some n => hnet_slices n | None => [] end ++
  olist (option_map htr_slice (h_transport p)).

Definition hp_slices (p : hpacket) : list slice :=
  hp_header_slices p ++ hpayload_slices (h_payload p).

(* the structured form the proofs use: in addition the Ethernet II header slice has 14 bytes
   and the TCP header slice has the length its data offset announces (established by
   Ethernet2HeaderSlice::from_slice / TcpHeaderSlice::from_slice) *)
Definition htr_ok (bs : bytes) (t : htransport) : Prop :=
  in_buf bs (htr_slice t) /\ match t with HtTcp h => wf_tcph h | _ => True end.

Definition hp_ok (bs : bytes) (p : hpacket) : Prop :=
  optP (fun h => in_buf bs h /\ s_len h = 14) (h_link p) /\
  Forall (fun x => in_buf bs (hext_slice x)) (h_exts p) /\
  optP (fun n => Forall (in_buf bs) (hnet_slices n)) (h_net p) /\
  optP (htr_ok bs) (h_transport p) /\
  Forall (in_buf bs) (hpayload_slices (h_payload p)).

(* ---- the values ---------------------------------------------------------------------------- *)
Definition eth_val := (bytes * bytes * N)%type.
Definition vlan_val := (N * bool * N * N)%type.
Definition macsec_val := (macsec_ptype * bool * bool * N * N * N * option bytes)%type.
Definition ipv4_val := (N * N * N * N * bool * bool * N * N * N * N * bytes * bytes * bytes)%type.
Definition auth_val := (N * N * N * N * bytes)%type.
Definition ipv6_val := (N * N * N * N * N * bytes * bytes)%type.
Definition arp_val := (N * N * N * bytes * bytes * bytes * bytes)%type.
Definition udp_val := (N * N * N * N)%type.
Definition tcp_val := ((N * N * N * N * list bool * N * N * N) * (N * bytes))%type.
Definition icmp4_val := (icmpv4_type * N)%type.
Definition icmp6_val := (N * N * bytes * N)%type.
Definition raw_val := (N * N * bytes)%type.
Definition frag_val := (N * N * bool * N)%type.

Inductive ext_val := EvVlan (v : res vlan_val) | EvMacsec (v : res macsec_val).

Inductive net_val :=
| NvIpv4 (h : res ipv4_val) (a : option (res auth_val))
| NvIpv6 (h : res ipv6_val)
| NvArp (p : res arp_val).

Inductive tr_val :=
| TvUdp (v : res udp_val) | TvTcp (v : res tcp_val)
| TvIcmpv4 (v : res icmp4_val) | TvIcmpv6 (v : res icmp6_val).

Record hvals := mkVals {
  vl_link : option (res eth_val);
  vl_exts : list ext_val;
  vl_net : option net_val;
  vl_tr : option tr_val }.

(* struct family: Ethernet2HeaderSlice / SingleVlanHeaderSlice / MacsecHeaderSlice /
   Ipv4HeaderSlice / IpAuthHeaderSlice / Ipv6HeaderSlice / TcpHeaderSlice ::to_header(),
   ArpPacketSlice::to_packet(), UdpSlice::to_header(), Icmpv4Slice / Icmpv6Slice ::header()
   applied to the slice the struct was decoded from (the struct decoders of the crate are
   `XSlice::from_slice(..)?.to_header()`) *)
Definition hval_ext (x : hlink_ext) : ext_val :=
  match x with
  | HxVlan h => EvVlan (SingleVlanA.to_header h)
  | HxMacsec h => EvMacsec (MacsecHeaderA.to_header h)
  end.

Definition hval_net (n : hnet) : net_val :=
  match n with
  | HnArp a => NvArp (ArpPacketA.to_packet a)
  | HnIp (IhV4 h a) => NvIpv4 (Ipv4HeaderA.to_header h) (option_map IpAuthHeaderA.to_header a)
  | HnIp (IhV6 h _) => NvIpv6 (Ipv6HeaderA.to_header h)
  end.

Definition hval_tr (t : htransport) : tr_val :=
  match t with
  | HtUdp h => TvUdp (UdpA.to_header h)
  | HtTcp h => TvTcp (TcpHeaderSliceA.to_header h)
  | HtIcmpv4 h => TvIcmpv4 (Icmpv4A.header h)
  | HtIcmpv6 h => TvIcmpv6 (Icmpv6A.header h)
  end.

Definition hvals_of_h (p : hpacket) : hvals :=
  mkVals (option_map (fun h => Ethernet2A.to_header (mkEth2 0 h)) (h_link p))
         (map hval_ext (h_exts p)) (option_map hval_net (h_net p))
         (option_map hval_tr (h_transport p)).

(* slicing family: to_header() / to_packet() / header() of every slice of the result *)
Definition sval_link (l : link_slice) : option (res eth_val) :=
  match l with
  | LkEthernet2 s => Some (Ethernet2A.to_header (mkEth2 0 s))
  | _ => None
  end.

Definition sval_ext (x : link_ext_slice) : ext_val :=
  match x with
  | LeVlan s => EvVlan (SingleVlanA.to_header s)
  | LeMacsec m => EvMacsec (MacsecHeaderA.to_header (ms_header m))
  end.

Definition sval_net (n : net_slice) : net_val :=
  match n with
  | NtIpv4 v => NvIpv4 (Ipv4HeaderA.to_header (v4_header v))
                       (option_map IpAuthHeaderA.to_header (v4_auth v))
  | NtIpv6 v => NvIpv6 (Ipv6HeaderA.to_header (v6_header v))
  | NtArp a => NvArp (ArpPacketA.to_packet a)
  end.

Definition sval_tr (t : transport_slice) : tr_val :=
  match t with
  | TrUdp s => TvUdp (UdpA.to_header s)
  | TrTcp hl s => TvTcp (TcpSliceA.to_header (hl, s))
  | TrIcmpv4 s => TvIcmpv4 (Icmpv4A.header s)
  | TrIcmpv6 s => TvIcmpv6 (Icmpv6A.header s)
  end.

Definition hvals_of_s (p : sliced_packet) : hvals :=
  mkVals (match sp_link p with Some l => sval_link l | None => None end)
         (map sval_ext (sp_exts p)) (option_map sval_net (sp_net p))
         (option_map sval_tr (sp_transport p)).

(* the six slots of the struct Ipv6Extensions, converted *)
Record exts6_vals := mkX6v {
  xv_hbh : option (res raw_val); xv_dest : option (res raw_val); xv_route : option (res raw_val);
  xv_fdest : option (res raw_val); xv_frag : option (res frag_val); xv_auth : option (res auth_val) }.

Definition exts6_val (x : exts6) : exts6_vals :=
  mkX6v (option_map Ipv6RawExtHeaderA.to_header (x_hbh x))
        (option_map Ipv6RawExtHeaderA.to_header (x_dest x))
        (option_map Ipv6RawExtHeaderA.to_header (x_route x))
        (option_map Ipv6RawExtHeaderA.to_header (x_fdest x))
        (option_map Ipv6FragmentHeaderA.to_header (x_frag x))
        (option_map IpAuthHeaderA.to_header (x_auth x)).

(* what the theorems say about a pair of results *)
Definition vals_agree (h : res hpacket) (s : res sliced_packet) : Prop :=
  forall hp sp, h = Ok hp -> s = Ok sp -> hvals_of_h hp = hvals_of_s sp.

Definition slices_hold (bs : bytes) (h : res hpacket) : Prop :=
  forall hp, h = Ok hp -> Forall (in_win bs) (hp_slices hp).
