(* Parse/LaxWireFacts.v -- facts about the reference decoders of LaxWire.v (pure functions over
   absolute positions; no slices here), transferred to the lax model through LaxWireProofs.v:
     (d) whole packet: incomplete flags against the length fields read from the buffer,
     (b) whole packet: strict reference rejects behind the first header -> lax keeps every layer
         in front of the fault and records the fault (or a documented length fallback happened). *)
From EP Require Import Base.Bytes Parse.Types Parse.Slices Parse.Cursor Parse.View Parse.WireSpec Parse.Repr
  Parse.StrictProofs Parse.LaxSlices Parse.LaxCursor Parse.LaxView Parse.LaxProofs Parse.LaxFacts
  Parse.LaxWire Parse.LaxWireProofs.
From Coq Require Import ZArith Lia ZifyN ZifyBool.
Local Open Scope N_scope.

(* ---- what the steps of the reference decoder leave untouched -------------------------------- *)
Lemma lstop_exts p e : lv_exts (lstop p e) = lv_exts p. Proof. reflexivity. Qed.
Lemma lstop_net p e : lv_net (lstop p e) = lv_net p. Proof. reflexivity. Qed.

Lemma ltransport_keeps bs p ipn frag psrc pos lim :
  lv_link (lwire_transport bs p ipn frag psrc pos lim) = lv_link p /\
  lv_exts (lwire_transport bs p ipn frag psrc pos lim) = lv_exts p /\
  lv_net (lwire_transport bs p ipn frag psrc pos lim) = lv_net p.
Proof.
  unfold lwire_transport, lwire_icmp4, lwire_udp, lwire_tcp, lwire_icmp6, lcut.
  repeat match goal with |- context[if ?c then _ else _] => destruct c end; repeat split.
Qed.

Lemma ah_dec_inl bs zero src pos lim l next :
  ah_dec bs zero src pos lim = inl (l, next) -> 12 <= l /\ l <= lim - pos.
Proof.
  unfold ah_dec. destruct (lim - pos <? 12) eqn:E; [discriminate|].
  destruct (B bs (pos + 1) =? 0) eqn:Ez; [discriminate|].
  destruct (lim - pos <? (B bs (pos + 1) + 2) * 4) eqn:El; [discriminate|].
  intros H. injection H as <- _. lia.
Qed.

Lemma lchain_bounds bs fuel src : forall pos lim nh frag, pos <= lim ->
  let '(e, _, _, _) := lwire_chain bs fuel src pos lim nh frag in pos <= e /\ e <= lim.
Proof.
  induction fuel as [|f IH]; intros pos lim nh frag Hp; cbn [lwire_chain]; [lia|].
  destruct (nh =? 0); [lia|].
  destruct ((nh =? 60) || (nh =? 43)).
  { destruct (lim - pos <? 8) eqn:E8; [lia|].
    destruct (lim - pos <? (B bs (pos + 1) + 1) * 8) eqn:El; [lia|].
    specialize (IH (pos + (B bs (pos + 1) + 1) * 8) lim (B bs pos) frag ltac:(lia)).
    destruct (lwire_chain _ _ _ _ _ _ _) as [[[e nx] fr] st]. lia. }
  destruct (nh =? 44).
  { destruct (lim - pos <? 8) eqn:E8; [lia|].
    match goal with |- context[lwire_chain bs f src (pos + 8) lim (B bs pos) ?fr] =>
      specialize (IH (pos + 8) lim (B bs pos) fr ltac:(lia)) end.
    destruct (lwire_chain _ _ _ _ _ _ _) as [[[e nx] fr] st]. lia. }
  destruct (nh =? 51); [|lia].
  destruct (ah_dec bs CeIpv6AuthZeroPayloadLen src pos lim) as [[l next]|e0] eqn:Ea; [|lia].
  apply ah_dec_inl in Ea.
  specialize (IH (pos + l) lim next frag ltac:(lia)).
  destruct (lwire_chain _ _ _ _ _ _ _) as [[[e nx] fr] st]. lia.
Qed.

Lemma lexts_bounds bs fuel src pos lim nh : pos <= lim ->
  let '(e, _, _, _) := lwire_exts bs fuel src pos lim nh in pos <= e /\ e <= lim.
Proof.
  intros Hp. unfold lwire_exts. destruct (nh =? 0).
  - destruct (lim - pos <? 8) eqn:E8; [lia|].
    destruct (lim - pos <? (B bs (pos + 1) + 1) * 8) eqn:El; [lia|].
    pose proof (lchain_bounds bs fuel src (pos + (B bs (pos + 1) + 1) * 8) lim (B bs pos) false ltac:(lia)) as H.
    destruct (lwire_chain _ _ _ _ _ _ _) as [[[e nx] fr] st]. lia.
  - apply lchain_bounds. exact Hp.
Qed.

(* ---- (d): the incomplete flag of the network layer --------------------------------------------- *)
Lemma ip_parts_flags bs csrc pos lim :
  pos <= lim -> ip_hdr_fault bs csrc pos lim = None ->
  let '(net, pl, st, lim') := lwire_ip_parts bs csrc pos lim in
  net_flag_ok bs (pos, lim - pos) net.
Proof.
  intros Hp. unfold ip_hdr_fault, lwire_ip_parts.
  destruct (lim - pos =? 0) eqn:E0; [discriminate|].
  destruct (B bs pos / 16 =? 4) eqn:E4.
  - destruct (B bs pos mod 16 <? 5) eqn:Ei; [discriminate|].
    set (hl := B bs pos mod 16 * 4) in *.
    destruct (lim - pos <? hl) eqn:Eh; [discriminate|]. intros _.
    assert (V4 : forall lim' psrc inc,
              pos + hl <= lim' ->
              inc = (lim - pos <? W bs (pos + 2)) -> (inc = true -> psrc = LsSlice /\ lim' = lim) ->
              let '(net, pl, st, l') := lwire_ipv4_parts bs csrc pos hl lim' psrc inc in
              net_flag_ok bs (pos, lim - pos) net).
    { intros lim' psrc inc Hl Hinc Htrue. unfold lwire_ipv4_parts.
      assert (G : forall auth next pp (st : option stop_error),
                 pos + hl <= pp -> pp <= lim' ->
                 net_flag_ok bs (pos, lim - pos)
                   (LVIpv4 (pos, hl) auth (mkLVIp inc next (ipv4_fragmented bs pos) psrc (pp, lim' - pp)))).
      { intros auth next pp st H1 H2. unfold net_flag_ok, ip_flag_ok, win_end. cbn.
        split; [reflexivity|]. split; [exact Hinc|]. intros Ht. destruct (Htrue Ht) as (-> & ->).
        split; [reflexivity|lia]. }
      destruct (B bs (pos + 9) =? 51).
      - destruct (ah_dec bs CeAuthZeroPayloadLen (pick_src psrc csrc) (pos + hl) lim') as [[ahl next]|e] eqn:Ea.
        + apply ah_dec_inl in Ea. apply (G _ _ _ None); lia.
        + apply (G _ _ _ None); lia.
      - apply (G _ _ _ None); lia. }
    destruct (W bs (pos + 2) <? hl) eqn:Et.
    { apply V4; [lia| |discriminate]. symmetry. apply N.ltb_ge. lia. }
    destruct (lim - pos <? W bs (pos + 2)) eqn:Et2.
    { apply V4; [lia|reflexivity|auto]. }
    apply V4; [lia|reflexivity|discriminate].
  - destruct (B bs pos / 16 =? 6) eqn:E6; [|discriminate].
    destruct (lim - pos <? 40) eqn:E40; [discriminate|]. intros _.
    assert (V6 : forall lim' psrc inc,
              pos + 40 <= lim' ->
              inc = (lim - pos <? 40 + W bs (pos + 4)) -> (inc = true -> psrc = LsSlice /\ lim' = lim) ->
              let '(net, pl, st, l') := lwire_ipv6_parts bs csrc pos lim' psrc inc in
              net_flag_ok bs (pos, lim - pos) net).
    { intros lim' psrc inc Hl Hinc Htrue. unfold lwire_ipv6_parts.
      pose proof (lexts_bounds bs (S (N.to_nat (lim' - (pos + 40)))) (pick_src psrc csrc) (pos + 40) lim'
                    (B bs (pos + 6)) Hl) as Bd.
      destruct (lwire_exts _ _ _ _ _ _) as [[[e nx] fr] st].
      unfold net_flag_ok, ip_flag_ok, win_end. cbn.
      split; [reflexivity|]. split; [exact Hinc|]. intros Ht. destruct (Htrue Ht) as (-> & ->).
      split; [reflexivity|lia]. }
    destruct ((W bs (pos + 4) =? 0) && (40 <? lim - pos)) eqn:Ez.
    { apply V6; [lia| |discriminate]. symmetry. apply N.ltb_ge. lia. }
    destruct (lim - pos <? 40 + W bs (pos + 4)) eqn:El.
    { apply V6; [lia|reflexivity|auto]. }
    apply V6; [lia|reflexivity|discriminate].
Qed.

Lemma exts_flags_snoc bs enc xs x :
  exts_flags_ok bs enc (xs ++ [x]) <-> exts_flags_ok bs enc xs /\ ext_flag_ok bs (enc_after enc xs) x.
Proof.
  revert enc. induction xs as [|y r IH]; intros enc; cbn [app exts_flags_ok enc_after].
  - tauto.
  - rewrite IH. tauto.
Qed.

Lemma enc_after_snoc enc xs x : enc_after enc (xs ++ [x]) = ext_next x.
Proof. revert enc. induction xs as [|y r IH]; intros enc; cbn [app enc_after]; [reflexivity|apply IH]. Qed.

Lemma ip_flags bs p csrc pos lim enc0 :
  pos <= lim ->
  exts_flags_ok bs enc0 (lv_exts p) -> enc_after enc0 (lv_exts p) = (pos, lim - pos) ->
  ip_hdr_fault bs csrc pos lim = None ->
  packet_flags_ok bs enc0 (lwire_ip_body bs p csrc pos lim).
Proof.
  intros Hp Hx Henc HF. unfold lwire_ip_body.
  pose proof (ip_parts_flags bs csrc pos lim Hp HF) as F.
  destruct (lwire_ip_parts bs csrc pos lim) as [[[net pl] st] lim'].
  unfold packet_flags_ok.
  destruct (ltransport_keeps bs (lstop_opt (lwith_net p net) st) (lvip_number pl) (lvip_frag pl)
              (lvip_src pl) (fst (lvip_win pl)) lim') as (_ & K1 & K2).
  rewrite K1, K2. destruct st; cbn; (split; [exact Hx|]); rewrite Henc; exact F.
Qed.

Lemma ether_flags bs cap : forall p et csrc pos lim enc0,
  pos <= lim ->
  exts_flags_ok bs enc0 (lv_exts p) -> enc_after enc0 (lv_exts p) = (pos, lim - pos) ->
  lv_net p = None ->
  packet_flags_ok bs enc0 (lwire_ether bs cap p et csrc pos lim).
Proof.
  assert (Keep : forall p enc0, exts_flags_ok bs enc0 (lv_exts p) -> lv_net p = None ->
                   packet_flags_ok bs enc0 p).
  { intros p enc0 H1 H2. unfold packet_flags_ok. rewrite H2. auto. }
  assert (KeepS : forall p e enc0, exts_flags_ok bs enc0 (lv_exts p) -> lv_net p = None ->
                   packet_flags_ok bs enc0 (lstop p e)).
  { intros p e enc0 H1 H2. apply Keep; assumption. }
  assert (Net : forall p et csrc pos lim enc0,
            pos <= lim -> exts_flags_ok bs enc0 (lv_exts p) -> enc_after enc0 (lv_exts p) = (pos, lim - pos) ->
            lv_net p = None ->
            packet_flags_ok bs enc0
              (if et =? 2054 then lwire_arp bs p csrc pos lim
               else if (et =? 2048) || (et =? 34525) then lwire_ip bs p csrc pos lim else p)).
  { intros p et csrc pos lim enc0 Hp Hx Henc Hn.
    destruct (et =? 2054).
    { unfold lwire_arp, lcut. destruct (lim - pos <? 8); [now apply KeepS|].
      destruct (lim - pos <? _); [now apply KeepS|].
      unfold packet_flags_ok. cbn. auto. }
    destruct ((et =? 2048) || (et =? 34525)); [|now apply Keep].
    unfold lwire_ip. destruct (ip_hdr_fault bs csrc pos lim) eqn:HF; [now apply KeepS|].
    now apply ip_flags. }
  induction cap as [|cap IH]; intros p et csrc pos lim enc0 Hp Hx Henc Hn; cbn [lwire_ether].
  - destruct (is_vlan et); [now apply Keep|]. destruct (et =? 35045); [now apply Keep|]. now apply Net.
  - destruct (is_vlan et).
    { unfold lcut. destruct (lim - pos <? 4) eqn:E4; [now apply KeepS|].
      apply IH; cbn [lwith_ext lv_exts lv_net]; auto; [lia| |].
      - apply exts_flags_snoc. split; [exact Hx|]. rewrite Henc. reflexivity.
      - rewrite enc_after_snoc. cbn. f_equal. lia. }
    destruct (et =? 35045); [|now apply Net].
    unfold lcut. destruct (lim - pos <? 6) eqn:E6; [now apply KeepS|].
    destruct (128 <=? B bs pos); [now apply KeepS|].
    set (sl := B bs (pos + 1) mod 64) in *.
    set (unmod := (B bs pos / 4) mod 4 =? 0) in *.
    destruct (unmod && (sl =? 1)); [now apply KeepS|].
    set (hl := 6 + (if unmod then 2 else 0) + (if negb ((B bs pos / 32) mod 2 =? 0) then 8 else 0)) in *.
    destruct (lim - pos <? hl) eqn:Eh; [now apply KeepS|].
    set (body := if unmod then sl - 2 else sl) in *.
    cbv zeta.
    set (inc := (0 <? sl) && (lim - pos <? hl + body)) in *.
    set (short := (0 <? sl) && negb (lim - pos <? hl + body)) in *.
    set (lim' := if short then pos + hl + body else lim) in *.
    set (psrc := if short then LsMacsecShortLength else LsSlice) in *.
    assert (Hl' : pos + hl <= lim') by (subst lim'; destruct short; lia).
    assert (Hinc : inc = true -> lim' = lim /\ psrc = LsSlice).
    { subst inc lim' psrc short. destruct (0 <? sl); cbn [andb]; [|discriminate].
      intros ->. cbn. auto. }
    assert (Flag : forall pl,
              (match pl with LVMpUnmodified e => lvep_incomplete e | LVMpModified i _ => i end) = inc ->
              (match pl with LVMpUnmodified e => lvep_win e | LVMpModified _ w => w end)
                = (pos + hl, lim' - (pos + hl)) ->
              (match pl with LVMpUnmodified e => lvep_src e = psrc | LVMpModified _ _ => True end) ->
              ext_flag_ok bs (pos, lim - pos) (LVMacsec (pos, hl) pl)).
    { intros pl H1 H2 H3. unfold ext_flag_ok. cbn [fst snd]. fold sl unmod body.
      rewrite H1, H2. split; [reflexivity|]. split; [reflexivity|].
      intros Ht. destruct (Hinc Ht) as (-> & Hs). unfold win_end. cbn [fst snd].
      split; [f_equal; lia|]. split; [lia|]. destruct pl; [now rewrite H3|exact I]. }
    destruct unmod eqn:Eun.
    + apply IH; cbn [lwith_ext lv_exts lv_net]; auto.
      * apply exts_flags_snoc. split; [exact Hx|]. rewrite Henc. now apply Flag.
      * rewrite enc_after_snoc. reflexivity.
    + apply Keep; cbn [lwith_ext lv_exts lv_net]; auto.
      apply exts_flags_snoc. split; [exact Hx|]. rewrite Henc. now apply Flag.
Qed.

(* (d) for the lax model: whole-packet entry points *)
Lemma lvok_inj a b : LVOk a = LVOk b -> a = b.
Proof. intros H. now injection H. Qed.

Theorem lax_incomplete_iff_packet bs et r' :
  bytes_ok bs ->
  (LaxSlicedPacket.from_ethernet bs = Ok r' -> packet_flags_ok bs (14, len bs - 14) (lview r')) /\
  (LaxSlicedPacket.from_ether_type et bs = Ok r' -> packet_flags_ok bs (0, len bs) (lview r')) /\
  (LaxSlicedPacket.from_ip bs = Ok r' -> packet_flags_ok bs (0, len bs) (lview r')).
Proof.
  intros Hok. split; [|split]; intros E.
  - pose proof (lax_from_ethernet_eq bs Hok) as Q. rewrite E in Q. unfold lwire_ethernet, n_bs in Q.
    destruct (len bs <? 14) eqn:E14; [discriminate|]. apply lvok_inj in Q. rewrite Q.
    apply ether_flags; [lia|exact I|reflexivity|reflexivity].
  - pose proof (lax_from_ether_type_eq bs et Hok) as Q. rewrite E in Q. unfold lwire_ether_type, n_bs in Q.
    apply lvok_inj in Q. rewrite Q.
    apply ether_flags; [lia|exact I| |reflexivity]. cbn [lv_exts enc_after]. f_equal. lia.
  - pose proof (lax_from_ip_eq bs Hok) as Q. rewrite E in Q. unfold lwire_from_ip, n_bs in Q.
    destruct (ip_hdr_fault bs LsSlice 0 (len bs)) eqn:HF; [discriminate|]. apply lvok_inj in Q. rewrite Q.
    apply ip_flags; [lia|exact I| |exact HF]. cbn [lv_exts lempty_packet enc_after]. f_equal. lia.
Qed.
