(* Parse/AccessorArith.v -- audit round 2 follow-up (C02): fixed-width overflow in the ACCESSORS
   of the slice types (Parse/Access.v) that add or multiply usize values:

     LinuxSllHeaderSlice::sender_address      &self.slice[6..min(6 + length, 6 + 8)]
     MacsecHeaderSlice::header_len            6 + (8|0) + (2|0)
     ArpPacketSlice::sender_protocol_addr     ptr.add(8 + hw)
     ArpPacketSlice::target_hw_addr           ptr.add(8 + hw + pr)
     ArpPacketSlice::target_protocol_addr     ptr.add(8 + hw * 2 + pr)
     Ipv6RawExtHeaderSlice::from_slice_unchecked   (slice[1] + 1) * 8
     IpAuthHeaderSlice::from_slice_unchecked       (slice[1] + 2) * 4
         (these two are what the extension iterator runs on every header)
     TcpHeaderSlice::options                  &self.slice[20..data_offset() * 4]

   (Ipv4HeaderSlice has no usize product in its accessors: ihl() is returned as u8, options
   is &slice[20..], payload_len subtracts u16 values -- a checked subtraction in the model;
   the `ihl * 4` of the constructors is in Parse/UsizeBounds.v.  TcpSlice keeps header_len as
   a field.)  Each is written once more with every `+` / `*` checked against a usize of M
   values (addC / mulC of UsizeBounds.v); for every M >= 2^17 and every slice of bytes the
   checked accessor IS the accessor of Parse/Access.v: every operand is a widened u8 / u16
   field or a constant (6 + 65535, 8 + 255*2 + 255, 256*8, 257*4, 15*4). *)
From EP Require Import Base.Bytes Parse.Types Parse.Slices Parse.Repr Parse.Access Parse.AccessProofs
  Parse.UsizeBounds.
From Coq Require Import ZArith Lia ZifyN ZifyBool.

Local Open Scope N_scope.

Section Checked.
  Variable M : N.

  Definition sll_sender_addressC (h : slice) : res slice :=
    let* length := LinuxSllHeaderA.sender_address_valid_length h in
    let* a := addC M 6 length in
    let* b := addC M 6 8 in
    idx_range h 6 (N.min a b).

  Definition macsec_header_lenC (h : slice) : res N :=
    let* sc := MacsecHeaderA.sci_present h in
    let* un := MacsecHeaderA.is_unmodified h in
    let* a := addC M 6 (if sc then 8 else 0) in
    addC M a (if un then 2 else 0).

  Definition arp_sender_protocol_addrC (a : slice) : res slice :=
    let* hw := ArpPacketA.hw_addr_size a in
    let* pr := ArpPacketA.proto_addr_size a in
    let* o := addC M 8 hw in
    subU a o pr.
  Definition arp_target_hw_addrC (a : slice) : res slice :=
    let* hw := ArpPacketA.hw_addr_size a in
    let* pr := ArpPacketA.proto_addr_size a in
    let* hw' := ArpPacketA.hw_addr_size a in
    let* o1 := addC M 8 hw in
    let* o := addC M o1 pr in
    subU a o hw'.
  Definition arp_target_protocol_addrC (a : slice) : res slice :=
    let* hw := ArpPacketA.hw_addr_size a in
    let* pr := ArpPacketA.proto_addr_size a in
    let* pr' := ArpPacketA.proto_addr_size a in
    let* hw2 := mulC M hw 2 in
    let* o1 := addC M 8 hw2 in
    let* o := addC M o1 pr in
    subU a o pr'.

  Definition raw_from_slice_uncheckedC (s : slice) : res slice :=
    let* b := rdU s 1 in
    let* b1 := addC M b 1 in
    let* l := mulC M b1 8 in
    subU s 0 l.
  Definition auth_from_slice_uncheckedC (s : slice) : res slice :=
    let* b := rdU s 1 in
    let* b2 := addC M b 2 in
    let* l := mulC M b2 4 in
    subU s 0 l.

  Definition tcp_optionsC (h : slice) : res slice :=
    let* d := TcpFieldsA.data_offset h in
    let* e := mulC M d 4 in
    idx_range h 20 e.

  Hypothesis HM : 2 ^ 17 <= M.

  Lemma P17 : 2 ^ 17 = 131072. Proof. reflexivity. Qed.

  Lemma rd16_lt s i x : bytes_ok (snd s) -> rd16 s i = Ok x -> x < 65536.
  Proof.
    intros Hok. unfold rd16.
    destruct (rdU s i) as [a|?|?] eqn:Ea; cbn [bind]; try discriminate.
    destruct (rdU s (i + 1)) as [c|?|?] eqn:Ec; cbn [bind]; try discriminate.
    intros H. injection H as <-.
    pose proof (rdU_byte s i a Hok Ea). pose proof (rdU_byte s (i + 1) c Hok Ec). unfold be16. lia.
  Qed.

  Lemma sll_sender_addressC_eq h : bytes_ok (snd h) ->
    sll_sender_addressC h = LinuxSllHeaderA.sender_address h.
  Proof.
    intros Hok. unfold sll_sender_addressC, LinuxSllHeaderA.sender_address. pose proof P17.
    destruct (LinuxSllHeaderA.sender_address_valid_length h) as [l|e|b] eqn:El; cbn [bind]; try reflexivity.
    pose proof (rd16_lt h 4 l Hok El).
    rewrite addC_ok by lia. cbn [bind]. rewrite addC_ok by lia. reflexivity.
  Qed.

  Lemma macsec_header_lenC_eq h : macsec_header_lenC h = MacsecHeaderA.header_len h.
  Proof.
    unfold macsec_header_lenC, MacsecHeaderA.header_len. pose proof P17.
    destruct (MacsecHeaderA.sci_present h) as [sc|e|b]; cbn [bind]; try reflexivity.
    destruct (MacsecHeaderA.is_unmodified h) as [un|e|b]; cbn [bind]; try reflexivity.
    rewrite addC_ok by (destruct sc; lia). cbn [bind].
    rewrite addC_ok by (destruct sc, un; lia). reflexivity.
  Qed.

  Lemma arpC_eq a : bytes_ok (snd a) ->
    arp_sender_protocol_addrC a = ArpPacketA.sender_protocol_addr a /\
    arp_target_hw_addrC a = ArpPacketA.target_hw_addr a /\
    arp_target_protocol_addrC a = ArpPacketA.target_protocol_addr a.
  Proof.
    intros Hok. pose proof P17.
    unfold arp_sender_protocol_addrC, arp_target_hw_addrC, arp_target_protocol_addrC,
      ArpPacketA.sender_protocol_addr, ArpPacketA.target_hw_addr, ArpPacketA.target_protocol_addr,
      ArpPacketA.hw_addr_size, ArpPacketA.proto_addr_size.
    destruct (rdU a 4) as [hw|e|b] eqn:E4; cbn [bind]; [|repeat split..].
    destruct (rdU a 5) as [pr|e|b] eqn:E5; cbn [bind]; [|repeat split..].
    pose proof (rdU_byte a 4 hw Hok E4). pose proof (rdU_byte a 5 pr Hok E5).
    rewrite (mulC_ok M hw 2) by lia. cbn [bind].
    rewrite (addC_ok M 8 hw) by lia. rewrite (addC_ok M 8 (hw * 2)) by lia. cbn [bind].
    rewrite (addC_ok M (8 + hw) pr) by lia. rewrite (addC_ok M (8 + hw * 2) pr) by lia.
    repeat split.
  Qed.

  Lemma raw_from_slice_uncheckedC_eq s : bytes_ok (snd s) ->
    raw_from_slice_uncheckedC s = Ipv6RawExtHeaderA.from_slice_unchecked s.
  Proof.
    intros Hok. unfold raw_from_slice_uncheckedC, Ipv6RawExtHeaderA.from_slice_unchecked. pose proof P17.
    destruct (rdU s 1) as [b|e|n] eqn:E1; cbn [bind]; try reflexivity.
    pose proof (rdU_byte s 1 b Hok E1).
    rewrite addC_ok by lia. cbn [bind]. rewrite mulC_ok by lia. reflexivity.
  Qed.

  Lemma auth_from_slice_uncheckedC_eq s : bytes_ok (snd s) ->
    auth_from_slice_uncheckedC s = Ipv6ExtIterA.auth_from_slice_unchecked s.
  Proof.
    intros Hok. unfold auth_from_slice_uncheckedC, Ipv6ExtIterA.auth_from_slice_unchecked. pose proof P17.
    destruct (rdU s 1) as [b|e|n] eqn:E1; cbn [bind]; try reflexivity.
    pose proof (rdU_byte s 1 b Hok E1).
    rewrite addC_ok by lia. cbn [bind]. rewrite mulC_ok by lia. reflexivity.
  Qed.

  Lemma tcp_optionsC_eq h : tcp_optionsC h = TcpHeaderSliceA.options h.
  Proof.
    unfold tcp_optionsC, TcpHeaderSliceA.options, TcpFieldsA.data_offset. pose proof P17.
    destruct (rdU h 12) as [b|e|n]; cbn [bind]; try reflexivity.
    pose proof (tcp_hl_le b). rewrite <- (tcp_do_hl b) in *.
    rewrite mulC_ok by lia. reflexivity.
  Qed.
End Checked.

Theorem accessor_arith_bounds : forall M s, 2 ^ 17 <= M -> bytes_ok (snd s) ->
  sll_sender_addressC M s = LinuxSllHeaderA.sender_address s /\
  macsec_header_lenC M s = MacsecHeaderA.header_len s /\
  arp_sender_protocol_addrC M s = ArpPacketA.sender_protocol_addr s /\
  arp_target_hw_addrC M s = ArpPacketA.target_hw_addr s /\
  arp_target_protocol_addrC M s = ArpPacketA.target_protocol_addr s /\
  raw_from_slice_uncheckedC M s = Ipv6RawExtHeaderA.from_slice_unchecked s /\
  auth_from_slice_uncheckedC M s = Ipv6ExtIterA.auth_from_slice_unchecked s /\
  tcp_optionsC M s = TcpHeaderSliceA.options s.
Proof.
  intros M s HM Hok.
  split; [now apply sll_sender_addressC_eq|]. split; [now apply macsec_header_lenC_eq|].
  destruct (arpC_eq M HM s Hok) as (A1 & A2 & A3).
  split; [exact A1|]. split; [exact A2|]. split; [exact A3|].
  split; [now apply raw_from_slice_uncheckedC_eq|]. split; [now apply auth_from_slice_uncheckedC_eq|].
  now apply tcp_optionsC_eq.
Qed.

(* the largest values are reached, and an 8-bit usize would overflow *)
Example accessor_arith_ex :
  (match arp_target_protocol_addrC (2 ^ 32) (mk_slice ([0;1;8;0;255;255;0;1] ++ repeat 0 1020%nat)) with
   | Ok w => Some (win_of w) | _ => None end,
   match raw_from_slice_uncheckedC (2 ^ 32) (mk_slice ([17;255] ++ repeat 0 2046%nat)) with
   | Ok w => Some (win_of w) | _ => None end,
   match tcp_optionsC (2 ^ 32) (mk_slice (repeat 0 12%nat ++ [240] ++ repeat 0 47%nat)) with
   | Ok w => Some (win_of w) | _ => None end) =
  (Some (773, 255), Some (0, 2048), Some (20, 40)) /\
  arp_target_protocol_addrC (2 ^ 8) (mk_slice ([0;1;8;0;255;255;0;1] ++ repeat 0 1020%nat)) = Bug SITE_OVERFLOW /\
  raw_from_slice_uncheckedC (2 ^ 8) (mk_slice ([17;255] ++ repeat 0 2046%nat)) = Bug SITE_OVERFLOW.
Proof. vm_compute. repeat split. Qed.
