(* Parse/LaxPrefixNet.v -- (b) for faults INSIDE the network layer (audit round 1, C05).
     to_pres_*        : pwire2 (LaxWire2.v) with the extra information forgotten is pwire (LaxWire.v),
                        hence WireSpec's reading of the packet (pwire2_sound)
     chain2_lwire     : the extension chain walk of the strict reference that reports where it stood,
                        against the chain walk of the lax reference decoder
     n_*              : pwire2 rejects inside the network layer -> the lax reference decoding has exactly
                        the network layer pwire2 hands back and the stop error (same record, the tag of
                        the faulty header); for the two IP length fallbacks: the network layer of the
                        resumed strict decoding, flagged as (d) prescribes
     net_rej_class    : pwire2 answers P2RejNet / P2Fb exactly for the errors that name a place inside
                        the network layer (in_net_layer)
   Transferred to the strict and lax MODELS with StrictProofs.v / LaxWireProofs.v. *)
From EP Require Import Base.Bytes Parse.Types Parse.Slices Parse.Cursor Parse.View Parse.WireSpec Parse.Repr
  Parse.StrictProofs Parse.LaxSlices Parse.LaxCursor Parse.LaxView Parse.LaxProofs Parse.LaxFacts
  Parse.LaxWire Parse.LaxWireProofs Parse.LaxWireFacts Parse.LaxPrefix Parse.LaxWire2.
From Coq Require Import ZArith Lia ZifyN ZifyBool.
Local Open Scope N_scope.

(* ---- pwire2 is pwire ------------------------------------------------------------------------------ *)
Lemma to_pres_of p r : to_pres (pres2_of p r) = pres_of p r.
Proof. destruct r; reflexivity. Qed.
Lemma to_pres_net p n tag r : to_pres (pres2_net p n tag r) = pres_of p r.
Proof. destruct r; reflexivity. Qed.

Lemma chain2_forget bs src fuel : forall pos lim nh frag,
  forget_ch2 (wire_chain2 bs fuel src pos lim nh frag) = wire_chain bs fuel src pos lim nh frag.
Proof.
  induction fuel as [|f IH]; intros pos lim nh frag; cbn [wire_chain2 wire_chain]; [reflexivity|].
  destruct (nh =? 0); [reflexivity|].
  destruct ((nh =? 60) || (nh =? 43)).
  { destruct (lim - pos <? 8); [reflexivity|].
    destruct (lim - pos <? (B bs (pos + 1) + 1) * 8); [reflexivity|apply IH]. }
  destruct (nh =? 44).
  { destruct (lim - pos <? 8); [reflexivity|apply IH]. }
  destruct (nh =? 51); [|reflexivity].
  destruct (wire_ah bs CeIpv6AuthZeroPayloadLen src pos lim); [apply IH|reflexivity].
Qed.

Lemma exts2_forget bs src fuel pos lim nh :
  forget_ch2 (wire_exts2 bs fuel src pos lim nh) = wire_exts bs fuel src pos lim nh.
Proof.
  unfold wire_exts2, wire_exts. destruct (nh =? 0); [|apply chain2_forget].
  destruct (lim - pos <? 8); [reflexivity|].
  destruct (lim - pos <? (B bs (pos + 1) + 1) * 8); [reflexivity|apply chain2_forget].
Qed.

Lemma to_pres_ipv4_tail bs p inc pos hl lim' :
  to_pres (pwire2_ipv4_tail bs p LsIpv4HeaderTotalLen LsIpv4HeaderTotalLen inc pos hl lim')
  = pwire_ipv4_tail bs p pos hl lim'.
Proof.
  unfold pwire2_ipv4_tail, pwire_ipv4_tail, pwire_transport. cbv zeta.
  destruct (B bs (pos + 9) =? 51); [|apply to_pres_of].
  destruct (wire_ah bs CeAuthZeroPayloadLen LsIpv4HeaderTotalLen (pos + hl) lim');
    [apply to_pres_of|apply to_pres_net].
Qed.

Lemma to_pres_ipv4_body bs p src pos lim hl :
  to_pres (pwire2_ipv4_body bs p src pos lim hl) = pwire_ipv4_body bs p src pos lim hl.
Proof.
  unfold pwire2_ipv4_body, pwire_ipv4_body.
  destruct (W bs (pos + 2) <? hl); [reflexivity|].
  destruct (lim - pos <? W bs (pos + 2)); [reflexivity|]. apply to_pres_ipv4_tail.
Qed.

Lemma to_pres_ipv4 bs p src pos lim :
  to_pres (pwire2_ipv4 bs p src pos lim) = pwire_ipv4 bs p src pos lim.
Proof.
  unfold pwire2_ipv4, pwire_ipv4.
  destruct (lim - pos <? 20); [reflexivity|].
  destruct (negb (B bs pos / 16 =? 4)); [reflexivity|].
  destruct (B bs pos mod 16 <? 5); [reflexivity|].
  destruct (lim - pos <? B bs pos mod 16 * 4); [reflexivity|]. apply to_pres_ipv4_body.
Qed.

Lemma to_pres_ipv6_tail bs p esrc psrc inc pos lim' :
  to_pres (pwire2_ipv6_tail bs p esrc psrc inc pos lim') = pwire_ipv6_tail bs p esrc psrc pos lim'.
Proof.
  unfold pwire2_ipv6_tail, pwire_ipv6_tail, pwire_transport. cbv zeta.
  rewrite <- exts2_forget.
  destruct (wire_exts2 bs _ esrc (pos + 40) lim' (B bs (pos + 6))); cbn [forget_ch2];
    [apply to_pres_of|apply to_pres_net].
Qed.

Lemma to_pres_ipv6_body bs p src pos lim :
  to_pres (pwire2_ipv6_body bs p src pos lim) = pwire_ipv6_body bs p src pos lim.
Proof.
  unfold pwire2_ipv6_body, pwire_ipv6_body.
  destruct ((W bs (pos + 4) =? 0) && (40 <? lim - pos)); [apply to_pres_ipv6_tail|].
  destruct (lim - pos <? 40 + W bs (pos + 4)); [reflexivity|]. apply to_pres_ipv6_tail.
Qed.

Lemma to_pres_ipv6 bs p src pos lim :
  to_pres (pwire2_ipv6 bs p src pos lim) = pwire_ipv6 bs p src pos lim.
Proof.
  unfold pwire2_ipv6, pwire_ipv6.
  destruct (lim - pos <? 40); [reflexivity|].
  destruct (negb (B bs pos / 16 =? 6)); [reflexivity|]. apply to_pres_ipv6_body.
Qed.

Lemma to_pres_ip bs p src pos lim :
  to_pres (pwire2_ip bs p src pos lim) = pwire_ip bs p src pos lim.
Proof.
  unfold pwire2_ip, pwire_ip.
  destruct (lim - pos =? 0); [reflexivity|].
  destruct (B bs pos / 16 =? 4).
  { destruct (B bs pos mod 16 <? 5); [reflexivity|].
    destruct (lim - pos <? B bs pos mod 16 * 4); [reflexivity|]. apply to_pres_ipv4_body. }
  destruct (B bs pos / 16 =? 6); [|reflexivity].
  destruct (lim - pos <? 40); [reflexivity|]. apply to_pres_ipv6_body.
Qed.

Lemma to_pres_net_step bs p et src pos lim :
  to_pres (pwire2_net bs p et src pos lim) = pwire_net bs p et src pos lim.
Proof.
  unfold pwire2_net, pwire_net.
  destruct (et =? 2054); [apply to_pres_of|].
  destruct (et =? 2048); [apply to_pres_ipv4|].
  destruct (et =? 34525); [apply to_pres_ipv6|reflexivity].
Qed.

Lemma to_pres_ether bs cap : forall p et src pos lim,
  to_pres (pwire2_ether bs cap p et src pos lim) = pwire_ether bs cap p et src pos lim.
Proof.
  induction cap as [|cap IH]; intros p et src pos lim; cbn [pwire2_ether pwire_ether].
  - destruct (is_vlan et); [reflexivity|]. destruct (et =? 35045); [reflexivity|]. apply to_pres_net_step.
  - destruct (is_vlan et).
    { destruct (lim - pos <? 4); [reflexivity|apply IH]. }
    destruct (et =? 35045); [|apply to_pres_net_step].
    destruct (lim - pos <? 6); [reflexivity|].
    destruct (128 <=? B bs pos); [reflexivity|].
    destruct (((B bs pos / 4) mod 4 =? 0) && (B bs (pos + 1) mod 64 =? 1)); [reflexivity|].
    destruct (lim - pos <? _); [reflexivity|].
    destruct ((0 <? B bs (pos + 1) mod 64) && _); [reflexivity|].
    destruct ((B bs pos / 4) mod 4 =? 0); [apply IH|reflexivity].
Qed.

Theorem pwire2_is_pwire bs et :
  to_pres (pwire2_ethernet bs) = pwire_ethernet bs /\
  to_pres (pwire2_ether_type bs et) = pwire_ether_type bs et /\
  to_pres (pwire2_from_ip bs) = pwire_from_ip bs.
Proof.
  split; [|split].
  - unfold pwire2_ethernet, pwire_ethernet. destruct (n_bs bs <? 14); [reflexivity|apply to_pres_ether].
  - apply to_pres_ether.
  - apply to_pres_ip.
Qed.

(* pwire2 accepts / rejects exactly like the wire format specification, with the same error record *)
Theorem pwire2_sound bs et :
  forget (to_pres (pwire2_ethernet bs)) = wire_ethernet bs /\
  forget (to_pres (pwire2_ether_type bs et)) = wire_ether_type bs et /\
  forget (to_pres (pwire2_from_ip bs)) = wire_from_ip bs.
Proof.
  destruct (pwire2_is_pwire bs et) as (-> & -> & ->). apply pwire_sound.
Qed.

(* ---- the chain walk that reports where it stood, against the lax reference chain walk ------------ *)
Definition chain2_agree (w : chain_res2) (l : N * N * bool * option stop_error) : Prop :=
  match w with
  | Ch2Ok e next fr => l = (e, next, fr, None)
  | Ch2Err e nh fr tag r => exists err, r = VErr err /\ l = (e, nh, fr, Some (err, tag))
  end.

Lemma ah_dec_bound bs zero src pos lim l next :
  ah_dec bs zero src pos lim = inl (l, next) -> 12 <= l /\ l <= lim - pos.
Proof. apply ah_dec_inl. Qed.

(* the fuel S (lim - pos) always suffices: every continuing step consumes at least 8 bytes *)
Lemma chain2_lwire bs src fuel : forall pos lim nh frag,
  (N.to_nat (lim - pos) < fuel)%nat ->
  chain2_agree (wire_chain2 bs fuel src pos lim nh frag) (lwire_chain bs fuel src pos lim nh frag).
Proof.
  induction fuel as [|f IH]; intros pos lim nh frag Hf; [lia|].
  cbn [wire_chain2 lwire_chain]. unfold cut, bad.
  destruct (nh =? 0). { cbn. eexists. split; reflexivity. }
  destruct ((nh =? 60) || (nh =? 43)).
  { destruct (lim - pos <? 8) eqn:E8. { cbn. eexists. split; reflexivity. }
    destruct (lim - pos <? (B bs (pos + 1) + 1) * 8) eqn:El. { cbn. eexists. split; reflexivity. }
    apply IH. lia. }
  destruct (nh =? 44).
  { destruct (lim - pos <? 8) eqn:E8. { cbn. eexists. split; reflexivity. }
    apply IH. lia. }
  destruct (nh =? 51); [|reflexivity].
  rewrite ah_dec_wire.
  destruct (ah_dec bs CeIpv6AuthZeroPayloadLen src pos lim) as [[l next]|e] eqn:Ea.
  - apply ah_dec_inl in Ea. apply IH. lia.
  - cbn. eexists. split; reflexivity.
Qed.

Lemma exts2_lwire bs src fuel pos lim nh :
  (N.to_nat (lim - pos) < fuel)%nat ->
  chain2_agree (wire_exts2 bs fuel src pos lim nh) (lwire_exts bs fuel src pos lim nh).
Proof.
  intros Hf. unfold wire_exts2, lwire_exts, cut.
  destruct (nh =? 0); [|now apply chain2_lwire].
  destruct (lim - pos <? 8) eqn:E8. { cbn. eexists. split; reflexivity. }
  destruct (lim - pos <? (B bs (pos + 1) + 1) * 8) eqn:El. { cbn. eexists. split; reflexivity. }
  apply chain2_lwire. lia.
Qed.

(* ---- transport step of the strict reference: never Bug, keeps the network layer -------------------- *)
Lemma wire_transport_cases bs p ipn frag src pos lim :
  match wire_transport bs p ipn frag src pos lim with
  | VOk q => v_net q = v_net p
  | VErr e => in_net_layer e = false
  | VBug _ => False
  end.
Proof.
  unfold wire_transport, wire_icmp4, wire_udp, wire_tcp, wire_icmp6, cut, bad.
  repeat match goal with |- context[if ?c then _ else _] => destruct c end; reflexivity.
Qed.

Lemma wire_ah_err_class bs zero src pos lim :
  (zero = CeAuthZeroPayloadLen \/ zero = CeIpv6AuthZeroPayloadLen) ->
  match wire_ah bs zero src pos lim with
  | AhErr r => exists e, r = VErr e /\ in_net_layer e = true
  | AhOk _ _ => True
  end.
Proof.
  intros Hz. unfold wire_ah, cut, bad.
  destruct (lim - pos <? 12). { eexists. split; reflexivity. }
  destruct (B bs (pos + 1) =? 0). { eexists. split; [reflexivity|]. destruct Hz as [->| ->]; reflexivity. }
  destruct (lim - pos <? (B bs (pos + 1) + 2) * 4); [|exact I]. eexists. split; reflexivity.
Qed.

Lemma chain2_err_class bs src fuel : forall pos lim nh frag,
  match wire_chain2 bs fuel src pos lim nh frag with
  | Ch2Err _ _ _ _ (VErr e) => in_net_layer e = true
  | _ => True
  end.
Proof.
  induction fuel as [|f IH]; intros pos lim nh frag; cbn [wire_chain2]; [exact I|].
  unfold cut, bad.
  destruct (nh =? 0); [reflexivity|].
  destruct ((nh =? 60) || (nh =? 43)).
  { destruct (lim - pos <? 8); [reflexivity|].
    destruct (lim - pos <? (B bs (pos + 1) + 1) * 8); [reflexivity|apply IH]. }
  destruct (nh =? 44).
  { destruct (lim - pos <? 8); [reflexivity|apply IH]. }
  destruct (nh =? 51); [|exact I].
  pose proof (wire_ah_err_class bs CeIpv6AuthZeroPayloadLen src pos lim (or_intror eq_refl)) as A.
  destruct (wire_ah bs CeIpv6AuthZeroPayloadLen src pos lim); [apply IH|].
  destruct A as (e & -> & A). exact A.
Qed.

Lemma exts2_err_class bs src fuel pos lim nh :
  match wire_exts2 bs fuel src pos lim nh with
  | Ch2Err _ _ _ _ (VErr e) => in_net_layer e = true
  | _ => True
  end.
Proof.
  unfold wire_exts2, cut. destruct (nh =? 0); [|apply chain2_err_class].
  destruct (lim - pos <? 8); [reflexivity|].
  destruct (lim - pos <? (B bs (pos + 1) + 1) * 8); [reflexivity|apply chain2_err_class].
Qed.

(* ---- pwire2 answers P2RejNet / P2Fb exactly for the errors naming a place inside the network layer -- *)
Definition class_ok (pw : pres2) : Prop :=
  forall e, rej2 pw = Some e -> is_net_rej pw = in_net_layer e.

Lemma class_rej p e : in_net_layer e = false -> class_ok (P2Rej p e).
Proof. intros H e' E. injection E as <-. now rewrite H. Qed.

Lemma class_of_transport bs p ipn frag src pos lim :
  class_ok (pres2_of p (wire_transport bs p ipn frag src pos lim)).
Proof.
  pose proof (wire_transport_cases bs p ipn frag src pos lim) as C.
  destruct (wire_transport bs p ipn frag src pos lim); cbn [pres2_of]; intros e' E; try discriminate.
  injection E as <-. now rewrite C.
Qed.

Lemma class_ipv4_tail bs p esrc psrc inc pos hl lim' :
  class_ok (pwire2_ipv4_tail bs p esrc psrc inc pos hl lim').
Proof.
  unfold pwire2_ipv4_tail. cbv zeta.
  destruct (B bs (pos + 9) =? 51); [|apply class_of_transport].
  pose proof (wire_ah_err_class bs CeAuthZeroPayloadLen esrc (pos + hl) lim' (or_introl eq_refl)) as A.
  destruct (wire_ah bs CeAuthZeroPayloadLen esrc (pos + hl) lim'); [apply class_of_transport|].
  destruct A as (e & -> & A). intros e' E. injection E as <-. now rewrite A.
Qed.

Lemma class_ipv6_tail bs p esrc psrc inc pos lim' :
  class_ok (pwire2_ipv6_tail bs p esrc psrc inc pos lim').
Proof.
  unfold pwire2_ipv6_tail. cbv zeta.
  pose proof (exts2_err_class bs esrc (S (N.to_nat (lim' - (pos + 40)))) (pos + 40) lim' (B bs (pos + 6))) as A.
  destruct (wire_exts2 bs _ esrc (pos + 40) lim' (B bs (pos + 6))) as [e nx fr|e nh fr tag r];
    [apply class_of_transport|].
  destruct r; cbn [pres2_net]; intros e' E; try discriminate. injection E as <-. now rewrite A.
Qed.

Lemma class_fb p l inc r :
  in_net_layer (ELen l) = true -> class_ok (P2Fb p (ELen l) inc r).
Proof. intros H e' E. injection E as <-. now rewrite H. Qed.

Lemma class_ipv4_body bs p src pos lim hl : class_ok (pwire2_ipv4_body bs p src pos lim hl).
Proof.
  unfold pwire2_ipv4_body.
  destruct (W bs (pos + 2) <? hl); [now apply class_fb|].
  destruct (lim - pos <? W bs (pos + 2)); [now apply class_fb|apply class_ipv4_tail].
Qed.

Lemma class_ipv6_body bs p src pos lim : class_ok (pwire2_ipv6_body bs p src pos lim).
Proof.
  unfold pwire2_ipv6_body.
  destruct ((W bs (pos + 4) =? 0) && (40 <? lim - pos)); [apply class_ipv6_tail|].
  destruct (lim - pos <? 40 + W bs (pos + 4)); [now apply class_fb|apply class_ipv6_tail].
Qed.

Lemma class_net_step bs p et src pos lim : class_ok (pwire2_net bs p et src pos lim).
Proof.
  unfold pwire2_net.
  destruct (et =? 2054).
  { unfold wire_arp, cut.
    repeat match goal with |- context[if ?c then _ else _] => destruct c end;
      cbn [pres2_of]; first [now apply class_rej | intros e' E; discriminate]. }
  destruct (et =? 2048).
  { unfold pwire2_ipv4.
    repeat match goal with |- context[if ?c then P2Rej _ _ else _] => destruct c; [now apply class_rej|] end.
    apply class_ipv4_body. }
  destruct (et =? 34525); [|intros e' E; discriminate].
  unfold pwire2_ipv6.
  repeat match goal with |- context[if ?c then P2Rej _ _ else _] => destruct c; [now apply class_rej|] end.
  apply class_ipv6_body.
Qed.

Lemma class_ip bs p src pos lim : class_ok (pwire2_ip bs p src pos lim).
Proof.
  unfold pwire2_ip.
  destruct (lim - pos =? 0); [now apply class_rej|].
  destruct (B bs pos / 16 =? 4).
  { destruct (B bs pos mod 16 <? 5); [now apply class_rej|].
    destruct (lim - pos <? B bs pos mod 16 * 4); [now apply class_rej|apply class_ipv4_body]. }
  destruct (B bs pos / 16 =? 6); [|now apply class_rej].
  destruct (lim - pos <? 40); [now apply class_rej|apply class_ipv6_body].
Qed.

Lemma class_ether bs cap : forall p et src pos lim, class_ok (pwire2_ether bs cap p et src pos lim).
Proof.
  induction cap as [|cap IH]; intros p et src pos lim; cbn [pwire2_ether].
  - destruct (is_vlan et); [intros e' E; discriminate|].
    destruct (et =? 35045); [intros e' E; discriminate|]. apply class_net_step.
  - destruct (is_vlan et).
    { destruct (lim - pos <? 4); [now apply class_rej|apply IH]. }
    destruct (et =? 35045); [|apply class_net_step].
    destruct (lim - pos <? 6); [now apply class_rej|].
    destruct (128 <=? B bs pos); [now apply class_rej|].
    destruct (((B bs pos / 4) mod 4 =? 0) && (B bs (pos + 1) mod 64 =? 1)); [now apply class_rej|].
    destruct (lim - pos <? _); [now apply class_rej|].
    destruct ((0 <? B bs (pos + 1) mod 64) && _); [now apply class_rej|].
    destruct ((B bs pos / 4) mod 4 =? 0); [apply IH|intros e' E; discriminate].
Qed.

Theorem net_rej_class bs et :
  class_ok (pwire2_ethernet bs) /\ class_ok (pwire2_ether_type bs et) /\ class_ok (pwire2_from_ip bs).
Proof.
  split; [|split].
  - unfold pwire2_ethernet. destruct (n_bs bs <? 14); [now apply class_rej|apply class_ether].
  - apply class_ether.
  - apply class_ip.
Qed.

(* ---- IPv4 / IPv6 behind a decodable header: the network layer of the lax reference decoding ------- *)
(* what a tail of pwire2 (decoding behind the length checks) says about the lax decoding r whose
   network layer is net.  Literally the inner clause of `net_outcome`. *)
Definition tail_match (pw : pres2) (r : lvpacket) (net : lvnet) : Prop :=
  match pw with
  | P2RejNet _ n' tag e' => n' = net /\ stopped_in_net r net tag e'
  | P2Acc q' => v_net q' = Some (strictify_net net)
  | P2Rej q' e' => v_net q' = Some (strictify_net net) /\ lax_outcome e' r
  | _ => False
  end.
Definition tail_outcome (inc : bool) (psrc : len_source) (pw : pres2) (r : lvpacket) (net : lvnet) : Prop :=
  lv_net r = Some net /\ net_flags net = Some (inc, psrc) /\ tail_match pw r net.

Section NetBody.
  Variables (bs : bytes) (p : vpacket) (lp : lvpacket) (src : len_source) (pos lim : N).
  Hypothesis Hs : strictify lp = p.
  Hypothesis Hst : lv_stop lp = None.
  Hypothesis Hn : lv_net lp = None.
  Hypothesis Htr : lv_transport lp = None.

  (* behind a completely decoded network layer *)
  Lemma n_transport net ipn frag esrc psrc pos' l' :
    (psrc = esrc \/ psrc = LsSlice) ->
    let q := with_net p (strictify_net net) in
    let r := lwire_transport bs (lwith_net lp net) ipn frag psrc pos' l' in
    lv_net r = Some net /\
    tail_match (pres2_of q (wire_transport bs q ipn frag esrc pos' l')) r net.
  Proof.
    intros Hps q r. split.
    { subst r. destruct (ltransport_keeps bs (lwith_net lp net) ipn frag psrc pos' l') as (_ & _ & ->).
      reflexivity. }
    pose proof (wire_transport_cases bs q ipn frag esrc pos' l') as C.
    destruct (wire_transport bs q ipn frag esrc pos' l') as [q'|e'|s] eqn:E; cbn [pres2_of tail_match].
    - rewrite C. reflexivity.
    - split; [reflexivity|].
      refine (proj2 (b_transport bs q (lwith_net lp net) ipn frag esrc psrc pos' l' q e' _ Hst Htr Hps _)).
      + subst q. rewrite strictify_lwith_net, Hs. reflexivity.
      + unfold pwire_transport. rewrite E. reflexivity.
    - exact C.
  Qed.

  Lemma stopped_lstop net tag e ipn frag psrc pos' l' :
    stopped_in_net (lwire_transport bs (lstop (lwith_net lp net) (e, tag)) ipn frag psrc pos' l') net tag e.
  Proof.
    rewrite (ltransport_stop_keeps _ _ _ _ _ _ _ (e, tag)) by reflexivity.
    unfold stopped_in_net. cbn. auto.
  Qed.

  Lemma n_ipv4_tail esrc psrc inc hl lim' :
    pick_src psrc src = esrc -> (psrc = esrc \/ psrc = LsSlice) ->
    let '(net, pl, st, l') := lwire_ipv4_parts bs src pos hl lim' psrc inc in
    tail_outcome inc psrc (pwire2_ipv4_tail bs p esrc psrc inc pos hl lim')
      (lwire_transport bs (lstop_opt (lwith_net lp net) st)
         (lvip_number pl) (lvip_frag pl) (lvip_src pl) (fst (lvip_win pl)) l') net.
  Proof.
    intros Hpick Hps. unfold pwire2_ipv4_tail, lwire_ipv4_parts. rewrite Hpick. cbv zeta.
    destruct (B bs (pos + 9) =? 51).
    - rewrite ah_dec_wire.
      destruct (ah_dec bs CeAuthZeroPayloadLen esrc (pos + hl) lim') as [[ahl next]|e0] eqn:Ea.
      + cbn [lstop_opt lvip_number lvip_frag lvip_src lvip_win fst].
        destruct (n_transport
                    (LVIpv4 (pos, hl) (Some (pos + hl, ahl))
                       (mkLVIp inc next (ipv4_fragmented bs pos) psrc (pos + hl + ahl, lim' - (pos + hl + ahl))))
                    next (ipv4_fragmented bs pos) esrc psrc (pos + hl + ahl) lim' Hps) as (N1 & N2).
        split; [exact N1|]. split; [reflexivity|exact N2].
      + cbn [lstop_opt pres2_net]. split.
        { rewrite (ltransport_stop_keeps _ _ _ _ _ _ _ (e0, LyIpAuthHeader)) by reflexivity. reflexivity. }
        split; [reflexivity|]. split; [reflexivity|apply stopped_lstop].
    - cbn [lstop_opt lvip_number lvip_frag lvip_src lvip_win fst].
      destruct (n_transport
                  (LVIpv4 (pos, hl) None
                     (mkLVIp inc (B bs (pos + 9)) (ipv4_fragmented bs pos) psrc (pos + hl, lim' - (pos + hl))))
                  (B bs (pos + 9)) (ipv4_fragmented bs pos) esrc psrc (pos + hl) lim' Hps) as (N1 & N2).
      split; [exact N1|]. split; [reflexivity|exact N2].
  Qed.

  Lemma n_ipv6_tail esrc psrc inc lim' :
    pick_src psrc src = esrc -> (psrc = esrc \/ psrc = LsSlice) ->
    let '(net, pl, st, l') := lwire_ipv6_parts bs src pos lim' psrc inc in
    tail_outcome inc psrc (pwire2_ipv6_tail bs p esrc psrc inc pos lim')
      (lwire_transport bs (lstop_opt (lwith_net lp net) st)
         (lvip_number pl) (lvip_frag pl) (lvip_src pl) (fst (lvip_win pl)) l') net.
  Proof.
    intros Hpick Hps. unfold pwire2_ipv6_tail, lwire_ipv6_parts. rewrite Hpick. cbv zeta.
    pose proof (exts2_lwire bs esrc (S (N.to_nat (lim' - (pos + 40)))) (pos + 40) lim' (B bs (pos + 6))
                  ltac:(lia)) as X.
    destruct (wire_exts2 bs _ esrc (pos + 40) lim' (B bs (pos + 6))) as [e1 next fr|e1 nh fr tag r].
    - cbn in X. rewrite X. cbn [lstop_opt lvip_number lvip_frag lvip_src lvip_win fst].
      destruct (n_transport
                  (LVIpv6 (pos, 40) (if e1 =? pos + 40 then None else Some (B bs (pos + 6))) fr
                     (pos + 40, e1 - (pos + 40)) (mkLVIp inc next fr psrc (e1, lim' - e1)))
                  next fr esrc psrc e1 lim' Hps) as (N1 & N2).
      split; [exact N1|]. split; [reflexivity|exact N2].
    - cbn in X. destruct X as (err & -> & ->). cbn [lstop_opt pres2_net]. split.
      { rewrite (ltransport_stop_keeps _ _ _ _ _ _ _ (err, tag)) by reflexivity. reflexivity. }
      split; [reflexivity|]. split; [reflexivity|apply stopped_lstop].
  Qed.

  (* a tail reached without a length fallback *)
  Lemma tail_strict inc psrc pw r net :
    tail_outcome inc psrc pw r net -> net_outcome lax_outcome pw r.
  Proof.
    intros (T1 & T2 & T3). destruct pw; cbn [net_outcome tail_match] in *; try exact I; try contradiction.
    destruct T3 as (-> & T3). exact T3.
  Qed.

  (* a tail reached through a length fallback *)
  Lemma tail_fb q e inc pw r net :
    tail_outcome inc LsSlice pw r net -> net_outcome lax_outcome (P2Fb q e inc pw) r.
  Proof.
    intros (T1 & T2 & T3). cbn [net_outcome]. exists net. split; [exact T1|]. split; [exact T2|exact T3].
  Qed.

  Lemma n_ipv4_body :
    B bs pos / 16 = 4 ->
    net_outcome lax_outcome (pwire2_ipv4_body bs p src pos lim (B bs pos mod 16 * 4))
      (lwire_ip_body bs lp src pos lim).
  Proof.
    intros H4. unfold pwire2_ipv4_body, lwire_ip_body, lwire_ip_parts.
    rewrite H4. change (4 =? 4) with true. cbv iota.
    set (hl := B bs pos mod 16 * 4).
    destruct (W bs (pos + 2) <? hl).
    { pose proof (n_ipv4_tail src LsSlice false hl lim eq_refl (or_intror eq_refl)) as T.
      destruct (lwire_ipv4_parts bs src pos hl lim LsSlice false) as [[[net pl] st] l'].
      eapply tail_fb. exact T. }
    destruct (lim - pos <? W bs (pos + 2)).
    { pose proof (n_ipv4_tail src LsSlice true hl lim eq_refl (or_intror eq_refl)) as T.
      destruct (lwire_ipv4_parts bs src pos hl lim LsSlice true) as [[[net pl] st] l'].
      eapply tail_fb. exact T. }
    pose proof (n_ipv4_tail LsIpv4HeaderTotalLen LsIpv4HeaderTotalLen false hl (pos + W bs (pos + 2))
                  eq_refl (or_introl eq_refl)) as T.
    destruct (lwire_ipv4_parts bs src pos hl (pos + W bs (pos + 2)) LsIpv4HeaderTotalLen false)
      as [[[net pl] st] l'].
    eapply tail_strict. exact T.
  Qed.

  Lemma n_ipv6_body :
    B bs pos / 16 = 6 ->
    net_outcome lax_outcome (pwire2_ipv6_body bs p src pos lim) (lwire_ip_body bs lp src pos lim).
  Proof.
    intros H6. unfold pwire2_ipv6_body, lwire_ip_body, lwire_ip_parts.
    rewrite H6. change (6 =? 4) with false. cbv iota.
    destruct ((W bs (pos + 4) =? 0) && (40 <? lim - pos)).
    { pose proof (n_ipv6_tail src LsSlice false lim eq_refl (or_intror eq_refl)) as T.
      destruct (lwire_ipv6_parts bs src pos lim LsSlice false) as [[[net pl] st] l'].
      eapply tail_strict. exact T. }
    destruct (lim - pos <? 40 + W bs (pos + 4)).
    { pose proof (n_ipv6_tail src LsSlice true lim eq_refl (or_intror eq_refl)) as T.
      destruct (lwire_ipv6_parts bs src pos lim LsSlice true) as [[[net pl] st] l'].
      eapply tail_fb. exact T. }
    pose proof (n_ipv6_tail LsIpv6HeaderPayloadLen LsIpv6HeaderPayloadLen false (pos + 40 + W bs (pos + 4))
                  eq_refl (or_introl eq_refl)) as T.
    destruct (lwire_ipv6_parts bs src pos (pos + 40 + W bs (pos + 4)) LsIpv6HeaderPayloadLen false)
      as [[[net pl] st] l'].
    eapply tail_strict. exact T.
  Qed.

  (* reached through the IPv4 ether type *)
  Lemma n_ipv4 : net_outcome lax_outcome (pwire2_ipv4 bs p src pos lim) (lwire_ip bs lp src pos lim).
  Proof.
    unfold pwire2_ipv4.
    destruct (lim - pos <? 20) eqn:E20; [exact I|].
    destruct (B bs pos / 16 =? 4) eqn:E4; cbn [negb]; [|exact I].
    destruct (B bs pos mod 16 <? 5) eqn:Ei; [exact I|].
    destruct (lim - pos <? B bs pos mod 16 * 4) eqn:Eh; [exact I|].
    assert (HF : ip_hdr_fault bs src pos lim = None).
    { unfold ip_hdr_fault. assert ((lim - pos =? 0) = false) as -> by lia. now rewrite E4, Ei, Eh. }
    unfold lwire_ip. rewrite HF. apply n_ipv4_body. lia.
  Qed.

  (* reached through the IPv6 ether type *)
  Lemma n_ipv6 : net_outcome lax_outcome (pwire2_ipv6 bs p src pos lim) (lwire_ip bs lp src pos lim).
  Proof.
    unfold pwire2_ipv6.
    destruct (lim - pos <? 40) eqn:E40; [exact I|].
    destruct (B bs pos / 16 =? 6) eqn:E6; cbn [negb]; [|exact I].
    assert (HF : ip_hdr_fault bs src pos lim = None).
    { unfold ip_hdr_fault. assert ((lim - pos =? 0) = false) as -> by lia.
      assert ((B bs pos / 16 =? 4) = false) as -> by lia. now rewrite E6, E40. }
    unfold lwire_ip. rewrite HF. apply n_ipv6_body. lia.
  Qed.

  (* starting at "an IP header" behind a decodable header (from_ip) *)
  Lemma n_ip :
    ip_hdr_fault bs src pos lim = None ->
    net_outcome lax_outcome (pwire2_ip bs p src pos lim) (lwire_ip_body bs lp src pos lim).
  Proof.
    unfold ip_hdr_fault, pwire2_ip.
    destruct (lim - pos =? 0) eqn:E0; [discriminate|].
    destruct (B bs pos / 16 =? 4) eqn:E4.
    - destruct (B bs pos mod 16 <? 5) eqn:Ei; [discriminate|].
      destruct (lim - pos <? B bs pos mod 16 * 4) eqn:Eh; [discriminate|]. intros _.
      apply n_ipv4_body. lia.
    - destruct (B bs pos / 16 =? 6) eqn:E6; [|discriminate].
      destruct (lim - pos <? 40) eqn:E40; [discriminate|]. intros _.
      apply n_ipv6_body. lia.
  Qed.
End NetBody.

(* ---- the link extension loop (lockstep of the strict and the lax reference decoder) ---------------- *)
Lemma net_outcome_of p r q : net_outcome lax_outcome (pres2_of p r) q.
Proof. destruct r; exact I. Qed.

Lemma n_net bs p lp et src pos lim :
  strictify lp = p -> lv_stop lp = None -> lv_net lp = None -> lv_transport lp = None ->
  net_outcome lax_outcome (pwire2_net bs p et src pos lim)
    (if et =? 2054 then lwire_arp bs lp src pos lim
     else if (et =? 2048) || (et =? 34525) then lwire_ip bs lp src pos lim else lp).
Proof.
  intros Hs Hst Hn Htr. unfold pwire2_net.
  destruct (et =? 2054); [apply net_outcome_of|].
  destruct (et =? 2048); [cbn [orb]; now apply n_ipv4|].
  destruct (et =? 34525); [cbn [orb]; now apply n_ipv6|exact I].
Qed.

Lemma n_ether bs cap : forall p lp et src pos lim,
  strictify lp = p -> lv_stop lp = None -> lv_net lp = None -> lv_transport lp = None ->
  net_outcome lax_outcome (pwire2_ether bs cap p et src pos lim) (lwire_ether bs cap lp et src pos lim).
Proof.
  induction cap as [|cap IH]; intros p lp et src pos lim Hs Hst Hn Htr; cbn [pwire2_ether lwire_ether].
  - destruct (is_vlan et); [exact I|]. destruct (et =? 35045); [exact I|]. now apply n_net.
  - destruct (is_vlan et).
    { destruct (lim - pos <? 4); [exact I|].
      apply IH; auto. rewrite strictify_lwith_ext, Hs. reflexivity. }
    destruct (et =? 35045); [|now apply n_net].
    destruct (lim - pos <? 6); [exact I|].
    destruct (128 <=? B bs pos); [exact I|].
    set (sl := B bs (pos + 1) mod 64) in *.
    set (unmod := (B bs pos / 4) mod 4 =? 0) in *.
    destruct (unmod && (sl =? 1)); [exact I|].
    set (hl := 6 + (if unmod then 2 else 0) + (if negb ((B bs pos / 32) mod 2 =? 0) then 8 else 0)) in *.
    destruct (lim - pos <? hl); [exact I|].
    set (body := if unmod then sl - 2 else sl) in *.
    cbv zeta.
    destruct ((0 <? sl) && (lim - pos <? hl + body)) eqn:Efb; [exact I|].
    assert (Esh : (0 <? sl) && negb (lim - pos <? hl + body) = (0 <? sl))
      by (destruct (0 <? sl), (lim - pos <? hl + body); cbn in *; congruence).
    rewrite Esh.
    destruct unmod; [|exact I].
    assert (Epick : pick_src (if 0 <? sl then LsMacsecShortLength else LsSlice) src
                    = (if 0 <? sl then LsMacsecShortLength else src))
      by (destruct (0 <? sl); reflexivity).
    rewrite Epick.
    apply IH; auto. rewrite strictify_lwith_ext, Hs. reflexivity.
Qed.

(* ---- (b), network layer, for the models: whole-packet entry points ------------------------------------ *)
(* strict = the strict model's verdict, pw = the finer instrumented strict reference decoder,
   lax = the lax model *)
Definition prefix_net_ok (strict : res sliced_packet) (pw : pres2) (lax : res lax_sliced_packet) : Prop :=
  forall e, strict = Err e ->
  exists e_ref r',
    rej2 pw = Some e_ref /\               (* the reference decoder rejects, with e_ref *)
    res_rel (VErr e) (VErr e_ref) /\      (* the strict model reports that fault (C03/C07 relation) *)
    is_net_rej pw = in_net_layer e /\     (* pw hands back a network layer exactly when e names a place
                                             inside the network layer *)
    lax = Ok r' /\
    net_outcome lax_outcome pw (lview r').

Lemma in_net_layer_rel e e_ref : res_rel (VErr e) (VErr e_ref) -> in_net_layer e = in_net_layer e_ref.
Proof.
  destruct e as [l|c], e_ref as [l'|c']; cbn [res_rel]; try contradiction.
  - intros (_ & _ & H & _). cbn. now rewrite H.
  - now intros ->.
Qed.

Lemma strict_err_pwire2 e w pw :
  res_rel (VErr e) w -> forget (to_pres pw) = w ->
  exists e_ref, rej2 pw = Some e_ref /\ res_rel (VErr e) (VErr e_ref).
Proof.
  intros RR F. destruct pw as [pa|q e_ref|q n tag e_ref|q e_ref inc r|s]; cbn [to_pres forget] in F; subst w.
  - destruct e; contradiction.
  - exists e_ref. split; [reflexivity|exact RR].
  - exists e_ref. split; [reflexivity|exact RR].
  - exists e_ref. split; [reflexivity|exact RR].
  - destruct e; contradiction.
Qed.

Theorem lax_prefix_net_packet bs et :
  bytes_ok bs ->
  (14 <= len bs ->
   prefix_net_ok (SlicedPacket.from_ethernet bs) (pwire2_ethernet bs) (LaxSlicedPacket.from_ethernet bs)) /\
  prefix_net_ok (SlicedPacket.from_ether_type et bs) (pwire2_ether_type bs et)
    (LaxSlicedPacket.from_ether_type et bs) /\
  (ip_header_fault bs = None ->
   prefix_net_ok (SlicedPacket.from_ip bs) (pwire2_from_ip bs) (LaxSlicedPacket.from_ip bs)).
Proof.
  intros Hok. destruct (pwire2_sound bs et) as (S1 & S2 & S3).
  destruct (net_rej_class bs et) as (C1 & C2 & C3). split; [|split].
  - intros H14 e E.
    pose proof (from_ethernet_rel bs Hok) as RR. rewrite E in RR. cbn [vres_of] in RR.
    destruct (strict_err_pwire2 e _ _ RR S1) as (e_ref & PW & RE).
    pose proof (lax_from_ethernet_eq bs Hok) as Q. unfold lwire_ethernet, n_bs in Q.
    assert (E14 : (len bs <? 14) = false) by lia. rewrite E14 in Q.
    destruct (LaxSlicedPacket.from_ethernet bs) as [r'|e'|b]; cbn [lvres_of] in Q; try discriminate.
    apply lvok_inj' in Q. exists e_ref, r'. split; [exact PW|]. split; [exact RE|].
    split; [rewrite (in_net_layer_rel _ _ RE); now apply C1|]. split; [reflexivity|].
    rewrite Q. unfold pwire2_ethernet, n_bs. rewrite E14. apply n_ether; reflexivity.
  - intros e E.
    pose proof (from_ether_type_rel bs et Hok) as RR. rewrite E in RR. cbn [vres_of] in RR.
    destruct (strict_err_pwire2 e _ _ RR S2) as (e_ref & PW & RE).
    pose proof (lax_from_ether_type_eq bs et Hok) as Q. unfold lwire_ether_type, n_bs in Q.
    destruct (LaxSlicedPacket.from_ether_type et bs) as [r'|e'|b]; cbn [lvres_of] in Q; try discriminate.
    apply lvok_inj' in Q. exists e_ref, r'. split; [exact PW|]. split; [exact RE|].
    split; [rewrite (in_net_layer_rel _ _ RE); now apply C2|]. split; [reflexivity|].
    rewrite Q. unfold pwire2_ether_type, n_bs. apply n_ether; reflexivity.
  - intros HF e E. rewrite <- ip_hdr_fault_whole in HF.
    pose proof (from_ip_rel bs Hok) as RR. rewrite E in RR. cbn [vres_of] in RR.
    destruct (strict_err_pwire2 e _ _ RR S3) as (e_ref & PW & RE).
    pose proof (lax_from_ip_eq bs Hok) as Q. unfold lwire_from_ip, n_bs in Q. rewrite HF in Q.
    destruct (LaxSlicedPacket.from_ip bs) as [r'|e'|b]; cbn [lvres_of] in Q; try discriminate.
    apply lvok_inj' in Q. exists e_ref, r'. split; [exact PW|]. split; [exact RE|].
    split; [rewrite (in_net_layer_rel _ _ RE); now apply C3|]. split; [reflexivity|].
    rewrite Q. unfold pwire2_from_ip, n_bs.
    apply (n_ip bs empty_packet lempty_packet LsSlice 0 (len bs)); try reflexivity. exact HF.
Qed.

(* ---- (d), single layer: LaxIpSlice::from_slice on every window [pos, lim) of every buffer -------------- *)
(* the payload of the returned IPv4 / IPv6 slice is marked incomplete exactly when the total length /
   40 + payload length read at the window's start exceeds the window; then len_source = Slice and the
   payload ends at the window's end (net_flag_ok of LaxWire.v, as in the whole-packet theorem) *)
Theorem lax_ipslice_incomplete bs s pos lim ip st :
  bytes_ok bs -> repr bs s pos lim ->
  LaxIpSlice.from_slice s = Ok (ip, st) ->
  net_flag_ok bs (pos, lim - pos) (lview_net (L.net_of_ip ip)).
Proof.
  intros Hok R E. pose proof R as (_ & Hp & _).
  destruct (ip_hdr_fault bs LsSlice pos lim) as [e|] eqn:HF.
  - destruct (l_ipslice_err bs s pos lim LsSlice e R HF) as (e0 & E0 & _). congruence.
  - destruct (l_ipslice_ok bs s pos lim LsSlice Hok R HF) as (ip' & st' & E' & F).
    rewrite E in E'. injection E' as <- <-.
    pose proof (ip_parts_flags bs LsSlice pos lim Hp HF) as G.
    destruct (lwire_ip_parts bs LsSlice pos lim) as [[[net pl] st1] lim'].
    destruct F as (<- & _). exact G.
Qed.
