(* Parse/LaxWire.v -- reference decoders over ABSOLUTE positions of the caller's
   buffer used by the whole-packet theorems of C05:

   (1) `lwire_*` : the LAX decoding of a packet.  Same vocabulary as WireSpec.v (a layer
       starts at `pos`, the data available to it ends at `lim`), no sub-slices, no pointer
       arithmetic, no fuel-free unchecked reads.  A fault behind the first header does not
       abort: it is stored as stop error (error record, layer tag) and decoding of further
       layers ends; a length field that promises more than [pos, lim) holds falls back to
       `lim` with the payload flagged incomplete and `Slice` as length source.
       `csrc` = the length source that imposed `lim` on the link/network layer, `psrc` = the
       length source recorded in an IP payload (named by transport errors).
   (2) `pwire_*` : the STRICT reference decoder of WireSpec.v, instrumented to hand back the
       packet decoded so far when it rejects (`PRej p e`: every layer in front of the fault).
       `pwire_sound` (LaxWireProofs.v) proves that forgetting `p` gives `wire_*` back.
   (3) the predicates the whole-packet theorems are stated with: `vprefix`, `fallback`,
       `lax_same`, `ip_hdr_class`, `F10_class`, `packet_flags_ok`. *)
From EP Require Import Base.Bytes Parse.Types Parse.Slices Parse.Cursor Parse.View Parse.WireSpec
  Parse.LaxSlices Parse.LaxCursor Parse.LaxView.

Local Open Scope N_scope.

(* ---- updates of a lax view -------------------------------------------------- *)
Definition lstop (p : lvpacket) (e : stop_error) : lvpacket :=
  mkLVPacket (lv_link p) (lv_exts p) (lv_net p) (lv_transport p) (Some e).
Definition lstop_opt (p : lvpacket) (e : option stop_error) : lvpacket :=
  match e with Some x => lstop p x | None => p end.
Definition lwith_net (p : lvpacket) (n : lvnet) : lvpacket :=
  mkLVPacket (lv_link p) (lv_exts p) (Some n) (lv_transport p) (lv_stop p).
Definition lwith_tr (p : lvpacket) (t : vtransport) : lvpacket :=
  mkLVPacket (lv_link p) (lv_exts p) (lv_net p) (Some t) (lv_stop p).
Definition lwith_ext (p : lvpacket) (x : lvlink_ext) : lvpacket :=
  mkLVPacket (lv_link p) (lv_exts p ++ [x]) (lv_net p) (lv_transport p) (lv_stop p).
Definition lhas_stop (p : lvpacket) : bool :=
  match lv_stop p with Some _ => true | None => false end.

(* a length error recorded as stop error with layer tag `tag` *)
Definition lcut (p : lvpacket) (required avail : N) (src : len_source) (ly : layer) (pos : N)
  (tag : layer) : lvpacket :=
  lstop p (ELen (mkLenError required avail src ly pos), tag).

(* the length source named by an error inside an IP payload: the payload's own source,
   unless that is "slice" -- then whatever limited the enclosing slice *)
Definition pick_src (psrc csrc : len_source) : len_source :=
  if is_slice_src psrc then csrc else psrc.

Section LWire.
  Variable bs : bytes.
  Local Notation B := (WireSpec.B bs).
  Local Notation W := (WireSpec.W bs).

  (* ---- transport ------------------------------------------------------------ *)
  (* UDP: a length field that is smaller than the header or larger than the data is
     ignored (the data up to `lim` is handed out) *)
  Definition lwire_udp (p : lvpacket) (psrc : len_source) (pos lim : N) : lvpacket :=
    let a := lim - pos in
    if a <? 8 then lcut p 8 a psrc LyUdpHeader pos LyUdpHeader
    else
      let l := W (pos + 4) in
      if (a <? l) || (l <? 8) then lwith_tr p (VUdp (pos, a))
      else lwith_tr p (VUdp (pos, l)).

  Definition lwire_tcp (p : lvpacket) (psrc : len_source) (pos lim : N) : lvpacket :=
    let a := lim - pos in
    if a <? 20 then lcut p 20 a psrc LyTcpHeader pos LyTcpHeader
    else
      let data_offset := B (pos + 12) / 16 in
      if data_offset <? 5 then lstop p (EContent (CeTcpDataOffset data_offset), LyTcpHeader)
      else if a <? data_offset * 4 then lcut p (data_offset * 4) a psrc LyTcpHeader pos LyTcpHeader
      else lwith_tr p (VTcp (data_offset * 4) (pos, a)).

  Definition lwire_icmp4 (p : lvpacket) (psrc : len_source) (pos lim : N) : lvpacket :=
    let a := lim - pos in
    if a <? 8 then lcut p 8 a psrc LyIcmpv4 pos LyIcmpv4
    else if (B pos =? 13) && (B (pos + 1) =? 0) && negb (a =? 20) then
      lcut p 20 a psrc LyIcmpv4Timestamp pos LyIcmpv4
    else if (B pos =? 14) && (B (pos + 1) =? 0) && negb (a =? 20) then
      lcut p 20 a psrc LyIcmpv4TimestampReply pos LyIcmpv4
    else lwith_tr p (VIcmpv4 (pos, a)).

  Definition lwire_icmp6 (p : lvpacket) (psrc : len_source) (pos lim : N) : lvpacket :=
    let a := lim - pos in
    if a <? 8 then lcut p 8 a psrc LyIcmpv6 pos LyIcmpv6
    else if 4294967295 <? a then lcut p 4294967295 a psrc LyIcmpv6 pos LyIcmpv6
    else lwith_tr p (VIcmpv6 (pos, a)).

  (* nothing is decoded behind a stop error or inside a fragment *)
  Definition lwire_transport (p : lvpacket) (ipn : N) (frag : bool) (psrc : len_source)
    (pos lim : N) : lvpacket :=
    if frag || lhas_stop p then p
    else if ipn =? 1 then lwire_icmp4 p psrc pos lim
    else if ipn =? 17 then lwire_udp p psrc pos lim
    else if ipn =? 6 then lwire_tcp p psrc pos lim
    else if ipn =? 58 then lwire_icmp6 p psrc pos lim
    else p.

  (* ---- IP authentication header --------------------------------------------- *)
  Definition ah_dec (zero : content_error) (src : len_source) (pos lim : N)
    : (N * N) + slice_error :=
    let a := lim - pos in
    if a <? 12 then inr (ELen (mkLenError 12 a src LyIpAuthHeader pos))
    else if B (pos + 1) =? 0 then inr (EContent zero)
    else
      let l := (B (pos + 1) + 2) * 4 in
      if a <? l then inr (ELen (mkLenError l a src LyIpAuthHeader pos))
      else inl (l, B pos).

  (* ---- IPv4 ------------------------------------------------------------------- *)
  (* what decoding a network layer yields: the layer, its payload descriptor (also part of
     the layer), a stop error, and the position where the payload ends *)
  Definition ip_parts := (lvnet * lvip_payload * option stop_error * N)%type.

  (* behind the header: the packet data ends at lim'; a broken authentication header is
     a stop error and the data behind the IPv4 header is the payload (protocol 51) *)
  Definition lwire_ipv4_parts (csrc : len_source) (pos hl lim' : N)
    (psrc : len_source) (inc : bool) : ip_parts :=
    let frag := ipv4_fragmented bs pos in
    let proto := B (pos + 9) in
    let hp := pos + hl in
    let '(auth, next, pp, st) :=
      if proto =? 51 then
        match ah_dec CeAuthZeroPayloadLen (pick_src psrc csrc) hp lim' with
        | inl (ahl, next) => (Some (hp, ahl), next, hp + ahl, None)
        | inr e => (None, 51, hp, Some (e, LyIpAuthHeader))
        end
      else (None, proto, hp, None) in
    let pl := mkLVIp inc next frag psrc (pp, lim' - pp) in
    (LVIpv4 (pos, hl) auth pl, pl, st, lim').

  (* ---- IPv6 extension header chain --------------------------------------------- *)
  (* (end of the decoded chain, next header there, fragmented, stop error).  fuel =
     S (lim - pos) always suffices (every continuing step consumes >= 8 bytes); the O clause
     is unreachable: the model returns Bug there and is proved equal to this function *)
  Fixpoint lwire_chain (fuel : nat) (src : len_source) (pos lim : N) (nh : N) (frag : bool)
    : N * N * bool * option stop_error :=
    match fuel with
    | O => (pos, nh, frag, None)
    | S f =>
        let a := lim - pos in
        if nh =? 0 then
          (pos, nh, frag, Some (EContent CeHopByHopNotAtStart, LyIpv6HopByHopHeader))
        else if (nh =? 60) || (nh =? 43) then
          let tag := if nh =? 60 then LyIpv6DestOptionsHeader else LyIpv6RouteHeader in
          if a <? 8 then (pos, nh, frag, Some (ELen (mkLenError 8 a src LyIpv6ExtHeader pos), tag))
          else
            let l := (B (pos + 1) + 1) * 8 in
            if a <? l then (pos, nh, frag, Some (ELen (mkLenError l a src LyIpv6ExtHeader pos), tag))
            else lwire_chain f src (pos + l) lim (B pos) frag
        else if nh =? 44 then
          if a <? 8 then
            (pos, nh, frag, Some (ELen (mkLenError 8 a src LyIpv6FragHeader pos), LyIpv6FragHeader))
          else
            let fr := negb (B (pos + 3) mod 2 =? 0) || negb (W (pos + 2) / 8 =? 0) in
            lwire_chain f src (pos + 8) lim (B pos) (frag || fr)
        else if nh =? 51 then
          match ah_dec CeIpv6AuthZeroPayloadLen src pos lim with
          | inr e => (pos, nh, frag, Some (e, LyIpAuthHeader))
          | inl (l, next) => lwire_chain f src (pos + l) lim next frag
          end
        else (pos, nh, frag, None)
    end.

  Definition lwire_exts (fuel : nat) (src : len_source) (pos lim : N) (nh : N)
    : N * N * bool * option stop_error :=
    if nh =? 0 then
      let a := lim - pos in
      if a <? 8 then
        (pos, nh, false, Some (ELen (mkLenError 8 a src LyIpv6ExtHeader pos), LyIpv6HopByHopHeader))
      else
        let l := (B (pos + 1) + 1) * 8 in
        if a <? l then
          (pos, nh, false, Some (ELen (mkLenError l a src LyIpv6ExtHeader pos), LyIpv6HopByHopHeader))
        else lwire_chain fuel src (pos + l) lim (B pos) false
    else lwire_chain fuel src pos lim nh false.

  (* ---- IPv6 --------------------------------------------------------------------- *)
  Definition lwire_ipv6_parts (csrc : len_source) (pos lim' : N)
    (psrc : len_source) (inc : bool) : ip_parts :=
    let x0 := pos + 40 in
    let '(e, next, frag, st) :=
      lwire_exts (S (N.to_nat (lim' - x0))) (pick_src psrc csrc) x0 lim' (B (pos + 6)) in
    let pl := mkLVIp inc next frag psrc (e, lim' - e) in
    (LVIpv6 (pos, 40) (if e =? x0 then None else Some (B (pos + 6))) frag (x0, e - x0) pl,
     pl, st, lim').

  (* ---- "an IP header": the version nibble selects the format ----------------------- *)
  (* the header itself is undecodable *)
  Definition ip_hdr_fault (src : len_source) (pos lim : N) : option slice_error :=
    let a := lim - pos in
    if a =? 0 then Some (ELen (mkLenError 1 a src LyIpHeader pos))
    else if B pos / 16 =? 4 then
      let ihl := B pos mod 16 in
      if ihl <? 5 then Some (EContent (CeIpIhl ihl))
      else if a <? ihl * 4 then Some (ELen (mkLenError (ihl * 4) a src LyIpv4Header pos))
      else None
    else if B pos / 16 =? 6 then
      if a <? 40 then Some (ELen (mkLenError 40 a src LyIpv6Header pos)) else None
    else Some (EContent (CeIpUnsupportedVersion (B pos / 16))).

  (* behind a decodable header: the three-way fallback on the length field *)
  Definition lwire_ip_parts (csrc : len_source) (pos lim : N) : ip_parts :=
    let a := lim - pos in
    if B pos / 16 =? 4 then
      let hl := B pos mod 16 * 4 in
      let tl := W (pos + 2) in
      if tl <? hl then lwire_ipv4_parts csrc pos hl lim LsSlice false
      else if a <? tl then lwire_ipv4_parts csrc pos hl lim LsSlice true
      else lwire_ipv4_parts csrc pos hl (pos + tl) LsIpv4HeaderTotalLen false
    else
      let plen := W (pos + 4) in
      if (plen =? 0) && (40 <? a) then lwire_ipv6_parts csrc pos lim LsSlice false
      else if a <? 40 + plen then lwire_ipv6_parts csrc pos lim LsSlice true
      else lwire_ipv6_parts csrc pos (pos + 40 + plen) LsIpv6HeaderPayloadLen false.

  (* the transport layer is decoded from the payload of the network layer *)
  Definition lwire_ip_body (p : lvpacket) (csrc : len_source) (pos lim : N) : lvpacket :=
    let '(net, pl, st, lim') := lwire_ip_parts csrc pos lim in
    lwire_transport (lstop_opt (lwith_net p net) st)
      (lvip_number pl) (lvip_frag pl) (lvip_src pl) (fst (lvip_win pl)) lim'.

  Definition lwire_ip (p : lvpacket) (csrc : len_source) (pos lim : N) : lvpacket :=
    match ip_hdr_fault csrc pos lim with
    | Some e => lstop p (e, LyIpHeader)
    | None => lwire_ip_body p csrc pos lim
    end.

  (* ---- ARP ----------------------------------------------------------------------- *)
  Definition lwire_arp (p : lvpacket) (csrc : len_source) (pos lim : N) : lvpacket :=
    let a := lim - pos in
    if a <? 8 then lcut p 8 a csrc LyArp pos LyArp
    else
      let l := 8 + B (pos + 4) * 2 + B (pos + 5) * 2 in
      if a <? l then lcut p l a LsArpAddrLengths LyArp pos LyArp
      else lwith_net p (LVArp (pos, l)).

  (* ---- link extensions -------------------------------------------------------------- *)
  Fixpoint lwire_ether (cap : nat) (p : lvpacket) (et : N) (csrc : len_source) (pos lim : N)
    : lvpacket :=
    let a := lim - pos in
    if is_vlan et then
      match cap with
      | O => p
      | S c =>
          if a <? 4 then lcut p 4 a LsSlice LyVlanHeader pos LyVlanHeader
          else lwire_ether c (lwith_ext p (LVVlan (pos, a))) (W (pos + 2)) csrc (pos + 4) lim
      end
    else if et =? 35045 then
      match cap with
      | O => p
      | S c =>
          if a <? 6 then lcut p 6 a LsSlice LyMacsecHeader pos LyMacsecHeader
          else
            let tci := B pos in
            let sl := B (pos + 1) mod 64 in
            let unmod := (tci / 4) mod 4 =? 0 in
            let sc := negb ((tci / 32) mod 2 =? 0) in
            if 128 <=? tci then lstop p (EContent CeMacsecVersion, LyMacsecHeader)
            else if unmod && (sl =? 1) then
              lstop p (EContent CeMacsecUnmodifiedShortLen, LyMacsecHeader)
            else
              let hl := 6 + (if unmod then 2 else 0) + (if sc then 8 else 0) in
              if a <? hl then lcut p hl a LsSlice LyMacsecHeader pos LyMacsecHeader
              else
                let body := if unmod then sl - 2 else sl in
                (* the short length promises more than is there *)
                let inc := (0 <? sl) && (a <? hl + body) in
                let short := (0 <? sl) && negb (a <? hl + body) in
                let lim' := if short then pos + hl + body else lim in
                let psrc := if short then LsMacsecShortLength else LsSlice in
                let pw := (pos + hl, lim' - (pos + hl)) in
                if unmod then
                  let et' := W (pos + hl - 2) in
                  lwire_ether c
                    (lwith_ext p (LVMacsec (pos, hl) (LVMpUnmodified (mkLVEp inc et' psrc pw))))
                    et' (pick_src psrc csrc) (pos + hl) lim'
                else lwith_ext p (LVMacsec (pos, hl) (LVMpModified inc pw))
      end
    else if et =? 2054 then lwire_arp p csrc pos lim
    else if (et =? 2048) || (et =? 34525) then lwire_ip p csrc pos lim
    else p.

  (* ---- entry points ------------------------------------------------------------------ *)
  Definition lempty_packet : lvpacket := mkLVPacket None [] None None None.

  Definition lwire_ethernet : lvres :=
    if n_bs bs <? 14 then LVErr (ELen (mkLenError 14 (n_bs bs) LsSlice LyEthernet2Header 0))
    else
      LVOk (lwire_ether 3 (mkLVPacket (Some (VEthernet2 (0, n_bs bs))) [] None None None)
              (W 12) LsSlice 14 (n_bs bs)).

  Definition lwire_ether_type (et : N) : lvres :=
    LVOk (lwire_ether 3
            (mkLVPacket (Some (VEtherPayload (mkVEp et LsSlice (0, n_bs bs)))) [] None None None)
            et LsSlice 0 (n_bs bs)).

  Definition lwire_from_ip : lvres :=
    match ip_hdr_fault LsSlice 0 (n_bs bs) with
    | Some e => LVErr e
    | None => LVOk (lwire_ip_body lempty_packet LsSlice 0 (n_bs bs))
    end.

  (* ================================================================================== *)
  (* ---- the strict reference decoder, handing back the packet decoded so far ---------- *)
  Inductive pres :=
  | PAcc (p : vpacket)                      (* accepted *)
  | PRej (p : vpacket) (e : slice_error)    (* rejected with e; p = the layers in front of the fault *)
  | PBug (site : N).

  Definition forget (r : pres) : vres :=
    match r with PAcc p => VOk p | PRej _ e => VErr e | PBug s => VBug s end.

  (* a step of WireSpec that either rejects right here (nothing was added to p) or is final *)
  Definition pres_of (p : vpacket) (r : vres) : pres :=
    match r with VOk q => PAcc q | VErr e => PRej p e | VBug s => PBug s end.

  Definition pwire_transport (p : vpacket) (ipn : N) (frag : bool) (src : len_source) (pos lim : N)
    : pres := pres_of p (wire_transport bs p ipn frag src pos lim).

  Definition pwire_ipv4_tail (p : vpacket) (pos hl lim' : N) : pres :=
    let frag := ipv4_fragmented bs pos in
    let proto := B (pos + 9) in
    if proto =? 51 then
      match wire_ah bs CeAuthZeroPayloadLen LsIpv4HeaderTotalLen (pos + hl) lim' with
      | AhErr r => pres_of p r
      | AhOk ahl next =>
          let ppos := pos + hl + ahl in
          pwire_transport
            (with_net p (VIpv4 (pos, hl) (Some (pos + hl, ahl))
                           (mkVIp next frag LsIpv4HeaderTotalLen (ppos, lim' - ppos))))
            next frag LsIpv4HeaderTotalLen ppos lim'
      end
    else
      pwire_transport
        (with_net p (VIpv4 (pos, hl) None
                       (mkVIp proto frag LsIpv4HeaderTotalLen (pos + hl, lim' - (pos + hl)))))
        proto frag LsIpv4HeaderTotalLen (pos + hl) lim'.

  Definition pwire_ipv4_body (p : vpacket) (src : len_source) (pos lim hl : N) : pres :=
    let a := lim - pos in
    let tl := W (pos + 2) in
    if tl <? hl then PRej p (ELen (mkLenError hl tl LsIpv4HeaderTotalLen LyIpv4Packet pos))
    else if a <? tl then PRej p (ELen (mkLenError tl a src LyIpv4Packet pos))
    else pwire_ipv4_tail p pos hl (pos + tl).

  Definition pwire_ipv4 (p : vpacket) (src : len_source) (pos lim : N) : pres :=
    let a := lim - pos in
    if a <? 20 then PRej p (ELen (mkLenError 20 a src LyIpv4Header pos))
    else
      let version := B pos / 16 in
      let ihl := B pos mod 16 in
      if negb (version =? 4) then PRej p (EContent (CeIpv4Version version))
      else if ihl <? 5 then PRej p (EContent (CeIpv4Ihl ihl))
      else if a <? ihl * 4 then PRej p (ELen (mkLenError (ihl * 4) a src LyIpv4Header pos))
      else pwire_ipv4_body p src pos lim (ihl * 4).

  Definition pwire_ipv6_tail (p : vpacket) (esrc psrc : len_source) (pos lim' : N) : pres :=
    match wire_exts bs (S (N.to_nat (lim' - (pos + 40)))) esrc (pos + 40) lim' (B (pos + 6)) with
    | ChErr r => pres_of p r
    | ChOk e next frag =>
        pwire_transport
          (with_net p (VIpv6 (pos, 40)
                         (if e =? pos + 40 then None else Some (B (pos + 6))) frag
                         (pos + 40, e - (pos + 40))
                         (mkVIp next frag psrc (e, lim' - e))))
          next frag esrc e lim'
    end.

  Definition pwire_ipv6_body (p : vpacket) (src : len_source) (pos lim : N) : pres :=
    let a := lim - pos in
    let plen := W (pos + 4) in
    if (plen =? 0) && (40 <? a) then pwire_ipv6_tail p src LsSlice pos lim
    else if a <? 40 + plen then PRej p (ELen (mkLenError (40 + plen) a src LyIpv6Packet pos))
    else pwire_ipv6_tail p LsIpv6HeaderPayloadLen LsIpv6HeaderPayloadLen pos (pos + 40 + plen).

  Definition pwire_ipv6 (p : vpacket) (src : len_source) (pos lim : N) : pres :=
    let a := lim - pos in
    if a <? 40 then PRej p (ELen (mkLenError 40 a src LyIpv6Header pos))
    else if negb (B pos / 16 =? 6) then PRej p (EContent (CeIpv6Version (B pos / 16)))
    else pwire_ipv6_body p src pos lim.

  Definition pwire_ip (p : vpacket) (src : len_source) (pos lim : N) : pres :=
    let a := lim - pos in
    if a =? 0 then PRej p (ELen (mkLenError 1 a src LyIpHeader pos))
    else if B pos / 16 =? 4 then
      let ihl := B pos mod 16 in
      if ihl <? 5 then PRej p (EContent (CeIpIhl ihl))
      else if a <? ihl * 4 then PRej p (ELen (mkLenError (ihl * 4) a src LyIpv4Header pos))
      else pwire_ipv4_body p src pos lim (ihl * 4)
    else if B pos / 16 =? 6 then
      if a <? 40 then PRej p (ELen (mkLenError 40 a src LyIpv6Header pos))
      else pwire_ipv6_body p src pos lim
    else PRej p (EContent (CeIpUnsupportedVersion (B pos / 16))).

  Definition pwire_net (p : vpacket) (et : N) (src : len_source) (pos lim : N) : pres :=
    if et =? 2054 then pres_of p (wire_arp bs p src pos lim)
    else if et =? 2048 then pwire_ipv4 p src pos lim
    else if et =? 34525 then pwire_ipv6 p src pos lim
    else PAcc p.

  Fixpoint pwire_ether (cap : nat) (p : vpacket) (et : N) (src : len_source) (pos lim : N) : pres :=
    let a := lim - pos in
    if is_vlan et then
      match cap with
      | O => PAcc p
      | S c =>
          if a <? 4 then PRej p (ELen (mkLenError 4 a src LyVlanHeader pos))
          else pwire_ether c (with_ext p (VVlan (pos, a))) (W (pos + 2)) src (pos + 4) lim
      end
    else if et =? 35045 then
      match cap with
      | O => PAcc p
      | S c =>
          if a <? 6 then PRej p (ELen (mkLenError 6 a src LyMacsecHeader pos))
          else
            let tci := B pos in
            let sl := B (pos + 1) mod 64 in
            let unmod := (tci / 4) mod 4 =? 0 in
            let sc := negb ((tci / 32) mod 2 =? 0) in
            if 128 <=? tci then PRej p (EContent CeMacsecVersion)
            else if unmod && (sl =? 1) then PRej p (EContent CeMacsecUnmodifiedShortLen)
            else
              let hl := 6 + (if unmod then 2 else 0) + (if sc then 8 else 0) in
              if a <? hl then PRej p (ELen (mkLenError hl a src LyMacsecHeader pos))
              else
                let body := if unmod then sl - 2 else sl in
                if (0 <? sl) && (a <? hl + body) then
                  PRej p (ELen (mkLenError (hl + body) a src LyMacsecPacket pos))
                else
                  let lim' := if 0 <? sl then pos + hl + body else lim in
                  let psrc := if 0 <? sl then LsMacsecShortLength else LsSlice in
                  let src' := if 0 <? sl then LsMacsecShortLength else src in
                  if unmod then
                    let et' := W (pos + hl - 2) in
                    pwire_ether c
                      (with_ext p (VMacsec (pos, hl)
                         (VMpUnmodified (mkVEp et' psrc (pos + hl, lim' - (pos + hl))))))
                      et' src' (pos + hl) lim'
                  else
                    PAcc (with_ext p (VMacsec (pos, hl) (VMpModified (pos + hl, lim' - (pos + hl)))))
      end
    else pwire_net p et src pos lim.

  Definition pwire_ethernet : pres :=
    if n_bs bs <? 14 then
      PRej (empty_packet) (ELen (mkLenError 14 (n_bs bs) LsSlice LyEthernet2Header 0))
    else
      pwire_ether 3 (mkVPacket (Some (VEthernet2 (0, n_bs bs))) [] None None)
        (W 12) LsSlice 14 (n_bs bs).

  Definition pwire_ether_type (et : N) : pres :=
    pwire_ether 3
      (mkVPacket (Some (VEtherPayload (mkVEp et LsSlice (0, n_bs bs)))) [] None None)
      et LsSlice 0 (n_bs bs).

  Definition pwire_from_ip : pres := pwire_ip empty_packet LsSlice 0 (n_bs bs).

  (* ================================================================================== *)
  (* ---- (d) whole packet: the incomplete flags against the length fields --------------- *)
  Definition win_end (w : window) : N := fst w + snd w.

  (* the slice handed to the layer behind a link extension *)
  Definition ext_next (x : lvlink_ext) : window :=
    match x with
    | LVVlan (p, a) => (p + 4, a - 4)
    | LVMacsec _ (LVMpUnmodified e) => lvep_win e
    | LVMacsec _ (LVMpModified _ w) => w
    end.

  (* `enc` = the slice the layer was decoded from, as window (start, length) of the buffer *)
  Definition ext_flag_ok (enc : window) (x : lvlink_ext) : Prop :=
    let pos := fst enc in
    let a := snd enc in
    match x with
    | LVVlan w => w = enc
    | LVMacsec (hp, hl) pl =>
        let sl := B (pos + 1) mod 64 in                  (* MACsec short length *)
        let unmod := (B pos / 4) mod 4 =? 0 in
        let body := if unmod then sl - 2 else sl in        (* octets it promises behind the SecTAG *)
        let inc := match pl with LVMpUnmodified e => lvep_incomplete e | LVMpModified i _ => i end in
        let pw := match pl with LVMpUnmodified e => lvep_win e | LVMpModified _ w => w end in
        hp = pos /\
        inc = ((0 <? sl) && (a <? hl + body)) /\
        (inc = true ->
         pw = (pos + hl, a - hl) /\ win_end pw = win_end enc /\
         match pl with LVMpUnmodified e => lvep_src e = LsSlice | LVMpModified _ _ => True end)
    end.

  Definition ip_flag_ok (enc : window) (promised : N) (p : lvip_payload) : Prop :=
    lvip_incomplete p = (snd enc <? promised) /\
    (lvip_incomplete p = true -> lvip_src p = LsSlice /\ win_end (lvip_win p) = win_end enc).

  Definition net_flag_ok (enc : window) (n : lvnet) : Prop :=
    let pos := fst enc in
    match n with
    | LVIpv4 (hp, _) _ p => hp = pos /\ ip_flag_ok enc (W (pos + 2)) p          (* total length *)
    | LVIpv6 (hp, _) _ _ _ p => hp = pos /\ ip_flag_ok enc (40 + W (pos + 4)) p (* 40 + payload length *)
    | LVArp _ => True
    end.

  Fixpoint exts_flags_ok (enc : window) (xs : list lvlink_ext) : Prop :=
    match xs with
    | [] => True
    | x :: r => ext_flag_ok enc x /\ exts_flags_ok (ext_next x) r
    end.

  Fixpoint enc_after (enc : window) (xs : list lvlink_ext) : window :=
    match xs with
    | [] => enc
    | x :: r => enc_after (ext_next x) r
    end.

  (* enc0 = the slice behind the link header (the whole buffer for from_ether_type / from_ip) *)
  Definition packet_flags_ok (enc0 : window) (q : lvpacket) : Prop :=
    exts_flags_ok enc0 (lv_exts q) /\
    match lv_net q with
    | Some n => net_flag_ok (enc_after enc0 (lv_exts q)) n
    | None => True
    end.
End LWire.

(* ==================================================================================== *)
(* ---- (b) whole packet: vocabulary ------------------------------------------------------ *)
(* every layer of p is a layer of q *)
Definition vprefix (p q : vpacket) : Prop :=
  v_link p = v_link q /\
  (exists rest, v_exts q = v_exts p ++ rest) /\
  (v_net p = None \/ v_net p = v_net q) /\
  (v_transport p = None \/ v_transport p = v_transport q).

(* the documented length fallbacks: IPv4 total length, IPv6 payload length, MACsec short
   length, UDP length *)
Definition fallback (e : slice_error) : Prop :=
  match e with
  | ELen l =>
      le_layer l = LyIpv4Packet \/ le_layer l = LyIpv6Packet \/ le_layer l = LyMacsecPacket \/
      le_layer l = LyUdpPayload \/ (le_layer l = LyUdpHeader /\ le_src l = LsUdpHeaderLen)
  | EContent _ => False
  end.

(* reference error w against the error l recorded by lax: the same record; the length source
   of the lax record is the true one, or "slice", or (known finding F7) the ARP address
   lengths for a cut-short ARP packet *)
Definition lax_same (w l : slice_error) : Prop :=
  match w, l with
  | ELen a, ELen b =>
      le_required a = le_required b /\ le_len a = le_len b /\ le_layer a = le_layer b /\
      le_off a = le_off b /\
      (le_src b = le_src a \/ le_src b = LsSlice \/
       (le_layer b = LyArp /\ le_src b = LsArpAddrLengths))
  | EContent a, EContent b => a = b
  | _, _ => False
  end.

(* faults of the IP header itself (F11: the strict IPv4/IPv6 entry and the lax nibble dispatch
   describe a broken IP header differently; they are compared as a group) *)
Definition ip_hdr_class (e : slice_error) : Prop :=
  match e with
  | ELen l => le_layer l = LyIpHeader \/ le_layer l = LyIpv4Header \/ le_layer l = LyIpv6Header
  | EContent c =>
      match c with
      | CeIpUnsupportedVersion _ | CeIpIhl _ | CeIpv4Version _ | CeIpv4Ihl _ | CeIpv6Version _ => True
      | _ => False
      end
  end.

Definition err_off (e : slice_error) : option N :=
  match e with ELen l => Some (le_off l) | EContent _ => None end.

(* known finding F10: the ether type announced IPv4 (IPv6) but the version nibble is 6 (4);
   strict rejects the header of the announced version, lax decodes the other one.  Third
   case: announced IPv6, nibble 4, fewer than 40 bytes (strict reports the cut IPv6 header) *)
Definition F10_class (bs : bytes) (e : slice_error) : Prop :=
  e = EContent (CeIpv4Version 6) \/ e = EContent (CeIpv6Version 4) \/
  (exists l, e = ELen l /\ le_layer l = LyIpv6Header /\ WireSpec.B bs (le_off l) / 16 = 4).

