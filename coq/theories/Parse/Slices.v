(* Parse/Slices.v -- transliteration of the single-layer slicers
   (`*Slice::from_slice` and the accessors the packet cursors use):
     link/ethernet2_slice.rs, link/linux_sll_slice.rs (+header slice, protocol
     type), link/single_vlan_slice.rs, link/macsec_header_slice.rs,
     link/macsec_slice.rs, net/arp_packet_slice.rs, net/ipv4_header_slice.rs,
     net/ip_auth_header_slice.rs, net/ipv4_slice.rs, net/ipv6_header_slice.rs,
     net/ipv6_raw_ext_header_slice.rs, net/ipv6_fragment_header_slice.rs,
     net/ipv6_exts_slice.rs, net/ipv6_slice.rs, net/ip_slice.rs,
     transport/udp_header_slice.rs, transport/udp_slice.rs,
     transport/tcp_slice.rs, transport/icmpv4_slice.rs, transport/icmpv6_slice.rs.
   Structure, duplication and error fix-ups are kept as written in Rust. *)
From EP Require Import Base.Bytes Parse.Types.

Definition lerr {A} (req l : N) (src : len_source) (ly : layer) : res A :=
  Err (ELen (mkLenError req l src ly 0)).

(* ---- payload descriptors ------------------------------------------------ *)
Record ether_payload := mkEtherPayload {
  ep_ether_type : N; ep_src : len_source; ep_slice : slice }.

Record ip_payload := mkIpPayload {
  ipp_number : N; ipp_fragmented : bool; ipp_src : len_source; ipp_slice : slice }.

(* ---- Ethernet2Slice ----------------------------------------------------- *)
Module Ethernet2Slice.
  Definition from_slice_without_fcs (s : slice) : res slice :=
    if s_len s <? 14 then lerr 14 (s_len s) LsSlice LyEthernet2Header
    else Ok s.
  Definition ether_type (s : slice) : res N := rd16 s 12.
  Definition payload_slice (s : slice) : res slice :=
    let* n := subN (s_len s) 14 in subU s 14 n.   (* fcs_len = 0 *)
  Definition payload (s : slice) : res ether_payload :=
    let* et := ether_type s in
    let* p := payload_slice s in
    Ok (mkEtherPayload et LsSlice p).
  Definition header_len : N := 14.
End Ethernet2Slice.

(* ---- LinuxSll ----------------------------------------------------------- *)
Inductive sll_protocol_type :=
| SllIgnored (v : N) | SllNetlink (v : N) | SllGre (v : N)
| SllEtherType (v : N) | SllNonstandard (v : N).

Module LinuxSll.
  Definition ARPHRD_ETHERNET : N := 1.
  Definition ARPHRD_FRAD : N := 770.
  Definition ARPHRD_IPGRE : N := 778.
  Definition ARPHRD_RADIOTAP : N := 803.
  Definition ARPHRD_NETLINK : N := 824.

  (* LinuxNonstandardEtherType::try_from *)
  Definition nonstandard (v : N) : bool :=
    ((1 <=? v) && (v <=? 9)) || ((12 <=? v) && (v <=? 14)) || (v =? 16) || (v =? 17)
    || ((21 <=? v) && (v <=? 28)) || ((245 <=? v) && (v <=? 250)).

  (* LinuxSllProtocolType::try_from((hw, proto)) *)
  Definition protocol_type_try_from (hw proto : N) : res sll_protocol_type :=
    if hw =? ARPHRD_NETLINK then Ok (SllNetlink proto)
    else if hw =? ARPHRD_IPGRE then Ok (SllGre proto)
    else if hw =? ARPHRD_RADIOTAP then Ok (SllIgnored proto)
    else if hw =? ARPHRD_FRAD then Ok (SllIgnored proto)
    else if hw =? ARPHRD_ETHERNET then
      (if nonstandard proto then Ok (SllNonstandard proto) else Ok (SllEtherType proto))
    else Err (EContent (CeLinuxSllArpHardwareId hw)).

  (* LinuxSllPacketType::try_from *)
  Definition packet_type_try_from (v : N) : res N :=
    if v <=? 7 then Ok v else Err (EContent (CeLinuxSllPacketType v)).

  (* LinuxSllHeaderSlice::from_slice *)
  Definition header_from_slice (s : slice) : res slice :=
    if s_len s <? 16 then lerr 16 (s_len s) LsSlice LyLinuxSllHeader
    else
      let* pt := rd16 s 0 in
      let* _ := packet_type_try_from pt in
      let* hw := rd16 s 2 in
      let* proto := rd16 s 14 in
      let* _ := protocol_type_try_from hw proto in
      subU s 0 16.

  (* LinuxSllSlice::from_slice: returns (header_slice, header_and_payload_slice) *)
  Definition from_slice (s : slice) : res (slice * slice) :=
    if s_len s <? 16 then lerr 16 (s_len s) LsSlice LyLinuxSllHeader
    else
      (* &slice[0..16]: checked indexing, panics when out of range *)
      let* h16 := (if 16 <=? s_len s then Ok (fst s, take 16 (snd s)) else Bug SITE_INDEX) in
      let* h := header_from_slice h16 in
      Ok (h, s).

  (* accessor: unwrap_unchecked on the validated conversion *)
  Definition protocol_type (h : slice) : res sll_protocol_type :=
    let* hw := rd16 h 2 in
    let* proto := rd16 h 14 in
    match protocol_type_try_from hw proto with
    | Ok v => Ok v
    | _ => Bug SITE_UNWRAP
    end.
  Definition packet_type (h : slice) : res N :=
    let* pt := rd16 h 0 in
    match packet_type_try_from pt with
    | Ok v => Ok v
    | _ => Bug SITE_UNWRAP
    end.
  Definition payload_slice (hp : slice) : res slice :=
    let* n := subN (s_len hp) 16 in subU hp 16 n.
End LinuxSll.

(* ---- SingleVlanSlice ---------------------------------------------------- *)
Module SingleVlanSlice.
  Definition from_slice (s : slice) : res slice :=
    if s_len s <? 4 then lerr 4 (s_len s) LsSlice LyVlanHeader
    else Ok s.
  Definition ether_type (s : slice) : res N := rd16 s 2.
  Definition payload_slice (s : slice) : res slice :=
    let* n := subN (s_len s) 4 in subU s 4 n.
  Definition payload (s : slice) : res ether_payload :=
    let* et := ether_type s in
    let* p := payload_slice s in
    Ok (mkEtherPayload et LsSlice p).
  Definition header_len : N := 4.
End SingleVlanSlice.

(* ---- MACsec ------------------------------------------------------------- *)
Inductive macsec_payload :=
| MpUnmodified (e : ether_payload)
| MpModified (s : slice).

Record macsec_slice := mkMacsecSlice { ms_header : slice; ms_payload : macsec_payload }.

Module Macsec.
  Definition bit (v mask : N) : bool := negb (N.land v mask =? 0).

  (* MacsecHeaderSlice::from_slice *)
  Definition header_from_slice (s : slice) : res slice :=
    if s_len s <? 6 then lerr 6 (s_len s) LsSlice LyMacsecHeader
    else
      let* tci_an := rdU s 0 in
      if bit tci_an 128 then Err (EContent CeMacsecVersion)
      else
        let unmodified := N.land tci_an 12 =? 0 in
        let* _ :=
          (if unmodified then
             let* b1 := rdU s 1 in
             if N.land b1 63 =? 1 then Err (EContent CeMacsecUnmodifiedShortLen) else Ok tt
           else Ok tt) in
        let required_len := 6 + (if unmodified then 2 else 0) + (if bit tci_an 32 then 8 else 0) in
        if s_len s <? required_len then lerr required_len (s_len s) LsSlice LyMacsecHeader
        else subU s 0 required_len.

  Definition tci_an_raw (h : slice) : res N := rdU h 0.
  Definition short_len (h : slice) : res N := let* b := rdU h 1 in Ok (N.land b 63).
  Definition sci_present (h : slice) : res bool := let* t := tci_an_raw h in Ok (bit t 32).
  Definition is_unmodified (h : slice) : res bool := let* t := tci_an_raw h in Ok (N.land t 12 =? 0).

  Definition next_ether_type (h : slice) : res (option N) :=
    let* t := tci_an_raw h in
    if negb (N.land t 12 =? 0) then Ok None
    else if bit t 32 then (let* v := rd16 h 14 in Ok (Some v))
    else (let* v := rd16 h 6 in Ok (Some v)).

  Definition header_len (h : slice) : res N :=
    let* sci := sci_present h in
    let* un := is_unmodified h in
    Ok (6 + (if sci then 8 else 0) + (if un then 2 else 0)).

  Definition expected_payload_len (h : slice) : res (option N) :=
    let* sl := short_len h in
    let* t := tci_an_raw h in
    if 0 <? sl then
      (if negb (N.land t 12 =? 0) then Ok (Some sl)
       else if sl <? 2 then Ok None
       else Ok (Some (sl - 2)))
    else Ok None.

  (* MacsecSlice::from_slice *)
  Definition from_slice (s : slice) : res macsec_slice :=
    let* header := header_from_slice s in
    let* epl := expected_payload_len header in
    let* pls :=
      match epl with
      | Some req_payload_len =>
          let required_len := s_len header + req_payload_len in
          if s_len s <? required_len then
            lerr required_len (s_len s) LsMacsecShortLength LyMacsecPacket
          else
            let* p := subU s (s_len header) req_payload_len in
            Ok (p, LsMacsecShortLength)
      | None =>
          let* n := subN (s_len s) (s_len header) in
          let* p := subU s (s_len header) n in
          Ok (p, LsSlice)
      end in
    let '(payload_slice, src) := pls in
    let* net := next_ether_type header in
    match net with
    | Some et => Ok (mkMacsecSlice header (MpUnmodified (mkEtherPayload et src payload_slice)))
    | None => Ok (mkMacsecSlice header (MpModified payload_slice))
    end.
End Macsec.

(* ---- ArpPacketSlice ----------------------------------------------------- *)
Module ArpPacketSlice.
  Definition from_slice (s : slice) : res slice :=
    if s_len s <? 8 then lerr 8 (s_len s) LsSlice LyArp
    else
      let* hw := rdU s 4 in
      let* pr := rdU s 5 in
      let min_len := 8 + hw * 2 + pr * 2 in
      if s_len s <? min_len then lerr min_len (s_len s) LsArpAddrLengths LyArp
      else subU s 0 min_len.
End ArpPacketSlice.

(* ---- IPv4 --------------------------------------------------------------- *)
Module Ipv4HeaderSlice.
  Definition from_slice (s : slice) : res slice :=
    if s_len s <? 20 then lerr 20 (s_len s) LsSlice LyIpv4Header
    else
      let* v := rdU s 0 in
      let version_number := N.shiftr v 4 in
      let ihl := N.land v 15 in
      if negb (version_number =? 4) then Err (EContent (CeIpv4Version version_number))
      else if ihl <? 5 then Err (EContent (CeIpv4Ihl ihl))
      else
        let header_length := ihl * 4 in
        if s_len s <? header_length then lerr header_length (s_len s) LsSlice LyIpv4Header
        else subU s 0 header_length.

  Definition total_len (h : slice) : res N := rd16 h 2.
  Definition protocol (h : slice) : res N := rdU h 9.
  Definition more_fragments (h : slice) : res bool :=
    let* b := rdU h 6 in Ok (negb (N.land b 32 =? 0)).
  Definition fragments_offset (h : slice) : res N :=
    let* a := rdU h 6 in
    let* b := rdU h 7 in
    Ok (be16 (N.land a 31) b).
  Definition is_fragmenting_payload (h : slice) : res bool :=
    let* mf := more_fragments h in
    let* fo := fragments_offset h in
    Ok (mf || negb (fo =? 0)).
End Ipv4HeaderSlice.

Module IpAuthHeaderSlice.
  Definition from_slice (s : slice) : res slice :=
    if s_len s <? 12 then lerr 12 (s_len s) LsSlice LyIpAuthHeader
    else
      let* payload_len_enc := rdU s 1 in
      if payload_len_enc <? 1 then Err (EContent CeAuthZeroPayloadLen)
      else
        let l := (payload_len_enc + 2) * 4 in
        if s_len s <? l then lerr l (s_len s) LsSlice LyIpAuthHeader
        else subU s 0 l.
  Definition next_header (h : slice) : res N := rdU h 0.
End IpAuthHeaderSlice.

Record ipv4_slice := mkIpv4Slice {
  v4_header : slice; v4_auth : option slice; v4_payload : ip_payload }.

Module Ipv4Slice.
  (* shared tail of Ipv4Slice::from_slice and of the IPv4 arm of IpSlice::from_slice
     (the two copies in the Rust source are textually the same from here on) *)
  Definition finish (header header_payload : slice) : res ipv4_slice :=
    let* fragmented := Ipv4HeaderSlice.is_fragmenting_payload header in
    let* proto := Ipv4HeaderSlice.protocol header in
    if proto =? IPN_AUTH then
      let* auth :=
        match IpAuthHeaderSlice.from_slice header_payload with
        | Err (ELen l) =>
            Err (ELen (le_add_offset (le_set_src l LsIpv4HeaderTotalLen) (s_len header)))
        | r => r
        end in
      let* n := subN (s_len header_payload) (s_len auth) in
      let* payload := subU header_payload (s_len auth) n in
      let* ipn := IpAuthHeaderSlice.next_header auth in
      Ok (mkIpv4Slice header (Some auth)
            (mkIpPayload ipn fragmented LsIpv4HeaderTotalLen payload))
    else
      Ok (mkIpv4Slice header None
            (mkIpPayload proto fragmented LsIpv4HeaderTotalLen header_payload)).

  Definition from_slice (s : slice) : res ipv4_slice :=
    let* header := Ipv4HeaderSlice.from_slice s in
    let* header_total_len := Ipv4HeaderSlice.total_len header in
    if header_total_len <? s_len header then
      lerr (s_len header) header_total_len LsIpv4HeaderTotalLen LyIpv4Packet
    else if s_len s <? header_total_len then
      lerr header_total_len (s_len s) LsSlice LyIpv4Packet
    else
      let* n := subN header_total_len (s_len header) in
      let* header_payload := subU s (s_len header) n in
      finish header header_payload.
End Ipv4Slice.

(* ---- IPv6 --------------------------------------------------------------- *)
Module Ipv6HeaderSlice.
  Definition from_slice (s : slice) : res slice :=
    if s_len s <? 40 then lerr 40 (s_len s) LsSlice LyIpv6Header
    else
      let* v := rdU s 0 in
      let version_number := N.shiftr v 4 in
      if negb (version_number =? 6) then Err (EContent (CeIpv6Version version_number))
      else subU s 0 40.
  Definition payload_length (h : slice) : res N := rd16 h 4.
  Definition next_header (h : slice) : res N := rdU h 6.
End Ipv6HeaderSlice.

Module Ipv6RawExtHeaderSlice.
  Definition from_slice (s : slice) : res slice :=
    if s_len s <? 8 then lerr 8 (s_len s) LsSlice LyIpv6ExtHeader
    else
      (* slice[1]: checked indexing *)
      let* b1 := (match rd (snd s) 1 with Some v => Ok v | None => Bug SITE_INDEX end) in
      let l := (b1 + 1) * 8 in
      if s_len s <? l then lerr l (s_len s) LsSlice LyIpv6ExtHeader
      else subU s 0 l.
  Definition next_header (h : slice) : res N := rdU h 0.
End Ipv6RawExtHeaderSlice.

Module Ipv6FragmentHeaderSlice.
  Definition from_slice (s : slice) : res slice :=
    if s_len s <? 8 then lerr 8 (s_len s) LsSlice LyIpv6FragHeader
    else subU s 0 8.
  Definition next_header (h : slice) : res N := rdU h 0.
  Definition more_fragments (h : slice) : res bool :=
    let* b := rdU h 3 in Ok (negb (N.land b 1 =? 0)).
  Definition fragment_offset (h : slice) : res N :=
    let* a := rdU h 2 in
    let* b := rdU h 3 in
    Ok (N.shiftr (be16 a b) 3).
  Definition is_fragmenting_payload (h : slice) : res bool :=
    let* mf := more_fragments h in
    let* fo := fragment_offset h in
    Ok (mf || negb (fo =? 0)).
End Ipv6FragmentHeaderSlice.

Record ipv6_exts_slice := mkIpv6Exts {
  x6_first : option N; x6_fragmented : bool; x6_slice : slice }.

Module Ipv6ExtensionsSlice.
  (* the `loop` of from_slice; fuel bounds the number of iterations (every
     iteration that continues consumes at least 8 bytes) *)
  Fixpoint walk (fuel : nat) (start_len : N) (rest : slice) (next_header : N) (fragmented : bool)
    : res (slice * N * bool) :=
    match fuel with
    | O => Bug SITE_FUEL
    | S f =>
        if next_header =? IPN_HOP_BY_HOP then Err (EContent CeHopByHopNotAtStart)
        else if (next_header =? IPN_DEST_OPTIONS) || (next_header =? IPN_ROUTE) then
          let* off := subN start_len (s_len rest) in
          let* sl := map_len_err (fun e => le_add_offset e off) (Ipv6RawExtHeaderSlice.from_slice rest) in
          let* n := subN (s_len rest) (s_len sl) in
          let* rest' := subU rest (s_len sl) n in
          let* nh := Ipv6RawExtHeaderSlice.next_header sl in
          walk f start_len rest' nh fragmented
        else if next_header =? IPN_FRAG then
          let* off := subN start_len (s_len rest) in
          let* sl := map_len_err (fun e => le_add_offset e off) (Ipv6FragmentHeaderSlice.from_slice rest) in
          let* n := subN (s_len rest) (s_len sl) in
          let* rest' := subU rest (s_len sl) n in
          let* nh := Ipv6FragmentHeaderSlice.next_header sl in
          let* fr := Ipv6FragmentHeaderSlice.is_fragmenting_payload sl in
          walk f start_len rest' nh (fragmented || fr)
        else if next_header =? IPN_AUTH then
          let* off := subN start_len (s_len rest) in
          let* sl :=
            match IpAuthHeaderSlice.from_slice rest with
            | Err (ELen e) => Err (ELen (le_add_offset e off))
            | Err (EContent _) => Err (EContent CeIpv6AuthZeroPayloadLen)   (* Content(IpAuth(err)) *)
            | r => r
            end in
          let* n := subN (s_len rest) (s_len sl) in
          let* rest' := subU rest (s_len sl) n in
          let* nh := IpAuthHeaderSlice.next_header sl in
          walk f start_len rest' nh fragmented
        else Ok (rest, next_header, fragmented)
    end.

  (* returns (exts, next_header, rest) *)
  Definition from_slice (start_ip_number : N) (start_slice : slice)
    : res (ipv6_exts_slice * N * slice) :=
    let* st :=
      (if IPN_HOP_BY_HOP =? start_ip_number then
         let* sl := Ipv6RawExtHeaderSlice.from_slice start_slice in
         (* &rest[slice.slice().len()..]: checked *)
         let* rest := (if s_len sl <=? s_len start_slice
                       then Ok (fst start_slice + s_len sl, drop (s_len sl) (snd start_slice))
                       else Bug SITE_INDEX) in
         let* nh := Ipv6RawExtHeaderSlice.next_header sl in
         Ok (rest, nh)
       else Ok (start_slice, start_ip_number)) in
    let '(rest0, nh0) := st in
    let* w := walk (S (length (snd start_slice))) (s_len start_slice) rest0 nh0 false in
    let '(rest, next_header, fragmented) := w in
    let* used := subN (s_len start_slice) (s_len rest) in
    (* &start_slice[..start_slice.len() - rest.len()] *)
    let* sl := (if used <=? s_len start_slice
                then Ok (fst start_slice, take used (snd start_slice)) else Bug SITE_INDEX) in
    Ok (mkIpv6Exts
          (if negb (s_len rest =? s_len start_slice) then Some start_ip_number else None)
          fragmented sl,
        next_header, rest).
End Ipv6ExtensionsSlice.

Record ipv6_slice := mkIpv6Slice {
  v6_header : slice; v6_exts : ipv6_exts_slice; v6_payload : ip_payload }.

Module Ipv6Slice.
  (* shared tail of Ipv6Slice::from_slice and the IPv6 arm of IpSlice::from_slice *)
  Definition finish (s header : slice) : res ipv6_slice :=
    let* pl := Ipv6HeaderSlice.payload_length header in
    let* hp :=
      (if (0 =? pl) && (40 <? s_len s) then
         let* n := subN (s_len s) 40 in
         let* p := subU s 40 n in
         Ok (p, LsSlice)
       else
         let expected_len := 40 + pl in
         if s_len s <? expected_len then lerr expected_len (s_len s) LsSlice LyIpv6Packet
         else
           let* p := subU s 40 pl in
           Ok (p, LsIpv6HeaderPayloadLen)) in
    let '(header_payload, src) := hp in
    let* nh := Ipv6HeaderSlice.next_header header in
    let* x :=
      match Ipv6ExtensionsSlice.from_slice nh header_payload with
      | Err (ELen e) => Err (ELen (le_add_offset (le_set_src e src) 40))
      | r => r
      end in
    let '(exts, payload_ip_number, payload) := x in
    Ok (mkIpv6Slice header exts
          (mkIpPayload payload_ip_number (x6_fragmented exts) src payload)).

  Definition from_slice (s : slice) : res ipv6_slice :=
    let* header := Ipv6HeaderSlice.from_slice s in
    finish s header.
End Ipv6Slice.

(* ---- IpSlice ------------------------------------------------------------ *)
Inductive ip_slice := IpV4 (v : ipv4_slice) | IpV6 (v : ipv6_slice).

Module IpSlice.
  Definition from_slice (s : slice) : res ip_slice :=
    if s_len s =? 0 then lerr 1 (s_len s) LsSlice LyIpHeader
    else
      let* first_byte := rdU s 0 in
      let ver := N.shiftr first_byte 4 in
      if ver =? 4 then
        let ihl := N.land first_byte 15 in
        if ihl <? 5 then Err (EContent (CeIpIhl ihl))
        else
          let header_len := ihl * 4 in
          if s_len s <? header_len then lerr header_len (s_len s) LsSlice LyIpv4Header
          else
            let* header := subU s 0 header_len in
            let* total_len := Ipv4HeaderSlice.total_len header in
            if total_len <? header_len then
              lerr header_len total_len LsIpv4HeaderTotalLen LyIpv4Packet
            else if s_len s <? total_len then
              lerr total_len (s_len s) LsSlice LyIpv4Packet
            else
              let* n := subN total_len header_len in
              let* header_payload := subU s header_len n in
              let* v := Ipv4Slice.finish header header_payload in
              Ok (IpV4 v)
      else if ver =? 6 then
        if s_len s <? 40 then lerr 40 (s_len s) LsSlice LyIpv6Header
        else
          let* header := subU s 0 40 in
          let* v := Ipv6Slice.finish s header in
          Ok (IpV6 v)
      else Err (EContent (CeIpUnsupportedVersion ver)).

  Definition payload (i : ip_slice) : ip_payload :=
    match i with IpV4 v => v4_payload v | IpV6 v => v6_payload v end.
End IpSlice.

(* ---- transport ---------------------------------------------------------- *)
Module UdpSlice.
  Definition header_from_slice (s : slice) : res slice :=
    if s_len s <? 8 then lerr 8 (s_len s) LsSlice LyUdpHeader
    else subU s 0 8.
  Definition length (h : slice) : res N := rd16 h 4.

  Definition from_slice (s : slice) : res slice :=
    let* header := header_from_slice s in
    let* l := length header in
    if s_len s <? l then lerr l (s_len s) LsSlice LyUdpPayload
    else if l =? 0 then Ok s
    else if l <? 8 then lerr 8 l LsUdpHeaderLen LyUdpHeader
    else subU s 0 l.

  Definition from_slice_lax (s : slice) : res slice :=
    let* header := header_from_slice s in
    let* l := length header in
    if (s_len s <? l) || (l <? 8) then Ok s
    else subU s 0 l.
End UdpSlice.

Module TcpSlice.
  (* returns (header_len, slice) *)
  Definition from_slice (s : slice) : res (N * slice) :=
    if s_len s <? 20 then lerr 20 (s_len s) LsSlice LyTcpHeader
    else
      let* b12 := rdU s 12 in
      let header_len := N.shiftr (N.land b12 240) 2 in
      if header_len <? 20 then
        Err (EContent (CeTcpDataOffset ((N.shiftr header_len 2) mod 256)))
      else if s_len s <? header_len then lerr header_len (s_len s) LsSlice LyTcpHeader
      else Ok (header_len, s).
End TcpSlice.

Module Icmpv4Slice.
  Definition from_slice (s : slice) : res slice :=
    if s_len s <? 8 then lerr 8 (s_len s) LsSlice LyIcmpv4
    else
      let* icmp_type := rdU s 0 in
      let* icmp_code := rdU s 1 in
      if (icmp_type =? 13) && (0 =? icmp_code) && negb (20 =? s_len s) then
        lerr 20 (s_len s) LsSlice LyIcmpv4Timestamp
      else if (icmp_type =? 14) && (0 =? icmp_code) && negb (20 =? s_len s) then
        lerr 20 (s_len s) LsSlice LyIcmpv4TimestampReply
      else Ok s.
End Icmpv4Slice.

Module Icmpv6Slice.
  Definition MAX_LEN : N := 4294967295.
  Definition from_slice (s : slice) : res slice :=
    if s_len s <? 8 then lerr 8 (s_len s) LsSlice LyIcmpv6
    else if MAX_LEN <? s_len s then lerr MAX_LEN (s_len s) LsSlice LyIcmpv6
    else Ok s.
End Icmpv6Slice.
