(* Parse/HdrProofs2.v -- continuation of HdrProofs.v: IPv6 extension wrapper,
   IPv6 layer (struct decoding = cut slicing). *)
From EP Require Import Base.Bytes Parse.Types Parse.Slices Parse.Cursor Parse.View
  Parse.WireSpec Parse.Repr Parse.StrictProofs Parse.HdrModel Parse.HdrView Parse.HdrCut Parse.HdrProofs.
From Coq Require Import ZArith Lia ZifyN ZifyBool.
Import SlicedPacketCursor.

Local Open Scope N_scope.

Definition exts_rel (nh0 : N) (hp : slice) (h : res (exts6 * N * slice))
  (s : res (ipv6_exts_slice * N * slice)) : Prop :=
  match h, s with
  | Ok (x, nh', r), Ok (xs, nh'', r') =>
      r' = r /\ nh'' = nh' /\
      Ipv6Extensions.is_fragmenting_payload x = Ok (x6_fragmented xs) /\
      win_of (x6_slice xs) = (s_off hp, exts6_len x) /\
      x6_first xs = (if exts6_any x then Some nh0 else None) /\ s_off hp <= s_off r
  | Err e, Err e' => e = e'
  | _, _ => False
  end.

Lemma exts_end nh0 hp h w :
  walk_rel hp h w ->
  exts_rel nh0 hp h
    (let* w' := w in
     let '(rest, next_header, fragmented) := w' in
     let* used := subN (s_len hp) (s_len rest) in
     let* sl := (if used <=? s_len hp then Ok (fst hp, take used (snd hp)) else Bug SITE_INDEX) in
     Ok (mkIpv6Exts (if negb (s_len rest =? s_len hp) then Some nh0 else None) fragmented sl,
         next_header, rest)).
Proof.
  unfold walk_rel, exts_rel.
  destruct h as [[[x nh'] r]|e|b]; destruct w as [[[r'' nh''] fr'']|e'|b']; cbn [bind]; try tauto.
  intros (-> & -> & (fl' & I) & Hok).
  destruct I as (_ & _ & _ & _ & _ & I6 & I7 & I8 & I9 & _).
  rewrite subN_ok by lia. cbn [bind].
  destruct (s_len hp - s_len r <=? s_len hp) eqn:E; [|lia]. cbn [bind].
  cbn [x6_fragmented x6_slice x6_first].
  split; [reflexivity|]. split; [reflexivity|]. split; [exact I6|]. split.
  - rewrite win_take by lia. unfold s_off. f_equal. lia.
  - split; [|lia]. rewrite I8.
    destruct (0 <? exts6_len x) eqn:Z; destruct (s_len r =? s_len hp) eqn:Y; cbn [negb]; try reflexivity; lia.
Qed.

Lemma inv6_empty hp : inv6 hp exts6_empty fill_none false hp.
Proof.
  unfold inv6, exts6_empty, fill_none, exts6_len, exts6_any, Ipv6Extensions.is_fragmenting_payload.
  cbn. repeat split; lia.
Qed.

Lemma exts_agree nh0 hp : bytes_ok (snd hp) ->
  exts_rel nh0 hp (Ipv6Extensions.from_slice nh0 hp) (Cut.exts_from_slice true nh0 hp).
Proof.
  intros Hok. unfold Ipv6Extensions.from_slice, Cut.exts_from_slice.
  assert (Hf : forall r : slice, s_len r <= s_len hp -> (N.to_nat (s_len r) < S (length (snd hp)))%nat).
  { intros r H. unfold s_len, len in *. lia. }
  destruct (IPN_HOP_BY_HOP =? nh0).
  - pose proof (raw_shape hp Hok) as Sh.
    destruct (Ipv6RawExtHeaderSlice.from_slice hp) as [sl|[l|ce]|b]; cbn [bind]; try contradiction;
      [|reflexivity|reflexivity].
    destruct Sh as (S8 & Sle & Soff & Sth).
    unfold idx_from.
    destruct (s_len sl <=? s_len hp) eqn:E; [|lia]. cbn [bind].
    unfold Ipv6RawExtHeaderSlice.next_header. rdok sl 0. rewrite Sth. cbn [bind].
    apply exts_end. apply walk_agree.
    + unfold inv6, fill_none, exts6_len, exts6_any, Ipv6Extensions.is_fragmenting_payload.
      cbn [f_dest f_route f_fdest f_frag f_auth x_hbh x_dest x_route x_fdest x_frag x_auth is_some olen orb].
      rewrite s_len_drop. repeat split; try lia.
      all: try (intros; discriminate). all: try (unfold s_off; cbn [fst]; lia).
      all: try (destruct (0 <? _) eqn:Z; [reflexivity|lia]).
    + now apply bytes_ok_rest.
    + apply Hf. rewrite s_len_drop. lia.
  - cbn [bind]. apply exts_end. apply walk_agree; [apply inv6_empty|assumption|apply Hf; lia].
Qed.

(* ---- IPv6 ------------------------------------------------------------------- *)
Definition cut_v6_tail (header hp : slice) (src : len_source) : res ipv6_slice :=
  let* nh := Ipv6HeaderSlice.next_header header in
  let* x :=
    match Cut.exts_from_slice true nh hp with
    | Err (ELen e) => Err (ELen (le_add_offset (le_set_src e src) 40))
    | r => r
    end in
  let '(exts, payload_ip_number, payload) := x in
  Ok (mkIpv6Slice header exts (mkIpPayload payload_ip_number (x6_fragmented exts) src payload)).

Definition ip6_rel (s : slice) (h : res (ip_headers * ip_payload)) (r : res ipv6_slice) : Prop :=
  match h, r with
  | Ok (ih, p), Ok v =>
      p = v6_payload v /\ s_off s <= s_off (ipp_slice p) /\
      hview_net (HnIp ih) = Ok (conv_net (NtIpv6 v))
  | Err e, Err e' => e = e'
  | _, _ => False
  end.

Lemma v6_tail_agree s header hp src :
  bytes_ok (snd hp) -> s_len header = 40 -> s_off hp = s_off header + 40 -> s_off s <= s_off hp ->
  ip6_rel s (IpHeaders.v6_exts header hp src) (cut_v6_tail header hp src).
Proof.
  intros Hok H40 Hoff Hs. unfold IpHeaders.v6_exts, cut_v6_tail, Ipv6HeaderSlice.next_header.
  rdok header 6.
  pose proof (exts_agree v hp Hok) as X. unfold exts_rel in X.
  destruct (Ipv6Extensions.from_slice v hp) as [[[x nh'] r]|[l|ce]|b];
    destruct (Cut.exts_from_slice true v hp) as [[[xs nh''] r']|[l'|ce']|b']; cbn [bind]; try contradiction;
    try discriminate.
  - destruct X as (-> & -> & Fr & Win & First & Off). rewrite Fr. cbn [bind].
    unfold ip6_rel. cbn [v6_payload ipp_slice]. split; [reflexivity|]. split; [lia|].
    unfold hview_net, conv_net, Ipv6HeaderSlice.next_header. rewrite E. cbn [bind]. rewrite Fr. cbn [bind].
    cbn [v6_header v6_exts]. rewrite Win, First, Hoff. reflexivity.
  - injection X as ->. reflexivity.
  - injection X as ->. reflexivity.
Qed.

Lemma cut_v6_finish_eq s header :
  Cut.v6_finish true s header =
  (let* pl := Ipv6HeaderSlice.payload_length header in
   let* hp :=
     (if (0 =? pl) && (40 <? s_len s) then
        let* n := subN (s_len s) 40 in
        let* p := subU s 40 n in
        Ok (p, LsSlice)
      else
        let expected_len := 40 + pl in
        if s_len s <? expected_len then lerr expected_len (s_len s) LsSlice LyIpv6Packet
        else
          let* p := subU s 40 pl in
          Ok (p, LsIpv6HeaderPayloadLen)) in
   cut_v6_tail header (fst hp) (snd hp)).
Proof.
  unfold Cut.v6_finish, cut_v6_tail.
  destruct (Ipv6HeaderSlice.payload_length header); cbn [bind]; try reflexivity.
  destruct (if (0 =? a) && (40 <? s_len s) then _ else _) as [[hp src]|e|b]; reflexivity.
Qed.

Lemma v6_agree s : bytes_ok (snd s) ->
  ip6_rel s (IpHeaders.from_ipv6_slice s) (Cut.v6_from_slice true s).
Proof.
  intros Hok. unfold IpHeaders.from_ipv6_slice, Cut.v6_from_slice, Ipv6Header.from_slice.
  pose proof (v6hdr_shape s) as Sh.
  destruct (Ipv6HeaderSlice.from_slice s) as [h|e|b]; cbn [bind]; try contradiction; [|reflexivity].
  destruct Sh as (H40 & Hle & Hoff & Hsub).
  rewrite idx_from_eq by lia. cbn [bind]. rewrite cut_v6_finish_eq.
  unfold Ipv6HeaderSlice.payload_length.
  destruct (rd16_ok h 4) as (pl & Epl); [lia|]. rewrite Epl. cbn [bind].
  destruct ((0 =? pl) && (40 <? s_len s)) eqn:Ez.
  - rewrite subN_ok by lia. cbn [bind]. rewrite subU_rest by lia. cbn [bind fst snd].
    apply v6_tail_agree; auto.
    + now apply bytes_ok_rest.
    + unfold s_off in *. cbn [fst]. lia.
    + unfold s_off. cbn [fst]. lia.
  - rewrite s_len_drop.
    destruct (s_len s <? 40 + pl) eqn:El.
    { destruct (s_len s - 40 <? pl) eqn:El'; [|lia]. cbn [bind].
      replace (pl + 40) with (40 + pl) by lia. reflexivity. }
    destruct (s_len s - 40 <? pl) eqn:El'; [lia|].
    rewrite (subU_eq (fst s + 40, drop 40 (snd s)) 0 pl) by (rewrite s_len_drop; lia).
    rewrite subU_eq by lia. cbn [bind fst snd]. rewrite drop_drop0, N.add_0_r.
    apply v6_tail_agree; auto.
    + cbn [snd]. apply bytes_ok_take. now apply bytes_ok_drop.
    + unfold s_off in *. cbn [fst]. lia.
    + unfold s_off. cbn [fst]. lia.
Qed.
