(* Parse/ShiftInv.v -- "the observable result depends only on the bytes of the slice, not
   on where it is located": in the pointer model of Parse/Types.v a `&[u8]` is (offset of its
   first byte, contents); the entry points of Parse/Cursor.v are applied to `mk_slice bs`
   = (0, bs).  Here the same transliterations are run on a slice that starts ANYWHERE,
   `sh k s` = the slice s moved by k bytes (`(k, bs)` for a standalone input), and the
   answer is proved to be the answer for s with every pointer moved by k:
     - Ok values: every stored slice moved by k (same contents, same lengths, same
       decoded numbers, same length sources);
     - Err values: EQUAL (required_len, len, len_source, layer, layer_start_offset --
       the offsets of errors are relative to the start of the input slice);
     - Bug values: equal (and excluded by C01/C02).
   As a corollary, decoding a window [pos, lim) of a larger buffer gives the answer of
   decoding a standalone copy of these bytes, moved by pos: nothing outside the window
   influences the result.
   The single-layer lemmas of Equiv/ShiftProofs.v are reused; the cursor is re-done here as
   EQUALITIES with the cursor offset left alone (Equiv/ShiftProofs.v moves pointer and
   cursor offset together, which is what C06 needs). *)
From EP Require Import Base.Bytes Parse.Types Parse.Slices Parse.Cursor Parse.Repr Parse.Access
  Equiv.Model Equiv.ShiftProofs Equiv.LaxShift.
From Coq Require Import ZArith Lia ZifyN ZifyBool.
Import SlicedPacketCursor.

Local Open Scope N_scope.

(* ---- the entry points on an arbitrary slice ------------------------------------------------------ *)
(* the bodies of SlicedPacket::{from_ethernet, from_linux_sll, from_ether_type, from_ip} with
   the input slice as a parameter *)
Definition from_ethernet_at (s : slice) : res sliced_packet := slice_ethernet2 new s.
Definition from_linux_sll_at (s : slice) : res sliced_packet := slice_linux_sll new s.
Definition from_ether_type_at (et : N) (s : slice) : res sliced_packet :=
  let ep := mkEtherPayload et LsSlice s in
  slice_ether_type (set_link new 0 (LkEtherPayload ep)) ep.
Definition from_ip_at (s : slice) : res sliced_packet := slice_ip new s.

Lemma at_mk_slice bs et :
  from_ethernet_at (mk_slice bs) = SlicedPacket.from_ethernet bs /\
  from_linux_sll_at (mk_slice bs) = SlicedPacket.from_linux_sll bs /\
  from_ether_type_at et (mk_slice bs) = SlicedPacket.from_ether_type et bs /\
  from_ip_at (mk_slice bs) = SlicedPacket.from_ip bs.
Proof. repeat split. Qed.

(* ---- moving a whole result --------------------------------------------------------------------------- *)
Definition sh_link k (l : link_slice) : link_slice :=
  match l with
  | LkEthernet2 s => LkEthernet2 (sh k s)
  | LkLinuxSll h w => LkLinuxSll (sh k h) (sh k w)
  | LkEtherPayload e => LkEtherPayload (sh_ep k e)
  end.
Definition sh_pkt k (p : sliced_packet) : sliced_packet :=
  mkSliced (option_map (sh_link k) (sp_link p)) (map (sh_lext k) (sp_exts p))
           (option_map (sh_net k) (sp_net p)) (option_map (sh_tr k) (sp_transport p)).
Definition sh_cur k (c : cursor) : cursor := mkCursor (c_offset c) (c_src c) (sh_pkt k (c_result c)).
Definition sh_ip k (i : ip_slice) : ip_slice :=
  match i with IpV4 v => IpV4 (sh_v4 k v) | IpV6 v => IpV6 (sh_v6 k v) end.
Definition sh_pair k (x : slice * slice) : slice * slice := (sh k (fst x), sh k (snd x)).
Definition sh_eth2 k (e : eth2_slice) : eth2_slice := mkEth2 (e2_fcs_len e) (sh k (e2_slice e)).

(* ---- single-layer slicers not covered by Equiv/ShiftProofs.v ------------------------------------------ *)
Lemma eth2_from_slice_sh k s :
  Ethernet2Slice.from_slice_without_fcs (sh k s) = rmap (sh k) (Ethernet2Slice.from_slice_without_fcs s).
Proof. unfold Ethernet2Slice.from_slice_without_fcs. steps. Qed.

Lemma eth2_payload_sh k s :
  Ethernet2Slice.payload (sh k s) = rmap (sh_ep k) (Ethernet2Slice.payload s).
Proof.
  unfold Ethernet2Slice.payload, Ethernet2Slice.ether_type, Ethernet2Slice.payload_slice. steps.
Qed.

Lemma eth2a_from_slice_sh k s :
  Ethernet2A.from_slice_without_fcs (sh k s) = rmap (sh_eth2 k) (Ethernet2A.from_slice_without_fcs s).
Proof.
  unfold Ethernet2A.from_slice_without_fcs. rewrite eth2_from_slice_sh.
  destruct (Ethernet2Slice.from_slice_without_fcs s) as [r|[?|?]|?]; reflexivity.
Qed.

Lemma eth2a_fcs_from_slice_sh k s :
  Ethernet2A.from_slice_with_crc32_fcs (sh k s) = rmap (sh_eth2 k) (Ethernet2A.from_slice_with_crc32_fcs s).
Proof. unfold Ethernet2A.from_slice_with_crc32_fcs. cbv zeta. steps. Qed.

Lemma sllh_from_slice_sh k s :
  LinuxSll.header_from_slice (sh k s) = rmap (sh k) (LinuxSll.header_from_slice s).
Proof. unfold LinuxSll.header_from_slice. steps. Qed.

Lemma sll_from_slice_sh k s :
  LinuxSll.from_slice (sh k s) = rmap (sh_pair k) (LinuxSll.from_slice s).
Proof.
  unfold LinuxSll.from_slice. shrw. unfold lerr.
  destruct (s_len s <? 16); [reflexivity|]. destruct (16 <=? s_len s); cbn [bind]; [|reflexivity].
  change (fst (sh k s), take 16 (snd s)) with (sh k (fst s, take 16 (snd s))).
  rewrite sllh_from_slice_sh.
  destruct (LinuxSll.header_from_slice (fst s, take 16 (snd s))) as [h|[?|?]|?]; reflexivity.
Qed.

Lemma sll_payload_slice_sh k s :
  LinuxSll.payload_slice (sh k s) = rmap (sh k) (LinuxSll.payload_slice s).
Proof. unfold LinuxSll.payload_slice. steps. Qed.

Lemma ip_from_slice_sh k s : IpSlice.from_slice (sh k s) = rmap (sh_ip k) (IpSlice.from_slice s).
Proof.
  unfold IpSlice.from_slice. cbv zeta. shrw. unfold lerr.
  destruct (s_len s =? 0); [reflexivity|].
  destruct (rdU s 0) as [fb|[?|?]|?]; cbn [bind rmap]; try reflexivity.
  destruct (N.shiftr fb 4 =? 4).
  - destruct (N.land fb 15 <? 5); [reflexivity|].
    destruct (s_len s <? N.land fb 15 * 4); [reflexivity|]. repeat rewrite subU_sh.
    destruct (subU s 0 (N.land fb 15 * 4)) as [h|[?|?]|?]; cbn [bind rmap]; try reflexivity.
    change (Ipv4HeaderSlice.total_len (sh k h)) with (Ipv4HeaderSlice.total_len h).
    destruct (Ipv4HeaderSlice.total_len h) as [tl|[?|?]|?]; cbn [bind rmap]; try reflexivity.
    destruct (tl <? N.land fb 15 * 4); [reflexivity|]. destruct (s_len s <? tl); [reflexivity|].
    destruct (subN tl (N.land fb 15 * 4)) as [n|[?|?]|?]; cbn [bind rmap]; try reflexivity.
    shrw. destruct (subU s (N.land fb 15 * 4) n) as [hp|[?|?]|?]; cbn [bind rmap]; try reflexivity.
    rewrite v4_finish_sh. destruct (Ipv4Slice.finish h hp) as [v|[?|?]|?]; reflexivity.
  - destruct (N.shiftr fb 4 =? 6); [|reflexivity].
    destruct (s_len s <? 40); [reflexivity|]. repeat rewrite subU_sh.
    destruct (subU s 0 40) as [h|[?|?]|?]; cbn [bind rmap]; try reflexivity.
    rewrite v6_finish_sh. destruct (Ipv6Slice.finish s h) as [v|[?|?]|?]; reflexivity.
Qed.

Lemma udph_from_slice_sh k s :
  UdpSlice.header_from_slice (sh k s) = rmap (sh k) (UdpSlice.header_from_slice s).
Proof. unfold UdpSlice.header_from_slice. steps. Qed.

Lemma tcph_from_slice_sh k s :
  TcpHeaderSliceA.from_slice (sh k s) = rmap (sh k) (TcpHeaderSliceA.from_slice s).
Proof. unfold TcpHeaderSliceA.from_slice. steps. Qed.

(* ---- the cursor: pointers move, the cursor offset does not ----------------------------------------- *)
Lemma tr_fix_cur k c : tr_fix (sh_cur k c) = tr_fix c.
Proof. reflexivity. Qed.

Lemma tr_generic_eq k c (A : Type) (r : res A) (shA : A -> A) (mk : A -> transport_slice) :
  (forall a, mk (shA a) = sh_tr k (mk a)) ->
  (let* x := map_len_err (tr_fix (sh_cur k c)) (rmap shA r) in Ok (set_transport (sh_cur k c) (mk x))) =
  rmap (sh_pkt k) (let* x := map_len_err (tr_fix c) r in Ok (set_transport c (mk x))).
Proof.
  intros M. destruct r as [a|[l|e]|b]; cbn [rmap map_len_err bind]; try reflexivity.
  unfold set_transport, sh_pkt. cbn. now rewrite M.
Qed.

Lemma transport_dispatch_eq k c p :
  transport_dispatch (sh_cur k c) (sh_ipp k p) = rmap (sh_pkt k) (transport_dispatch c p).
Proof.
  unfold transport_dispatch. cbn [sh_ipp ipp_fragmented ipp_number ipp_slice].
  destruct (ipp_fragmented p); [reflexivity|].
  destruct (ipp_number p =? IPN_ICMP).
  { unfold slice_icmp4. rewrite icmp4_from_slice_sh. now apply (tr_generic_eq k c slice _ (sh k) TrIcmpv4). }
  destruct (ipp_number p =? IPN_UDP).
  { unfold slice_udp. rewrite udp_from_slice_sh. now apply (tr_generic_eq k c slice _ (sh k) TrUdp). }
  destruct (ipp_number p =? IPN_TCP).
  { unfold slice_tcp. rewrite tcp_from_slice_sh.
    now apply (tr_generic_eq k c (N * slice)%type _ (sh_tcp k) (fun r => TrTcp (fst r) (snd r))). }
  destruct (ipp_number p =? IPN_ICMPV6).
  { unfold slice_icmp6. rewrite icmp6_from_slice_sh. now apply (tr_generic_eq k c slice _ (sh k) TrIcmpv6). }
  reflexivity.
Qed.

Lemma slice_arp_eq k c s : slice_arp (sh_cur k c) (sh k s) = rmap (sh_pkt k) (slice_arp c s).
Proof.
  unfold slice_arp. rewrite arp_from_slice_sh.
  destruct (ArpPacketSlice.from_slice s) as [r|[l|e]|b]; reflexivity.
Qed.

Lemma slice_ipv4_eq k c s : slice_ipv4 (sh_cur k c) (sh k s) = rmap (sh_pkt k) (slice_ipv4 c s).
Proof.
  unfold slice_ipv4. rewrite v4_from_slice_sh.
  destruct (Ipv4Slice.from_slice s) as [ip|[l|e]|b]; cbn [rmap map_len_err bind]; try reflexivity.
  change (ipp_slice (v4_payload (sh_v4 k ip))) with (sh k (ipp_slice (v4_payload ip))).
  rewrite ptr_diff_sh.
  destruct (ptr_diff (ipp_slice (v4_payload ip)) s) as [d|[?|?]|?]; cbn [bind rmap]; try reflexivity.
  change (v4_payload (sh_v4 k ip)) with (sh_ipp k (v4_payload ip)).
  exact (transport_dispatch_eq k (set_net c (c_offset c + d) (ipp_src (v4_payload ip)) (NtIpv4 ip)) _).
Qed.

Lemma slice_ipv6_eq k c s : slice_ipv6 (sh_cur k c) (sh k s) = rmap (sh_pkt k) (slice_ipv6 c s).
Proof.
  unfold slice_ipv6. rewrite v6_from_slice_sh.
  destruct (Ipv6Slice.from_slice s) as [ip|[l|e]|b]; cbn [rmap map_len_err bind]; try reflexivity.
  change (ipp_slice (v6_payload (sh_v6 k ip))) with (sh k (ipp_slice (v6_payload ip))).
  rewrite ptr_diff_sh.
  destruct (ptr_diff (ipp_slice (v6_payload ip)) s) as [d|[?|?]|?]; cbn [bind rmap]; try reflexivity.
  change (v6_payload (sh_v6 k ip)) with (sh_ipp k (v6_payload ip)).
  exact (transport_dispatch_eq k (set_net c (c_offset c + d) (ipp_src (v6_payload ip)) (NtIpv6 ip)) _).
Qed.

Lemma slice_ip_eq k c s : slice_ip (sh_cur k c) (sh k s) = rmap (sh_pkt k) (slice_ip c s).
Proof.
  unfold slice_ip. rewrite ip_from_slice_sh.
  destruct (IpSlice.from_slice s) as [ip|[l|e]|b]; cbn [rmap map_len_err bind]; try reflexivity.
  assert (P : IpSlice.payload (sh_ip k ip) = sh_ipp k (IpSlice.payload ip)) by (destruct ip; reflexivity).
  rewrite P. change (ipp_slice (sh_ipp k (IpSlice.payload ip))) with (sh k (ipp_slice (IpSlice.payload ip))).
  rewrite ptr_diff_sh.
  destruct (ptr_diff (ipp_slice (IpSlice.payload ip)) s) as [d|[?|?]|?]; cbn [bind rmap]; try reflexivity.
  change (ipp_src (sh_ipp k (IpSlice.payload ip))) with (ipp_src (IpSlice.payload ip)).
  destruct ip as [v|v]; cbn [sh_ip].
  - exact (transport_dispatch_eq k (set_net c (c_offset c + d) (ipp_src (v4_payload v)) (NtIpv4 v)) _).
  - exact (transport_dispatch_eq k (set_net c (c_offset c + d) (ipp_src (v6_payload v)) (NtIpv6 v)) _).
Qed.

Lemma push_ext_eq k c o src x :
  push_ext (sh_cur k c) o src (sh_lext k x) = rmap (sh_cur k) (push_ext c o src x).
Proof.
  unfold push_ext. cbn [sh_cur c_result sh_pkt sp_exts]. rewrite len_map.
  destruct (len (sp_exts (c_result c)) <? LINK_EXTS_CAP); [|reflexivity].
  cbn [rmap]. unfold sh_cur, sh_pkt. cbn. now rewrite map_app.
Qed.

Lemma loop_eq k fuel : forall c ep,
  slice_ether_type_loop fuel (sh_cur k c) (sh_ep k ep) = rmap (sh_pkt k) (slice_ether_type_loop fuel c ep).
Proof.
  induction fuel as [|f IH]; intros c ep; [reflexivity|].
  cbn [slice_ether_type_loop]. cbn [sh_ep ep_ether_type ep_slice].
  change (c_offset (sh_cur k c)) with (c_offset c). change (c_src (sh_cur k c)) with (c_src c).
  change (sp_exts (c_result (sh_cur k c))) with (map (sh_lext k) (sp_exts (c_result c))).
  rewrite len_map.
  change (c_result (sh_cur k c)) with (sh_pkt k (c_result c)).
  destruct (is_vlan_type (ep_ether_type ep)).
  { destruct (LINK_EXTS_CAP <=? len (sp_exts (c_result c))); [reflexivity|].
    rewrite vlan_from_slice_sh.
    destruct (SingleVlanSlice.from_slice (ep_slice ep)) as [vlan|[l|e]|b]; cbn [rmap map_len_err bind]; try reflexivity.
    rewrite vlan_payload_sh.
    destruct (SingleVlanSlice.payload vlan) as [vp|[?|?]|?]; cbn [rmap bind]; try reflexivity.
    change (LeVlan (sh k vlan)) with (sh_lext k (LeVlan vlan)). rewrite push_ext_eq.
    destruct (push_ext c _ _ _) as [c'|[?|?]|?]; cbn [rmap bind]; try reflexivity.
    apply IH. }
  destruct (ep_ether_type ep =? ET_MACSEC).
  { destruct (LINK_EXTS_CAP <=? len (sp_exts (c_result c))); [reflexivity|].
    rewrite macsec_from_slice_sh.
    destruct (Macsec.from_slice (ep_slice ep)) as [m|[l|e]|b]; cbn [rmap map_len_err bind]; try reflexivity.
    change (ms_header (sh_ms k m)) with (sh k (ms_header m)).
    rewrite macsec_hl_sh, macsec_sl_sh.
    destruct (Macsec.header_len (ms_header m)) as [hl|[?|?]|?]; cbn [bind rmap]; try reflexivity.
    destruct (Macsec.short_len (ms_header m)) as [sl|[?|?]|?]; cbn [bind rmap]; try reflexivity.
    change (LeMacsec (sh_ms k m)) with (sh_lext k (LeMacsec m)). rewrite push_ext_eq.
    destruct (push_ext c _ _ _) as [c'|[?|?]|?]; cbn [rmap bind]; try reflexivity.
    change (ms_payload (sh_ms k m)) with (sh_mp k (ms_payload m)).
    destruct (ms_payload m) as [e|s]; cbn [sh_mp]; [apply IH|reflexivity]. }
  destruct (ep_ether_type ep =? ET_ARP); [apply slice_arp_eq|].
  destruct (ep_ether_type ep =? ET_IPV4); [apply slice_ipv4_eq|].
  destruct (ep_ether_type ep =? ET_IPV6); [apply slice_ipv6_eq|].
  reflexivity.
Qed.

Lemma slice_ethernet2_eq k c s :
  slice_ethernet2 (sh_cur k c) (sh k s) = rmap (sh_pkt k) (slice_ethernet2 c s).
Proof.
  unfold slice_ethernet2. rewrite eth2_from_slice_sh.
  destruct (Ethernet2Slice.from_slice_without_fcs s) as [r|[l|e]|b]; cbn [rmap map_len_err bind]; try reflexivity.
  rewrite eth2_payload_sh.
  destruct (Ethernet2Slice.payload r) as [ep|[?|?]|?]; cbn [rmap bind]; try reflexivity.
  exact (loop_eq k 5 (set_link c (c_offset c + Ethernet2Slice.header_len) (LkEthernet2 r)) ep).
Qed.

Lemma slice_linux_sll_eq k c s :
  slice_linux_sll (sh_cur k c) (sh k s) = rmap (sh_pkt k) (slice_linux_sll c s).
Proof.
  unfold slice_linux_sll. rewrite sll_from_slice_sh.
  destruct (LinuxSll.from_slice s) as [[h w]|[l|e]|b]; cbn [rmap map_len_err bind sh_pair fst snd]; try reflexivity.
  change (LinuxSll.protocol_type (sh k h)) with (LinuxSll.protocol_type h).
  destruct (LinuxSll.protocol_type h) as [pt|[?|?]|?]; cbn [rmap bind]; try reflexivity.
  rewrite sll_payload_slice_sh.
  destruct (LinuxSll.payload_slice w) as [pl|[?|?]|?]; cbn [rmap bind]; try reflexivity.
  destruct pt; try reflexivity.
  exact (loop_eq k 5 (set_link c (c_offset c + 16) (LkLinuxSll h w)) (mkEtherPayload v LsSlice pl)).
Qed.

(* ---- the theorems ------------------------------------------------------------------------------------- *)
Theorem strict_entry_shift_invariant k s et :
  from_ethernet_at (sh k s) = rmap (sh_pkt k) (from_ethernet_at s) /\
  from_linux_sll_at (sh k s) = rmap (sh_pkt k) (from_linux_sll_at s) /\
  from_ether_type_at et (sh k s) = rmap (sh_pkt k) (from_ether_type_at et s) /\
  from_ip_at (sh k s) = rmap (sh_pkt k) (from_ip_at s).
Proof.
  split; [exact (slice_ethernet2_eq k new s)|]. split; [exact (slice_linux_sll_eq k new s)|].
  split; [|exact (slice_ip_eq k new s)].
  exact (loop_eq k 5 (set_link new 0 (LkEtherPayload (mkEtherPayload et LsSlice s)))
           (mkEtherPayload et LsSlice s)).
Qed.

(* a standalone input located k bytes into its allocation *)
Theorem strict_entry_located k bs et :
  from_ethernet_at (k, bs) = rmap (sh_pkt k) (SlicedPacket.from_ethernet bs) /\
  from_linux_sll_at (k, bs) = rmap (sh_pkt k) (SlicedPacket.from_linux_sll bs) /\
  from_ether_type_at et (k, bs) = rmap (sh_pkt k) (SlicedPacket.from_ether_type et bs) /\
  from_ip_at (k, bs) = rmap (sh_pkt k) (SlicedPacket.from_ip bs).
Proof. exact (strict_entry_shift_invariant k (mk_slice bs) et). Qed.

(* a window of a larger buffer: nothing outside [pos, lim) influences the answer *)
Theorem strict_entry_window bs s pos lim et :
  repr bs s pos lim ->
  let w := take (lim - pos) (drop pos bs) in
  from_ethernet_at s = rmap (sh_pkt pos) (SlicedPacket.from_ethernet w) /\
  from_linux_sll_at s = rmap (sh_pkt pos) (SlicedPacket.from_linux_sll w) /\
  from_ether_type_at et s = rmap (sh_pkt pos) (SlicedPacket.from_ether_type et w) /\
  from_ip_at s = rmap (sh_pkt pos) (SlicedPacket.from_ip w).
Proof. intros (-> & _). cbv zeta. apply strict_entry_located. Qed.

(* two buffers that agree on the window give the same answer (pointers included) *)
Corollary strict_entry_same_window bs1 bs2 s1 s2 pos lim et :
  repr bs1 s1 pos lim -> repr bs2 s2 pos lim ->
  take (lim - pos) (drop pos bs1) = take (lim - pos) (drop pos bs2) ->
  from_ethernet_at s1 = from_ethernet_at s2 /\ from_linux_sll_at s1 = from_linux_sll_at s2 /\
  from_ether_type_at et s1 = from_ether_type_at et s2 /\ from_ip_at s1 = from_ip_at s2.
Proof. intros (-> & _) (-> & _) ->. repeat split. Qed.

(* the single layers *)
Theorem single_layer_shift_invariant k s :
  Ethernet2A.from_slice_without_fcs (sh k s) = rmap (sh_eth2 k) (Ethernet2A.from_slice_without_fcs s) /\
  Ethernet2A.from_slice_with_crc32_fcs (sh k s) = rmap (sh_eth2 k) (Ethernet2A.from_slice_with_crc32_fcs s) /\
  LinuxSll.header_from_slice (sh k s) = rmap (sh k) (LinuxSll.header_from_slice s) /\
  LinuxSll.from_slice (sh k s) = rmap (sh_pair k) (LinuxSll.from_slice s) /\
  SingleVlanSlice.from_slice (sh k s) = rmap (sh k) (SingleVlanSlice.from_slice s) /\
  Macsec.header_from_slice (sh k s) = rmap (sh k) (Macsec.header_from_slice s) /\
  Macsec.from_slice (sh k s) = rmap (sh_ms k) (Macsec.from_slice s) /\
  ArpPacketSlice.from_slice (sh k s) = rmap (sh k) (ArpPacketSlice.from_slice s) /\
  Ipv4HeaderSlice.from_slice (sh k s) = rmap (sh k) (Ipv4HeaderSlice.from_slice s) /\
  Ipv4Slice.from_slice (sh k s) = rmap (sh_v4 k) (Ipv4Slice.from_slice s) /\
  Ipv6HeaderSlice.from_slice (sh k s) = rmap (sh k) (Ipv6HeaderSlice.from_slice s) /\
  Ipv6Slice.from_slice (sh k s) = rmap (sh_v6 k) (Ipv6Slice.from_slice s) /\
  IpSlice.from_slice (sh k s) = rmap (sh_ip k) (IpSlice.from_slice s) /\
  IpAuthHeaderSlice.from_slice (sh k s) = rmap (sh k) (IpAuthHeaderSlice.from_slice s) /\
  Ipv6RawExtHeaderSlice.from_slice (sh k s) = rmap (sh k) (Ipv6RawExtHeaderSlice.from_slice s) /\
  Ipv6FragmentHeaderSlice.from_slice (sh k s) = rmap (sh k) (Ipv6FragmentHeaderSlice.from_slice s) /\
  (forall nh, Ipv6ExtensionsSlice.from_slice nh (sh k s) = rmap (sh_x6r k) (Ipv6ExtensionsSlice.from_slice nh s)) /\
  UdpSlice.header_from_slice (sh k s) = rmap (sh k) (UdpSlice.header_from_slice s) /\
  UdpSlice.from_slice (sh k s) = rmap (sh k) (UdpSlice.from_slice s) /\
  UdpSlice.from_slice_lax (sh k s) = rmap (sh k) (UdpSlice.from_slice_lax s) /\
  TcpHeaderSliceA.from_slice (sh k s) = rmap (sh k) (TcpHeaderSliceA.from_slice s) /\
  TcpSlice.from_slice (sh k s) = rmap (sh_tcp k) (TcpSlice.from_slice s) /\
  Icmpv4Slice.from_slice (sh k s) = rmap (sh k) (Icmpv4Slice.from_slice s) /\
  Icmpv6Slice.from_slice (sh k s) = rmap (sh k) (Icmpv6Slice.from_slice s).
Proof.
  repeat match goal with |- _ /\ _ => split end;
    first [ apply eth2a_from_slice_sh | apply eth2a_fcs_from_slice_sh | apply sllh_from_slice_sh
          | apply sll_from_slice_sh | apply vlan_from_slice_sh | apply macsec_header_sh
          | apply macsec_from_slice_sh | apply arp_from_slice_sh | apply v4h_from_slice_sh
          | apply v4_from_slice_sh | apply v6h_from_slice_sh | apply v6_from_slice_sh
          | apply ip_from_slice_sh | apply auth_from_slice_sh | apply raw_from_slice_sh
          | apply frag_from_slice_sh | (intros nh; apply x6_from_slice_sh) | apply udph_from_slice_sh
          | apply udp_from_slice_sh | apply udp_from_slice_lax_sh | apply tcph_from_slice_sh
          | apply tcp_from_slice_sh | apply icmp4_from_slice_sh | apply icmp6_from_slice_sh ].
Qed.
