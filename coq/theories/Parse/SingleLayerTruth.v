(* Parse/SingleLayerTruth.v -- round 3 (agent c07sl): property C07 for the SINGLE-LAYER
   decoders called directly (`XSlice::from_slice(slice)`), on every window [pos, lim) of every
   buffer (`repr bs s pos lim`; the whole buffer is `repr_whole bs : repr bs (mk_slice bs) 0
   (len bs)`).  Nothing new is modelled: the decoders are those of Parse/Slices.v, the reference
   is the per-layer function of Parse/WireSpec.v started at (source Slice, position pos, limit
   lim), and the proofs instantiate the per-layer refinement lemmas of Parse/StrictProofs.v
   (`udp_rel`, `tcp_rel`, `icmp4_rel`, `icmp6_rel`, `arp_rel`, `ipv4_rel`, `ipv6_rel`, `ip_rel`,
   `ether_rel`, `exts_rel`, `ah_eq`) with a cursor that has decoded nothing and stands at `pos`.

   A decoder called on a sub-slice reports offsets relative to THAT slice (it is "the buffer the
   caller passed in"); `shift_err e pos` moves the record into the coordinates of the enclosing
   buffer `bs`, `shift_err e 0 = e`. *)
From EP Require Import Base.Bytes Parse.Types Parse.Slices Parse.Cursor Parse.View
  Parse.WireSpec Parse.Repr Parse.StrictProofs Parse.WireSpecFacts Parse.StrictFacts.
From Coq Require Import ZArith Lia ZifyN ZifyBool.
Import SlicedPacketCursor.

Local Open Scope N_scope.

Definition shift_err (e : slice_error) (pos : N) : slice_error :=
  match e with
  | ELen l => ELen (le_add_offset l pos)
  | EContent c => EContent c
  end.

Lemma shift_err_0 e : shift_err e 0 = e.
Proof.
  destruct e as [[r l s ly o]|c]; cbn; [|reflexivity].
  unfold le_add_offset; cbn. now rewrite N.add_0_r.
Qed.

(* a cursor that has decoded nothing and stands at `pos` (pos = 0: SlicedPacketCursor::new) *)
Definition cur_at (pos : N) : cursor := mkCursor pos LsSlice (mkSliced None [] None None).

Lemma cur_at_0 : cur_at 0 = new.
Proof. reflexivity. Qed.

Lemma tr_fix_cur_at pos l : tr_fix (cur_at pos) l = le_add_offset l pos.
Proof. destruct l as [r a s ly o]. destruct s; reflexivity. Qed.

(* the record that is truthful w.r.t. a reference answer w *)
Definition truthful_at (e : slice_error) (pos : N) (w : vres) : Prop :=
  c07_truthful (VErr (shift_err e pos)) w.

Lemma exact_truthful e pos w : w = VErr (shift_err e pos) -> truthful_at e pos w.
Proof.
  intros ->. unfold truthful_at. destruct (shift_err e pos) as [l|c]; cbn; [|reflexivity].
  exists l. repeat split; auto.
Qed.

(* ---- transport: the complete record, no relaxation of the length source -------------------- *)
Section Window.
  Variables (bs : bytes) (s : slice) (pos lim : N).
  Hypothesis Hok : bytes_ok bs.
  Hypothesis R : repr bs s pos lim.

  Lemma udp_single p e :
    UdpSlice.from_slice s = Err e -> wire_udp bs p LsSlice pos lim = VErr (shift_err e pos).
  Proof.
    unfold UdpSlice.from_slice, UdpSlice.header_from_slice, UdpSlice.length, wire_udp.
    rewrite (repr_len _ _ _ _ R).
    destruct (lim - pos <? 8) eqn:E8; cbn.
    - intros H. injection H as <-. reflexivity.
    - get_prefix R 8 h Eh Rh. rewrite Eh. cbn [bind].
      rd16 Rh 4.
      destruct (lim - pos <? W bs (pos + 4)) eqn:El; cbn.
      + intros H. injection H as <-. reflexivity.
      + destruct (W bs (pos + 4) =? 0) eqn:E0; cbn; [discriminate|].
        destruct (W bs (pos + 4) <? 8) eqn:E8'; cbn.
        * intros H. injection H as <-. reflexivity.
        * get_prefix R (W bs (pos + 4)) u Eu Ru. rewrite Eu. discriminate.
  Qed.

  Lemma tcp_single p e :
    TcpSlice.from_slice s = Err e -> wire_tcp bs p LsSlice pos lim = VErr (shift_err e pos).
  Proof.
    unfold TcpSlice.from_slice, wire_tcp.
    rewrite (repr_len _ _ _ _ R).
    destruct (lim - pos <? 20) eqn:E20; cbn.
    - intros H. injection H as <-. reflexivity.
    - rd8 R 12.
      pose proof (B_lt bs (pos + 12) Hok) as Hb.
      rewrite (tcp_hl_bits _ Hb).
      assert (Hd : (B bs (pos + 12) / 16 * 4 <? 20) = (B bs (pos + 12) / 16 <? 5)).
      { destruct (B bs (pos + 12) / 16 <? 5) eqn:E; lia. }
      rewrite Hd.
      destruct (B bs (pos + 12) / 16 <? 5) eqn:E5; cbn.
      + intros H. injection H as <-. cbn. now rewrite (tcp_do_bits _ Hb).
      + destruct (lim - pos <? B bs (pos + 12) / 16 * 4) eqn:El; cbn.
        * intros H. injection H as <-. reflexivity.
        * discriminate.
  Qed.

  Lemma icmp4_single p e :
    Icmpv4Slice.from_slice s = Err e -> wire_icmp4 bs p LsSlice pos lim = VErr (shift_err e pos).
  Proof.
    unfold Icmpv4Slice.from_slice, wire_icmp4.
    rewrite (repr_len _ _ _ _ R).
    destruct (lim - pos <? 8) eqn:E8; cbn.
    - intros H. injection H as <-. reflexivity.
    - rd8 R 0. rd8 R 1. rewrite N.add_0_r.
      rewrite (N.eqb_sym 0 (B bs (pos + 1))), (N.eqb_sym 20 (lim - pos)).
      destruct ((B bs pos =? 13) && (B bs (pos + 1) =? 0) && negb (lim - pos =? 20)) eqn:E13; cbn.
      + intros H. injection H as <-. reflexivity.
      + destruct ((B bs pos =? 14) && (B bs (pos + 1) =? 0) && negb (lim - pos =? 20)) eqn:E14; cbn.
        * intros H. injection H as <-. reflexivity.
        * discriminate.
  Qed.

  Lemma icmp6_single p e :
    Icmpv6Slice.from_slice s = Err e -> wire_icmp6 p LsSlice pos lim = VErr (shift_err e pos).
  Proof.
    unfold Icmpv6Slice.from_slice, Icmpv6Slice.MAX_LEN, wire_icmp6.
    rewrite (repr_len _ _ _ _ R).
    destruct (lim - pos <? 8) eqn:E8; cbn.
    - intros H. injection H as <-. reflexivity.
    - destruct (4294967295 <? lim - pos) eqn:Em; cbn.
      + intros H. injection H as <-. reflexivity.
      + discriminate.
  Qed.

  (* ---- ARP: the complete record except that the second error names ArpAddrLengths (F7) ------ *)
  Lemma arp_single p e :
    ArpPacketSlice.from_slice s = Err e ->
    exists l, e = ELen l /\
      wire_arp bs p LsSlice pos lim = VErr (ELen (le_set_src (le_add_offset l pos) LsSlice)) /\
      (le_src l = LsSlice \/ (F7 l /\ le_required l = 8 + B bs (pos + 4) * 2 + B bs (pos + 5) * 2)).
  Proof.
    unfold ArpPacketSlice.from_slice, wire_arp.
    rewrite (repr_len _ _ _ _ R).
    destruct (lim - pos <? 8) eqn:E8; cbn.
    - intros H. injection H as <-. eexists. split; [reflexivity|]. split; [reflexivity|]. now left.
    - rd8 R 4. rd8 R 5.
      destruct (lim - pos <? 8 + B bs (pos + 4) * 2 + B bs (pos + 5) * 2) eqn:El; cbn.
      + intros H. injection H as <-. eexists. split; [reflexivity|]. split; [reflexivity|].
        right. split; [left; split; reflexivity|reflexivity].
      + get_prefix R (8 + B bs (pos + 4) * 2 + B bs (pos + 5) * 2) a Ea Ra. rewrite Ea. discriminate.
  Qed.

  (* ---- link ---------------------------------------------------------------------------------- *)
  Lemma vlan_single p et e : is_vlan et = true ->
    SingleVlanSlice.from_slice s = Err e ->
    wire_ether bs 3 p et LsSlice pos lim = VErr (shift_err e pos).
  Proof.
    intros Hv. unfold SingleVlanSlice.from_slice. rewrite (repr_len _ _ _ _ R).
    cbn [wire_ether]. rewrite Hv.
    destruct (lim - pos <? 4) eqn:E4; [|discriminate].
    intros H. injection H as <-. reflexivity.
  Qed.

  Lemma macsec_single e :
    Macsec.from_slice s = Err e ->
    truthful_at e pos (wire_ether bs 3 empty_packet 35045 LsSlice pos lim).
  Proof.
    intros He.
    pose proof (ether_rel bs Hok 3 4%nat (cur_at pos) (mkEtherPayload 35045 LsSlice s) pos lim LsSlice
                  ltac:(lia) eq_refl R eq_refl (src_ok_refl _)) as H.
    cbn [slice_ether_type_loop ep_ether_type ep_slice] in H.
    change (is_vlan_type 35045) with false in H.
    change (35045 =? ET_MACSEC) with true in H.
    change (LINK_EXTS_CAP <=? len (sp_exts (c_result (cur_at pos)))) with false in H.
    cbv iota in H. rewrite He in H.
    apply res_rel_c07 in H. unfold truthful_at. destruct e; exact H.
  Qed.

  (* ---- network ------------------------------------------------------------------------------- *)
  Lemma ipv4_single e :
    Ipv4Slice.from_slice s = Err e ->
    truthful_at e pos (wire_ipv4 bs empty_packet LsSlice pos lim).
  Proof.
    intros He.
    pose proof (ipv4_rel bs (cur_at pos) s pos lim LsSlice Hok R eq_refl (src_ok_refl _)) as H.
    rewrite slice_ipv4_unfold, He in H.
    apply res_rel_c07 in H. unfold truthful_at. destruct e; exact H.
  Qed.

  Lemma ipv6_single e :
    Ipv6Slice.from_slice s = Err e ->
    truthful_at e pos (wire_ipv6 bs empty_packet LsSlice pos lim).
  Proof.
    intros He.
    pose proof (ipv6_rel bs (cur_at pos) s pos lim LsSlice Hok R eq_refl (src_ok_refl _)) as H.
    rewrite slice_ipv6_unfold, He in H.
    apply res_rel_c07 in H. unfold truthful_at. destruct e; exact H.
  Qed.

  Lemma ip_single e :
    IpSlice.from_slice s = Err e ->
    truthful_at e pos (wire_ip bs empty_packet LsSlice pos lim).
  Proof.
    intros He.
    pose proof (ip_rel bs (cur_at pos) s pos lim LsSlice Hok R eq_refl (src_ok_refl _)) as H.
    unfold slice_ip in H. rewrite He in H.
    apply res_rel_c07 in H. unfold truthful_at. destruct e; exact H.
  Qed.

  (* the IPv6 extension chain behind an IPv6 header announcing `nh`; the IP authentication header *)
  Lemma exts_single nh e :
    Ipv6ExtensionsSlice.from_slice nh s = Err e ->
    wire_exts bs (S (N.to_nat (lim - pos))) LsSlice pos lim nh = ChErr (VErr (shift_err e pos)).
  Proof.
    intros He. pose proof (exts_rel bs Hok LsSlice s pos lim nh R) as X.
    unfold exts_ok in X. rewrite He in X.
    destruct (wire_exts bs (S (N.to_nat (lim - pos))) LsSlice pos lim nh)
      as [e' nx fr|[v|[se|ce]|b]]; try contradiction.
    - destruct X as (x & rest & X & _). discriminate.
    - destruct X as (me & X & A1 & A2 & A3 & A4 & A5 & A6). injection X as ->.
      destruct me as [r a sr ly o], se as [r' a' sr' ly' o']. cbn in *. subst. reflexivity.
    - injection X as ->. reflexivity.
  Qed.

  Lemma ah_single e :
    IpAuthHeaderSlice.from_slice s = Err e ->
    wire_ah bs CeAuthZeroPayloadLen LsSlice pos lim = AhErr (VErr (shift_err e pos)).
  Proof.
    rewrite (ah_eq bs s pos lim R). unfold wire_ah.
    destruct (lim - pos <? 12) eqn:E12.
    { intros H. injection H as <-. reflexivity. }
    destruct (B bs (pos + 1) =? 0) eqn:Ez.
    { intros H. injection H as <-. reflexivity. }
    destruct (lim - pos <? (B bs (pos + 1) + 2) * 4) eqn:El.
    { intros H. injection H as <-. reflexivity. }
    get_prefix R ((B bs (pos + 1) + 2) * 4) a Ea Ra. rewrite Ea. discriminate.
  Qed.
End Window.

(* ---- the two link headers that only occur at the start of a buffer --------------------------- *)
Lemma ethernet2_single bs e :
  Ethernet2Slice.from_slice_without_fcs (mk_slice bs) = Err e -> wire_ethernet bs = VErr e.
Proof.
  unfold Ethernet2Slice.from_slice_without_fcs, wire_ethernet, n_bs.
  change (s_len (mk_slice bs)) with (len bs).
  destruct (len bs <? 14); [|discriminate]. intros H. injection H as <-. reflexivity.
Qed.

Lemma linux_sll_single bs e : bytes_ok bs ->
  LinuxSll.from_slice (mk_slice bs) = Err e -> truthful_at e 0 (wire_linux_sll bs).
Proof.
  intros Hok He. pose proof (from_linux_sll_rel bs Hok) as H.
  unfold SlicedPacket.from_linux_sll, slice_linux_sll in H. rewrite He in H.
  apply res_rel_c07 in H. unfold truthful_at. destruct e; exact H.
Qed.

Lemma arp_single_truthful bs s pos lim e : bytes_ok bs -> repr bs s pos lim ->
  ArpPacketSlice.from_slice s = Err e ->
  truthful_at e pos (wire_arp bs empty_packet LsSlice pos lim).
Proof.
  intros Hok R He.
  pose proof (arp_rel bs (cur_at pos) s pos lim LsSlice Hok R eq_refl (src_ok_refl _)) as H.
  unfold slice_arp in H. rewrite He in H.
  apply res_rel_c07 in H. unfold truthful_at. destruct e; exact H.
Qed.

(* ---- direction of the length errors ------------------------------------------------------------ *)
Lemma truthful_dir bs l pos w : truthful_at (ELen l) pos w -> EOK bs w -> len_direction l.
Proof.
  unfold truthful_at. cbn. intros (se & -> & Hl & Ho & Hn & Hr & _) HE.
  specialize (HE (ELen se) eq_refl). cbn [classify] in HE.
  destruct (class_len bs se) as [c|] eqn:Ec; [|contradiction].
  pose proof (proj1 (class_len_direction bs se c Ec)) as D.
  unfold len_direction in *. rewrite Hl, Hn, Hr. exact D.
Qed.

Lemma osrc_slice : osrc LsSlice.
Proof. now left. Qed.

Theorem single_layer_len_direction bs s pos lim nh l : bytes_ok bs -> repr bs s pos lim ->
  (UdpSlice.from_slice s = Err (ELen l) -> len_direction l) /\
  (TcpSlice.from_slice s = Err (ELen l) -> len_direction l) /\
  (Icmpv4Slice.from_slice s = Err (ELen l) -> len_direction l) /\
  (Icmpv6Slice.from_slice s = Err (ELen l) -> len_direction l) /\
  (ArpPacketSlice.from_slice s = Err (ELen l) -> len_direction l) /\
  (SingleVlanSlice.from_slice s = Err (ELen l) -> len_direction l) /\
  (Macsec.from_slice s = Err (ELen l) -> len_direction l) /\
  (Ipv4Slice.from_slice s = Err (ELen l) -> len_direction l) /\
  (Ipv6Slice.from_slice s = Err (ELen l) -> len_direction l) /\
  (IpSlice.from_slice s = Err (ELen l) -> len_direction l) /\
  (Ipv6ExtensionsSlice.from_slice nh s = Err (ELen l) -> len_direction l) /\
  (IpAuthHeaderSlice.from_slice s = Err (ELen l) -> len_direction l).
Proof.
  intros Hok R.
  repeat match goal with |- _ /\ _ => split end; intros He.
  - apply (truthful_dir bs l pos (wire_udp bs empty_packet LsSlice pos lim)).
    + apply exact_truthful. now apply (udp_single bs s pos lim R).
    + apply wire_udp_eok, osrc_slice.
  - apply (truthful_dir bs l pos (wire_tcp bs empty_packet LsSlice pos lim)).
    + apply exact_truthful. now apply (tcp_single bs s pos lim Hok R).
    + apply wire_tcp_eok.
  - apply (truthful_dir bs l pos (wire_icmp4 bs empty_packet LsSlice pos lim)).
    + apply exact_truthful. now apply (icmp4_single bs s pos lim R).
    + apply wire_icmp4_eok.
  - apply (truthful_dir bs l pos (wire_icmp6 empty_packet LsSlice pos lim)).
    + apply exact_truthful. now apply (icmp6_single bs s pos lim R).
    + apply wire_icmp6_eok.
  - apply (truthful_dir bs l pos (wire_arp bs empty_packet LsSlice pos lim)).
    + now apply (arp_single_truthful bs s pos lim).
    + apply wire_arp_eok.
  - apply (truthful_dir bs l pos (wire_ether bs 3 empty_packet 33024 LsSlice pos lim)).
    + apply exact_truthful. now apply (vlan_single bs s pos lim R).
    + apply wire_ether_eok, osrc_slice.
  - apply (truthful_dir bs l pos (wire_ether bs 3 empty_packet 35045 LsSlice pos lim)).
    + now apply (macsec_single bs s pos lim Hok R).
    + apply wire_ether_eok, osrc_slice.
  - apply (truthful_dir bs l pos (wire_ipv4 bs empty_packet LsSlice pos lim)).
    + now apply (ipv4_single bs s pos lim Hok R).
    + apply wire_ipv4_eok.
  - apply (truthful_dir bs l pos (wire_ipv6 bs empty_packet LsSlice pos lim)).
    + now apply (ipv6_single bs s pos lim Hok R).
    + apply wire_ipv6_eok, osrc_slice.
  - apply (truthful_dir bs l pos (wire_ip bs empty_packet LsSlice pos lim)).
    + now apply (ip_single bs s pos lim Hok R).
    + apply wire_ip_eok, osrc_slice.
  - pose proof (exts_single bs s pos lim Hok R nh _ He) as X.
    apply (truthful_dir bs l pos (VErr (shift_err (ELen l) pos))).
    + now apply exact_truthful.
    + destruct (wire_exts_eok bs _ _ _ _ _ _ X) as [H|H]; [discriminate|exact H].
  - pose proof (ah_single bs s pos lim R _ He) as X.
    apply (truthful_dir bs l pos (VErr (shift_err (ELen l) pos))).
    + now apply exact_truthful.
    + apply (wire_ah_eok bs CeAuthZeroPayloadLen LsSlice pos lim _ ltac:(discriminate) X).
Qed.

Theorem single_layer_start_len_direction bs l : bytes_ok bs ->
  (Ethernet2Slice.from_slice_without_fcs (mk_slice bs) = Err (ELen l) -> len_direction l) /\
  (LinuxSll.from_slice (mk_slice bs) = Err (ELen l) -> len_direction l).
Proof.
  intros Hok. split; intros He.
  - apply (truthful_dir bs l 0 (wire_ethernet bs)).
    + apply exact_truthful. rewrite shift_err_0. now apply ethernet2_single.
    + apply wire_ethernet_eok.
  - apply (truthful_dir bs l 0 (wire_linux_sll bs)).
    + now apply linux_sll_single.
    + apply wire_linux_sll_eok.
Qed.

(* ---- the statements exported to Props/C07.v ---------------------------------------------------- *)
(* transport decoders + VLAN + extension chain + authentication header: the COMPLETE record of the
   reference function (layer, offset, len, required_len, len_source; content value) *)
Theorem single_layer_exact bs s pos lim p et nh : bytes_ok bs -> repr bs s pos lim ->
  (forall e, UdpSlice.from_slice s = Err e -> wire_udp bs p LsSlice pos lim = VErr (shift_err e pos)) /\
  (forall e, TcpSlice.from_slice s = Err e -> wire_tcp bs p LsSlice pos lim = VErr (shift_err e pos)) /\
  (forall e, Icmpv4Slice.from_slice s = Err e -> wire_icmp4 bs p LsSlice pos lim = VErr (shift_err e pos)) /\
  (forall e, Icmpv6Slice.from_slice s = Err e -> wire_icmp6 p LsSlice pos lim = VErr (shift_err e pos)) /\
  (is_vlan et = true -> forall e, SingleVlanSlice.from_slice s = Err e ->
     wire_ether bs 3 p et LsSlice pos lim = VErr (shift_err e pos)) /\
  (forall e, Ipv6ExtensionsSlice.from_slice nh s = Err e ->
     wire_exts bs (S (N.to_nat (lim - pos))) LsSlice pos lim nh = ChErr (VErr (shift_err e pos))) /\
  (forall e, IpAuthHeaderSlice.from_slice s = Err e ->
     wire_ah bs CeAuthZeroPayloadLen LsSlice pos lim = AhErr (VErr (shift_err e pos))) /\
  (forall e, ArpPacketSlice.from_slice s = Err e ->
     exists l, e = ELen l /\
       wire_arp bs p LsSlice pos lim = VErr (ELen (le_set_src (le_add_offset l pos) LsSlice)) /\
       (le_src l = LsSlice \/ (F7 l /\ le_required l = 8 + B bs (pos + 4) * 2 + B bs (pos + 5) * 2))).
Proof.
  intros Hok R.
  split; [intros e; apply (udp_single bs s pos lim R)|].
  split; [intros e; apply (tcp_single bs s pos lim Hok R)|].
  split; [intros e; apply (icmp4_single bs s pos lim R)|].
  split; [intros e; apply (icmp6_single bs s pos lim R)|].
  split; [intros Hv e; now apply (vlan_single bs s pos lim R)|].
  split; [intros e; apply (exts_single bs s pos lim Hok R)|].
  split; [intros e; apply (ah_single bs s pos lim R)|].
  intros e; apply (arp_single bs s pos lim R).
Qed.

(* MACsec, ARP and the three IP slicers: the C07 relation (layer, offset, len, required_len equal;
   len_source the reference's or Slice outside F7; content errors equal) to the reference function,
   which goes on behind the layer: a rejection of the single-layer decoder is the rejection of
   the reference decoder started at the same place *)
Theorem single_layer_truthful bs s pos lim : bytes_ok bs -> repr bs s pos lim ->
  (forall e, Macsec.from_slice s = Err e ->
     c07_truthful (VErr (shift_err e pos)) (wire_ether bs 3 empty_packet 35045 LsSlice pos lim)) /\
  (forall e, ArpPacketSlice.from_slice s = Err e ->
     c07_truthful (VErr (shift_err e pos)) (wire_arp bs empty_packet LsSlice pos lim)) /\
  (forall e, Ipv4Slice.from_slice s = Err e ->
     c07_truthful (VErr (shift_err e pos)) (wire_ipv4 bs empty_packet LsSlice pos lim)) /\
  (forall e, Ipv6Slice.from_slice s = Err e ->
     c07_truthful (VErr (shift_err e pos)) (wire_ipv6 bs empty_packet LsSlice pos lim)) /\
  (forall e, IpSlice.from_slice s = Err e ->
     c07_truthful (VErr (shift_err e pos)) (wire_ip bs empty_packet LsSlice pos lim)).
Proof.
  intros Hok R.
  split; [intros e; apply (macsec_single bs s pos lim Hok R)|].
  split; [intros e; now apply (arp_single_truthful bs s pos lim)|].
  split; [intros e; apply (ipv4_single bs s pos lim Hok R)|].
  split; [intros e; apply (ipv6_single bs s pos lim Hok R)|].
  intros e; apply (ip_single bs s pos lim Hok R).
Qed.

(* the whole buffer handed to the decoder: offset 0, limit = the slice length, source Slice; the
   reported record itself (no shift) is the truthful one *)
Theorem single_layer_whole bs : bytes_ok bs ->
  (forall e, Ethernet2Slice.from_slice_without_fcs (mk_slice bs) = Err e ->
     c07_truthful (VErr e) (wire_ethernet bs)) /\
  (forall e, LinuxSll.from_slice (mk_slice bs) = Err e -> c07_truthful (VErr e) (wire_linux_sll bs)) /\
  (forall e, SingleVlanSlice.from_slice (mk_slice bs) = Err e ->
     c07_truthful (VErr e) (wire_ether bs 3 empty_packet 33024 LsSlice 0 (len bs))) /\
  (forall e, Macsec.from_slice (mk_slice bs) = Err e ->
     c07_truthful (VErr e) (wire_ether bs 3 empty_packet 35045 LsSlice 0 (len bs))) /\
  (forall e, ArpPacketSlice.from_slice (mk_slice bs) = Err e ->
     c07_truthful (VErr e) (wire_arp bs empty_packet LsSlice 0 (len bs))) /\
  (forall e, Ipv4Slice.from_slice (mk_slice bs) = Err e ->
     c07_truthful (VErr e) (wire_ipv4 bs empty_packet LsSlice 0 (len bs))) /\
  (forall e, Ipv6Slice.from_slice (mk_slice bs) = Err e ->
     c07_truthful (VErr e) (wire_ipv6 bs empty_packet LsSlice 0 (len bs))) /\
  (forall e, IpSlice.from_slice (mk_slice bs) = Err e -> c07_truthful (VErr e) (wire_from_ip bs)) /\
  (forall e, UdpSlice.from_slice (mk_slice bs) = Err e ->
     c07_truthful (VErr e) (wire_udp bs empty_packet LsSlice 0 (len bs))) /\
  (forall e, TcpSlice.from_slice (mk_slice bs) = Err e ->
     c07_truthful (VErr e) (wire_tcp bs empty_packet LsSlice 0 (len bs))) /\
  (forall e, Icmpv4Slice.from_slice (mk_slice bs) = Err e ->
     c07_truthful (VErr e) (wire_icmp4 bs empty_packet LsSlice 0 (len bs))) /\
  (forall e, Icmpv6Slice.from_slice (mk_slice bs) = Err e ->
     c07_truthful (VErr e) (wire_icmp6 empty_packet LsSlice 0 (len bs))).
Proof.
  intros Hok. pose proof (repr_whole bs) as R.
  assert (T : forall e w, truthful_at e 0 w -> c07_truthful (VErr e) w).
  { intros e w. unfold truthful_at. now rewrite shift_err_0. }
  repeat match goal with |- _ /\ _ => split end; intros e He; apply T.
  - apply exact_truthful. rewrite shift_err_0. now apply ethernet2_single.
  - now apply linux_sll_single.
  - apply exact_truthful. now apply (vlan_single bs _ 0 (len bs) R).
  - now apply (macsec_single bs _ 0 (len bs) Hok R).
  - now apply (arp_single_truthful bs (mk_slice bs) 0 (len bs)).
  - now apply (ipv4_single bs _ 0 (len bs) Hok R).
  - now apply (ipv6_single bs _ 0 (len bs) Hok R).
  - now apply (ip_single bs _ 0 (len bs) Hok R).
  - apply exact_truthful. now apply (udp_single bs _ 0 (len bs) R).
  - apply exact_truthful. now apply (tcp_single bs _ 0 (len bs) Hok R).
  - apply exact_truthful. now apply (icmp4_single bs _ 0 (len bs) R).
  - apply exact_truthful. now apply (icmp6_single bs _ 0 (len bs) R).
Qed.
