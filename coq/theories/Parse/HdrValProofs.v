(* Parse/HdrValProofs.v -- property C04, audit round 3, header VALUE equality, part 2:
   (a) every component of a CUT slicing result (`Cut.from_* cut bs`, Parse/HdrCut.v) was
       produced by its from_slice from a window of the input (`cut_wf`: the provenance
       predicates link_prov / ext_prov / transport_prov of C01 (Parse/AccessProofs.v) and, for the
       network layer, `cnet_ok`);
   (b) to_header() of a struct-side header slice = to_header() of the slicing-side slice
       (per header type; the struct-side slice is the same slice or the prefix the view
       `conv` takes as the header window);
   (c) composition with the window theorem (`hagree`, HdrProofs3) and the struct-side pass
       (HdrValStruct): `hdr_vals_eq`, all three strict entry points. *)
From Coq Require Import ZArith Lia ZifyN ZifyBool List.
From EP Require Import Base.Bytes Parse.Types Parse.Slices Parse.Cursor Parse.View Parse.Repr
  Parse.Access Parse.AccessProofs Parse.HdrModel Parse.HdrView Parse.HdrCut Parse.HdrProofs
  Parse.HdrProofs2 Parse.HdrProofs3 Parse.HdrSlots Parse.HdrSlots2 Parse.HdrVal Parse.HdrValStruct.
Import ListNotations.
Import SlicedPacketCursor.
Local Open Scope N_scope.

(* ---- cut slicing side: provenance of every stored component -------------------------------- *)
Definition cnet_ok (bs : bytes) (n : net_slice) : Prop :=
  match n with
  | NtIpv4 v => in_buf bs (v4_header v) /\ optP (in_buf bs) (v4_auth v) /\
                in_buf bs (ipp_slice (v4_payload v))
  | NtIpv6 v => in_buf bs (v6_header v) /\ in_buf bs (x6_slice (v6_exts v)) /\
                in_buf bs (ipp_slice (v6_payload v))
  | NtArp a => in_buf bs a
  end.

Definition cut_wf (bs : bytes) (p : sliced_packet) : Prop :=
  optP (link_prov bs) (sp_link p) /\ Forall (ext_prov bs) (sp_exts p) /\
  optP (cnet_ok bs) (sp_net p) /\ optP (transport_prov bs) (sp_transport p).

Section CutLift.
  Variable bs : bytes.

  Lemma c_set_transport_wf c t :
    cut_wf bs (c_result c) -> transport_prov bs t -> cut_wf bs (set_transport c t).
  Proof. intros (A & B & C & D) T. unfold cut_wf, set_transport. cbn. auto. Qed.

  Lemma c_set_net_wf c o sr n :
    cut_wf bs (c_result c) -> cnet_ok bs n -> cut_wf bs (c_result (set_net c o sr n)).
  Proof. intros (A & B & C & D) T. unfold cut_wf, set_net. cbn. auto. Qed.

  Lemma c_set_link_wf c o l :
    cut_wf bs (c_result c) -> link_prov bs l -> cut_wf bs (c_result (set_link c o l)).
  Proof. intros (A & B & C & D) T. unfold cut_wf, set_link. cbn. auto. Qed.

  Lemma c_push_ext_wf c o sr x c' :
    cut_wf bs (c_result c) -> ext_prov bs x -> push_ext c o sr x = Ok c' -> cut_wf bs (c_result c').
  Proof.
    intros (A & B & C & D) T. unfold push_ext.
    destruct (len (sp_exts (c_result c)) <? LINK_EXTS_CAP); [|discriminate].
    intros X. injection X as <-. unfold cut_wf. cbn. repeat split; auto.
    apply Forall_app. split; [exact B|]. constructor; [exact T|constructor].
  Qed.

  Lemma c_dispatch_wf c p r :
    cut_wf bs (c_result c) -> in_buf bs (ipp_slice p) ->
    transport_dispatch c p = Ok r -> cut_wf bs r.
  Proof.
    intros W I. unfold transport_dispatch.
    destruct (ipp_fragmented p); [intros X; injection X as <-; exact W|].
    destruct (ipp_number p =? IPN_ICMP).
    { unfold slice_icmp4. intros H. binv H t Et. apply map_len_err_inv in Et. injection H as <-.
      apply c_set_transport_wf; [exact W|]. cbn. eauto. }
    destruct (ipp_number p =? IPN_UDP).
    { unfold slice_udp. intros H. binv H t Et. apply map_len_err_inv in Et. injection H as <-.
      apply c_set_transport_wf; [exact W|]. cbn. eauto. }
    destruct (ipp_number p =? IPN_TCP).
    { unfold slice_tcp. intros H. binv H t Et. apply map_len_err_inv in Et. injection H as <-.
      apply c_set_transport_wf; [exact W|]. cbn. destruct t as (hl, t). cbn. eauto. }
    destruct (ipp_number p =? IPN_ICMPV6).
    { unfold slice_icmp6. intros H. binv H t Et. apply map_len_err_inv in Et. injection H as <-.
      apply c_set_transport_wf; [exact W|]. cbn. eauto. }
    intros X. injection X as <-. exact W.
  Qed.

  (* the cut extension walk only moves forward inside the slice it was given *)
  Lemma cut_walk_sub cut fuel sl0 : forall rest nh fr f r' nh' fr',
    Cut.walk cut fuel sl0 rest nh fr f = Ok (r', nh', fr') -> sub_of r' rest.
  Proof.
    induction fuel as [|fu IH]; intros rest nh fr f r' nh' fr' H; [discriminate|].
    cbn [Cut.walk] in H.
    destruct (cut && refilled f nh); [injection H as <- _ _; apply sub_of_refl|].
    destruct (nh =? IPN_HOP_BY_HOP); [discriminate|].
    destruct ((nh =? IPN_DEST_OPTIONS) || (nh =? IPN_ROUTE)).
    { binv H off Eoff. binv H sl Esl. binv H n En. binv H rest' Er. binv H nx Enx.
      apply IH in H. eapply sub_of_trans; [exact H|]. eexists _, _; exact Er. }
    destruct (nh =? IPN_FRAG).
    { binv H off Eoff. binv H sl Esl. binv H n En. binv H rest' Er. binv H nx Enx. binv H fr2 Efr.
      apply IH in H. eapply sub_of_trans; [exact H|]. eexists _, _; exact Er. }
    destruct (nh =? IPN_AUTH).
    { binv H off Eoff. binv H sl Esl. binv H n En. binv H rest' Er. binv H nx Enx.
      apply IH in H. eapply sub_of_trans; [exact H|]. eexists _, _; exact Er. }
    injection H as <- _ _. apply sub_of_refl.
  Qed.

  Lemma cut_exts_sub cut nh s xs nh' rest :
    Cut.exts_from_slice cut nh s = Ok (xs, nh', rest) -> sub_of (x6_slice xs) s /\ sub_of rest s.
  Proof.
    unfold Cut.exts_from_slice. intros H. binv H st Est. destruct st as (rest0, nh0).
    binv H w Ew. destruct w as ((restf, nxf), frf). binv H used Eu. binv H sl Esl.
    injection H as <- _ <-. cbn [x6_slice].
    assert (S0 : sub_of rest0 s).
    { destruct (IPN_HOP_BY_HOP =? nh).
      - binv Est sl0 Esl0. binv Est r0 Er0. binv Est n0 En0. injection Est as <- _.
        destruct (s_len sl0 <=? s_len s) eqn:El; [|discriminate]. injection Er0 as <-.
        exists (s_len sl0), (s_len s - s_len sl0). apply drop_as_sub. lia.
      - injection Est as <- _. apply sub_of_refl. }
    apply cut_walk_sub in Ew. split; [|exact (sub_of_trans _ _ _ Ew S0)].
    destruct (used <=? s_len s) eqn:El; [|discriminate]. injection Esl as <-.
    exists 0, used. apply take_as_sub. lia.
  Qed.

  Lemma cut_v6_finish_sub cut s header v :
    Cut.v6_finish cut s header = Ok v ->
    v6_header v = header /\ sub_of (x6_slice (v6_exts v)) s /\ sub_of (ipp_slice (v6_payload v)) s.
  Proof.
    unfold Cut.v6_finish. intros H. binv H pl Epl. binv H hp Ehp. destruct hp as (hp, src).
    assert (Shp : sub_of hp s).
    { destruct ((0 =? pl) && (40 <? s_len s)).
      - binv Ehp n En. binv Ehp p Ep. injection Ehp as <- _. now exists 40, n.
      - cbn zeta in Ehp. destruct (s_len s <? 40 + pl); unfold lerr in Ehp; [discriminate|].
        binv Ehp p Ep. injection Ehp as <- _. now exists 40, pl. }
    binv H nh Enh. binv H x Ex. destruct x as ((exts, pn), payload). injection H as <-.
    cbn [v6_header v6_exts v6_payload ipp_slice].
    assert (Ex' : Cut.exts_from_slice cut nh hp = Ok (exts, pn, payload)).
    { destruct (Cut.exts_from_slice cut nh hp) as [a|[e|c]|b]; try discriminate; exact Ex. }
    apply cut_exts_sub in Ex'. destruct Ex' as (A & B).
    split; [reflexivity|]. split; eapply sub_of_trans; eauto.
  Qed.

  Lemma cut_v6_ok cut s v : in_buf bs s -> Cut.v6_from_slice cut s = Ok v -> cnet_ok bs (NtIpv6 v).
  Proof.
    intros I. unfold Cut.v6_from_slice. intros H. binv H header Eh.
    apply ipv6h_wf in Eh. destruct Eh as (_ & Sh).
    apply cut_v6_finish_sub in H. destruct H as (E1 & A & B). cbn [cnet_ok]. rewrite E1.
    split; [exact (sub_of_in_buf bs _ _ I Sh)|].
    split; [exact (sub_of_in_buf bs _ _ I A)|exact (sub_of_in_buf bs _ _ I B)].
  Qed.

  Lemma v4_in_ok v s : in_buf bs s -> ipv4_in v s -> cnet_ok bs (NtIpv4 v).
  Proof.
    intros I (A & B & C). cbn [cnet_ok]. split; [exact (sub_of_in_buf bs _ _ I A)|].
    split; [|exact (sub_of_in_buf bs _ _ I C)].
    destruct (v4_auth v) as [a|]; cbn [optP]; [exact (sub_of_in_buf bs _ _ I B)|exact Logic.I].
  Qed.

  Lemma cut_ip_ok cut s i : in_buf bs s -> Cut.ip_from_slice cut s = Ok i ->
    cnet_ok bs (match i with IpV4 v => NtIpv4 v | IpV6 v => NtIpv6 v end).
  Proof.
    intros I. unfold Cut.ip_from_slice. destruct (s_len s =? 0); unfold lerr; [discriminate|].
    intros H. binv H fb Efb. destruct (N.shiftr fb 4 =? 4).
    { destruct (N.land fb 15 <? 5); [discriminate|]. destruct (s_len s <? N.land fb 15 * 4); [discriminate|].
      binv H header Eh. binv H total Et.
      destruct (total <? N.land fb 15 * 4); [discriminate|]. destruct (s_len s <? total); [discriminate|].
      binv H n En. binv H hp Ehp. binv H v4 Ev. injection H as <-.
      apply ipv4_finish_wf in Ev. destruct Ev as (E1 & E2 & E3).
      assert (Sh : sub_of header s) by (eexists _, _; exact Eh).
      assert (Shp : sub_of hp s) by (eexists _, _; exact Ehp).
      apply (v4_in_ok v4 s I). unfold ipv4_in. rewrite E1. split; [exact Sh|].
      split; [|exact (sub_of_trans _ _ _ E3 Shp)].
      destruct (v4_auth v4) as [a|]; [|exact Logic.I]. destruct E2 as (_ & Sa).
      exact (sub_of_trans _ _ _ Sa Shp). }
    destruct (N.shiftr fb 4 =? 6); [|discriminate]. destruct (s_len s <? 40); [discriminate|].
    binv H header Eh. binv H v6 Ev. injection H as <-.
    assert (Sh : sub_of header s) by (eexists _, _; exact Eh).
    apply cut_v6_finish_sub in Ev. destruct Ev as (E1 & A & B). cbn [cnet_ok]. rewrite E1.
    split; [exact (sub_of_in_buf bs _ _ I Sh)|].
    split; [exact (sub_of_in_buf bs _ _ I A)|exact (sub_of_in_buf bs _ _ I B)].
  Qed.

  Lemma cnet_payload_in n p : cnet_ok bs n -> np n = Some p -> in_buf bs (ipp_slice p).
  Proof.
    destruct n as [v|v|a]; cbn [np cnet_ok]; intros W E; try discriminate; injection E as <-; apply W.
  Qed.

  Lemma c_slice_ip_wf cut c s r :
    cut_wf bs (c_result c) -> in_buf bs s -> Cut.slice_ip cut c s = Ok r -> cut_wf bs r.
  Proof.
    intros W I. unfold Cut.slice_ip. intros H. binv H ip Eip. apply map_len_err_inv in Eip.
    binv H d Ed. pose proof (cut_ip_ok _ _ _ I Eip) as Wn.
    eapply c_dispatch_wf; [| |exact H].
    - apply c_set_net_wf; [exact W|exact Wn].
    - destruct ip as [v|v]; cbn [IpSlice.payload]; apply Wn.
  Qed.

  Lemma c_slice_ipv6_wf cut c s r :
    cut_wf bs (c_result c) -> in_buf bs s -> Cut.slice_ipv6 cut c s = Ok r -> cut_wf bs r.
  Proof.
    intros W I. unfold Cut.slice_ipv6. intros H. binv H ip Eip. apply map_len_err_inv in Eip.
    binv H d Ed. pose proof (cut_v6_ok _ _ _ I Eip) as Wn.
    eapply c_dispatch_wf; [| |exact H].
    - apply c_set_net_wf; [exact W|exact Wn].
    - apply Wn.
  Qed.

  Lemma c_slice_ipv4_wf c s r :
    cut_wf bs (c_result c) -> in_buf bs s -> slice_ipv4 c s = Ok r -> cut_wf bs r.
  Proof.
    intros W I. unfold slice_ipv4. intros H. binv H ip Eip. apply map_len_err_inv in Eip.
    binv H d Ed. pose proof (ipv4_wf _ _ Eip) as (_ & Sin).
    pose proof (v4_in_ok _ _ I Sin) as Wn.
    eapply c_dispatch_wf; [| |exact H].
    - apply c_set_net_wf; [exact W|exact Wn].
    - apply Wn.
  Qed.

  Lemma c_slice_arp_wf c s r :
    cut_wf bs (c_result c) -> in_buf bs s -> slice_arp c s = Ok r -> cut_wf bs r.
  Proof.
    intros W I. unfold slice_arp. intros H. binv H a Ea. apply map_len_err_inv in Ea.
    injection H as <-. apply (c_set_net_wf c (c_offset c + s_len a) (c_src c) (NtArp a)); [exact W|].
    cbn [cnet_ok]. apply arp_wf in Ea. destruct Ea as (_ & Sa). exact (sub_of_in_buf bs _ _ I Sa).
  Qed.

  Lemma c_ether_loop_wf cut fuel :
    forall c ep r,
      cut_wf bs (c_result c) -> in_buf bs (ep_slice ep) ->
      Cut.slice_ether_type_loop cut fuel c ep = Ok r -> cut_wf bs r.
  Proof.
    induction fuel as [|f IH]; intros c ep r W I H; [discriminate|].
    cbn [Cut.slice_ether_type_loop] in H.
    destruct (is_vlan_type (ep_ether_type ep)).
    { destruct (LINK_EXTS_CAP <=? len (sp_exts (c_result c))); [injection H as <-; exact W|].
      binv H vlan Ev. apply map_len_err_inv in Ev. binv H vp Evp. binv H c' Ec'.
      pose proof (vlan_wf _ _ Ev) as (-> & Wv).
      eapply IH; [| |exact H].
      - eapply c_push_ext_wf; [exact W| |exact Ec']. cbn. eauto.
      - unfold SingleVlanSlice.payload in Evp. binv Evp et Eet. binv Evp pl Epl. injection Evp as <-.
        cbn [ep_slice]. unfold SingleVlanSlice.payload_slice in Epl. binv Epl n En.
        eapply sub_of_in_buf; [exact I|]. now exists 4, n. }
    destruct (ep_ether_type ep =? ET_MACSEC).
    { destruct (LINK_EXTS_CAP <=? len (sp_exts (c_result c))); [injection H as <-; exact W|].
      binv H m Em. apply map_len_err_inv in Em. binv H hl Ehl. binv H sl Esl. binv H c' Ec'.
      pose proof (macsec_wf _ _ Em) as (_ & _ & Sp).
      assert (W' : cut_wf bs (c_result c')).
      { eapply c_push_ext_wf; [exact W| |exact Ec']. cbn. eauto. }
      unfold macsec_payload_slice in Sp.
      destruct (ms_payload m) as [e|ps].
      - eapply IH; [exact W'| |exact H]. exact (sub_of_in_buf bs _ _ I Sp).
      - injection H as <-. exact W'. }
    destruct (ep_ether_type ep =? ET_ARP); [eapply c_slice_arp_wf; eauto|].
    destruct (ep_ether_type ep =? ET_IPV4); [eapply c_slice_ipv4_wf; eauto|].
    destruct (ep_ether_type ep =? ET_IPV6); [eapply c_slice_ipv6_wf; eauto|].
    injection H as <-. exact W.
  Qed.

  Lemma c_new_wf : cut_wf bs (c_result new).
  Proof. unfold cut_wf, new. cbn. auto. Qed.

  Theorem cut_wf_ethernet cut p : Cut.from_ethernet cut bs = Ok p -> cut_wf bs p.
  Proof.
    pose proof (in_buf_whole bs) as I. unfold Cut.from_ethernet, Cut.slice_ethernet2. intros H.
    binv H r Er. apply map_len_err_inv in Er. binv H ep Eep.
    pose proof (eth2_plain_wf _ _ Er) as (-> & _).
    unfold Cut.slice_ether_type in H. eapply c_ether_loop_wf; [| |exact H].
    - apply c_set_link_wf; [apply c_new_wf|]. cbn. eauto.
    - unfold Ethernet2Slice.payload in Eep. binv Eep et' Eet. binv Eep pl Epl. injection Eep as <-.
      cbn [ep_slice]. unfold Ethernet2Slice.payload_slice in Epl. binv Epl n En.
      eapply sub_of_in_buf; [exact I|]. now exists 14, n.
  Qed.

  Theorem cut_wf_ether_type cut et p : Cut.from_ether_type cut et bs = Ok p -> cut_wf bs p.
  Proof.
    pose proof (in_buf_whole bs) as I. unfold Cut.from_ether_type, Cut.slice_ether_type. intros H.
    eapply c_ether_loop_wf; [| |exact H].
    - apply c_set_link_wf; [apply c_new_wf|]. cbn. exact I.
    - cbn. exact I.
  Qed.

  Theorem cut_wf_ip cut p : Cut.from_ip cut bs = Ok p -> cut_wf bs p.
  Proof.
    unfold Cut.from_ip. intros H. eapply c_slice_ip_wf; [apply c_new_wf|apply in_buf_whole|exact H].
  Qed.
End CutLift.

(* ---- reads of a prefix ---------------------------------------------------------------------- *)
Lemma pre_rd16 u I W i : pre u I W -> i + 1 < u -> rd16 I i = rd16 W i.
Proof. intros P H. unfold rd16. rewrite (pre_rd u I W i P), (pre_rd u I W (i + 1) P) by lia. reflexivity. Qed.

Lemma pre_rd32 u I W i : pre u I W -> i + 3 < u -> rd32 I i = rd32 W i.
Proof.
  intros P H. unfold rd32.
  rewrite (pre_rd u I W i P), (pre_rd u I W (i + 1) P), (pre_rd u I W (i + 2) P), (pre_rd u I W (i + 3) P) by lia.
  reflexivity.
Qed.

Lemma pre_rd_arr u I W n : forall i, pre u I W -> i + N.of_nat n <= u -> rd_arr I i n = rd_arr W i n.
Proof.
  induction n as [|n IH]; intros i P H; [reflexivity|]. cbn [rd_arr].
  rewrite (pre_rd u I W i P) by lia. rewrite (IH (i + 1) P) by lia. reflexivity.
Qed.

Lemma pre_mono u v I W : pre u I W -> v <= u -> forall i, i < v -> rdU I i = rdU W i.
Proof. intros P L i Hi. apply (pre_rd u I W i P). lia. Qed.

(* ---- per header: to_header of the struct-side slice = to_header of the slicing-side slice ------ *)
Lemma eth_val_eq h s : pre 14 h s ->
  Ethernet2A.to_header (mkEth2 0 h) = Ethernet2A.to_header (mkEth2 0 s).
Proof.
  intros P. unfold Ethernet2A.to_header, Ethernet2A.source, Ethernet2A.destination, Ethernet2A.ether_type.
  cbn [e2_slice].
  rewrite (pre_rd_arr 14 h s 6 6 P), (pre_rd_arr 14 h s 6 0 P), (pre_rd16 14 h s 12 P) by lia. reflexivity.
Qed.

Lemma vlan_val_eq h s : pre 4 h s -> SingleVlanA.to_header h = SingleVlanA.to_header s.
Proof.
  intros P. unfold SingleVlanA.to_header, SingleVlanA.priority_code_point,
    SingleVlanA.drop_eligible_indicator, SingleVlanA.vlan_identifier, SingleVlanA.ether_type.
  rewrite (pre_rd 4 h s 0 P), (pre_rd 4 h s 1 P), (pre_rd16 4 h s 2 P) by lia. reflexivity.
Qed.

Lemma udp_val_eq h s : pre 8 h s -> UdpA.to_header h = UdpA.to_header s.
Proof.
  intros P. unfold UdpA.to_header, UdpA.source_port, UdpA.destination_port, UdpA.length, UdpA.checksum.
  rewrite (pre_rd16 8 h s 0 P), (pre_rd16 8 h s 2 P), (pre_rd16 8 h s 4 P), (pre_rd16 8 h s 6 P) by lia.
  reflexivity.
Qed.

Lemma icmp6_val_eq h s : pre 8 h s -> Icmpv6A.header h = Icmpv6A.header s.
Proof.
  intros P. unfold Icmpv6A.header, Icmpv6A.icmp_type, Icmpv6A.type_u8, Icmpv6A.code_u8,
    Icmpv6A.bytes5to8, Icmpv6A.checksum.
  rewrite (pre_rd 8 h s 0 P), (pre_rd 8 h s 1 P), (pre_rd 8 h s 4 P), (pre_rd 8 h s 5 P),
    (pre_rd 8 h s 6 P), (pre_rd 8 h s 7 P), (pre_rd16 8 h s 2 P) by lia.
  reflexivity.
Qed.

Lemma icmp4_val_eq h s u t c :
  pre u h s -> rdU s 0 = Ok t -> rdU s 1 = Ok c -> u = (if Icmpv4A.is_ts t c then 20 else 8) ->
  Icmpv4A.header h = Icmpv4A.header s.
Proof.
  intros P Et Ec Hu.
  assert (L8 : 8 <= u) by (destruct (Icmpv4A.is_ts t c); lia).
  assert (R : forall i, i < 8 -> rdU h i = rdU s i) by (intros i Hi; apply (pre_rd u h s i P); lia).
  assert (R16 : forall i, i + 1 < 8 -> rd16 h i = rd16 s i) by (intros i Hi; apply (pre_rd16 u h s i P); lia).
  assert (B : Icmpv4A.bytes5to8 h = Icmpv4A.bytes5to8 s).
  { unfold Icmpv4A.bytes5to8. rewrite (R 4), (R 5), (R 6), (R 7) by lia. reflexivity. }
  assert (U : Icmpv4A.unknown h = Icmpv4A.unknown s).
  { unfold Icmpv4A.unknown, Icmpv4A.type_u8, Icmpv4A.code_u8. rewrite (R 0), (R 1), B by lia. reflexivity. }
  assert (TS : Icmpv4A.is_ts t c = true -> Icmpv4A.timestamp_message h = Icmpv4A.timestamp_message s).
  { intros T. rewrite T in Hu. subst u. unfold Icmpv4A.timestamp_message.
    rewrite (pre_rd16 20 h s 4 P), (pre_rd16 20 h s 6 P), (pre_rd32 20 h s 8 P),
      (pre_rd32 20 h s 12 P), (pre_rd32 20 h s 16 P) by lia. reflexivity. }
  unfold Icmpv4A.header, Icmpv4A.icmp_type, Icmpv4A.type_u8, Icmpv4A.code_u8, Icmpv4A.checksum.
  rewrite (R 0), (R 1), (R16 2), (R16 6), (R 4), B, U by lia. rewrite Et, Ec. cbn [bind].
  unfold Icmpv4A.is_ts in TS.
  destruct ((t =? 13) && (0 =? c)) eqn:A13.
  { rewrite TS; [reflexivity|]. apply andb_prop in A13. destruct A13 as (-> & ->). reflexivity. }
  destruct ((t =? 14) && (0 =? c)) eqn:A14.
  { rewrite TS; [reflexivity|]. apply andb_prop in A14. destruct A14 as (-> & ->).
    now rewrite Bool.orb_true_r. }
  reflexivity.
Qed.

Lemma tcp_fields_eq u h s : pre u h s -> 20 <= u -> TcpFieldsA.fields h = TcpFieldsA.fields s.
Proof.
  intros P L.
  assert (R : forall i, i < 20 -> rdU h i = rdU s i) by (intros i Hi; apply (pre_rd u h s i P); lia).
  unfold TcpFieldsA.fields, TcpFieldsA.source_port, TcpFieldsA.destination_port,
    TcpFieldsA.sequence_number, TcpFieldsA.acknowledgment_number, TcpFieldsA.ns, TcpFieldsA.fin,
    TcpFieldsA.syn, TcpFieldsA.rst, TcpFieldsA.psh, TcpFieldsA.ack, TcpFieldsA.ece, TcpFieldsA.urg,
    TcpFieldsA.cwr, TcpFieldsA.window_size, TcpFieldsA.checksum, TcpFieldsA.urgent_pointer.
  rewrite (pre_rd16 u h s 0 P), (pre_rd16 u h s 2 P), (pre_rd32 u h s 4 P), (pre_rd32 u h s 8 P) by lia.
  rewrite (R 12), (R 13), (R 14), (R 15), (R 16), (R 17), (R 18), (R 19) by lia. reflexivity.
Qed.

Lemma tcp_val_eq h s hl : pre hl h s -> wf_tcph h ->
  TcpHeaderSliceA.to_header h = TcpSliceA.to_header (hl, s).
Proof.
  intros P (L20 & L60 & b & E12 & Lb). pose proof (pre_len _ _ _ P) as Lh.
  pose proof P as (_ & _ & Ls).
  unfold TcpHeaderSliceA.to_header, TcpSliceA.to_header. cbn [fst snd].
  rewrite (tcp_fields_eq hl h s P) by lia.
  unfold TcpHeaderSliceA.options, TcpSliceA.options, TcpFieldsA.data_offset. cbn [fst snd].
  rewrite E12. cbn [bind]. rewrite tcp_do_hl, <- Lb, Lh.
  rewrite (idx_range_subU h 20 hl) by lia. rewrite (idx_range_subU s 20 hl) by lia.
  rewrite (pre_subU hl h s 20 (hl - 20) P) by lia. reflexivity.
Qed.

(* ---- what equal views say, component by component ------------------------------------------ *)
Lemma views_inv hp sp v : hview_of hp = Ok v -> conv sp = Ok v ->
  option_map win_of (h_link hp) = match sp_link sp with Some l => conv_link l | None => None end /\
  map hview_ext (h_exts hp) = map conv_ext (sp_exts sp) /\
  match h_net hp, sp_net sp with
  | Some n, Some n' => hview_net n = Ok (conv_net n')
  | None, None => True
  | _, _ => False
  end /\
  match h_transport hp, sp_transport sp with
  | Some t, Some t' => exists r, conv_tr t' = Ok r /\ hview_tr t = fst r
  | None, None => True
  | _, _ => False
  end.
Proof.
  unfold hview_of, conv. intros H1 H2.
  binv H1 n En. binv H2 tp Etp. rewrite <- H1 in H2. injection H2 as E1 E2 E3 E4 E5.
  split; [now rewrite E1|]. split; [now rewrite E2|]. split.
  - destruct (h_net hp) as [hn|].
    + binv En vn Evn. injection En as <-. destruct (sp_net sp) as [sn|]; cbn [option_map] in E3; [|discriminate].
      injection E3 as <-. exact Evn.
    + injection En as <-. destruct (sp_net sp); [discriminate|exact I].
  - destruct (sp_transport sp) as [t'|].
    + binv Etp r Er. injection Etp as <-. cbn [fst] in E4.
      destruct (h_transport hp) as [t|]; cbn [option_map] in E4; [|discriminate].
      injection E4 as E4. exists r. split; [exact Er|now rewrite E4].
    + assert (F : fst tp = None).
      { destruct (sp_net sp) as [[x|x|x]|]; try (injection Etp as <-; reflexivity).
        binv Etp e Ee. injection Etp as <-. reflexivity. }
      rewrite F in E4. destruct (h_transport hp); [discriminate|exact I].
Qed.

(* ---- layers -------------------------------------------------------------------------------- *)
Section Layers.
  Variable bs : bytes.

  Ltac wineq := apply (in_buf_win_eq bs); auto; unfold win_of in *; congruence.

  Lemma link_vals hl sl :
    optP (fun h => in_buf bs h /\ s_len h = 14) hl -> optP (link_prov bs) sl ->
    option_map win_of hl = match sl with Some l => conv_link l | None => None end ->
    option_map (fun h => Ethernet2A.to_header (mkEth2 0 h)) hl =
    match sl with Some l => sval_link l | None => None end.
  Proof.
    intros Hh Hs E. destruct sl as [[s|h w|e]|]; cbn [conv_link sval_link optP link_prov] in *;
      destruct hl as [eth|]; cbn [option_map optP] in *; try discriminate; try reflexivity.
    - destruct Hh as (Ih & Lh). destruct Hs as (src & Isrc & Es).
      apply eth2_plain_wf in Es. destruct Es as (-> & (_ & L14)). cbn [e2_fcs_len e2_slice] in L14.
      injection E as Eo El. f_equal. apply eth_val_eq. apply (in_buf_pre bs); auto; lia.
    - exfalso. destruct Hh as (Ih & Lh). destruct Hs as (src & Isrc & Es).
      apply sll_wf in Es. destruct Es as (((L16 & _) & _) & _). cbn [fst] in L16.
      injection E as Eo El. lia.
  Qed.

  Lemma ext_vals a b :
    in_buf bs (hext_slice a) -> ext_prov bs b -> hview_ext a = conv_ext b -> hval_ext a = sval_ext b.
  Proof.
    intros Ia Pb E. destruct a as [h|h], b as [s|m]; cbn [hview_ext conv_ext hval_ext sval_ext hext_slice ext_prov] in *;
      try discriminate.
    - destruct Pb as (src & Isrc & Es). apply vlan_wf in Es. destruct Es as (-> & Ws). unfold wf_vlan in Ws.
      injection E as Eo El. f_equal. apply vlan_val_eq. apply (in_buf_pre bs); auto.
    - destruct Pb as (src & Isrc & Es). apply macsec_wf in Es. destruct Es as (_ & Sh & _).
      injection E as E. f_equal. f_equal. pose proof (sub_of_in_buf bs _ _ Isrc Sh) as Im. wineq.
  Qed.

  Lemma exts_vals : forall hx sx,
    Forall (fun x => in_buf bs (hext_slice x)) hx -> Forall (ext_prov bs) sx ->
    map hview_ext hx = map conv_ext sx -> map hval_ext hx = map sval_ext sx.
  Proof.
    induction hx as [|a hx IH]; intros sx Fh Fs E; destruct sx as [|b sx]; cbn [map] in *; try discriminate;
      [reflexivity|].
    injection E as E1 E2. inversion Fh as [|? ? Ia Fh']; subst. inversion Fs as [|? ? Pb Fs']; subst.
    f_equal; [now apply ext_vals|now apply IH].
  Qed.

  Lemma net_vals n n' :
    Forall (in_buf bs) (hnet_slices n) -> cnet_ok bs n' -> hview_net n = Ok (conv_net n') ->
    hval_net n = sval_net n' /\
    match n, n' with HnIp (IhV6 h _), NtIpv6 v => h = v6_header v | _, _ => True end.
  Proof.
    intros Fn Cn E. destruct n as [[h a|h x]|a]; cbn [hview_net] in E.
    - destruct n' as [v|v|a']; cbn [conv_net] in E; try discriminate.
      injection E as E1 E2 E3.
      cbn [hnet_slices] in Fn. inversion Fn as [|? ? Ih Fa]; subst. destruct Cn as (Ch & Ca & _).
      split; [|exact I]. cbn [hval_net sval_net].
      assert (Eh : h = v4_header v) by wineq. subst h. f_equal.
      destruct a as [a|], (v4_auth v) as [a'|]; cbn [option_map] in *; try discriminate; [|reflexivity].
      injection E3 as E3a E3b. inversion Fa as [|? ? Ia _]; subst. cbn [optP] in Ca.
      f_equal. f_equal. wineq.
    - binv E nh Enh. binv E fr Efr.
      destruct n' as [v|v|a']; cbn [conv_net] in E; try discriminate.
      injection E; intros.
      cbn [hnet_slices] in Fn. inversion Fn as [|? ? Ih Fa]; subst. destruct Cn as (Ch & _).
      assert (Eh : h = v6_header v) by wineq. subst h.
      split; reflexivity.
    - destruct n' as [v|v|a']; cbn [conv_net] in E; try discriminate. injection E; intros.
      cbn [hnet_slices] in Fn. inversion Fn as [|? ? Ia _]; subst. cbn [cnet_ok] in Cn.
      split; [|exact I]. cbn [hval_net sval_net]. f_equal. f_equal. wineq.
  Qed.

  Lemma tr_vals t t' r :
    htr_ok bs t -> transport_prov bs t' -> conv_tr t' = Ok r -> hview_tr t = fst r ->
    hval_tr t = sval_tr t'.
  Proof.
    intros (It & Wt) Pt Ec Ev.
    destruct t' as [s|hl s|s|s]; cbn [conv_tr transport_prov] in *.
    - injection Ec as <-. cbn [fst] in Ev. destruct t as [h|h|h|h]; cbn [hview_tr] in Ev; try discriminate.
      injection Ev as Eo El. destruct Pt as (src & Isrc & Es). apply udp_wf in Es. destruct Es as (W8 & Ss).
      unfold wf_udp in W8. cbn [hval_tr sval_tr htr_slice] in *. f_equal. apply udp_val_eq.
      apply (in_buf_pre bs); auto. exact (sub_of_in_buf bs _ _ Isrc Ss).
    - injection Ec as <-. cbn [fst] in Ev. destruct t as [h|h|h|h]; cbn [hview_tr] in Ev; try discriminate.
      injection Ev as Eo El. destruct Pt as (src & Isrc & Es). apply tcp_wf in Es.
      destruct Es as ((W1 & W2 & W3) & Ess). cbn [fst snd] in *. subst src.
      cbn [hval_tr sval_tr htr_slice] in *. f_equal. apply tcp_val_eq; [|exact Wt].
      apply (in_buf_pre bs); auto.
    - binv Ec hl Ehl. injection Ec as <-. cbn [fst] in Ev.
      destruct t as [h|h|h|h]; cbn [hview_tr] in Ev; try discriminate.
      injection Ev as Eo El. destruct Pt as (src & Isrc & Es). apply icmp4_wf in Es.
      destruct Es as (-> & (L8 & t0 & c0 & Et & Ec & Hts)).
      unfold Icmpv4Acc.header_len in Ehl. rewrite Et, Ec in Ehl. cbn [bind] in Ehl. injection Ehl as Ehl.
      cbn [hval_tr sval_tr htr_slice] in *. f_equal.
      apply (icmp4_val_eq h src hl t0 c0); [|exact Et|exact Ec|symmetry; exact Ehl].
      apply (in_buf_pre bs); auto. rewrite <- Ehl. unfold Icmpv4A.is_ts in Hts.
      destruct (((t0 =? 13) || (t0 =? 14)) && (0 =? c0)) eqn:T; [rewrite (Hts eq_refl)|]; lia.
    - injection Ec as <-. cbn [fst] in Ev. destruct t as [h|h|h|h]; cbn [hview_tr] in Ev; try discriminate.
      injection Ev as Eo El. destruct Pt as (src & Isrc & Es). apply icmp6_wf in Es. destruct Es as (-> & W8).
      unfold wf_icmp6 in W8. cbn [hval_tr sval_tr htr_slice] in *. f_equal. apply icmp6_val_eq.
      apply (in_buf_pre bs); auto.
  Qed.

  (* equal views + provenance on both sides => equal values; and the IPv6 header is the same slice *)
  Lemma vals_of_views hp sp v :
    hp_ok bs hp -> cut_wf bs sp -> hview_of hp = Ok v -> conv sp = Ok v ->
    hvals_of_h hp = hvals_of_s sp.
  Proof.
    intros (H1 & H2 & H3 & H4 & _) (C1 & C2 & C3 & C4) Hv Cv.
    destruct (views_inv _ _ _ Hv Cv) as (V1 & V2 & V3 & V4).
    unfold hvals_of_h, hvals_of_s. f_equal.
    - now apply link_vals.
    - now apply exts_vals.
    - destruct (h_net hp) as [n|], (sp_net sp) as [n'|]; try contradiction; [|reflexivity].
      cbn [option_map optP] in *. f_equal. now apply net_vals.
    - destruct (h_transport hp) as [t|], (sp_transport sp) as [t'|]; try contradiction; [|reflexivity].
      cbn [option_map optP] in *. destruct V4 as (r & Er & Ev). f_equal. now apply (tr_vals t t' r).
  Qed.
End Layers.

Lemma hagree_vals bs h s :
  hagree h s -> (forall hp, h = Ok hp -> hp_ok bs hp) -> (forall sp, s = Ok sp -> cut_wf bs sp) ->
  vals_agree h s.
Proof.
  intros (A & NB) Hh Hs hp sp -> ->. cbn [hvres_of_h hvres_of_s] in A, NB.
  destruct (hview_of hp) as [v|e|b] eqn:Ev; destruct (conv sp) as [v'|e'|b'] eqn:Ec; try discriminate;
    [|exfalso; exact (HdrSlots2.hview_of_not_err _ _ Ev)|exfalso; exact (NB b eq_refl)].
  injection A as <-. exact (vals_of_views bs hp sp v (Hh hp eq_refl) (Hs sp eq_refl) Ev Ec).
Qed.

(* F11 inputs are rejected by both families, so there is nothing to compare *)
Theorem hdr_vals_eq bs et : bytes_ok bs ->
  vals_agree (PacketHeaders.from_ethernet_slice bs) (Cut.from_ethernet true bs) /\
  vals_agree (PacketHeaders.from_ether_type et bs) (Cut.from_ether_type true et bs) /\
  vals_agree (PacketHeaders.from_ip_slice bs) (Cut.from_ip true bs).
Proof.
  intros Hok. split; [|split].
  - apply (hagree_vals bs); [now apply hdr_agree_ethernet|apply hp_ok_ethernet|apply cut_wf_ethernet].
  - apply (hagree_vals bs); [now apply hdr_agree_ether_type|apply hp_ok_ether_type|apply cut_wf_ether_type].
  - destruct (F11 bs) eqn:Hf.
    + destruct (hdr_f11_both_err bs Hf) as ((e & E) & _). intros hp sp H. rewrite E in H. discriminate.
    + apply (hagree_vals bs); [now apply hdr_agree_ip|apply hp_ok_ip|apply cut_wf_ip].
Qed.
