(* Parse/StoredIter.v -- round 3 (C01 / C02): the compositions "stored slice -> iterator":

     TcpSlice::options_iterator / TcpHeaderSlice::options_iterator
        = TcpOptionsIterator::from_slice(self.options())          (transport/tcp_slice.rs,
          transport/tcp_header_slice.rs; iterator model: TcpOpt/Model.v `iterate`)
     Icmpv6Slice::payload_slice
        = Icmpv6PayloadSlice::from_type_u8(self.type_u8(), self.code_u8(), self.payload())
          (transport/icmpv6_slice.rs; model of the enum constructor, of the accessors of the
          typed payload slices and of NdpOptionsIterator: CtlMsg/Model.v)

   C13 / C17 speak about ARBITRARY byte areas.  Here the area is the window an accepted
   TcpSlice / TcpHeaderSlice / Icmpv6Slice STORES (single-layer constructor on any slice value,
   and the transport slice of every strict or lax whole-packet result): the window accessor
   returns (no Bug), the window lies inside the slice / the input, the iteration over its
   contents returns (no OOB / Panic / UB / fuel), yields no more items than the window has
   bytes (TCP) resp. 8-byte units (NDP), makes progress, and every iterator state is a tail
   window of the stored window.  Only `icmpv6_payload_slice` is new text (three accessor calls
   of Parse/Access.v + the enum constructor of CtlMsg/Model.v); everything else composes
   existing models and theorems. *)
From EP Require Import Base.Bytes Parse.Types Parse.Slices Parse.Cursor Parse.Repr Parse.Access
  Parse.AccessProofs Parse.LaxSlices Parse.LaxCursor Parse.LaxAccess Parse.LaxAccessPacket.
From EP Require TcpOpt.Spec TcpOpt.Model TcpOpt.Proofs CtlMsg.Spec CtlMsg.Model CtlMsg.Proofs
  Parse.CtorsTotal2.
From Coq Require Import ZArith Lia ZifyN ZifyBool List.
Import ListNotations.

Local Open Scope N_scope.

Module TO := EP.TcpOpt.Model.
Module TOP := EP.TcpOpt.Proofs.
Module C6 := EP.CtlMsg.Model.
Module C6S := EP.CtlMsg.Spec.
Module C6P := EP.CtlMsg.Proofs.
Module P6 := EP.CtlMsg.Model.Icmpv6PayloadSlice.

(* ---- windows ---------------------------------------------------------------------------------- *)
(* what C01_windows_inside says of a returned slice *)
Definition in_window (bs : bytes) (w : slice) : Prop :=
  s_off w + s_len w <= len bs /\ snd w = take (s_len w) (drop (s_off w) bs).

Lemma in_buf_in_window bs w : in_buf bs w -> in_window bs w.
Proof.
  intros I. split; [now apply in_buf_bounds|].
  destruct I as (pos & lim & R). rewrite (repr_off _ _ _ _ R), (repr_len _ _ _ _ R).
  destruct R as (-> & _). reflexivity.
Qed.

(* r is what remains of area after some prefix *)
Definition tail_of (r area : bytes) : Prop := exists pre, area = pre ++ r.

Lemma tail_of_trans a b c : tail_of a b -> tail_of b c -> tail_of a c.
Proof. intros (p & ->) (q & ->). exists (q ++ p). now rewrite app_assoc. Qed.

Lemma tail_of_drop n (l : bytes) : tail_of (drop n l) l.
Proof. exists (take n l). symmetry. apply take_drop. Qed.

Lemma tail_of_refl (l : bytes) : tail_of l l.
Proof. now exists []. Qed.

(* a tail of the contents of o is the from_raw_parts window  o[k ..]  *)
Definition tail_window (o : slice) (r : bytes) : Prop :=
  exists k, k <= s_len o /\ subU o k (s_len o - k) = Ok (s_off o + k, r).

Lemma tail_is_window o r : tail_of r (snd o) -> tail_window o r.
Proof.
  destruct o as (p, a). cbn [snd]. intros (pre & ->). exists (len pre).
  unfold s_len, s_off. cbn [fst snd]. rewrite len_app. split; [lia|].
  replace (len pre + len r - len pre) with (len r) by lia.
  unfold subU, s_len. cbn [fst snd]. rewrite len_app.
  destruct (len pre + len r <=? len pre + len r) eqn:C; [|lia].
  rewrite TOP.drop_app_exact, take_all. reflexivity.
Qed.

Lemma tail_window_sub o r : tail_window o r -> exists k, sub_of (s_off o + k, r) o.
Proof. intros (k & _ & E). exists k. now exists k, (s_len o - k). Qed.

(* ================================================================================================= *)
(* TCP options                                                                                        *)
(* ================================================================================================= *)

Lemma trace_tails area tr fin :
  TOP.trace_rel area tr fin -> bytes_ok area -> Forall (fun ir => tail_of (snd ir) area) tr.
Proof.
  induction 1 as [bs Hs | bs e0 r0 tr fin Hn Ht IH | bs e0 Hn]; intros Hok.
  - constructor.
  - apply TOP.next_rel_ok_inv in Hn. destruct Hn as (_ & _ & Hw). destruct (Hw Hok) as (E & _).
    assert (T0 : tail_of r0 bs) by (eexists; exact E).
    assert (Hr : bytes_ok r0).
    { rewrite E in Hok. apply bytes_ok_app in Hok. tauto. }
    constructor; [exact T0|].
    eapply Forall_impl; [|exact (IH Hr)]. intros ir T. cbn beta in *. eapply tail_of_trans; eauto.
  - constructor; [|constructor]. cbn [snd]. exists bs. now rewrite app_nil_r.
Qed.

(* iterating the TcpOptionsIterator built over the window o: the run returns (no OOB read, no
   panic, no fuel), at most one item per byte, the final state and every further call are
   exhausted, every Ok item shrinks the state, and every state is a tail window of o *)
Definition tcp_iter_ok (o : slice) : Prop :=
  exists tr fin,
    TO.iterate (snd o) = TO.Ret (tr, fin) /\
    (length tr <= length (snd o))%nat /\
    fin = [] /\ (forall n, TO.next_n n fin = TO.Ret (repeat None n, [])) /\
    (forall pre e r post, tr = pre ++ (TO.Ok e, r) :: post -> len r < len (TO.last_rest (snd o) pre)) /\
    (bytes_ok (snd o) -> Forall (fun ir => tail_window o (snd ir)) tr).

Lemma tcp_iter_total o : tcp_iter_ok o.
Proof.
  destruct (TOP.c13_bounded (snd o)) as (tr & fin & E & B1 & B2).
  destruct TOP.c13_exhausted as (_ & X). destruct (X _ _ _ E) as (F1 & F2 & _).
  exists tr, fin. split; [exact E|]. split; [exact B1|]. split; [exact F1|]. split; [exact F2|].
  split; [exact B2|]. intros Hok.
  pose proof (trace_tails _ _ _ (TOP.iterate_rel _ _ _ E) Hok) as T.
  eapply Forall_impl; [|exact T]. intros ir Ti. now apply tail_is_window.
Qed.

(* the options window of an accepted TcpSlice: &self.slice[20..header_len] *)
Lemma tcp_options_window x :
  wf_tcp x ->
  exists o, TcpSliceA.options x = Ok o /\ sub_of o (snd x) /\
            s_off o = s_off (snd x) + 20 /\ s_len o = fst x - 20 /\ s_len o <= 40.
Proof.
  intros (L1 & L2 & L3). unfold TcpSliceA.options.
  rewrite (idx_range_subU (snd x) 20 (fst x)) by lia.
  destruct (subU_ok (snd x) 20 (fst x - 20)) as (o & E & Lo & Oo); [lia|].
  exists o. split; [exact E|]. split; [now exists 20, (fst x - 20)|]. split; [exact Oo|]. split; [exact Lo|lia].
Qed.

(* the options window of an accepted TcpHeaderSlice: &self.slice[20..data_offset()*4] *)
Lemma tcph_options_window h :
  wf_tcph h ->
  exists o, TcpHeaderSliceA.options h = Ok o /\ sub_of o h /\
            s_off o = s_off h + 20 /\ s_len o = s_len h - 20 /\ s_len o <= 40.
Proof.
  intros (L1 & L2 & b & E12 & Lb). unfold TcpHeaderSliceA.options, TcpFieldsA.data_offset.
  rewrite E12. cbn [bind]. pose proof (tcp_do_hl b) as D. rewrite D, <- Lb.
  rewrite (idx_range_subU h 20 (s_len h)) by lia.
  destruct (subU_ok h 20 (s_len h - 20)) as (o & E & Lo & Oo); [lia|].
  exists o. split; [exact E|]. split; [now exists 20, (s_len h - 20)|]. split; [exact Oo|]. split; [exact Lo|lia].
Qed.

(* ================================================================================================= *)
(* ICMPv6 payload slice and the NDP option iterator                                                   *)
(* ================================================================================================= *)

(* Icmpv6Slice::payload_slice: the payload window and the enum constructor run on its contents
   (the typed payload slice stores exactly that window) *)
Definition icmpv6_payload_slice (s : slice) : res (slice * C6S.res P6.t) :=
  let* t := Icmpv6A.type_u8 s in
  let* c := Icmpv6A.code_u8 s in
  let* p := Icmpv6A.payload s in
  Ok (p, P6.from_type_u8 t c (snd p)).

(* the options() area of a typed payload slice, as listed in its view *)
Definition pview_options (v : C6S.pview) : option bytes :=
  match v with
  | C6S.PvWhole _ _ => None
  | C6S.PvRouterSolicitation o => Some o
  | C6S.PvRouterAdvertisement _ _ o => Some o
  | C6S.PvNeighborSolicitation _ o => Some o
  | C6S.PvNeighborAdvertisement _ o => Some o
  | C6S.PvRedirect _ _ o => Some o
  end.

(* running NdpOptionsIterator over the area: returns within length+1 calls of next, no UB item,
   every accepted option's accessors return, at most one accepted option per 8 bytes, and the
   accepted option slices tile a prefix of the area *)
Definition ndp_iter_ok (opts : bytes) : Prop :=
  exists items,
    C6.Ndp.collect (S (length opts)) opts = Some items /\
    Forall (fun i => match i with
                     | C6S.IOk k s => exists v, C6.Ndp.opt_accessors k s = C6S.Ok v
                     | C6S.IErr _ => True
                     | C6S.IUB _ => False
                     end) items /\
    C6S.ok_count items <= len opts / 8 /\
    exists rest, opts = C6S.ok_bytes items ++ rest.

Lemma ndp_iter_total opts : ndp_iter_ok opts.
Proof.
  destruct (C6P.ndp_options_full opts) as (items & Ec & _ & _ & (rest & Er & _) & Fa & Cn).
  exists items. split; [exact Ec|]. split.
  - eapply Forall_impl; [|exact Fa]. intros [k s|e|n]; [intros (_ & A); eauto|auto|auto].
  - split; [exact Cn|]. exists rest. exact Er.
Qed.

(* what is known about the value payload_slice returns for the payload window pw *)
Definition payload_slice_ok (pw : slice) (r : C6S.res P6.t) : Prop :=
  (forall n, r <> C6S.UB n) /\
  (forall ps, r = C6S.Ok ps ->
     snd ps = snd pw /\
     exists view, P6.accessors ps = C6S.Ok view /\
       forall opts, pview_options view = Some opts -> tail_window pw opts /\ ndp_iter_ok opts).

Lemma from_type_u8_ok t c pw : payload_slice_ok pw (P6.from_type_u8 t c (snd pw)).
Proof.
  destruct (CtorsTotal2.payload_from_type_u8_ctor t c (snd pw)) as (k & ->).
  destruct (CtorsTotal2.payload_ctor_total k (snd pw)) as (NU & T).
  split; [exact NU|]. intros ps Eps. destruct (T ps Eps) as (-> & Lk & Ea). cbn [snd].
  split; [reflexivity|]. eexists. split; [exact Ea|].
  intros opts Ho. split; [|apply ndp_iter_total]. apply tail_is_window.
  destruct k; cbn [C6S.ndp_payload_view pview_options] in Ho; try discriminate;
    injection Ho as <-; first [apply tail_of_drop | apply tail_of_refl].
Qed.

Lemma icmp6_payload_slice_ok s :
  wf_icmp6 s ->
  exists t c pw,
    icmpv6_payload_slice s = Ok (pw, P6.from_type_u8 t c (snd pw)) /\
    rdU s 0 = Ok t /\ rdU s 1 = Ok c /\ Icmpv6A.payload s = Ok pw /\
    sub_of pw s /\ s_off pw = s_off s + 8 /\ s_len pw = s_len s - 8 /\
    payload_slice_ok pw (P6.from_type_u8 t c (snd pw)).
Proof.
  unfold wf_icmp6. intros L.
  destruct (rdU_ok s 0) as (t & Et); [lia|]. destruct (rdU_ok s 1) as (c & Ec); [lia|].
  destruct (subU_ok s 8 (s_len s - 8)) as (pw & Ep & Lp & Op); [lia|].
  assert (Epl : Icmpv6A.payload s = Ok pw).
  { unfold Icmpv6A.payload. rewrite (subN_okr (s_len s) 8) by lia. cbn [bind]. exact Ep. }
  exists t, c, pw. split.
  { unfold icmpv6_payload_slice, Icmpv6A.type_u8, Icmpv6A.code_u8. rewrite Et. cbn [bind].
    rewrite Ec. cbn [bind]. rewrite Epl. reflexivity. }
  split; [exact Et|]. split; [exact Ec|]. split; [exact Epl|].
  split; [now exists 8, (s_len s - 8)|]. split; [exact Op|]. split; [exact Lp|].
  apply from_type_u8_ok.
Qed.

(* ================================================================================================= *)
(* summaries                                                                                           *)
(* ================================================================================================= *)

(* single layers: EVERY slice value s and every value a constructor returns for it *)
Theorem stored_iter_single_layer :
  (forall s x, TcpSlice.from_slice s = Ok x ->
     exists o, TcpSliceA.options x = Ok o /\ sub_of o s /\ s_len o = fst x - 20 /\ s_len o <= 40 /\
               tcp_iter_ok o) /\
  (forall s h, TcpHeaderSliceA.from_slice s = Ok h ->
     exists o, TcpHeaderSliceA.options h = Ok o /\ sub_of o s /\ s_len o = s_len h - 20 /\ s_len o <= 40 /\
               tcp_iter_ok o) /\
  (forall s v, Icmpv6Slice.from_slice s = Ok v ->
     exists t c pw,
       icmpv6_payload_slice v = Ok (pw, P6.from_type_u8 t c (snd pw)) /\
       sub_of pw s /\ s_len pw = s_len s - 8 /\
       payload_slice_ok pw (P6.from_type_u8 t c (snd pw))).
Proof.
  repeat match goal with |- _ /\ _ => split end.
  - intros s x H. apply tcp_wf in H. destruct H as (W & <-).
    destruct (tcp_options_window x W) as (o & E & S & _ & Lo & L40).
    exists o. repeat (split; [assumption|]). apply tcp_iter_total.
  - intros s h H. apply tcph_wf in H. destruct H as (W & Sh).
    destruct (tcph_options_window h W) as (o & E & S & _ & Lo & L40).
    exists o. split; [exact E|]. split; [eapply sub_of_trans; eauto|]. split; [exact Lo|]. split; [exact L40|].
    apply tcp_iter_total.
  - intros s v H. apply icmp6_wf in H. destruct H as (-> & W).
    destruct (icmp6_payload_slice_ok s W) as (t & c & pw & E & _ & _ & _ & S & _ & Lp & P).
    exists t, c, pw. auto.
Qed.

(* whole packets: the transport slice stored in a strict or lax whole-packet result *)
Definition stored_transport (bs : bytes) (t : transport_slice) : Prop :=
  (exists et p, entry bs et p /\ sp_transport p = Some t) \/
  (exists et p, lax_entry bs et p /\ lsp_transport p = Some t).

Lemma stored_transport_inv bs t : stored_transport bs t -> transport_inv bs t.
Proof.
  intros [(et & p & E & Ht)|(et & p & E & Ht)].
  - pose proof (sliced_wf_entry bs et p E) as (_ & _ & _ & D). rewrite Ht in D. cbn [optP] in D.
    destruct t as [s|hl s|s|s]; cbn [transport_prov transport_inv] in *.
    + destruct D as (src & I & X). apply udp_wf in X. destruct X as (W & S).
      split; [eapply sub_of_in_buf; [exact I|exact S]|exact W].
    + destruct D as (src & I & X). apply tcp_wf in X. destruct X as (W & Es). cbn [snd] in Es. subst src. auto.
    + destruct D as (src & I & X). apply icmp4_wf in X. destruct X as (-> & W). auto.
    + destruct D as (src & I & X). apply icmp6_wf in X. destruct X as (-> & W). auto.
  - pose proof (lax_packet_wf bs et p E) as (_ & _ & _ & _ & D & _). rewrite Ht in D. exact D.
Qed.

(* the iteration with every iterator state placed in the input *)
Definition tcp_iter_in (bs : bytes) (o : slice) : Prop :=
  exists tr fin,
    TO.iterate (snd o) = TO.Ret (tr, fin) /\
    (length tr <= length (snd o))%nat /\
    fin = [] /\ (forall n, TO.next_n n fin = TO.Ret (repeat None n, [])) /\
    (forall pre e r post, tr = pre ++ (TO.Ok e, r) :: post -> len r < len (TO.last_rest (snd o) pre)) /\
    Forall (fun ir => exists k, k <= s_len o /\ in_window bs (s_off o + k, snd ir)) tr.

Theorem packet_tcp_options_iter bs hl s :
  bytes_ok bs -> stored_transport bs (TrTcp hl s) ->
  exists o, TcpSliceA.options (hl, s) = Ok o /\ sub_of o s /\ in_window bs o /\
            s_len o = hl - 20 /\ s_len o <= 40 /\ tcp_iter_in bs o.
Proof.
  intros Hok St. apply stored_transport_inv in St. destruct St as (I & W).
  destruct (tcp_options_window (hl, s) W) as (o & E & S & _ & Lo & L40). cbn [fst snd] in *.
  assert (Io : in_buf bs o) by (eapply sub_of_in_buf; eauto).
  exists o. split; [exact E|]. split; [exact S|]. split; [now apply in_buf_in_window|].
  split; [exact Lo|]. split; [exact L40|].
  destruct (tcp_iter_total o) as (tr & fin & Ei & B1 & F1 & F2 & B2 & T).
  exists tr, fin. repeat (split; [assumption|]).
  eapply Forall_impl; [|exact (T (in_buf_bytes_ok bs o Hok Io))].
  intros ir (k & Lk & Ek). exists k. split; [exact Lk|]. apply in_buf_in_window.
  eapply sub_of_in_buf; [exact Io|]. now exists k, (s_len o - k).
Qed.

(* the same with the payload window, the options area and the iterator placed in the input *)
Definition payload_slice_in (bs : bytes) (pw : slice) (r : C6S.res P6.t) : Prop :=
  (forall n, r <> C6S.UB n) /\
  (forall ps, r = C6S.Ok ps ->
     snd ps = snd pw /\
     exists view, P6.accessors ps = C6S.Ok view /\
       forall opts, pview_options view = Some opts ->
         (exists k, k <= s_len pw /\ in_window bs (s_off pw + k, opts)) /\ ndp_iter_ok opts).

Theorem packet_icmp6_payload_slice bs s :
  stored_transport bs (TrIcmpv6 s) ->
  exists t c pw,
    icmpv6_payload_slice s = Ok (pw, P6.from_type_u8 t c (snd pw)) /\
    sub_of pw s /\ in_window bs pw /\ s_len pw = s_len s - 8 /\
    payload_slice_in bs pw (P6.from_type_u8 t c (snd pw)).
Proof.
  intros St. apply stored_transport_inv in St. destruct St as (I & W).
  destruct (icmp6_payload_slice_ok s W) as (t & c & pw & E & _ & _ & _ & S & _ & Lp & (NU & P)).
  assert (Ip : in_buf bs pw) by (eapply sub_of_in_buf; eauto).
  exists t, c, pw. split; [exact E|]. split; [exact S|]. split; [now apply in_buf_in_window|].
  split; [exact Lp|]. split; [exact NU|].
  intros ps Eps. destruct (P ps Eps) as (Es & view & Ea & Po). split; [exact Es|].
  exists view. split; [exact Ea|]. intros opts Ho. destruct (Po opts Ho) as ((k & Lk & Ek) & Ni).
  split; [|exact Ni]. exists k. split; [exact Lk|]. apply in_buf_in_window.
  eapply sub_of_in_buf; [exact Ip|]. now exists k, (s_len pw - k).
Qed.
