(* Parse/HdrValExts.v -- property C04, audit round 3, header VALUE equality, part 3: the
   struct Ipv6Extensions.  `IpSlice::to_header` (net/ip_slice.rs; model
   LaxAccess.IpSliceToHeaderA.v6_exts_to_header) re-decodes the extension area stored in an
   Ipv6Slice with the STRUCT decoder Ipv6Extensions::from_slice.  Proved here: on the extension
   area of the cut slicing result it returns exactly the struct that PacketHeaders decoded
   (same six slots: same windows, same bytes), for all three strict entry points.
     struct_exts_pre   Ipv6Extensions::from_slice on a prefix of its input that contains
                       everything it consumed returns the same struct and next header;
     struct_consumed   it consumed exts6_len x bytes (from HdrProofs2.exts_agree);
     v6_prov_entries   the IPv6 struct of a PacketHeaders result is the outcome of
                       Ipv6Extensions::from_slice(header.next_header, a window of the input
                       directly behind the 40 byte header). *)
From Coq Require Import ZArith Lia ZifyN ZifyBool List.
From EP Require Import Base.Bytes Parse.Types Parse.Slices Parse.Cursor Parse.View Parse.Repr
  Parse.Access Parse.AccessProofs Parse.LaxAccess Parse.LaxAccessToHeader
  Parse.HdrModel Parse.HdrView Parse.HdrCut Parse.HdrProofs
  Parse.HdrProofs2 Parse.HdrProofs3 Parse.HdrSlots Parse.HdrSlots2 Parse.HdrVal Parse.HdrValStruct
  Parse.HdrValProofs.
Import ListNotations.
Import SlicedPacketCursor.
Local Open Scope N_scope.

(* ---- the struct extension decoder on a prefix that contains everything it consumed ---------- *)
Lemma idx_from_pre u I W l W1 :
  pre u I W -> l <= u -> HdrModel.idx_from W l = Ok W1 ->
  exists I1, HdrModel.idx_from I l = Ok I1 /\ pre (u - l) I1 W1.
Proof.
  intros P Hl H. pose proof (pre_len _ _ _ P) as LI. pose proof P as (_ & _ & Lu).
  unfold HdrModel.idx_from in *. destruct (l <=? s_len W) eqn:E; [|discriminate]. injection H as <-.
  rewrite LI. destruct (l <=? u) eqn:E2; [|lia]. eexists. split; [reflexivity|].
  apply (pre_rest u I W l); auto.
  - rewrite <- LI. apply drop_as_sub. lia.
  - apply drop_as_sub. lia.
Qed.

Lemma idx_from_len W l W1 : HdrModel.idx_from W l = Ok W1 -> s_len W1 = s_len W - l /\ l <= s_len W.
Proof.
  unfold HdrModel.idx_from. destruct (l <=? s_len W) eqn:E; [|discriminate]. intros H. injection H as <-.
  split; [|lia]. unfold s_len. cbn [snd]. apply len_drop.
Qed.

Lemma raw_step_len base W h W1 nh1 :
  Ipv6Extensions.raw_step base W = Ok (h, W1, nh1) ->
  8 <= s_len h /\ s_len W1 = s_len W - s_len h /\ s_len h <= s_len W.
Proof.
  unfold Ipv6Extensions.raw_step. intros H. binv H off Eoff. binv H sl Esl. apply map_len_err_inv in Esl.
  binv H rest' Er. binv H nh Enh. binv H h' Eh. injection H as <- <- <-.
  apply raw_to_header_id in Eh. subst h'. apply idx_from_len in Er. destruct Er as (A & B).
  destruct (raw_inv _ _ Esl) as (b & _ & Hsl & _).
  pose proof (AccessProofs.subU_inv _ _ _ _ Hsl) as (_ & Lsl & _). split; [lia|]. split; assumption.
Qed.

Lemma raw_step_pre u I W base baseI h W1 nh1 :
  Ipv6Extensions.raw_step base W = Ok (h, W1, nh1) -> pre u I W -> s_len h <= u ->
  s_len I <= s_len baseI ->
  exists I1, Ipv6Extensions.raw_step baseI I = Ok (h, I1, nh1) /\ pre (u - s_len h) I1 W1.
Proof.
  unfold Ipv6Extensions.raw_step. intros H P Lu Lb. binv H off Eoff. binv H sl Esl.
  apply map_len_err_inv in Esl. binv H rest' Er. binv H nh Enh. binv H h' Eh. injection H as <- <- <-.
  pose proof (raw_to_header_id _ _ Eh) as Ehh. subst h'.
  destruct (idx_from_pre u I W (s_len sl) rest' P Lu Er) as (I1 & EI1 & P1).
  exists I1. split; [|exact P1].
  rewrite subN_ok by lia. cbn [bind]. rewrite (raw_trunc u I W sl P Esl Lu). cbn [map_len_err bind].
  rewrite EI1. cbn [bind]. rewrite Enh. cbn [bind]. rewrite Eh. reflexivity.
Qed.

Lemma struct_loop_len fuel : forall base x W nh x' nh' r',
  Ipv6Extensions.loop fuel base x W nh = Ok (x', nh', r') -> s_len r' <= s_len W.
Proof.
  induction fuel as [|f IH]; intros base x W nh x' nh' r' H; [discriminate|].
  cbn [Ipv6Extensions.loop] in H.
  assert (Stop : forall (a : exts6 * N * slice), Ok (x, nh, W) = Ok a -> s_len (snd a) <= s_len W).
  { intros a E. injection E as <-. cbn [snd]. lia. }
  assert (Raw : forall xx, (let* r := Ipv6Extensions.raw_step base W in
                            let '(h, rest', nh1) := r in
                            Ipv6Extensions.loop f base (xx h) rest' nh1) = Ok (x', nh', r') ->
                           s_len r' <= s_len W).
  { intros xx E. binv E r Er. destruct r as ((h, W1), nh1). apply raw_step_len in Er.
    apply IH in E. lia. }
  destruct (nh =? IPN_HOP_BY_HOP); [discriminate|].
  destruct (nh =? IPN_DEST_OPTIONS).
  { destruct (x_route x) as [rt|].
    - destruct (is_some (x_fdest x)); [exact (Stop _ H)|].
      exact (Raw (fun h => mkExts6 (x_hbh x) (x_dest x) (Some rt) (Some h) (x_frag x) (x_auth x)) H).
    - destruct (is_some (x_dest x)); [exact (Stop _ H)|].
      exact (Raw (fun h => mkExts6 (x_hbh x) (Some h) None (x_fdest x) (x_frag x) (x_auth x)) H). }
  destruct (nh =? IPN_ROUTE).
  { destruct (is_some (x_route x)); [exact (Stop _ H)|].
    exact (Raw (fun h => mkExts6 (x_hbh x) (x_dest x) (Some h) None (x_frag x) (x_auth x)) H). }
  destruct (nh =? IPN_FRAG).
  { destruct (is_some (x_frag x)); [exact (Stop _ H)|].
    binv H off Eoff. binv H sl Esl. apply map_len_err_inv in Esl. binv H rest' Er. binv H nh1 Enh.
    apply idx_from_len in Er. apply IH in H. lia. }
  destruct (nh =? IPN_AUTH).
  { destruct (is_some (x_auth x)); [exact (Stop _ H)|].
    binv H off Eoff. binv H sl Esl. binv H rest' Er. binv H nh1 Enh. binv H h Eh.
    apply idx_from_len in Er. apply IH in H. lia. }
  exact (Stop _ H).
Qed.

Lemma struct_loop_pre fuel : forall base x W nh x' nh' r',
  Ipv6Extensions.loop fuel base x W nh = Ok (x', nh', r') ->
  forall u I baseI fuel2,
    pre u I W -> s_len W - s_len r' <= u -> s_len I <= s_len baseI -> (N.to_nat u < fuel2)%nat ->
    exists rI, Ipv6Extensions.loop fuel2 baseI x I nh = Ok (x', nh', rI).
Proof.
  induction fuel as [|f IH]; intros base x W nh x' nh' r' H u I baseI fuel2 P Lu Lb Hf; [discriminate|].
  destruct fuel2 as [|f2]; [lia|].
  pose proof (pre_len _ _ _ P) as LI.
  cbn [Ipv6Extensions.loop] in H |- *.
  assert (Stop : forall (a : exts6 * N * slice), Ok (x, nh, W) = Ok (x', nh', r') ->
            exists rI, Ok (x, nh, I) = Ok (x', nh', rI)).
  { intros _ E. injection E as <- <- <-. eexists; reflexivity. }
  assert (Raw : forall xx,
            (let* r := Ipv6Extensions.raw_step base W in
             let '(h, rest', nh1) := r in
             Ipv6Extensions.loop f base (xx h) rest' nh1) = Ok (x', nh', r') ->
            exists rI,
              (let* r := Ipv6Extensions.raw_step baseI I in
               let '(h, rest', nh1) := r in
               Ipv6Extensions.loop f2 baseI (xx h) rest' nh1) = Ok (x', nh', rI)).
  { intros xx E. binv E r Er. destruct r as ((h, W1), nh1).
    pose proof (raw_step_len _ _ _ _ _ Er) as (L8 & LW1 & Lh).
    pose proof (struct_loop_len _ _ _ _ _ _ _ _ E) as Lr.
    assert (Lhu : s_len h <= u) by lia.
    destruct (raw_step_pre u I W base baseI h W1 nh1 Er P Lhu Lb) as (I1 & EI1 & P1).
    rewrite EI1. cbn [bind].
    apply (IH _ _ _ _ _ _ _ E (u - s_len h) I1 baseI f2 P1); try lia.
    pose proof (pre_len _ _ _ P1). lia. }
  destruct (nh =? IPN_HOP_BY_HOP); [discriminate|].
  destruct (nh =? IPN_DEST_OPTIONS).
  { destruct (x_route x) as [rt|].
    - destruct (is_some (x_fdest x)); [exact (Stop (x, nh, W) H)|].
      exact (Raw (fun h => mkExts6 (x_hbh x) (x_dest x) (Some rt) (Some h) (x_frag x) (x_auth x)) H).
    - destruct (is_some (x_dest x)); [exact (Stop (x, nh, W) H)|].
      exact (Raw (fun h => mkExts6 (x_hbh x) (Some h) None (x_fdest x) (x_frag x) (x_auth x)) H). }
  destruct (nh =? IPN_ROUTE).
  { destruct (is_some (x_route x)); [exact (Stop (x, nh, W) H)|].
    exact (Raw (fun h => mkExts6 (x_hbh x) (x_dest x) (Some h) None (x_frag x) (x_auth x)) H). }
  destruct (nh =? IPN_FRAG).
  { destruct (is_some (x_frag x)); [exact (Stop (x, nh, W) H)|].
    binv H off Eoff. binv H sl Esl. apply map_len_err_inv in Esl. binv H W1 Er. binv H nh1 Enh.
    pose proof (idx_from_len _ _ _ Er) as (LW1 & Lh).
    destruct (frag_inv _ _ Esl) as (Hsl & _).
    pose proof (AccessProofs.subU_inv _ _ _ _ Hsl) as (_ & Lsl & _).
    pose proof (struct_loop_len _ _ _ _ _ _ _ _ H) as Lr.
    assert (Lhu : s_len sl <= u) by lia.
    destruct (idx_from_pre u I W (s_len sl) W1 P Lhu Er) as (I1 & EI1 & P1).
    rewrite subN_ok by lia. cbn [bind]. rewrite (frag_trunc u I W sl P Esl Lhu). cbn [map_len_err bind].
    rewrite EI1. cbn [bind]. rewrite Enh. cbn [bind].
    apply (IH _ _ _ _ _ _ _ H (u - s_len sl) I1 baseI f2 P1); try lia.
    pose proof (pre_len _ _ _ P1). lia. }
  destruct (nh =? IPN_AUTH).
  { destruct (is_some (x_auth x)); [exact (Stop (x, nh, W) H)|].
    binv H off Eoff. binv H sl Esl.
    assert (Esl' : IpAuthHeaderSlice.from_slice W = Ok sl).
    { destruct (IpAuthHeaderSlice.from_slice W) as [a|[e|c]|b]; try discriminate; exact Esl. }
    binv H W1 Er. binv H nh1 Enh. binv H h Eh.
    pose proof (idx_from_len _ _ _ Er) as (LW1 & Lh).
    destruct (ah_inv _ _ Esl') as (p & _ & _ & Hsl & _).
    pose proof (AccessProofs.subU_inv _ _ _ _ Hsl) as (_ & Lsl & _).
    pose proof (struct_loop_len _ _ _ _ _ _ _ _ H) as Lr.
    assert (Lhu : s_len sl <= u) by lia.
    destruct (idx_from_pre u I W (s_len sl) W1 P Lhu Er) as (I1 & EI1 & P1).
    rewrite subN_ok by lia. cbn [bind]. rewrite (ah_trunc u I W sl P Esl' Lhu). cbn [bind].
    rewrite EI1. cbn [bind]. rewrite Enh. cbn [bind]. rewrite Eh. cbn [bind].
    apply (IH _ _ _ _ _ _ _ H (u - s_len sl) I1 baseI f2 P1); try lia.
    pose proof (pre_len _ _ _ P1). lia. }
  exact (Stop (x, nh, W) H).
Qed.

(* Ipv6Extensions::from_slice on a prefix of its input that contains everything it consumed
   returns the same struct *)
Theorem struct_exts_pre nh0 hp x nh' r u I :
  Ipv6Extensions.from_slice nh0 hp = Ok (x, nh', r) -> pre u I hp -> s_len hp - s_len r <= u ->
  exists rI, Ipv6Extensions.from_slice nh0 I = Ok (x, nh', rI).
Proof.
  unfold Ipv6Extensions.from_slice. intros H P Lu. pose proof (pre_len _ _ _ P) as LI.
  binv H st Est. destruct st as ((x0, rest0), nhx).
  assert (Fuel : (N.to_nat (s_len I) < S (length (snd I)))%nat) by (rewrite s_len_length; lia).
  destruct (IPN_HOP_BY_HOP =? nh0).
  - binv Est sl Esl. binv Est rest1 Er. binv Est nh1 Enh. binv Est h Ehd. injection Est as <- <- <-.
    pose proof (idx_from_len _ _ _ Er) as (LW1 & Lh).
    destruct (raw_inv _ _ Esl) as (b & _ & Hsl & _).
    pose proof (AccessProofs.subU_inv _ _ _ _ Hsl) as (_ & Lsl & _).
    pose proof (struct_loop_len _ _ _ _ _ _ _ _ H) as Lr.
    assert (Lhu : s_len sl <= u) by lia.
    destruct (idx_from_pre u I hp (s_len sl) rest1 P Lhu Er) as (I1 & EI1 & P1).
    rewrite (raw_trunc u I hp sl P Esl Lhu). cbn [bind]. rewrite EI1. cbn [bind]. rewrite Enh. cbn [bind].
    rewrite Ehd. cbn [bind].
    pose proof (pre_len _ _ _ P1) as LI1.
    apply (struct_loop_pre _ _ _ _ _ _ _ _ H (u - s_len sl) I1 I _ P1); try lia.
  - injection Est as <- <- <-. cbn [bind].
    apply (struct_loop_pre _ _ _ _ _ _ _ _ H u I I _ P); try lia.
Qed.

(* ---- how many bytes the struct decoder consumed ------------------------------------------- *)
Lemma struct_consumed nh0 hp x nh' r : bytes_ok (snd hp) ->
  Ipv6Extensions.from_slice nh0 hp = Ok (x, nh', r) ->
  s_len hp - s_len r = exts6_len x /\ exts6_len x <= s_len hp.
Proof.
  intros Hok Hh. pose proof (exts_agree nh0 hp Hok) as A. rewrite Hh in A. unfold exts_rel in A.
  destruct (Cut.exts_from_slice true nh0 hp) as [[[xs nh''] r']|e|b] eqn:Hs; try contradiction.
  destruct A as (-> & -> & _ & Win & _ & _).
  unfold Cut.exts_from_slice in Hs. binv Hs st Est. destruct st as (rest0, nh00).
  binv Hs w Ew. destruct w as ((restf, nxf), frf).
  binv Hs used Eu. apply subN_inv in Eu. destruct Eu as (Lr & ->).
  binv Hs sl Esl. destruct (s_len hp - s_len restf <=? s_len hp) eqn:Eus; [|discriminate]. injection Esl as <-.
  injection Hs as <- _ <-. cbn [x6_slice] in Win.
  assert (PI : pre (s_len hp - s_len restf) (fst hp, take (s_len hp - s_len restf) (snd hp)) hp)
    by (apply pre_take; lia).
  apply pre_len in PI. unfold win_of in Win. rewrite PI in Win.
  pose proof (f_equal snd Win) as W2. cbn [snd] in W2. lia.
Qed.

(* ---- where the struct Ipv6Extensions of a PacketHeaders result came from ------------------- *)
Definition ih_prov (bs : bytes) (ih : ip_headers) : Prop :=
  match ih with
  | IhV4 _ _ => True
  | IhV6 hd x =>
      exists nh0 hp0 nh' r, in_buf bs hp0 /\ rdU hd 6 = Ok nh0 /\ s_off hp0 = s_off hd + 40 /\
        Ipv6Extensions.from_slice nh0 hp0 = Ok (x, nh', r)
  end.

Definition v6_prov (bs : bytes) (p : hpacket) : Prop :=
  match h_net p with Some (HnIp ih) => ih_prov bs ih | _ => True end.

Lemma v6_exts_prov bs header hp src r :
  IpHeaders.v6_exts header hp src = Ok r -> in_buf bs hp -> s_off hp = s_off header + 40 ->
  ih_prov bs (fst r).
Proof.
  unfold IpHeaders.v6_exts. intros H I Ho. binv H nh0 En. binv H y Ey. destruct y as ((x, nh'), rest).
  binv H fr Efr. injection H as <-. cbn [fst ih_prov].
  assert (Ey' : Ipv6Extensions.from_slice nh0 hp = Ok (x, nh', rest)).
  { destruct (Ipv6Extensions.from_slice nh0 hp) as [z|[e|c]|b]; try discriminate; exact Ey. }
  exists nh0, hp, nh', rest. auto.
Qed.

Lemma v4_exts_prov bs header rest r : IpHeaders.v4_exts header rest = Ok r -> ih_prov bs (fst r).
Proof. intros H. destruct (v4_exts_sub _ _ _ H) as (a & -> & _). exact I. Qed.

Lemma ipv6_slice_prov bs s r : in_buf bs s -> IpHeaders.from_ipv6_slice s = Ok r -> ih_prov bs (fst r).
Proof.
  intros Is. unfold IpHeaders.from_ipv6_slice. intros H. binv H hr Ehr. destruct hr as (header, hrest).
  binv H pl Epl. binv H hp Ehp. destruct hp as (hp, src).
  unfold Ipv6Header.from_slice in Ehr. binv Ehr h Eh. binv Ehr rest Er. injection Ehr as <- <-.
  assert (Oh : s_off h = s_off s).
  { unfold Ipv6HeaderSlice.from_slice in Eh. destruct (s_len s <? 40); unfold lerr in Eh; [discriminate|].
    binv Eh v Ev. destruct (negb (N.shiftr v 4 =? 6)); [discriminate|].
    pose proof (AccessProofs.subU_inv _ _ _ _ Eh) as (_ & _ & O & _). lia. }
  pose proof (idx_from_sub _ _ _ Er) as Sr.
  assert (Or : s_off rest = s_off s + 40).
  { unfold HdrModel.idx_from in Er. destruct (40 <=? s_len s); [|discriminate]. injection Er as <-. reflexivity. }
  assert (X : sub_of hp s /\ s_off hp = s_off rest).
  { destruct ((0 =? pl) && (40 <? s_len s)); [injection Ehp as <- _; auto|].
    destruct (s_len rest <? pl); unfold lerr in Ehp; [discriminate|].
    binv Ehp p Ep. injection Ehp as <- _.
    pose proof (AccessProofs.subU_inv _ _ _ _ Ep) as (_ & _ & O & _).
    split; [eapply sub_of_trans; [|exact Sr]; now exists 0, pl|lia]. }
  destruct X as (Shp & Ohp).
  apply (v6_exts_prov bs _ _ _ _ H); [exact (sub_of_in_buf bs _ _ Is Shp)|lia].
Qed.

Lemma ip_slice_prov bs s r : in_buf bs s -> IpHeaders.from_slice s = Ok r -> ih_prov bs (fst r).
Proof.
  intros Is. unfold IpHeaders.from_slice. destruct (s_len s =? 0); unfold lerr; [discriminate|].
  intros H. binv H b0 Eb0. destruct (N.shiftr b0 4 =? 4).
  { destruct (s_len s <? 20); [discriminate|]. binv H b0' Eb0'.
    destruct (N.land b0' 15 <? 5); [discriminate|].
    destruct (s_len s <? N.land b0' 15 * 4); [discriminate|].
    binv H header Eh. binv H totl Etl.
    destruct (totl <? N.land b0' 15 * 4); [discriminate|]. destruct (s_len s <? totl); [discriminate|].
    binv H n En. binv H rest Er. exact (v4_exts_prov bs _ _ _ H). }
  destruct (N.shiftr b0 4 =? 6); [|discriminate].
  destruct (s_len s <? 40); [discriminate|].
  binv H header Eh. binv H pl Epl. binv H hp Ehp. destruct hp as (hp, src).
  pose proof (AccessProofs.subU_inv _ _ _ _ Eh) as (_ & _ & Oh & _).
  assert (X : sub_of hp s /\ s_off hp = s_off s + 40).
  { destruct ((0 =? pl) && (40 <? s_len s)).
    - binv Ehp n En. binv Ehp p Ep. injection Ehp as <- _.
      pose proof (AccessProofs.subU_inv _ _ _ _ Ep) as (_ & _ & O & _). split; [eexists _, _; exact Ep|exact O].
    - cbn zeta in Ehp. destruct (s_len s <? 40 + pl); [discriminate|].
      binv Ehp p Ep. injection Ehp as <- _.
      pose proof (AccessProofs.subU_inv _ _ _ _ Ep) as (_ & _ & O & _). split; [eexists _, _; exact Ep|exact O]. }
  destruct X as (Shp & Ohp).
  apply (v6_exts_prov bs _ _ _ _ H); [exact (sub_of_in_buf bs _ _ Is Shp)|lia].
Qed.

Lemma link_loop_done slice fuel : forall st p,
  PacketHeaders.link_loop fuel slice st = Ok (LDone p) -> h_net p = None.
Proof.
  induction fuel as [|f IH]; intros st p H; [discriminate|].
  cbn [PacketHeaders.link_loop] in H.
  destruct (is_vlan_type (hs_et st)).
  { destruct (LINK_EXTS_CAP <=? len (hs_exts st)); [discriminate|].
    destruct (SingleVlanHeader.from_slice (hs_rest st)) as [[vlan vrest]|[e|c]|b]; try discriminate;
      [|exfalso; exact (add_offset_not_ok _ _ _ _ H)].
    binv H et' Eet. binv H exts' Epush. exact (IH _ _ H). }
  destruct (hs_et st =? ET_MACSEC); [|discriminate].
  destruct (LINK_EXTS_CAP <=? len (hs_exts st)); [discriminate|].
  destruct (Macsec.from_slice (hs_rest st)) as [m|[e|c]|b]; try discriminate;
    [|exfalso; exact (add_offset_not_ok _ _ _ _ H)].
  binv H exts' Epush. destruct (ms_payload m) as [e|mp]; [exact (IH _ _ H)|].
  injection H as <-. reflexivity.
Qed.

Lemma net_part_prov bs slice st p :
  in_buf bs (hs_rest st) -> PacketHeaders.net_part slice st = Ok p -> v6_prov bs p.
Proof.
  intros Hr. unfold PacketHeaders.net_part.
  destruct (hs_et st =? ET_IPV4).
  { destruct (IpHeaders.from_ipv4_slice (hs_rest st)) as [[ip ipp]|[e|c]|b] eqn:E; try discriminate;
      [|intros H; exfalso; exact (add_offset_not_ok _ _ _ _ H)].
    destruct (read_transport ipp) as [[t pl]|[e|c]|b] eqn:T; try discriminate;
      [|intros H; exfalso; exact (add_offset_not_ok _ _ _ _ H)].
    intros H. injection H as <-. unfold v6_prov. cbn [h_net].
    unfold IpHeaders.from_ipv4_slice in E. binv E hr Ehr. destruct hr as (hh, hrest).
    binv E t1 E1. binv E t2 E2. binv E t3 E3. exact (v4_exts_prov bs _ _ _ E). }
  destruct (hs_et st =? ET_IPV6).
  { destruct (IpHeaders.from_ipv6_slice (hs_rest st)) as [[ip ipp]|[e|c]|b] eqn:E; try discriminate;
      [|intros H; exfalso; exact (add_offset_not_ok _ _ _ _ H)].
    destruct (read_transport ipp) as [[t pl]|[e|c]|b] eqn:T; try discriminate;
      [|intros H; exfalso; exact (add_offset_not_ok _ _ _ _ H)].
    intros H. injection H as <-. unfold v6_prov. cbn [h_net].
    exact (ipv6_slice_prov bs _ _ Hr E). }
  destruct (hs_et st =? ET_ARP).
  { destruct (ArpPacketSlice.from_slice (hs_rest st)) as [a|[e|c]|b]; try discriminate;
      [|intros H; exfalso; exact (add_offset_not_ok _ _ _ _ H)].
    intros H. injection H as <-. exact I. }
  intros H. injection H as <-. exact I.
Qed.

Lemma ether_type_slice_prov bs et s p :
  in_buf bs s -> PacketHeaders.from_ether_type_slice et s = Ok p -> v6_prov bs p.
Proof.
  intros Is. unfold PacketHeaders.from_ether_type_slice. intros H. binv H o Eo.
  destruct o as [q|st'].
  - injection H as <-. apply link_loop_done in Eo. unfold v6_prov. now rewrite Eo.
  - apply (link_loop_ok bs) in Eo.
    + destruct Eo as (_ & Ir & _). exact (net_part_prov bs _ _ _ Ir H).
    + unfold st_ok. cbn [hs_exts hs_rest hs_payload hpayload_slices ep_slice].
      split; [constructor|]. split; [exact Is|]. constructor; [exact Is|constructor].
Qed.

Lemma v6_prov_entries bs et :
  (forall p, PacketHeaders.from_ethernet_slice bs = Ok p -> v6_prov bs p) /\
  (forall p, PacketHeaders.from_ether_type et bs = Ok p -> v6_prov bs p) /\
  (forall p, PacketHeaders.from_ip_slice bs = Ok p -> v6_prov bs p).
Proof.
  pose proof (in_buf_whole bs) as I. split; [|split]; intros p H.
  - unfold PacketHeaders.from_ethernet_slice in H. binv H er Eer. destruct er as (eth, rest).
    binv H et' Eet. apply eth_hdr_sub in Eer. destruct Eer as (_ & Sr & _).
    destruct (PacketHeaders.from_ether_type_slice et' rest) as [r|[e|c]|b] eqn:E; try discriminate.
    injection H as <-. apply (ether_type_slice_prov bs) in E; [|exact (sub_of_in_buf bs _ _ I Sr)].
    exact E.
  - exact (ether_type_slice_prov bs et _ p I H).
  - unfold PacketHeaders.from_ip_slice in H. binv H ir Eir. destruct ir as (ip, ipp).
    destruct (read_transport ipp) as [[t pl]|[e|c]|b] eqn:T; try discriminate;
      [|exfalso; exact (add_offset_not_ok _ _ _ _ H)].
    injection H as <-. unfold v6_prov. cbn [h_net]. exact (ip_slice_prov bs _ _ I Eir).
Qed.

(* ---- IpSlice::to_header of the cut slicing result rebuilds the struct Ipv6Extensions -------- *)
Definition exts_to_header_agree (h : res hpacket) (s : res sliced_packet) : Prop :=
  forall hp hd x, h = Ok hp -> h_net hp = Some (HnIp (IhV6 hd x)) ->
  exists sp v, s = Ok sp /\ sp_net sp = Some (NtIpv6 v) /\ v6_header v = hd /\
               IpSliceToHeaderA.v6_exts_to_header v = Ok x.

Lemma exts_to_header_of bs h s : bytes_ok bs ->
  slots_in_order h s -> (forall p, h = Ok p -> v6_prov bs p) -> (forall sp, s = Ok sp -> cut_wf bs sp) ->
  exts_to_header_agree h s.
Proof.
  intros Hok SO HP CW hp hd x Eh En.
  destruct (SO hp hd x Eh En) as (sp & v & first & l & nh_end & Es & Esn & Ehd & Efirst & _ & _ & _ & Win).
  exists sp, v. split; [exact Es|]. split; [exact Esn|]. split; [exact Ehd|].
  pose proof (HP hp Eh) as P. unfold v6_prov in P. rewrite En in P. cbn [ih_prov] in P.
  destruct P as (nh0 & hp0 & nh' & r & I0 & Enh0 & Off0 & Run).
  pose proof (CW sp Es) as (_ & _ & C3 & _). rewrite Esn in C3. cbn [optP cnet_ok] in C3.
  destruct C3 as (_ & Ix & _).
  destruct (struct_consumed _ _ _ _ _ (in_buf_bytes_ok bs hp0 Hok I0) Run) as (Cons & Lc).
  unfold win_of in Win. injection Win as Wo Wl.
  assert (P : pre (exts6_len x) (x6_slice (v6_exts v)) hp0) by (apply (in_buf_pre bs); auto; lia).
  destruct (struct_exts_pre _ _ _ _ _ _ _ Run P ltac:(lia)) as (rI & RunI).
  unfold IpSliceToHeaderA.v6_exts_to_header, Ipv6HeaderA.next_header. rewrite Ehd, Enh0. cbn [bind].
  rewrite RunI. reflexivity.
Qed.

Theorem hdr_exts_to_header bs et : bytes_ok bs ->
  exts_to_header_agree (PacketHeaders.from_ethernet_slice bs) (Cut.from_ethernet true bs) /\
  exts_to_header_agree (PacketHeaders.from_ether_type et bs) (Cut.from_ether_type true et bs) /\
  exts_to_header_agree (PacketHeaders.from_ip_slice bs) (Cut.from_ip true bs).
Proof.
  intros Hok. destruct (hdr_slots_in_order bs et Hok) as (S1 & S2 & S3).
  destruct (v6_prov_entries bs et) as (P1 & P2 & P3).
  split; [|split].
  - apply (exts_to_header_of bs); auto. apply cut_wf_ethernet.
  - apply (exts_to_header_of bs); auto. apply cut_wf_ether_type.
  - apply (exts_to_header_of bs); auto. apply cut_wf_ip.
Qed.
