(* Parse/LaxHdrPrefix2.v -- (b) for LaxPacketHeaders restated without the vacuous conjunct
   (audit round 1, C05): `hdr_prefix` of HdrLaxC05.v carried a third conjunct
   `v_transport q = None \/ lhv_tr v <> None`; the instrumented strict reference decoder never puts a
   transport layer into the prefix of a rejection (`pwire_rej_no_transport` below: a rejection in or
   behind the transport step hands back the layers in FRONT of the transport layer), so the first
   disjunct always holds.  `hdr_prefix2` drops the conjunct; nothing is lost. *)
From EP Require Import Base.Bytes Parse.Types Parse.Slices Parse.Cursor Parse.View
  Parse.WireSpec Parse.Repr Parse.StrictProofs Parse.LaxSlices Parse.LaxCursor Parse.LaxView
  Parse.LaxProofs Parse.LaxFacts Parse.LaxWire Parse.LaxWireProofs Parse.LaxPrefix Parse.LaxHdrFacts
  Parse.HdrModel Parse.HdrView Parse.HdrCut Parse.HdrLaxModel Parse.HdrLaxView Parse.HdrLaxCut
  Parse.HdrLaxC05.
Local Open Scope N_scope.

(* ---- a rejection prefix of pwire never contains a transport layer -------------------------------- *)
Definition rej_nt (r : pres) : Prop := forall q e, r = PRej q e -> v_transport q = None.

Lemma nt_rej p e : v_transport p = None -> rej_nt (PRej p e).
Proof. intros H q e' E. injection E as <- _. exact H. Qed.
Lemma nt_of p r : v_transport p = None -> rej_nt (pres_of p r).
Proof. intros H q e E. apply pres_of_rej in E. destruct E as (-> & _). exact H. Qed.
Lemma nt_acc p : rej_nt (PAcc p).
Proof. intros q e E. discriminate. Qed.

Lemma nt_ipv4_body bs p src pos lim hl : v_transport p = None -> rej_nt (pwire_ipv4_body bs p src pos lim hl).
Proof.
  intros H. unfold pwire_ipv4_body, pwire_ipv4_tail, pwire_transport.
  repeat match goal with
         | |- context[if ?c then _ else _] => destruct c
         | |- context[match ?c with AhOk _ _ => _ | AhErr _ => _ end] => destruct c
         end; first [now apply nt_rej | now apply nt_of].
Qed.

Lemma nt_ipv6_body bs p src pos lim : v_transport p = None -> rej_nt (pwire_ipv6_body bs p src pos lim).
Proof.
  intros H. unfold pwire_ipv6_body, pwire_ipv6_tail, pwire_transport.
  repeat match goal with
         | |- context[if ?c then _ else _] => destruct c
         | |- context[match ?c with ChOk _ _ _ => _ | ChErr _ => _ end] => destruct c
         end; first [now apply nt_rej | now apply nt_of].
Qed.

Lemma nt_ip bs p src pos lim : v_transport p = None -> rej_nt (pwire_ip bs p src pos lim).
Proof.
  intros H. unfold pwire_ip.
  repeat match goal with |- context[if ?c then PRej _ _ else _] => destruct c; [now apply nt_rej|] end.
  destruct (B bs pos / 16 =? 4).
  { repeat match goal with |- context[if ?c then PRej _ _ else _] => destruct c; [now apply nt_rej|] end.
    now apply nt_ipv4_body. }
  destruct (B bs pos / 16 =? 6); [|now apply nt_rej].
  destruct (lim - pos <? 40); [now apply nt_rej|now apply nt_ipv6_body].
Qed.

Lemma nt_net bs p et src pos lim : v_transport p = None -> rej_nt (pwire_net bs p et src pos lim).
Proof.
  intros H. unfold pwire_net.
  destruct (et =? 2054); [now apply nt_of|].
  destruct (et =? 2048).
  { unfold pwire_ipv4.
    repeat match goal with |- context[if ?c then PRej _ _ else _] => destruct c; [now apply nt_rej|] end.
    now apply nt_ipv4_body. }
  destruct (et =? 34525); [|apply nt_acc].
  unfold pwire_ipv6.
  repeat match goal with |- context[if ?c then PRej _ _ else _] => destruct c; [now apply nt_rej|] end.
  now apply nt_ipv6_body.
Qed.

Lemma nt_ether bs cap : forall p et src pos lim,
  v_transport p = None -> rej_nt (pwire_ether bs cap p et src pos lim).
Proof.
  induction cap as [|cap IH]; intros p et src pos lim H; cbn [pwire_ether].
  - destruct (is_vlan et); [apply nt_acc|]. destruct (et =? 35045); [apply nt_acc|]. now apply nt_net.
  - destruct (is_vlan et).
    { destruct (lim - pos <? 4); [now apply nt_rej|now apply IH]. }
    destruct (et =? 35045); [|now apply nt_net].
    destruct (lim - pos <? 6); [now apply nt_rej|].
    destruct (128 <=? B bs pos); [now apply nt_rej|].
    destruct (((B bs pos / 4) mod 4 =? 0) && (B bs (pos + 1) mod 64 =? 1)); [now apply nt_rej|].
    destruct (lim - pos <? _); [now apply nt_rej|].
    destruct ((0 <? B bs (pos + 1) mod 64) && _); [now apply nt_rej|].
    destruct ((B bs pos / 4) mod 4 =? 0); [now apply IH|apply nt_acc].
Qed.

Theorem pwire_rej_no_transport bs et :
  rej_nt (pwire_ethernet bs) /\ rej_nt (pwire_ether_type bs et) /\ rej_nt (pwire_from_ip bs).
Proof.
  split; [|split].
  - unfold pwire_ethernet. destruct (n_bs bs <? 14); [now apply nt_rej|now apply nt_ether].
  - now apply nt_ether.
  - now apply nt_ip.
Qed.

(* ---- (b) for LaxPacketHeaders, two conjuncts ------------------------------------------------------------ *)
(* every layer of q (the layers in front of the fault: link extensions, network header) is a layer of the
   LaxPacketHeaders view, with its header window *)
Definition hdr_prefix2 (q : vpacket) (v : lhview) : Prop :=
  (exists rest, lhv_exts v = map ext_hdr (v_exts q) ++ rest) /\
  (v_net q = None \/ option_map net_hdr (v_net q) = lhv_net v).

Definition hdr_prefix_ok2 (bs : bytes) (strict : res sliced_packet) (pw : pres)
  (laxcut : res lax_sliced_packet) (lh : res lhpacket) : Prop :=
  forall e, strict = Err e -> lax_stopped_at_ext laxcut = false ->
  exists q e_ref p v,
    pw = PRej q e_ref /\ v_transport q = None /\ res_rel (VErr e) (VErr e_ref) /\ lh = Ok p /\
    lhview_of p = Ok v /\
    (~ F10_class bs e_ref -> hdr_prefix2 q v /\ hdr_outcome e_ref v).

Lemma hdr_prefix_ok_weaken bs strict pw laxcut lh :
  rej_nt pw -> hdr_prefix_ok bs strict pw laxcut lh -> hdr_prefix_ok2 bs strict pw laxcut lh.
Proof.
  intros NT H e E S. destruct (H e E S) as (q & e_ref & p & v & Pw & Rr & Lh & Hv & Rest).
  exists q, e_ref, p, v. split; [exact Pw|]. split; [exact (NT q e_ref Pw)|].
  split; [exact Rr|]. split; [exact Lh|]. split; [exact Hv|].
  intros NF. destruct (Rest NF) as ((P1 & P2 & _) & O). split; [split; assumption|exact O].
Qed.

Theorem hdr_lax_prefix2 bs et : bytes_ok bs ->
  (14 <= len bs ->
   hdr_prefix_ok2 bs (SlicedPacket.from_ethernet bs) (pwire_ethernet bs)
     (LaxCut.from_ethernet true bs) (LaxPacketHeaders.from_ethernet bs)) /\
  hdr_prefix_ok2 bs (SlicedPacket.from_ether_type et bs) (pwire_ether_type bs et)
    (LaxCut.from_ether_type true et bs) (LaxPacketHeaders.from_ether_type et bs) /\
  (ip_header_fault bs = None ->
   hdr_prefix_ok2 bs (SlicedPacket.from_ip bs) (pwire_from_ip bs)
     (LaxCut.from_ip true bs) (LaxPacketHeaders.from_ip bs)).
Proof.
  intros Hok. destruct (hdr_lax_prefix bs et Hok) as (P1 & P2 & P3).
  destruct (pwire_rej_no_transport bs et) as (N1 & N2 & N3). split; [|split].
  - intros H14. apply hdr_prefix_ok_weaken; [exact N1|now apply P1].
  - apply hdr_prefix_ok_weaken; [exact N2|exact P2].
  - intros HF. apply hdr_prefix_ok_weaken; [exact N3|now apply P3].
Qed.
