(* Parse/LaxWireProofs.v -- the lax slicing model (LaxSlices.v, LaxCursor.v) computes the lax
   reference decoding of LaxWire.v for every byte string: under the representation invariant
   `repr` (every slice handed down is a window of the buffer) each lax function returns Ok and
   its observer view is the reference function's value.  Corollary: the lax model never
   returns Bug. *)
From EP Require Import Base.Bytes Parse.Types Parse.Slices Parse.Cursor Parse.View Parse.WireSpec Parse.Repr
  Parse.StrictProofs Parse.LaxSlices Parse.LaxCursor Parse.LaxView Parse.LaxProofs Parse.LaxFacts
  Parse.LaxWire.
From Coq Require Import ZArith Lia ZifyN ZifyBool.
Local Open Scope N_scope.

(* ---- views of result updates ------------------------------------------------ *)
Lemma lview_with_stop r e : lview (L.with_stop r e) = lstop (lview r) e.
Proof. reflexivity. Qed.
Lemma lview_with_opt_stop r e : lview (L.with_opt_stop r e) = lstop_opt (lview r) e.
Proof. destruct e; reflexivity. Qed.
Lemma lview_with_net r n : lview (L.with_net r n) = lwith_net (lview r) (lview_net n).
Proof. reflexivity. Qed.
Lemma lview_with_transport r t : lview (L.with_transport r t) = lwith_tr (lview r) (view_tr t).
Proof. reflexivity. Qed.
Lemma lhas_stop_view r : lhas_stop (lview r) = L.has_stop r.
Proof. reflexivity. Qed.

Lemma fix_len_slice req a ly off src :
  L.fix_len (mkLenError req a LsSlice ly 0) off src = mkLenError req a src ly off.
Proof. unfold L.fix_len, le_add_offset, le_set_src. cbn. now rewrite N.add_0_l. Qed.

(* ---- transport ---------------------------------------------------------------- *)
Section LTransport.
  Variables (bs : bytes) (lc : lax_cursor) (p : lax_ip_payload) (pos lim : N).
  Hypothesis Hok : bytes_ok bs.
  Hypothesis R : repr bs (lipp_slice p) pos lim.
  Hypothesis Hoff : lc_offset lc = pos.

  Ltac fin_cut :=
    cbn [lvres_of]; rewrite lview_with_stop; unfold lerr; rewrite ?fix_len_slice, ?Hoff; reflexivity.
  Ltac fin_ok R :=
    match type of R with
    | repr ?bs ?s ?pos ?lim =>
        cbn [lvres_of]; rewrite lview_with_transport; cbn [view_tr];
        rewrite (repr_win bs s pos lim R); reflexivity
    end.

  Lemma l_icmp4_eq :
    lvres_of
      (match Icmpv4Slice.from_slice (lipp_slice p) with
       | Ok icmp => Ok (L.with_transport (lc_result lc) (TrIcmpv4 icmp))
       | Err (ELen e) => Ok (L.with_stop (lc_result lc) (ELen (L.fix_len e (lc_offset lc) (lipp_src p)), LyIcmpv4))
       | Err (EContent _) => Bug SITE_UNWRAP
       | Bug b => Bug b
       end) = LVOk (lwire_icmp4 bs (lview (lc_result lc)) (lipp_src p) pos lim).
  Proof.
    unfold Icmpv4Slice.from_slice, lwire_icmp4, lcut, lerr. rewrite (repr_len _ _ _ _ R).
    destruct (lim - pos <? 8) eqn:E8; [fin_cut|].
    rd8 R 0. rd8 R 1. rewrite N.add_0_r.
    rewrite (N.eqb_sym 0 (B bs (pos + 1))), (N.eqb_sym 20 (lim - pos)).
    destruct ((B bs pos =? 13) && (B bs (pos + 1) =? 0) && negb (lim - pos =? 20)) eqn:E13; [fin_cut|].
    destruct ((B bs pos =? 14) && (B bs (pos + 1) =? 0) && negb (lim - pos =? 20)) eqn:E14; [fin_cut|].
    fin_ok R.
  Qed.

  Lemma l_icmp6_eq :
    lvres_of
      (match Icmpv6Slice.from_slice (lipp_slice p) with
       | Ok icmp => Ok (L.with_transport (lc_result lc) (TrIcmpv6 icmp))
       | Err (ELen e) => Ok (L.with_stop (lc_result lc) (ELen (L.fix_len e (lc_offset lc) (lipp_src p)), LyIcmpv6))
       | Err (EContent _) => Bug SITE_UNWRAP
       | Bug b => Bug b
       end) = LVOk (lwire_icmp6 (lview (lc_result lc)) (lipp_src p) pos lim).
  Proof.
    unfold Icmpv6Slice.from_slice, Icmpv6Slice.MAX_LEN, lwire_icmp6, lcut, lerr. rewrite (repr_len _ _ _ _ R).
    destruct (lim - pos <? 8) eqn:E8; [fin_cut|].
    destruct (4294967295 <? lim - pos) eqn:Em; [fin_cut|].
    fin_ok R.
  Qed.

  Lemma l_udp_eq :
    lvres_of
      (match UdpSlice.from_slice_lax (lipp_slice p) with
       | Ok udp => Ok (L.with_transport (lc_result lc) (TrUdp udp))
       | Err (ELen e) => Ok (L.with_stop (lc_result lc) (ELen (L.fix_len e (lc_offset lc) (lipp_src p)), LyUdpHeader))
       | Err (EContent _) => Bug SITE_UNWRAP
       | Bug b => Bug b
       end) = LVOk (lwire_udp bs (lview (lc_result lc)) (lipp_src p) pos lim).
  Proof.
    unfold UdpSlice.from_slice_lax, UdpSlice.header_from_slice, UdpSlice.length, lwire_udp, lcut, lerr.
    rewrite (repr_len _ _ _ _ R).
    destruct (lim - pos <? 8) eqn:E8; [cbn [bind]; fin_cut|].
    get_prefix R 8 h Eh Rh. rewrite Eh. cbn [bind]. rd16 Rh 4.
    destruct ((lim - pos <? W bs (pos + 4)) || (W bs (pos + 4) <? 8)) eqn:El; [fin_ok R|].
    get_prefix R (W bs (pos + 4)) u Eu Ru. rewrite Eu.
    cbn [lvres_of]. rewrite lview_with_transport. cbn [view_tr].
    rewrite (repr_win _ _ _ _ Ru). repeat f_equal. lia.
  Qed.

  Lemma l_tcp_eq :
    lvres_of
      (match TcpSlice.from_slice (lipp_slice p) with
       | Ok tcp => Ok (L.with_transport (lc_result lc) (TrTcp (fst tcp) (snd tcp)))
       | Err (ELen e) => Ok (L.with_stop (lc_result lc) (ELen (L.fix_len e (lc_offset lc) (lipp_src p)), LyTcpHeader))
       | Err (EContent ce) => Ok (L.with_stop (lc_result lc) (EContent ce, LyTcpHeader))
       | Bug b => Bug b
       end) = LVOk (lwire_tcp bs (lview (lc_result lc)) (lipp_src p) pos lim).
  Proof.
    unfold TcpSlice.from_slice, lwire_tcp, lcut, lerr. rewrite (repr_len _ _ _ _ R).
    destruct (lim - pos <? 20) eqn:E20; [fin_cut|].
    rd8 R 12. pose proof (B_lt bs (pos + 12) Hok) as Hb.
    rewrite (tcp_hl_bits _ Hb).
    assert (Hd : (B bs (pos + 12) / 16 * 4 <? 20) = (B bs (pos + 12) / 16 <? 5)).
    { destruct (B bs (pos + 12) / 16 <? 5) eqn:E; lia. }
    rewrite Hd.
    destruct (B bs (pos + 12) / 16 <? 5) eqn:E5.
    { cbn [lvres_of]. rewrite lview_with_stop. now rewrite (tcp_do_bits _ Hb). }
    destruct (lim - pos <? B bs (pos + 12) / 16 * 4) eqn:El; [fin_cut|].
    cbn [fst snd]. fin_ok R.
  Qed.

  Lemma l_transport_eq :
    lvres_of (L.slice_transport lc p) =
    LVOk (lwire_transport bs (lview (lc_result lc)) (lipp_number p) (lipp_fragmented p)
            (lipp_src p) pos lim).
  Proof.
    unfold L.slice_transport, lwire_transport. rewrite lhas_stop_view.
    destruct (lipp_fragmented p || L.has_stop (lc_result lc)); [reflexivity|].
    change IPN_ICMP with 1. change IPN_UDP with 17. change IPN_TCP with 6. change IPN_ICMPV6 with 58.
    destruct (lipp_number p =? 1); [apply l_icmp4_eq|].
    destruct (lipp_number p =? 17); [apply l_udp_eq|].
    destruct (lipp_number p =? 6); [apply l_tcp_eq|].
    destruct (lipp_number p =? 58); [apply l_icmp6_eq|].
    reflexivity.
  Qed.
End LTransport.

(* ---- error fix-ups in absolute terms ------------------------------------------- *)
Lemma fix_rel_len req a s0 ly off0 k pos psrc csrc :
  L.fix_len (le_add_offset (le_set_src (mkLenError req a s0 ly off0) psrc) k) pos csrc
  = mkLenError req a (pick_src psrc csrc) ly (off0 + k + pos).
Proof.
  unfold L.fix_len, le_add_offset, le_set_src, pick_src. cbn.
  destruct (is_slice_src psrc); reflexivity.
Qed.

Lemma fix_len_id l : L.fix_len l 0 LsSlice = l.
Proof.
  destruct l as [r a s ly o]. unfold L.fix_len, le_add_offset, le_set_src. cbn.
  rewrite N.add_0_r. destruct s; reflexivity.
Qed.

(* a stop error of the extension walk (offset relative to `base`, length source not yet
   known) in absolute terms *)
Definition abs_stop (esrc : len_source) (base : N) (e : stop_error) : stop_error :=
  match e with
  | (ELen l, ly) =>
      (ELen (mkLenError (le_required l) (le_len l) esrc (le_layer l) (le_off l + base)), ly)
  | (EContent c, ly) =>
      (EContent (match c with CeHopByHopNotAtStart => c | _ => CeIpv6AuthZeroPayloadLen end), ly)
  end.

(* ---- IPv4 ------------------------------------------------------------------------ *)
Definition wrap4_stop (st : option slice_error) : option stop_error :=
  match st with
  | Some (ELen l) => Some (ELen l, LyIpAuthHeader)
  | Some (EContent _) => Some (EContent CeIpv6AuthZeroPayloadLen, LyIpAuthHeader)
  | None => None
  end.

Lemma l_v4_finish bs header hp pos hl lim' psrc inc csrc :
  bytes_ok bs -> repr bs header pos (pos + hl) -> repr bs hp (pos + hl) lim' -> 20 <= hl ->
  exists v st, LaxIpv4Slice.finish header hp psrc inc = Ok (v, st) /\
    let '(net, pl, st', l') := lwire_ipv4_parts bs csrc pos hl lim' psrc inc in
    lview_v4 v = net /\ lview_ipp (lv4_payload v) = pl /\
    option_map (L.conv_ext_stop true (fun l => L.fix_len l pos csrc)) (wrap4_stop st) = st' /\
    repr bs (lipp_slice (lv4_payload v)) (fst (lvip_win pl)) l' /\ pos <= fst (lvip_win pl).
Proof.
  intros Hok Rh Rp Hhl. pose proof Rp as (_ & Hp1 & Hp2).
  unfold LaxIpv4Slice.finish, lwire_ipv4_parts.
  rewrite (ipv4_frag_eq bs header pos hl Hok Rh Hhl). cbn [bind].
  unfold Ipv4HeaderSlice.protocol. rd8 Rh 9. change IPN_AUTH with 51.
  destruct (B bs (pos + 9) =? 51) eqn:Eah.
  - rewrite (ah_eq bs hp (pos + hl) lim' Rp). unfold ah_dec, lerr.
    rewrite (repr_len _ _ _ _ Rh). replace (pos + hl - pos) with hl by lia.
    destruct (lim' - (pos + hl) <? 12) eqn:E12.
    { eexists _, _. split; [reflexivity|]. unfold lview_v4, lview_ipp. cbn.
      rewrite (repr_win _ _ _ _ Rh), (repr_win _ _ _ _ Rp). replace (pos + hl - pos) with hl by lia.
      split; [reflexivity|]. split; [reflexivity|]. split; [|split; [exact Rp|lia]].
      rewrite fix_rel_len. replace (0 + hl + pos) with (pos + hl) by lia. reflexivity. }
    destruct (B bs (pos + hl + 1) =? 0) eqn:Ez.
    { eexists _, _. split; [reflexivity|]. unfold lview_v4, lview_ipp. cbn.
      rewrite (repr_win _ _ _ _ Rh), (repr_win _ _ _ _ Rp). replace (pos + hl - pos) with hl by lia.
      split; [reflexivity|]. split; [reflexivity|]. split; [reflexivity|split; [exact Rp|lia]]. }
    destruct (lim' - (pos + hl) <? (B bs (pos + hl + 1) + 2) * 4) eqn:El.
    { eexists _, _. split; [reflexivity|]. unfold lview_v4, lview_ipp. cbn.
      rewrite (repr_win _ _ _ _ Rh), (repr_win _ _ _ _ Rp). replace (pos + hl - pos) with hl by lia.
      split; [reflexivity|]. split; [reflexivity|]. split; [|split; [exact Rp|lia]].
      rewrite fix_rel_len. replace (0 + hl + pos) with (pos + hl) by lia. reflexivity. }
    set (l := (B bs (pos + hl + 1) + 2) * 4) in *.
    get_prefix Rp l auth Ea Ra. rewrite Ea.
    rewrite (repr_len _ _ _ _ Rp), (repr_len _ _ _ _ Ra).
    replace (pos + hl + l - (pos + hl)) with l by lia.
    assert (Hl' : l <= lim' - (pos + hl)) by lia.
    destruct (repr_rest bs hp (pos + hl) lim' l Rp Hl') as (pl & Epl & Rpl).
    rewrite subN_ok by lia. cbn [bind]. rewrite Epl. cbn [bind].
    unfold IpAuthHeaderSlice.next_header. rd8 Ra 0. rewrite N.add_0_r.
    eexists _, _. split; [reflexivity|]. unfold lview_v4, lview_ipp. cbn.
    rewrite (repr_win _ _ _ _ Rh), (repr_win _ _ _ _ Ra), (repr_win _ _ _ _ Rpl).
    replace (pos + hl - pos) with hl by lia. replace (pos + hl + l - (pos + hl)) with l by lia.
    split; [reflexivity|]. split; [reflexivity|]. split; [reflexivity|split; [exact Rpl|lia]].
  - eexists _, _. split; [reflexivity|]. unfold lview_v4, lview_ipp. cbn.
    rewrite (repr_win _ _ _ _ Rh), (repr_win _ _ _ _ Rp). replace (pos + hl - pos) with hl by lia.
    split; [reflexivity|]. split; [reflexivity|]. split; [reflexivity|split; [exact Rp|lia]].
Qed.

(* ---- IPv6 extension chain ----------------------------------------------------------- *)
Lemma l_chain_eq bs (Hok : bytes_ok bs) esrc pos0 lim fuel :
  forall rest pos nh frag,
    repr bs rest pos lim -> pos0 <= pos -> (N.to_nat (lim - pos) < fuel)%nat ->
    exists rest' e next fr st,
      LaxIpv6Exts.walk fuel (lim - pos0) rest nh frag = Ok (rest', next, fr, st) /\
      lwire_chain bs fuel esrc pos lim nh frag = (e, next, fr, option_map (abs_stop esrc pos0) st) /\
      repr bs rest' e lim /\ pos <= e.
Proof.
  induction fuel as [|f IH]; intros rest pos nh frag R Hp Hf; [lia|].
  pose proof R as (_ & HR1 & HR2).
  cbn [LaxIpv6Exts.walk lwire_chain].
  change IPN_HOP_BY_HOP with 0. change IPN_DEST_OPTIONS with 60. change IPN_ROUTE with 43.
  change IPN_FRAG with 44. change IPN_AUTH with 51.
  assert (Hoff : subN (lim - pos0) (s_len rest) = Ok (pos - pos0)).
  { rewrite (repr_len _ _ _ _ R). rewrite subN_ok by lia. f_equal. lia. }
  destruct (nh =? 0) eqn:E0.
  { eexists rest, pos, nh, frag, _. split; [reflexivity|]. split; [reflexivity|]. split; [exact R|lia]. }
  destruct ((nh =? 60) || (nh =? 43)) eqn:Eraw.
  { rewrite (raw_ext_eq bs rest pos lim R). unfold lerr.
    destruct (lim - pos <? 8) eqn:E8.
    { rewrite Hoff. cbn [bind]. eexists rest, pos, nh, frag, _. split; [reflexivity|].
      split; [|split; [exact R|lia]]. cbn. replace (0 + (pos - pos0) + pos0) with pos by lia. reflexivity. }
    destruct (lim - pos <? (B bs (pos + 1) + 1) * 8) eqn:El.
    { rewrite Hoff. cbn [bind]. eexists rest, pos, nh, frag, _. split; [reflexivity|].
      split; [|split; [exact R|lia]]. cbn. replace (0 + (pos - pos0) + pos0) with pos by lia. reflexivity. }
    set (l := (B bs (pos + 1) + 1) * 8) in *.
    get_prefix R l h Eh Rh. rewrite Eh.
    rewrite (repr_len _ _ _ _ R), (repr_len _ _ _ _ Rh). replace (pos + l - pos) with l by lia.
    rewrite subN_ok by lia. cbn [bind].
    assert (Hl : l <= lim - pos) by lia.
    destruct (repr_rest bs rest pos lim l R Hl) as (r' & Er & Rr). rewrite Er. cbn [bind].
    unfold Ipv6RawExtHeaderSlice.next_header. rd8 Rh 0. rewrite N.add_0_r.
    assert (L8 : 8 <= l) by (subst l; lia).
    destruct (IH r' (pos + l) (B bs pos) frag Rr ltac:(lia) ltac:(lia)) as (rest' & e & nx & fr & st & A1 & A2 & A3 & A4).
    exists rest', e, nx, fr, st. split; [exact A1|]. split; [exact A2|]. split; [exact A3|lia]. }
  destruct (nh =? 44) eqn:Efrag.
  { unfold Ipv6FragmentHeaderSlice.from_slice, lerr. rewrite (repr_len _ _ _ _ R).
    destruct (lim - pos <? 8) eqn:E8.
    { rewrite <- (repr_len _ _ _ _ R), Hoff. cbn [bind]. eexists rest, pos, nh, frag, _. split; [reflexivity|].
      split; [|split; [exact R|lia]]. cbn. rewrite (repr_len _ _ _ _ R).
      replace (0 + (pos - pos0) + pos0) with pos by lia. reflexivity. }
    get_prefix R 8 h Eh Rh. rewrite Eh.
    rewrite (repr_len _ _ _ _ Rh). replace (pos + 8 - pos) with 8 by lia.
    rewrite subN_ok by lia. cbn [bind].
    assert (Hl : 8 <= lim - pos) by lia.
    destruct (repr_rest bs rest pos lim 8 R Hl) as (r' & Er & Rr). rewrite Er. cbn [bind].
    unfold Ipv6FragmentHeaderSlice.next_header. rd8 Rh 0. rewrite N.add_0_r.
    unfold Ipv6FragmentHeaderSlice.is_fragmenting_payload,
      Ipv6FragmentHeaderSlice.more_fragments, Ipv6FragmentHeaderSlice.fragment_offset.
    rd8 Rh 3. rd8 Rh 2.
    assert (Efr : negb (N.land (B bs (pos + 3)) 1 =? 0)
                  || negb (N.shiftr (be16 (B bs (pos + 2)) (B bs (pos + 3))) 3 =? 0)
                  = negb (B bs (pos + 3) mod 2 =? 0) || negb (W bs (pos + 2) / 8 =? 0)).
    { f_equal.
      - change 1 with (N.ones 1). now rewrite N.land_ones.
      - rewrite N.shiftr_div_pow2. unfold W, be16.
        replace (pos + 2 + 1) with (pos + 3) by lia. reflexivity. }
    rewrite Efr.
    destruct (IH r' (pos + 8) (B bs pos)
      (frag || (negb (B bs (pos + 3) mod 2 =? 0) || negb (W bs (pos + 2) / 8 =? 0)))
      Rr ltac:(lia) ltac:(lia)) as (rest' & e & nx & fr & st & A1 & A2 & A3 & A4).
    exists rest', e, nx, fr, st. split; [exact A1|]. split; [exact A2|]. split; [exact A3|lia]. }
  destruct (nh =? 51) eqn:Eauth.
  { rewrite (ah_eq bs rest pos lim R). unfold ah_dec, lerr.
    destruct (lim - pos <? 12) eqn:E12.
    { rewrite Hoff. cbn [bind]. eexists rest, pos, nh, frag, _. split; [reflexivity|].
      split; [|split; [exact R|lia]]. cbn. replace (0 + (pos - pos0) + pos0) with pos by lia. reflexivity. }
    destruct (B bs (pos + 1) =? 0) eqn:Ez.
    { eexists rest, pos, nh, frag, _. split; [reflexivity|]. split; [reflexivity|]. split; [exact R|lia]. }
    destruct (lim - pos <? (B bs (pos + 1) + 2) * 4) eqn:El.
    { rewrite Hoff. cbn [bind]. eexists rest, pos, nh, frag, _. split; [reflexivity|].
      split; [|split; [exact R|lia]]. cbn. replace (0 + (pos - pos0) + pos0) with pos by lia. reflexivity. }
    set (l := (B bs (pos + 1) + 2) * 4) in *.
    get_prefix R l h Eh Rh. rewrite Eh.
    rewrite (repr_len _ _ _ _ R), (repr_len _ _ _ _ Rh). replace (pos + l - pos) with l by lia.
    rewrite subN_ok by lia. cbn [bind].
    assert (Hl : l <= lim - pos) by lia.
    destruct (repr_rest bs rest pos lim l R Hl) as (r' & Er & Rr). rewrite Er. cbn [bind].
    unfold IpAuthHeaderSlice.next_header. rd8 Rh 0. rewrite N.add_0_r.
    assert (L8 : 8 <= l) by (subst l; lia).
    destruct (IH r' (pos + l) (B bs pos) frag Rr ltac:(lia) ltac:(lia)) as (rest' & e & nx & fr & st & A1 & A2 & A3 & A4).
    exists rest', e, nx, fr, st. split; [exact A1|]. split; [exact A2|]. split; [exact A3|lia]. }
  eexists rest, pos, nh, frag, None. split; [reflexivity|]. split; [reflexivity|]. split; [exact R|lia].
Qed.

Lemma l_exts_eq bs (Hok : bytes_ok bs) esrc s pos lim nh :
  repr bs s pos lim ->
  exists x rest e next fr st,
    LaxIpv6Exts.from_slice_lax nh s = Ok (x, next, rest, st) /\
    lwire_exts bs (S (N.to_nat (lim - pos))) esrc pos lim nh
      = (e, next, fr, option_map (abs_stop esrc pos) st) /\
    repr bs rest e lim /\ pos <= e /\ repr bs (x6_slice x) pos e /\ x6_fragmented x = fr /\
    x6_first x = (if e =? pos then None else Some nh).
Proof.
  intros R. pose proof R as (_ & HR1 & HR2).
  unfold LaxIpv6Exts.from_slice_lax, lwire_exts.
  change IPN_HOP_BY_HOP with 0. rewrite (N.eqb_sym 0 nh).
  rewrite (repr_length _ _ _ _ R), (repr_len _ _ _ _ R).
  (* the end game, given the (rest, next header, fragmented, error) the loop stopped with *)
  assert (End : forall rest' e (next : N) (fr : bool) (st : option stop_error),
             repr bs rest' e lim -> pos <= e ->
             exists x,
               (let* used := subN (lim - pos) (s_len rest') in
                let* sl := (if used <=? lim - pos then Ok (fst s, take used (snd s)) else Bug SITE_INDEX) in
                Ok (mkIpv6Exts (if negb (s_len rest' =? lim - pos) then Some nh else None) fr sl,
                    next, rest', st)) = Ok (x, next, rest', st) /\
               repr bs (x6_slice x) pos e /\ x6_fragmented x = fr /\
               x6_first x = (if e =? pos then None else Some nh)).
  { intros rest' e next fr st RR Le. pose proof RR as (_ & Q1 & Q2).
    rewrite (repr_len _ _ _ _ RR). rewrite subN_ok by lia. cbn [bind].
    destruct (lim - pos - (lim - e) <=? lim - pos) eqn:EE; [|lia]. cbn [bind].
    eexists. split; [reflexivity|]. cbn [x6_slice x6_fragmented x6_first]. split; [|split; [reflexivity|]].
    - replace (lim - pos - (lim - e)) with (e - pos) by lia.
      pose proof (repr_sub bs s pos lim 0 (e - pos) R ltac:(lia)) as RS.
      rewrite (repr_off _ _ _ _ R : fst s = pos).
      rewrite N.add_0_r in RS. replace (pos + (e - pos)) with e in RS by lia.
      unfold drop in RS. cbn [N.to_nat skipn] in RS. exact RS.
    - destruct (e =? pos) eqn:Ee.
      + assert (e = pos) by lia. subst e. rewrite N.eqb_refl. reflexivity.
      + assert ((lim - e =? lim - pos) = false) as -> by lia. reflexivity. }
  assert (Walk : forall rest0 nh0 pos1,
             repr bs rest0 pos1 lim -> pos <= pos1 ->
             exists x rest e next fr st,
               (let* w := LaxIpv6Exts.walk (S (N.to_nat (lim - pos))) (lim - pos) rest0 nh0 false in
                let '(rest, next_header, fragmented, error) := w in
                let* used := subN (lim - pos) (s_len rest) in
                let* sl := (if used <=? lim - pos then Ok (fst s, take used (snd s)) else Bug SITE_INDEX) in
                Ok (mkIpv6Exts (if negb (s_len rest =? lim - pos) then Some nh else None) fragmented sl,
                    next_header, rest, error)) = Ok (x, next, rest, st) /\
               lwire_chain bs (S (N.to_nat (lim - pos))) esrc pos1 lim nh0 false
                 = (e, next, fr, option_map (abs_stop esrc pos) st) /\
               repr bs rest e lim /\ pos <= e /\ repr bs (x6_slice x) pos e /\ x6_fragmented x = fr /\
               x6_first x = (if e =? pos then None else Some nh)).
  { intros rest0 nh0 pos1 R0 Hp1.
    destruct (l_chain_eq bs Hok esrc pos lim (S (N.to_nat (lim - pos))) rest0 pos1 nh0 false R0 Hp1)
      as (rest' & e & nx & fr & st & A1 & A2 & A3 & A4).
    { destruct R0 as (_ & B1 & B2). lia. }
    rewrite A1. cbn [bind].
    destruct (End rest' e nx fr st A3 ltac:(lia)) as (x & X1 & X2 & X3 & X4).
    exists x, rest', e, nx, fr, st. rewrite X1. repeat (split; [assumption || reflexivity || lia|]). exact X4. }
  destruct (nh =? 0) eqn:E0.
  - rewrite (raw_ext_eq bs s pos lim R). unfold lerr.
    destruct (lim - pos <? 8) eqn:E8.
    { cbn [bind].
      destruct (End s pos nh false (Some (ELen (mkLenError 8 (lim - pos) LsSlice LyIpv6ExtHeader 0), LyIpv6HopByHopHeader)) R ltac:(lia))
        as (x & X1 & X2 & X3 & X4).
      exists x, s, pos, nh, false, (Some (ELen (mkLenError 8 (lim - pos) LsSlice LyIpv6ExtHeader 0), LyIpv6HopByHopHeader)).
      split; [exact X1|]. split; [cbn; rewrite N.add_0_l; reflexivity|].
      repeat (split; [assumption || lia|]). exact X4. }
    destruct (lim - pos <? (B bs (pos + 1) + 1) * 8) eqn:El.
    { cbn [bind].
      destruct (End s pos nh false (Some (ELen (mkLenError ((B bs (pos + 1) + 1) * 8) (lim - pos) LsSlice LyIpv6ExtHeader 0), LyIpv6HopByHopHeader)) R ltac:(lia))
        as (x & X1 & X2 & X3 & X4).
      exists x, s, pos, nh, false, (Some (ELen (mkLenError ((B bs (pos + 1) + 1) * 8) (lim - pos) LsSlice LyIpv6ExtHeader 0), LyIpv6HopByHopHeader)).
      split; [exact X1|]. split; [cbn; rewrite N.add_0_l; reflexivity|].
      repeat (split; [assumption || lia|]). exact X4. }
    set (l := (B bs (pos + 1) + 1) * 8) in *.
    get_prefix R l h Eh Rh. rewrite Eh. cbn [bind].
    rewrite (repr_len _ _ _ _ Rh). replace (pos + l - pos) with l by lia.
    destruct (l <=? lim - pos) eqn:Ell; [|lia]. cbn [bind].
    unfold Ipv6RawExtHeaderSlice.next_header. rd8 Rh 0. rewrite N.add_0_r.
    assert (Hl : l <= lim - pos) by lia.
    pose proof (repr_drop bs s pos lim l R Hl) as Rd.
    apply (Walk _ (B bs pos) (pos + l) Rd). lia.
  - cbn [bind]. apply (Walk s nh pos R). lia.
Qed.

(* ---- IPv6 ------------------------------------------------------------------------------ *)
Lemma conv_abs_stop psrc csrc pos st :
  option_map (L.conv_ext_stop false (fun l => L.fix_len l pos csrc))
    (match st with
     | Some (ELen l, ly) => Some (ELen (le_add_offset (le_set_src l psrc) 40), ly)
     | o => o
     end)
  = option_map (abs_stop (pick_src psrc csrc) (pos + 40)) st.
Proof.
  destruct st as [[[l|c] ly]|]; cbn; [| |reflexivity].
  - destruct l as [r a s0 lay o]. rewrite fix_rel_len. cbn.
    replace (o + 40 + pos) with (o + (pos + 40)) by lia. reflexivity.
  - destruct c; reflexivity.
Qed.

Lemma l_v6_finish bs header hp pos lim' psrc inc csrc :
  bytes_ok bs -> repr bs header pos (pos + 40) -> repr bs hp (pos + 40) lim' ->
  exists v st, LaxIpv6Slice.finish header hp psrc inc = Ok (v, st) /\
    let '(net, pl, st', l') := lwire_ipv6_parts bs csrc pos lim' psrc inc in
    lview_v6 v = net /\ lview_ipp (lv6_payload v) = pl /\
    option_map (L.conv_ext_stop false (fun l => L.fix_len l pos csrc)) st = st' /\
    repr bs (lipp_slice (lv6_payload v)) (fst (lvip_win pl)) l' /\ pos <= fst (lvip_win pl).
Proof.
  intros Hok Rh Rp. pose proof Rp as (_ & P1 & P2).
  unfold LaxIpv6Slice.finish, lwire_ipv6_parts, Ipv6HeaderSlice.next_header. rd8 Rh 6.
  destruct (l_exts_eq bs Hok (pick_src psrc csrc) hp (pos + 40) lim' (B bs (pos + 6)) Rp)
    as (x & rest & e & nx & fr & st & A1 & A2 & A3 & A4 & A5 & A6 & A7).
  rewrite A1, A2. cbn [bind].
  eexists _, _. split; [reflexivity|]. unfold lview_v6, lview_ipp. cbn.
  rewrite (repr_win _ _ _ _ Rh), (repr_win _ _ _ _ A5), (repr_win _ _ _ _ A3), A6, A7.
  replace (pos + 40 - pos) with 40 by lia.
  split; [reflexivity|]. split; [reflexivity|]. split; [apply conv_abs_stop|split; [exact A3|lia]].
Qed.

(* ---- LaxIpSlice under the representation invariant ---------------------------------------- *)
(* what the two callers do to an error of the header *)
Definition fix_hdr_err (csrc : len_source) (pos : N) (e : slice_error) : slice_error :=
  match e with
  | ELen l => ELen (L.fix_len l pos csrc)
  | EContent c => EContent c
  end.

Lemma l_ipslice_err bs s pos lim csrc e :
  repr bs s pos lim -> ip_hdr_fault bs csrc pos lim = Some e ->
  exists e0, LaxIpSlice.from_slice s = Err e0 /\ fix_hdr_err csrc pos e0 = e.
Proof.
  intros R. pose proof R as (_ & HR1 & HR2).
  unfold ip_hdr_fault, LaxIpSlice.from_slice, lerr. rewrite (repr_len _ _ _ _ R).
  destruct (lim - pos =? 0) eqn:E0.
  { intros H. injection H as <-. eexists. split; [reflexivity|]. cbn [fix_hdr_err]. now rewrite fix_len_slice. }
  rd8 R 0. rewrite N.add_0_r, shr4_div16, land15_mod.
  destruct (B bs pos / 16 =? 4) eqn:E4.
  { destruct (B bs pos mod 16 <? 5) eqn:Ei.
    { intros H. injection H as <-. eexists. split; reflexivity. }
    destruct (lim - pos <? B bs pos mod 16 * 4) eqn:Eh; [|discriminate].
    intros H. injection H as <-. eexists. split; [reflexivity|]. cbn [fix_hdr_err]. now rewrite fix_len_slice. }
  destruct (B bs pos / 16 =? 6) eqn:E6.
  { destruct (lim - pos <? 40) eqn:E40; [|discriminate].
    intros H. injection H as <-. eexists. split; [reflexivity|]. cbn [fix_hdr_err]. now rewrite fix_len_slice. }
  intros H. injection H as <-. eexists. split; reflexivity.
Qed.

Lemma l_ipslice_ok bs s pos lim csrc :
  bytes_ok bs -> repr bs s pos lim -> ip_hdr_fault bs csrc pos lim = None ->
  exists ip st, LaxIpSlice.from_slice s = Ok (ip, st) /\
    let '(net, pl, st', lim') := lwire_ip_parts bs csrc pos lim in
    lview_net (L.net_of_ip ip) = net /\ lview_ipp (LaxIpSlice.payload ip) = pl /\
    option_map (L.conv_ext_stop (L.is_v4 ip) (fun l => L.fix_len l pos csrc)) st = st' /\
    repr bs (lipp_slice (LaxIpSlice.payload ip)) (fst (lvip_win pl)) lim' /\ pos <= fst (lvip_win pl).
Proof.
  intros Hok R. pose proof R as (_ & HR1 & HR2).
  unfold ip_hdr_fault, LaxIpSlice.from_slice, lwire_ip_parts, lerr. rewrite (repr_len _ _ _ _ R).
  destruct (lim - pos =? 0) eqn:E0; [discriminate|].
  rd8 R 0. rewrite N.add_0_r, shr4_div16, land15_mod.
  destruct (B bs pos / 16 =? 4) eqn:E4.
  - destruct (B bs pos mod 16 <? 5) eqn:Ei; [discriminate|].
    set (hl := B bs pos mod 16 * 4) in *.
    destruct (lim - pos <? hl) eqn:Eh; [discriminate|]. intros _.
    assert (Hhl : 20 <= hl) by (subst hl; lia).
    get_prefix R hl header Ehd Rhd. rewrite Ehd. cbn [bind].
    unfold Ipv4HeaderSlice.total_len. rd16 Rhd 2.
    unfold LaxIpv4Slice.select_payload. rewrite (repr_len _ _ _ _ R).
    assert (Fin : forall hp lim' psrc inc, repr bs hp (pos + hl) lim' ->
      exists ip st,
        (let* r := LaxIpv4Slice.finish header hp psrc inc in
         let '(v, stop) := r in
         Ok (LIpV4 v,
             match stop with
             | Some (ELen l) => Some (ELen l, LyIpAuthHeader)
             | Some (EContent _) => Some (EContent CeIpv6AuthZeroPayloadLen, LyIpAuthHeader)
             | None => None
             end)) = Ok (ip, st) /\
        let '(net, pl, st', l') := lwire_ipv4_parts bs csrc pos hl lim' psrc inc in
        lview_net (L.net_of_ip ip) = net /\ lview_ipp (LaxIpSlice.payload ip) = pl /\
        option_map (L.conv_ext_stop (L.is_v4 ip) (fun l => L.fix_len l pos csrc)) st = st' /\
        repr bs (lipp_slice (LaxIpSlice.payload ip)) (fst (lvip_win pl)) l' /\ pos <= fst (lvip_win pl)).
    { intros hp lim' psrc inc Rhp.
      destruct (l_v4_finish bs header hp pos hl lim' psrc inc csrc Hok Rhd Rhp Hhl) as (v & st & E & F).
      rewrite E. cbn [bind]. eexists _, _. split; [reflexivity|]. exact F. }
    destruct (W bs (pos + 2) <? hl) eqn:Et.
    { rewrite subN_ok by lia. cbn [bind].
      assert (Hh : hl <= lim - pos) by lia.
      destruct (repr_rest bs s pos lim hl R Hh) as (hp & Ehp & Rhp). rewrite Ehp. cbn [bind].
      apply Fin. exact Rhp. }
    destruct (lim - pos <? W bs (pos + 2)) eqn:Et2.
    { rewrite subN_ok by lia. cbn [bind].
      assert (Hh : hl <= lim - pos) by lia.
      destruct (repr_rest bs s pos lim hl R Hh) as (hp & Ehp & Rhp). rewrite Ehp. cbn [bind].
      apply Fin. exact Rhp. }
    rewrite subN_ok by lia. cbn [bind].
    get_sub R hl (W bs (pos + 2) - hl) hp Ehp Rhp. rewrite Ehp. cbn [bind].
    replace (pos + hl + (W bs (pos + 2) - hl)) with (pos + W bs (pos + 2)) in Rhp by lia.
    apply Fin. exact Rhp.
  - destruct (B bs pos / 16 =? 6) eqn:E6; [|discriminate].
    destruct (lim - pos <? 40) eqn:E40; [discriminate|]. intros _.
    get_prefix R 40 header Eh Rh. rewrite Eh. cbn [bind].
    unfold Ipv6HeaderSlice.payload_length. rd16 Rh 4.
    rewrite (N.eqb_sym 0 (W bs (pos + 4))).
    assert (Fin : forall hp lim' psrc inc, repr bs hp (pos + 40) lim' ->
      exists ip st,
        (let* r := LaxIpv6Slice.finish header hp psrc inc in
         let '(v, stop) := r in Ok (LIpV6 v, stop)) = Ok (ip, st) /\
        let '(net, pl, st', l') := lwire_ipv6_parts bs csrc pos lim' psrc inc in
        lview_net (L.net_of_ip ip) = net /\ lview_ipp (LaxIpSlice.payload ip) = pl /\
        option_map (L.conv_ext_stop (L.is_v4 ip) (fun l => L.fix_len l pos csrc)) st = st' /\
        repr bs (lipp_slice (LaxIpSlice.payload ip)) (fst (lvip_win pl)) l' /\ pos <= fst (lvip_win pl)).
    { intros hp lim' psrc inc Rhp.
      destruct (l_v6_finish bs header hp pos lim' psrc inc csrc Hok Rh Rhp) as (v & st & E & F).
      rewrite E. cbn [bind]. eexists _, _. split; [reflexivity|]. exact F. }
    destruct ((W bs (pos + 4) =? 0) && (40 <? lim - pos)) eqn:Ez.
    { rewrite subN_ok by lia. cbn [bind].
      assert (H40 : 40 <= lim - pos) by lia.
      destruct (repr_rest bs s pos lim 40 R H40) as (hp & Ehp & Rhp). rewrite Ehp. cbn [bind].
      apply Fin. exact Rhp. }
    rewrite subN_ok by lia. cbn [bind].
    assert ((lim - pos - 40 <? W bs (pos + 4)) = (lim - pos <? 40 + W bs (pos + 4))) as -> by lia.
    destruct (lim - pos <? 40 + W bs (pos + 4)) eqn:El.
    { assert (H40 : 40 <= lim - pos) by lia.
      destruct (repr_rest bs s pos lim 40 R H40) as (hp & Ehp & Rhp). rewrite Ehp. cbn [bind].
      apply Fin. exact Rhp. }
    get_sub R 40 (W bs (pos + 4)) hp Ehp Rhp. rewrite Ehp. cbn [bind].
    apply Fin. exact Rhp.
Qed.

(* ---- slice_ip --------------------------------------------------------------------------- *)
Lemma l_ip_tail_eq bs (Hok : bytes_ok bs) r off csrc' s pos ip st lp fx csrc lim :
  repr bs s pos lim -> off = pos -> lview r = lp ->
  (let '(net, pl, st', lim') := lwire_ip_parts bs csrc pos lim in
   lview_net (L.net_of_ip ip) = net /\ lview_ipp (LaxIpSlice.payload ip) = pl /\
   option_map (L.conv_ext_stop (L.is_v4 ip) fx) st = st' /\
   repr bs (lipp_slice (LaxIpSlice.payload ip)) (fst (lvip_win pl)) lim' /\ pos <= fst (lvip_win pl)) ->
  lvres_of
    (let r2 := L.with_opt_stop (L.with_net r (L.net_of_ip ip))
                 (option_map (L.conv_ext_stop (L.is_v4 ip) fx) st) in
     let payload := LaxIpSlice.payload ip in
     let* d := L.ptr_diff (lipp_slice payload) s in
     L.slice_transport (mkLaxCursor (off + d) (csrc' payload) r2) payload)
  = LVOk (lwire_ip_body bs lp csrc pos lim).
Proof.
  intros R -> <- F. unfold lwire_ip_body.
  destruct (lwire_ip_parts bs csrc pos lim) as [[[net pl] st'] lim'].
  destruct F as (F1 & F2 & F3 & F4 & F5). cbv zeta.
  unfold L.ptr_diff. rewrite (repr_off _ _ _ _ F4), (repr_off _ _ _ _ R).
  rewrite subN_ok by lia. cbn [bind].
  rewrite (l_transport_eq bs _ _ (fst (lvip_win pl)) lim' Hok F4) by (cbn [lc_offset]; lia).
  cbn [lc_result]. rewrite lview_with_opt_stop, lview_with_net, F1, F3. rewrite <- F2. reflexivity.
Qed.

Lemma l_slice_ip_eq bs lc s pos lim :
  bytes_ok bs -> repr bs s pos lim -> lc_offset lc = pos ->
  lvres_of (L.slice_ip lc s) = LVOk (lwire_ip bs (lview (lc_result lc)) (lc_src lc) pos lim).
Proof.
  intros Hok R Hoff. unfold L.slice_ip, lwire_ip.
  destruct (ip_hdr_fault bs (lc_src lc) pos lim) as [e|] eqn:HF.
  - destruct (l_ipslice_err bs s pos lim (lc_src lc) e R HF) as (e0 & E & Fx). rewrite E.
    destruct e0 as [l|c]; cbn [fix_hdr_err] in Fx; subst e; cbn [lvres_of];
      rewrite lview_with_stop, ?Hoff; reflexivity.
  - destruct (l_ipslice_ok bs s pos lim (lc_src lc) Hok R HF) as (ip & st & E & F). rewrite E.
    apply (l_ip_tail_eq bs Hok (lc_result lc) (lc_offset lc)
             (fun payload => if is_slice_src (lipp_src payload) then lc_src lc else lipp_src payload)
             s pos ip st _ (fun l => L.fix_len l (lc_offset lc) (lc_src lc)) (lc_src lc) lim R Hoff eq_refl).
    rewrite Hoff. exact F.
Qed.

(* ---- ARP ----------------------------------------------------------------------------------- *)
Lemma l_slice_arp_eq bs lc s pos lim :
  bytes_ok bs -> repr bs s pos lim -> lc_offset lc = pos ->
  lvres_of (L.slice_arp lc s) = LVOk (lwire_arp bs (lview (lc_result lc)) (lc_src lc) pos lim).
Proof.
  intros Hok R Hoff. unfold L.slice_arp, ArpPacketSlice.from_slice, lwire_arp, lcut, lerr.
  rewrite (repr_len _ _ _ _ R).
  destruct (lim - pos <? 8) eqn:E8.
  { cbn [lvres_of]. rewrite lview_with_stop, fix_len_slice, Hoff. reflexivity. }
  rd8 R 4. rd8 R 5.
  set (l := 8 + B bs (pos + 4) * 2 + B bs (pos + 5) * 2) in *.
  destruct (lim - pos <? l) eqn:El.
  - cbn [lvres_of]. rewrite lview_with_stop. unfold L.fix_len, le_add_offset, le_set_src. cbn.
    rewrite Hoff, N.add_0_l. reflexivity.
  - get_prefix R l a Ea Ra. rewrite Ea. cbn [lvres_of]. rewrite lview_with_net. cbn [lview_net].
    rewrite (repr_win _ _ _ _ Ra). replace (pos + l - pos) with l by lia. reflexivity.
Qed.

(* ---- LaxMacsecSlice in closed form -------------------------------------------------------- *)
Section LaxMacsecSpec.
  Variables (bs : bytes) (s : slice) (pos lim : N).
  Hypothesis Hok : bytes_ok bs.
  Hypothesis R : repr bs s pos lim.

  Let tci := B bs pos.
  Let sl := B bs (pos + 1) mod 64.
  Let unmod := (tci / 4) mod 4 =? 0.
  Let sc := negb ((tci / 32) mod 2 =? 0).
  Let hl := 6 + (if unmod then 2 else 0) + (if sc then 8 else 0).
  Let body := if unmod then sl - 2 else sl.
  Let a := lim - pos.
  Let inc := (0 <? sl) && (a <? hl + body).
  Let short := (0 <? sl) && negb (a <? hl + body).
  Let plen := if short then body else a - hl.
  Let psrc := if short then LsMacsecShortLength else LsSlice.

  Lemma lax_macsec_from_slice_eq :
    LaxMacsecSlice.from_slice s =
      (if a <? 6 then lerr 6 a LsSlice LyMacsecHeader
       else if 128 <=? tci then Err (EContent CeMacsecVersion)
       else if unmod && (sl =? 1) then Err (EContent CeMacsecUnmodifiedShortLen)
       else if a <? hl then lerr hl a LsSlice LyMacsecHeader
       else
         let header := (pos, take hl (snd s)) in
         let payload := (pos + hl, take plen (drop hl (snd s))) in
         Ok (mkLaxMacsec header
               (if unmod then LMpUnmodified (mkLaxEp inc (W bs (pos + hl - 2)) psrc payload)
                else LMpModified inc payload))).
  Proof.
    pose proof R as (_ & HR1 & HR2).
    pose proof (B_lt bs pos Hok) as Ht. pose proof (B_lt bs (pos + 1) Hok) as H1.
    unfold LaxMacsecSlice.from_slice, Macsec.header_from_slice.
    rewrite (repr_len _ _ _ _ R). fold a.
    destruct (a <? 6) eqn:E6; [reflexivity|]. subst a.
    rd8 R 0. rewrite N.add_0_r. fold tci.
    rewrite (bit128 tci Ht).
    destruct (128 <=? tci) eqn:Ev; [reflexivity|].
    rewrite (land12 tci Ht). fold unmod.
    rewrite (bit32 tci Ht). fold sc.
    assert (Esl : forall (X : res unit),
      (if unmod then (let* b1 := rdU s 1 in
                      if N.land b1 63 =? 1 then Err (EContent CeMacsecUnmodifiedShortLen) else Ok tt)
       else Ok tt) =
      (if unmod && (sl =? 1) then Err (EContent CeMacsecUnmodifiedShortLen) else Ok tt)).
    { intros _. destruct unmod; [|reflexivity]. rd8 R 1. rewrite land63_mod. fold sl.
      destruct (sl =? 1); reflexivity. }
    rewrite (Esl (Ok tt)). clear Esl.
    destruct (unmod && (sl =? 1)) eqn:Eu; [reflexivity|]. cbn [bind].
    fold hl.
    destruct (lim - pos <? hl) eqn:Eh; [reflexivity|].
    assert (Hhl : hl <= lim - pos) by lia.
    assert (Hhl6 : 6 <= hl) by (subst hl; lia).
    rewrite subU_eq by (rewrite (repr_len _ _ _ _ R); lia). cbn [bind].
    rewrite (repr_off _ _ _ _ R : fst s = pos). rewrite N.add_0_r.
    rewrite !drop0.
    pose proof (repr_sub bs s pos lim 0 hl R ltac:(lia)) as Rh.
    rewrite N.add_0_r, drop0 in Rh.
    set (header := (pos, take hl (snd s))) in *.
    assert (Ehl : Macsec.header_len header = Ok hl).
    { unfold Macsec.header_len, Macsec.sci_present, Macsec.is_unmodified, Macsec.tci_an_raw.
      rd8 Rh 0. rewrite N.add_0_r. fold tci.
      rewrite (bit32 tci Ht), (land12 tci Ht). fold sc unmod. subst hl. f_equal. lia. }
    rewrite Ehl.
    (* accessors on the header *)
    unfold Macsec.expected_payload_len, Macsec.short_len, Macsec.tci_an_raw.
    rd8 Rh 1. rd8 Rh 0. rewrite N.add_0_r. fold tci. rewrite land63_mod. fold sl.
    rewrite (land12 tci Ht). fold unmod.
    rewrite (repr_len _ _ _ _ Rh). replace (pos + hl - pos) with hl by lia.
    unfold Macsec.next_ether_type, Macsec.tci_an_raw.
    rd8 Rh 0. rewrite N.add_0_r. fold tci. rewrite (land12 tci Ht). fold unmod.
    rewrite (bit32 tci Ht). fold sc.
    assert (Net : (if negb unmod then Ok None
                   else if sc then let* v := rd16 header 14 in Ok (Some v)
                        else let* v := rd16 header 6 in Ok (Some v))
                  = Ok (if unmod then Some (W bs (pos + hl - 2)) else None)).
    { destruct unmod eqn:Eun; cbn [negb]; [|reflexivity].
      destruct sc eqn:Esc.
      - assert (hl = 16) by (subst hl; reflexivity).
        rewrite (repr_rd16 bs header pos (pos + hl) 14 Rh) by lia. cbn [bind].
        replace (pos + hl - 2) with (pos + 14) by lia. reflexivity.
      - assert (hl = 8) by (subst hl; reflexivity).
        rewrite (repr_rd16 bs header pos (pos + hl) 6 Rh) by lia. cbn [bind].
        replace (pos + hl - 2) with (pos + 6) by lia. reflexivity. }
    rewrite Net. clear Net.
    subst inc short plen psrc.
    destruct (0 <? sl) eqn:Esl.
    - (* short length given *)
      assert (Eb : (if negb unmod then Ok (Some sl) else if sl <? 2 then Ok None else Ok (Some (sl - 2)))
                   = Ok (A:=option N) (Some body)).
      { subst body. destruct unmod eqn:Eun; cbn [negb]; [|reflexivity].
        assert ((sl <? 2) = false) as -> by (cbn in Eu; lia). reflexivity. }
      rewrite Eb. cbn [bind andb].
      destruct (lim - pos <? hl + body) eqn:Ebd; cbn [negb].
      + rewrite subN_ok by lia. cbn [bind].
        rewrite subU_eq by (rewrite (repr_len _ _ _ _ R); lia). cbn [bind].
        rewrite (repr_off _ _ _ _ R : fst s = pos).
        destruct unmod; reflexivity.
      + rewrite subU_eq by (rewrite (repr_len _ _ _ _ R); lia). cbn [bind].
        rewrite (repr_off _ _ _ _ R : fst s = pos).
        destruct unmod; reflexivity.
    - cbn [bind andb].
      rewrite subN_ok by lia. cbn [bind].
      rewrite subU_eq by (rewrite (repr_len _ _ _ _ R); lia). cbn [bind].
      rewrite (repr_off _ _ _ _ R : fst s = pos).
      destruct unmod; reflexivity.
  Qed.
End LaxMacsecSpec.

(* ---- the link extension loop ----------------------------------------------------------------- *)
Lemma lview_push_ext r x r' :
  L.push_ext r x = Ok r' ->
  lview r' = lwith_ext (lview r) (lview_ext x) /\ len (lsp_exts r') = len (lsp_exts r) + 1.
Proof.
  unfold L.push_ext. destruct (len (lsp_exts r) <? LINK_EXTS_CAP); [|discriminate].
  intros E. injection E as <-. cbn. unfold lview, lwith_ext. cbn.
  rewrite map_app. cbn. split; [reflexivity|]. rewrite len_app. reflexivity.
Qed.

Lemma l_push_ext_ok r x : len (lsp_exts r) < 3 -> exists r', L.push_ext r x = Ok r'.
Proof.
  intros H. unfold L.push_ext, LINK_EXTS_CAP.
  destruct (len (lsp_exts r) <? 3) eqn:E; [eexists; reflexivity|lia].
Qed.

Lemma add_off0 req a src ly off :
  le_add_offset (mkLenError req a src ly 0) off = mkLenError req a src ly off.
Proof. unfold le_add_offset. cbn. now rewrite N.add_0_l. Qed.

Lemma l_ether_eq bs (Hok : bytes_ok bs) cap :
  forall fuel lc ep pos lim,
    (cap < fuel)%nat ->
    N.of_nat cap + len (lsp_exts (lc_result lc)) = 3 ->
    repr bs (ep_slice ep) pos lim -> lc_offset lc = pos ->
    lvres_of (L.slice_ether_type_loop fuel lc ep) =
    LVOk (lwire_ether bs cap (lview (lc_result lc)) (ep_ether_type ep) (lc_src lc) pos lim).
Proof.
  induction cap as [|cap IH]; intros fuel lc ep pos lim Hf Hcap R Hoff;
    (destruct fuel as [|f]; [lia|]); pose proof R as (_ & HR1 & HR2);
    cbn [L.slice_ether_type_loop lwire_ether]; unfold L.is_vlan_type;
    change (is_vlan (ep_ether_type ep)) with (SlicedPacketCursor.is_vlan_type (ep_ether_type ep));
    change 35045 with ET_MACSEC; unfold LINK_EXTS_CAP;
    assert (Net : lvres_of
              (if ep_ether_type ep =? ET_ARP then L.slice_arp lc (ep_slice ep)
               else if ep_ether_type ep =? ET_IPV4 then L.slice_ip lc (ep_slice ep)
               else if ep_ether_type ep =? ET_IPV6 then L.slice_ip lc (ep_slice ep)
               else Ok (lc_result lc)) =
            LVOk (if ep_ether_type ep =? 2054 then lwire_arp bs (lview (lc_result lc)) (lc_src lc) pos lim
                  else if (ep_ether_type ep =? 2048) || (ep_ether_type ep =? 34525)
                       then lwire_ip bs (lview (lc_result lc)) (lc_src lc) pos lim
                       else lview (lc_result lc)))
      by (change ET_ARP with 2054; change ET_IPV4 with 2048; change ET_IPV6 with 34525;
          destruct (ep_ether_type ep =? 2054); [now apply l_slice_arp_eq|];
          destruct (ep_ether_type ep =? 2048); [now apply l_slice_ip_eq|];
          destruct (ep_ether_type ep =? 34525); [now apply l_slice_ip_eq|reflexivity]).
  - (* link_exts is full *)
    destruct (SlicedPacketCursor.is_vlan_type (ep_ether_type ep)) eqn:Ev.
    { destruct (3 <=? len (lsp_exts (lc_result lc))) eqn:E3; [reflexivity|lia]. }
    destruct (ep_ether_type ep =? ET_MACSEC) eqn:Em.
    { destruct (3 <=? len (lsp_exts (lc_result lc))) eqn:E3; [reflexivity|lia]. }
    exact Net.
  - destruct (SlicedPacketCursor.is_vlan_type (ep_ether_type ep)) eqn:Ev.
    { (* VLAN tag *)
      destruct (3 <=? len (lsp_exts (lc_result lc))) eqn:E3; [lia|].
      unfold SingleVlanSlice.from_slice, lerr, lcut. rewrite (repr_len _ _ _ _ R).
      destruct (lim - pos <? 4) eqn:E4.
      { cbn [lvres_of]. rewrite lview_with_stop, add_off0, Hoff. reflexivity. }
      unfold SingleVlanSlice.payload, SingleVlanSlice.ether_type, SingleVlanSlice.payload_slice.
      rd16 R 2. rewrite (repr_len _ _ _ _ R). rewrite subN_ok by lia. cbn [bind].
      assert (H4 : 4 <= lim - pos) by lia.
      destruct (repr_rest bs (ep_slice ep) pos lim 4 R H4) as (pl & Epl & Rpl).
      rewrite Epl. cbn [bind].
      destruct (l_push_ext_ok (lc_result lc) (LLeVlan (ep_slice ep))) as (r' & Er'); [lia|].
      rewrite Er'. cbn [bind].
      destruct (lview_push_ext _ _ _ Er') as (V1 & V2).
      rewrite (IH f _ _ (pos + 4) lim); cbn [ep_ether_type ep_slice lc_result lc_offset lc_src]; auto.
      + rewrite V1. cbn [lview_ext]. rewrite (repr_win _ _ _ _ R). reflexivity.
      + lia.
      + lia.
      + rewrite Hoff. reflexivity. }
    destruct (ep_ether_type ep =? ET_MACSEC) eqn:Em; [|exact Net].
    (* MACsec *)
    destruct (3 <=? len (lsp_exts (lc_result lc))) eqn:E3; [lia|].
    rewrite (lax_macsec_from_slice_eq bs (ep_slice ep) pos lim Hok R). unfold lerr, lcut.
    destruct (lim - pos <? 6) eqn:E6.
    { cbn [lvres_of le_layer]. rewrite lview_with_stop, add_off0, Hoff. reflexivity. }
    destruct (128 <=? B bs pos) eqn:Ever; [reflexivity|].
    set (tci := B bs pos) in *.
    set (sl := B bs (pos + 1) mod 64) in *.
    set (unmod := (tci / 4) mod 4 =? 0) in *.
    set (sc := negb ((tci / 32) mod 2 =? 0)) in *.
    destruct (unmod && (sl =? 1)) eqn:Eu; [reflexivity|].
    set (hl := 6 + (if unmod then 2 else 0) + (if sc then 8 else 0)) in *.
    destruct (lim - pos <? hl) eqn:Eh.
    { cbn [lvres_of le_layer]. rewrite lview_with_stop, add_off0, Hoff. reflexivity. }
    set (body := if unmod then sl - 2 else sl) in *.
    cbv zeta.
    set (inc := (0 <? sl) && (lim - pos <? hl + body)) in *.
    set (short := (0 <? sl) && negb (lim - pos <? hl + body)) in *.
    set (plen := if short then body else lim - pos - hl) in *.
    set (psrc := if short then LsMacsecShortLength else LsSlice) in *.
    cbn [lms_header lms_payload].
    assert (Hhl : hl <= lim - pos) by lia.
    assert (Hhl6 : 6 <= hl) by (subst hl; lia).
    pose proof (repr_sub bs (ep_slice ep) pos lim 0 hl R ltac:(lia)) as Rh.
    rewrite N.add_0_r, drop0 in Rh.
    set (header := (pos, take hl (snd (ep_slice ep)))) in *.
    assert (Hplen : hl + plen <= lim - pos).
    { subst plen short. destruct (0 <? sl); destruct (lim - pos <? hl + body) eqn:Eb; cbn [andb negb]; lia. }
    pose proof (repr_sub bs (ep_slice ep) pos lim hl plen R Hplen) as Rp.
    set (payload := (pos + hl, take plen (drop hl (snd (ep_slice ep))))) in *.
    pose proof (B_lt bs pos Hok) as Ht. fold tci in Ht.
    assert (Ehl : Macsec.header_len header = Ok hl).
    { unfold Macsec.header_len, Macsec.sci_present, Macsec.is_unmodified, Macsec.tci_an_raw.
      rd8 Rh 0. rewrite N.add_0_r. fold tci.
      rewrite (bit32 tci Ht), (land12 tci Ht). fold sc unmod. subst hl. f_equal. lia. }
    rewrite Ehl. cbn [bind].
    destruct (l_push_ext_ok (lc_result lc)
                (LLeMacsec (mkLaxMacsec header
                   (if unmod then LMpUnmodified (mkLaxEp inc (W bs (pos + hl - 2)) psrc payload)
                    else LMpModified inc payload)))) as (r' & Er'); [lia|].
    rewrite Er'. cbn [bind].
    destruct (lview_push_ext _ _ _ Er') as (V1 & V2).
    assert (Elim : pos + hl + plen = (if short then pos + hl + body else lim)).
    { subst plen. destruct short; lia. }
    destruct unmod eqn:Eun.
    + cbn [lep_src lep_ether_type lep_slice].
      rewrite (IH f _ _ (pos + hl) (pos + hl + plen));
        cbn [ep_ether_type ep_slice lc_result lc_offset lc_src]; auto.
      * rewrite V1. cbn [lview_ext]. unfold lview_macsec, lview_ep.
        cbn [lms_header lms_payload lep_incomplete lep_ether_type lep_src lep_slice].
        rewrite (repr_win _ _ _ _ Rh), (repr_win _ _ _ _ Rp).
        replace (pos + hl - pos) with hl by lia.
        rewrite Elim. unfold pick_src.
        replace (if negb (is_slice_src psrc) then psrc else lc_src lc)
          with (if is_slice_src psrc then lc_src lc else psrc) by (destruct (is_slice_src psrc); reflexivity).
        reflexivity.
      * lia.
      * lia.
      * rewrite Hoff. reflexivity.
    + cbn [lvres_of]. rewrite V1. cbn [lview_ext]. unfold lview_macsec.
      cbn [lms_header lms_payload].
      rewrite (repr_win _ _ _ _ Rh), (repr_win _ _ _ _ Rp).
      replace (pos + hl - pos) with hl by lia. rewrite Elim. reflexivity.
Qed.

(* ---- entry points ------------------------------------------------------------------------------ *)
Theorem lax_from_ether_type_eq bs et :
  bytes_ok bs -> lvres_of (LaxSlicedPacket.from_ether_type et bs) = lwire_ether_type bs et.
Proof.
  intros Hok. unfold LaxSlicedPacket.from_ether_type, L.parse_from_ether_type, L.slice_ether_type,
    lwire_ether_type, n_bs.
  pose proof (repr_whole bs) as R.
  rewrite (l_ether_eq bs Hok 3 5 _ (mkEtherPayload et LsSlice (mk_slice bs)) 0 (len bs));
    cbn [ep_ether_type ep_slice lc_result lc_offset lc_src]; auto; lia.
Qed.

Theorem lax_from_ethernet_eq bs :
  bytes_ok bs -> lvres_of (LaxSlicedPacket.from_ethernet bs) = lwire_ethernet bs.
Proof.
  intros Hok. unfold LaxSlicedPacket.from_ethernet, L.parse_from_ethernet2, lwire_ethernet, n_bs.
  pose proof (repr_whole bs) as R.
  unfold Ethernet2Slice.from_slice_without_fcs, lerr. rewrite (repr_len _ _ _ _ R). rewrite N.sub_0_r.
  destruct (len bs <? 14) eqn:E14; [reflexivity|]. cbn [bind].
  unfold Ethernet2Slice.payload, Ethernet2Slice.ether_type, Ethernet2Slice.payload_slice.
  rd16 R 12. rewrite (repr_len _ _ _ _ R). rewrite N.sub_0_r.
  rewrite subN_ok by lia. cbn [bind].
  assert (H14 : 14 <= len bs - 0) by lia.
  destruct (repr_rest bs (mk_slice bs) 0 (len bs) 14 R H14) as (pl & Epl & Rpl).
  rewrite N.sub_0_r in Epl. rewrite Epl. cbn [bind].
  unfold L.slice_ether_type.
  rewrite (l_ether_eq bs Hok 3 5 _ (mkEtherPayload (W bs (0 + 12)) LsSlice pl) 14 (len bs));
    cbn [ep_ether_type ep_slice lc_result lc_offset lc_src]; auto; lia.
Qed.

Lemma conv_ext_stop_ext v4 f g e : (forall l, f l = g l) -> L.conv_ext_stop v4 f e = L.conv_ext_stop v4 g e.
Proof. intros H. destruct e as [[l|c] ly]; cbn; [now rewrite H|reflexivity]. Qed.

Theorem lax_from_ip_eq bs :
  bytes_ok bs -> lvres_of (LaxSlicedPacket.from_ip bs) = lwire_from_ip bs.
Proof.
  intros Hok. unfold LaxSlicedPacket.from_ip, L.parse_from_ip, lwire_from_ip, n_bs.
  pose proof (repr_whole bs) as R.
  destruct (ip_hdr_fault bs LsSlice 0 (len bs)) as [e|] eqn:HF.
  - destruct (l_ipslice_err bs (mk_slice bs) 0 (len bs) LsSlice e R HF) as (e0 & E & Fx). rewrite E.
    cbn [bind lvres_of]. f_equal. rewrite <- Fx. destruct e0 as [l|c]; cbn [fix_hdr_err]; [|reflexivity].
    now rewrite fix_len_id.
  - destruct (l_ipslice_ok bs (mk_slice bs) 0 (len bs) LsSlice Hok R HF) as (ip & st & E & F). rewrite E.
    cbn [bind].
    pose proof (l_ip_tail_eq bs Hok L.empty 0 (fun _ => LsSlice) (mk_slice bs) 0 ip st _ (fun l => l)
                  LsSlice (len bs) R eq_refl eq_refl) as T.
    assert (F' : let '(net, pl, st', lim') := lwire_ip_parts bs LsSlice 0 (len bs) in
                 lview_net (L.net_of_ip ip) = net /\ lview_ipp (LaxIpSlice.payload ip) = pl /\
                 option_map (L.conv_ext_stop (L.is_v4 ip) (fun l => l)) st = st' /\
                 repr bs (lipp_slice (LaxIpSlice.payload ip)) (fst (lvip_win pl)) lim' /\ 0 <= fst (lvip_win pl)).
    { destruct (lwire_ip_parts bs LsSlice 0 (len bs)) as [[[net pl] st'] lim'].
      destruct F as (F1 & F2 & F3 & F4 & F5). repeat (split; [assumption|]). split; [|split; assumption].
      rewrite <- F3. destruct st as [x|]; cbn [option_map]; [|reflexivity]. f_equal.
      apply conv_ext_stop_ext. intros l. now rewrite fix_len_id. }
    specialize (T F'). cbv zeta in T. change (lview L.empty) with lempty_packet in T.
    rewrite <- T. clear T F F'.
    destruct (L.ptr_diff (lipp_slice (LaxIpSlice.payload ip)) (mk_slice bs)) as [d|e|b]; cbn [bind]; try reflexivity.
    rewrite N.add_0_l. destruct st; reflexivity.
Qed.

(* ---- corollary: the lax model never returns Bug ---------------------------------------------------- *)
Lemma lvres_of_bug r b : r = Bug b -> lvres_of r = LVBug b.
Proof. now intros ->. Qed.

Theorem lax_never_bug bs et b : bytes_ok bs ->
  LaxSlicedPacket.from_ethernet bs <> Bug b /\
  LaxSlicedPacket.from_ether_type et bs <> Bug b /\
  LaxSlicedPacket.from_ip bs <> Bug b.
Proof.
  intros Hok. repeat split; intros E; apply lvres_of_bug in E.
  - rewrite (lax_from_ethernet_eq bs Hok) in E. unfold lwire_ethernet in E.
    destruct (n_bs bs <? 14); discriminate.
  - rewrite (lax_from_ether_type_eq bs et Hok) in E. discriminate.
  - rewrite (lax_from_ip_eq bs Hok) in E. unfold lwire_from_ip in E.
    destruct (ip_hdr_fault bs LsSlice 0 (n_bs bs)); discriminate.
Qed.

(* ---- the single-layer lax decoders never return Bug on a window of the buffer ------------------- *)
Definition no_bug {A} (r : res A) : Prop := forall b, r <> Bug b.

Lemma nb_laxip bs s pos lim : bytes_ok bs -> repr bs s pos lim -> no_bug (LaxIpSlice.from_slice s).
Proof.
  intros Hok R b E.
  destruct (ip_hdr_fault bs LsSlice pos lim) as [e|] eqn:HF.
  - destruct (l_ipslice_err bs s pos lim LsSlice e R HF) as (e0 & E0 & _). congruence.
  - destruct (l_ipslice_ok bs s pos lim LsSlice Hok R HF) as (ip & st & E0 & _). congruence.
Qed.

Lemma nb_v4_header bs s pos lim : repr bs s pos lim -> no_bug (Ipv4HeaderSlice.from_slice s).
Proof.
  intros R b. unfold Ipv4HeaderSlice.from_slice, lerr. rewrite (repr_len _ _ _ _ R).
  destruct (lim - pos <? 20) eqn:E20; [discriminate|]. rd8 R 0.
  destruct (negb (N.shiftr (B bs (pos + 0)) 4 =? 4)); [discriminate|].
  destruct (N.land (B bs (pos + 0)) 15 <? 5); [discriminate|].
  destruct (lim - pos <? N.land (B bs (pos + 0)) 15 * 4) eqn:El; [discriminate|].
  get_prefix R (N.land (B bs (pos + 0)) 15 * 4) h Eh Rh. rewrite Eh. discriminate.
Qed.

Lemma nb_v6_header bs s pos lim : repr bs s pos lim -> no_bug (Ipv6HeaderSlice.from_slice s).
Proof.
  intros R b. unfold Ipv6HeaderSlice.from_slice, lerr. rewrite (repr_len _ _ _ _ R).
  destruct (lim - pos <? 40) eqn:E40; [discriminate|]. rd8 R 0.
  destruct (negb (N.shiftr (B bs (pos + 0)) 4 =? 6)); [discriminate|].
  get_prefix R 40 h Eh Rh. rewrite Eh. discriminate.
Qed.

Lemma nb_laxv4 bs s pos lim : bytes_ok bs -> repr bs s pos lim -> no_bug (LaxIpv4Slice.from_slice s).
Proof.
  intros Hok R b E.
  destruct (Ipv4HeaderSlice.from_slice s) as [h|e|b0] eqn:Eh.
  - pose proof (laxip_v4_arm s h Eh) as A. rewrite E in A. cbn in A.
    exact (nb_laxip bs s pos lim Hok R b A).
  - unfold LaxIpv4Slice.from_slice in E. rewrite Eh in E. discriminate.
  - exact (nb_v4_header bs s pos lim R b0 Eh).
Qed.

Lemma nb_laxv6 bs s pos lim : bytes_ok bs -> repr bs s pos lim -> no_bug (LaxIpv6Slice.from_slice s).
Proof.
  intros Hok R b E.
  destruct (Ipv6HeaderSlice.from_slice s) as [h|e|b0] eqn:Eh.
  - pose proof (laxip_v6_arm s h Eh) as A. rewrite E in A. cbn in A.
    exact (nb_laxip bs s pos lim Hok R b A).
  - unfold LaxIpv6Slice.from_slice in E. rewrite Eh in E. discriminate.
  - exact (nb_v6_header bs s pos lim R b0 Eh).
Qed.

Lemma nb_laxmacsec bs s pos lim : bytes_ok bs -> repr bs s pos lim -> no_bug (LaxMacsecSlice.from_slice s).
Proof.
  intros Hok R b. rewrite (lax_macsec_from_slice_eq bs s pos lim Hok R). unfold lerr.
  repeat match goal with |- (if ?c then _ else _) <> _ => destruct c end; discriminate.
Qed.

Lemma nb_laxudp bs s pos lim : repr bs s pos lim -> no_bug (UdpSlice.from_slice_lax s).
Proof.
  intros R b. unfold UdpSlice.from_slice_lax, UdpSlice.header_from_slice, UdpSlice.length, lerr.
  rewrite (repr_len _ _ _ _ R).
  destruct (lim - pos <? 8) eqn:E8; [discriminate|].
  get_prefix R 8 h Eh Rh. rewrite Eh. cbn [bind]. rd16 Rh 4.
  destruct ((lim - pos <? W bs (pos + 4)) || (W bs (pos + 4) <? 8)) eqn:El; [discriminate|].
  get_prefix R (W bs (pos + 4)) u Eu Ru. rewrite Eu. discriminate.
Qed.

Lemma nb_laxexts6 bs s pos lim nh : bytes_ok bs -> repr bs s pos lim -> no_bug (LaxIpv6Exts.from_slice_lax nh s).
Proof.
  intros Hok R b E.
  destruct (l_exts_eq bs Hok LsSlice s pos lim nh R) as (x & rest & e & nx & fr & st & A & _). congruence.
Qed.

Lemma nb_laxexts4 bs s pos lim nh : repr bs s pos lim -> no_bug (LaxIpv4Exts.from_slice_lax nh s).
Proof.
  intros R b. pose proof R as (_ & HR1 & HR2). unfold LaxIpv4Exts.from_slice_lax.
  destruct (IPN_AUTH =? nh); [|discriminate].
  rewrite (ah_eq bs s pos lim R). unfold lerr.
  destruct (lim - pos <? 12) eqn:E12; [discriminate|].
  destruct (B bs (pos + 1) =? 0); [discriminate|].
  destruct (lim - pos <? (B bs (pos + 1) + 2) * 4) eqn:El; [discriminate|].
  set (l := (B bs (pos + 1) + 2) * 4) in *.
  get_prefix R l h Eh Rh. rewrite Eh.
  rewrite (repr_len _ _ _ _ R), (repr_len _ _ _ _ Rh). replace (pos + l - pos) with l by lia.
  rewrite subN_ok by lia. cbn [bind].
  assert (Hl : l <= lim - pos) by lia.
  destruct (repr_rest bs s pos lim l R Hl) as (r' & Er & Rr). rewrite Er. cbn [bind].
  unfold IpAuthHeaderSlice.next_header. rd8 Rh 0. discriminate.
Qed.

Theorem lax_single_never_bug bs s pos lim nh :
  bytes_ok bs -> repr bs s pos lim ->
  no_bug (LaxIpSlice.from_slice s) /\ no_bug (LaxIpv4Slice.from_slice s) /\
  no_bug (LaxIpv6Slice.from_slice s) /\ no_bug (LaxMacsecSlice.from_slice s) /\
  no_bug (UdpSlice.from_slice_lax s) /\ no_bug (LaxIpv6Exts.from_slice_lax nh s) /\
  no_bug (LaxIpv4Exts.from_slice_lax nh s).
Proof.
  intros Hok R.
  split; [now apply (nb_laxip bs s pos lim)|]. split; [now apply (nb_laxv4 bs s pos lim)|].
  split; [now apply (nb_laxv6 bs s pos lim)|]. split; [now apply (nb_laxmacsec bs s pos lim)|].
  split; [now apply (nb_laxudp bs s pos lim)|]. split; [now apply (nb_laxexts6 bs s pos lim)|].
  now apply (nb_laxexts4 bs s pos lim).
Qed.
