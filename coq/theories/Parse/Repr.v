(* Parse/Repr.v -- the pointer model meets absolute positions: a slice value
   `repr`esents the window [pos, lim) of the caller's buffer; reads and
   sub-slicing inside the window succeed and are reads / windows of the buffer. *)
From EP Require Import Base.Bytes Parse.Types Parse.WireSpec.
From Coq Require Import ZArith Lia ZifyN ZifyBool.

Local Open Scope N_scope.

(* ---- list facts ---------------------------------------------------------- *)
Lemma nth_error_firstn_lt {A} (l : list A) n i :
  (i < n)%nat -> nth_error (firstn n l) i = nth_error l i.
Proof.
  revert n i. induction l as [|x l IH]; intros n i H.
  - rewrite firstn_nil. reflexivity.
  - destruct n as [|n]; [lia|]. destruct i as [|i]; cbn; [reflexivity|]. apply IH. lia.
Qed.

Lemma nth_error_skipn {A} (l : list A) k i :
  nth_error (skipn k l) i = nth_error l (k + i).
Proof.
  revert l. induction k as [|k IH]; intros l; [reflexivity|].
  destruct l as [|x l]; cbn; [now destruct i|]. apply IH.
Qed.

Lemma nth_error_nth_lt {A} (l : list A) i d :
  (i < length l)%nat -> nth_error l i = Some (nth i l d).
Proof.
  revert i. induction l as [|x l IH]; intros i H; cbn in H; [lia|].
  destruct i as [|i]; cbn; [reflexivity|]. apply IH. lia.
Qed.

Lemma skipn_skipn_add {A} (l : list A) a b : skipn a (skipn b l) = skipn (b + a) l.
Proof.
  revert l. induction b as [|b IH]; intros l; [reflexivity|].
  destruct l as [|x l]; cbn; [now rewrite skipn_nil|]. apply IH.
Qed.

Lemma firstn_skipn_firstn {A} (l : list A) n k m :
  (k + n <= m)%nat -> firstn n (skipn k (firstn m l)) = firstn n (skipn k l).
Proof.
  revert l k m. induction n as [|n IH]; intros l k m H; [reflexivity|].
  revert l m H. induction k as [|k IHk]; intros l m H.
  - cbn [skipn]. destruct m as [|m]; [lia|]. destruct l as [|x l]; [reflexivity|].
    cbn [firstn]. f_equal. specialize (IH l 0%nat m). cbn [skipn] in IH. apply IH. lia.
  - destruct m as [|m]; [lia|]. destruct l as [|x l]; [reflexivity|].
    cbn [firstn skipn]. apply IHk. lia.
Qed.

(* ---- representation ------------------------------------------------------ *)
Definition repr (bs : bytes) (s : slice) (pos lim : N) : Prop :=
  s = (pos, take (lim - pos) (drop pos bs)) /\ pos <= lim /\ lim <= len bs.

Lemma repr_whole bs : repr bs (mk_slice bs) 0 (len bs).
Proof.
  unfold repr, mk_slice, take, drop. split; [|lia].
  rewrite N.sub_0_r. cbn [N.to_nat skipn]. unfold len.
  rewrite Nnat.Nat2N.id. now rewrite firstn_all.
Qed.

Lemma repr_len bs s pos lim : repr bs s pos lim -> s_len s = lim - pos.
Proof.
  intros (-> & H1 & H2). unfold s_len. cbn [snd].
  rewrite len_take, len_drop. lia.
Qed.

Lemma repr_off bs s pos lim : repr bs s pos lim -> s_off s = pos.
Proof. intros (-> & _). reflexivity. Qed.

Lemma repr_win bs s pos lim : repr bs s pos lim -> win_of s = (pos, lim - pos).
Proof.
  intros H. unfold win_of. now rewrite (repr_off _ _ _ _ H), (repr_len _ _ _ _ H).
Qed.

Lemma repr_length bs s pos lim :
  repr bs s pos lim -> length (snd s) = N.to_nat (lim - pos).
Proof.
  intros H. pose proof (repr_len _ _ _ _ H) as L. unfold s_len, len in L. lia.
Qed.

Lemma repr_rd bs s pos lim i :
  repr bs s pos lim -> i < lim - pos -> rd (snd s) i = Some (B bs (pos + i)).
Proof.
  intros (-> & H1 & H2) Hi. unfold rd, take, drop, B. cbn [snd].
  rewrite nth_error_firstn_lt by lia. rewrite nth_error_skipn.
  replace (N.to_nat pos + N.to_nat i)%nat with (N.to_nat (pos + i)) by lia.
  apply nth_error_nth_lt. unfold len in H2. lia.
Qed.

Lemma repr_rdU bs s pos lim i :
  repr bs s pos lim -> i < lim - pos -> rdU s i = Ok (B bs (pos + i)).
Proof. intros H Hi. unfold rdU. now rewrite (repr_rd _ _ _ _ _ H Hi). Qed.

Lemma repr_rd16 bs s pos lim i :
  repr bs s pos lim -> i + 1 < lim - pos -> rd16 s i = Ok (W bs (pos + i)).
Proof.
  intros H Hi. unfold rd16.
  rewrite (repr_rdU _ _ _ _ i H) by lia. cbn [bind].
  rewrite (repr_rdU _ _ _ _ (i + 1) H) by lia. cbn [bind].
  unfold W, be16. now rewrite N.add_assoc.
Qed.

Lemma repr_sub bs s pos lim k n :
  repr bs s pos lim -> k + n <= lim - pos ->
  repr bs (pos + k, take n (drop k (snd s))) (pos + k) (pos + k + n).
Proof.
  intros (-> & H1 & H2) Hk. unfold repr. split; [|lia].
  f_equal. cbn [snd]. unfold take, drop.
  replace (N.to_nat (pos + k + n - (pos + k))) with (N.to_nat n) by lia.
  rewrite firstn_skipn_firstn by lia.
  rewrite skipn_skipn_add. f_equal. f_equal. lia.
Qed.

Lemma repr_subU bs s pos lim k n :
  repr bs s pos lim -> k + n <= lim - pos ->
  exists s', subU s k n = Ok s' /\ repr bs s' (pos + k) (pos + k + n).
Proof.
  intros H Hk. unfold subU. rewrite (repr_len _ _ _ _ H).
  destruct (k + n <=? lim - pos) eqn:E; [|lia].
  rewrite (repr_off _ _ _ _ H : fst s = pos).
  eexists. split; [reflexivity|]. now apply (repr_sub bs s pos lim).
Qed.

Lemma subN_ok a b : b <= a -> subN a b = Ok (a - b).
Proof. intros H. unfold subN. destruct (b <=? a) eqn:E; [reflexivity|lia]. Qed.

(* the common "rest of the slice behind k bytes" (after subN (s_len s) k) *)
Lemma repr_rest bs s pos lim k :
  repr bs s pos lim -> k <= lim - pos ->
  exists s', subU s k (lim - pos - k) = Ok s' /\ repr bs s' (pos + k) lim.
Proof.
  intros H Hk.
  assert (Hk2 : k + (lim - pos - k) <= lim - pos) by lia.
  destruct (repr_subU bs s pos lim k (lim - pos - k) H Hk2) as (s' & E & R).
  exists s'. split; [exact E|]. destruct H as (_ & P1 & P2).
  replace (pos + k + (lim - pos - k)) with lim in R by lia. exact R.
Qed.

(* prefix of the slice *)
Lemma repr_prefix bs s pos lim n :
  repr bs s pos lim -> n <= lim - pos ->
  exists s', subU s 0 n = Ok s' /\ repr bs s' pos (pos + n).
Proof.
  intros H Hn. assert (Hn2 : 0 + n <= lim - pos) by lia.
  destruct (repr_subU bs s pos lim 0 n H Hn2) as (s' & E & R).
  exists s'. split; [exact E|]. now rewrite N.add_0_r in R.
Qed.

(* bytes of the buffer are bytes *)
Lemma B_lt bs i : bytes_ok bs -> B bs i < 256.
Proof.
  intros H. unfold B. destruct (Nat.lt_ge_cases (N.to_nat i) (length bs)) as [L|L].
  - unfold bytes_ok in H. rewrite Forall_forall in H. apply H. now apply nth_In.
  - rewrite nth_overflow by lia. lia.
Qed.
