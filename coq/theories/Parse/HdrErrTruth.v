(* Parse/HdrErrTruth.v -- C07 for the struct decoders: whenever PacketHeaders
   rejects, its error is the error strict slicing reports for the same bytes
   (C04_headers_eq_slices + "a rejecting cut variant is plain slicing"), hence it
   is the truthful error of the reference decoder (StrictProofs). *)
From EP Require Import Base.Bytes Parse.Types Parse.Slices Parse.Cursor Parse.View
  Parse.WireSpec Parse.StrictProofs Parse.HdrModel Parse.HdrCut Parse.HdrView
  Parse.HdrProofs Parse.HdrProofs2 Parse.HdrProofs3.
From Coq Require Import Lia.
Import SlicedPacketCursor.

Local Open Scope N_scope.

Definition noerr {A} (r : res A) : Prop := forall e, r <> Err e.

Lemma noerr_ok {A} (a : A) : noerr (Ok a).
Proof. intros e H. discriminate. Qed.
Lemma noerr_bug {A} b : noerr (@Bug A b).
Proof. intros e H. discriminate. Qed.
Lemma noerr_bind {A B} (r : res A) (f : A -> res B) :
  noerr r -> (forall a, noerr (f a)) -> noerr (bind r f).
Proof.
  intros Hr Hf e. destruct r as [a|e'|b]; cbn.
  - apply Hf.
  - exfalso. now apply (Hr e').
  - discriminate.
Qed.
Lemma noerr_rdU s i : noerr (rdU s i).
Proof. unfold rdU. destruct (rd (snd s) i); [apply noerr_ok|apply noerr_bug]. Qed.
Lemma noerr_subU s k n : noerr (subU s k n).
Proof. unfold subU. destruct (k + n <=? s_len s); [apply noerr_ok|apply noerr_bug]. Qed.
Lemma noerr_subN a b : noerr (subN a b).
Proof. unfold subN. destruct (b <=? a); [apply noerr_ok|apply noerr_bug]. Qed.
Lemma noerr_rd16 s i : noerr (rd16 s i).
Proof.
  unfold rd16. apply noerr_bind; [apply noerr_rdU|]. intros a.
  apply noerr_bind; [apply noerr_rdU|]. intros b. apply noerr_ok.
Qed.

Ltac ne :=
  repeat first
    [ apply noerr_ok | apply noerr_bug | apply noerr_rdU | apply noerr_subU | apply noerr_subN
    | apply noerr_rd16 | (apply noerr_bind; [|intros ?]) ].

Lemma noerr_exts_src l : forall acc, noerr (exts_src l acc).
Proof.
  induction l as [|x r IH]; intros acc; cbn [exts_src]; [apply noerr_ok|].
  destruct x as [s|m]; [apply IH|].
  apply noerr_bind; [unfold Macsec.short_len; ne|]. intros sl. apply IH.
Qed.

Lemma noerr_conv_ether_payload p : noerr (conv_ether_payload p).
Proof.
  unfold conv_ether_payload.
  destruct (last (map Some (sp_exts p)) None) as [[s|m]|].
  - apply noerr_bind; [apply noerr_exts_src|]. intros src.
    unfold SingleVlanSlice.payload, SingleVlanSlice.ether_type, SingleVlanSlice.payload_slice. ne.
  - destruct (ms_payload m); [|apply noerr_ok].
    apply noerr_bind; [apply noerr_exts_src|]. intros src. apply noerr_ok.
  - destruct (sp_link p) as [[s|h w|e]|]; try apply noerr_ok.
    unfold Ethernet2Slice.payload, Ethernet2Slice.ether_type, Ethernet2Slice.payload_slice. ne.
Qed.

Lemma noerr_conv p : noerr (conv p).
Proof.
  unfold conv. apply noerr_bind; [|intros ?; apply noerr_ok].
  destruct (sp_transport p) as [t|].
  - apply noerr_bind; [|intros ?; apply noerr_ok].
    destruct t; cbn [conv_tr]; try apply noerr_ok.
    unfold Icmpv4Acc.header_len. ne.
  - destruct (sp_net p) as [[v|v|s]|]; try apply noerr_ok.
    apply noerr_bind; [apply noerr_conv_ether_payload|]. intros ?. apply noerr_ok.
Qed.

(* a rejection of the struct decoder is the rejection of plain strict slicing *)
Lemma hagree_err_cut h c e :
  hagree h c -> h = Err e -> c = Err e.
Proof.
  intros [Heq Hnb] ->. cbn [hvres_of_h] in Heq.
  destruct c as [p|e'|b]; cbn [hvres_of_s] in Heq.
  - destruct (conv p) as [v|e'|b] eqn:E; try discriminate.
    exfalso. apply (noerr_conv p e'). exact E.
  - congruence.
  - discriminate.
Qed.

Theorem headers_errors_are_slicing_errors bs et : bytes_ok bs ->
  (forall e, PacketHeaders.from_ethernet_slice bs = Err e -> SlicedPacket.from_ethernet bs = Err e) /\
  (forall e, PacketHeaders.from_ether_type et bs = Err e -> SlicedPacket.from_ether_type et bs = Err e) /\
  (F11 bs = false ->
   forall e, PacketHeaders.from_ip_slice bs = Err e -> SlicedPacket.from_ip bs = Err e).
Proof.
  intros Hok.
  destruct (hdr_eq_slices bs et Hok) as (H1 & H2 & H3 & _).
  split; [|split].
  - intros e He. pose proof (hagree_err_cut _ _ _ H1 He) as Hc.
    rewrite <- (cut_only_when_stopped_ethernet bs); [exact Hc| |].
    + rewrite Hc. reflexivity.
    + intros b Hb. rewrite Hc in Hb. discriminate.
  - intros e He. pose proof (hagree_err_cut _ _ _ H2 He) as Hc.
    rewrite <- (cut_only_when_stopped_ether_type et bs); [exact Hc| |].
    + rewrite Hc. reflexivity.
    + intros b Hb. rewrite Hc in Hb. discriminate.
  - intros HF e He. pose proof (hagree_err_cut _ _ _ (H3 HF) He) as Hc.
    rewrite <- (cut_only_when_stopped_ip bs); [exact Hc| |].
    + rewrite Hc. reflexivity.
    + intros b Hb. rewrite Hc in Hb. discriminate.
Qed.

(* ... hence truthful in the sense of C07 *)
Theorem headers_errors_truthful bs et : bytes_ok bs ->
  (forall e, PacketHeaders.from_ethernet_slice bs = Err e -> c07_truthful (VErr e) (wire_ethernet bs)) /\
  (forall e, PacketHeaders.from_ether_type et bs = Err e -> c07_truthful (VErr e) (wire_ether_type bs et)) /\
  (F11 bs = false ->
   forall e, PacketHeaders.from_ip_slice bs = Err e -> c07_truthful (VErr e) (wire_from_ip bs)).
Proof.
  intros Hok.
  destruct (headers_errors_are_slicing_errors bs et Hok) as (H1 & H2 & H3).
  split; [|split].
  - intros e He. pose proof (res_rel_c07 _ _ (from_ethernet_rel bs Hok)) as T.
    rewrite (H1 e He) in T. exact T.
  - intros e He. pose proof (res_rel_c07 _ _ (from_ether_type_rel bs et Hok)) as T.
    rewrite (H2 e He) in T. exact T.
  - intros HF e He. pose proof (res_rel_c07 _ _ (from_ip_rel bs Hok)) as T.
    rewrite (H3 HF e He) in T. exact T.
Qed.
