(* Parse/Access.v -- transliteration of the ACCESSORS, conversions (to_header /
   to_packet) and iterators reachable from the strict slice types whose
   constructors are modelled in Parse/Slices.v:
     link/ethernet2_slice.rs, link/single_vlan_slice.rs, link/linux_sll_slice.rs,
     link/linux_sll_header_slice.rs, link/macsec_header_slice.rs,
     link/macsec_slice.rs, net/arp_packet_slice.rs (+ ArpPacket::new_unchecked),
     net/ipv4_header_slice.rs, net/ip_auth_header_slice.rs (+ IpAuthHeader::new),
     net/ipv6_header_slice.rs, net/ipv6_raw_ext_header_slice.rs
     (+ Ipv6RawExtHeader::new_raw), net/ipv6_fragment_header_slice.rs,
     net/ipv6_exts_slice.rs (into_iter), net/ipv6_ext_slice_iter.rs,
     net/ipv4_slice.rs, net/ipv6_slice.rs, net/ip_slice.rs,
     transport/udp_slice.rs, transport/udp_header_slice.rs,
     transport/tcp_slice.rs, transport/tcp_header_slice.rs,
     transport/icmpv4_slice.rs, transport/icmpv6_slice.rs.
   Every accessor is a `res`-valued function of the STORED slice value only (that
   is all the Rust accessor has): an unchecked read is `rdU`/`rd16`/`rd32`, a
   `from_raw_parts` is `subU`, a usize subtraction is `subN`, checked indexing is
   `idx_range` (Bug SITE_INDEX), unwrap/expect/unwrap_unchecked is Bug SITE_UNWRAP,
   a copy into a fixed buffer that does not fit is Bug SITE_COPY.  No proofs here. *)
From EP Require Import Base.Bytes Parse.Types Parse.Slices Parse.Cursor.

Local Open Scope N_scope.

(* copy_nonoverlapping / from_raw_parts_mut into a fixed-size buffer that is too small *)
Definition SITE_COPY : N := 8.

(* get_unchecked_N_byte_array(ptr.add(i)): n successive unchecked reads *)
Fixpoint rd_arr (s : slice) (i : N) (n : nat) : res bytes :=
  match n with
  | O => Ok []
  | S m =>
      let* a := rdU s i in
      let* r := rd_arr s (i + 1) m in
      Ok (a :: r)
  end.

(* checked &slice[a..b] *)
Definition idx_range (s : slice) (a b : N) : res slice :=
  if (a <=? b) && (b <=? s_len s) then Ok (fst s + a, take (b - a) (drop a (snd s)))
  else Bug SITE_INDEX.

(* checked &slice[a..] *)
Definition idx_from (s : slice) (a : N) : res slice := idx_range s a (s_len s).

(* erasure of the result value: what remains is Ok / Err / Bug *)
Definition run {A} (r : res A) : res unit :=
  match r with Ok _ => Ok tt | Err e => Err e | Bug b => Bug b end.

(* `0 != (b & mask)` *)
Definition bitset (b mask : N) : bool := negb (N.land b mask =? 0).

(* ---- Ethernet2Slice ------------------------------------------------------- *)
Record eth2_slice := mkEth2 { e2_fcs_len : N; e2_slice : slice }.

Module Ethernet2A.
  (* Parse/Slices.v models from_slice_without_fcs as the bare slice (fcs_len = 0) *)
  Definition from_slice_without_fcs (s : slice) : res eth2_slice :=
    let* r := Ethernet2Slice.from_slice_without_fcs s in Ok (mkEth2 0 r).
  Definition from_slice_with_crc32_fcs (s : slice) : res eth2_slice :=
    let fcs_len := 4 in
    if s_len s <? 14 + fcs_len then lerr (14 + 4) (s_len s) LsSlice LyEthernet2Header
    else Ok (mkEth2 fcs_len s).

  Definition destination (e : eth2_slice) : res bytes := rd_arr (e2_slice e) 0 6.
  Definition source (e : eth2_slice) : res bytes := rd_arr (e2_slice e) 6 6.
  Definition ether_type (e : eth2_slice) : res N := rd16 (e2_slice e) 12.
  Definition fcs (e : eth2_slice) : res (option bytes) :=
    let s := e2_slice e in
    if e2_fcs_len e =? 4 then
      let* i4 := subN (s_len s) 4 in let* a := rdU s i4 in
      let* i3 := subN (s_len s) 3 in let* b := rdU s i3 in
      let* i2 := subN (s_len s) 2 in let* c := rdU s i2 in
      let* i1 := subN (s_len s) 1 in let* d := rdU s i1 in
      Ok (Some [a; b; c; d])
    else Ok None.
  Definition to_header (e : eth2_slice) : res (bytes * bytes * N) :=
    let* src := source e in
    let* dst := destination e in
    let* et := ether_type e in
    Ok (src, dst, et).
  Definition header_slice (e : eth2_slice) : res slice := subU (e2_slice e) 0 14.
  Definition payload_slice (e : eth2_slice) : res slice :=
    let s := e2_slice e in
    let* n1 := subN (s_len s) 14 in
    let* n := subN n1 (e2_fcs_len e) in
    subU s 14 n.
  Definition payload (e : eth2_slice) : res ether_payload :=
    let* et := ether_type e in
    let* p := payload_slice e in
    Ok (mkEtherPayload et LsSlice p).
  (* impl Debug: to_header, payload, fcs *)
  Definition debug (e : eth2_slice) : res unit :=
    let* _ := to_header e in let* _ := payload e in let* _ := fcs e in Ok tt.

  Definition windows (e : eth2_slice) : list (res slice) :=
    [header_slice e; payload_slice e].
  Definition accessors (e : eth2_slice) : list (res unit) :=
    [run (destination e); run (source e); run (ether_type e); run (fcs e);
     run (to_header e); run (header_slice e); run (payload_slice e); run (payload e);
     run (debug e)].
End Ethernet2A.

(* ---- SingleVlanSlice ------------------------------------------------------ *)
Module SingleVlanA.
  Definition priority_code_point (s : slice) : res N :=
    let* b := rdU s 0 in Ok (N.land (N.shiftr b 5) 7).
  Definition drop_eligible_indicator (s : slice) : res bool :=
    let* b := rdU s 0 in Ok (bitset b 16).
  Definition vlan_identifier (s : slice) : res N :=
    let* a := rdU s 0 in
    let* b := rdU s 1 in
    Ok (be16 (N.land a 15) b).
  Definition ether_type (s : slice) : res N := rd16 s 2.
  Definition to_header (s : slice) : res (N * bool * N * N) :=
    let* pcp := priority_code_point s in
    let* dei := drop_eligible_indicator s in
    let* vid := vlan_identifier s in
    let* et := ether_type s in
    Ok (pcp, dei, vid, et).
  Definition header_slice (s : slice) : res slice := subU s 0 4.
  Definition payload_slice (s : slice) : res slice :=
    let* n := subN (s_len s) 4 in subU s 4 n.
  Definition payload (s : slice) : res ether_payload :=
    let* et := ether_type s in
    let* p := payload_slice s in
    Ok (mkEtherPayload et LsSlice p).
  Definition debug (s : slice) : res unit :=
    let* _ := to_header s in let* _ := payload s in Ok tt.

  Definition windows (s : slice) : list (res slice) := [header_slice s; payload_slice s].
  Definition accessors (s : slice) : list (res unit) :=
    [run (priority_code_point s); run (drop_eligible_indicator s); run (vlan_identifier s);
     run (ether_type s); run (to_header s); run (header_slice s); run (payload_slice s);
     run (payload s); run (debug s)].
End SingleVlanA.

(* ---- LinuxSllHeaderSlice / LinuxSllSlice ----------------------------------- *)
Module LinuxSllHeaderA.
  (* unwrap_unchecked on the conversion validated by from_slice *)
  Definition packet_type (h : slice) : res N :=
    let* raw := rd16 h 0 in
    match LinuxSll.packet_type_try_from raw with
    | Ok v => Ok v
    | _ => Bug SITE_UNWRAP
    end.
  Definition arp_hardware_type (h : slice) : res N := rd16 h 2.
  Definition sender_address_valid_length (h : slice) : res N := rd16 h 4.
  Definition sender_address_full (h : slice) : res bytes := rd_arr h 6 8.
  (* &self.slice[6..min(6 + length, 6 + 8)] *)
  Definition sender_address (h : slice) : res slice :=
    let* length := sender_address_valid_length h in
    idx_range h 6 (N.min (6 + length) (6 + 8)).
  Definition protocol_type (h : slice) : res sll_protocol_type :=
    let* hw := arp_hardware_type h in
    let* raw := rd16 h 14 in
    match LinuxSll.protocol_type_try_from hw raw with
    | Ok v => Ok v
    | _ => Bug SITE_UNWRAP
    end.
  Definition to_header (h : slice) : res (N * N * N * bytes * sll_protocol_type) :=
    let* pt := packet_type h in
    let* hw := arp_hardware_type h in
    let* vl := sender_address_valid_length h in
    let* sa := sender_address_full h in
    let* pr := protocol_type h in
    Ok (pt, hw, vl, sa, pr).

  Definition windows (h : slice) : list (res slice) := [sender_address h].
  Definition accessors (h : slice) : list (res unit) :=
    [run (packet_type h); run (arp_hardware_type h); run (sender_address_valid_length h);
     run (sender_address_full h); run (sender_address h); run (protocol_type h);
     run (to_header h)].
End LinuxSllHeaderA.

Module LinuxSllA.
  (* LinuxSllSlice = (header_slice, header_and_payload_slice) as in Parse/Slices.v *)
  Definition t := (slice * slice)%type.
  Definition to_header (x : t) := LinuxSllHeaderA.to_header (fst x).
  Definition header_slice (x : t) : res slice := Ok (fst x).
  Definition payload_slice (x : t) : res slice :=
    let* n := subN (s_len (snd x)) 16 in subU (snd x) 16 n.
  Definition payload (x : t) : res (sll_protocol_type * slice) :=
    let* pt := LinuxSllHeaderA.protocol_type (fst x) in
    let* p := payload_slice x in
    Ok (pt, p).
  Definition debug (x : t) : res unit :=
    let* _ := to_header x in let* _ := payload x in Ok tt.

  Definition windows (x : t) : list (res slice) := [payload_slice x].
  Definition accessors (x : t) : list (res unit) :=
    LinuxSllHeaderA.accessors (fst x) ++
    [run (to_header x); run (payload_slice x); run (payload x); run (debug x)].
End LinuxSllA.

(* ---- MacsecHeaderSlice / MacsecSlice -------------------------------------- *)
Inductive macsec_ptype :=
| PtEncrypted | PtEncryptedUnmodified | PtModified | PtUnmodified (ether_type : N).

Module MacsecHeaderA.
  Definition tci_an_raw (h : slice) : res N := rdU h 0.
  Definition endstation_id (h : slice) : res bool := let* t := tci_an_raw h in Ok (bitset t 64).
  Definition tci_scb (h : slice) : res bool := let* t := tci_an_raw h in Ok (bitset t 16).
  Definition encrypted (h : slice) : res bool := let* t := tci_an_raw h in Ok (bitset t 8).
  Definition userdata_changed (h : slice) : res bool := let* t := tci_an_raw h in Ok (bitset t 4).
  Definition is_unmodified (h : slice) : res bool := let* t := tci_an_raw h in Ok (N.land t 12 =? 0).
  Definition ptype (h : slice) : res macsec_ptype :=
    let* e := encrypted h in
    let* c := userdata_changed h in
    if e then (if c then Ok PtEncrypted else Ok PtEncryptedUnmodified)
    else if c then Ok PtModified
    else
      let* t := tci_an_raw h in
      if bitset t 32 then
        (let* a := rdU h 14 in let* b := rdU h 15 in Ok (PtUnmodified (be16 a b)))
      else
        (let* a := rdU h 6 in let* b := rdU h 7 in Ok (PtUnmodified (be16 a b))).
  Definition an (h : slice) : res N := let* t := tci_an_raw h in Ok (N.land t 3).
  Definition short_len (h : slice) : res N := let* b := rdU h 1 in Ok (N.land b 63).
  Definition packet_nr (h : slice) : res N :=
    let* a := rdU h 2 in let* b := rdU h 3 in let* c := rdU h 4 in let* d := rdU h 5 in
    Ok (be32 a b c d).
  Definition sci_present (h : slice) : res bool := let* t := tci_an_raw h in Ok (bitset t 32).
  Definition sci (h : slice) : res (option bytes) :=
    let* p := sci_present h in
    if p then
      (let* a0 := rdU h 6 in let* a1 := rdU h 7 in let* a2 := rdU h 8 in let* a3 := rdU h 9 in
       let* a4 := rdU h 10 in let* a5 := rdU h 11 in let* a6 := rdU h 12 in let* a7 := rdU h 13 in
       Ok (Some [a0; a1; a2; a3; a4; a5; a6; a7]))
    else Ok None.
  Definition next_ether_type (h : slice) : res (option N) :=
    let* t := tci_an_raw h in
    if negb (N.land t 12 =? 0) then Ok None
    else
      let* p := sci_present h in
      if p then (let* a := rdU h 14 in let* b := rdU h 15 in Ok (Some (be16 a b)))
      else (let* a := rdU h 6 in let* b := rdU h 7 in Ok (Some (be16 a b))).
  Definition header_len (h : slice) : res N :=
    let* sc := sci_present h in
    let* un := is_unmodified h in
    Ok (6 + (if sc then 8 else 0) + (if un then 2 else 0)).
  Definition expected_payload_len (h : slice) : res (option N) :=
    let* sl := short_len h in
    if 0 <? sl then
      let* t := tci_an_raw h in
      if negb (N.land t 12 =? 0) then Ok (Some sl)
      else if sl <? 2 then Ok None
      else (let* d := subN sl 2 in Ok (Some d))
    else Ok None.
  Definition to_header (h : slice)
    : res (macsec_ptype * bool * bool * N * N * N * option bytes) :=
    let* pt := ptype h in
    let* es := endstation_id h in
    let* scb := tci_scb h in
    let* a := an h in
    let* sl := short_len h in
    let* pn := packet_nr h in
    let* sc := sci h in
    Ok (pt, es, scb, a, sl, pn, sc).

  Definition accessors (h : slice) : list (res unit) :=
    [run (tci_an_raw h); run (endstation_id h); run (tci_scb h); run (encrypted h);
     run (userdata_changed h); run (is_unmodified h); run (ptype h); run (an h);
     run (short_len h); run (packet_nr h); run (sci_present h); run (sci h);
     run (next_ether_type h); run (header_len h); run (expected_payload_len h);
     run (to_header h)].
End MacsecHeaderA.

Module MacsecA.
  (* header and payload are public stored fields *)
  Definition ether_payload (m : macsec_slice) : res (option ether_payload) :=
    match ms_payload m with
    | MpUnmodified e => Ok (Some e)
    | MpModified _ => Ok None
    end.
  Definition next_ether_type (m : macsec_slice) := MacsecHeaderA.next_ether_type (ms_header m).
  Definition accessors (m : macsec_slice) : list (res unit) :=
    MacsecHeaderA.accessors (ms_header m) ++ [run (ether_payload m); run (next_ether_type m)].
End MacsecA.

(* ---- ArpPacketSlice --------------------------------------------------------- *)
Module ArpPacketA.
  Definition hw_addr_type (a : slice) : res N :=
    let* x := rdU a 0 in let* y := rdU a 1 in Ok (be16 x y).
  Definition proto_addr_type (a : slice) : res N :=
    let* x := rdU a 2 in let* y := rdU a 3 in Ok (be16 x y).
  Definition hw_addr_size (a : slice) : res N := rdU a 4.
  Definition proto_addr_size (a : slice) : res N := rdU a 5.
  Definition operation (a : slice) : res N :=
    let* x := rdU a 6 in let* y := rdU a 7 in Ok (be16 x y).
  Definition sender_hw_addr (a : slice) : res slice :=
    let* hw := hw_addr_size a in subU a 8 hw.
  Definition sender_protocol_addr (a : slice) : res slice :=
    let* hw := hw_addr_size a in
    let* pr := proto_addr_size a in
    subU a (8 + hw) pr.
  Definition target_hw_addr (a : slice) : res slice :=
    let* hw := hw_addr_size a in
    let* pr := proto_addr_size a in
    let* hw' := hw_addr_size a in
    subU a (8 + hw + pr) hw'.
  Definition target_protocol_addr (a : slice) : res slice :=
    let* hw := hw_addr_size a in
    let* pr := proto_addr_size a in
    let* pr' := proto_addr_size a in
    subU a (8 + hw * 2 + pr) pr'.
  (* ArpPacket::new_unchecked: copy_nonoverlapping(src, buf[255], src.len()) *)
  Definition copy255 (src : slice) : res bytes :=
    if s_len src <=? 255 then Ok (snd src) else Bug SITE_COPY.
  Definition to_packet (a : slice) : res (N * N * N * bytes * bytes * bytes * bytes) :=
    let* ht := hw_addr_type a in
    let* pt := proto_addr_type a in
    let* op := operation a in
    let* sh := sender_hw_addr a in
    let* sp := sender_protocol_addr a in
    let* th := target_hw_addr a in
    let* tp := target_protocol_addr a in
    let* b1 := copy255 sh in
    let* b2 := copy255 sp in
    let* b3 := copy255 th in
    let* b4 := copy255 tp in
    Ok (ht, pt, op, b1, b2, b3, b4).

  Definition windows (a : slice) : list (res slice) :=
    [sender_hw_addr a; sender_protocol_addr a; target_hw_addr a; target_protocol_addr a].
  (* accessors that need nothing but the length facts *)
  Definition accessors (a : slice) : list (res unit) :=
    [run (hw_addr_type a); run (proto_addr_type a); run (hw_addr_size a);
     run (proto_addr_size a); run (operation a); run (sender_hw_addr a);
     run (sender_protocol_addr a); run (target_hw_addr a); run (target_protocol_addr a)].
  (* conversions whose safety also needs "a byte is < 256" *)
  Definition conversions (a : slice) : list (res unit) := [run (to_packet a)].
End ArpPacketA.

(* ---- Ipv4HeaderSlice --------------------------------------------------------- *)
Module Ipv4HeaderA.
  Definition version (h : slice) : res N := let* b := rdU h 0 in Ok (N.shiftr b 4).
  Definition ihl (h : slice) : res N := let* b := rdU h 0 in Ok (N.land b 15).
  Definition dcp (h : slice) : res N := let* b := rdU h 1 in Ok (N.shiftr b 2).
  Definition ecn (h : slice) : res N := let* b := rdU h 1 in Ok (N.land b 3).
  Definition total_len (h : slice) : res N := rd16 h 2.
  (* Result<u16, LenError>: header_len = slice.len() as u16 *)
  Definition payload_len (h : slice) : res N :=
    let* total := total_len h in
    let header_len := s_len h mod 65536 in
    if header_len <=? total then (let* d := subN total header_len in Ok d)
    else lerr header_len total LsIpv4HeaderTotalLen LyIpv4Packet.
  Definition identification (h : slice) : res N := rd16 h 4.
  Definition dont_fragment (h : slice) : res bool := let* b := rdU h 6 in Ok (bitset b 64).
  Definition more_fragments (h : slice) : res bool := let* b := rdU h 6 in Ok (bitset b 32).
  Definition fragments_offset (h : slice) : res N :=
    let* a := rdU h 6 in let* b := rdU h 7 in Ok (be16 (N.land a 31) b).
  Definition ttl (h : slice) : res N := rdU h 8.
  Definition protocol (h : slice) : res N := rdU h 9.
  Definition header_checksum (h : slice) : res N := rd16 h 10.
  Definition source (h : slice) : res bytes := rd_arr h 12 4.
  Definition destination (h : slice) : res bytes := rd_arr h 16 4.
  Definition options (h : slice) : res slice :=
    let* n := subN (s_len h) 20 in subU h 20 n.
  Definition is_fragmenting_payload (h : slice) : res bool :=
    let* mf := more_fragments h in
    let* fo := fragments_offset h in
    Ok (mf || negb (fo =? 0)).
  (* options.len = len as u8; as_mut_slice = from_raw_parts_mut(buf[40], len);
     copy_from_slice panics when the lengths differ *)
  Definition to_header_options (o : slice) : res bytes :=
    let l8 := s_len o mod 256 in
    if 40 <? l8 then Bug SITE_COPY
    else if negb (l8 =? s_len o) then Bug SITE_INDEX
    else Ok (snd o).
  Definition to_header (h : slice)
    : res (N * N * N * N * bool * bool * N * N * N * N * bytes * bytes * bytes) :=
    let* f1 := dcp h in let* f2 := ecn h in let* f3 := total_len h in
    let* f4 := identification h in let* f5 := dont_fragment h in
    let* f6 := more_fragments h in let* f7 := fragments_offset h in
    let* f8 := ttl h in let* f9 := protocol h in let* f10 := header_checksum h in
    let* f11 := source h in let* f12 := destination h in
    let* o := options h in
    let* f13 := to_header_options o in
    Ok (f1, f2, f3, f4, f5, f6, f7, f8, f9, f10, f11, f12, f13).

  Definition windows (h : slice) : list (res slice) := [options h].
  Definition accessors (h : slice) : list (res unit) :=
    [run (version h); run (ihl h); run (dcp h); run (ecn h); run (total_len h);
     run (payload_len h); run (identification h); run (dont_fragment h);
     run (more_fragments h); run (fragments_offset h); run (ttl h); run (protocol h);
     run (header_checksum h); run (source h); run (destination h); run (options h);
     run (is_fragmenting_payload h); run (to_header h)].
End Ipv4HeaderA.

(* ---- IpAuthHeaderSlice -------------------------------------------------------- *)
Module IpAuthHeaderA.
  Definition MAX_ICV_LEN : N := 1016.   (* 0xfe * 4 *)
  Definition next_header (h : slice) : res N := rdU h 0.
  Definition spi (h : slice) : res N := rd32 h 4.
  Definition sequence_number (h : slice) : res N := rd32 h 8.
  Definition raw_icv (h : slice) : res slice := idx_from h 12.
  (* IpAuthHeader::new: Err(TooBig) / Err(Unaligned) / Ok; the Ok arm indexes
     raw_icv_buffer[..len] (buffer of MAX_ICV_LEN bytes) *)
  Definition header_new (nh spi seq : N) (icv : slice) : option (N * N * N * N * bytes) :=
    if MAX_ICV_LEN <? s_len icv then None
    else if negb (s_len icv mod 4 =? 0) then None
    else Some (nh, spi, seq, (s_len icv / 4) mod 256, snd icv).
  (* .unwrap() *)
  Definition to_header (h : slice) : res (N * N * N * N * bytes) :=
    let* nh := next_header h in
    let* sp := spi h in
    let* sq := sequence_number h in
    let* icv := raw_icv h in
    match header_new nh sp sq icv with
    | Some v => Ok v
    | None => Bug SITE_UNWRAP
    end.

  Definition windows (h : slice) : list (res slice) := [raw_icv h].
  Definition accessors (h : slice) : list (res unit) :=
    [run (next_header h); run (spi h); run (sequence_number h); run (raw_icv h)].
  Definition conversions (h : slice) : list (res unit) := [run (to_header h)].
End IpAuthHeaderA.

(* ---- Ipv6HeaderSlice ---------------------------------------------------------- *)
Module Ipv6HeaderA.
  Definition version (h : slice) : res N := let* b := rdU h 0 in Ok (N.shiftr b 4).
  (* (b0 << 4) | (b1 >> 4) on u8 *)
  Definition traffic_class (h : slice) : res N :=
    let* a := rdU h 0 in let* b := rdU h 1 in
    Ok (N.lor ((N.shiftl a 4) mod 256) (N.shiftr b 4)).
  Definition ecn (h : slice) : res N := let* t := traffic_class h in Ok (N.land t 3).
  Definition dscp (h : slice) : res N := let* t := traffic_class h in Ok (N.land (N.shiftr t 2) 63).
  Definition flow_label (h : slice) : res N :=
    let* a := rdU h 1 in let* b := rdU h 2 in let* c := rdU h 3 in
    Ok (be32 0 (N.land a 15) b c).
  Definition payload_length (h : slice) : res N := rd16 h 4.
  Definition next_header (h : slice) : res N := rdU h 6.
  Definition hop_limit (h : slice) : res N := rdU h 7.
  Definition source (h : slice) : res bytes := rd_arr h 8 16.
  Definition destination (h : slice) : res bytes := rd_arr h 24 16.
  Definition to_header (h : slice) : res (N * N * N * N * N * bytes * bytes) :=
    let* tc := traffic_class h in let* fl := flow_label h in
    let* pl := payload_length h in let* nh := next_header h in
    let* hl := hop_limit h in let* s := source h in let* d := destination h in
    Ok (tc, fl, pl, nh, hl, s, d).
  Definition accessors (h : slice) : list (res unit) :=
    [run (version h); run (traffic_class h); run (ecn h); run (dscp h); run (flow_label h);
     run (payload_length h); run (next_header h); run (hop_limit h); run (source h);
     run (destination h); run (to_header h)].
End Ipv6HeaderA.

(* ---- Ipv6RawExtHeaderSlice ----------------------------------------------------- *)
Module Ipv6RawExtHeaderA.
  Definition MIN_PAYLOAD_LEN : N := 6.
  Definition MAX_PAYLOAD_LEN : N := 2046.   (* 0xff * 8 + 6 *)
  (* from_slice_unchecked: from_raw_parts(ptr, (slice[1] + 1) * 8), slice[1] read unchecked *)
  Definition from_slice_unchecked (s : slice) : res slice :=
    let* b := rdU s 1 in subU s 0 ((b + 1) * 8).
  Definition next_header (h : slice) : res N := rdU h 0.
  Definition payload (h : slice) : res slice :=
    let* n := subN (s_len h) 2 in subU h 2 n.
  (* Ipv6RawExtHeader::new_raw *)
  Definition new_raw (nh : N) (p : slice) : option (N * N * bytes) :=
    if s_len p <? MIN_PAYLOAD_LEN then None
    else if MAX_PAYLOAD_LEN <? s_len p then None
    else if negb ((s_len p + 2) mod 8 =? 0) then None
    else Some (nh, ((s_len p - 6) / 8) mod 256, snd p).
  Definition to_header (h : slice) : res (N * N * bytes) :=
    let* nh := next_header h in
    let* p := payload h in
    match new_raw nh p with
    | Some v => Ok v
    | None => Bug SITE_UNWRAP
    end.
  Definition windows (h : slice) : list (res slice) := [payload h].
  Definition accessors (h : slice) : list (res unit) := [run (next_header h); run (payload h)].
  Definition conversions (h : slice) : list (res unit) := [run (to_header h)].
End Ipv6RawExtHeaderA.

(* ---- Ipv6FragmentHeaderSlice ---------------------------------------------------- *)
Module Ipv6FragmentHeaderA.
  Definition from_slice_unchecked (s : slice) : res slice := subU s 0 8.
  Definition next_header (h : slice) : res N := rdU h 0.
  Definition fragment_offset (h : slice) : res N :=
    let* a := rdU h 2 in let* b := rdU h 3 in Ok (N.shiftr (be16 a b) 3).
  Definition more_fragments (h : slice) : res bool := let* b := rdU h 3 in Ok (bitset b 1).
  Definition identification (h : slice) : res N := rd32 h 4.
  Definition is_fragmenting_payload (h : slice) : res bool :=
    let* mf := more_fragments h in
    let* fo := fragment_offset h in
    Ok (mf || negb (fo =? 0)).
  Definition to_header (h : slice) : res (N * N * bool * N) :=
    let* nh := next_header h in let* fo := fragment_offset h in
    let* mf := more_fragments h in let* id := identification h in
    Ok (nh, fo, mf, id).
  Definition accessors (h : slice) : list (res unit) :=
    [run (next_header h); run (fragment_offset h); run (more_fragments h);
     run (identification h); run (is_fragmenting_payload h); run (to_header h)].
End Ipv6FragmentHeaderA.

(* ---- Ipv6ExtensionsSlice: into_iter + Ipv6ExtensionSliceIter --------------------- *)
Inductive ext_item :=
| XHopByHop (s : slice) | XRouting (s : slice) | XFragment (s : slice)
| XDestinationOptions (s : slice) | XAuthentication (s : slice).

Definition ext_item_slice (x : ext_item) : slice :=
  match x with
  | XHopByHop s | XRouting s | XFragment s | XDestinationOptions s | XAuthentication s => s
  end.

Record ext_iter := mkExtIter { xi_next_header : N; xi_rest : slice }.

Module Ipv6ExtIterA.
  (* IpAuthHeaderSlice::from_slice_unchecked *)
  Definition auth_from_slice_unchecked (s : slice) : res slice :=
    let* b := rdU s 1 in subU s 0 ((b + 2) * 4).

  (* impl IntoIterator for Ipv6ExtensionsSlice *)
  Definition into_iter (x : ipv6_exts_slice) : ext_iter :=
    mkExtIter (match x6_first x with Some v => v | None => IPN_UDP end) (x6_slice x).

  (* the five arms are textually the same up to the unchecked constructor,
     the next_header accessor and the item constructor *)
  Definition arm (it : ext_iter) (mk : slice -> res slice) (nh : slice -> res N)
      (wrap : slice -> ext_item) : res (option (ext_item * ext_iter)) :=
    let rest := xi_rest it in
    let* sl := mk rest in
    let l := s_len sl in
    let* n := subN (s_len rest) l in
    let* rest' := subU rest l n in
    let* nx := nh sl in
    Ok (Some (wrap sl, mkExtIter nx rest')).

  (* Iterator::next (with the fix d1e93b9: None when rest is empty) *)
  Definition next (it : ext_iter) : res (option (ext_item * ext_iter)) :=
    if s_len (xi_rest it) =? 0 then Ok None
    else if xi_next_header it =? IPN_HOP_BY_HOP then
      arm it Ipv6RawExtHeaderA.from_slice_unchecked Ipv6RawExtHeaderA.next_header XHopByHop
    else if xi_next_header it =? IPN_ROUTE then
      arm it Ipv6RawExtHeaderA.from_slice_unchecked Ipv6RawExtHeaderA.next_header XRouting
    else if xi_next_header it =? IPN_DEST_OPTIONS then
      arm it Ipv6RawExtHeaderA.from_slice_unchecked Ipv6RawExtHeaderA.next_header XDestinationOptions
    else if xi_next_header it =? IPN_FRAG then
      arm it Ipv6FragmentHeaderA.from_slice_unchecked Ipv6FragmentHeaderA.next_header XFragment
    else if xi_next_header it =? IPN_AUTH then
      arm it auth_from_slice_unchecked IpAuthHeaderA.next_header XAuthentication
    else Ok None.

  (* `for x in exts { .. }`: call next until None; fuel = loop bound of the model *)
  Fixpoint collect (fuel : nat) (it : ext_iter) : res (list ext_item) :=
    match fuel with
    | O => Bug SITE_FUEL
    | S f =>
        let* o := next it in
        match o with
        | None => Ok []
        | Some (x, it') => let* r := collect f it' in Ok (x :: r)
        end
    end.

  (* iterate a whole Ipv6ExtensionsSlice; one call of next per 8 bytes at most, plus the last *)
  Definition items (x : ipv6_exts_slice) : res (list ext_item) :=
    collect (S (length (snd (x6_slice x)))) (into_iter x).

  (* accessors of one yielded item *)
  Definition item_accessors (x : ext_item) : list (res unit) :=
    match x with
    | XHopByHop s | XRouting s | XDestinationOptions s =>
        Ipv6RawExtHeaderA.accessors s ++ Ipv6RawExtHeaderA.conversions s
    | XFragment s => Ipv6FragmentHeaderA.accessors s
    | XAuthentication s => IpAuthHeaderA.accessors s ++ IpAuthHeaderA.conversions s
    end.
  Definition item_windows (x : ext_item) : list (res slice) :=
    match x with
    | XHopByHop s | XRouting s | XDestinationOptions s => Ipv6RawExtHeaderA.windows s
    | XFragment s => []
    | XAuthentication s => IpAuthHeaderA.windows s
    end.
End Ipv6ExtIterA.

(* ---- Ipv4Slice / Ipv6Slice / IpSlice ---------------------------------------------- *)
Module Ipv4SliceA.
  (* header(), extensions(), payload(), payload_ip_number() return stored fields *)
  Definition is_payload_fragmented (v : ipv4_slice) : res bool :=
    Ipv4HeaderA.is_fragmenting_payload (v4_header v).
  Definition accessors (v : ipv4_slice) : list (res unit) :=
    Ipv4HeaderA.accessors (v4_header v) ++
    match v4_auth v with
    | Some a => IpAuthHeaderA.accessors a ++ IpAuthHeaderA.conversions a
    | None => []
    end ++
    [run (is_payload_fragmented v)].
  Definition windows (v : ipv4_slice) : list (res slice) :=
    Ipv4HeaderA.windows (v4_header v) ++
    match v4_auth v with Some a => IpAuthHeaderA.windows a | None => [] end.
End Ipv4SliceA.

Module Ipv6SliceA.
  (* header(), extensions(), payload(), is_payload_fragmented() return stored fields;
     the extension iterator and the accessors of every yielded item are included *)
  Definition accessors (v : ipv6_slice) : list (res unit) :=
    Ipv6HeaderA.accessors (v6_header v) ++
    [run (Ipv6ExtIterA.items (v6_exts v))] ++
    match Ipv6ExtIterA.items (v6_exts v) with
    | Ok l => flat_map Ipv6ExtIterA.item_accessors l
    | _ => []
    end.
  Definition windows (v : ipv6_slice) : list (res slice) :=
    match Ipv6ExtIterA.items (v6_exts v) with
    | Ok l => map (fun x => Ok (ext_item_slice x)) l ++ flat_map Ipv6ExtIterA.item_windows l
    | _ => []
    end.
End Ipv6SliceA.

Module IpSliceA.
  Definition accessors (i : ip_slice) : list (res unit) :=
    match i with IpV4 v => Ipv4SliceA.accessors v | IpV6 v => Ipv6SliceA.accessors v end.
  Definition windows (i : ip_slice) : list (res slice) :=
    match i with IpV4 v => Ipv4SliceA.windows v | IpV6 v => Ipv6SliceA.windows v end.
End IpSliceA.

(* ---- UdpHeaderSlice / UdpSlice ------------------------------------------------------ *)
Module UdpA.
  (* the field accessors of UdpHeaderSlice and UdpSlice are textually the same *)
  Definition source_port (s : slice) : res N := rd16 s 0.
  Definition destination_port (s : slice) : res N := rd16 s 2.
  Definition length (s : slice) : res N := rd16 s 4.
  Definition checksum (s : slice) : res N := rd16 s 6.
  Definition to_header (s : slice) : res (N * N * N * N) :=
    let* a := source_port s in let* b := destination_port s in
    let* c := length s in let* d := checksum s in Ok (a, b, c, d).
  (* UdpSlice only *)
  Definition header_slice (s : slice) : res slice := subU s 0 8.
  Definition payload (s : slice) : res slice :=
    let* n := subN (s_len s) 8 in subU s 8 n.
  Definition payload_len_source (s : slice) : res len_source :=
    let* l := length s in
    Ok (if l =? s_len s then LsUdpHeaderLen else LsSlice).

  Definition header_accessors (h : slice) : list (res unit) :=
    [run (source_port h); run (destination_port h); run (length h); run (checksum h);
     run (to_header h)].
  Definition windows (s : slice) : list (res slice) := [header_slice s; payload s].
  Definition accessors (s : slice) : list (res unit) :=
    header_accessors s ++ [run (header_slice s); run (payload s); run (payload_len_source s)].
End UdpA.

(* ---- TcpSlice / TcpHeaderSlice -------------------------------------------------------- *)
Module TcpFieldsA.
  (* field and flag accessors: the same text in both types *)
  Definition source_port (s : slice) : res N := rd16 s 0.
  Definition destination_port (s : slice) : res N := rd16 s 2.
  Definition sequence_number (s : slice) : res N := rd32 s 4.
  Definition acknowledgment_number (s : slice) : res N := rd32 s 8.
  Definition data_offset (s : slice) : res N :=
    let* b := rdU s 12 in Ok (N.shiftr (N.land b 240) 4).
  Definition ns (s : slice) : res bool := let* b := rdU s 12 in Ok (bitset b 1).
  Definition fin (s : slice) : res bool := let* b := rdU s 13 in Ok (bitset b 1).
  Definition syn (s : slice) : res bool := let* b := rdU s 13 in Ok (bitset b 2).
  Definition rst (s : slice) : res bool := let* b := rdU s 13 in Ok (bitset b 4).
  Definition psh (s : slice) : res bool := let* b := rdU s 13 in Ok (bitset b 8).
  Definition ack (s : slice) : res bool := let* b := rdU s 13 in Ok (bitset b 16).
  Definition urg (s : slice) : res bool := let* b := rdU s 13 in Ok (bitset b 32).
  Definition ece (s : slice) : res bool := let* b := rdU s 13 in Ok (bitset b 64).
  Definition cwr (s : slice) : res bool := let* b := rdU s 13 in Ok (bitset b 128).
  Definition window_size (s : slice) : res N :=
    let* a := rdU s 14 in let* b := rdU s 15 in Ok (be16 a b).
  Definition checksum (s : slice) : res N :=
    let* a := rdU s 16 in let* b := rdU s 17 in Ok (be16 a b).
  Definition urgent_pointer (s : slice) : res N :=
    let* a := rdU s 18 in let* b := rdU s 19 in Ok (be16 a b).
  Definition fields (s : slice) : res (N * N * N * N * list bool * N * N * N) :=
    let* f1 := source_port s in let* f2 := destination_port s in
    let* f3 := sequence_number s in let* f4 := acknowledgment_number s in
    let* b1 := ns s in let* b2 := fin s in let* b3 := syn s in let* b4 := rst s in
    let* b5 := psh s in let* b6 := ack s in let* b7 := ece s in let* b8 := urg s in
    let* b9 := cwr s in
    let* f5 := window_size s in let* f6 := checksum s in let* f7 := urgent_pointer s in
    Ok (f1, f2, f3, f4, [b1; b2; b3; b4; b5; b6; b7; b8; b9], f5, f6, f7).
  (* TcpOptions { len: len as u8, buf: [0; 40] }; buf[..len].clone_from_slice(options) *)
  Definition to_header_options (o : slice) : res (N * bytes) :=
    if 40 <? s_len o then Bug SITE_INDEX else Ok (s_len o mod 256, snd o).
  Definition field_accessors (s : slice) : list (res unit) :=
    [run (source_port s); run (destination_port s); run (sequence_number s);
     run (acknowledgment_number s); run (data_offset s); run (ns s); run (fin s); run (syn s);
     run (rst s); run (psh s); run (ack s); run (urg s); run (ece s); run (cwr s);
     run (window_size s); run (checksum s); run (urgent_pointer s); run (fields s)].
End TcpFieldsA.

Module TcpSliceA.
  (* TcpSlice = (header_len, slice) as in Parse/Slices.v *)
  Definition t := (N * slice)%type.
  Definition header_slice (x : t) : res slice := subU (snd x) 0 (fst x).
  Definition payload (x : t) : res slice :=
    let* n := subN (s_len (snd x)) (fst x) in subU (snd x) (fst x) n.
  (* &self.slice[TcpHeader::MIN_LEN..self.header_len] *)
  Definition options (x : t) : res slice := idx_range (snd x) 20 (fst x).
  Definition to_header (x : t) :=
    let* f := TcpFieldsA.fields (snd x) in
    let* o := options x in
    let* oo := TcpFieldsA.to_header_options o in
    Ok (f, oo).
  (* calc_checksum_post_ip: &self.slice[..16], &self.slice[18..] *)
  Definition checksum_windows (x : t) : res (slice * slice) :=
    let* a := idx_range (snd x) 0 16 in
    let* b := idx_from (snd x) 18 in
    Ok (a, b).
  Definition debug (x : t) : res unit :=
    let* _ := to_header x in let* _ := payload x in Ok tt.
  Definition windows (x : t) : list (res slice) := [header_slice x; payload x; options x].
  Definition accessors (x : t) : list (res unit) :=
    TcpFieldsA.field_accessors (snd x) ++
    [run (header_slice x); run (payload x); run (options x); run (to_header x);
     run (checksum_windows x); run (debug x)].
End TcpSliceA.

Module TcpHeaderSliceA.
  (* TcpHeaderSlice::from_slice (not used by the packet cursors, hence not in Slices.v) *)
  Definition from_slice (s : slice) : res slice :=
    if s_len s <? 20 then lerr 20 (s_len s) LsSlice LyTcpHeader
    else
      let* b12 := rdU s 12 in
      let header_len := N.shiftr (N.land b12 240) 2 in
      if header_len <? 20 then
        Err (EContent (CeTcpDataOffset ((N.shiftr header_len 2) mod 256)))
      else if s_len s <? header_len then lerr header_len (s_len s) LsSlice LyTcpHeader
      else subU s 0 header_len.
  (* &self.slice[TcpHeader::MIN_LEN..self.data_offset() as usize * 4] *)
  Definition options (h : slice) : res slice :=
    let* d := TcpFieldsA.data_offset h in idx_range h 20 (d * 4).
  Definition to_header (h : slice) :=
    let* f := TcpFieldsA.fields h in
    let* o := options h in
    let* oo := TcpFieldsA.to_header_options o in
    Ok (f, oo).
  (* calc_checksum_post_ip: &self.slice[..16], &self.slice[18..self.slice.len()] *)
  Definition checksum_windows (h : slice) : res (slice * slice) :=
    let* a := idx_range h 0 16 in
    let* b := idx_range h 18 (s_len h) in
    Ok (a, b).
  Definition windows (h : slice) : list (res slice) := [options h].
  Definition accessors (h : slice) : list (res unit) :=
    TcpFieldsA.field_accessors h ++
    [run (options h); run (to_header h); run (checksum_windows h)].
End TcpHeaderSliceA.

(* ---- Icmpv4Slice -------------------------------------------------------------------------- *)
Inductive icmpv4_type :=
| I4EchoReply (b : bytes) | I4EchoRequest (b : bytes)
| I4DestUnreachable (code : N) (next_hop_mtu : option N)
| I4Redirect (code : N) (gateway : bytes)
| I4TimeExceeded (code : N)
| I4ParameterProblem (code : N) (pointer : option N)
| I4TimestampRequest (id seq orig recv trans : N)
| I4TimestampReply (id seq orig recv trans : N)
| I4Unknown (type_u8 code_u8 : N) (b : bytes).

Module Icmpv4A.
  Definition type_u8 (s : slice) : res N := rdU s 0.
  Definition code_u8 (s : slice) : res N := rdU s 1.
  Definition checksum (s : slice) : res N := rd16 s 2.
  Definition bytes5to8 (s : slice) : res bytes :=
    let* a := rdU s 4 in let* b := rdU s 5 in let* c := rdU s 6 in let* d := rdU s 7 in
    Ok [a; b; c; d].
  Definition is_ts (t c : N) : bool := ((t =? 13) || (t =? 14)) && (0 =? c).
  Definition header_len (s : slice) : res N :=
    let* t := type_u8 s in
    let* c := code_u8 s in
    Ok (if is_ts t c then 20 else 8).
  Definition payload (s : slice) : res slice :=
    let* t := type_u8 s in
    let* c := code_u8 s in
    let header_len := if is_ts t c then 20 else 8 in
    let* n := subN (s_len s) header_len in
    subU s header_len n.
  (* unsafe fn timestamp_message(ptr) *)
  Definition timestamp_message (s : slice) : res (N * N * N * N * N) :=
    let* id := rd16 s 4 in let* sq := rd16 s 6 in
    let* o := rd32 s 8 in let* r := rd32 s 12 in let* t := rd32 s 16 in
    Ok (id, sq, o, r, t).
  Definition unknown (s : slice) : res icmpv4_type :=
    let* t := type_u8 s in let* c := code_u8 s in let* b := bytes5to8 s in
    Ok (I4Unknown t c b).
  Definition icmp_type (s : slice) : res icmpv4_type :=
    let* t := type_u8 s in
    let* c := code_u8 s in
    if (t =? 0) && (0 =? c) then (let* b := bytes5to8 s in Ok (I4EchoReply b))
    else if t =? 3 then
      (if c =? 4 then (let* m := rd16 s 6 in Ok (I4DestUnreachable c (Some m)))
       else if c <=? 15 then Ok (I4DestUnreachable c None)
       else unknown s)
    else if t =? 5 then
      (if c <=? 3 then (let* b := bytes5to8 s in Ok (I4Redirect c b)) else unknown s)
    else if (t =? 8) && (0 =? c) then (let* b := bytes5to8 s in Ok (I4EchoRequest b))
    else if t =? 11 then (if c <=? 1 then Ok (I4TimeExceeded c) else unknown s)
    else if t =? 12 then
      (if c =? 0 then (let* p := rdU s 4 in Ok (I4ParameterProblem c (Some p)))
       else if c <=? 2 then Ok (I4ParameterProblem c None)
       else unknown s)
    else if (t =? 13) && (0 =? c) then
      (let* m := timestamp_message s in
       let '(id, sq, o, r, x) := m in Ok (I4TimestampRequest id sq o r x))
    else if (t =? 14) && (0 =? c) then
      (let* m := timestamp_message s in
       let '(id, sq, o, r, x) := m in Ok (I4TimestampReply id sq o r x))
    else unknown s.
  Definition header (s : slice) : res (icmpv4_type * N) :=
    let* t := icmp_type s in let* c := checksum s in Ok (t, c).
  Definition windows (s : slice) : list (res slice) := [payload s].
  Definition accessors (s : slice) : list (res unit) :=
    [run (type_u8 s); run (code_u8 s); run (checksum s); run (bytes5to8 s);
     run (header_len s); run (payload s); run (icmp_type s); run (header s)].
End Icmpv4A.

(* ---- Icmpv6Slice -------------------------------------------------------------------------- *)
Module Icmpv6A.
  Definition type_u8 (s : slice) : res N := rdU s 0.
  Definition code_u8 (s : slice) : res N := rdU s 1.
  Definition checksum (s : slice) : res N := rd16 s 2.
  Definition bytes5to8 (s : slice) : res bytes :=
    let* a := rdU s 4 in let* b := rdU s 5 in let* c := rdU s 6 in let* d := rdU s 7 in
    Ok [a; b; c; d].
  Definition payload (s : slice) : res slice :=
    let* n := subN (s_len s) 8 in subU s 8 n.
  (* icmp_type(): every arm reads type_u8, code_u8 and at most bytes5to8; the
     classification itself is value-level (modelled in CtlMsg) *)
  Definition icmp_type (s : slice) : res (N * N * bytes) :=
    let* t := type_u8 s in let* c := code_u8 s in let* b := bytes5to8 s in Ok (t, c, b).
  Definition header (s : slice) : res (N * N * bytes * N) :=
    let* t := icmp_type s in let* c := checksum s in
    let '(a, b, d) := t in Ok (a, b, d, c).
  Definition windows (s : slice) : list (res slice) := [payload s].
  Definition accessors (s : slice) : list (res unit) :=
    [run (type_u8 s); run (code_u8 s); run (checksum s); run (bytes5to8 s);
     run (payload s); run (icmp_type s); run (header s)].
End Icmpv6A.

(* ---- whole packets: all accessors / windows of all components of a SlicedPacket ------------- *)
Module SlicedPacketA.
  Definition link_accessors (l : link_slice) : list (res unit) :=
    match l with
    | LkEthernet2 s => Ethernet2A.accessors (mkEth2 0 s)
    | LkLinuxSll h w => LinuxSllA.accessors (h, w)
    | LkEtherPayload _ => []
    end.
  Definition ext_accessors (x : link_ext_slice) : list (res unit) :=
    match x with
    | LeVlan s => SingleVlanA.accessors s
    | LeMacsec m => MacsecA.accessors m
    end.
  Definition net_accessors (n : net_slice) : list (res unit) :=
    match n with
    | NtIpv4 v => Ipv4SliceA.accessors v
    | NtIpv6 v => Ipv6SliceA.accessors v
    | NtArp a => ArpPacketA.accessors a ++ ArpPacketA.conversions a
    end.
  Definition transport_accessors (t : transport_slice) : list (res unit) :=
    match t with
    | TrUdp s => UdpA.accessors s
    | TrTcp hl s => TcpSliceA.accessors (hl, s)
    | TrIcmpv4 s => Icmpv4A.accessors s
    | TrIcmpv6 s => Icmpv6A.accessors s
    end.
  Definition opt {A B} (f : A -> list B) (o : option A) : list B :=
    match o with Some a => f a | None => [] end.
  Definition accessors (p : sliced_packet) : list (res unit) :=
    opt link_accessors (sp_link p) ++ flat_map ext_accessors (sp_exts p) ++
    opt net_accessors (sp_net p) ++ opt transport_accessors (sp_transport p).

  Definition link_windows (l : link_slice) : list (res slice) :=
    match l with
    | LkEthernet2 s => Ok s :: Ethernet2A.windows (mkEth2 0 s)
    | LkLinuxSll h w => Ok h :: Ok w :: LinuxSllHeaderA.windows h ++ LinuxSllA.windows (h, w)
    | LkEtherPayload e => [Ok (ep_slice e)]
    end.
  Definition ext_windows (x : link_ext_slice) : list (res slice) :=
    match x with
    | LeVlan s => Ok s :: SingleVlanA.windows s
    | LeMacsec m =>
        [Ok (ms_header m);
         Ok (match ms_payload m with MpUnmodified e => ep_slice e | MpModified s => s end)]
    end.
  Definition net_windows (n : net_slice) : list (res slice) :=
    match n with
    | NtIpv4 v =>
        Ok (v4_header v) :: Ok (ipp_slice (v4_payload v)) ::
        match v4_auth v with Some a => [Ok a] | None => [] end ++ Ipv4SliceA.windows v
    | NtIpv6 v =>
        Ok (v6_header v) :: Ok (x6_slice (v6_exts v)) :: Ok (ipp_slice (v6_payload v)) ::
        Ipv6SliceA.windows v
    | NtArp a => Ok a :: ArpPacketA.windows a
    end.
  Definition transport_windows (t : transport_slice) : list (res slice) :=
    match t with
    | TrUdp s => Ok s :: UdpA.windows s
    | TrTcp hl s => Ok s :: TcpSliceA.windows (hl, s)
    | TrIcmpv4 s => Ok s :: Icmpv4A.windows s
    | TrIcmpv6 s => Ok s :: Icmpv6A.windows s
    end.
  Definition windows (p : sliced_packet) : list (res slice) :=
    opt link_windows (sp_link p) ++ flat_map ext_windows (sp_exts p) ++
    opt net_windows (sp_net p) ++ opt transport_windows (sp_transport p).
End SlicedPacketA.
